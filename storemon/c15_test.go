//go:build verif

package storemon

import (
	"bytes"
	"fmt"
	"math"
	"sort"
	"strconv"
	"strings"
	"testing"
	"time"

	tmdb "github.com/cometbft/cometbft-db"
	"github.com/cometbft/cometbft/libs/log"
	tmproto "github.com/cometbft/cometbft/proto/tendermint/types"
	"github.com/cosmos/cosmos-sdk/codec"
	codectypes "github.com/cosmos/cosmos-sdk/codec/types"
	"github.com/cosmos/cosmos-sdk/store"
	storetypes "github.com/cosmos/cosmos-sdk/store/types"
	sdk "github.com/cosmos/cosmos-sdk/types"
	timertypes "github.com/lavanet/lava/v5/x/timerstore/types"

	"verif/internal/ev"
	"verif/internal/vrand"
)

func newCtx() (sdk.Context, codec.BinaryCodec, storetypes.StoreKey) {
	db := tmdb.NewMemDB()
	ms := store.NewCommitMultiStore(db)
	key := sdk.NewKVStoreKey("verifstore")
	ms.MountStoreWithDB(key, storetypes.StoreTypeIAVL, db)
	if err := ms.LoadLatestVersion(); err != nil {
		panic(err)
	}
	cdc := codec.NewProtoCodec(codectypes.NewInterfaceRegistry())
	ctx := sdk.NewContext(ms, tmproto.Header{}, false, log.NewNopLogger())
	ctx = ctx.WithBlockHeight(1).WithBlockTime(time.Unix(1_000_000, 0).UTC())
	return ctx, cdc, key
}

// ---- reference model of one timer kind: ordered map (expiry,key) -> data
type mtimer struct {
	Exp  uint64 `json:"exp"`
	Key  string `json:"key"`
	Data string `json:"data"`
}

type timerModel map[string]mtimer

func mk(exp uint64, key string) string { return fmt.Sprintf("%020d|%s", exp, key) }

func (m timerModel) sorted() []mtimer {
	out := make([]mtimer, 0, len(m))
	for _, x := range m {
		out = append(out, x)
	}
	sort.Slice(out, func(i, j int) bool {
		if out[i].Exp != out[j].Exp {
			return out[i].Exp < out[j].Exp
		}
		return bytes.Compare([]byte(out[i].Key), []byte(out[j].Key)) < 0
	})
	return out
}

type fired struct {
	Kind int    `json:"kind"`
	Key  string `json:"key"`
	Data string `json:"data"`
}

type c15op struct {
	Op   string `json:"op"`
	Kind int    `json:"kind"`
	Exp  uint64 `json:"exp,omitempty"`
	Key  string `json:"key,omitempty"`
	Data string `json:"data,omitempty"`
	DH   uint64 `json:"dh,omitempty"`
	DT   uint64 `json:"dt,omitempty"`
}

// A timer's data decides what its callback does, so model and implementation perform the same
// effect without consulting each other:
//   "A:<delta>:<key>"  add a timer of the same kind at now+1+delta
//   "X:<delta>:<key>"  add a timer of the other kind at (its) now+1+delta
//   "D:<exp>:<key>"    delete timer (exp,key) of the same kind if it is pending
//   anything else      nothing
type effect struct {
	kind  byte
	n     uint64
	key   string
	valid bool
}

func parseEffect(d string) effect {
	p := strings.SplitN(d, ":", 3)
	if len(p) != 3 || len(p[0]) != 1 || !strings.ContainsAny(p[0], "AXD") {
		return effect{}
	}
	n, err := strconv.ParseUint(p[1], 10, 64)
	if err != nil {
		return effect{}
	}
	return effect{p[0][0], n, p[2], true}
}

func TestC15(t *testing.T) {
	run := ev.Start("C15")
	nseq := run.Pick(800, 80000)
	nops := 80
	keys := []string{"a", "b", "ab", "a\x00", "", "zz", "b\xff"}
	fires, cbAdds, cbDels, overwrites, delFront, jumps := 0, 0, 0, 0, 0, 0
	for s := 0; s < nseq && run.Violations() < 5; s++ {
		rng := vrand.Sub(run.Seed, "c15", s)
		fires0, special0 := fires, cbAdds+cbDels+overwrites+delFront
		ctx, cdc, skey := newCtx()
		ts := timertypes.NewTimerStore(skey, cdc, "t_")
		models := [2]timerModel{{}, {}}
		var got []fired
		var ops []c15op
		now := func(c sdk.Context, kind int) uint64 {
			if kind == 0 {
				return uint64(c.BlockHeight())
			}
			return uint64(c.BlockTime().UTC().Unix())
		}
		add := func(c sdk.Context, kind int, exp uint64, key, data string) {
			if kind == 0 {
				ts.AddTimerByBlockHeight(c, exp, []byte(key), []byte(data))
			} else {
				ts.AddTimerByBlockTime(c, exp, []byte(key), []byte(data))
			}
		}
		has := func(c sdk.Context, kind int, exp uint64, key string) bool {
			if kind == 0 {
				return ts.HasTimerByBlockHeight(c, exp, []byte(key))
			}
			return ts.HasTimerByBlockTime(c, exp, []byte(key))
		}
		del := func(c sdk.Context, kind int, exp uint64, key string) {
			if kind == 0 {
				ts.DelTimerByBlockHeight(c, exp, []byte(key))
			} else {
				ts.DelTimerByBlockTime(c, exp, []byte(key))
			}
		}
		mkcb := func(kind int) timertypes.TimerCallback {
			return func(c sdk.Context, key, data []byte) {
				got = append(got, fired{kind, string(key), string(data)})
				e := parseEffect(string(data))
				if !e.valid {
					return
				}
				switch e.kind {
				case 'A':
					add(c, kind, now(c, kind)+1+e.n, e.key, "cb")
				case 'X':
					add(c, 1-kind, now(c, 1-kind)+1+e.n, e.key, "cb")
				case 'D':
					if has(c, kind, e.n, e.key) {
						del(c, kind, e.n, e.key)
					}
				}
			}
		}
		ts.WithCallbackByBlockHeight(mkcb(0)).WithCallbackByBlockTime(mkcb(1))

		// model tick for one kind: pop all <= tick in (expiry,key) order, mirroring callback effects
		modelTick := func(kind int, nowv [2]uint64, want *[]fired) {
			for {
				all := models[kind].sorted()
				if len(all) == 0 || all[0].Exp > nowv[kind] {
					return
				}
				f := all[0]
				delete(models[kind], mk(f.Exp, f.Key))
				*want = append(*want, fired{kind, f.Key, f.Data})
				e := parseEffect(f.Data)
				if !e.valid {
					continue
				}
				switch e.kind {
				case 'A':
					x := nowv[kind] + 1 + e.n
					models[kind][mk(x, e.key)] = mtimer{x, e.key, "cb"}
					cbAdds++
				case 'X':
					x := nowv[1-kind] + 1 + e.n
					models[1-kind][mk(x, e.key)] = mtimer{x, e.key, "cb"}
					cbAdds++
				case 'D':
					if _, ok := models[kind][mk(e.n, e.key)]; ok {
						delete(models[kind], mk(e.n, e.key))
						cbDels++
					}
				}
			}
		}
		fail := func(rule, desc string) {
			run.Violation(rule, rule, desc, map[string]any{"sequence": s, "ops": ops})
		}
		compareState := func(where string) bool {
			for k := 0; k < 2; k++ {
				want := models[k].sorted()
				var have []mtimer
				store := prefixDump(ctx, ts, timertypes.TimerType(k))
				have = store
				if len(want) != len(have) {
					fail("pending-set-differs", fmt.Sprintf("%s kind %d: model %v impl %v", where, k, want, have))
					return false
				}
				for i := range want {
					if want[i] != have[i] {
						fail("pending-set-differs", fmt.Sprintf("%s kind %d idx %d: model %v impl %v", where, k, i, want[i], have[i]))
						return false
					}
				}
				nt := ts.GetNextTimeoutBlockHeight(ctx)
				if k == 1 {
					nt = ts.GetNextTimeoutBlockTime(ctx)
				}
				tf := uint64(math.MaxUint64)
				if len(want) > 0 {
					tf = want[0].Exp
				}
				if nt > tf {
					fail("next-timeout-later-than-front", fmt.Sprintf("%s kind %d next=%d true front=%d", where, k, nt, tf))
					return false
				}
			}
			return true
		}
		ok := true
		for i := 0; i < nops && ok; i++ {
			kind := rng.Intn(2)
			op := c15op{Kind: kind}
			w := vrand.Weighted(rng, []int{42, 12, 30, 8})
			switch w {
			case 0: // add
				op.Op = "add"
				op.Exp = now(ctx, kind) + 1 + uint64(rng.Intn(10))
				if kind == 1 {
					op.Exp = now(ctx, kind) + 1 + uint64(rng.Intn(150))
				}
				op.Key = vrand.Pick(rng, keys)
				switch rng.Intn(8) {
				case 0:
					op.Data = fmt.Sprintf("A:%d:%s", rng.Intn(5), vrand.Pick(rng, keys))
				case 1:
					// delete some currently pending timer when this one fires
					if all := models[kind].sorted(); len(all) > 0 {
						x := all[rng.Intn(len(all))]
						op.Data = fmt.Sprintf("D:%d:%s", x.Exp, x.Key)
					} else {
						op.Data = "D:0:none"
					}
				case 2:
					op.Data = fmt.Sprintf("X:%d:%s", rng.Intn(30), vrand.Pick(rng, keys))
				default:
					op.Data = fmt.Sprintf("d%d", i)
				}
				if _, dup := models[kind][mk(op.Exp, op.Key)]; dup {
					overwrites++
				}
				ops = append(ops, op)
				add(ctx, kind, op.Exp, op.Key, op.Data)
				models[kind][mk(op.Exp, op.Key)] = mtimer{op.Exp, op.Key, op.Data}
			case 1: // delete an existing timer (the front one half of the time)
				all := models[kind].sorted()
				if len(all) == 0 {
					continue
				}
				x := all[0]
				if rng.Intn(2) == 0 {
					x = all[rng.Intn(len(all))]
				} else {
					delFront++
				}
				op.Op, op.Exp, op.Key = "del", x.Exp, x.Key
				ops = append(ops, op)
				if !has(ctx, kind, x.Exp, x.Key) {
					fail("has-false-for-pending", fmt.Sprintf("kind %d timer %v", kind, x))
					ok = false
					break
				}
				del(ctx, kind, x.Exp, x.Key)
				delete(models[kind], mk(x.Exp, x.Key))
				if has(ctx, kind, x.Exp, x.Key) {
					fail("has-true-after-delete", fmt.Sprintf("kind %d timer %v", kind, x))
					ok = false
				}
			default: // tick
				op.Op, op.DH, op.DT = "tick", 1, uint64(1+rng.Intn(30))
				if w == 3 {
					op.DH, op.DT = uint64(1+rng.Intn(15)), uint64(1+rng.Intn(400))
					jumps++
				}
				ops = append(ops, op)
				ctx = ctx.WithBlockHeight(ctx.BlockHeight() + int64(op.DH)).WithBlockTime(ctx.BlockTime().Add(time.Duration(op.DT) * time.Second))
				nowv := [2]uint64{now(ctx, 0), now(ctx, 1)}
				var want []fired
				modelTick(0, nowv, &want)
				modelTick(1, nowv, &want)
				got = got[:0]
				func() {
					defer func() {
						if r := recover(); r != nil {
							fail("panic-in-tick", fmt.Sprint(r))
							ok = false
						}
					}()
					ts.Tick(ctx)
				}()
				if !ok {
					break
				}
				fires += len(got)
				if len(got) != len(want) {
					fail("fire-log-differs", fmt.Sprintf("tick h=%d t=%d: model fired %v impl fired %v", nowv[0], nowv[1], want, got))
					ok = false
					break
				}
				for j := range want {
					if want[j] != got[j] {
						fail("fire-log-differs", fmt.Sprintf("tick h=%d t=%d position %d: model %v impl %v", nowv[0], nowv[1], j, want[j], got[j]))
						ok = false
						break
					}
				}
			}
			if ok {
				ok = compareState(fmt.Sprintf("after op %d (%s)", i, op.Op))
			}
		}
		run.Eval(1)
		if fires > fires0 && (cbAdds+cbDels+overwrites+delFront) > special0 {
			run.Nontrivial(fmt.Sprintf("%v", ops))
		}
		if s < 2 {
			run.Sample(map[string]any{"sequence": s, "ops": ops[:min(len(ops), 12)]})
		}
	}
	// non-trivial = behaviours of the statement actually exercised (counted, each class must be hit)
	for name, n := range map[string]int{"fired": fires, "callback-added": cbAdds, "callback-deleted-pending": cbDels, "overwrite-same-expiry-key": overwrites, "delete-front-then-tick": delFront, "multi-block-jump": jumps} {
		run.Count(name, n)
		run.Require("class exercised: "+name, n > 0)
	}
	run.Finish("PRNG sequences of add/delete/tick (both timer kinds, colliding expiries and keys, data-driven callbacks that add and delete timers) on the real TimerStore over an IAVL store, compared after every op with an ordered-map model (fire log in order, pending set, next-timeout not later than true front); a sequence is non-trivial when timers fired in it and it contained a callback add/delete, an overwrite or a front deletion; distinct = distinct op lists", nseq/2,
		"callbacks are deterministic functions of the timer data", "illegal calls (past expiry, deleting a non-existing timer) are documented to panic and are not generated")
}

func prefixDump(ctx sdk.Context, ts *timertypes.TimerStore, which timertypes.TimerType) []mtimer {
	gs := ts.Export(ctx)
	entries := gs.BlockEntries
	if which == timertypes.BlockTime {
		entries = gs.TimeEntries
	}
	out := make([]mtimer, 0, len(entries))
	for _, e := range entries {
		out = append(out, mtimer{e.Value, e.Key, string(e.Data)})
	}
	return out
}
