//go:build verif

package storemon

// C14 - the fixation store behaves like a versioned, ref-counted map.
//
// Real FixationStore + real TimerStore over an IAVL store, driven by PRNG sequences of LEGAL calls,
// compared after every op and at block ticks with a reference model that was written from the
// documentation at the top of x/fixationstore/types/fixationstore.go and from the C14 statement.
//
// The model keeps, per index, the *logical* history of versions {block, data, refs, latest,
// deleteAt, zeroAt}. Versions never leave the logical history by garbage collection: the doc says a
// stale nearest-no-later version makes FindEntry answer not-found, so physical collection must not
// change any lookup. Physical presence (HasEntry / GetAllEntryVersions) is required while a version
// is not stale ("collected only once invisible") and is unconstrained afterwards (no exact GC block).
//
// Places where the doc/statement is silent and the model is relaxed (R1..R7) are marked in the code
// and listed in the rule text given to Finish.

import (
	"crypto/sha256"
	"encoding/hex"
	"fmt"
	"math"
	"math/rand"
	"os"
	"regexp"
	"sort"
	"strconv"
	"strings"
	"sync"
	"sync/atomic"
	"testing"
	"time"

	tmdb "github.com/cometbft/cometbft-db"
	"github.com/cometbft/cometbft/libs/log"
	tmproto "github.com/cometbft/cometbft/proto/tendermint/types"
	"github.com/cosmos/cosmos-sdk/codec"
	codectypes "github.com/cosmos/cosmos-sdk/codec/types"
	"github.com/cosmos/cosmos-sdk/store"
	storetypes "github.com/cosmos/cosmos-sdk/store/types"
	sdk "github.com/cosmos/cosmos-sdk/types"
	fixtypes "github.com/lavanet/lava/v5/x/fixationstore/types"
	timertypes "github.com/lavanet/lava/v5/x/timerstore/types"

	"verif/internal/ev"
	"verif/internal/vrand"
)

const c14none = uint64(math.MaxUint64)

// ---------------------------------------------------------------------------------------------
// reference model

type c14ver struct {
	Block    uint64
	Data     int64
	Refs     int    // references handed out by GetEntry and not yet returned with PutEntry
	Latest   bool   // the version GetEntry returns (extra reference held by the store)
	DeleteAt uint64 // block at which a deletion took effect on this version; c14none otherwise
	ZeroAt   uint64 // block at which the last reference went away; c14none while referenced
	gone     bool   // observed physically absent (allowed only once stale)
	staleHit bool   // counted as "became stale"
}

type c14idx struct {
	vers       []*c14ver // ascending by block
	pendingDel uint64    // future block at which the entry gets deleted; c14none if no delete is pending
	// history shapes, used only to make violation signatures specific
	holderLost     bool // the last version before a pending delete was a future one and was cancelled / trimmed
	reappendCancel bool // a future version appended on the deleted index was cancelled while no other live version existed
}

func (m *c14idx) at(b uint64) *c14ver {
	for _, v := range m.vers {
		if v.Block == b {
			return v
		}
	}
	return nil
}

// nearest returns the version with the highest block <= b (logical history, future versions included).
func (m *c14idx) nearest(b uint64) *c14ver {
	var r *c14ver
	for _, v := range m.vers {
		if v.Block <= b {
			r = v
		}
	}
	return r
}

func (m *c14idx) before(b uint64) *c14ver {
	if b == 0 {
		return nil
	}
	return m.nearest(b - 1)
}

func (m *c14idx) latest() *c14ver {
	for _, v := range m.vers {
		if v.Latest {
			return v
		}
	}
	return nil
}

func (m *c14idx) last() *c14ver {
	if len(m.vers) == 0 {
		return nil
	}
	return m.vers[len(m.vers)-1]
}

func (m *c14idx) insert(nv *c14ver) {
	m.vers = append(m.vers, nv)
	sort.Slice(m.vers, func(i, j int) bool { return m.vers[i].Block < m.vers[j].Block })
}

func (m *c14idx) remove(x *c14ver) {
	out := m.vers[:0]
	for _, v := range m.vers {
		if v != x {
			out = append(out, v)
		}
	}
	m.vers = out
}

// trim discards the versions with block >= b (only future versions can be there).
func (m *c14idx) trim(b uint64) (n int) {
	out := m.vers[:0]
	for _, v := range m.vers {
		if v.Block >= b {
			n++
			continue
		}
		out = append(out, v)
	}
	m.vers = out
	return n
}

// ---------------------------------------------------------------------------------------------
// ops, world

type c14op struct {
	Op    string `json:"op"` // append del get put modify tick
	Idx   string `json:"idx,omitempty"`
	Block uint64 `json:"block,omitempty"`
	Data  int64  `json:"data,omitempty"`
	N     int    `json:"n,omitempty"`
	Note  string `json:"note,omitempty"`
}

type c14cfg struct {
	Seq   int      `json:"sequence"`
	Stale uint64   `json:"stale_blocks"`
	Start uint64   `json:"start_block"`
	Names []string `json:"indices"`
	// workload switches: each of these call shapes is legal, but runs into a defect confirmed on the tree
	// this check was built against; they are generated only in a dedicated fraction of the sequences so
	// that the other sequences keep exploring instead of stopping at the same first violation
	Redelete     bool `json:"move_pending_delete_earlier"`
	DelSame      bool `json:"delete_now_a_version_of_this_block"`
	PutHold      bool `json:"cancel_future_version_carrying_pending_delete"`
	CancelOnDead bool `json:"cancel_future_reappend_on_deleted_index"`
}

type c14fail struct {
	Rule, Sig, Desc string
}

type c14stats struct {
	n map[string]int
}

func (s *c14stats) add(k string, d int) { s.n[k] += d }

type c14world struct {
	cfg   c14cfg
	P     uint64
	now   uint64
	names []string
	idx   map[string]*c14idx
	ctx   sdk.Context
	fs    *fixtypes.FixationStore
	ts    *timertypes.TimerStore
	ops   []c14op
	fail  *c14fail
	st    *c14stats
	where string  // current call, for panic signatures
	cur   *c14idx // index the current call is about (nil: all)
	data  int64
}

// c14newCtx: IAVL store on a MemDB like newCtx(), with one committed (empty) version and the IAVL fast-node
// index off: otherwise every store iterator starts MemDB iterators (a goroutine + channel each), which made
// a sequence 5x slower without changing what the fixation store sees (plain IAVL tree iteration).
func c14newCtx() (sdk.Context, codec.BinaryCodec, storetypes.StoreKey) {
	db := tmdb.NewMemDB()
	ms := store.NewCommitMultiStore(db)
	ms.SetIAVLDisableFastNode(true)
	key := sdk.NewKVStoreKey("verifstore")
	ms.MountStoreWithDB(key, storetypes.StoreTypeIAVL, db)
	if err := ms.LoadLatestVersion(); err != nil {
		panic(err)
	}
	ms.Commit()
	cdc := codec.NewProtoCodec(codectypes.NewInterfaceRegistry())
	ctx := sdk.NewContext(ms, tmproto.Header{}, false, log.NewNopLogger())
	return ctx.WithBlockTime(time.Unix(1_000_000, 0).UTC()), cdc, key
}

func newC14World(cfg c14cfg, st *c14stats) *c14world {
	ctx, cdc, skey := c14newCtx()
	w := &c14world{cfg: cfg, P: cfg.Stale, now: cfg.Start, names: cfg.Names, idx: map[string]*c14idx{}, st: st}
	w.ctx = ctx.WithBlockHeight(int64(cfg.Start))
	w.ts = timertypes.NewTimerStore(skey, cdc, "c14_")
	w.fs = fixtypes.NewFixationStore(skey, cdc, "c14_", w.ts, func(sdk.Context) uint64 { return cfg.Stale })
	for _, n := range cfg.Names {
		w.idx[n] = &c14idx{pendingDel: c14none}
	}
	return w
}

func (w *c14world) stale(v *c14ver) bool { return v.ZeroAt != c14none && w.now >= v.ZeroAt+w.P }
func (w *c14world) alive(v *c14ver) bool { return v.Latest || v.Block > w.now }

// settle: a matured version that is neither the latest nor referenced starts its stale period now.
func (w *c14world) settle() {
	for _, m := range w.idx {
		for _, v := range m.vers {
			if !v.Latest && v.Block <= w.now && v.Refs == 0 && v.ZeroAt == c14none {
				v.ZeroAt = w.now
			}
		}
	}
}

func (w *c14world) failf(rule, sig, format string, a ...any) bool {
	if w.fail == nil {
		w.fail = &c14fail{rule, sig + w.shape(rule), fmt.Sprintf(format, a...)}
	}
	return false
}

// shape: history shapes of the index concerned (of all indices for a panic inside Tick) that precede the
// violation; part of the signature, so that a different defect with the same symptom gets another signature.
func (w *c14world) shape(rule string) string {
	var ms []*c14idx
	if w.cur != nil {
		ms = []*c14idx{w.cur}
	} else {
		for _, n := range w.names {
			ms = append(ms, w.idx[n])
		}
	}
	hl, rc := false, false
	for _, m := range ms {
		hl = hl || m.holderLost
		rc = rc || m.reappendCancel
	}
	switch {
	case rule == "indices-differs" && rc:
		return " [after a future re-append on a deleted index was cancelled]"
	case rule != "indices-differs" && hl:
		return " [after a future version carrying the pending delete was cancelled/trimmed]"
	}
	return ""
}

var (
	c14digits = regexp.MustCompile(`[0-9]+`)
	c14keys   = regexp.MustCompile(`\[[# ]*\]`)
)

// guard runs f under recover: a panic on a legal call is a violation.
func (w *c14world) guard(f func()) (ok bool) {
	defer func() {
		if r := recover(); r != nil {
			msg := fmt.Sprint(r)
			if len(msg) > 140 {
				msg = msg[:140]
			}
			w.failf("panic-on-legal-use", w.where+": "+c14keys.ReplaceAllString(c14digits.ReplaceAllString(msg, "#"), "[..]"), "panic in %s at block %d: %s", w.where, w.now, msg)
			ok = false
		}
	}()
	f()
	return true
}

func c14coin(d int64) sdk.Coin { return sdk.Coin{Denom: "utest", Amount: sdk.NewInt(d)} }

func c14data(c sdk.Coin) int64 {
	if c.Amount.IsNil() {
		return -1
	}
	return c.Amount.Int64()
}

// onlyFutureOnDead: v is the only future version of an index that has no current version but deleted remains.
func (w *c14world) onlyFutureOnDead(m *c14idx, v *c14ver) bool {
	if m.latest() != nil {
		return false
	}
	dead := false
	for _, x := range m.vers {
		if x != v && x.Block > w.now {
			return false
		}
		dead = dead || x.DeleteAt != c14none
	}
	return dead
}

// ---------------------------------------------------------------------------------------------
// legality (decided by the model alone; the cfg switches only thin out three legal call shapes)

func (w *c14world) legal(op c14op) bool {
	if op.Op == "tick" {
		return op.N >= 1
	}
	m := w.idx[op.Idx]
	if m == nil {
		return false
	}
	if m.holderLost {
		// the store has accepted a call that removed the future version carrying a pending delete (a confirmed
		// defect leaves a dangling delete timer): nothing more is generated on this index, only time passes
		return false
	}
	switch op.Op {
	case "get":
		return true
	case "append":
		if m.pendingDel != c14none && op.Block >= m.pendingDel {
			return false // doc: no versions on or beyond a pending DeleteAt
		}
		if l := m.latest(); l != nil {
			return op.Block >= l.Block // doc: may not precede the existing latest version
		}
		// no current version: never existed / only future versions / deleted
		floor := uint64(0)
		for _, v := range m.vers {
			if v.DeleteAt != c14none && v.DeleteAt > floor {
				floor = v.DeleteAt
			}
		}
		if op.Block < floor {
			return false // R6: retroactive re-append into the deleted history is not defined by the doc - not generated
		}
		if v := m.at(op.Block); v != nil && v.Block <= w.now && v.Refs > 0 {
			return false // R6: re-append over a deleted version that is still referenced - not defined by the doc
		}
		return true
	case "del":
		D := op.Block
		if D < w.now {
			return false
		}
		if m.pendingDel != c14none && (!w.cfg.Redelete || D >= m.pendingDel) {
			return false // double delete is documented (tests) to fail; moving it earlier only in dedicated sequences (R5)
		}
		if D == w.now {
			l := m.latest()
			if l == nil {
				return false
			}
			if l.Block == w.now && !w.cfg.DelSame {
				return false
			}
			return true
		}
		if h := m.before(D); h != nil && w.alive(h) {
			return true
		}
		return m.at(D) != nil // doc (DelEntry comment): a first future version without a current one can be deleted at its own block
	case "put":
		v := m.at(op.Block)
		if v == nil {
			return false
		}
		if v.Block > w.now {
			if m.pendingDel != c14none && v == m.last() && !w.cfg.PutHold {
				return false
			}
			if w.onlyFutureOnDead(m, v) && !w.cfg.CancelOnDead {
				return false
			}
			return true // doc: PutEntry can be used to remove a specific future entry
		}
		return v.Refs > 0 // doc: every PutEntry must match a previous GetEntry
	case "modify":
		v := m.at(op.Block)
		return v != nil && !w.stale(v)
	}
	return false
}

// ---------------------------------------------------------------------------------------------
// applying one op to implementation and model

func (w *c14world) apply(op c14op) bool {
	m := w.idx[op.Idx]
	w.cur = m
	switch op.Op {
	case "append":
		var err error
		w.where = "AppendEntry"
		c := c14coin(op.Data)
		if !w.guard(func() { err = w.fs.AppendEntry(w.ctx, op.Idx, op.Block, &c) }) {
			w.ops = append(w.ops, op)
			return false
		}
		v := m.at(op.Block)
		l := m.latest()
		kind := "now"
		switch {
		case v != nil && w.alive(v):
			kind = "overwrite"
		case l == nil && len(m.vers) > 0 && m.nearest(w.now) != nil && m.nearest(w.now).DeleteAt != c14none:
			kind = "reappend-after-delete"
		case op.Block > w.now:
			kind = "future"
		case op.Block < w.now:
			kind = "past"
		}
		op.Note = kind
		w.ops = append(w.ops, op)
		if err != nil {
			return w.failf("legal-call-failed", "AppendEntry "+kind, "AppendEntry(%q,%d) at block %d returned %v", op.Idx, op.Block, w.now, err)
		}
		w.st.add("append-"+kind, 1)
		if m.pendingDel != c14none {
			w.st.add("append-under-pending-delete", 1)
		}
		m.reappendCancel = false
		if v != nil && w.alive(v) {
			v.Data = op.Data // doc: appending the same version again overrides its data
		} else {
			if v != nil {
				m.remove(v) // a deleted version at the same block is replaced by a fresh entry
			}
			nv := &c14ver{Block: op.Block, Data: op.Data, DeleteAt: c14none, ZeroAt: c14none}
			if op.Block <= w.now {
				if l != nil {
					l.Latest = false // doc: refcount of the latest is dropped when a newer version is appended
				}
				nv.Latest = true
			}
			m.insert(nv)
		}
		w.settle()
	case "del":
		var err error
		D := op.Block
		h := m.before(D)
		l := m.latest()
		kind, base := "future", "future"
		if D == w.now {
			kind, base = "now", "now"
			if l != nil && l.Block == w.now {
				kind = "now, on the version of this very block"
			}
		} else if h == nil || !w.alive(h) {
			kind = "future, first future version at that block"
		}
		gray := m.pendingDel != c14none
		if D > w.now && (h == nil || !w.alive(h)) && h != nil {
			gray = true // R5: deleted remains before the future version - doc silent on whether this is the "no previous entry" case
		}
		if m.pendingDel != c14none {
			kind += " (moving a pending delete earlier)"
		}
		op.Note = kind
		w.where = "DelEntry " + kind
		if !w.guard(func() { err = w.fs.DelEntry(w.ctx, op.Idx, D) }) {
			w.ops = append(w.ops, op)
			return false
		}
		if err != nil {
			if gray {
				op.Note += " - rejected (R5)"
				w.ops = append(w.ops, op)
				w.st.add("gray-del-rejected", 1)
				break
			}
			w.ops = append(w.ops, op)
			return w.failf("legal-call-failed", "DelEntry "+kind, "DelEntry(%q,%d) at block %d returned %v", op.Idx, D, w.now, err)
		}
		w.ops = append(w.ops, op)
		w.st.add("del-"+base, 1)
		if m.pendingDel != c14none {
			if hold := m.last(); hold != nil && hold.Block > w.now && hold.Block >= D {
				m.holderLost = true
			}
			if hold := m.last(); hold != nil && D == w.now && hold != l {
				m.holderLost = true
			}
		}
		if D == w.now {
			l.Latest = false
			l.DeleteAt = w.now
			m.pendingDel = c14none
			w.st.add("trimmed-future", m.trim(w.now+1))
		} else {
			w.st.add("trimmed-future", m.trim(D)) // doc: DelEntry discards future versions on or beyond the delete block
			if h != nil && w.alive(h) {
				m.pendingDel = D
			} else {
				m.pendingDel = c14none
			}
		}
		w.settle()
	case "get":
		w.ops = append(w.ops, op)
		var c sdk.Coin
		var found bool
		w.where = "GetEntry"
		if !w.guard(func() { found = w.fs.GetEntry(w.ctx, op.Idx, &c) }) {
			return false
		}
		l := m.latest()
		if found != (l != nil) {
			return w.failf("get-differs", fmt.Sprintf("GetEntry model=%v impl=%v", l != nil, found), "GetEntry(%q) at block %d: model latest %v, impl found=%v", op.Idx, w.now, c14str(l), found)
		}
		if l != nil {
			if c14data(c) != l.Data {
				return w.failf("get-differs", "GetEntry data", "GetEntry(%q) at block %d: model data %d (version %d), impl %d", op.Idx, w.now, l.Data, l.Block, c14data(c))
			}
			l.Refs++
			w.st.add("get-ok", 1)
		} else {
			w.st.add("get-refused", 1)
		}
	case "put":
		v := m.at(op.Block)
		if v.Block > w.now {
			op.Note = "cancel future version"
			if m.pendingDel != c14none && v == m.last() {
				op.Note += " that carries the pending delete"
			}
		}
		w.ops = append(w.ops, op)
		w.where = "PutEntry"
		if op.Note != "" {
			w.where = "PutEntry (" + op.Note + ")"
		}
		if !w.guard(func() { w.fs.PutEntry(w.ctx, op.Idx, op.Block) }) {
			return false
		}
		if v.Block > w.now {
			if m.pendingDel != c14none && v == m.last() {
				m.holderLost = true
			}
			if w.onlyFutureOnDead(m, v) {
				m.reappendCancel = true
			}
			m.remove(v)
			w.st.add("put-future", 1)
		} else {
			v.Refs--
			w.st.add("put-ref", 1)
			if v.Refs == 0 && !v.Latest {
				w.st.add("put-last-ref", 1)
			}
		}
		w.settle()
	case "modify":
		w.ops = append(w.ops, op)
		w.where = "ModifyEntry"
		c := c14coin(op.Data)
		if !w.guard(func() { w.fs.ModifyEntry(w.ctx, op.Idx, op.Block, &c) }) {
			return false
		}
		m.at(op.Block).Data = op.Data
		w.st.add("modify", 1)
	case "tick":
		w.ops = append(w.ops, op)
		for i := 0; i < op.N; i++ {
			w.now++
			w.ctx = w.ctx.WithBlockHeight(int64(w.now))
			w.where, w.cur = "Tick", nil
			if !w.guard(func() { w.ts.Tick(w.ctx) }) {
				return false
			}
			w.st.add("block-ticks", 1)
			w.modelTick()
			if i == op.N-1 || w.interesting() {
				if !w.compare() {
					return false
				}
			}
		}
		return true
	}
	return w.compare()
}

func (w *c14world) modelTick() {
	for _, n := range w.names {
		m := w.idx[n]
		if v := m.at(w.now); v != nil && !v.Latest && v.DeleteAt == c14none {
			// doc: a future version becomes the new latest when its block is reached
			if l := m.latest(); l != nil {
				l.Latest = false
			}
			v.Latest = true
			w.st.add("future-matured", 1)
		}
		if m.pendingDel == w.now {
			if l := m.latest(); l != nil {
				l.Latest = false
				l.DeleteAt = w.now
				w.st.add("future-delete-fired", 1)
			}
			m.pendingDel = c14none
		}
	}
	w.settle()
	for _, n := range w.names {
		for _, v := range w.idx[n].vers {
			if !v.staleHit && w.stale(v) {
				v.staleHit = true
				w.st.add("became-stale", 1)
			}
		}
	}
}

// interesting: a model event (maturity, delete, end of a stale period) at now-1, now or now+1.
func (w *c14world) interesting() bool {
	near := func(e uint64) bool { return e != c14none && e+1 >= w.now && e <= w.now+1 }
	for _, n := range w.names {
		m := w.idx[n]
		if near(m.pendingDel) {
			return true
		}
		for _, v := range m.vers {
			if near(v.Block) || near(v.DeleteAt) || (v.ZeroAt != c14none && near(v.ZeroAt+w.P)) {
				return true
			}
		}
	}
	return false
}

func c14str(v *c14ver) string {
	if v == nil {
		return "<none>"
	}
	f := func(x uint64) string {
		if x == c14none {
			return "-"
		}
		return strconv.FormatUint(x, 10)
	}
	return fmt.Sprintf("{block %d data %d refs %d latest %v deleteAt %s zeroAt %s}", v.Block, v.Data, v.Refs, v.Latest, f(v.DeleteAt), f(v.ZeroAt))
}

func (w *c14world) dump(m *c14idx) string {
	var s []string
	for _, v := range m.vers {
		x := c14str(v)
		if w.stale(v) {
			x += "stale"
		}
		s = append(s, x)
	}
	pd := "-"
	if m.pendingDel != c14none {
		pd = strconv.FormatUint(m.pendingDel, 10)
	}
	return fmt.Sprintf("now=%d stale=%d pendingDel=%s versions=[%s]", w.now, w.P, pd, strings.Join(s, " "))
}

// modelFind: what FindEntry(index, b) must answer.
func (w *c14world) modelFind(m *c14idx, b uint64) (class string, v *c14ver) {
	v = m.nearest(b)
	switch {
	case v == nil:
		return "notfound(no version)", nil
	case w.stale(v):
		return "notfound(nearest is stale)", nil // doc: if the nearest-no-later entry is already stale FindEntry returns not-found
	case v.DeleteAt <= b:
		return "notfound(deleted)", nil // doc: FindEntry for a block at or beyond the deletion fails
	case m.pendingDel <= b:
		return "notfound(delete pending at or before that block)", nil
	}
	return "found", v
}

// ---------------------------------------------------------------------------------------------
// comparing every query with the model

func (w *c14world) compare() (ok bool) {
	w.st.add("compares", 1)
	okc := true
	if !w.guard(func() { okc = w.compareAll() }) {
		return false
	}
	return okc
}

func (w *c14world) compareAll() bool {
	fs, ctx := w.fs, w.ctx
	names := append([]string{}, w.names...)
	names = append(names, "zz-never-used")
	for _, name := range names {
		m := w.idx[name]
		if m == nil {
			m = &c14idx{pendingDel: c14none}
		}
		w.cur = m
		bs := map[uint64]bool{0: true, w.now: true, w.now + 1: true, w.now + 7: true, w.now + w.P: true, w.now - 1: true}
		add3 := func(b uint64) {
			if b == c14none {
				return
			}
			bs[b], bs[b+1] = true, true
			if b > 0 {
				bs[b-1] = true
			}
		}
		for _, v := range m.vers {
			add3(v.Block)
			add3(v.DeleteAt)
		}
		add3(m.pendingDel)
		blocks := make([]uint64, 0, len(bs))
		for b := range bs {
			blocks = append(blocks, b)
		}
		sort.Slice(blocks, func(i, j int) bool { return blocks[i] < blocks[j] })

		foundZero := false
		for _, b := range blocks {
			class, mv := w.modelFind(m, b)
			var c, c2 sdk.Coin
			w.where = "FindEntryDetailed"
			eb, isDel, isLatest, found := fs.FindEntryDetailed(ctx, name, b, &c)
			w.st.add("queries", 1)
			if found != (mv != nil) || (found && eb != mv.Block) {
				impl := "notfound"
				if found {
					impl = "found"
					if mv != nil {
						impl = "found a later version"
						if eb < mv.Block {
							impl = "found an earlier version"
						}
					}
				}
				return w.failf("find-differs", fmt.Sprintf("FindEntry model=%s impl=%s", class, impl),
					"FindEntryDetailed(%q,%d): model %s %s, impl found=%v block=%d; %s", name, b, class, c14str(mv), found, eb, w.dump(m))
			}
			if found {
				if c14data(c) != mv.Data {
					return w.failf("find-differs", "FindEntry data", "FindEntryDetailed(%q,%d): version %d model data %d impl %d; %s", name, b, eb, mv.Data, c14data(c), w.dump(m))
				}
				// R3: isDeleted is compared only when found (doc silent on its value for a failed lookup)
				if isDel != (mv.DeleteAt <= w.now) || isLatest != mv.Latest {
					return w.failf("find-differs", fmt.Sprintf("FindEntryDetailed flags model(deleted=%v latest=%v) impl(deleted=%v latest=%v)", mv.DeleteAt <= w.now, mv.Latest, isDel, isLatest),
						"FindEntryDetailed(%q,%d) version %d; %s", name, b, eb, w.dump(m))
				}
				if mv.ZeroAt != c14none {
					w.st.add("found-in-stale-period", 1)
					foundZero = true
				}
				if mv.Block > w.now {
					w.st.add("found-future-version-for-future-block", 1)
				}
			} else {
				w.st.add(class, 1)
			}
			w.where = "FindEntry"
			if f2 := fs.FindEntry(ctx, name, b, &c2); f2 != found || (f2 && c14data(c2) != c14data(c)) {
				return w.failf("find-differs", "FindEntry vs FindEntryDetailed", "FindEntry(%q,%d)=%v data %d, detailed %v data %d", name, b, f2, c14data(c2), found, c14data(c))
			}
			// existence of the exact version
			w.where = "HasEntry"
			has := fs.HasEntry(ctx, name, b)
			xv := m.at(b)
			switch {
			case xv == nil && has:
				return w.failf("has-differs", "HasEntry true for a version that does not exist", "HasEntry(%q,%d)=true; %s", name, b, w.dump(m))
			case xv != nil && !w.stale(xv) && !has:
				return w.failf("collected-while-visible", fmt.Sprintf("HasEntry false for a non-stale version (future=%v latest=%v deleted=%v stale-period=%v)", xv.Block > w.now, xv.Latest, xv.DeleteAt != c14none, xv.ZeroAt != c14none),
					"HasEntry(%q,%d)=false but the version is not stale: %s; %s", name, b, c14str(xv), w.dump(m))
			case xv != nil && w.stale(xv) && !has && !xv.gone:
				xv.gone = true // R2: a stale version may be collected at any time
				w.st.add("stale-version-collected", 1)
			}
			if has && xv != nil {
				// R7: IsEntryStale / ReadEntry need an existing version (they panic otherwise)
				w.where = "IsEntryStale"
				if st := fs.IsEntryStale(ctx, name, b); st != w.stale(xv) {
					return w.failf("stale-differs", fmt.Sprintf("IsEntryStale model=%v impl=%v", w.stale(xv), st), "IsEntryStale(%q,%d)=%v: %s; %s", name, b, st, c14str(xv), w.dump(m))
				}
				var rc sdk.Coin
				w.where = "ReadEntry"
				fs.ReadEntry(ctx, name, b, &rc)
				if c14data(rc) != xv.Data {
					return w.failf("read-differs", "ReadEntry data", "ReadEntry(%q,%d) data %d model %d", name, b, c14data(rc), xv.Data)
				}
			}
		}

		// GetEntry visibility, probed on a discarded cache context (GetEntry takes a reference)
		w.where = "GetEntry(probe)"
		cctx, _ := ctx.CacheContext()
		var gc sdk.Coin
		got := fs.GetEntry(cctx, name, &gc)
		l := m.latest()
		if got != (l != nil) || (got && c14data(gc) != l.Data) {
			why := "no version"
			if nv := m.nearest(w.now); nv != nil {
				switch {
				case nv.DeleteAt != c14none:
					why = "deleted"
				case nv.Latest:
					why = "latest"
				default:
					why = "not latest"
				}
			}
			return w.failf("get-differs", fmt.Sprintf("GetEntry visibility model=%v impl=%v (nearest version: %s)", l != nil, got, why),
				"GetEntry(%q) at block %d: model %s impl found=%v data=%d; %s", name, w.now, c14str(l), got, c14data(gc), w.dump(m))
		}
		if !got && foundZero {
			w.st.add("findable-but-not-gettable", 1) // index not gettable while an unreferenced version of it is still found
		}

		// all versions: ascending, only logical versions, every non-stale version present
		w.where = "GetAllEntryVersions"
		all := fs.GetAllEntryVersions(ctx, name)
		present := map[uint64]bool{}
		for i, b := range all {
			if i > 0 && all[i-1] >= b {
				return w.failf("versions-differs", "GetAllEntryVersions not ascending", "GetAllEntryVersions(%q)=%v", name, all)
			}
			if m.at(b) == nil {
				return w.failf("versions-differs", "GetAllEntryVersions lists a version that does not exist", "GetAllEntryVersions(%q)=%v; %s", name, all, w.dump(m))
			}
			present[b] = true
		}
		for _, v := range m.vers {
			if !w.stale(v) && !present[v.Block] {
				return w.failf("collected-while-visible", "GetAllEntryVersions misses a non-stale version", "GetAllEntryVersions(%q)=%v misses %s; %s", name, all, c14str(v), w.dump(m))
			}
		}

		// ranges
		type rq struct{ b, d uint64 }
		rqs := []rq{{w.now, 0}, {w.now, w.P + 20}, {0, w.now + 100}}
		if len(m.vers) > 0 {
			rqs = append(rqs, rq{m.vers[0].Block, 5000}, rq{m.vers[len(m.vers)/2].Block + 1, w.P}, rq{m.vers[len(m.vers)-1].Block, 1})
		}
		for _, q := range rqs {
			w.where = "GetEntryVersionsRange"
			res := fs.GetEntryVersionsRange(ctx, name, q.b, q.d)
			lo := uint64(0)
			if nv := m.nearest(q.b); nv != nil {
				lo = nv.Block
			}
			inres := map[uint64]bool{}
			for i, b := range res {
				if i > 0 && res[i-1] >= b {
					return w.failf("range-differs", "GetEntryVersionsRange not ascending", "GetEntryVersionsRange(%q,%d,%d)=%v", name, q.b, q.d, res)
				}
				v := m.at(b)
				if v == nil || w.stale(v) || b < lo || b > q.b+q.d {
					what := "outside the range"
					if v == nil {
						what = "that does not exist"
					} else if w.stale(v) {
						what = "that is stale"
					}
					return w.failf("range-differs", "GetEntryVersionsRange returns a version "+what, "GetEntryVersionsRange(%q,%d,%d)=%v; %s", name, q.b, q.d, res, w.dump(m))
				}
				inres[b] = true
			}
			for _, v := range m.vers {
				// R4: versions carrying a delete mark (in effect or pending) are optional in ranges - doc only says "skip stale entries"
				optional := v.DeleteAt != c14none || (m.pendingDel != c14none && v == m.last())
				if v.Block >= lo && v.Block <= q.b+q.d && !w.stale(v) && !optional && !inres[v.Block] {
					return w.failf("range-differs", "GetEntryVersionsRange misses a non-stale version in range", "GetEntryVersionsRange(%q,%d,%d)=%v misses %d; %s", name, q.b, q.d, res, v.Block, w.dump(m))
				}
			}
			if len(res) >= 2 {
				w.st.add("multi-version-range", 1)
			}
		}
	}

	// index listings (compared as sets; the order is not documented)
	for _, p := range []string{"", "a", "ab", "a ", "b"} {
		var list []string
		if p == "" {
			w.where = "GetAllEntryIndices"
			list = fs.GetAllEntryIndices(ctx)
		} else {
			w.where = "GetAllEntryIndicesWithPrefix"
			list = fs.GetAllEntryIndicesWithPrefix(ctx, p)
		}
		in := map[string]bool{}
		for _, n := range list {
			if in[n] {
				return w.failf("indices-differs", "index listed twice", "prefix %q: %v", p, list)
			}
			in[n] = true
			m := w.idx[n]
			w.cur = m
			if m == nil || !strings.HasPrefix(n, p) {
				return w.failf("indices-differs", "listing contains an index that was never used / does not match the prefix", "prefix %q: %v", p, list)
			}
			if m.latest() == nil {
				hasFuture := false
				for _, v := range m.vers {
					hasFuture = hasFuture || v.Block > w.now
				}
				// R1: an index with only future versions may or may not be listed (doc silent)
				if !hasFuture {
					state := "no versions at all"
					if len(m.vers) > 0 {
						state = "deleted, no current or future version"
					}
					return w.failf("indices-differs", "listing contains an index with "+state, "prefix %q: %v; index %q: %s", p, list, n, w.dump(m))
				}
			}
		}
		for _, n := range w.names {
			w.cur = w.idx[n]
			if strings.HasPrefix(n, p) && w.idx[n].latest() != nil && !in[n] {
				return w.failf("indices-differs", "listing misses an index that has a latest version", "prefix %q: %v misses %q; %s", p, list, n, w.dump(w.idx[n]))
			}
		}
	}
	return true
}

// ---------------------------------------------------------------------------------------------
// generator (legal calls only), replay and shrinking

func (w *c14world) propose(rng *rand.Rand) (c14op, bool) {
	name := vrand.Pick(rng, w.names)
	m := w.idx[name]
	P := int(w.P)
	switch vrand.Weighted(rng, []int{28, 8, 10, 11, 4, 24, 13, 2}) {
	case 0: // append
		w.data++
		op := c14op{Op: "append", Idx: name, Data: w.data}
		l := m.latest()
		r := rng.Intn(100)
		switch {
		case r < 28:
			op.Block = w.now
		case r < 58:
			op.Block = w.now + 1 + uint64(rng.Intn(P+10))
		case r < 72: // past (not before the latest / the last deletion)
			lo := uint64(0)
			if l != nil {
				lo = l.Block
			}
			for _, v := range m.vers {
				if v.DeleteAt != c14none && v.DeleteAt > lo {
					lo = v.DeleteAt
				}
			}
			if lo == 0 && w.now > 15 {
				lo = w.now - 15
			}
			op.Block = w.now
			if lo < w.now {
				op.Block = lo + uint64(rng.Intn(int(w.now-lo)+1))
			}
		case r < 88: // same block as an existing latest / future version
			var c []uint64
			for _, v := range m.vers {
				if w.alive(v) {
					c = append(c, v.Block)
				}
			}
			op.Block = w.now
			if len(c) > 0 {
				op.Block = vrand.Pick(rng, c)
			}
		default:
			op.Block = w.now + 1 + uint64(rng.Intn(3*P))
		}
		if !w.legal(op) && m.pendingDel != c14none && m.pendingDel > w.now+1 {
			op.Block = w.now + 1 + uint64(rng.Intn(int(m.pendingDel-w.now-1)))
		}
		if !w.legal(op) {
			op.Block = w.now
		}
		return op, w.legal(op)
	case 1: // del
		op := c14op{Op: "del", Idx: name}
		r := rng.Intn(100)
		switch {
		case m.pendingDel != c14none:
			if m.pendingDel <= w.now {
				return op, false
			}
			op.Block = w.now + uint64(rng.Intn(int(m.pendingDel-w.now)))
		case r < 45:
			op.Block = w.now
		case r < 60 && len(m.vers) > 0: // at / right after a version
			op.Block = vrand.Pick(rng, m.vers).Block + uint64(rng.Intn(2))
		default:
			op.Block = w.now + 1 + uint64(rng.Intn(2*P))
		}
		return op, w.legal(op)
	case 2:
		return c14op{Op: "get", Idx: name}, true
	case 3: // put: a reference taken before, or (less often) cancel a future version
		type cand struct {
			n string
			b uint64
		}
		var c []cand
		for _, n := range w.names {
			for _, v := range w.idx[n].vers {
				for k := 0; k < v.Refs; k++ {
					c = append(c, cand{n, v.Block}, cand{n, v.Block})
				}
				if v.Block > w.now {
					c = append(c, cand{n, v.Block})
				}
			}
		}
		if len(c) == 0 {
			return c14op{}, false
		}
		x := vrand.Pick(rng, c)
		op := c14op{Op: "put", Idx: x.n, Block: x.b}
		return op, w.legal(op)
	case 4:
		if len(m.vers) == 0 {
			return c14op{}, false
		}
		w.data++
		op := c14op{Op: "modify", Idx: name, Block: vrand.Pick(rng, m.vers).Block, Data: w.data}
		return op, w.legal(op)
	case 5:
		return c14op{Op: "tick", N: 1}, true
	case 6:
		return c14op{Op: "tick", N: 2 + rng.Intn(P+12)}, true
	default:
		return c14op{Op: "tick", N: 60 + rng.Intn(400)}, true
	}
}

// c14replay runs an explicit op list on a fresh store; ops that are illegal in the state reached are skipped.
func c14replay(cfg c14cfg, ops []c14op) *c14world {
	w := newC14World(cfg, &c14stats{n: map[string]int{}})
	if !w.compare() {
		return w
	}
	for _, op := range ops {
		op.Note = ""
		if !w.legal(op) {
			continue
		}
		if !w.apply(op) {
			break
		}
	}
	return w
}

// c14shrink: greedy drop-one / shorten-tick reduction keeping the same (rule, signature).
func c14shrink(cfg c14cfg, ops []c14op, f *c14fail) (c14cfg, []c14op) {
	same := func(c []c14op) ([]c14op, bool) {
		w := c14replay(cfg, c)
		if w.fail != nil && w.fail.Rule == f.Rule && w.fail.Sig == f.Sig {
			return w.ops, true
		}
		return nil, false
	}
	cur, ok := same(ops)
	if !ok {
		return cfg, ops // not reproducible by replay (should not happen): keep the original list
	}
	budget := 400
	// block advances before the first real op only move the start block
	fold := func() {
		lead, k := uint64(0), 0
		for k < len(cur) && cur[k].Op == "tick" {
			lead += uint64(cur[k].N)
			k++
		}
		if k > 0 {
			cfg.Start += lead
			if r, ok := same(cur[k:]); ok {
				cur = r
			} else {
				cfg.Start -= lead
			}
		}
	}
	fold()
	try := func(c []c14op) bool {
		budget--
		if r, ok := same(c); ok {
			cur = r
			return true
		}
		return false
	}
	// remove chunks of decreasing size, then shorten the remaining block advances
	for chunk := (len(cur) + 1) / 2; chunk >= 1 && budget > 0; chunk /= 2 {
		for i := len(cur) - chunk; i >= 0 && budget > 0; i -= chunk {
			if i+chunk > len(cur) {
				continue
			}
			try(append(append([]c14op{}, cur[:i]...), cur[i+chunk:]...))
		}
	}
	for changed := true; changed && budget > 0; {
		changed = false
		for i := len(cur) - 1; i >= 0 && budget > 0; i-- {
			if i >= len(cur) {
				continue
			}
			if try(append(append([]c14op{}, cur[:i]...), cur[i+1:]...)) {
				changed = true
				continue
			}
			if cur[i].Op == "tick" && cur[i].N > 1 {
				for _, n := range []int{1, cur[i].N / 2, cur[i].N - 1} {
					if n >= 1 && i < len(cur) && n < cur[i].N {
						c := append([]c14op{}, cur...)
						c[i].N = n
						if try(c) {
							changed = true
							break
						}
					}
				}
			}
		}
	}
	fold()
	// merge neighbouring block advances
	for i := 0; i+1 < len(cur); i++ {
		if cur[i].Op == "tick" && cur[i+1].Op == "tick" {
			c := append([]c14op{}, cur[:i+1]...)
			c[i].N += cur[i+1].N
			c = append(c, cur[i+2:]...)
			if r, ok := same(c); ok {
				cur = r
				i--
			}
		}
	}
	return cfg, cur
}

// ---------------------------------------------------------------------------------------------

func TestC14(t *testing.T) {
	run := ev.Start("C14")
	nseq := run.Pick(300, 20000)
	nops := 120
	pool := []string{"a", "ab", "a b", "b", "ab~", " "}
	total := &c14stats{n: map[string]int{}}
	only := -1
	if s := os.Getenv("VERIF_C14_SEQ"); s != "" {
		only, _ = strconv.Atoi(s)
	}

	// one deterministic probe outside the verdict (R7): IsEntryStale on a version that does not exist
	func() {
		w := newC14World(c14cfg{Stale: 10, Start: 50, Names: []string{"a"}}, total)
		defer func() {
			if recover() != nil {
				run.Count("probe: IsEntryStale on an absent version panics (not judged)", 1)
			}
		}()
		w.fs.IsEntryStale(w.ctx, "a", 7)
	}()

	type result struct { // what is kept of a finished sequence (not its store)
		cfg  c14cfg
		ops  []c14op
		fail *c14fail
		st   *c14stats
		sig  string
	}
	oneSeq := func(s int) result {
		rng := vrand.Sub(run.Seed, "c14", s)
		names := append([]string{}, pool...)
		rng.Shuffle(len(names), func(i, j int) { names[i], names[j] = names[j], names[i] })
		if rng.Intn(3) > 0 { // most sequences contain prefix-overlapping names
			names = append([]string{"a", "ab", "a b"}, names...)
		}
		n := 1 + rng.Intn(4)
		var pick []string
		for _, x := range names {
			dup := false
			for _, y := range pick {
				dup = dup || x == y
			}
			if !dup && len(pick) < n {
				pick = append(pick, x)
			}
		}
		cfg := c14cfg{Seq: s, Stale: uint64(5 + rng.Intn(46)), Start: uint64(20 + rng.Intn(200)), Names: pick}
		switch rng.Intn(10) { // at most one of the four thinned-out call shapes per sequence; 6 of 10 sequences have none
		case 0:
			cfg.Redelete = true
		case 1:
			cfg.DelSame = true
		case 2:
			cfg.PutHold = true
		case 3:
			cfg.CancelOnDead = true
		}
		st := &c14stats{n: map[string]int{}}
		w := newC14World(cfg, st)
		ok := w.compare()
		for i := 0; i < nops && ok; i++ {
			op, legal := w.propose(rng)
			if !legal {
				continue
			}
			ok = w.apply(op)
		}
		r := result{cfg: cfg, ops: w.ops, fail: w.fail, st: st, sig: fmt.Sprintf("%v", w.ops)}
		if w.fail == nil && s >= 2 {
			r.ops = nil // only the signature of the op list is needed any more
		}
		if len(r.sig) > 64 {
			h := sha256.Sum256([]byte(r.sig))
			r.sig = hex.EncodeToString(h[:16])
		}
		return r
	}
	// sequences are independent (own store, own PRNG stream): run them on a few workers, judge them in order
	results := make([]*result, nseq)
	var wg sync.WaitGroup
	next := int64(-1)
	for k := 0; k < 8; k++ {
		wg.Add(1)
		go func() {
			defer wg.Done()
			for {
				s := int(atomic.AddInt64(&next, 1))
				if s >= nseq {
					return
				}
				if only >= 0 && s != only {
					continue
				}
				r := oneSeq(s)
				results[s] = &r
			}
		}()
	}
	wg.Wait()
	shrunk := map[string]bool{}
	for s, r := range results {
		if r == nil {
			continue
		}
		w, st, cfg := r, r.st, r.cfg
		run.Eval(1)
		for k, v := range st.n {
			total.add(k, v)
		}
		if w.fail != nil {
			key := w.fail.Rule + "|" + w.fail.Sig
			var witness any
			if !shrunk[key] && len(shrunk) < 12 { // the evidence layer keeps the first witness per (rule, signature)
				shrunk[key] = true
				mcfg, mops := c14shrink(cfg, w.ops, w.fail)
				witness = map[string]any{"config": cfg, "minimised": map[string]any{"config": mcfg, "ops": mops}, "ops_original": w.ops,
					"how_to_replay": "ops are applied in order on a fresh store starting at start_block; tick n = n single-block advances each followed by TimerStore.Tick; ops illegal in the state reached are skipped"}
			}
			run.Violation(w.fail.Rule, w.fail.Sig, w.fail.Desc, witness)
			continue
		}
		// non-trivial: time-driven behaviour (a future version matured or a future delete fired), a version
		// that went through its whole stale period, and a lookup answered from inside a stale period
		if st.n["future-matured"]+st.n["future-delete-fired"] > 0 && st.n["became-stale"] > 0 && st.n["found-in-stale-period"] > 0 {
			run.Nontrivial(r.sig)
		}
		if s < 2 {
			run.Sample(map[string]any{"config": cfg, "ops": w.ops[:min(len(w.ops), 14)]})
		}
	}

	for k, v := range total.n {
		run.Count(k, v)
	}
	for _, c := range []struct{ name, key string }{
		{"future version matured", "future-matured"},
		{"future delete fired", "future-delete-fired"},
		{"delete at the current block", "del-now"},
		{"version became stale", "became-stale"},
		{"stale version observed collected", "stale-version-collected"},
		{"re-append after delete", "append-reappend-after-delete"},
		{"put (cancel) of a future version", "put-future"},
		{"put of the last reference (starts a stale period)", "put-last-ref"},
		{"same-block overwrite", "append-overwrite"},
		{"past append", "append-past"},
		{"append while a delete is pending", "append-under-pending-delete"},
		{"lookup answered inside a stale period", "found-in-stale-period"},
		{"findable but not gettable", "findable-but-not-gettable"},
		{"lookup refused because the nearest version is stale", "notfound(nearest is stale)"},
		{"lookup refused at/after the delete block", "notfound(deleted)"},
		{"lookup refused beyond a pending delete", "notfound(delete pending at or before that block)"},
		{"future version found for a future block", "found-future-version-for-future-block"},
		{"future versions trimmed by a delete", "trimmed-future"},
		{"multi-version range", "multi-version-range"},
		{"GetEntry refused", "get-refused"},
	} {
		run.Require("class exercised: "+c.name, total.n[c.key] > 0 || only >= 0)
	}
	run.Finish("PRNG sequences (120 ops) of LEGAL AppendEntry (past/current/future/same-block/after delete) / DelEntry (now/future) / GetEntry / PutEntry (references, cancel of future versions) / ModifyEntry / block ticks (1..~450 single-block advances, TimerStore.Tick each) on the real FixationStore+TimerStore over IAVL, 1-4 indices with prefix-overlapping names, stale period 5-50; legality decided by a reference model written from the package doc; every op runs under recover(); after every op, at the last block of every advance and at every block within one block of a model event (maturity, delete, end of a stale period) ALL of FindEntry/FindEntryDetailed (blocks: each version, delete block, +-1, 0, now+-1, now+7, now+stale), HasEntry, IsEntryStale, ReadEntry, GetEntry (on a discarded cache context), GetAllEntryVersions, GetEntryVersionsRange, GetAllEntryIndices(+WithPrefix) are compared for all indices. "+
		"Relaxations where doc/statement are silent: R1 index with only future versions may or may not be listed; R2 a stale version may be physically present or collected (no exact GC block; never absent while non-stale); R3 FindEntryDetailed.isDeleted not compared for failed lookups; R4 versions carrying a delete mark are optional in GetEntryVersionsRange; R5 DelEntry that moves a pending delete earlier, or that targets a future version sitting after deleted remains, may be rejected with an error (then skipped); R6 retroactive re-append below the last delete block / over a still referenced deleted version is not generated; R7 IsEntryStale/ReadEntry only on versions HasEntry reports; index listings compared as sets. "+
		"Non-trivial sequence = a future version matured or a future delete fired AND a version reached the end of its stale period AND a lookup was answered from inside a stale period; distinct = distinct op lists",
		nseq/2,
		"the stale period function is constant within a sequence", "blocks advance one by one with TimerStore.Tick at every block (as BeginBlock does)",
		"illegal calls (documented to panic or to return an error) are not generated", "the reference model is an independent reading of the package documentation")
}
