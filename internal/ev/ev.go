// Package ev is the verdict / evidence / known-findings layer shared by every check.
//
// A check is a Go test that creates a Run with Start, feeds it what the monitors observed
// (evaluations, distinct non-trivial case signatures, samples, counters, violations) and calls
// Finish, which writes /verif/evidence/<id>.json and /verif/.out/<id>.status. The ./check wrapper
// prints the status lines and turns them into the exit code.
package ev

import (
	"crypto/sha256"
	"encoding/hex"
	"encoding/json"
	"fmt"
	"os"
	"path/filepath"
	"sort"
	"strconv"
	"strings"
	"sync"
	"time"
)

func Dir() string {
	if d := os.Getenv("VERIF_DIR"); d != "" {
		return d
	}
	return "/verif"
}

func RepoDir() string {
	if d := os.Getenv("VERIF_REPO"); d != "" {
		return d
	}
	return "/repo"
}

type Violation struct {
	Rule      string `json:"rule"`
	Signature string `json:"signature"`
	Desc      string `json:"desc"`
	Replay    string `json:"replay"`
	Count     int    `json:"count"`
	Known     bool   `json:"known"`
}

type Run struct {
	mu        sync.Mutex
	ID        string
	Tier      string
	Seed      int64
	Level     string
	start     time.Time
	evals     int64
	distinct  map[string]struct{}
	samples   []any
	maxSample int
	counters  map[string]int64
	viol      map[string]*Violation
	violOrder []string
	inconcl   []string
	extra     map[string]any
	replayN   int
	unmet     []string
}

// Start reads VERIF_TIER / VERIF_SEED. id is the property id (C01 ...).
func Start(id string) *Run {
	tier := os.Getenv("VERIF_TIER")
	if tier != "thorough" {
		tier = "quick"
	}
	seed := int64(1)
	if s := os.Getenv("VERIF_SEED"); s != "" {
		if v, err := strconv.ParseInt(s, 10, 64); err == nil {
			seed = v
		}
	}
	return &Run{
		ID: id, Tier: tier, Seed: seed, Level: "exploration", start: time.Now(),
		distinct: map[string]struct{}{}, counters: map[string]int64{}, viol: map[string]*Violation{},
		extra: map[string]any{}, maxSample: 6,
	}
}

func (r *Run) Quick() bool    { return r.Tier == "quick" }
func (r *Run) Thorough() bool { return r.Tier == "thorough" }

// Pick returns q in the quick tier and t in the thorough tier.
func (r *Run) Pick(q, t int) int {
	if r.Quick() {
		return q
	}
	return t
}

func (r *Run) Eval(n int) {
	r.mu.Lock()
	r.evals += int64(n)
	r.mu.Unlock()
}

// Nontrivial records one non-trivial case by its signature; distinct_nontrivial counts distinct signatures.
func (r *Run) Nontrivial(sig string) {
	r.mu.Lock()
	if len(sig) > 64 {
		h := sha256.Sum256([]byte(sig))
		sig = hex.EncodeToString(h[:12])
	}
	r.distinct[sig] = struct{}{}
	r.mu.Unlock()
}

func (r *Run) NontrivialCount() int {
	r.mu.Lock()
	defer r.mu.Unlock()
	return len(r.distinct)
}

func (r *Run) Sample(v any) {
	r.mu.Lock()
	if len(r.samples) < r.maxSample {
		r.samples = append(r.samples, v)
	}
	r.mu.Unlock()
}

func (r *Run) Count(key string, n int) {
	r.mu.Lock()
	r.counters[key] += int64(n)
	r.mu.Unlock()
}

func (r *Run) Counter(key string) int64 {
	r.mu.Lock()
	defer r.mu.Unlock()
	return r.counters[key]
}

func (r *Run) Set(key string, v any) {
	r.mu.Lock()
	r.extra[key] = v
	r.mu.Unlock()
}

// Require records a reach requirement of the check (e.g. "class X was exercised"); an unmet
// requirement makes the run a broken run (exit 2) instead of "held".
func (r *Run) Require(name string, ok bool) {
	if ok {
		return
	}
	r.mu.Lock()
	r.unmet = append(r.unmet, name)
	r.mu.Unlock()
}

func (r *Run) Inconclusive(reason string) {
	r.mu.Lock()
	if len(r.inconcl) < 20 {
		r.inconcl = append(r.inconcl, reason)
	}
	r.counters["inconclusive"]++
	r.mu.Unlock()
}

// Violation records a violation. signature identifies the class (monitor rule + call site / input
// class / history shape) and is what known_findings.json is matched on; replay is any JSON-able
// witness (seed, op list, input ...) written to /verif/replays/<id>-<n>.json (first per signature).
func (r *Run) Violation(rule, signature, desc string, replay any) {
	r.mu.Lock()
	defer r.mu.Unlock()
	key := rule + " | " + signature
	if v, ok := r.viol[key]; ok {
		v.Count++
		return
	}
	r.replayN++
	dir := filepath.Join(Dir(), "replays")
	_ = os.MkdirAll(dir, 0o755)
	h := sha256.Sum256([]byte(key))
	path := filepath.Join(dir, fmt.Sprintf("%s-%s.json", r.ID, hex.EncodeToString(h[:4])))
	b, err := json.MarshalIndent(map[string]any{
		"property": r.ID, "rule": rule, "signature": signature, "desc": desc, "seed": r.Seed, "tier": r.Tier, "witness": replay,
	}, "", " ")
	if err != nil {
		b = []byte(fmt.Sprintf(`{"property":%q,"rule":%q,"signature":%q,"desc":%q,"seed":%d,"marshal_error":%q}`, r.ID, rule, signature, desc, r.Seed, err.Error()))
	}
	_ = os.WriteFile(path, b, 0o644)
	if len(desc) > 600 {
		desc = desc[:600] + "…"
	}
	r.viol[key] = &Violation{Rule: rule, Signature: signature, Desc: desc, Replay: path, Count: 1}
	r.violOrder = append(r.violOrder, key)
}

func (r *Run) Violations() int {
	r.mu.Lock()
	defer r.mu.Unlock()
	return len(r.viol)
}

type knownFinding struct {
	Property  string `json:"property"`
	Status    string `json:"status"` // "open" or "fixed"
	Rule      string `json:"rule"`
	Signature string `json:"signature"`
	Desc      string `json:"description"`
	Commit    string `json:"commit,omitempty"`
}

func loadKnown() []knownFinding {
	b, err := os.ReadFile(filepath.Join(Dir(), "known_findings.json"))
	if err != nil {
		return nil
	}
	var f struct {
		Findings []knownFinding `json:"findings"`
	}
	if err := json.Unmarshal(b, &f); err != nil {
		return nil
	}
	return f.Findings
}

// Finish writes the evidence file and the status file. rule describes how cases are generated and
// what makes one non-trivial; minNontrivial is the property's non-triviality floor: a run that saw
// fewer distinct non-trivial cases is a broken run (exit 2), not "held".
func (r *Run) Finish(rule string, minNontrivial int, assumptions ...string) {
	r.mu.Lock()
	defer r.mu.Unlock()
	known := loadKnown()
	if assumptions == nil {
		assumptions = []string{}
	}
	var lines []string
	unknownViol := 0
	knownSeen := 0
	for _, key := range r.violOrder {
		v := r.viol[key]
		for _, k := range known {
			if k.Property == r.ID && k.Status != "fixed" && k.Rule == v.Rule && k.Signature == v.Signature {
				v.Known = true
			}
		}
		if v.Known {
			knownSeen++
			lines = append(lines, fmt.Sprintf("KNOWN-FINDING: property=%s %s | %s (x%d) %s", r.ID, v.Rule, v.Signature, v.Count, oneLine(v.Desc)))
		} else {
			unknownViol++
			lines = append(lines, fmt.Sprintf("VIOLATION property=%s replay=%s", r.ID, v.Replay))
			lines = append(lines, fmt.Sprintf("  detail: %s | %s (x%d) %s", v.Rule, v.Signature, v.Count, oneLine(v.Desc)))
		}
	}
	status := 0
	if unknownViol > 0 {
		status = 1
	} else if len(r.distinct) < minNontrivial || len(r.distinct) < 2 || r.evals < 1 {
		status = 2
		lines = append(lines, fmt.Sprintf("BROKEN-RUN property=%s observed only %d distinct non-trivial cases (floor %d), %d evaluations", r.ID, len(r.distinct), minNontrivial, r.evals))
	}
	if unknownViol == 0 && len(r.unmet) > 0 {
		status = 2
		lines = append(lines, fmt.Sprintf("BROKEN-RUN property=%s reach requirements not met: %s", r.ID, strings.Join(r.unmet, "; ")))
	}
	for _, s := range r.inconcl {
		lines = append(lines, "INCONCLUSIVE: property="+r.ID+" "+oneLine(s))
	}

	cov := map[string]any{}
	for k, v := range r.extra {
		cov[k] = v
	}
	keys := make([]string, 0, len(r.counters))
	for k := range r.counters {
		keys = append(keys, k)
	}
	sort.Strings(keys)
	counters := map[string]int64{}
	for _, k := range keys {
		counters[k] = r.counters[k]
	}
	cov["counters"] = counters
	cov["evaluations"] = r.evals
	cov["distinct_nontrivial"] = len(r.distinct)
	cov["rule"] = rule
	if len(r.samples) == 0 {
		r.samples = append(r.samples, "no sample recorded")
	}
	cov["samples"] = r.samples
	cov["nontrivial_floor"] = minNontrivial
	cov["inconclusive"] = r.inconcl
	cov["unmet_reach_requirements"] = r.unmet
	vl := []*Violation{}
	for _, key := range r.violOrder {
		vl = append(vl, r.viol[key])
	}
	cov["violation_list"] = vl
	cov["known_findings_seen"] = knownSeen
	evd := map[string]any{
		"property_id": r.ID, "tier": r.Tier, "seed": r.Seed, "level": r.Level, "coverage": cov,
		"assumptions": assumptions, "wall_s": time.Since(r.start).Seconds(), "violations": unknownViol,
	}
	b, _ := json.MarshalIndent(evd, "", " ")
	edir := filepath.Join(Dir(), "evidence")
	_ = os.MkdirAll(edir, 0o755)
	if err := os.WriteFile(filepath.Join(edir, r.ID+".json"), b, 0o644); err != nil {
		lines = append(lines, "BROKEN-RUN cannot write evidence: "+err.Error())
		status = 2
	}
	lines = append(lines, fmt.Sprintf("SUMMARY property=%s tier=%s seed=%d evaluations=%d distinct_nontrivial=%d violations=%d known=%d inconclusive=%d wall=%.1fs",
		r.ID, r.Tier, r.Seed, r.evals, len(r.distinct), unknownViol, knownSeen, len(r.inconcl), time.Since(r.start).Seconds()))
	odir := filepath.Join(Dir(), ".out")
	_ = os.MkdirAll(odir, 0o755)
	st := map[string]any{"exit": status, "lines": lines}
	sb, _ := json.Marshal(st)
	_ = os.WriteFile(filepath.Join(odir, r.ID+".status"), sb, 0o644)
	fmt.Println(strings.Join(lines, "\n"))
}

func oneLine(s string) string {
	s = strings.ReplaceAll(s, "\n", " ⏎ ")
	if len(s) > 400 {
		s = s[:400] + "…"
	}
	return s
}
