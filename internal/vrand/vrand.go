// Package vrand: every random choice of a check derives from VERIF_SEED through named streams.
package vrand

import (
	"hash/fnv"
	"math/rand"
)

// New returns a deterministic PRNG for (seed, stream).
func New(seed int64, stream string) *rand.Rand {
	h := fnv.New64a()
	h.Write([]byte(stream))
	x := uint64(seed)*0x9E3779B97F4A7C15 ^ h.Sum64()
	// splitmix64 finaliser
	x ^= x >> 30
	x *= 0xBF58476D1CE4E5B9
	x ^= x >> 27
	x *= 0x94D049BB133111EB
	x ^= x >> 31
	return rand.New(rand.NewSource(int64(x)))
}

// Sub derives an independent stream for case i.
func Sub(seed int64, stream string, i int) *rand.Rand {
	return New(seed+int64(i)*1000003, stream)
}

// Pick returns a random element.
func Pick[T any](r *rand.Rand, xs []T) T { return xs[r.Intn(len(xs))] }

// Weighted returns an index chosen with probability proportional to w.
func Weighted(r *rand.Rand, w []int) int {
	t := 0
	for _, x := range w {
		t += x
	}
	n := r.Intn(t)
	for i, x := range w {
		if n < x {
			return i
		}
		n -= x
	}
	return len(w) - 1
}
