//go:build verif

package chainmon

import (
	"fmt"
	"regexp"
	"strings"

	sdk "github.com/cosmos/cosmos-sdk/types"
	testkeeper "github.com/lavanet/lava/v5/testutil/keeper"
	dualstakingtypes "github.com/lavanet/lava/v5/x/dualstaking/types"
	rewardstypes "github.com/lavanet/lava/v5/x/rewards/types"
	subscriptiontypes "github.com/lavanet/lava/v5/x/subscription/types"

	"verif/internal/ev"
)

// ---------------------------------------------------------------- stack signatures

var frameRe = regexp.MustCompile(`(?m)^(github\.com/lavanet/lava/v5/[^\s(]+(?:\([^)]*\))?[^\s(]*)\(`)

// lavaFrames returns the lava function names of a stack, innermost first, skipping the harness.
func lavaFrames(stack string) []string {
	// drop everything up to the runtime panic frame
	if i := strings.Index(stack, "panic("); i >= 0 {
		stack = stack[i:]
	}
	var out []string
	for _, m := range frameRe.FindAllStringSubmatch(stack, -1) {
		f := strings.TrimPrefix(m[1], "github.com/lavanet/lava/v5/")
		if strings.HasPrefix(f, "utils.LavaFormat") {
			continue
		}
		out = append(out, f)
	}
	return out
}

func isMockBankPanic(stack string) bool {
	fr := lavaFrames(stack)
	return len(fr) > 0 && strings.HasPrefix(fr[0], "testutil/keeper.mockBankKeeper")
}

func panicSignature(phase, stack string) string {
	fr := lavaFrames(stack)
	if len(fr) > 3 {
		fr = fr[:3]
	}
	return phase + " <- " + strings.Join(fr, " <- ")
}

// ---------------------------------------------------------------- C37: block processing never panics

type PanicMon struct {
	BaseMon
	Run      *ev.Run
	Hist     string // history id for witnesses
	ToC10    func(s *Sim, where, stack, msg string)
	Blocks   int
	Epochs   int
	TimerCbs int
}

func (m *PanicMon) AfterTx(s *Sim, r *TxRes) {
	if r.Panic != "" {
		m.Run.Count("tx_panics_recovered(not C37: baseapp turns a tx panic into a failed tx)", 1)
		m.Run.Count("tx_panic:"+panicSignature(r.Name, r.Stack), 1)
	}
}

func (m *PanicMon) AfterBlock(s *Sim, b *BlockRes) {
	m.Blocks++
	if b.EpochStart {
		m.Epochs++
	}
	if b.Panic == "" || b.Panic == "halted" {
		return
	}
	if isMockBankPanic(b.Stack) {
		// the real bank returns an error where the mock's Coins.Sub panics: insufficient module funds, a C10 matter
		if m.ToC10 != nil {
			m.ToC10(s, b.Phase, b.Stack, b.Panic)
		}
		m.Run.Count("block_panics_routed_to_C10(mock bank negative balance)", 1)
		return
	}
	sig := panicSignature(b.Phase, b.Stack)
	m.Run.Violation("block-processing-panic", sig, fmt.Sprintf("panic in %s at height %d: %s", b.Phase, b.Height, b.Panic),
		map[string]any{"history": m.Hist, "seed": s.Seed, "profile": s.prof.Name, "step": b.Step, "stack": trimStack(b.Stack), "log_tail": s.LogTail(60)})
}

func trimStack(st string) string {
	lines := strings.Split(st, "\n")
	if len(lines) > 60 {
		lines = lines[:60]
	}
	return strings.Join(lines, "\n")
}

// ---------------------------------------------------------------- C09: supply never increases

type SupplyMon struct {
	BaseMon
	Run    *ev.Run
	Hist   string
	before map[string]sdk.Int
	Burns  int
	Steps  int
}

func supplyByDenom() map[string]sdk.Int {
	out := map[string]sdk.Int{}
	for _, coins := range testkeeper.VerifBankSnapshot() {
		for _, c := range coins {
			if cur, ok := out[c.Denom]; ok {
				out[c.Denom] = cur.Add(c.Amount)
			} else {
				out[c.Denom] = c.Amount
			}
		}
	}
	return out
}

func (m *SupplyMon) BeforeTx(s *Sim, name string, msg sdk.Msg) { m.before = supplyByDenom() }
func (m *SupplyMon) BeforeBlock(s *Sim)                        { m.before = supplyByDenom() }

func (m *SupplyMon) check(s *Sim, what, class string, step int) {
	m.Steps++
	after := supplyByDenom()
	for _, d := range sortedKeys(after) {
		b, ok := m.before[d]
		if !ok {
			b = sdk.ZeroInt()
		}
		if after[d].GT(b) {
			m.Run.Violation("supply-increased", class, fmt.Sprintf("%s: supply of %s went %s -> %s (+%s)", what, d, b, after[d], after[d].Sub(b)),
				map[string]any{"history": m.Hist, "seed": s.Seed, "profile": s.prof.Name, "step": step, "log_tail": s.LogTail(40)})
		} else if after[d].LT(b) {
			m.Burns++
			m.Run.Count("supply_decreases(burns):"+class, 1)
		}
	}
}

func (m *SupplyMon) AfterTx(s *Sim, r *TxRes) {
	if r.Name == "slash" {
		// x/slashing burns bonded tokens: decreases only; still checked
	}
	m.check(s, "tx "+r.Name+" "+r.Desc, "tx:"+r.Name, r.Step)
}

func (m *SupplyMon) AfterBlock(s *Sim, b *BlockRes) {
	if b.Panic != "" {
		return
	}
	m.check(s, fmt.Sprintf("block %d", b.Height), "block", b.Step)
}

// ---------------------------------------------------------------- C10: escrowed obligations are backed

type BackingMon struct {
	BaseMon
	Run    *ev.Run
	Hist   string
	Checks int
	// reach counters
	MaxDelegRewards, MaxIprpc, MaxSubCredit sdk.Int
}

func coinsGTE(have, need sdk.Coins) bool { return have.IsAllGTE(need) }

func (m *BackingMon) obligations(s *Sim) (dualOb, iprpcOb, subOb sdk.Coins) {
	ctx := s.TS.Ctx
	ks := s.TS.Keepers
	dualOb, iprpcOb, subOb = sdk.NewCoins(), sdk.NewCoins(), sdk.NewCoins()
	for _, r := range ks.Dualstaking.GetAllDelegatorReward(ctx) {
		dualOb = dualOb.Add(r.Amount...)
	}
	for _, r := range ks.Rewards.GetAllIprpcReward(ctx) {
		for _, sf := range r.SpecFunds {
			iprpcOb = iprpcOb.Add(sf.Fund...)
		}
	}
	nextEpoch := ks.Epochstorage.GetCurrentNextEpoch(ctx)
	for _, idx := range ks.Subscription.GetAllSubscriptionsIndices(ctx) {
		sub, _, found := ks.Subscription.GetSubscriptionForBlock(ctx, idx, nextEpoch)
		if !found {
			continue
		}
		subOb = subOb.Add(sub.Credit)
		if sub.FutureSubscription != nil {
			subOb = subOb.Add(sub.FutureSubscription.Credit)
		}
	}
	gs := ks.Subscription.ExportCuTrackerTimers(ctx)
	for _, e := range gs.BlockEntries {
		var td subscriptiontypes.CuTrackerTimerData
		if err := td.Unmarshal(e.Data); err == nil {
			subOb = subOb.Add(td.Credit)
		}
	}
	return
}

func (m *BackingMon) check(s *Sim, where string, step int) {
	m.Checks++
	ctx := s.TS.Ctx
	bank := s.TS.Keepers.BankKeeper
	dualOb, iprpcOb, subOb := m.obligations(s)
	type row struct {
		name, module string
		need         sdk.Coins
	}
	for _, r := range []row{
		{"dualstaking-rewards", dualstakingtypes.ModuleName, dualOb},
		{"iprpc-pool", string(rewardstypes.IprpcPoolName), iprpcOb},
		{"subscription-credit", subscriptiontypes.ModuleName, subOb},
	} {
		have := bank.GetAllBalances(ctx, testkeeper.GetModuleAddress(r.module))
		if !r.need.IsZero() {
			m.Run.Count("backing_checks_with_nonzero_obligation:"+r.name, 1)
		}
		if !coinsGTE(have, r.need) {
			m.Run.Violation("obligation-not-backed", r.name, fmt.Sprintf("%s: module %s holds %s but owes %s", where, r.module, have, r.need),
				map[string]any{"history": m.Hist, "seed": s.Seed, "profile": s.prof.Name, "step": step, "log_tail": s.LogTail(40)})
		}
	}
}

func (m *BackingMon) AfterTx(s *Sim, r *TxRes) {
	if r.OK() {
		m.check(s, "after tx "+r.Name+" "+r.Desc, r.Step)
	}
}

func (m *BackingMon) AfterBlock(s *Sim, b *BlockRes) {
	if b.Panic == "" {
		m.check(s, fmt.Sprintf("after block %d", b.Height), b.Step)
	}
}

// FromPanic is wired to PanicMon.ToC10.
func (m *BackingMon) FromPanic(s *Sim, where, stack, msg string) {
	m.Run.Violation("payout-failed-for-lack-of-funds", panicSignature(where, stack), "mock bank went negative (real bank: insufficient funds error) in "+where+": "+msg,
		map[string]any{"history": m.Hist, "seed": s.Seed, "profile": s.prof.Name, "stack": trimStack(stack), "log_tail": s.LogTail(40)})
}
