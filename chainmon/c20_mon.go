//go:build verif

package chainmon

// C20 — conflict votes follow commit-reveal and stake majority.
//
// ConflictMon keeps a small reference model of every conflict vote (phase, deadline, per-voter commit
// hash and counted result) that is stepped by the same messages and blocks as the chain, and compares
// it with the ConflictVote record after every tx and block and with the resolved / unresolved events.
// Inputs taken from the chain (not re-derived, the statement is silent about them): the voter list and
// the deadline written at detection / at the move to reveal, the stake of each listed voter as the
// closing code reads it (epochstorage snapshot of the vote's epoch), and "counted stake" = the stake of
// all listed voters that still have such a snapshot entry (the code counts non-voters in the total; a
// voter who committed but never revealed must be indistinguishable from one who never committed).

import (
	"bytes"
	"context"
	"crypto/sha256"
	"encoding/binary"
	"fmt"
	"sort"
	"strings"

	sdkmath "cosmossdk.io/math"
	sdk "github.com/cosmos/cosmos-sdk/types"
	"github.com/lavanet/lava/v5/testutil/common"
	"github.com/lavanet/lava/v5/utils/sigs"
	conflicttypes "github.com/lavanet/lava/v5/x/conflict/types"
	dualstakingtypes "github.com/lavanet/lava/v5/x/dualstaking/types"
	pairingtypes "github.com/lavanet/lava/v5/x/pairing/types"

	"verif/internal/ev"
)

const (
	c20Commit = 0
	c20Reveal = 1
	c20Closed = 2
)

var c20PhaseName = map[int]string{c20Commit: "commit", c20Reveal: "reveal", c20Closed: "closed"}

func c20OptName(o int64) string {
	switch o {
	case conflicttypes.Provider0:
		return "provider0"
	case conflicttypes.Provider1:
		return "provider1"
	case conflicttypes.NoneOfTheProviders:
		return "none"
	}
	return "-"
}

type c20Voter struct {
	Addr      string
	Committed bool
	Hash      []byte
	Result    int64 // 0 until a reveal is counted, then Provider0 / Provider1 / NoneOfTheProviders

	// generator side (what the workload intends / has sent; never used by the oracles except to name
	// the kind of a mismatching reveal)
	plan       int64 // 0 = abstain, otherwise the option this voter is meant to vote for
	planReveal bool  // false: commits but never sends a valid reveal
	sent       bool  // a commit of this voter was accepted; nonce/data below belong to it
	nonce      int64
	data       []byte
}

type c20Vote struct {
	ID         string
	Phase      int
	Deadline   uint64
	StartBlock uint64
	Chain      string
	P0, P1     string
	Resp0      []byte
	Resp1      []byte
	Voters     []*c20Voter
	idx        map[string]int
	CreatedAt  int64
	MovedAt    int64
	ClosedAt   int64
	Outcome    string

	// generator side
	det          *conflicttypes.MsgDetection
	data0, data1 []byte
	planStake    map[string]int64 // listed stake when the vote opened (to aim the plan; the oracle re-reads at close)
}

func (v *c20Vote) voter(a string) *c20Voter {
	if i, ok := v.idx[a]; ok {
		return v.Voters[i]
	}
	return nil
}

func (v *c20Vote) dump() map[string]any {
	var vs []string
	for _, x := range v.Voters {
		vs = append(vs, fmt.Sprintf("%s committed=%v result=%s stake_at_open=%d", short(x.Addr), x.Committed, c20OptName(x.Result), v.planStake[x.Addr]))
	}
	return map[string]any{"id": v.ID, "phase": c20PhaseName[v.Phase], "deadline": v.Deadline, "start_block": v.StartBlock, "chain": v.Chain,
		"created_at": v.CreatedAt, "moved_to_reveal_at": v.MovedAt, "closed_at": v.ClosedAt, "voters": vs}
}

// ConflictMon: C20.
type ConflictMon struct {
	BaseMon
	Run  *ev.Run
	Hist string

	votes map[string]*c20Vote // latest model per vote id (closed ones are kept for late messages)
	order []*c20Vote

	pending *c20Vote // generator data of the detection being sent
	last    *c20Vote // vote created by the last detection
}

func NewConflictMon(run *ev.Run, hist string) *ConflictMon {
	return &ConflictMon{Run: run, Hist: hist, votes: map[string]*c20Vote{}}
}

func c20Of(s *Sim) *ConflictMon {
	for _, m := range s.Mons {
		if cm, ok := m.(*ConflictMon); ok {
			return cm
		}
	}
	return nil
}

func (m *ConflictMon) wit(s *Sim, step int, v *c20Vote) map[string]any {
	w := map[string]any{"history": m.Hist, "seed": s.Seed, "profile": s.prof.Name, "step": step, "log_tail": s.LogTail(40)}
	if v != nil {
		w["vote_model"] = v.dump()
	}
	return w
}

func (m *ConflictMon) viol(s *Sim, step int, v *c20Vote, rule, sig, desc string) {
	m.Run.Violation(rule, sig, desc, m.wit(s, step, v))
}

// ---------------------------------------------------------------- classification (from the model only)

func (m *ConflictMon) commitClass(msg *conflicttypes.MsgConflictVoteCommit) (*c20Vote, string) {
	v := m.votes[msg.VoteID]
	switch {
	case v == nil:
		return nil, "unknown-vote"
	case v.Phase == c20Closed:
		return v, "after-close"
	case v.Phase == c20Reveal:
		return v, "in-reveal-phase"
	}
	x := v.voter(msg.Creator)
	switch {
	case x == nil:
		return v, "not-listed"
	case x.Committed:
		return v, "duplicate"
	}
	return v, "valid"
}

func (m *ConflictMon) revealClass(msg *conflicttypes.MsgConflictVoteReveal) (*c20Vote, string) {
	v := m.votes[msg.VoteID]
	switch {
	case v == nil:
		return nil, "unknown-vote"
	case v.Phase == c20Closed:
		return v, "after-close"
	case v.Phase == c20Commit:
		return v, "in-commit-phase"
	}
	x := v.voter(msg.Creator)
	switch {
	case x == nil:
		return v, "not-listed"
	case !x.Committed:
		return v, "no-commit"
	case x.Result != 0:
		return v, "duplicate"
	}
	// the hashing helper the code (and every honest provider) uses to build a commit
	if !bytes.Equal(conflicttypes.CommitVoteData(msg.Nonce, msg.Hash, msg.Creator), x.Hash) {
		for _, o := range v.Voters {
			if o != x && o.Committed && bytes.Equal(conflicttypes.CommitVoteData(msg.Nonce, msg.Hash, o.Addr), o.Hash) {
				return v, "mismatch:other-voters-reveal"
			}
		}
		switch {
		case x.sent && x.nonce == msg.Nonce && !bytes.Equal(x.data, msg.Hash):
			return v, "mismatch:wrong-hash"
		case x.sent && x.nonce != msg.Nonce && bytes.Equal(x.data, msg.Hash):
			return v, "mismatch:wrong-nonce"
		}
		return v, "mismatch:other"
	}
	return v, "valid"
}

func (v *c20Vote) option(dataHash []byte) int64 {
	h := sigs.HashMsg(dataHash)
	switch {
	case bytes.Equal(h, v.Resp0):
		return conflicttypes.Provider0
	case bytes.Equal(h, v.Resp1):
		return conflicttypes.Provider1
	}
	return conflicttypes.NoneOfTheProviders
}

// ---------------------------------------------------------------- record vs model

// diff compares the stored ConflictVote with the model; returns the kinds of difference.
func (m *ConflictMon) diff(s *Sim, v *c20Vote) []string {
	rec, found := s.TS.Keepers.Conflict.GetConflictVote(s.TS.Ctx, v.ID)
	if v.Phase == c20Closed {
		// a closed vote is gone; a later detection may legitimately re-create the id (handled at detection)
		return nil
	}
	if !found {
		return []string{"record-missing"}
	}
	var d []string
	if int(rec.VoteState) != v.Phase {
		d = append(d, fmt.Sprintf("state=%d,model=%s", rec.VoteState, c20PhaseName[v.Phase]))
	}
	if rec.VoteDeadline != v.Deadline {
		d = append(d, "deadline-changed")
	}
	if len(rec.Votes) != len(v.Voters) {
		return append(d, "voter-list-changed")
	}
	for i, rv := range rec.Votes {
		x := v.Voters[i]
		if rv.Address != x.Addr {
			return append(d, "voter-list-changed")
		}
		want := int64(conflicttypes.NoVote)
		switch {
		case x.Result != 0:
			want = x.Result
		case x.Committed:
			want = conflicttypes.Commit
		}
		if rv.Result != want {
			d = append(d, fmt.Sprintf("voter-result=%d,model=%d", rv.Result, want))
		}
		if !bytes.Equal(rv.Hash, x.Hash) {
			d = append(d, "voter-commit-hash")
		}
	}
	return d
}

// adopt re-synchronises the model with the record after a reported difference (no cascades).
func (m *ConflictMon) adopt(s *Sim, v *c20Vote) {
	rec, found := s.TS.Keepers.Conflict.GetConflictVote(s.TS.Ctx, v.ID)
	if !found {
		v.Phase = c20Closed
		return
	}
	v.Phase = int(rec.VoteState)
	v.Deadline = rec.VoteDeadline
	m.loadVoters(v, rec, v)
}

func (m *ConflictMon) loadVoters(v *c20Vote, rec conflicttypes.ConflictVote, old *c20Vote) {
	var vs []*c20Voter
	idx := map[string]int{}
	for i, rv := range rec.Votes {
		x := &c20Voter{Addr: rv.Address, Hash: append([]byte{}, rv.Hash...)}
		if len(x.Hash) == 0 {
			x.Hash = nil
		}
		switch rv.Result {
		case conflicttypes.NoVote:
		case conflicttypes.Commit:
			x.Committed = true
		default:
			x.Committed, x.Result = true, rv.Result
		}
		if old != nil {
			if o := old.voter(rv.Address); o != nil {
				x.plan, x.planReveal, x.sent, x.nonce, x.data = o.plan, o.planReveal, o.sent, o.nonce, o.data
			}
		}
		idx[rv.Address] = i
		vs = append(vs, x)
	}
	v.Voters, v.idx = vs, idx
}

func (m *ConflictMon) compareAll(s *Sim, step int, where string) {
	for _, v := range m.order {
		if v.Phase == c20Closed || m.votes[v.ID] != v {
			continue
		}
		if d := m.diff(s, v); len(d) > 0 {
			m.viol(s, step, v, "vote-record-differs-from-model", fmt.Sprintf("%s after %s", d[0], where),
				fmt.Sprintf("vote %s: record differs from the reference model after %s: %v", short(v.ID), where, d))
			m.adopt(s, v)
		}
	}
}

// ---------------------------------------------------------------- tx hooks

func (m *ConflictMon) AfterTx(s *Sim, r *TxRes) {
	where := r.Name
	switch msg := r.Msg.(type) {
	case *conflicttypes.MsgDetection:
		m.afterDetection(s, r, msg)
	case *conflicttypes.MsgConflictVoteCommit:
		v, cls := m.commitClass(msg)
		where += "/" + cls
		m.Run.Eval(1)
		m.Run.Count("commit:"+cls, 1)
		if r.OK() {
			m.Run.Count("commit_accepted:"+cls, 1)
			if cls != "valid" {
				m.viol(s, r.Step, v, "commit-accepted-outside-rules", cls, fmt.Sprintf("commit by %s on vote %s accepted although the model classifies it as %s", short(msg.Creator), short(msg.VoteID), cls))
				if v != nil {
					m.adopt(s, v)
				}
			} else {
				x := v.voter(msg.Creator)
				x.Committed, x.Hash = true, append([]byte{}, msg.Hash...)
			}
		} else if cls == "valid" {
			m.Run.Count("valid_commit_rejected", 1)
		}
	case *conflicttypes.MsgConflictVoteReveal:
		v, cls := m.revealClass(msg)
		where += "/" + cls
		m.Run.Eval(1)
		m.Run.Count("reveal:"+cls, 1)
		if r.OK() {
			m.Run.Count("reveal_accepted:"+cls, 1)
		}
		if cls == "valid" {
			if r.OK() {
				x := v.voter(msg.Creator)
				x.Result = v.option(msg.Hash)
			} else {
				m.Run.Count("valid_reveal_rejected", 1)
			}
		} else if v != nil && v.Phase != c20Closed {
			// a reveal outside the rules must be rejected or at least not counted
			if rec, found := s.TS.Keepers.Conflict.GetConflictVote(s.TS.Ctx, v.ID); found {
				for _, rv := range rec.Votes {
					if rv.Address != msg.Creator {
						continue
					}
					x := v.voter(msg.Creator)
					was := int64(0)
					if x != nil {
						was = x.Result
					}
					if rv.Result >= conflicttypes.Provider0 && rv.Result != was {
						m.viol(s, r.Step, v, "reveal-counted-outside-rules", cls, fmt.Sprintf("reveal by %s on vote %s (%s) was counted as %s (tx ok=%v)", short(msg.Creator), short(msg.VoteID), cls, c20OptName(rv.Result), r.OK()))
						m.adopt(s, v)
					}
				}
			}
		}
	}
	m.compareAll(s, r.Step, where)
}

func (m *ConflictMon) afterDetection(s *Sim, r *TxRes, msg *conflicttypes.MsgDetection) {
	m.last = nil
	gen := m.pending
	m.pending = nil
	if !r.OK() {
		m.Run.Count("detection_rejected", 1)
		return
	}
	var id string
	for _, e := range findEvents(r.Events, conflicttypes.ConflictVoteDetectionEventName) {
		id, _ = evAttr(e, "voteID")
	}
	if id == "" {
		return // not a response conflict
	}
	rec, found := s.TS.Keepers.Conflict.GetConflictVote(s.TS.Ctx, id)
	if !found {
		m.viol(s, r.Step, nil, "detection-without-vote-record", "response conflict accepted, no ConflictVote stored", "vote "+id)
		return
	}
	if old := m.votes[id]; old != nil && old.Phase != c20Closed {
		// an open vote was overwritten by a new detection: every commit / reveal so far is lost
		m.viol(s, r.Step, old, "vote-record-differs-from-model", "open vote re-created by a second detection", "vote "+id)
		old.Phase = c20Closed
	}
	v := &c20Vote{ID: id, Phase: int(rec.VoteState), Deadline: rec.VoteDeadline, StartBlock: rec.VoteStartBlock, Chain: rec.ChainID,
		P0: rec.FirstProvider.Account, P1: rec.SecondProvider.Account, Resp0: rec.FirstProvider.Response, Resp1: rec.SecondProvider.Response,
		CreatedAt: s.TS.Ctx.BlockHeight(), det: msg}
	m.loadVoters(v, rec, nil)
	if gen != nil && gen.det == msg {
		v.data0, v.data1 = gen.data0, gen.data1
	}
	m.Run.Count("votes_opened", 1)
	m.Run.Count(fmt.Sprintf("votes_opened_with_%d_voters", min(len(v.Voters), 6)), 1)
	if v.Phase != c20Commit {
		m.viol(s, r.Step, v, "vote-not-opened-in-commit-phase", fmt.Sprintf("state=%d", rec.VoteState), "vote "+id)
	}
	for _, x := range v.Voters {
		if x.Committed || x.Result != 0 {
			m.viol(s, r.Step, v, "vote-not-opened-in-commit-phase", "a voter starts with a commit / result", "vote "+id)
		}
	}
	m.votes[id] = v
	m.order = append(m.order, v)
	m.last = v
}

// ---------------------------------------------------------------- block hook

func (m *ConflictMon) AfterBlock(s *Sim, b *BlockRes) {
	if b.Panic != "" {
		return
	}
	ks := s.TS.Keepers
	h := uint64(b.Height)
	epochStart := b.EpochStart || len(findEvents(b.BeginEvents, "new_epoch")) > 0
	outcomeEv := map[string]sdk.Event{}
	for _, e := range append(append([]sdk.Event{}, b.BeginEvents...), b.EndEvents...) {
		n := evName(e)
		if n == conflicttypes.ConflictVoteResolvedEventName || n == conflicttypes.ConflictVoteUnresolvedEventName {
			id, _ := evAttr(e, "voteID")
			outcomeEv[id] = e
		}
	}
	for _, v := range m.order {
		if v.Phase == c20Closed || m.votes[v.ID] != v {
			continue
		}
		rec, found := ks.Conflict.GetConflictVote(s.TS.Ctx, v.ID)
		from := v.Phase
		to := c20Closed
		if found {
			to = int(rec.VoteState)
		}
		if to == from {
			if epochStart && h >= v.Deadline {
				m.Run.Count("eligible_but_not_moved", 1)
			}
			if _, ok := outcomeEv[v.ID]; ok {
				m.viol(s, b.Step, v, "outcome-event-for-open-vote", c20PhaseName[from], fmt.Sprintf("vote %s still %s at block %d but an outcome event was emitted", short(v.ID), c20PhaseName[from], h))
			}
			continue
		}
		// ---- a phase change happened in this block
		m.Run.Eval(1)
		tr := c20PhaseName[from] + "->" + c20PhaseName[to]
		m.Run.Count("transition:"+tr, 1)
		if !epochStart {
			m.viol(s, b.Step, v, "transition-at-non-epoch-start", tr, fmt.Sprintf("vote %s moved %s at block %d which is not an epoch start (deadline %d)", short(v.ID), tr, h, v.Deadline))
		}
		if h < v.Deadline {
			m.viol(s, b.Step, v, "transition-before-deadline", tr, fmt.Sprintf("vote %s moved %s at block %d, deadline %d", short(v.ID), tr, h, v.Deadline))
		}
		if h > v.Deadline {
			m.Run.Count("transition_later_than_deadline_block", 1) // deadline off the epoch grid (EpochBlocks changed)
		}
		switch {
		case from == c20Commit && to == c20Reveal:
			v.Phase, v.Deadline, v.MovedAt = c20Reveal, rec.VoteDeadline, b.Height
			if d := m.diff(s, v); len(d) > 0 {
				m.viol(s, b.Step, v, "vote-record-differs-from-model", d[0]+" after move to reveal", fmt.Sprintf("vote %s: %v", short(v.ID), d))
				m.adopt(s, v)
			}
		case from == c20Reveal && to == c20Closed:
			v.Phase, v.ClosedAt = c20Closed, b.Height
			e, ok := outcomeEv[v.ID]
			m.judgeOutcome(s, b, v, e, ok)
		default:
			m.viol(s, b.Step, v, "phase-order-violated", tr, fmt.Sprintf("vote %s moved %s at block %d", short(v.ID), tr, h))
			m.adopt(s, v)
		}
	}
	m.compareAll(s, b.Step, "block")
}

type c20Tally struct {
	total                                         sdkmath.Int
	opt                                           map[int64]sdkmath.Int
	n                                             map[int64]int
	unrevealed, neverCommitted, noStake, nonVoter int
	winner                                        int64
	exactHalf                                     bool
}

// tally is the statement's counting rule: an option wins iff it holds MORE than half of the counted
// stake; only counted reveals put stake on an option; committed-but-unrevealed == never committed.
func (v *c20Vote) tally(stake func(addr string) (sdkmath.Int, bool)) c20Tally {
	t := c20Tally{total: sdk.ZeroInt(), opt: map[int64]sdkmath.Int{}, n: map[int64]int{}}
	opts := []int64{conflicttypes.Provider0, conflicttypes.Provider1, conflicttypes.NoneOfTheProviders}
	for _, o := range opts {
		t.opt[o] = sdk.ZeroInt()
	}
	for _, x := range v.Voters {
		st, found := stake(x.Addr)
		if !found {
			t.noStake++
			continue
		}
		t.total = t.total.Add(st)
		switch {
		case x.Result != 0:
			t.opt[x.Result] = t.opt[x.Result].Add(st)
			t.n[x.Result]++
		case x.Committed:
			t.unrevealed++
			t.nonVoter++
		default:
			t.neverCommitted++
			t.nonVoter++
		}
	}
	for _, o := range opts {
		twice := t.opt[o].MulRaw(2)
		if twice.GT(t.total) {
			t.winner = o
		}
		if twice.Equal(t.total) && t.total.IsPositive() {
			t.exactHalf = true
		}
	}
	return t
}

func (m *ConflictMon) judgeOutcome(s *Sim, b *BlockRes, v *c20Vote, e sdk.Event, haveEvent bool) {
	ks := s.TS.Keepers
	ctx := s.TS.Ctx
	// INPUT: the stake snapshot the closing code reads (entries of past epochs are immutable until the
	// epoch leaves memory, which happens in epochstorage's BeginBlock, i.e. before the conflict module ran)
	epoch, _, err := ks.Epochstorage.GetEpochStartForBlock(ctx, v.StartBlock)
	if err != nil {
		m.Run.Count("closed_vote_epoch_out_of_memory", 1)
		if haveEvent {
			m.Run.Count("closed_vote_epoch_out_of_memory_with_event", 1)
		}
		v.Outcome = "dropped"
		return
	}
	t := v.tally(func(a string) (sdkmath.Int, bool) {
		en, found := ks.Epochstorage.GetStakeEntry(ctx, epoch, v.Chain, a)
		if !found {
			return sdk.ZeroInt(), false
		}
		return en.TotalStake(), true
	})
	shape := fmt.Sprintf("p0=%d,p1=%d,none=%d,unrevealed=%d,nevercommitted=%d,nostake=%d", t.n[conflicttypes.Provider0], t.n[conflicttypes.Provider1], t.n[conflicttypes.NoneOfTheProviders], t.unrevealed, t.neverCommitted, t.noStake)
	cmp := "below-half"
	switch {
	case t.winner != 0:
		cmp = "above-half"
	case t.exactHalf:
		cmp = "exactly-half"
	}
	desc := fmt.Sprintf("vote %s closed at block %d: counted stake %s, provider0 %s, provider1 %s, none %s (%s)", short(v.ID), b.Height, t.total, t.opt[conflicttypes.Provider0], t.opt[conflicttypes.Provider1], t.opt[conflicttypes.NoneOfTheProviders], shape)
	if !haveEvent {
		m.Run.Count("closed_without_outcome_event", 1)
		v.Outcome = "no-event"
		return
	}
	resolved := evName(e) == conflicttypes.ConflictVoteResolvedEventName
	if resolved {
		v.Outcome = "resolved"
		m.Run.Count("outcome_resolved", 1)
		wa, _ := evAttr(e, "winner")
		want := map[int64]string{conflicttypes.Provider0: v.P0, conflicttypes.Provider1: v.P1, conflicttypes.NoneOfTheProviders: "None"}
		switch {
		case t.winner == 0:
			m.viol(s, b.Step, v, "resolved-without-majority", "winner holds "+cmp+" of counted stake", desc+"; event says resolved for "+short(wa))
		case wa != want[t.winner]:
			m.viol(s, b.Step, v, "resolved-for-wrong-option", "winner is not the option above half", desc+"; event winner "+short(wa)+", expected "+c20OptName(t.winner))
		default:
			m.Run.Count("outcome_resolved_for_"+c20OptName(t.winner), 1)
		}
	} else {
		v.Outcome = "unresolved"
		m.Run.Count("outcome_unresolved", 1)
		if t.winner != 0 {
			m.viol(s, b.Step, v, "majority-not-resolved", c20OptName(t.winner)+" above half, event unresolved", desc)
		}
	}
	if t.exactHalf && t.winner == 0 {
		m.Run.Count("votes_closed_with_an_option_at_exactly_half", 1)
	}
	if t.unrevealed > 0 {
		m.Run.Count("votes_closed_with_committed_but_unrevealed_voters", 1)
		if resolved {
			m.Run.Count("votes_resolved_with_committed_but_unrevealed_voters", 1)
		}
	}
	// the tallies the code reports are the counted stake per option
	for _, o := range []struct {
		opt int64
		key string
	}{{conflicttypes.Provider0, "FirstProviderVotes"}, {conflicttypes.Provider1, "SecondProviderVotes"}, {conflicttypes.NoneOfTheProviders, "NoneProviderVotes"}} {
		if a, ok := evAttr(e, o.key); ok && a != t.opt[o.opt].String() {
			m.viol(s, b.Step, v, "option-tally-differs", fmt.Sprintf("%s reported != stake of counted reveals (unrevealed voters present: %v)", c20OptName(o.opt), t.unrevealed > 0), desc+fmt.Sprintf("; event %s=%s", o.key, a))
		}
	}
	if a, ok := evAttr(e, "NumOfNoVoters"); ok && a != fmt.Sprint(t.nonVoter) {
		m.viol(s, b.Step, v, "unrevealed-not-treated-as-non-voter", fmt.Sprintf("NumOfNoVoters differs (unrevealed voters present: %v)", t.unrevealed > 0), desc+"; event NumOfNoVoters="+a+fmt.Sprintf(", model %d", t.nonVoter))
	}
	if a, ok := evAttr(e, "TotalVotes"); ok && a != t.total.String() {
		m.Run.Count("total_votes_attr_differs_from_listed_stake", 1)
	}
	revealed := t.n[conflicttypes.Provider0] + t.n[conflicttypes.Provider1] + t.n[conflicttypes.NoneOfTheProviders]
	if revealed > 0 {
		m.Run.Nontrivial(fmt.Sprintf("%s|%s|%s", v.Outcome, cmp, shape))
	}
	if m.Run.Counter("outcome_samples") < 6 && revealed > 1 {
		m.Run.Count("outcome_samples", 1)
		m.Run.Sample(map[string]any{"history": m.Hist, "vote": v.dump(), "outcome": v.Outcome, "majority": cmp, "tally": desc})
	}
}

// ================================================================= workload (ops)

func init() {
	RegisterOp("conflict_detect", opC20Detect)
	RegisterOp("conflict_commit", opC20Commit)
	RegisterOp("conflict_reveal", opC20Reveal)
	RegisterOp("c20_restake", opC20Restake)
	RegisterOp("c20_delegate", opC20Delegate)
	RegisterOp("c20_param", opC20Param)
}

// c20Unit: voter stakes and delegations are kept on a coarse grid so that subsets of voters holding
// exactly half of the listed stake exist (stake can always be raised; lowering it needs the validator
// the stake was bonded to, which the driver's stake op picks at random).
const c20Unit = int64(100_000)

func (s *Sim) c20Raise(pr *Prov, chain string, steps int64) {
	cur := int64(0)
	byProv := false
	if e, ok := s.TS.Keepers.Epochstorage.GetStakeEntryCurrent(s.TS.Ctx, chain, pr.Addr); ok {
		cur = e.Stake.Amount.Int64()
		byProv = e.Vault == pr.Addr
	} else if md, err := s.TS.Keepers.Epochstorage.GetMetadata(s.TS.Ctx, pr.Addr); err == nil {
		byProv = md.Vault == pr.Addr
	}
	target := (cur + c20Unit - 1) / c20Unit * c20Unit
	if target == cur || steps > 1 {
		target += steps * c20Unit
	}
	s.doStake(pr, chain, target, byProv)
}

func opC20Restake(s *Sim) {
	pr := s.Provs[s.R.Intn(len(s.Provs))]
	chain := "SPB"
	if s.R.Intn(5) == 0 {
		chain = "SPC"
	}
	s.c20Raise(pr, chain, int64(1+s.R.Intn(2)))
}

func opC20Delegate(s *Sim) {
	// delegations are split over a provider's chains in proportion to its stakes, which takes its total
	// stake off the grid: only the first two providers receive delegations (they are often the two
	// providers in conflict, i.e. not voters)
	del := s.Dels[s.R.Intn(len(s.Dels))]
	pr := s.Provs[s.R.Intn(2)]
	amt := int64(1+s.R.Intn(2)) * c20Unit
	msg := &dualstakingtypes.MsgDelegate{Creator: del.Addr.String(), Validator: s.valAddr(s.R.Intn(len(s.Vals))), Provider: pr.Addr, ChainID: "x", Amount: s.coin(amt)}
	s.Tx("c20_delegate", fmt.Sprintf("del=%s prov=%s amt=%d", short(msg.Creator), short(pr.Addr), amt), msg, func(ctx context.Context) (any, error) {
		return s.TS.Servers.DualstakingServer.Delegate(ctx, msg)
	})
}

func opC20Param(s *Sim) {
	if s.R.Intn(2) == 0 {
		s.c20SetVotePeriod(uint64(1 + s.R.Intn(3)))
	} else {
		s.paramChange("epochstorage", "EpochBlocks", fmt.Sprintf("\"%d\"", 3+s.R.Intn(5)))
	}
}

// c20SetVotePeriod: the test keepers keep the conflict params in a stand-alone subspace (not reachable by
// a param-change proposal), so the change is applied the way the proposal handler would: set the value.
func (s *Sim) c20SetVotePeriod(n uint64) {
	s.Tx("param", fmt.Sprintf("conflict.VotePeriod=%d", n), nil, func(c context.Context) (any, error) {
		ctx := sdk.UnwrapSDKContext(c)
		p := s.TS.Keepers.Conflict.GetParams(ctx)
		p.VotePeriod = n
		s.TS.Keepers.Conflict.SetParams(ctx, p)
		return nil, nil
	})
}

func c20Rand32(s *Sim) []byte {
	var b [8]byte
	binary.LittleEndian.PutUint64(b[:], s.R.Uint64())
	h := sha256.Sum256(b[:])
	return h[:]
}

func opC20Detect(s *Sim) {
	m := c20Of(s)
	if m == nil {
		return
	}
	ctx := s.TS.Ctx
	ks := s.TS.Keepers
	if len(m.order) > 0 && s.R.Intn(8) == 0 {
		// the same detection again (open vote: must not start a second one)
		v := m.order[len(m.order)-1-s.R.Intn(min(len(m.order), 4))]
		if v.det != nil {
			msg := v.det
			m.pending = &c20Vote{det: msg, data0: v.data0, data1: v.data1}
			s.Tx("conflict_detect", fmt.Sprintf("kind=repeat vote=%s", short(v.ID)), msg, func(c context.Context) (any, error) {
				return s.TS.Servers.ConflictServer.Detection(c, msg)
			})
			if m.last != nil {
				c20Plan(s, m.last)
			}
			return
		}
	}
	chain := "SPB"
	if s.R.Intn(7) == 0 {
		chain = "SPC"
	}
	cons := s.Cons[s.R.Intn(len(s.Cons))]
	h := ctx.BlockHeight()
	kind := "now"
	if s.R.Intn(4) == 0 {
		eb, _ := ks.Epochstorage.EpochBlocks(ctx, uint64(h))
		h = max(h-int64(1+s.R.Intn(int(4*eb))), 1)
		kind = "older-block"
	}
	epoch, _, err := ks.Epochstorage.GetEpochStartForBlock(ctx, uint64(h))
	if err != nil {
		return
	}
	var cands []*Prov
	for _, e := range ks.Epochstorage.GetAllStakeEntriesForEpochChainId(ctx, epoch, chain) {
		if p := s.provByAddr(e.Address); p != nil {
			cands = append(cands, p)
		}
	}
	if len(cands) < 2 {
		return
	}
	i := s.R.Intn(len(cands))
	j := s.R.Intn(len(cands) - 1)
	if j >= i {
		j++
	}
	p0, p1 := cands[i], cands[j]
	if s.R.Intn(3) == 0 {
		var ab []*Prov
		for _, c := range cands {
			if c == s.Provs[0] || c == s.Provs[1] {
				ab = append(ab, c)
			}
		}
		if len(ab) == 2 {
			k := s.R.Intn(2)
			p0, p1 = ab[k], ab[1-k]
		}
	}
	spec, ok := ks.Spec.GetSpec(ctx, chain)
	if !ok {
		return
	}
	msg, reply0, reply1, err := common.CreateResponseConflictMsgDetectionForTest(sdk.WrapSDKContext(ctx.WithBlockHeight(h)), cons.Acc, p0.Acc, p1.Acc, &spec)
	if err != nil {
		return
	}
	rc := msg.GetResponseConflict()
	d0 := sigs.HashMsg(pairingtypes.NewRelayExchange(*rc.ConflictRelayData0.Request, *reply0).DataToSign())
	d1 := sigs.HashMsg(pairingtypes.NewRelayExchange(*rc.ConflictRelayData1.Request, *reply1).DataToSign())
	m.pending = &c20Vote{det: msg, data0: d0, data1: d1}
	s.Tx("conflict_detect", fmt.Sprintf("kind=%s consumer=%s chain=%s block=%d epoch=%d p0=%s p1=%s", kind, short(cons.Addr), chain, h, epoch, short(p0.Addr), short(p1.Addr)), msg, func(c context.Context) (any, error) {
		return s.TS.Servers.ConflictServer.Detection(c, msg)
	})
	if m.last != nil {
		c20Plan(s, m.last)
	}
}

// c20Plan decides what each listed voter is meant to do; a third of the votes aim at an option holding
// exactly half of the listed stake, others at narrow / broad majorities, the rest is random.
func c20Plan(s *Sim, v *c20Vote) {
	m := c20Of(s)
	m.last = nil
	if v.data0 == nil || !bytes.Equal(sigs.HashMsg(v.data0), v.Resp0) || !bytes.Equal(sigs.HashMsg(v.data1), v.Resp1) {
		s.T.Fatalf("C20 generator: data hashes of the detection do not map to the stored provider responses (vote %s)", v.ID)
	}
	ks := s.TS.Keepers
	epoch, _, err := ks.Epochstorage.GetEpochStartForBlock(s.TS.Ctx, v.StartBlock)
	stake := map[string]int64{}
	total := int64(0)
	if err == nil {
		for _, x := range v.Voters {
			if en, found := ks.Epochstorage.GetStakeEntry(s.TS.Ctx, epoch, v.Chain, x.Addr); found {
				stake[x.Addr] = en.TotalStake().Int64()
				total += stake[x.Addr]
			}
		}
	}
	v.planStake = stake
	opts := []int64{conflicttypes.Provider0, conflicttypes.Provider1, conflicttypes.NoneOfTheProviders}
	randomOne := func(x *c20Voter) {
		switch r := s.R.Intn(100); {
		case r < 40:
			x.plan, x.planReveal = conflicttypes.Provider0, true
		case r < 62:
			x.plan, x.planReveal = conflicttypes.Provider1, true
		case r < 72:
			x.plan, x.planReveal = conflicttypes.NoneOfTheProviders, true
		case r < 86:
			x.plan, x.planReveal = opts[s.R.Intn(3)], false // commits, never reveals
		default:
			x.plan = 0 // abstains
		}
	}
	for _, x := range v.Voters {
		randomOne(x)
	}
	n := len(v.Voters)
	mode := s.R.Intn(10)
	if n == 0 || n > 12 || mode >= 6 {
		return
	}
	// subsets ordered by how close they are to half of the listed stake
	type sub struct {
		mask int
		dist int64
	}
	var subs []sub
	for mask := 1; mask < 1<<n; mask++ {
		sum := int64(0)
		for i, x := range v.Voters {
			if mask&(1<<i) != 0 {
				sum += stake[x.Addr]
			}
		}
		d := 2*sum - total
		switch {
		case mode < 3 && d == 0: // exactly half
			subs = append(subs, sub{mask, 0})
		case mode >= 3 && mode < 5 && d > 0: // narrowly above
			subs = append(subs, sub{mask, d})
		case mode == 5 && d < 0: // narrowly below
			subs = append(subs, sub{mask, -d})
		}
	}
	if len(subs) == 0 {
		return
	}
	sort.SliceStable(subs, func(i, j int) bool { return subs[i].dist < subs[j].dist })
	pick := subs[s.R.Intn(min(len(subs), 3))]
	win := opts[s.R.Intn(3)]
	for i, x := range v.Voters {
		if pick.mask&(1<<i) != 0 {
			x.plan, x.planReveal = win, true
			continue
		}
		// the others: another option, commit-only or abstain
		switch s.R.Intn(4) {
		case 0:
			x.plan = 0
		case 1:
			x.plan, x.planReveal = opts[s.R.Intn(3)], false
		default:
			o := opts[s.R.Intn(3)]
			if o == win {
				o = opts[(s.R.Intn(2)+1+int(win-conflicttypes.Provider0))%3]
			}
			x.plan, x.planReveal = o, true
		}
	}
}

func (m *ConflictMon) pickVote(s *Sim, phase int) *c20Vote {
	var live []*c20Vote
	for _, v := range m.order {
		if v.Phase == phase && m.votes[v.ID] == v {
			live = append(live, v)
		}
	}
	if len(live) > 0 && s.R.Intn(6) != 0 {
		return live[s.R.Intn(len(live))]
	}
	if len(m.order) == 0 || (len(live) == 0 && s.R.Intn(2) == 0) {
		return nil
	}
	return m.order[len(m.order)-1-s.R.Intn(min(len(m.order), 8))]
}

func (v *c20Vote) dataFor(s *Sim, opt int64) []byte {
	switch opt {
	case conflicttypes.Provider0:
		return v.data0
	case conflicttypes.Provider1:
		return v.data1
	}
	return c20Rand32(s)
}

// outsider: an address that is not a listed voter of v.
func (v *c20Vote) outsider(s *Sim) string {
	switch s.R.Intn(4) {
	case 0:
		return v.P0
	case 1:
		return v.P1
	case 2:
		return s.Cons[s.R.Intn(len(s.Cons))].Addr
	}
	for k := 0; k < 8; k++ {
		p := s.Provs[s.R.Intn(len(s.Provs))]
		if v.voter(p.Addr) == nil {
			return p.Addr
		}
	}
	return s.newAccount(1000).Addr.String()
}

func (s *Sim) c20SendCommit(v *c20Vote, kind, id, creator string, nonce int64, data []byte) *TxRes {
	msg := &conflicttypes.MsgConflictVoteCommit{Creator: creator, VoteID: id, Hash: conflicttypes.CommitVoteData(nonce, data, creator)}
	r := s.Tx("conflict_commit", fmt.Sprintf("kind=%s vote=%s by=%s phase=%s", kind, short(id), short(creator), c20PhaseName[v.Phase]), msg, func(c context.Context) (any, error) {
		return s.TS.Servers.ConflictServer.ConflictVoteCommit(c, msg)
	})
	if r.OK() {
		if x := v.voter(creator); x != nil && id == v.ID {
			x.sent, x.nonce, x.data = true, nonce, data
		}
	}
	return r
}

func opC20Commit(s *Sim) {
	m := c20Of(s)
	if m == nil {
		return
	}
	v := m.pickVote(s, c20Commit)
	if v == nil {
		return
	}
	var fresh, done []*c20Voter
	for _, x := range v.Voters {
		switch {
		case x.Committed:
			done = append(done, x)
		case x.plan != 0:
			fresh = append(fresh, x)
		}
	}
	r := s.R.Intn(100)
	switch {
	case r < 30 && len(fresh) > 0: // everyone who still means to commit
		for _, x := range fresh {
			s.c20SendCommit(v, "planned", v.ID, x.Addr, s.R.Int63(), v.dataFor(s, x.plan))
		}
	case r < 40 && len(done) > 0: // second commit (same or another choice)
		x := done[s.R.Intn(len(done))]
		s.c20SendCommit(v, "second-commit", v.ID, x.Addr, s.R.Int63(), v.dataFor(s, int64(conflicttypes.Provider0+s.R.Intn(3))))
	case r < 48:
		s.c20SendCommit(v, "outsider", v.ID, v.outsider(s), s.R.Int63(), v.data0)
	case r < 51 && len(v.Voters) > 0:
		x := v.Voters[s.R.Intn(len(v.Voters))]
		s.c20SendCommit(v, "bad-vote-id", v.ID+"x", x.Addr, s.R.Int63(), v.data0)
	case len(fresh) > 0:
		x := fresh[s.R.Intn(len(fresh))]
		s.c20SendCommit(v, "planned", v.ID, x.Addr, s.R.Int63(), v.dataFor(s, x.plan))
	case len(v.Voters) > 0 && s.R.Intn(3) == 0: // an abstainer changes its mind (still a listed voter)
		x := v.Voters[s.R.Intn(len(v.Voters))]
		s.c20SendCommit(v, "unplanned", v.ID, x.Addr, s.R.Int63(), v.dataFor(s, int64(conflicttypes.Provider0+s.R.Intn(3))))
	}
}

func (s *Sim) c20SendReveal(v *c20Vote, kind, id, creator string, nonce int64, data []byte) *TxRes {
	msg := &conflicttypes.MsgConflictVoteReveal{Creator: creator, VoteID: id, Nonce: nonce, Hash: data}
	return s.Tx("conflict_reveal", fmt.Sprintf("kind=%s vote=%s by=%s phase=%s", kind, short(id), short(creator), c20PhaseName[v.Phase]), msg, func(c context.Context) (any, error) {
		return s.TS.Servers.ConflictServer.ConflictVoteReveal(c, msg)
	})
}

func opC20Reveal(s *Sim) {
	m := c20Of(s)
	if m == nil {
		return
	}
	v := m.pickVote(s, c20Reveal)
	if v == nil {
		return
	}
	var due, committed, revealed, never []*c20Voter
	for _, x := range v.Voters {
		switch {
		case x.Result != 0:
			revealed = append(revealed, x)
		case x.Committed:
			committed = append(committed, x)
			if x.sent && x.planReveal {
				due = append(due, x)
			}
		default:
			never = append(never, x)
		}
	}
	pick := func(xs []*c20Voter) *c20Voter { return xs[s.R.Intn(len(xs))] }
	r := s.R.Intn(100)
	switch {
	case r < 30 && len(due) > 0:
		for _, x := range due {
			s.c20SendReveal(v, "planned", v.ID, x.Addr, x.nonce, x.data)
		}
	case r < 36 && len(revealed) > 0:
		x := pick(revealed)
		s.c20SendReveal(v, "second-reveal", v.ID, x.Addr, x.nonce, x.data)
	case r < 43 && len(committed) > 0:
		x := pick(committed)
		n := x.nonce + 1
		if s.R.Intn(2) == 0 {
			n = s.R.Int63()
		}
		s.c20SendReveal(v, "wrong-nonce", v.ID, x.Addr, n, x.data)
	case r < 50 && len(committed) > 0:
		x := pick(committed)
		d := v.data0
		if bytes.Equal(d, x.data) {
			d = v.data1
		}
		if s.R.Intn(3) == 0 {
			d = c20Rand32(s)
		}
		s.c20SendReveal(v, "wrong-hash", v.ID, x.Addr, x.nonce, d)
	case r < 57 && len(committed)+len(revealed) > 0 && len(v.Voters) > 1:
		// somebody else's (nonce, data) replayed under another listed voter's name
		src := pick(append(append([]*c20Voter{}, committed...), revealed...))
		dst := pick(v.Voters)
		if dst != src {
			s.c20SendReveal(v, "others-reveal", v.ID, dst.Addr, src.nonce, src.data)
		}
	case r < 62 && len(never) > 0:
		x := pick(never)
		s.c20SendReveal(v, "no-commit", v.ID, x.Addr, s.R.Int63(), v.data0)
	case r < 66:
		n, d := s.R.Int63(), v.data0
		if len(committed) > 0 {
			x := pick(committed)
			n, d = x.nonce, x.data
		}
		s.c20SendReveal(v, "outsider", v.ID, v.outsider(s), n, d)
	case r < 68 && len(due) > 0:
		x := pick(due)
		s.c20SendReveal(v, "bad-vote-id", v.ID+"x", x.Addr, x.nonce, x.data)
	case len(due) > 0:
		x := pick(due)
		s.c20SendReveal(v, "planned", v.ID, x.Addr, x.nonce, x.data)
	case len(revealed) > 0 && v.Phase == c20Closed: // late: after the vote closed
		x := pick(revealed)
		s.c20SendReveal(v, "late", v.ID, x.Addr, x.nonce, x.data)
	case len(committed) > 0 && v.Phase == c20Closed:
		x := pick(committed)
		if x.sent {
			s.c20SendReveal(v, "late", v.ID, x.Addr, x.nonce, x.data)
		}
	}
}

var _ = strings.Contains
