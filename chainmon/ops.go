//go:build verif

package chainmon

import (
	"context"
	"fmt"
	"math"
	"sort"
	"strings"
	"time"

	sdkmath "cosmossdk.io/math"
	sdk "github.com/cosmos/cosmos-sdk/types"
	authtypes "github.com/cosmos/cosmos-sdk/x/auth/types"
	govtypes "github.com/cosmos/cosmos-sdk/x/gov/types"
	stakingtypes "github.com/cosmos/cosmos-sdk/x/staking/types"
	"github.com/lavanet/lava/v5/testutil/common"
	testkeeper "github.com/lavanet/lava/v5/testutil/keeper"
	"github.com/lavanet/lava/v5/utils"
	commontypes "github.com/lavanet/lava/v5/utils/common/types"
	"github.com/lavanet/lava/v5/utils/sigs"
	dualstakingtypes "github.com/lavanet/lava/v5/x/dualstaking/types"
	epochstoragetypes "github.com/lavanet/lava/v5/x/epochstorage/types"
	pairingtypes "github.com/lavanet/lava/v5/x/pairing/types"
	planstypes "github.com/lavanet/lava/v5/x/plans/types"
	projectstypes "github.com/lavanet/lava/v5/x/projects/types"
	rewardstypes "github.com/lavanet/lava/v5/x/rewards/types"
	spectypes "github.com/lavanet/lava/v5/x/spec/types"
	subscriptiontypes "github.com/lavanet/lava/v5/x/subscription/types"
)

// Profile biases the op mix and world shape for one property.
type Profile struct {
	Name          string
	W             map[string]int // op weights
	Providers     int
	Consumers     int
	Delegators    int
	Validators    int
	EpochBlocks   uint64 // 0 = default
	EpochsToSave  uint64
	KeepPools     bool // keep the rewards allocation pools funded
	SmallBalances bool
	PolicyHeavy   bool         // plans / projects carry chain policies and selected-provider lists
	TightCU       bool         // project total CU limits below subscription CU
	Prologue      func(s *Sim) // directed opening of the history, run after BuildWorld
	StaticSpec    bool         // the world also has a spec with static providers (SPS): pairing = all non-frozen stakers
}

func defaultWeights() map[string]int {
	return map[string]int{
		"block": 30, "epoch": 6, "longblock": 3, "month": 2,
		"stake": 4, "modify": 3, "movestake": 2, "unstake": 2, "freeze": 2, "unfreeze": 2,
		"ds_delegate": 4, "ds_redelegate": 3, "ds_unbond": 3, "ds_claim": 3,
		"st_delegate": 2, "st_undelegate": 2, "st_redelegate": 2, "st_cancel": 1, "slash": 1,
		"buy": 4, "autorenew": 1, "addproject": 2, "delproject": 1, "addkeys": 2, "delkeys": 2,
		"setpolicy": 2, "setsubpolicy": 1,
		"plan_add": 1, "plan_del": 1, "param": 1, "iprpc_data": 1, "fund_iprpc": 1,
		"relay": 25, "relay_hostile": 6,
	}
}

func (s *Sim) w(name string) int {
	if s.prof != nil && s.prof.W != nil {
		if v, ok := s.prof.W[name]; ok {
			return v
		}
		return 0
	}
	return defaultWeights()[name]
}

const (
	bigBalance = int64(1_000_000_000_000)
)

// ---------------------------------------------------------------- world

func specA() spectypes.Spec {
	sp := spectypes.Spec{Index: "SPA", Name: "spec a", Enabled: true, ReliabilityThreshold: 4294967295, DataReliabilityEnabled: true,
		BlockDistanceForFinalizedData: 0, BlocksInFinalizationProof: 1, AverageBlockTime: 10, AllowedBlockLagForQosSync: 1, Shares: 1,
		MinStakeProvider: sdk.NewCoin("ulava", sdk.NewInt(1000))}
	rest := spectypes.CollectionData{ApiInterface: "rest", Type: "GET"}
	jr := spectypes.CollectionData{ApiInterface: "jsonrpc", Type: "POST"}
	jrDbg := spectypes.CollectionData{ApiInterface: "jsonrpc", Type: "POST", AddOn: "dbg"}
	api := func(n string, cu uint64) *spectypes.Api {
		return &spectypes.Api{Name: n, ComputeUnits: cu, Enabled: true, Category: spectypes.SpecCategory{Deterministic: true}}
	}
	restDbg := spectypes.CollectionData{ApiInterface: "rest", Type: "GET", AddOn: "dbg"}
	arch := func() []*spectypes.Extension {
		return []*spectypes.Extension{{Name: "archive", CuMultiplier: 2, Rule: &spectypes.Rule{Block: 100}}, {Name: "trace", CuMultiplier: 3}}
	}
	sp.ApiCollections = []*spectypes.ApiCollection{
		{Enabled: true, CollectionData: rest, Apis: []*spectypes.Api{api("/a/get", 10)}, Extensions: arch()},
		{Enabled: true, CollectionData: jr, Apis: []*spectypes.Api{api("a_call", 20)}, Extensions: arch()},
		{Enabled: true, CollectionData: jrDbg, Apis: []*spectypes.Api{api("a_debug", 50)}, Extensions: arch()},
		{Enabled: true, CollectionData: restDbg, Apis: []*spectypes.Api{api("/a/debug", 50)}, Extensions: arch()},
	}
	return sp
}

func specSimple(index string, shares uint64) spectypes.Spec {
	sp := common.CreateMockSpec()
	sp.Index = index
	sp.Name = "spec " + index
	sp.Shares = shares
	sp.ApiCollections = []*spectypes.ApiCollection{{Enabled: true, CollectionData: spectypes.CollectionData{ApiInterface: "stub", Type: "GET"},
		Apis: []*spectypes.Api{{Name: index + "API", ComputeUnits: 100, Enabled: true}}}}
	return sp
}

func (s *Sim) planTemplate(index string) planstypes.Plan {
	p := common.CreateMockPlan()
	p.Index = index
	switch index {
	case "free":
	case "prem":
		p.Price = s.coin(1000)
		p.PlanPolicy = planstypes.Policy{TotalCuLimit: 1_000_000, EpochCuLimit: 100_000, MaxProvidersToPair: 5, GeolocationProfile: int32(planstypes.Geolocation_GL)}
		p.AnnualDiscountPercentage = 20
	case "tight":
		p.Price = s.coin(50)
		p.PlanPolicy = planstypes.Policy{TotalCuLimit: 3000, EpochCuLimit: 1000, MaxProvidersToPair: 2, GeolocationProfile: 1}
		p.AnnualDiscountPercentage = 0
		p.AllowOveruse = false
		p.OveruseRate = 0 // (a plan that forbids overuse must not carry an overuse rate, or every proposal with it is refused)
	}
	return p
}

// BuildWorld creates validators, specs, plans, providers, consumers and delegators.
func (s *Sim) BuildWorld() {
	p := s.prof
	ts := s.TS
	nVal := max(p.Validators, 2)
	for i := 0; i < nVal; i++ {
		acc, _ := ts.AddAccount(common.VALIDATOR, i, bigBalance)
		s.Vals = append(s.Vals, acc)
		s.txCreateValidator(acc, bigBalance/2)
	}
	// genesis default (the Tester does not run InitGenesis): min iprpc cost is a zero coin, never a nil one
	ts.Keepers.Rewards.SetMinIprpcCost(ts.Ctx, s.coin(0))
	if !p.KeepPools {
		for _, pool := range []string{string(rewardstypes.ValidatorsRewardsAllocationPoolName), string(rewardstypes.ProvidersRewardsAllocationPool)} {
			_ = ts.Keepers.BankKeeper.SetBalance(ts.Ctx, testkeeper.GetModuleAddress(pool), sdk.NewCoins(s.coin(0)))
		}
	}
	worldSpecs := []spectypes.Spec{specA(), specSimple("SPB", 1), specSimple("SPC", 2)}
	if p.StaticSpec {
		sps := specSimple("SPS", 1)
		sps.ProvidersTypes = spectypes.Spec_static
		worldSpecs = append(worldSpecs, sps)
	}
	for _, sp := range worldSpecs {
		ts.AddSpec(sp.Index, sp)
		s.Specs = append(s.Specs, sp.Index)
	}
	for _, pi := range []string{"free", "prem", "tight"} {
		pl := s.planTemplate(pi)
		if p.PolicyHeavy && pi == "prem" {
			pl.PlanPolicy.ChainPolicies = []planstypes.ChainPolicy{
				{ChainId: "SPA", Requirements: []planstypes.ChainRequirement{{Collection: spectypes.CollectionData{ApiInterface: "jsonrpc", Type: "POST", AddOn: "dbg"}}}},
				{ChainId: "*"},
			}
		}
		ts.AddPlan(pi, pl)
		s.Plans = append(s.Plans, pi)
	}
	if p.EpochBlocks != 0 {
		s.paramChange("epochstorage", "EpochBlocks", fmt.Sprintf("\"%d\"", p.EpochBlocks))
	}
	if p.EpochsToSave != 0 {
		s.paramChange("epochstorage", "EpochsToSave", fmt.Sprintf("\"%d\"", p.EpochsToSave))
	}
	s.NextEpoch()
	for i := 0; i < max(p.Providers, 3); i++ {
		acc, addr := ts.AddAccount(common.PROVIDER, i, bigBalance)
		pr := &Prov{Acc: acc, Addr: addr, Vault: acc.GetVaultAddr(), Chains: map[string]bool{}}
		s.Provs = append(s.Provs, pr)
		// every provider stakes on SPB; most on SPA; some on SPC
		s.doStake(pr, "SPB", 1000+int64(s.R.Intn(100))*1000, s.R.Intn(3) == 0)
		if i%4 != 3 {
			if p.PolicyHeavy && i%2 == 0 {
				s.asym = 1 + i/2
			}
			s.doStake(pr, "SPA", 1000+int64(s.R.Intn(100))*1000, false)
			s.asym = 0
		}
		if i%3 == 0 {
			s.doStake(pr, "SPC", 1000+int64(s.R.Intn(50))*1000, false)
		}
		if p.StaticSpec && i%2 == 0 {
			s.doStake(pr, "SPS", 1000+int64(s.R.Intn(50))*1000, false)
		}
	}
	for i := 0; i < max(p.Consumers, 2); i++ {
		bal := bigBalance
		if p.SmallBalances && i%2 == 1 {
			bal = 2500
		}
		acc, addr := ts.AddAccount(common.CONSUMER, i, bal)
		c := &Cons{Acc: acc, Addr: addr}
		for d := 0; d < 2; d++ {
			c.Devs = append(c.Devs, s.newAccount(10000))
		}
		s.Cons = append(s.Cons, c)
		if r := s.doBuy(c, c, vrandPick(s, s.Plans), 1+s.R.Intn(3), s.R.Intn(4) == 0, false); r.OK() {
			// the first developer key joins the admin project (the second stays unregistered: a stranger's key)
			if projs := s.projectsOf(c); len(projs) > 0 {
				msg := &projectstypes.MsgAddKeys{Creator: c.Addr, Project: projs[0], ProjectKeys: []projectstypes.ProjectKey{projectstypes.ProjectDeveloperKey(c.Devs[0].Addr.String())}}
				s.Tx("addkeys", "world: first developer key of "+short(c.Addr), msg, func(ctx context.Context) (any, error) {
					return s.TS.Servers.ProjectServer.AddKeys(ctx, msg)
				})
			}
		}
	}
	for i := 0; i < max(p.Delegators, 1); i++ {
		s.Dels = append(s.Dels, s.newAccount(bigBalance))
	}
	if p.PolicyHeavy && len(s.Cons) > 0 {
		// directed shape for the map-order sensitive paths: admin and subscription policy of one project both carry
		// a mixed requirement with an extension for the same add-on, on different API interfaces
		c := s.Cons[0]
		if projs := s.projectsOf(c); len(projs) > 0 {
			mk := func(iface, typ string) *planstypes.Policy {
				return &planstypes.Policy{GeolocationProfile: int32(planstypes.Geolocation_GL), TotalCuLimit: 50000, EpochCuLimit: 5000, MaxProvidersToPair: 3,
					ChainPolicies: []planstypes.ChainPolicy{{ChainId: "SPA", Requirements: []planstypes.ChainRequirement{
						{Collection: spectypes.CollectionData{ApiInterface: iface, Type: typ, AddOn: "dbg"}, Extensions: []string{"archive"}, Mixed: true}}}, {ChainId: "*"}}}
			}
			m1 := &projectstypes.MsgSetPolicy{Creator: c.Addr, Project: projs[0], Policy: mk("rest", "GET")}
			s.Tx("setpolicy", "directed: admin policy rest+dbg+archive mixed", m1, func(ctx context.Context) (any, error) {
				return s.TS.Servers.ProjectServer.SetPolicy(ctx, m1)
			})
			m2 := &projectstypes.MsgSetSubscriptionPolicy{Creator: c.Addr, Projects: []string{projs[0]}, Policy: mk("jsonrpc", "POST")}
			s.Tx("setsubpolicy", "directed: subscription policy jsonrpc+dbg+archive mixed", m2, func(ctx context.Context) (any, error) {
				return s.TS.Servers.ProjectServer.SetSubscriptionPolicy(ctx, m2)
			})
		}
	}
	if p.PolicyHeavy && len(s.Cons) > 1 {
		// second directed shape: one mixed requirement naming two extensions (three / four sub mix filters whose order
		// decides which pairing slots they constrain), on a consumer whose plan may allow up to five slots
		c := s.Cons[1]
		if projs := s.projectsOf(c); len(projs) > 0 {
			pol := &planstypes.Policy{GeolocationProfile: int32(planstypes.Geolocation_GL), TotalCuLimit: 50000, EpochCuLimit: 5000, MaxProvidersToPair: 5,
				ChainPolicies: []planstypes.ChainPolicy{{ChainId: "SPA", Requirements: []planstypes.ChainRequirement{
					{Collection: spectypes.CollectionData{ApiInterface: "jsonrpc", Type: "POST"}, Extensions: []string{"archive", "trace"}, Mixed: true}}}, {ChainId: "*"}}}
			m1 := &projectstypes.MsgSetPolicy{Creator: c.Addr, Project: projs[0], Policy: pol}
			s.Tx("setpolicy", "directed: admin policy jsonrpc+archive+trace mixed", m1, func(ctx context.Context) (any, error) {
				return s.TS.Servers.ProjectServer.SetPolicy(ctx, m1)
			})
		}
	}
	s.NextEpoch()
}

func vrandPick(s *Sim, xs []string) string { return xs[s.R.Intn(len(xs))] }

func (s *Sim) txCreateValidator(validator sigs.Account, amount int64) {
	msg, err := stakingtypes.NewMsgCreateValidator(sdk.ValAddress(validator.Addr), validator.PubKey, s.coin(amount),
		stakingtypes.Description{Moniker: "v"}, stakingtypes.NewCommissionRates(sdk.NewDecWithPrec(1, 1), sdk.NewDecWithPrec(1, 1), sdk.NewDecWithPrec(1, 1)), sdk.OneInt())
	if err != nil {
		panic(err)
	}
	if r := s.Tx("create_validator", validator.Addr.String(), msg, func(ctx context.Context) (any, error) {
		return s.TS.Servers.StakingServer.CreateValidator(ctx, msg)
	}); !r.OK() {
		panic(fmt.Sprintf("world setup: create validator failed: %v %s", r.Err, r.Panic))
	}
	s.NextBlock(0)
}

func (s *Sim) paramChange(module, key, val string) *TxRes {
	return s.Tx("param", fmt.Sprintf("%s.%s=%s", module, key, val), nil, func(ctx context.Context) (any, error) {
		return nil, testkeeper.SimulateParamChange(sdk.UnwrapSDKContext(ctx), s.TS.Keepers.ParamsKeeper, module, key, val)
	})
}

// ---------------------------------------------------------------- provider ops

func (s *Sim) endpointsFor(chain string, geo int32, rich bool) []epochstoragetypes.Endpoint {
	var eps []epochstoragetypes.Endpoint
	if chain == "SPA" && s.prof.PolicyHeavy && s.asym > 0 {
		// asymmetric add-on support (used by the pairing profiles): dbg+archive on exactly one API interface
		iface := []string{"rest", "jsonrpc"}[s.asym%2]
		for _, g := range planstypes.GetGeolocationsFromUint(geo) {
			eps = append(eps, epochstoragetypes.Endpoint{IPPORT: "1.1.1.1:1", Geolocation: int32(g), ApiInterfaces: []string{"rest", "jsonrpc"}})
			eps = append(eps, epochstoragetypes.Endpoint{IPPORT: "1.1.1.1:2", Geolocation: int32(g), ApiInterfaces: []string{iface}, Addons: []string{"dbg"}, Extensions: []string{"archive"}})
		}
		return eps
	}
	for _, g := range planstypes.GetGeolocationsFromUint(geo) {
		switch chain {
		case "SPA":
			eps = append(eps, epochstoragetypes.Endpoint{IPPORT: "1.1.1.1:1", Geolocation: int32(g), ApiInterfaces: []string{"rest", "jsonrpc"}})
			if rich {
				// which optional services this provider offers is part of the generated world
				nKinds := 5
				if s.prof.PolicyHeavy {
					nKinds = 9 // the pairing profiles also have providers with the second extension only / both extensions
				}
				switch s.R.Intn(nKinds) {
				case 5:
					eps = append(eps, epochstoragetypes.Endpoint{IPPORT: "1.1.1.1:3", Geolocation: int32(g), ApiInterfaces: []string{"jsonrpc", "rest"}, Extensions: []string{"trace"}})
				case 6:
					eps = append(eps, epochstoragetypes.Endpoint{IPPORT: "1.1.1.1:3", Geolocation: int32(g), ApiInterfaces: []string{"jsonrpc", "rest"}, Extensions: []string{"archive"}})
				case 7:
					eps = append(eps, epochstoragetypes.Endpoint{IPPORT: "1.1.1.1:3", Geolocation: int32(g), ApiInterfaces: []string{"jsonrpc", "rest"}, Extensions: []string{"archive", "trace"}})
				case 8:
					eps = append(eps, epochstoragetypes.Endpoint{IPPORT: "1.1.1.1:2", Geolocation: int32(g), ApiInterfaces: []string{"jsonrpc", "rest"}, Addons: []string{"dbg"}, Extensions: []string{"trace"}})
				case 0:
					eps = append(eps, epochstoragetypes.Endpoint{IPPORT: "1.1.1.1:2", Geolocation: int32(g), ApiInterfaces: []string{"jsonrpc"}, Addons: []string{"dbg"}})
				case 1:
					eps = append(eps, epochstoragetypes.Endpoint{IPPORT: "1.1.1.1:2", Geolocation: int32(g), ApiInterfaces: []string{"rest"}, Addons: []string{"dbg"}})
				case 2:
					eps = append(eps, epochstoragetypes.Endpoint{IPPORT: "1.1.1.1:3", Geolocation: int32(g), ApiInterfaces: []string{"jsonrpc"}, Extensions: []string{"archive"}})
				case 3:
					eps = append(eps, epochstoragetypes.Endpoint{IPPORT: "1.1.1.1:2", Geolocation: int32(g), ApiInterfaces: []string{"jsonrpc"}, Addons: []string{"dbg"}, Extensions: []string{"archive"}})
					eps = append(eps, epochstoragetypes.Endpoint{IPPORT: "1.1.1.1:3", Geolocation: int32(g), ApiInterfaces: []string{"rest"}, Extensions: []string{"archive"}})
				default:
					eps = append(eps, epochstoragetypes.Endpoint{IPPORT: "1.1.1.1:2", Geolocation: int32(g), ApiInterfaces: []string{"jsonrpc", "rest"}, Addons: []string{"dbg"}, Extensions: []string{"archive"}})
				}
			}
		default:
			eps = append(eps, epochstoragetypes.Endpoint{IPPORT: "2.2.2.2:1", Geolocation: int32(g), ApiInterfaces: []string{"stub"}})
		}
	}
	return eps
}

func (s *Sim) doStake(pr *Prov, chain string, amount int64, byProviderAddr bool) *TxRes {
	geo := int32(1)
	if s.R.Intn(3) == 0 {
		geo = int32(1 + s.R.Intn(3)) // 1,2,3(bitmap)
	}
	creator := pr.Vault
	if byProviderAddr {
		creator = pr.Addr
	}
	commission := uint64(s.R.Intn(101))
	switch s.R.Intn(6) {
	case 0:
		commission = 100
	case 1:
		commission = 0
	}
	if md, err := s.TS.Keepers.Epochstorage.GetMetadata(s.TS.Ctx, pr.Addr); err == nil && s.R.Intn(3) != 0 {
		commission = md.DelegateCommission
	}
	msg := &pairingtypes.MsgStakeProvider{Creator: creator, Validator: s.valAddr(s.R.Intn(len(s.Vals))), ChainID: chain, Amount: s.coin(amount),
		Geolocation: geo, Endpoints: s.endpointsFor(chain, geo, s.R.Intn(2) == 0), DelegateLimit: s.coin(0), DelegateCommission: commission,
		Address: pr.Addr, Description: common.MockDescription()}
	return s.Tx("stake", fmt.Sprintf("prov=%s chain=%s amt=%d by=%s comm=%d geo=%d", short(pr.Addr), chain, amount, short(creator), commission, geo), msg, func(ctx context.Context) (any, error) {
		return s.TS.Servers.PairingServer.StakeProvider(ctx, msg)
	})
}

func short(a string) string {
	if len(a) > 10 {
		return a[len(a)-6:]
	}
	return a
}

func (s *Sim) provEntries(pr *Prov) []epochstoragetypes.StakeEntry {
	var out []epochstoragetypes.StakeEntry
	for _, c := range s.Specs {
		if e, ok := s.TS.Keepers.Epochstorage.GetStakeEntryCurrent(s.TS.Ctx, c, pr.Addr); ok {
			out = append(out, e)
		}
	}
	return out
}

func (s *Sim) opStake() {
	pr := s.Provs[s.R.Intn(len(s.Provs))]
	chain := vrandPick(s, s.Specs)
	s.doStake(pr, chain, 500+int64(s.R.Intn(200))*500, s.R.Intn(5) == 0)
}

func (s *Sim) opModify() {
	pr := s.Provs[s.R.Intn(len(s.Provs))]
	es := s.provEntries(pr)
	if len(es) == 0 {
		s.opStake()
		return
	}
	e := es[s.R.Intn(len(es))]
	cur := e.Stake.Amount.Int64()
	var amt int64
	switch s.R.Intn(4) {
	case 0:
		amt = cur + int64(1+s.R.Intn(50))*100
	case 1:
		amt = max(cur-int64(1+s.R.Intn(50))*100, 1)
	case 2:
		amt = cur // non-stake change
	default:
		amt = 900 + int64(s.R.Intn(300)) // around the spec minimum (1000)
	}
	s.doStake(pr, e.Chain, amt, s.R.Intn(6) == 0)
}

func (s *Sim) opMoveStake() {
	pr := s.Provs[s.R.Intn(len(s.Provs))]
	es := s.provEntries(pr)
	if len(es) < 2 {
		return
	}
	a, b := es[s.R.Intn(len(es))], es[s.R.Intn(len(es))]
	amt := int64(1 + s.R.Intn(int(max(a.Stake.Amount.Int64(), 2))))
	if s.R.Intn(3) == 0 {
		amt = a.Stake.Amount.Int64()
	}
	msg := &pairingtypes.MsgMoveProviderStake{Creator: pr.Vault, SrcChain: a.Chain, DstChain: b.Chain, Amount: s.coin(amt)}
	s.Tx("movestake", fmt.Sprintf("prov=%s %s->%s amt=%d", short(pr.Addr), a.Chain, b.Chain, amt), msg, func(ctx context.Context) (any, error) {
		return s.TS.Servers.PairingServer.MoveProviderStake(ctx, msg)
	})
}

func (s *Sim) opUnstake() {
	pr := s.Provs[s.R.Intn(len(s.Provs))]
	es := s.provEntries(pr)
	if len(es) == 0 {
		return
	}
	e := es[s.R.Intn(len(es))]
	creator := pr.Vault
	if s.R.Intn(3) == 0 {
		creator = pr.Addr
	}
	msg := &pairingtypes.MsgUnstakeProvider{Creator: creator, ChainID: e.Chain, Validator: s.valAddr(s.R.Intn(len(s.Vals)))}
	s.Tx("unstake", fmt.Sprintf("prov=%s chain=%s by=%s", short(pr.Addr), e.Chain, short(creator)), msg, func(ctx context.Context) (any, error) {
		return s.TS.Servers.PairingServer.UnstakeProvider(ctx, msg)
	})
}

func (s *Sim) opFreeze(un bool) {
	pr := s.Provs[s.R.Intn(len(s.Provs))]
	chain := vrandPick(s, s.Specs)
	if un {
		msg := &pairingtypes.MsgUnfreezeProvider{Creator: pr.Addr, ChainIds: []string{chain}}
		s.Tx("unfreeze", fmt.Sprintf("prov=%s chain=%s", short(pr.Addr), chain), msg, func(ctx context.Context) (any, error) {
			return s.TS.Servers.PairingServer.UnfreezeProvider(ctx, msg)
		})
		return
	}
	msg := &pairingtypes.MsgFreezeProvider{Creator: pr.Addr, ChainIds: []string{chain}, Reason: "verif"}
	s.Tx("freeze", fmt.Sprintf("prov=%s chain=%s", short(pr.Addr), chain), msg, func(ctx context.Context) (any, error) {
		return s.TS.Servers.PairingServer.FreezeProvider(ctx, msg)
	})
}

// ---------------------------------------------------------------- dualstaking / staking ops

// allDelegators: pure delegators plus provider vaults plus consumers (anyone may delegate).
func (s *Sim) someDelegator() sigs.Account {
	n := s.R.Intn(len(s.Dels) + 2)
	if n < len(s.Dels) {
		return s.Dels[n]
	}
	if n == len(s.Dels) {
		return s.Cons[s.R.Intn(len(s.Cons))].Acc
	}
	return *s.Provs[s.R.Intn(len(s.Provs))].Acc.Vault
}

func (s *Sim) delegationsOf(del string) []dualstakingtypes.Delegation {
	res, err := s.TS.Keepers.Dualstaking.GetDelegatorProviders(s.TS.Ctx, del)
	if err != nil {
		return nil
	}
	var out []dualstakingtypes.Delegation
	for _, p := range res {
		if d, ok := s.TS.Keepers.Dualstaking.GetDelegation(s.TS.Ctx, p, del); ok {
			out = append(out, d)
		}
	}
	return out
}

func (s *Sim) amountAround(maxv int64) int64 {
	if maxv <= 1 {
		return 1
	}
	switch s.R.Intn(6) {
	case 0:
		return maxv
	case 1:
		return maxv + 1 + int64(s.R.Intn(100)) // too much
	case 2:
		return 1
	default:
		return 1 + s.R.Int63n(maxv)
	}
}

func (s *Sim) opDsDelegate() {
	del := s.someDelegator()
	pr := s.Provs[s.R.Intn(len(s.Provs))]
	amt := int64(1+s.R.Intn(1000)) * int64([]int{1, 7, 1000, 99991}[s.R.Intn(4)])
	msg := &dualstakingtypes.MsgDelegate{Creator: del.Addr.String(), Validator: s.valAddr(s.R.Intn(len(s.Vals))), Provider: pr.Addr, ChainID: "x", Amount: s.coin(amt)}
	s.Tx("ds_delegate", fmt.Sprintf("del=%s prov=%s amt=%d", short(msg.Creator), short(pr.Addr), amt), msg, func(ctx context.Context) (any, error) {
		return s.TS.Servers.DualstakingServer.Delegate(ctx, msg)
	})
}

func (s *Sim) opDsRedelegate() {
	del := s.someDelegator()
	ds := s.delegationsOf(del.Addr.String())
	if len(ds) == 0 {
		return
	}
	d := ds[s.R.Intn(len(ds))]
	to := s.Provs[s.R.Intn(len(s.Provs))].Addr
	if s.R.Intn(8) == 0 {
		to = commontypes.EMPTY_PROVIDER
	}
	amt := s.amountAround(d.Amount.Amount.Int64())
	msg := &dualstakingtypes.MsgRedelegate{Creator: del.Addr.String(), FromProvider: d.Provider, ToProvider: to, FromChainID: "x", ToChainID: "x", Amount: s.coin(amt)}
	s.Tx("ds_redelegate", fmt.Sprintf("del=%s %s->%s amt=%d", short(msg.Creator), short(d.Provider), short(to), amt), msg, func(ctx context.Context) (any, error) {
		return s.TS.Servers.DualstakingServer.Redelegate(ctx, msg)
	})
}

func (s *Sim) opDsUnbond() {
	del := s.someDelegator()
	ds := s.delegationsOf(del.Addr.String())
	if len(ds) == 0 {
		return
	}
	d := ds[s.R.Intn(len(ds))]
	amt := s.amountAround(d.Amount.Amount.Int64())
	msg := &dualstakingtypes.MsgUnbond{Creator: del.Addr.String(), Validator: s.valAddr(s.R.Intn(len(s.Vals))), Provider: d.Provider, ChainID: "x", Amount: s.coin(amt)}
	s.Tx("ds_unbond", fmt.Sprintf("del=%s prov=%s amt=%d", short(msg.Creator), short(d.Provider), amt), msg, func(ctx context.Context) (any, error) {
		return s.TS.Servers.DualstakingServer.Unbond(ctx, msg)
	})
}

func (s *Sim) opDsClaim() {
	del := s.someDelegator()
	prov := ""
	if s.R.Intn(2) == 0 {
		prov = s.Provs[s.R.Intn(len(s.Provs))].Addr
	}
	msg := &dualstakingtypes.MsgClaimRewards{Creator: del.Addr.String(), Provider: prov}
	s.Tx("ds_claim", fmt.Sprintf("del=%s prov=%s", short(msg.Creator), short(prov)), msg, func(ctx context.Context) (any, error) {
		return s.TS.Servers.DualstakingServer.ClaimRewards(ctx, msg)
	})
}

func (s *Sim) opStDelegate() {
	del := s.someDelegator()
	v := s.Vals[s.R.Intn(len(s.Vals))]
	amt := int64(1+s.R.Intn(1000)) * int64([]int{1, 13, 1000}[s.R.Intn(3)])
	msg := stakingtypes.NewMsgDelegate(del.Addr, sdk.ValAddress(v.Addr), s.coin(amt))
	s.Tx("st_delegate", fmt.Sprintf("del=%s val=%s amt=%d", short(del.Addr.String()), short(v.Addr.String()), amt), msg, func(ctx context.Context) (any, error) {
		return s.TS.Servers.StakingServer.Delegate(ctx, msg)
	})
}

func (s *Sim) stDelegations(del sdk.AccAddress) []stakingtypes.Delegation {
	return s.TS.Keepers.StakingKeeper.GetAllDelegatorDelegations(s.TS.Ctx, del)
}

func (s *Sim) opStUndelegate() {
	del := s.someDelegator()
	ds := s.stDelegations(del.Addr)
	if len(ds) == 0 {
		return
	}
	d := ds[s.R.Intn(len(ds))]
	val, ok := s.TS.Keepers.StakingKeeper.GetValidator(s.TS.Ctx, d.GetValidatorAddr())
	if !ok {
		return
	}
	tokens := val.TokensFromShares(d.Shares).TruncateInt().Int64()
	amt := s.amountAround(tokens)
	msg := stakingtypes.NewMsgUndelegate(del.Addr, d.GetValidatorAddr(), s.coin(amt))
	s.Tx("st_undelegate", fmt.Sprintf("del=%s val=%s amt=%d of %d", short(del.Addr.String()), short(d.ValidatorAddress), amt, tokens), msg, func(ctx context.Context) (any, error) {
		return s.TS.Servers.StakingServer.Undelegate(ctx, msg)
	})
}

func (s *Sim) opStRedelegate() {
	del := s.someDelegator()
	ds := s.stDelegations(del.Addr)
	if len(ds) == 0 {
		return
	}
	d := ds[s.R.Intn(len(ds))]
	val, ok := s.TS.Keepers.StakingKeeper.GetValidator(s.TS.Ctx, d.GetValidatorAddr())
	if !ok {
		return
	}
	to := s.Vals[s.R.Intn(len(s.Vals))]
	tokens := val.TokensFromShares(d.Shares).TruncateInt().Int64()
	amt := s.amountAround(tokens)
	msg := stakingtypes.NewMsgBeginRedelegate(del.Addr, d.GetValidatorAddr(), sdk.ValAddress(to.Addr), s.coin(amt))
	s.Tx("st_redelegate", fmt.Sprintf("del=%s %s->%s amt=%d", short(del.Addr.String()), short(d.ValidatorAddress), short(to.Addr.String()), amt), msg, func(ctx context.Context) (any, error) {
		return s.TS.Servers.StakingServer.BeginRedelegate(ctx, msg)
	})
}

// opStBatch: one transaction with two or three x/staking messages of the same delegator, a redelegation among them
// in a random position (the ante handler must reject a redelegation batched with anything else, in any order:
// redelegations run with the dualstaking hooks disabled).
func (s *Sim) opStBatch() {
	del := s.someDelegator()
	ds := s.stDelegations(del.Addr)
	if len(ds) == 0 {
		return
	}
	d := ds[s.R.Intn(len(ds))]
	val, ok := s.TS.Keepers.StakingKeeper.GetValidator(s.TS.Ctx, d.GetValidatorAddr())
	if !ok {
		return
	}
	tokens := val.TokensFromShares(d.Shares).TruncateInt().Int64()
	if tokens < 4 {
		return
	}
	to := s.Vals[s.R.Intn(len(s.Vals))]
	var msgs []sdk.Msg
	var fs []func(ctx context.Context) (any, error)
	desc := fmt.Sprintf("del=%s:", short(del.Addr.String()))
	add := func(kind int) {
		switch kind {
		case 0:
			m := stakingtypes.NewMsgBeginRedelegate(del.Addr, d.GetValidatorAddr(), sdk.ValAddress(to.Addr), s.coin(1+s.R.Int63n(tokens/4)))
			msgs = append(msgs, m)
			fs = append(fs, func(ctx context.Context) (any, error) { return s.TS.Servers.StakingServer.BeginRedelegate(ctx, m) })
			desc += fmt.Sprintf(" redelegate(%s->%s %s)", short(d.ValidatorAddress), short(to.Addr.String()), m.Amount.Amount)
		case 1:
			m := stakingtypes.NewMsgDelegate(del.Addr, sdk.ValAddress(to.Addr), s.coin(int64(1+s.R.Intn(1000))))
			msgs = append(msgs, m)
			fs = append(fs, func(ctx context.Context) (any, error) { return s.TS.Servers.StakingServer.Delegate(ctx, m) })
			desc += fmt.Sprintf(" delegate(%s %s)", short(to.Addr.String()), m.Amount.Amount)
		default:
			m := stakingtypes.NewMsgUndelegate(del.Addr, d.GetValidatorAddr(), s.coin(1+s.R.Int63n(tokens/4)))
			msgs = append(msgs, m)
			fs = append(fs, func(ctx context.Context) (any, error) { return s.TS.Servers.StakingServer.Undelegate(ctx, m) })
			desc += fmt.Sprintf(" undelegate(%s %s)", short(d.ValidatorAddress), m.Amount.Amount)
		}
	}
	n := 2 + s.R.Intn(2)
	pos := s.R.Intn(n)
	if s.R.Intn(8) == 0 {
		pos = -1 // no redelegation at all: an ordinary batch that must be accepted with the hooks on
	}
	for i := 0; i < n; i++ {
		if i == pos {
			add(0)
		} else {
			add(1 + s.R.Intn(2))
		}
	}
	s.TxMsgs("st_batch", desc, msgs, func(ctx context.Context) (any, error) {
		for _, f := range fs {
			if _, err := f(ctx); err != nil {
				return nil, err
			}
		}
		return nil, nil
	})
}

func (s *Sim) opStCancel() {
	del := s.someDelegator()
	ubds := s.TS.Keepers.StakingKeeper.GetAllUnbondingDelegations(s.TS.Ctx, del.Addr)
	if len(ubds) == 0 {
		return
	}
	u := ubds[s.R.Intn(len(ubds))]
	if len(u.Entries) == 0 {
		return
	}
	e := u.Entries[s.R.Intn(len(u.Entries))]
	amt := s.amountAround(e.Balance.Int64())
	va, _ := sdk.ValAddressFromBech32(u.ValidatorAddress)
	msg := stakingtypes.NewMsgCancelUnbondingDelegation(del.Addr, va, e.CreationHeight, s.coin(amt))
	s.Tx("st_cancel", fmt.Sprintf("del=%s val=%s amt=%d", short(del.Addr.String()), short(u.ValidatorAddress), amt), msg, func(ctx context.Context) (any, error) {
		return s.TS.Servers.StakingServer.CancelUnbondingDelegation(ctx, msg)
	})
}

func (s *Sim) opSlash() {
	v := s.Vals[s.R.Intn(len(s.Vals))]
	frac := sdk.NewDecWithPrec(int64(1+s.R.Intn(30)), 2)
	val, ok := s.TS.Keepers.StakingKeeper.GetValidator(s.TS.Ctx, sdk.ValAddress(v.Addr))
	if !ok || !val.IsBonded() {
		return
	}
	power := val.ConsensusPower(s.TS.Keepers.StakingKeeper.PowerReduction(s.TS.Ctx))
	// a slash is not a tx: it happens in x/slashing / x/evidence BeginBlock. We model it as a step that
	// goes through the same wrapper (no msg, no ValidateBasic), and is followed by a block boundary
	// where dualstaking repairs the affected delegators.
	s.Tx("slash", fmt.Sprintf("val=%s frac=%s power=%d", short(v.Addr.String()), frac, power), nil, func(ctx context.Context) (any, error) {
		c := sdk.UnwrapSDKContext(ctx)
		s.TS.Keepers.SlashingKeeper.Slash(c, sdk.GetConsAddress(v.PubKey), frac, power, c.BlockHeight())
		return nil, nil
	})
	s.NextBlock(0)
}

// ---------------------------------------------------------------- subscription / project ops

func (s *Sim) doBuy(creator, consumer *Cons, plan string, months int, auto, advance bool) *TxRes {
	msg := &subscriptiontypes.MsgBuy{Creator: creator.Addr, Consumer: consumer.Addr, Index: plan, Duration: uint64(months), AutoRenewal: auto, AdvancePurchase: advance}
	return s.Tx("buy", fmt.Sprintf("creator=%s consumer=%s plan=%s months=%d auto=%v adv=%v", short(creator.Addr), short(consumer.Addr), plan, months, auto, advance), msg, func(ctx context.Context) (any, error) {
		return s.TS.Servers.SubscriptionServer.Buy(ctx, msg)
	})
}

func (s *Sim) opBuy() {
	c := s.Cons[s.R.Intn(len(s.Cons))]
	cr := c
	if s.R.Intn(5) == 0 {
		cr = s.Cons[s.R.Intn(len(s.Cons))]
	}
	months := 1 + s.R.Intn(3)
	if s.R.Intn(6) == 0 {
		months = 12 + s.R.Intn(2)
	}
	s.doBuy(cr, c, vrandPick(s, s.Plans), months, s.R.Intn(4) == 0, s.R.Intn(4) == 0)
}

// opBuyAdvanceReplace replaces an existing advance purchase by a more expensive one (only the difference is charged).
func (s *Sim) opBuyAdvanceReplace() {
	for _, c := range s.Cons {
		sub, found := s.TS.Keepers.Subscription.GetSubscription(s.TS.Ctx, c.Addr)
		if !found || sub.FutureSubscription == nil {
			continue
		}
		months := int(sub.FutureSubscription.DurationBought) + 1 + s.R.Intn(3)
		s.doBuy(c, c, "prem", months, false, true)
		return
	}
	// nobody has an advance purchase yet: make one
	c := s.Cons[s.R.Intn(len(s.Cons))]
	s.doBuy(c, c, vrandPick(s, s.Plans), 1, false, true)
}

// opBuyThenUpgrade: a consumer without a subscription buys one and upgrades it in the very same block.
func (s *Sim) opBuyThenUpgrade() {
	var c *Cons
	for _, x := range s.Cons {
		if _, found := s.TS.Keepers.Subscription.GetSubscription(s.TS.Ctx, x.Addr); !found {
			c = x
			break
		}
	}
	if c == nil {
		if len(s.Cons) >= 12 {
			return
		}
		acc, addr := s.TS.AddAccount(common.CONSUMER, len(s.Cons), bigBalance)
		c = &Cons{Acc: acc, Addr: addr, Devs: []sigs.Account{s.newAccount(1000)}}
		s.Cons = append(s.Cons, c)
	}
	if r := s.doBuy(c, c, "free", 1+s.R.Intn(2), false, false); r.OK() {
		s.doBuy(c, c, "prem", 1+s.R.Intn(3), false, false)
	}
}

func (s *Sim) opAutoRenew() {
	c := s.Cons[s.R.Intn(len(s.Cons))]
	msg := &subscriptiontypes.MsgAutoRenewal{Creator: c.Addr, Consumer: c.Addr, Enable: s.R.Intn(2) == 0, Index: vrandPick(s, s.Plans)}
	if !msg.Enable {
		msg.Index = ""
	}
	s.Tx("autorenew", fmt.Sprintf("consumer=%s enable=%v plan=%s", short(c.Addr), msg.Enable, msg.Index), msg, func(ctx context.Context) (any, error) {
		return s.TS.Servers.SubscriptionServer.AutoRenewal(ctx, msg)
	})
}

func (s *Sim) projectsOf(c *Cons) []string {
	res, err := s.TS.QuerySubscriptionListProjects(c.Addr)
	if err != nil {
		return nil
	}
	return res.Projects
}

func (s *Sim) somePolicy() *planstypes.Policy {
	p := &planstypes.Policy{GeolocationProfile: int32(planstypes.Geolocation_GL), TotalCuLimit: 50000, EpochCuLimit: 5000, MaxProvidersToPair: uint64(2 + s.R.Intn(4))}
	switch s.R.Intn(5) {
	case 0:
		p.TotalCuLimit, p.EpochCuLimit = 700, 300 // far below any plan
	case 1:
		p.TotalCuLimit, p.EpochCuLimit = math.MaxUint64, math.MaxUint64
	case 2:
		p.GeolocationProfile = int32(1 + s.R.Intn(3))
	}
	if s.prof.PolicyHeavy {
		req := func(iface, typ, addon string, ext bool, mixed bool) planstypes.ChainRequirement {
			r := planstypes.ChainRequirement{Collection: spectypes.CollectionData{ApiInterface: iface, Type: typ, AddOn: addon}, Mixed: mixed}
			if ext {
				r.Extensions = []string{"archive"}
			}
			return r
		}
		mixed := s.R.Intn(2) == 0
		two := func(r planstypes.ChainRequirement) planstypes.ChainRequirement {
			r.Extensions = []string{"archive", "trace"}
			return r
		}
		switch s.R.Intn(10) {
		case 7:
			p.ChainPolicies = []planstypes.ChainPolicy{{ChainId: "SPA", Requirements: []planstypes.ChainRequirement{two(req("jsonrpc", "POST", "", true, true))}}, {ChainId: "*"}}
			p.MaxProvidersToPair = uint64(4 + s.R.Intn(3))
		case 8:
			p.ChainPolicies = []planstypes.ChainPolicy{{ChainId: "SPA", Requirements: []planstypes.ChainRequirement{two(req("rest", "GET", "dbg", true, true))}}, {ChainId: "*"}}
			p.MaxProvidersToPair = uint64(4 + s.R.Intn(3))
		case 9:
			p.ChainPolicies = []planstypes.ChainPolicy{{ChainId: "SPA", Requirements: []planstypes.ChainRequirement{two(req("jsonrpc", "POST", "dbg", true, mixed))}}, {ChainId: "*"}}
		case 0:
			p.ChainPolicies = []planstypes.ChainPolicy{{ChainId: "SPA", Requirements: []planstypes.ChainRequirement{req("jsonrpc", "POST", "dbg", false, mixed)}}, {ChainId: "*"}}
		case 1:
			p.ChainPolicies = []planstypes.ChainPolicy{{ChainId: "SPA", Requirements: []planstypes.ChainRequirement{req("jsonrpc", "POST", "", true, mixed)}}, {ChainId: "*"}}
		case 2:
			p.ChainPolicies = []planstypes.ChainPolicy{{ChainId: "SPA", Requirements: []planstypes.ChainRequirement{req("rest", "GET", "", false, false)}}, {ChainId: "SPB"}}
		case 3:
			p.ChainPolicies = []planstypes.ChainPolicy{{ChainId: "SPA", Requirements: []planstypes.ChainRequirement{req("rest", "GET", "dbg", true, mixed)}}, {ChainId: "*"}}
		case 4:
			p.ChainPolicies = []planstypes.ChainPolicy{{ChainId: "SPA", Requirements: []planstypes.ChainRequirement{req("jsonrpc", "POST", "dbg", true, mixed)}}, {ChainId: "*"}}
		}
		switch s.R.Intn(4) {
		case 0:
			p.SelectedProvidersMode = planstypes.SELECTED_PROVIDERS_MODE_EXCLUSIVE
		case 1:
			p.SelectedProvidersMode = planstypes.SELECTED_PROVIDERS_MODE_MIXED
		}
		if p.SelectedProvidersMode != planstypes.SELECTED_PROVIDERS_MODE_ALLOWED {
			n := 1 + s.R.Intn(4)
			seen := map[string]bool{}
			for i := 0; i < n; i++ {
				a := s.Provs[s.R.Intn(len(s.Provs))].Addr
				if !seen[a] {
					seen[a] = true
					p.SelectedProviders = append(p.SelectedProviders, a)
				}
			}
		}
	}
	return p
}

func (s *Sim) opAddProject() {
	c := s.Cons[s.R.Intn(len(s.Cons))]
	dev := s.newAccount(1000)
	c.Devs = append(c.Devs, dev)
	keys := []projectstypes.ProjectKey{projectstypes.ProjectDeveloperKey(dev.Addr.String())}
	if s.R.Intn(3) == 0 && len(c.Devs) > 1 { // try to reuse an existing key (must be rejected if owned elsewhere)
		keys = append(keys, projectstypes.ProjectDeveloperKey(c.Devs[s.R.Intn(len(c.Devs))].Addr.String()))
	}
	pd := projectstypes.ProjectData{Name: fmt.Sprintf("p%d", s.R.Intn(6)), Enabled: s.R.Intn(8) != 0, ProjectKeys: keys}
	if s.R.Intn(2) == 0 {
		pd.Policy = s.somePolicy()
	}
	msg := &subscriptiontypes.MsgAddProject{Creator: c.Addr, ProjectData: pd}
	s.Tx("addproject", fmt.Sprintf("consumer=%s name=%s enabled=%v keys=%d", short(c.Addr), pd.Name, pd.Enabled, len(keys)), msg, func(ctx context.Context) (any, error) {
		return s.TS.Servers.SubscriptionServer.AddProject(ctx, msg)
	})
}

func (s *Sim) opDelProject() {
	c := s.Cons[s.R.Intn(len(s.Cons))]
	msg := &subscriptiontypes.MsgDelProject{Creator: c.Addr, Name: fmt.Sprintf("p%d", s.R.Intn(6))}
	s.Tx("delproject", fmt.Sprintf("consumer=%s name=%s", short(c.Addr), msg.Name), msg, func(ctx context.Context) (any, error) {
		return s.TS.Servers.SubscriptionServer.DelProject(ctx, msg)
	})
}

func (s *Sim) opKeys(del bool) {
	c := s.Cons[s.R.Intn(len(s.Cons))]
	projs := s.projectsOf(c)
	if len(projs) == 0 {
		return
	}
	proj := projs[s.R.Intn(len(projs))]
	// pick a key: own dev, other consumer's dev, or brand new
	var key string
	switch s.R.Intn(4) {
	case 0:
		oc := s.Cons[s.R.Intn(len(s.Cons))]
		key = oc.Devs[s.R.Intn(len(oc.Devs))].Addr.String()
	case 1:
		d := s.newAccount(1000)
		c.Devs = append(c.Devs, d)
		key = d.Addr.String()
	default:
		key = c.Devs[s.R.Intn(len(c.Devs))].Addr.String()
	}
	pk := projectstypes.ProjectDeveloperKey(key)
	switch s.R.Intn(6) {
	case 0:
		pk = projectstypes.ProjectAdminKey(key)
	case 1:
		pk = projectstypes.ProjectAdminKey(key).AddType(projectstypes.ProjectKey_DEVELOPER) // one key holding both roles
	}
	if del {
		msg := &projectstypes.MsgDelKeys{Creator: c.Addr, Project: proj, ProjectKeys: []projectstypes.ProjectKey{pk}}
		s.Tx("delkeys", fmt.Sprintf("proj=%s key=%s", proj[len(proj)-8:], short(key)), msg, func(ctx context.Context) (any, error) {
			return s.TS.Servers.ProjectServer.DelKeys(ctx, msg)
		})
		return
	}
	msg := &projectstypes.MsgAddKeys{Creator: c.Addr, Project: proj, ProjectKeys: []projectstypes.ProjectKey{pk}}
	s.Tx("addkeys", fmt.Sprintf("proj=%s key=%s", proj[len(proj)-8:], short(key)), msg, func(ctx context.Context) (any, error) {
		return s.TS.Servers.ProjectServer.AddKeys(ctx, msg)
	})
}

func (s *Sim) opSetPolicy(sub bool) {
	c := s.Cons[s.R.Intn(len(s.Cons))]
	projs := s.projectsOf(c)
	if len(projs) == 0 {
		return
	}
	proj := projs[s.R.Intn(len(projs))]
	pol := s.somePolicy()
	if sub {
		msg := &projectstypes.MsgSetSubscriptionPolicy{Creator: c.Addr, Projects: []string{proj}, Policy: pol}
		s.Tx("setsubpolicy", fmt.Sprintf("proj=%s pol=%s", proj[len(proj)-8:], polStr(pol)), msg, func(ctx context.Context) (any, error) {
			return s.TS.Servers.ProjectServer.SetSubscriptionPolicy(ctx, msg)
		})
		return
	}
	msg := &projectstypes.MsgSetPolicy{Creator: c.Addr, Project: proj, Policy: pol}
	s.Tx("setpolicy", fmt.Sprintf("proj=%s pol=%s", proj[len(proj)-8:], polStr(pol)), msg, func(ctx context.Context) (any, error) {
		return s.TS.Servers.ProjectServer.SetPolicy(ctx, msg)
	})
}

func polStr(p *planstypes.Policy) string {
	return fmt.Sprintf("{tot=%d ep=%d max=%d geo=%d mode=%d sel=%d chains=%d}", p.TotalCuLimit, p.EpochCuLimit, p.MaxProvidersToPair, p.GeolocationProfile, p.SelectedProvidersMode, len(p.SelectedProviders), len(p.ChainPolicies))
}

// ---------------------------------------------------------------- governance ops

func (s *Sim) opPlanAdd() { s.opPlanAddFor(vrandPick(s, s.Plans)) }

func (s *Sim) opPlanAddFor(idx string) {
	pl := s.planTemplate(idx)
	// a new version: change price / CU a little
	pl.Price = s.coin(pl.Price.Amount.Int64() + int64(s.R.Intn(5))*10)
	pl.PlanPolicy.EpochCuLimit += uint64(s.R.Intn(3)) * 100
	if pl.PlanPolicy.EpochCuLimit > pl.PlanPolicy.TotalCuLimit {
		pl.PlanPolicy.EpochCuLimit = pl.PlanPolicy.TotalCuLimit
	}
	s.Tx("plan_add", fmt.Sprintf("plan=%s price=%s", idx, pl.Price), nil, func(ctx context.Context) (any, error) {
		return nil, testkeeper.SimulatePlansAddProposal(sdk.UnwrapSDKContext(ctx), s.TS.Keepers.Plans, []planstypes.Plan{pl}, false)
	})
}

func (s *Sim) opPlanDel() {
	idx := vrandPick(s, s.Plans)
	s.Tx("plan_del", "plan="+idx, nil, func(ctx context.Context) (any, error) {
		return nil, testkeeper.SimulatePlansDelProposal(sdk.UnwrapSDKContext(ctx), s.TS.Keepers.Plans, []string{idx})
	})
}

func (s *Sim) opParam() {
	switch s.R.Intn(3) {
	case 0:
		s.paramChange("epochstorage", "EpochBlocks", fmt.Sprintf("\"%d\"", 2+s.R.Intn(30)))
	case 1:
		s.paramChange("epochstorage", "EpochsToSave", fmt.Sprintf("\"%d\"", 1+s.R.Intn(10)))
	default:
		s.paramChange("pairing", "QoSWeight", fmt.Sprintf("\"0.%d\"", s.R.Intn(10)))
	}
}

func (s *Sim) opIprpcData() {
	var subs []string
	for _, c := range s.Cons {
		if s.R.Intn(2) == 0 {
			subs = append(subs, c.Addr)
		}
	}
	msg := rewardstypes.NewMsgSetIprpcData(authtypes.NewModuleAddress(govtypes.ModuleName).String(), s.coin(int64(s.R.Intn(200))), subs)
	s.Tx("iprpc_data", fmt.Sprintf("subs=%d cost=%s", len(subs), msg.MinIprpcCost), msg, func(ctx context.Context) (any, error) {
		return s.TS.Servers.RewardsServer.SetIprpcData(ctx, msg)
	})
}

func (s *Sim) opFundIprpc() {
	c := s.Cons[s.R.Intn(len(s.Cons))]
	dur := uint64(1 + s.R.Intn(4))
	amt := int64(1+s.R.Intn(100)) * 1000
	msg := rewardstypes.NewMsgFundIprpc(c.Addr, vrandPick(s, s.Specs), dur, sdk.NewCoins(s.coin(amt)))
	s.Tx("fund_iprpc", fmt.Sprintf("creator=%s spec=%s dur=%d amt=%d", short(c.Addr), msg.Spec, dur, amt), msg, func(ctx context.Context) (any, error) {
		return s.TS.Servers.RewardsServer.FundIprpc(ctx, msg)
	})
}

// ---------------------------------------------------------------- relay payments

// pairedProviders returns the pairing of a developer key for a chain now.
func (s *Sim) pairedProviders(chain, dev string) []string {
	res, err := s.TS.QueryPairingGetPairing(chain, dev)
	if err != nil {
		return nil
	}
	var out []string
	for _, p := range res.Providers {
		out = append(out, p.Address)
	}
	return out
}

func (s *Sim) provByAddr(a string) *Prov {
	for _, p := range s.Provs {
		if p.Addr == a {
			return p
		}
	}
	return nil
}

func (s *Sim) newSession(dev sigs.Account, provider, chain string, epoch int64, cu uint64) *pairingtypes.RelaySession {
	s.session++
	rs := &pairingtypes.RelaySession{Provider: provider, ContentHash: []byte("verif"), SessionId: s.session, SpecId: chain, CuSum: cu,
		Epoch: epoch, RelayNum: 1 + uint64(s.R.Intn(5)), LavaChainId: s.TS.Ctx.BlockHeader().ChainID}
	return rs
}

func signSession(acc sigs.Account, rs *pairingtypes.RelaySession) {
	rs.Sig = nil
	sig, err := sigs.Sign(acc.SK, *rs)
	if err != nil {
		panic(err)
	}
	rs.Sig = sig
}

func (s *Sim) someQos() *pairingtypes.QualityOfServiceReport {
	d := func() sdk.Dec {
		switch s.R.Intn(5) {
		case 0:
			return sdk.ZeroDec()
		case 1:
			return sdk.OneDec()
		default:
			return sdk.NewDecWithPrec(int64(s.R.Intn(1001)), 3)
		}
	}
	return &pairingtypes.QualityOfServiceReport{Latency: d(), Availability: d(), Sync: d()}
}

func (s *Sim) someExcellence() *pairingtypes.QualityOfServiceReport {
	d := func() sdk.Dec {
		switch s.R.Intn(6) {
		case 0:
			if s.R.Intn(4) == 0 {
				// a consumer is free to sign any non-negative number: up to the largest values an sdk.Dec can carry
				return sdk.NewDecFromInt(sdkmath.NewIntWithDecimal(int64(1+s.R.Intn(9)), 20+s.R.Intn(38)))
			}
			return sdk.NewDecWithPrec(1, 6)
		case 1:
			return sdk.NewDec(int64(1 + s.R.Intn(100000)))
		default:
			return sdk.NewDecWithPrec(int64(1+s.R.Intn(5000)), 3)
		}
	}
	av := sdk.NewDecWithPrec(int64(s.R.Intn(1001)), 3)
	if s.R.Intn(5) == 0 {
		av = sdk.ZeroDec()
	}
	return &pairingtypes.QualityOfServiceReport{Latency: d(), Availability: av, Sync: d()}
}

// relayEpoch picks the epoch a relay refers to: mostly current, sometimes older (still in memory).
func (s *Sim) relayEpoch() int64 {
	cur := int64(s.TS.EpochStart())
	if s.R.Intn(4) != 0 {
		return cur
	}
	earliest := int64(s.TS.Keepers.Epochstorage.GetEarliestEpochStart(s.TS.Ctx))
	if cur <= earliest {
		return cur
	}
	b := earliest + s.R.Int63n(cur-earliest+1)
	ep, _, err := s.TS.Keepers.Epochstorage.GetEpochStartForBlock(s.TS.Ctx, uint64(b))
	if err != nil {
		return cur
	}
	return int64(ep)
}

func (s *Sim) sendRelays(name string, provider string, relays []*pairingtypes.RelaySession, desc string) *TxRes {
	msg := &pairingtypes.MsgRelayPayment{Creator: provider, Relays: relays, DescriptionString: "verif"}
	var res *TxRes
	res = s.Tx(name, desc, msg, func(ctx context.Context) (any, error) {
		return s.TS.Servers.PairingServer.RelayPayment(ctx, msg)
	})
	res.Relays = relays
	if res.OK() {
		for _, r := range relays {
			if len(s.Credited) < 400 {
				s.Credited = append(s.Credited, r)
			} else {
				s.Credited[s.R.Intn(len(s.Credited))] = r
			}
		}
	}
	return res
}

// honest relay payment: 1-3 sessions of developers paired with the provider.
func (s *Sim) opRelay() {
	c := s.Cons[s.R.Intn(len(s.Cons))]
	dev := c.Devs[s.R.Intn(len(c.Devs))]
	if s.R.Intn(4) == 0 {
		dev = c.Acc // the subscription owner is a developer of the admin project
	}
	chain := vrandPick(s, s.Specs)
	paired := s.pairedProviders(chain, dev.Addr.String())
	if len(paired) == 0 {
		return
	}
	prov := paired[s.R.Intn(len(paired))]
	n := 1 + s.R.Intn(3)
	var relays []*pairingtypes.RelaySession
	epoch := s.relayEpoch()
	upper := s.R.Intn(10) == 0
	for i := 0; i < n; i++ {
		cu := uint64(1 + s.R.Intn(400))
		switch s.R.Intn(8) {
		case 0:
			cu = uint64(1000 + s.R.Intn(20000)) // above epoch limits
		case 1:
			cu = 1
		}
		rs := s.newSession(dev, prov, chain, epoch, cu)
		if upper {
			rs.Provider = strings.ToUpper(prov) // bech32 also accepts the all-uppercase spelling of the same address
		}
		if s.R.Intn(4) == 0 {
			rs.QosReport = s.someQos()
		}
		if s.R.Intn(3) == 0 {
			rs.QosExcellenceReport = s.someExcellence()
		}
		if s.R.Intn(6) == 0 && len(paired) > 1 {
			other := paired[s.R.Intn(len(paired))]
			if other != prov {
				rs.UnresponsiveProviders = []*pairingtypes.ReportedProvider{{Address: other, Disconnections: 1, Errors: 2, TimestampS: s.TS.Ctx.BlockTime().Unix()}}
			}
		}
		signSession(dev, rs)
		relays = append(relays, rs)
	}
	s.sendRelays("relay", prov, relays, fmt.Sprintf("prov=%s dev=%s chain=%s epoch=%d n=%d cu0=%d sid0=%d", short(prov), short(dev.Addr.String()), chain, epoch, n, relays[0].CuSum, relays[0].SessionId))
}

// ---------------------------------------------------------------- time ops

func (s *Sim) opLongBlock() {
	d := []time.Duration{time.Hour, 6 * time.Hour, 23 * time.Hour, 25 * time.Hour, 3 * 24 * time.Hour, 10 * time.Minute}[s.R.Intn(6)]
	s.NextBlock(d)
}

// opMonth jumps close to the next month boundary of some timer, then steps over it.
func (s *Sim) opMonth() {
	now := s.TS.Ctx.BlockTime()
	next := utils.NextMonth(now)
	// block gaps stay within what a live chain can show (at most a 3 day halt): walk there in steps
	s.AdvanceTo(next.Add(-time.Duration(1+s.R.Intn(3600*30)) * time.Second))
	switch s.R.Intn(3) {
	case 0:
		s.AdvanceTo(next.Add(-5 * time.Second))
		s.NextBlock(10 * time.Second)
	case 1:
		s.AdvanceTo(next.Add(time.Second))
	default:
		s.AdvanceTo(next.Add(time.Duration(s.R.Intn(48)) * time.Hour))
	}
}

// AdvanceTo produces blocks (gaps of at most MaxGap) until block time reaches t.
func (s *Sim) AdvanceTo(t time.Time) {
	for !s.Halted {
		d := t.Sub(s.TS.Ctx.BlockTime())
		if d <= 0 {
			return
		}
		if d > MaxGap {
			d = MaxGap - time.Duration(s.R.Intn(3600))*time.Second
		}
		s.NextBlock(d)
	}
}

// MaxGap is the longest gap between two blocks the generator produces (a multi-day chain halt).
const MaxGap = 3 * 24 * time.Hour

// ---------------------------------------------------------------- op choice

type opEntry struct {
	name string
	f    func()
}

// RegisterOp adds an op to the grammar from another file of this package (use it from init()).
func RegisterOp(name string, f func(s *Sim)) { extraOps = append(extraOps, extraOp{name, f}) }

type extraOp struct {
	name string
	f    func(s *Sim)
}

var extraOps []extraOp

func (s *Sim) opTable() []opEntry {
	tab := s.baseOpTable()
	for _, e := range extraOps {
		e := e
		tab = append(tab, opEntry{e.name, func() { e.f(s) }})
	}
	return tab
}

func (s *Sim) baseOpTable() []opEntry {
	return []opEntry{
		{"block", func() { s.NextBlock(0) }},
		{"epoch", func() { s.NextEpoch() }},
		{"longblock", s.opLongBlock},
		{"month", s.opMonth},
		{"stake", s.opStake}, {"modify", s.opModify}, {"movestake", s.opMoveStake}, {"unstake", s.opUnstake},
		{"freeze", func() { s.opFreeze(false) }}, {"unfreeze", func() { s.opFreeze(true) }},
		{"ds_delegate", s.opDsDelegate}, {"ds_redelegate", s.opDsRedelegate}, {"ds_unbond", s.opDsUnbond}, {"ds_claim", s.opDsClaim},
		{"st_delegate", s.opStDelegate}, {"st_undelegate", s.opStUndelegate}, {"st_redelegate", s.opStRedelegate}, {"st_cancel", s.opStCancel}, {"st_batch", s.opStBatch},
		{"slash", s.opSlash},
		{"buy", s.opBuy}, {"buy_adv_replace", s.opBuyAdvanceReplace}, {"buy_then_upgrade", s.opBuyThenUpgrade}, {"autorenew", s.opAutoRenew}, {"addproject", s.opAddProject}, {"delproject", s.opDelProject},
		{"addkeys", func() { s.opKeys(false) }}, {"delkeys", func() { s.opKeys(true) }},
		{"setpolicy", func() { s.opSetPolicy(false) }}, {"setsubpolicy", func() { s.opSetPolicy(true) }},
		{"plan_add", s.opPlanAdd}, {"plan_del", s.opPlanDel}, {"param", s.opParam}, {"iprpc_data", s.opIprpcData}, {"fund_iprpc", s.opFundIprpc},
		{"relay", s.opRelay}, {"relay_hostile", s.opRelayHostile},
		{"param_burn", func() {
			s.paramChange("rewards", "LeftoverBurnRate", fmt.Sprintf("\"0.%d\"", s.R.Intn(10)))
		}},
		{"param_epoch", func() {
			if s.R.Intn(2) == 0 {
				s.paramChange("epochstorage", "EpochBlocks", fmt.Sprintf("\"%d\"", 2+s.R.Intn(30)))
			} else {
				n := 1 + s.R.Intn(10)
				if s.R.Intn(8) == 0 {
					n = []int{50, 100, 200}[s.R.Intn(3)] // a memory window longer than the chain is old
				}
				s.paramChange("epochstorage", "EpochsToSave", fmt.Sprintf("\"%d\"", n))
			}
		}},
		{"conflict", s.opConflict},
	}
}

// Run executes n generated ops (stops early if block processing panicked).
func (s *Sim) Run(n int) {
	tab := s.opTable()
	ws := make([]int, len(tab))
	tot := 0
	for i, e := range tab {
		ws[i] = s.w(e.name)
		tot += ws[i]
	}
	if tot == 0 {
		panic("profile has no ops")
	}
	for i := 0; i < n && !s.Halted; i++ {
		x := s.R.Intn(tot)
		for j, wj := range ws {
			if x < wj {
				tab[j].f()
				break
			}
			x -= wj
		}
	}
}

// sortedKeys is a tiny helper for deterministic iteration.
func sortedKeys[V any](m map[string]V) []string {
	out := make([]string, 0, len(m))
	for k := range m {
		out = append(out, k)
	}
	sort.Strings(out)
	return out
}

var _ = sdkmath.NewInt

// prologueFailedRenewal is a directed opening for the subscription profiles: an auto-renewing subscription whose
// creator cannot pay the renewal, on a plan that governance modifies before and after the failed renewal, next to
// a long-lived subscription on the version in between; then idle time beyond the fixation stale period. Every step
// goes through the ordinary ops (so the monitors see ordinary txs); the generated history continues from there.
func prologueFailedRenewal(s *Sim) {
	plan := "tight"
	price := s.planTemplate(plan).Price.Amount.Int64()
	mk := func(balance int64) *Cons {
		acc := s.newAccount(balance)
		c := &Cons{Acc: acc, Addr: acc.Addr.String()}
		for d := 0; d < 2; d++ {
			c.Devs = append(c.Devs, s.newAccount(10000))
		}
		s.Cons = append(s.Cons, c)
		return c
	}
	poor := mk(price + price/2) // pays one month, cannot pay the renewal
	rich := mk(bigBalance)
	bought := s.TS.Ctx.BlockTime()
	if r := s.doBuy(poor, poor, plan, 1, true, false); !r.OK() {
		return
	}
	s.opPlanAddFor(plan)
	s.NextEpoch()
	s.doBuy(rich, rich, plan, 3, false, false) // holds the version in between
	s.NextEpoch()
	s.AdvanceTo(utils.NextMonth(bought).Add(2 * time.Hour)) // the renewal instant of the poor subscription passes
	s.opPlanAddFor(plan)
	s.NextEpoch()
	// idle beyond the stale period of the plans fixation store
	for i := 0; i < 12 && !s.Halted; i++ {
		s.NextEpoch()
	}
}
