//go:build verif

// Package chainmon: chain driver (real keepers + msg servers, atomic tx emulation, app.go block
// order) and the online monitors of the chain-side properties. See DESIGN.md 1.3.
package chainmon

import (
	"context"
	"crypto/sha256"
	"encoding/hex"
	"fmt"
	"math/rand"
	"runtime/debug"
	"sort"
	"strings"
	"testing"
	"time"

	abci "github.com/cometbft/cometbft/abci/types"
	"github.com/cosmos/cosmos-sdk/store/rootmulti"
	storetypes "github.com/cosmos/cosmos-sdk/store/types"
	sdk "github.com/cosmos/cosmos-sdk/types"
	stakingtypes "github.com/cosmos/cosmos-sdk/x/staking/types"
	"github.com/lavanet/lava/v5/testutil/common"
	testkeeper "github.com/lavanet/lava/v5/testutil/keeper"
	"github.com/lavanet/lava/v5/utils/sigs"
	conflicttypes "github.com/lavanet/lava/v5/x/conflict/types"
	dualstakingante "github.com/lavanet/lava/v5/x/dualstaking/ante"
	dualstakingtypes "github.com/lavanet/lava/v5/x/dualstaking/types"
	pairingtypes "github.com/lavanet/lava/v5/x/pairing/types"
	projectstypes "github.com/lavanet/lava/v5/x/projects/types"
	rewardstypes "github.com/lavanet/lava/v5/x/rewards/types"
	subscriptiontypes "github.com/lavanet/lava/v5/x/subscription/types"
)

// TxRes is what a monitor sees of one transaction.
type TxRes struct {
	Step   int
	Name   string // op kind
	Desc   string // human readable, goes into witnesses
	Msg    sdk.Msg
	Err    error
	Panic  string
	Stack  string
	Events []sdk.Event
	Resp   any
	// set by the executor for relay payments
	Relays []*pairingtypes.RelaySession
}

func (r *TxRes) OK() bool { return r.Err == nil && r.Panic == "" }

// BlockRes is what a monitor sees of one block transition.
type BlockRes struct {
	Step        int
	Height      int64
	Time        time.Time
	Dt          time.Duration
	EndEvents   []sdk.Event
	BeginEvents []sdk.Event
	Panic       string
	Phase       string // "EndBlock" / "BeginBlock:<module>"
	Stack       string
	EpochStart  bool
}

// Monitor is an online checker. Before* hooks let it snapshot what it needs.
type Monitor interface {
	BeforeTx(s *Sim, name string, msg sdk.Msg)
	AfterTx(s *Sim, r *TxRes)
	BeforeBlock(s *Sim)
	AfterBlock(s *Sim, b *BlockRes)
}

// BaseMon gives no-op defaults.
type BaseMon struct{}

func (BaseMon) BeforeTx(*Sim, string, sdk.Msg) {}
func (BaseMon) AfterTx(*Sim, *TxRes)           {}
func (BaseMon) BeforeBlock(*Sim)               {}
func (BaseMon) AfterBlock(*Sim, *BlockRes)     {}

type Prov struct {
	Acc    sigs.Account
	Addr   string
	Vault  string
	Chains map[string]bool // believed staked (refreshed from chain state when needed)
}

type Cons struct {
	Acc  sigs.Account
	Addr string
	Devs []sigs.Account // developer keys (may move between projects)
}

type Sim struct {
	T     *testing.T
	TS    *common.Tester
	R     *rand.Rand
	Seed  int64
	Denom string

	Specs []string
	Plans []string
	Vals  []sigs.Account
	Provs []*Prov
	Cons  []*Cons
	Dels  []sigs.Account // pure delegators

	Mons    []Monitor
	Step    int
	Log     []string // human-readable op log (witness)
	Stats   map[string]int
	Halted  bool // a block-processing panic happened: the history stops here
	session uint64

	storeKeys []storetypes.StoreKey
	rf        dualstakingante.RedelegationFlager
	prof      *Profile
	// pending relay sessions that were credited (for duplicate resubmission)
	Credited []*pairingtypes.RelaySession
	// conflict votes the generator knows about
	Votes   []*voteInfo
	badges  []*badgeInfo
	epochT0 time.Time // block time of the last epoch start
	lastTx  *TxRes    // the tx being / last processed (for classification in monitors)
	t0      time.Time // block time when the world was created
	asym    int       // world-build switch: asymmetric add-on endpoints for the next SPA stake
}

// MaxEpochSpan bounds the block time one epoch may span in generated histories.
const MaxEpochSpan = 7 * 24 * time.Hour

var fixedOnce bool

// NewSim builds a fresh world. Only one Sim can be live per process at a time (the mock bank is a
// package-level map in testutil/keeper).
func NewSim(t *testing.T, seed int64, prof *Profile, mons ...Monitor) *Sim {
	if !fixedOnce {
		testkeeper.SetFixedTime()
		fixedOnce = true
	}
	ts := common.NewTesterRaw(t)
	testkeeper.VerifSetRandomizer(seed)
	s := &Sim{T: t, TS: ts, R: rand.New(rand.NewSource(seed)), Seed: seed, Mons: mons, Stats: map[string]int{}, prof: prof}
	s.Denom = ts.TokenDenom()
	s.rf = dualstakingante.NewRedelegationFlager(ts.Keepers.Dualstaking)
	ts.SetChainID("lava-verif")
	rs := ts.Ctx.MultiStore().(*rootmulti.Store)
	byName := rs.StoreKeysByName()
	names := make([]string, 0, len(byName))
	for n := range byName {
		names = append(names, n)
	}
	sort.Strings(names)
	for _, n := range names {
		s.storeKeys = append(s.storeKeys, byName[n])
	}
	// same first steps as common.NewTester
	s.advanceRaw(0)
	target := s.TS.GetNextEpoch()
	for s.TS.BlockHeight() < target {
		s.advanceRaw(0)
	}
	s.t0 = s.TS.Ctx.BlockTime()
	return s
}

func (s *Sim) Ctx() sdk.Context { return s.TS.Ctx }

func (s *Sim) logf(format string, a ...any) {
	s.Log = append(s.Log, fmt.Sprintf("#%d h=%d ", s.Step, s.TS.Ctx.BlockHeight())+fmt.Sprintf(format, a...))
}

// LogTail returns the last n log lines (witness material).
func (s *Sim) LogTail(n int) []string {
	if len(s.Log) <= n {
		return append([]string{}, s.Log...)
	}
	return append([]string{}, s.Log[len(s.Log)-n:]...)
}

// Digest hashes every mounted store (through ctx, so it also works on cache contexts) and the mock bank.
func (s *Sim) Digest(ctx sdk.Context) string {
	h := sha256.New()
	for _, k := range s.storeKeys {
		if _, ok := k.(*storetypes.TransientStoreKey); ok {
			continue
		}
		h.Write([]byte("store:" + k.Name()))
		it := ctx.KVStore(k).Iterator(nil, nil)
		for ; it.Valid(); it.Next() {
			h.Write(it.Key())
			h.Write([]byte{0})
			h.Write(it.Value())
			h.Write([]byte{1})
		}
		it.Close()
	}
	h.Write([]byte(s.BankDigest()))
	return hex.EncodeToString(h.Sum(nil)[:16])
}

// StoreDigests returns a per-store digest (to name the store that diverged).
func (s *Sim) StoreDigests(ctx sdk.Context) map[string]string {
	out := map[string]string{}
	for _, k := range s.storeKeys {
		if _, ok := k.(*storetypes.TransientStoreKey); ok {
			continue
		}
		h := sha256.New()
		it := ctx.KVStore(k).Iterator(nil, nil)
		for ; it.Valid(); it.Next() {
			h.Write(it.Key())
			h.Write([]byte{0})
			h.Write(it.Value())
			h.Write([]byte{1})
		}
		it.Close()
		out[k.Name()] = hex.EncodeToString(h.Sum(nil)[:8])
	}
	out["bank"] = s.BankDigest()
	return out
}

func (s *Sim) BankDigest() string {
	snap := testkeeper.VerifBankSnapshot()
	keys := make([]string, 0, len(snap))
	for k := range snap {
		keys = append(keys, k)
	}
	sort.Strings(keys)
	h := sha256.New()
	for _, k := range keys {
		c := snap[k]
		if c.IsZero() {
			continue
		}
		h.Write([]byte(k + "=" + c.String() + ";"))
	}
	return hex.EncodeToString(h.Sum(nil)[:8])
}

// Tx runs one transaction the way baseapp does: ValidateBasic, ante emulation (dualstaking
// redelegation flag), handler in a cache context that is written only on success; on failure the
// mock bank is restored as well. Panics are recovered and reported (a tx panic is a failed tx).
func (s *Sim) Tx(name, desc string, msg sdk.Msg, f func(ctx context.Context) (any, error)) *TxRes {
	var msgs []sdk.Msg
	if msg != nil {
		msgs = []sdk.Msg{msg}
	}
	return s.TxMsgs(name, desc, msgs, f)
}

// TxMsgs is Tx for a transaction that batches several messages: every message passes ValidateBasic, the ante
// emulation sees the whole list (it rejects a redelegation batched with other messages), and f runs the message
// handlers in order inside the one cache context (all or nothing).
func (s *Sim) TxMsgs(name, desc string, msgs []sdk.Msg, f func(ctx context.Context) (any, error)) *TxRes {
	s.Step++
	var msg sdk.Msg
	if len(msgs) > 0 {
		msg = msgs[0]
	}
	res := &TxRes{Step: s.Step, Name: name, Desc: desc, Msg: msg}
	for _, m := range s.Mons {
		m.BeforeTx(s, name, msg)
	}
	s.Stats["tx:"+name]++
	for _, m := range msgs {
		if err := m.ValidateBasic(); err != nil && res.Err == nil {
			res.Err = fmt.Errorf("ValidateBasic: %w", err)
		}
	}
	if res.Err == nil {
		snap := testkeeper.VerifBankSnapshot()
		outer := s.TS.Ctx
		cc, write := outer.CacheContext()
		cc = cc.WithEventManager(sdk.NewEventManager())
		var anteErr error
		if len(msgs) > 0 {
			anteErr = s.rf.DisableRedelegationHooks(cc, msgs)
		} else {
			s.TS.Keepers.Dualstaking.SetDisableDualstakingHook(cc, false)
		}
		s.TS.Ctx = cc
		s.TS.GoCtx = sdk.WrapSDKContext(cc)
		func() {
			if anteErr != nil {
				res.Err = fmt.Errorf("ante: %w", anteErr)
				return
			}
			defer func() {
				if r := recover(); r != nil {
					res.Panic = fmt.Sprint(r)
					res.Stack = string(debug.Stack())
				}
			}()
			res.Resp, res.Err = f(s.TS.GoCtx)
		}()
		s.TS.Ctx = outer
		s.TS.GoCtx = sdk.WrapSDKContext(outer)
		if res.OK() {
			write()
			res.Events = cc.EventManager().Events()
		} else {
			testkeeper.VerifBankRestore(snap)
		}
	}
	if res.OK() {
		s.Stats["ok:"+name]++
		s.logf("%s OK %s", name, desc)
	} else if res.Panic != "" {
		s.Stats["panic:"+name]++
		s.logf("%s PANIC(%s) [%s] %s", name, oneline(res.Panic), panicSignature("tx", res.Stack), desc)
	} else {
		s.logf("%s ERR(%s) %s", name, oneline(res.Err.Error()), desc)
	}
	s.lastTx = res
	for _, m := range s.Mons {
		m.AfterTx(s, res)
	}
	return res
}

func oneline(x string) string {
	x = strings.ReplaceAll(x, "\n", " ")
	if len(x) > 160 {
		x = x[:160] + "…"
	}
	return x
}

// beginBlockers in app.go order (modules without logic omitted).
func (s *Sim) beginBlock(ctx sdk.Context, phase *string) {
	ks := s.TS.Keepers
	*phase = "BeginBlock:timerstore"
	ks.TimerStoreKeeper.BeginBlock(ctx)
	*phase = "BeginBlock:rewards"
	ks.Rewards.BeginBlock(ctx)
	*phase = "BeginBlock:dualstaking"
	ks.Dualstaking.BeginBlock(ctx, abci.RequestBeginBlock{})
	*phase = "BeginBlock:epochstorage"
	ks.Epochstorage.BeginBlock(ctx)
	*phase = "BeginBlock:conflict"
	ks.Conflict.BeginBlock(ctx)
	*phase = "BeginBlock:downtime"
	ks.Downtime.BeginBlock(ctx)
	*phase = "BeginBlock:pairing"
	ks.Pairing.BeginBlock(ctx)
}

func (s *Sim) endBlock(ctx sdk.Context, phase *string) {
	ks := s.TS.Keepers
	*phase = "EndBlock:staking"
	ks.StakingKeeper.BlockValidatorUpdates(ctx)
	*phase = "EndBlock:pairing"
	ks.Pairing.EndBlock(ctx)
	*phase = "EndBlock:timerstore"
	ks.TimerStoreKeeper.EndBlock(ctx)
}

func (s *Sim) advanceRaw(dt time.Duration) *BlockRes {
	b := &BlockRes{Step: s.Step, Dt: dt}
	phase := ""
	func() {
		defer func() {
			if r := recover(); r != nil {
				b.Panic = fmt.Sprint(r)
				b.Phase = phase
				b.Stack = string(debug.Stack())
			}
		}()
		ctx := s.TS.Ctx.WithEventManager(sdk.NewEventManager())
		s.endBlock(ctx, &phase)
		b.EndEvents = ctx.EventManager().Events()
		phase = "UpdateBlockCtx"
		var nctx sdk.Context
		if dt > 0 {
			nctx = testkeeper.UpdateBlockCtx(sdk.WrapSDKContext(s.TS.Ctx), s.TS.Keepers, dt)
		} else {
			nctx = testkeeper.UpdateBlockCtx(sdk.WrapSDKContext(s.TS.Ctx), s.TS.Keepers)
		}
		hdr := nctx.BlockHeader()
		hdr.ChainID = s.TS.Ctx.BlockHeader().ChainID
		hh := nctx.HeaderHash()
		nctx = nctx.WithBlockHeader(hdr).WithHeaderHash(hh)
		nctx = nctx.WithEventManager(sdk.NewEventManager())
		s.TS.Ctx = nctx
		s.TS.GoCtx = sdk.WrapSDKContext(nctx)
		s.beginBlock(nctx, &phase)
		b.BeginEvents = nctx.EventManager().Events()
	}()
	b.Height = s.TS.Ctx.BlockHeight()
	b.Time = s.TS.Ctx.BlockTime()
	if b.Panic == "" {
		b.EpochStart = s.TS.Keepers.Epochstorage.IsEpochStart(s.TS.Ctx)
	}
	return b
}

// NextBlock advances one block with monitors.
func (s *Sim) NextBlock(dt time.Duration) *BlockRes {
	if s.Halted {
		return &BlockRes{Panic: "halted"}
	}
	s.Step++
	// realism bound: one epoch never spans more than MaxEpochSpan of block time (a real epoch is
	// minutes; several multi-day halts inside one epoch are not a reachable history), so a
	// subscription month always contains at least a few epoch starts.
	if dt > 0 && !s.epochT0.IsZero() {
		if left := MaxEpochSpan - s.TS.Ctx.BlockTime().Sub(s.epochT0); dt > left {
			dt = max(left, time.Second)
		}
	}
	for _, m := range s.Mons {
		m.BeforeBlock(s)
	}
	b := s.advanceRaw(dt)
	if b.EpochStart || s.epochT0.IsZero() {
		s.epochT0 = b.Time
	}
	b.Step = s.Step
	s.Stats["blocks"]++
	if b.EpochStart {
		s.Stats["epochs"]++
	}
	if b.Panic != "" {
		s.Halted = true
		s.logf("BLOCK PANIC in %s: %s\n%s", b.Phase, oneline(b.Panic), b.Stack)
	} else if dt > time.Hour {
		s.logf("block dt=%s time=%s", dt, b.Time.Format(time.RFC3339))
	}
	for _, m := range s.Mons {
		m.AfterBlock(s, b)
	}
	return b
}

func (s *Sim) NextEpoch() {
	target := s.TS.GetNextEpoch()
	for !s.Halted && s.TS.BlockHeight() < target {
		s.NextBlock(0)
	}
}

// ---- helpers used by ops and monitors

func (s *Sim) coin(n int64) sdk.Coin { return sdk.NewCoin(s.Denom, sdk.NewInt(n)) }

func (s *Sim) newAccount(balance int64) sigs.Account {
	return common.CreateNewAccount(s.TS.GoCtx, *s.TS.Keepers, balance)
}

func (s *Sim) valAddr(i int) string { return sdk.ValAddress(s.Vals[i%len(s.Vals)].Addr).String() }

func evAttr(e sdk.Event, key string) (string, bool) {
	for _, a := range e.Attributes {
		if a.Key == key {
			return a.Value, true
		}
	}
	return "", false
}

func evName(e sdk.Event) string { return strings.TrimPrefix(e.Type, "lava_") }

func findEvents(evs []sdk.Event, name string) []sdk.Event {
	var out []sdk.Event
	for _, e := range evs {
		if evName(e) == name {
			out = append(out, e)
		}
	}
	return out
}

var (
	_ = stakingtypes.ModuleName
	_ = conflicttypes.ModuleName
	_ = dualstakingtypes.ModuleName
	_ = projectstypes.ModuleName
	_ = rewardstypes.ModuleName
	_ = subscriptiontypes.ModuleName
)

func bankSnap() map[string]sdk.Coins     { return testkeeper.VerifBankSnapshot() }
func bankRestore(m map[string]sdk.Coins) { testkeeper.VerifBankRestore(m) }
