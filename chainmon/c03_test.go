//go:build verif

package chainmon

import (
	"testing"

	"verif/internal/ev"
)

func profRelay() *Profile {
	w := map[string]int{
		"block": 25, "epoch": 8, "longblock": 2, "month": 1,
		"stake": 1, "modify": 1, "unstake": 1, "freeze": 1, "unfreeze": 1,
		"ds_delegate": 1,
		"buy":         3, "addproject": 3, "delproject": 1, "addkeys": 4, "delkeys": 3, "setpolicy": 3, "setsubpolicy": 2,
		"plan_add": 1, "param": 1,
		"relay": 40, "relay_hostile": 25,
	}
	return &Profile{Name: "relay", W: w, Providers: 7, Consumers: 4, Delegators: 1, Validators: 2, KeepPools: true, EpochsToSave: 3, EpochBlocks: 6}
}

func relayCheck(t *testing.T, id string, prof func() *Profile, rule string, floor func(n int) int, req func(run *ev.Run)) {
	run := ev.Start(id)
	nHist, nOps := run.Pick(10, 100), run.Pick(700, 2000)
	for h := 0; h < nHist; h++ {
		var rm *RelayMon
		var km *KeyMon
		s := History(t, run, prof(), h, nOps, func(hid string) []Monitor {
			rm = NewRelayMon(run, hid, id)
			mons := []Monitor{rm, &EventCounter{Run: run}}
			if id == "C17" {
				km = &KeyMon{Run: run, Hist: hid}
				mons = append(mons, km)
			}
			return mons
		})
		rm.Report()
		if km != nil {
			run.Count("key_resolution_checks", km.Checks)
			run.Count("keys_resolved_to_a_live_project", km.Resolved)
			run.Count("developer_keys_that_are_also_admin_keys_seen", km.DualKind)
		}
		if h == 0 {
			var rel []string
			for _, l := range s.Log {
				if len(rel) < 25 && (contains(l, "relay")) {
					rel = append(rel, l)
				}
			}
			run.Sample(map[string]any{"history": 0, "first_relay_ops": rel})
		}
	}
	req(run)
	run.Finish(rule, floor(nHist), "failed txs are rolled back as baseapp does; the relay_payment event and the state deltas are both read")
}

func contains(s, sub string) bool {
	for i := 0; i+len(sub) <= len(s); i++ {
		if s[i:i+len(sub)] == sub {
			return true
		}
	}
	return false
}

func TestC03(t *testing.T) {
	relayCheck(t, "C03", profRelay,
		"relay-heavy generated histories with the hostile family (same proof twice in one tx, resubmitted later / next epoch / after memory expiry, re-signed with other CU, mixed txs); ledger keyed by (epoch start, provider, project, chain, session) fed from relay_payment events; a non-trivial case is a duplicate that was rejected while its first copy was credited and its epoch still in memory (distinct ledger keys), plus each distinct accepted key",
		func(n int) int { return 20 * n },
		func(run *ev.Run) {
			run.Require("duplicates rejected while first copy credited", run.Counter("duplicates_rejected_while_first_copy_credited_and_in_memory") > 0)
			run.Require("stale-epoch submissions seen", run.Counter("stale_epoch_rejected") > 0)
			run.Require("same-tx duplicates submitted", run.Counter("tx:relay_dup_same_tx") > 0)
			run.Require("re-signed CU submitted", run.Counter("tx:relay_resigned_cu") > 0)
		})
}

func profRelayTight() *Profile {
	p := profRelay()
	p.Name = "relaytight"
	p.TightCU = true
	p.StaticSpec = true // the per-epoch allowance must hold on static-provider specs too
	p.W["setpolicy"] = 6
	p.W["setsubpolicy"] = 4
	p.W["longblock"] = 4
	return p
}

func TestC04(t *testing.T) {
	relayCheck(t, "C04", profRelayTight,
		"relay-heavy histories with project policies whose total / epoch CU limits lie far below the subscription's, CU sums around and above the limits, QoS reports in [0,1], downtime (long blocks); per accepted relay rewardedCU <= signed CuSum, tracked-CU delta <= rewardedCU, running sum per (epoch, provider, project, chain) <= allowance x downtime factor; distinct non-trivial = distinct accepted session keys",
		func(n int) int { return 20 * n },
		func(run *ev.Run) {
			run.Require("credits cut below the signed CU (limit reached)", run.Counter("credits_cut_below_signed_cu") > 0)
			run.Require("credits with QoS report", run.Counter("credits_with_qos_report") > 0)
			run.Require("epoch sums near the allowance", run.Counter("credits_with_epoch_sum_at_or_above_80pct_of_allowance") > 0)
		})
}

func TestC17(t *testing.T) {
	relayCheck(t, "C17", profRelay,
		"relay-heavy histories with project creation/deletion, developer keys added/removed/re-added across projects and epochs, policy changes that create extra project versions inside a monthly snapshot; after every accepted relay tx the UsedCu delta of every version of the resolved project's snapshot equals the sum of accepted CuSum, other snapshots are untouched, the subscription's MonthCuLeft drops by exactly that (saturating); key ownership (KeyMon): after every key / project tx and every block, at the current block and at the next epoch start, every key the developer registry resolves must resolve to an existing project that lists it as a developer key, no developer key is listed by two live projects, and a listed developer key resolves to the project listing it; distinct non-trivial = distinct accepted session keys",
		func(n int) int { return 20 * n },
		func(run *ev.Run) {
			run.Require("charges visible in several versions of one snapshot", run.Counter("charges_seen_in_several_project_versions") > 0)
			run.Require("keys added", run.Counter("ok:addkeys") > 0)
			run.Require("keys deleted", run.Counter("ok:delkeys") > 0)
			run.Require("projects added", run.Counter("ok:addproject") > 0)
			run.Require("projects deleted", run.Counter("ok:delproject") > 0)
			run.Require("keys resolved to live projects", run.Counter("keys_resolved_to_a_live_project") > 0)
			run.Require("keys holding both the admin and the developer role", run.Counter("developer_keys_that_are_also_admin_keys_seen") > 0)
		})
}

func profBadge() *Profile {
	p := profRelay()
	p.Name = "badge"
	p.W["relay_hostile"] = 50 // badge relays are 2/12 of the hostile family
	p.W["relay"] = 15
	return p
}

func TestC18(t *testing.T) {
	relayCheck(t, "C18", profBadge,
		"badge relays: several sessions / providers / epochs per badge, allocations close to the sum of relays, badge for another address / epoch / lava chain, inflated allocation after signing, reuse after the usage record expired; ledger per (badge signature, provider) from accepted badge relays; distinct non-trivial = distinct (badge, provider, cumulative CU) credits",
		func(n int) int { return 3 * n },
		func(run *ev.Run) {
			run.Require("badge credits", run.Counter("badge_credits") > 0)
			run.Require("badge usage close to allocation", run.Counter("badge_credits_at_or_above_70pct_of_allocation") > 0)
			run.Require("badge relays rejected", run.Counter("badge_relays_rejected") > 0)
		})
}
