//go:build verif

package chainmon

import (
	"context"
	"fmt"
	"testing"

	sdk "github.com/cosmos/cosmos-sdk/types"
	"github.com/lavanet/lava/v5/utils/sigs"
	pairingtypes "github.com/lavanet/lava/v5/x/pairing/types"
	planstypes "github.com/lavanet/lava/v5/x/plans/types"
	projectstypes "github.com/lavanet/lava/v5/x/projects/types"
	subscriptiontypes "github.com/lavanet/lava/v5/x/subscription/types"

	"verif/internal/ev"
)

// validInScratch executes the message in a cache context that is thrown away and tells whether the
// handler accepted it (this is what makes the base message "valid": the mutation is then the only
// reason for a rejection).
func (s *Sim) validInScratch(msg *pairingtypes.MsgRelayPayment) bool {
	if msg.ValidateBasic() != nil {
		return false
	}
	cc, _ := s.TS.Ctx.CacheContext()
	cc = cc.WithEventManager(sdk.NewEventManager())
	snap := bankSnap()
	defer bankRestore(snap)
	ok := false
	func() {
		defer func() { _ = recover() }()
		_, err := s.TS.Servers.PairingServer.RelayPayment(sdk.WrapSDKContext(cc), msg)
		ok = err == nil
	}()
	return ok
}

type c05mut struct {
	name string
	// apply returns the mutated relay list and creator; ok=false when not applicable now
	apply func(s *Sim, base *pairingtypes.RelaySession, dev sigs.Account) (creator string, relays []*pairingtypes.RelaySession, ok bool)
}

func c05Mutations() []c05mut {
	one := func(f func(s *Sim, r *pairingtypes.RelaySession, dev sigs.Account) bool) func(*Sim, *pairingtypes.RelaySession, sigs.Account) (string, []*pairingtypes.RelaySession, bool) {
		return func(s *Sim, base *pairingtypes.RelaySession, dev sigs.Account) (string, []*pairingtypes.RelaySession, bool) {
			r := cloneSession(base)
			if !f(s, r, dev) {
				return "", nil, false
			}
			return r.Provider, []*pairingtypes.RelaySession{r}, true
		}
	}
	resign := func(r *pairingtypes.RelaySession, dev sigs.Account) { signSession(dev, r) }
	return []c05mut{
		{"creator-is-another-provider", func(s *Sim, base *pairingtypes.RelaySession, dev sigs.Account) (string, []*pairingtypes.RelaySession, bool) {
			for _, p := range s.Provs {
				if p.Addr != base.Provider {
					return p.Addr, []*pairingtypes.RelaySession{cloneSession(base)}, true
				}
			}
			return "", nil, false
		}},
		{"wrong-lava-chain-id(resigned)", one(func(s *Sim, r *pairingtypes.RelaySession, d sigs.Account) bool {
			r.LavaChainId = "lava-other"
			resign(r, d)
			return true
		})},
		{"empty-lava-chain-id(resigned)", one(func(s *Sim, r *pairingtypes.RelaySession, d sigs.Account) bool {
			r.LavaChainId = ""
			resign(r, d)
			return true
		})},
		{"future-epoch(resigned)", one(func(s *Sim, r *pairingtypes.RelaySession, d sigs.Account) bool {
			r.Epoch = int64(s.TS.GetNextEpoch())
			resign(r, d)
			return true
		})},
		{"epoch-below-earliest(resigned)", one(func(s *Sim, r *pairingtypes.RelaySession, d sigs.Account) bool {
			e := s.TS.Keepers.Epochstorage.GetEarliestEpochStart(s.TS.Ctx)
			if e < 2 {
				return false
			}
			prev, err := s.TS.Keepers.Epochstorage.GetPreviousEpochStartForBlock(s.TS.Ctx, e)
			if err != nil || prev >= e {
				r.Epoch = int64(e) - 1
			} else {
				r.Epoch = int64(prev)
			}
			resign(r, d)
			return true
		})},
		{"negative-epoch(resigned)", one(func(s *Sim, r *pairingtypes.RelaySession, d sigs.Account) bool {
			r.Epoch = -5
			resign(r, d)
			return true
		})},
		{"unknown-spec(resigned)", one(func(s *Sim, r *pairingtypes.RelaySession, d sigs.Account) bool {
			r.SpecId = "NOSPEC"
			resign(r, d)
			return true
		})},
		{"signed-by-stranger", one(func(s *Sim, r *pairingtypes.RelaySession, d sigs.Account) bool {
			signSession(s.newAccount(1), r)
			return true
		})},
		{"signed-by-provider-itself", one(func(s *Sim, r *pairingtypes.RelaySession, d sigs.Account) bool {
			p := s.provByAddr(r.Provider)
			if p == nil {
				return false
			}
			signSession(p.Acc, r)
			return true
		})},
		{"sig-bytes-flipped", one(func(s *Sim, r *pairingtypes.RelaySession, d sigs.Account) bool { r.Sig[7] ^= 1; return true })},
		{"sig-truncated", one(func(s *Sim, r *pairingtypes.RelaySession, d sigs.Account) bool {
			r.Sig = r.Sig[:len(r.Sig)-1]
			return true
		})},
		{"sig-empty", one(func(s *Sim, r *pairingtypes.RelaySession, d sigs.Account) bool { r.Sig = nil; return true })},
		{"cusum-changed-after-signing", one(func(s *Sim, r *pairingtypes.RelaySession, d sigs.Account) bool { r.CuSum += 1; return true })},
		{"session-id-changed-after-signing", one(func(s *Sim, r *pairingtypes.RelaySession, d sigs.Account) bool { r.SessionId += 1; return true })},
		{"relaynum-changed-after-signing", one(func(s *Sim, r *pairingtypes.RelaySession, d sigs.Account) bool { r.RelayNum += 1; return true })},
		{"content-hash-changed-after-signing", one(func(s *Sim, r *pairingtypes.RelaySession, d sigs.Account) bool {
			r.ContentHash = []byte("zz")
			return true
		})},
		{"qos-added-after-signing", one(func(s *Sim, r *pairingtypes.RelaySession, d sigs.Account) bool {
			r.QosReport = &pairingtypes.QualityOfServiceReport{Latency: sdk.OneDec(), Availability: sdk.OneDec(), Sync: sdk.OneDec()}
			return true
		})},
		{"unresponsive-list-added-after-signing", one(func(s *Sim, r *pairingtypes.RelaySession, d sigs.Account) bool {
			r.UnresponsiveProviders = []*pairingtypes.ReportedProvider{{Address: s.Provs[0].Addr}}
			return true
		})},
		{"provider-not-in-pairing(resigned)", func(s *Sim, base *pairingtypes.RelaySession, dev sigs.Account) (string, []*pairingtypes.RelaySession, bool) {
			paired := map[string]bool{}
			res, err := s.TS.QueryPairingVerifyPairing(base.SpecId, dev.Addr.String(), base.Provider, uint64(base.Epoch))
			_ = res
			_ = err
			for _, p := range s.Provs {
				vr, err := s.TS.QueryPairingVerifyPairing(base.SpecId, dev.Addr.String(), p.Addr, uint64(base.Epoch))
				if err == nil && vr.Valid {
					paired[p.Addr] = true
				}
			}
			for _, p := range s.Provs {
				if !paired[p.Addr] {
					r := cloneSession(base)
					r.Provider = p.Addr
					signSession(dev, r)
					return p.Addr, []*pairingtypes.RelaySession{r}, true
				}
			}
			return "", nil, false
		}},
		{"badge-for-another-address", func(s *Sim, base *pairingtypes.RelaySession, dev sigs.Account) (string, []*pairingtypes.RelaySession, bool) {
			user, other := s.newAccount(1), s.newAccount(1)
			b := pairingtypes.CreateBadge(base.CuSum+100, uint64(base.Epoch), other.Addr, base.LavaChainId, nil)
			sig, _ := sigs.Sign(dev.SK, *b)
			b.ProjectSig = sig
			r := cloneSession(base)
			r.Badge = b
			signSession(user, r)
			return r.Provider, []*pairingtypes.RelaySession{r}, true
		}},
		{"badge-for-another-epoch", func(s *Sim, base *pairingtypes.RelaySession, dev sigs.Account) (string, []*pairingtypes.RelaySession, bool) {
			user := s.newAccount(1)
			b := pairingtypes.CreateBadge(base.CuSum+100, uint64(base.Epoch)+1, user.Addr, base.LavaChainId, nil)
			sig, _ := sigs.Sign(dev.SK, *b)
			b.ProjectSig = sig
			r := cloneSession(base)
			r.Badge = b
			signSession(user, r)
			return r.Provider, []*pairingtypes.RelaySession{r}, true
		}},
		{"badge-for-another-lava-chain", func(s *Sim, base *pairingtypes.RelaySession, dev sigs.Account) (string, []*pairingtypes.RelaySession, bool) {
			user := s.newAccount(1)
			b := pairingtypes.CreateBadge(base.CuSum+100, uint64(base.Epoch), user.Addr, "other", nil)
			sig, _ := sigs.Sign(dev.SK, *b)
			b.ProjectSig = sig
			r := cloneSession(base)
			r.Badge = b
			signSession(user, r)
			return r.Provider, []*pairingtypes.RelaySession{r}, true
		}},
		{"badge-signed-by-stranger", func(s *Sim, base *pairingtypes.RelaySession, dev sigs.Account) (string, []*pairingtypes.RelaySession, bool) {
			user, stranger := s.newAccount(1), s.newAccount(1)
			b := pairingtypes.CreateBadge(base.CuSum+100, uint64(base.Epoch), user.Addr, base.LavaChainId, nil)
			sig, _ := sigs.Sign(stranger.SK, *b)
			b.ProjectSig = sig
			r := cloneSession(base)
			r.Badge = b
			signSession(user, r)
			return r.Provider, []*pairingtypes.RelaySession{r}, true
		}},
		{"badge-allocation-raised-after-signing", func(s *Sim, base *pairingtypes.RelaySession, dev sigs.Account) (string, []*pairingtypes.RelaySession, bool) {
			user := s.newAccount(1)
			b := pairingtypes.CreateBadge(1, uint64(base.Epoch), user.Addr, base.LavaChainId, nil)
			sig, _ := sigs.Sign(dev.SK, *b)
			b.ProjectSig = sig
			b.CuAllocation = base.CuSum + 1000
			r := cloneSession(base)
			r.Badge = b
			signSession(user, r)
			return r.Provider, []*pairingtypes.RelaySession{r}, true
		}},
		{"badge-allocation-too-small", func(s *Sim, base *pairingtypes.RelaySession, dev sigs.Account) (string, []*pairingtypes.RelaySession, bool) {
			if base.CuSum < 2 {
				return "", nil, false
			}
			user := s.newAccount(1)
			b := pairingtypes.CreateBadge(base.CuSum-1, uint64(base.Epoch), user.Addr, base.LavaChainId, nil)
			sig, _ := sigs.Sign(dev.SK, *b)
			b.ProjectSig = sig
			r := cloneSession(base)
			r.Badge = b
			signSession(user, r)
			return r.Provider, []*pairingtypes.RelaySession{r}, true
		}},
	}
}

func TestC05(t *testing.T) {
	run := ev.Start("C05")
	nHist, rounds, basesPerRound := run.Pick(6, 60), run.Pick(8, 20), 3
	muts := c05Mutations()
	hit := map[string]int{}
	for h := 0; h < nHist; h++ {
		prof := profRelay()
		prof.Name = "c05"
		id := fmt.Sprintf("c05/seed=%d/hist=%d", run.Seed, h)
		s := NewSim(t, run.Seed*100003+int64(h), prof)
		s.BuildWorld()
		// world features for the signer-side clauses: a disabled project, a project that will be deleted,
		// and a subscription that will expire
		disabledDev := s.newAccount(1000)
		c0 := s.Cons[0]
		s.Tx("addproject", "disabled project", &subscriptiontypes.MsgAddProject{Creator: c0.Addr, ProjectData: projectstypes.ProjectData{Name: "off", Enabled: false, ProjectKeys: []projectstypes.ProjectKey{projectstypes.ProjectDeveloperKey(disabledDev.Addr.String())}}}, func(ctx context.Context) (any, error) {
			return s.TS.Servers.SubscriptionServer.AddProject(ctx, &subscriptiontypes.MsgAddProject{Creator: c0.Addr, ProjectData: projectstypes.ProjectData{Name: "off", Enabled: false, ProjectKeys: []projectstypes.ProjectKey{projectstypes.ProjectDeveloperKey(disabledDev.Addr.String())}}})
		})
		goneDev := s.newAccount(1000)
		s.Tx("addproject", "project to be deleted", nil, func(ctx context.Context) (any, error) {
			return s.TS.Servers.SubscriptionServer.AddProject(ctx, &subscriptiontypes.MsgAddProject{Creator: c0.Addr, ProjectData: projectstypes.ProjectData{Name: "gone", Enabled: true, ProjectKeys: []projectstypes.ProjectKey{projectstypes.ProjectDeveloperKey(goneDev.Addr.String())}}})
		})
		sibDev := s.newAccount(1000)
		s.Tx("addproject", "sibling project with its own (narrower) pairing", nil, func(ctx context.Context) (any, error) {
			pol := planstypes.Policy{GeolocationProfile: int32(planstypes.Geolocation_GL), TotalCuLimit: 50000, EpochCuLimit: 5000, MaxProvidersToPair: 2}
			return s.TS.Servers.SubscriptionServer.AddProject(ctx, &subscriptiontypes.MsgAddProject{Creator: c0.Addr, ProjectData: projectstypes.ProjectData{Name: "sib", Enabled: true, Policy: &pol, ProjectKeys: []projectstypes.ProjectKey{projectstypes.ProjectDeveloperKey(sibDev.Addr.String())}}})
		})
		s.NextEpoch()
		s.Tx("delproject", "delete project gone", nil, func(ctx context.Context) (any, error) {
			return s.TS.Servers.SubscriptionServer.DelProject(ctx, &subscriptiontypes.MsgDelProject{Creator: c0.Addr, Name: "gone"})
		})
		s.NextEpoch()
		goneFrom := int64(s.TS.EpochStart()) // the deletion is in force from this epoch on; relays of older epochs in memory are legitimate
		s.NextEpoch()
		for rd := 0; rd < rounds; rd++ {
			s.Run(50)
			if s.Halted {
				break
			}
			c05Sibling(s, run, id, c0, sibDev, hit)
			for b := 0; b < basesPerRound; b++ {
				prov, dev, chain, rel, ok := s.honestSessions(1)
				if !ok {
					continue
				}
				base := rel[0]
				if !s.validInScratch(&pairingtypes.MsgRelayPayment{Creator: prov, Relays: []*pairingtypes.RelaySession{base}, DescriptionString: "v"}) {
					run.Count("base_messages_not_valid_now(skipped)", 1)
					continue
				}
				run.Count("valid_base_messages", 1)
				// signer-side clauses use their own signer on the same provider/chain/epoch
				extra := []struct {
					name string
					acc  sigs.Account
				}{{"signer-project-disabled", disabledDev}, {"signer-project-deleted", goneDev}}
				for _, x := range extra {
					if x.name == "signer-project-deleted" && base.Epoch < goneFrom {
						run.Count("deleted-project relays skipped: base epoch older than the deletion", 1)
						continue
					}
					r := cloneSession(base)
					s.session++
					r.SessionId = s.session
					signSession(x.acc, r)
					c05send(s, run, id, x.name, prov, []*pairingtypes.RelaySession{r}, r, hit)
				}
				for _, m := range muts {
					creator, relays, ok := m.apply(s, base, dev)
					if !ok {
						continue
					}
					c05send(s, run, id, m.name, creator, relays, relays[0], hit)
					// mixed tx: the valid base first, then the mutated one; the mutated one must not be credited,
					// and (atomicity) neither may anything else if the tx fails
					if creator == prov && rd%2 == 0 {
						c05send(s, run, id, m.name+"+mixed-with-valid", creator, []*pairingtypes.RelaySession{cloneSession(base), relays[0]}, relays[0], hit)
					}
				}
				_ = chain
				// finally the untouched base must still be accepted (the mutations left no trace)
				res := s.sendRelays("relay", prov, []*pairingtypes.RelaySession{base}, "c05 base after mutations")
				run.Eval(1)
				if !res.OK() {
					run.Violation("valid-relay-rejected-after-mutations", "base message valid in scratch before the battery, rejected after it", fmt.Sprintf("%v", res.Err), map[string]any{"history": id, "log_tail": s.LogTail(40)})
				} else {
					run.Count("base_accepted_after_battery", 1)
				}
			}
		}
		if h == 0 {
			run.Sample(map[string]any{"history": id, "tail": s.LogTail(12)})
		}
	}
	for _, m := range muts {
		run.Require("mutation exercised: "+m.name, hit[m.name] > 0)
	}
	run.Require("mutation exercised: signer-project-disabled", hit["signer-project-disabled"] > 0)
	run.Require("mutation exercised: signer-project-deleted", hit["signer-project-deleted"] > 0)
	run.Require("mutation exercised: "+c05SiblingName, hit[c05SiblingName] > 0)
	run.Finish("metamorphic: for relay messages accepted in a scratch context (so valid now), each single-clause corruption (creator, lava chain id, epoch future/stale/negative, spec, signer = stranger / provider / disabled project / deleted project, signature bytes, every signed field changed after signing, unpaired provider, badge address/epoch/chain/signer/allocation) is delivered through the atomic tx wrapper alone and mixed with the valid relay; the corrupted session must never be credited (no relay_payment event group for it in an accepted tx) and a rejected tx must leave the digest of all 26 stores + bank unchanged; afterwards the untouched base must still be accepted; distinct non-trivial = (mutation kind, base session) pairs rejected", 200,
		"failed txs are rolled back by the driver as baseapp does; the digest comparison therefore checks the driver and the handler together")
}

const c05SiblingName = "provider-paired-for-sibling-project-only(same block, after the sibling's valid relay)"

// c05Sibling: two projects of one subscription with different pairings. In one block the provider first claims a valid
// relay of the project it IS paired with and then a relay signed by the other project's key, in whose pairing it is not.
func c05Sibling(s *Sim, run *ev.Run, id string, c0 *Cons, sibDev sigs.Account, hit map[string]int) {
	for _, chain := range s.Specs {
		a := s.pairedProviders(chain, c0.Addr)              // admin project (the consumer's own key)
		b := s.pairedProviders(chain, sibDev.Addr.String()) // sibling project
		inB := map[string]bool{}
		for _, x := range b {
			inB[x] = true
		}
		if len(b) == 0 {
			continue
		}
		for _, prov := range a {
			if inB[prov] {
				continue
			}
			epoch := int64(s.TS.EpochStart())
			r1 := s.newSession(c0.Acc, prov, chain, epoch, 7)
			signSession(c0.Acc, r1)
			if res := s.sendRelays("relay", prov, []*pairingtypes.RelaySession{r1}, "c05 sibling: valid relay of the paired project"); !res.OK() {
				continue
			}
			r2 := s.newSession(sibDev, prov, chain, epoch, 9)
			signSession(sibDev, r2)
			c05send(s, run, id, c05SiblingName, prov, []*pairingtypes.RelaySession{r2}, r2, hit)
			return
		}
	}
}

func c05send(s *Sim, run *ev.Run, id, name, creator string, relays []*pairingtypes.RelaySession, mutated *pairingtypes.RelaySession, hit map[string]int) {
	before := s.Digest(s.TS.Ctx)
	res := s.sendRelays("relay_c05", creator, relays, name)
	run.Eval(1)
	hit[name]++
	if res.OK() {
		// accepted tx: the corrupted session must not be among the credited ones
		for _, ar := range parseRelayEvents(res.Events) {
			if ar.idx < len(relays) && relays[ar.idx] == mutated {
				run.Violation("corrupted-relay-credited", name, fmt.Sprintf("tx accepted and session %d credited (cu=%d rewarded=%d)", mutated.SessionId, ar.cu, ar.rewarded), map[string]any{"history": id, "mutation": name, "relay": mutated.String(), "log_tail": s.LogTail(30)})
			}
		}
		return
	}
	if after := s.Digest(s.TS.Ctx); after != before {
		run.Violation("rejected-tx-changed-state", name, "digest of stores+bank differs after a rejected relay payment", map[string]any{"history": id, "mutation": name, "log_tail": s.LogTail(30)})
	}
	run.Nontrivial(fmt.Sprintf("%s|%s|%d", id, name, mutated.SessionId))
}
