//go:build verif

package chainmon

import (
	sdk "github.com/cosmos/cosmos-sdk/types"
	testkeeper "github.com/lavanet/lava/v5/testutil/keeper"
)

// Flow is one movement of coins reconstructed from the mock bank's operation log (hook H1b).
type Flow struct {
	Kind   string // "transfer" | "burn" | "mint"
	From   string
	To     string
	Amount sdk.Coins
	// balances of From / To right BEFORE this flow (reconstructed from the pre-step snapshot)
	FromBefore sdk.Coins
	ToBefore   sdk.Coins
	Idx        int
}

// flowsFrom turns the ordered op log into flows: a "sub" immediately followed by an "add" of the same
// coins is a transfer, a lone "sub" a burn, a lone "add" a mint. pre is the bank state before the step.
func flowsFrom(ops []testkeeper.VerifBankOp, pre map[string]sdk.Coins) []Flow {
	bal := map[string]sdk.Coins{}
	get := func(a string) sdk.Coins {
		if b, ok := bal[a]; ok {
			return b
		}
		return pre[a]
	}
	var out []Flow
	for i := 0; i < len(ops); i++ {
		o := ops[i]
		switch o.Op {
		case "sub":
			if i+1 < len(ops) && ops[i+1].Op == "add" && ops[i+1].Amount.IsEqual(o.Amount) {
				n := ops[i+1]
				out = append(out, Flow{Kind: "transfer", From: o.Addr, To: n.Addr, Amount: o.Amount, FromBefore: get(o.Addr), ToBefore: get(n.Addr), Idx: len(out)})
				bal[o.Addr] = safeSub(get(o.Addr), o.Amount)
				bal[n.Addr] = get(n.Addr).Add(n.Amount...)
				i++
			} else {
				out = append(out, Flow{Kind: "burn", From: o.Addr, Amount: o.Amount, FromBefore: get(o.Addr), Idx: len(out)})
				bal[o.Addr] = safeSub(get(o.Addr), o.Amount)
			}
		case "add":
			out = append(out, Flow{Kind: "mint", To: o.Addr, Amount: o.Amount, ToBefore: get(o.Addr), Idx: len(out)})
			bal[o.Addr] = get(o.Addr).Add(o.Amount...)
		}
	}
	return out
}

func safeSub(a, b sdk.Coins) sdk.Coins {
	r, neg := a.SafeSub(b...)
	if neg {
		return sdk.NewCoins()
	}
	return r
}

func modAddr(name string) string { return testkeeper.GetModuleAddress(name).String() }

// FlowRec records flows per step for the monitors that need them.
type FlowRec struct {
	BaseMon
	pre   map[string]sdk.Coins
	Flows []Flow // flows of the step that just finished
}

func (f *FlowRec) begin() {
	f.pre = testkeeper.VerifBankSnapshot()
	testkeeper.VerifBankStartLog()
}
func (f *FlowRec) end() { f.Flows = flowsFrom(testkeeper.VerifBankStopLog(), f.pre) }

func (f *FlowRec) BeforeTx(s *Sim, name string, msg sdk.Msg) { f.begin() }
func (f *FlowRec) AfterTx(s *Sim, r *TxRes)                  { f.end() }
func (f *FlowRec) BeforeBlock(s *Sim)                        { f.begin() }
func (f *FlowRec) AfterBlock(s *Sim, b *BlockRes)            { f.end() }
