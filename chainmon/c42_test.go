//go:build verif

package chainmon

import (
	"fmt"
	"testing"

	sdk "github.com/cosmos/cosmos-sdk/types"
	distributiontypes "github.com/cosmos/cosmos-sdk/x/distribution/types"
	dualstakingtypes "github.com/lavanet/lava/v5/x/dualstaking/types"
	rewardstypes "github.com/lavanet/lava/v5/x/rewards/types"

	"verif/internal/ev"
)

// IprpcMon: C42. Needs a FlowRec before it in the monitor list.
type IprpcMon struct {
	BaseMon
	Run  *ev.Run
	Hist string
	FR   *FlowRec

	preSlack    sdk.Coins
	preSlackNeg bool
	preCur      uint64
	preFunds    map[uint64]map[string]sdk.Coins // id -> spec -> fund
	preCu       map[string]map[string]uint64    // spec -> provider -> iprpc cu

	Months, ServedSpecs, UnservedSpecs, ProvidersPaid, Fundings int
}

func (m *IprpcMon) wit(s *Sim, step int) map[string]any {
	return map[string]any{"history": m.Hist, "seed": s.Seed, "profile": s.prof.Name, "step": step, "log_tail": s.LogTail(25)}
}

func (m *IprpcMon) obligations(s *Sim) (sdk.Coins, map[uint64]map[string]sdk.Coins) {
	ob := sdk.NewCoins()
	by := map[uint64]map[string]sdk.Coins{}
	for _, r := range s.TS.Keepers.Rewards.GetAllIprpcReward(s.TS.Ctx) {
		by[r.Id] = map[string]sdk.Coins{}
		for _, sf := range r.SpecFunds {
			ob = ob.Add(sf.Fund...)
			by[r.Id][sf.Spec] = by[r.Id][sf.Spec].Add(sf.Fund...)
		}
	}
	return ob, by
}

func (m *IprpcMon) snapshot(s *Sim) {
	k := s.TS.Keepers.Rewards
	ob, by := m.obligations(s)
	bal := k.TotalPoolTokens(s.TS.Ctx, rewardstypes.IprpcPoolName)
	m.preSlack, m.preSlackNeg = bal.SafeSub(ob...)
	m.preFunds = by
	m.preCur = k.GetIprpcRewardsCurrentId(s.TS.Ctx)
	m.preCu = map[string]map[string]uint64{}
	for _, bp := range k.GetAllBasePay(s.TS.Ctx) {
		if bp.BasePay.IprpcCu == 0 {
			continue
		}
		// a provider that is no longer staked on the chain at the month boundary cannot be rewarded and the code
		// does not count its CU; the statement does not require otherwise, so neither does the monitor
		if _, staked := s.TS.Keepers.Epochstorage.GetStakeEntryCurrent(s.TS.Ctx, bp.ChainId, bp.Provider); !staked {
			continue
		}
		if m.preCu[bp.ChainId] == nil {
			m.preCu[bp.ChainId] = map[string]uint64{}
		}
		m.preCu[bp.ChainId][bp.Provider] = bp.BasePay.IprpcCu
	}
}

func (m *IprpcMon) BeforeTx(s *Sim, name string, msg sdk.Msg) { m.snapshot(s) }
func (m *IprpcMon) BeforeBlock(s *Sim)                        { m.snapshot(s) }

// slack = pool balance - all promised funds. It may only change by amounts that legitimately stop being
// anybody's: nothing in the statement allows that, so it must stay constant.
func (m *IprpcMon) checkSlack(s *Sim, where, class string, step int) {
	k := s.TS.Keepers.Rewards
	ob, _ := m.obligations(s)
	bal := k.TotalPoolTokens(s.TS.Ctx, rewardstypes.IprpcPoolName)
	slack, neg := bal.SafeSub(ob...)
	if neg {
		m.Run.Violation("iprpc-pool-below-promised-funds", class, fmt.Sprintf("%s: pool %s < promised %s", where, bal, ob), m.wit(s, step))
		return
	}
	if !m.preSlackNeg && !slack.IsEqual(m.preSlack) {
		m.Run.Violation("iprpc-funds-lost-or-unaccounted", class, fmt.Sprintf("%s: pool balance minus promised funds changed %s -> %s (pool %s, promised %s)", where, m.preSlack, slack, bal, ob), m.wit(s, step))
	}
}

func (m *IprpcMon) AfterTx(s *Sim, r *TxRes) {
	if r.Name == "fund_iprpc" && r.OK() {
		m.Fundings++
	}
	m.checkSlack(s, "after tx "+r.Name+" "+r.Desc, "tx:"+r.Name, r.Step)
}

func (m *IprpcMon) AfterBlock(s *Sim, b *BlockRes) {
	if b.Panic != "" {
		return
	}
	ctx := s.TS.Ctx
	ks := s.TS.Keepers
	emitted := len(findEvents(b.EndEvents, rewardstypes.IprpcPoolEmissionEventName)) > 0
	rolled := len(findEvents(b.EndEvents, rewardstypes.TransferIprpcRewardToNextMonthEventName)) > 0
	refill := len(findEvents(b.EndEvents, rewardstypes.DistributionPoolRefillEventName)) > 0
	cls := "block"
	if refill {
		cls = "month-boundary"
	}
	if refill {
		m.Months++
		pool := modAddr(string(rewardstypes.IprpcPoolName))
		dual := modAddr(dualstakingtypes.ModuleName)
		cur := m.preFunds[m.preCur]
		_, after := m.obligations(s)
		// per spec
		for _, spec := range sortedKeys(cur) {
			F := cur[spec]
			cus := m.preCu[spec]
			var total uint64
			for _, c := range cus {
				total += c
			}
			next := m.preFunds[m.preCur+1][spec]
			got := after[m.preCur+1][spec]
			if total == 0 {
				m.UnservedSpecs++
				// nobody served: the whole fund must appear in next month's reward
				if !got.IsEqual(next.Add(F...)) {
					m.Run.Violation("unserved-spec-fund-not-rolled-over", "fund of a spec nobody served is not in next month's IPRPC reward", fmt.Sprintf("block %d spec %s fund %s: next month before %s after %s", b.Height, spec, F, next, got), m.wit(s, b.Step))
				}
				m.Run.Nontrivial(fmt.Sprintf("%s:unserved:%s:%d", m.Hist, spec, b.Height))
				continue
			}
			m.ServedSpecs++
			if !got.IsEqual(next) {
				m.Run.Violation("served-spec-fund-also-rolled-over", "fund of a served spec appears again in next month's reward (paid twice)", fmt.Sprintf("block %d spec %s fund %s: next month before %s after %s", b.Height, spec, F, next, got), m.wit(s, b.Step))
			}
			m.Run.Nontrivial(fmt.Sprintf("%s:served:%s:%d", m.Hist, spec, b.Height))
		}
		// proportional payment: what reached providers (dualstaking module + contributor accounts) from the pool
		// must equal sum over served specs and providers of floor(F' * cu / total)
		want := sdk.NewCoins()
		for _, spec := range sortedKeys(cur) {
			cus := m.preCu[spec]
			var total uint64
			for _, c := range cus {
				total += c
			}
			if total == 0 {
				continue
			}
			fAfterTax := sdk.NewCoins()
			for _, coin := range cur[spec] {
				vp, cp, err := ks.Rewards.CalculateContributionPercentages(ctx, coin.Amount)
				if err != nil {
					continue
				}
				if cp.Equal(sdk.OneDec()) {
					continue
				}
				left := coin.Amount.Sub(vp.MulInt(coin.Amount).TruncateInt()).Sub(cp.MulInt(coin.Amount).TruncateInt())
				fAfterTax = fAfterTax.Add(sdk.NewCoin(coin.Denom, left))
			}
			for _, p := range sortedKeysU(cus) {
				// only providers that can be rewarded (metadata exists) are paid; the others' share stays as leftover
				if _, err := ks.Epochstorage.GetMetadata(ctx, p); err != nil {
					continue
				}
				m.ProvidersPaid++
				want = want.Add(fAfterTax.MulInt(sdk.NewIntFromUint64(cus[p])).QuoInt(sdk.NewIntFromUint64(total))...)
			}
		}
		paid := sdk.NewCoins()
		comm := modAddr(distributiontypes.ModuleName)
		for _, f := range m.FR.Flows {
			if f.Kind == "transfer" && f.From == pool && f.To != comm && f.To != modAddr(string(rewardstypes.ValidatorsRewardsDistributionPoolName)) && f.To != modAddr(string(rewardstypes.ValidatorsRewardsLeftOverPoolName)) {
				paid = paid.Add(f.Amount...)
			}
		}
		_ = dual
		// participation percentages are recomputed here after the block; a different truncation moves at most one
		// token per served (spec, denomination)
		tol := int64(0)
		for _, spec := range sortedKeys(cur) {
			tol += int64(len(cur[spec]))
		}
		diffOK := true
		for _, d := range []string{s.Denom} {
			if paid.AmountOf(d).Sub(want.AmountOf(d)).Abs().GT(sdk.NewInt(tol)) {
				diffOK = false
			}
		}
		if emitted && !diffOK {
			m.Run.Violation("iprpc-payment-not-proportional", "sum paid to providers != sum of floor(fund after participation x cu / total cu)", fmt.Sprintf("block %d: paid %s expected %s (current month id %d)", b.Height, paid, want, m.preCur), m.wit(s, b.Step))
		}
		_ = rolled
	}
	m.checkSlack(s, fmt.Sprintf("after block %d", b.Height), cls, b.Step)
}

func profIprpc() *Profile {
	w := map[string]int{
		"block": 15, "epoch": 10, "longblock": 10, "month": 10,
		"buy": 6, "relay": 40, "fund_iprpc": 8, "iprpc_data": 4, "stake": 2, "unstake": 2, "ds_delegate": 2,
	}
	return &Profile{Name: "iprpc", W: w, Providers: 6, Consumers: 4, Delegators: 2, Validators: 2, KeepPools: true, EpochsToSave: 2, EpochBlocks: 5}
}

func TestC42(t *testing.T) {
	run := ev.Start("C42")
	nHist, nOps := run.Pick(10, 120), run.Pick(800, 2000)
	for h := 0; h < nHist; h++ {
		var im *IprpcMon
		s := History(t, run, profIprpc(), h, nOps, func(id string) []Monitor {
			fr := &FlowRec{}
			im = &IprpcMon{Run: run, Hist: id, FR: fr}
			return []Monitor{fr, im, &EventCounter{Run: run}}
		})
		run.Count("month_boundaries", im.Months)
		run.Count("served_spec_months", im.ServedSpecs)
		run.Count("unserved_spec_months", im.UnservedSpecs)
		run.Count("provider_shares_expected", im.ProvidersPaid)
		run.Count("fundings", im.Fundings)
		if h == 0 {
			run.Sample(map[string]any{"history": 0, "tail": s.LogTail(10)})
		}
	}
	run.Require("fundings", run.Counter("fundings") > 5)
	run.Require("served spec months", run.Counter("served_spec_months") > 0)
	run.Require("unserved spec months", run.Counter("unserved_spec_months") > 0)
	run.Finish("histories with IPRPC fundings of 1-4 months over three specs, IPRPC-eligible and regular subscriptions, relays across specs, months nobody served, providers unstaking before month end; at every step pool balance minus all promised funds must stay constant (nothing lost, nothing paid twice); at each month boundary: an unserved spec's fund appears in next month's reward, a served spec's fund does not, and what left the pool towards providers (bank flow log) equals the sum of floor(fund after validators / community participation x cu / total cu) over the providers that can be rewarded; distinct non-trivial = (spec, month) cases", 10,
		"per-provider IPRPC CU is read from the rewards keeper's base-pay records before the boundary (how CU is aggregated is not part of this property)")
}
