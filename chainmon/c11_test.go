//go:build verif

package chainmon

import (
	"fmt"
	"regexp"
	"sort"
	"strconv"
	"strings"
	"testing"

	sdk "github.com/cosmos/cosmos-sdk/types"
	rewardstypes "github.com/lavanet/lava/v5/x/rewards/types"
	subscriptiontypes "github.com/lavanet/lava/v5/x/subscription/types"

	"verif/internal/ev"
)

type dueTimer struct {
	consumer string
	expiry   uint64
	subBlock uint64
	credit   sdk.Int
	cus      map[string]uint64 // "provider chain" -> cu
	total    uint64
	// subscription (latest version) before the block
	subFound  bool
	subCredit sdk.Int
}

// PayoutMon: C11. Needs a FlowRec before it in the monitor list.
type PayoutMon struct {
	BaseMon
	Run  *ev.Run
	Hist string
	FR   *FlowRec
	due  []dueTimer
	paid map[string]int // (sub,provider,chain,subBlock) -> block height it was paid at

	Payouts, ZeroCuMonths, ZeroCuGone, Capped, ProvidersPaid, ListDiffers int
}

func (m *PayoutMon) wit(s *Sim, step int) map[string]any {
	return map[string]any{"history": m.Hist, "seed": s.Seed, "profile": s.prof.Name, "step": step, "log_tail": s.LogTail(25)}
}

func (m *PayoutMon) BeforeBlock(s *Sim) {
	ctx := s.TS.Ctx
	ks := s.TS.Keepers
	m.due = nil
	h := uint64(ctx.BlockHeight()) // EndBlock of the current block runs with this height
	gs := ks.Subscription.ExportCuTrackerTimers(ctx)
	raw := ks.Subscription.ExportCuTrackers(ctx)
	for _, e := range gs.BlockEntries {
		if e.Value > h {
			continue
		}
		var td subscriptiontypes.CuTrackerTimerData
		if err := td.Unmarshal(e.Data); err != nil {
			continue
		}
		d := dueTimer{consumer: e.Key, expiry: e.Value, subBlock: td.Block, credit: td.Credit.Amount, cus: map[string]uint64{}}
		// the tracked CU of that month is read from the raw tracker store (every stored version of every index of the
		// consumer whose version block is the month's subscription block and that is not deleted), not through the
		// lookup the payout itself uses
		for _, ge := range raw.Entries {
			sub, prov, chain := subscriptiontypes.DecodeCuTrackerKey(ge.Index)
			if sub != e.Key {
				continue
			}
			for _, re := range ge.Entries {
				if re.Block != td.Block || re.DeleteAt <= h {
					continue
				}
				var tc subscriptiontypes.TrackedCu
				if err := tc.Unmarshal(re.Data); err != nil {
					continue
				}
				d.cus[prov+" "+chain] = tc.Cu
				d.total += tc.Cu
			}
		}
		list, total := ks.Subscription.GetSubTrackedCuInfo(ctx, e.Key, td.Block)
		same := total == d.total && len(list) == len(d.cus)
		for _, x := range list {
			if d.cus[x.Provider+" "+x.ChainID] != x.TrackedCu {
				same = false
			}
		}
		if !same {
			m.ListDiffers++
		}
		next := ks.Epochstorage.GetCurrentNextEpoch(ctx)
		if sub, _, found := ks.Subscription.GetSubscriptionForBlock(ctx, e.Key, next); found {
			d.subFound, d.subCredit = true, sub.Credit.Amount
		}
		m.due = append(m.due, d)
	}
	sort.Slice(m.due, func(i, j int) bool {
		if m.due[i].expiry != m.due[j].expiry {
			return m.due[i].expiry < m.due[j].expiry
		}
		return m.due[i].consumer < m.due[j].consumer
	})
}

var cuRewardRe = regexp.MustCompile(`^cu: (\d+) reward: (.*)$`)

func (m *PayoutMon) AfterBlock(s *Sim, b *BlockRes) {
	if b.Panic != "" || len(m.due) == 0 {
		return
	}
	if m.paid == nil {
		m.paid = map[string]int{}
	}
	ctx := s.TS.Ctx
	ks := s.TS.Keepers
	subMod := modAddr(subscriptiontypes.ModuleName)
	// (1) aggregate bound: everything that left the subscription module in this block's EndBlock <= sum of due credits.
	// BeginBlock of the next block does not pay from the subscription module (renewals pay INTO it).
	out := sdk.ZeroInt()
	for _, f := range m.FR.Flows {
		if (f.Kind == "transfer" || f.Kind == "burn") && f.From == subMod {
			out = out.Add(f.Amount.AmountOf(s.Denom))
		}
	}
	credits := sdk.ZeroInt()
	for _, d := range m.due {
		credits = credits.Add(d.credit)
	}
	if out.GT(credits) {
		m.Run.Violation("payout-exceeds-month-credit", "subscription module outflow in the payout block > sum of the month credits due", fmt.Sprintf("block %d: outflow %s, credits due %s (%d timers)", b.Height, out, credits, len(m.due)), m.wit(s, b.Step))
	}
	events := findEvents(b.EndEvents, subscriptiontypes.SubscriptionPayoutEventName)
	evBySub := map[string]sdk.Event{}
	for _, e := range events {
		if c, ok := evAttr(e, "subscription"); ok {
			if _, dup := evBySub[c]; dup {
				// two payouts of one consumer in one block are possible (two timers); keyed handling below uses order
				continue
			}
			evBySub[c] = e
		}
	}
	for _, d := range m.due {
		if d.total == 0 || len(d.cus) == 0 {
			// zero-CU month: credit goes back to the subscription, or to the validators pool if it is gone
			m.ZeroCuMonths++
			next := ks.Epochstorage.GetCurrentNextEpoch(ctx)
			sub, _, found := ks.Subscription.GetSubscriptionForBlock(ctx, d.consumer, next)
			toVal := sdk.ZeroInt()
			vd := modAddr(string(rewardstypes.ValidatorsRewardsDistributionPoolName))
			for _, f := range m.FR.Flows {
				if f.Kind == "transfer" && f.From == subMod && f.To == vd {
					toVal = toVal.Add(f.Amount.AmountOf(s.Denom))
				}
			}
			if d.credit.IsZero() {
				continue
			}
			if found && d.subFound {
				// other things may have changed the credit in the same block (month expiry moves credit into a new
				// timer): only require that the credit did not vanish: credit after >= credit before is not guaranteed;
				// judge only when no subscription timer of this consumer fired in this block
				if !subTimerFired(b, d.consumer) && len(m.dueOf(d.consumer)) == 1 && !sub.Credit.Amount.Equal(d.subCredit.Add(d.credit)) && toVal.LT(d.credit) {
					m.Run.Violation("zero-cu-credit-lost", "month without tracked CU: credit neither returned to the subscription nor sent to the validators pool", fmt.Sprintf("block %d consumer %s credit %s: subscription credit %s -> %s, sent to validators pool %s", b.Height, d.consumer, d.credit, d.subCredit, sub.Credit.Amount, toVal), m.wit(s, b.Step))
				}
			} else if !found && !d.subFound {
				m.ZeroCuGone++
				if toVal.LT(d.credit) && len(m.due) == 1 {
					m.Run.Violation("zero-cu-credit-lost", "month without tracked CU and subscription gone: credit not sent to the validators pool", fmt.Sprintf("block %d consumer %s credit %s, sent to validators pool %s", b.Height, d.consumer, d.credit, toVal), m.wit(s, b.Step))
				}
			}
			m.Run.Nontrivial(fmt.Sprintf("%s:zerocu:%s:%d", m.Hist, d.consumer, b.Height))
			continue
		}
		m.Payouts++
		e, ok := evBySub[d.consumer]
		if !ok {
			m.Run.Violation("payout-event-missing", "timer with tracked CU fired but no subscription_payout event", fmt.Sprintf("block %d consumer %s", b.Height, d.consumer), m.wit(s, b.Step))
			continue
		}
		T := d.credit
		capAmt := sdk.NewIntFromUint64(d.total).MulRaw(100)
		if T.Quo(sdk.NewIntFromUint64(d.total)).GT(sdk.NewInt(100)) {
			T = capAmt
			m.Capped++
		}
		wantTotal := sdk.ZeroInt()
		for _, k := range sortedKeysU(d.cus) {
			gross := T.Mul(sdk.NewIntFromUint64(d.cus[k])).Quo(sdk.NewIntFromUint64(d.total))
			wantTotal = wantTotal.Add(gross)
			// paid at most once
			pk := fmt.Sprintf("%s|%s|%d", d.consumer, k, d.subBlock)
			if prev, dup := m.paid[pk]; dup {
				m.Run.Violation("tracked-cu-paid-twice", "same (subscription, provider, chain, month) paid in two payouts", fmt.Sprintf("block %d key %s first paid at block %d", b.Height, pk, prev), m.wit(s, b.Step))
			}
			m.paid[pk] = int(b.Height)
			if val, ok := evAttr(e, k); ok {
				mm := cuRewardRe.FindStringSubmatch(val)
				if mm != nil {
					m.ProvidersPaid++
					cu, _ := strconv.ParseUint(mm[1], 10, 64)
					if cu != d.cus[k] {
						m.Run.Violation("payout-cu-differs-from-tracked", "CU in the payout event != tracked CU before the block", fmt.Sprintf("block %d %s: event %d tracked %d", b.Height, k, cu, d.cus[k]), m.wit(s, b.Step))
					}
					prov := coinsAmount(mm[2], s.Denom)
					dels := sdk.ZeroInt()
					if dv, ok := evAttr(e, k+"_delegators"); ok {
						dels = coinsAmount(dv, s.Denom)
					}
					net := prov.Add(dels)
					if net.GT(gross) {
						m.Run.Violation("provider-share-above-proportional", "provider + delegators reward > floor(min(credit, 100*totalCU)*cu/totalCU)", fmt.Sprintf("block %d %s: paid %s, proportional share %s (credit %s cu %d/%d)", b.Height, k, net, gross, d.credit, d.cus[k], d.total), m.wit(s, b.Step))
					}
					vp, cp, err := ks.Rewards.CalculateContributionPercentages(ctx, gross)
					if err == nil {
						fees := vp.MulInt(gross).TruncateInt().Add(cp.MulInt(gross).TruncateInt())
						chain := k[strings.Index(k, " ")+1:]
						_, part := ks.Spec.GetContributorReward(ctx, chain)
						if part.IsZero() && !net.Equal(gross.Sub(fees)) {
							m.Run.Violation("provider-share-not-proportional", "provider + delegators reward != proportional share minus participation", fmt.Sprintf("block %d %s: paid %s, share %s - fees %s = %s", b.Height, k, net, gross, fees, gross.Sub(fees)), m.wit(s, b.Step))
						}
					}
				}
			}
		}
		for _, a := range e.Attributes {
			if mm := cuRewardRe.FindStringSubmatch(a.Value); mm != nil {
				if _, tracked := d.cus[a.Key]; !tracked {
					m.Run.Violation("paid-without-tracked-cu-in-that-month", "payout pays a (provider, chain) that has no tracked CU in the month being paid", fmt.Sprintf("block %d consumer %s month (sub block) %d: %s -> %s; tracked that month: %v", b.Height, d.consumer, d.subBlock, a.Key, a.Value, d.cus), m.wit(s, b.Step))
				}
			}
		}
		if tr, ok := evAttr(e, "total_rewards"); ok {
			got, okk := sdk.NewIntFromString(tr)
			if okk && !got.Equal(wantTotal) {
				m.Run.Violation("total-rewards-not-proportional", "total_rewards != sum of floor shares", fmt.Sprintf("block %d consumer %s: event %s, expected %s", b.Height, d.consumer, got, wantTotal), m.wit(s, b.Step))
			}
		}
		m.Run.Nontrivial(fmt.Sprintf("%s:payout:%s:%d", m.Hist, d.consumer, b.Height))
	}
}

func (m *PayoutMon) dueOf(c string) []dueTimer {
	var out []dueTimer
	for _, d := range m.due {
		if d.consumer == c {
			out = append(out, d)
		}
	}
	return out
}

func subTimerFired(b *BlockRes, consumer string) bool {
	for _, e := range b.BeginEvents {
		if strings.Contains(e.Type, "subscription") {
			if c, ok := evAttr(e, "consumer"); ok && c == consumer {
				return true
			}
		}
	}
	return false
}

func sortedKeysU(m map[string]uint64) []string {
	out := make([]string, 0, len(m))
	for k := range m {
		out = append(out, k)
	}
	sort.Strings(out)
	return out
}

func coinsAmount(s string, denom string) sdk.Int {
	c, err := sdk.ParseCoinsNormalized(s)
	if err != nil {
		return sdk.ZeroInt()
	}
	return c.AmountOf(denom)
}

func TestC11(t *testing.T) {
	run := ev.Start("C11")
	nHist, nOps := run.Pick(10, 120), run.Pick(700, 2000)
	for h := 0; h < nHist; h++ {
		var pm *PayoutMon
		s := History(t, run, profPools(), h, nOps, func(id string) []Monitor {
			fr := &FlowRec{}
			pm = &PayoutMon{Run: run, Hist: id, FR: fr}
			return []Monitor{fr, pm, &EventCounter{Run: run}}
		})
		run.Count("payouts_with_tracked_cu", pm.Payouts)
		run.Count("zero_cu_months", pm.ZeroCuMonths)
		run.Count("zero_cu_months_subscription_gone", pm.ZeroCuGone)
		run.Count("payouts_capped_by_per_cu_limit", pm.Capped)
		run.Count("provider_shares_checked", pm.ProvidersPaid)
		run.Count("due_lists_where_the_keeper_lookup_differs_from_the_raw_store", pm.ListDiffers)
		if h == 0 {
			run.Sample(map[string]any{"history": 0, "tail": s.LogTail(10)})
		}
	}
	run.Require("payouts with tracked CU", run.Counter("payouts_with_tracked_cu") > 5)
	run.Require("zero-CU months", run.Counter("zero_cu_months") > 0)
	run.Require("provider shares checked", run.Counter("provider_shares_checked") > 5)
	run.Finish("histories with subscriptions, relays to several providers / chains per subscription, upgrades and expiries inside the payout window; before each block the cu-tracker timers due in its EndBlock are snapshotted together with the tracked CU of their month, read from the raw tracker store (versions whose block is the month's subscription block); after it: subscription-module outflow (bank flow log) <= sum of the credits due, each provider's reward + delegators part <= floor(min(credit, 100*totalCU)*cu/totalCU) and == that minus the validators / community participation when the spec has no contributors, total_rewards == sum of floor shares, a (subscription, provider, chain, month) key is paid at most once, a zero-CU month returns its credit to the subscription or the validators pool; distinct non-trivial = payouts and zero-CU months judged", 20,
		"participation percentages are read from the keeper after the block (parameters do not change inside the payout)")
}
