//go:build verif

package chainmon

import (
	"fmt"
	"strings"

	sdk "github.com/cosmos/cosmos-sdk/types"
	epochstoragetypes "github.com/lavanet/lava/v5/x/epochstorage/types"
	pairingtypes "github.com/lavanet/lava/v5/x/pairing/types"
	planstypes "github.com/lavanet/lava/v5/x/plans/types"

	"verif/internal/ev"
)

// PairingMon: C02 (pairing lists valid, distinct, bounded; GetPairing <=> VerifyPairing) and the
// pairing part of C01 (R repeated queries in the same block must be identical).
type PairingMon struct {
	BaseMon
	Run    *ev.Run
	Hist   string
	Prop   string
	Repeat int // C01: number of repetitions per query
	Every  int // check after every n-th tx in addition to epoch starts (0 = epoch starts only)
	txs    int

	Lists, Exclusive, MixMode, AddonReq, Truncated, AllReturned, VerifyCalls, NotEligibleSeen, RepeatQueries int
}

func (m *PairingMon) v(prop, rule, sig, desc string, s *Sim, step int) {
	if prop != m.Prop {
		return
	}
	m.Run.Violation(rule, sig, desc, map[string]any{"history": m.Hist, "seed": s.Seed, "profile": s.prof.Name, "step": step, "log_tail": s.LogTail(30)})
}

func supportsRequirement(e epochstoragetypes.StakeEntry, req planstypes.ChainRequirement) bool {
	need := map[string]bool{}
	for _, x := range req.Extensions {
		need[x] = true
	}
	// some single endpoint set of services must offer (interface, addon) with all required extensions
	got := map[string]bool{}
	for _, svc := range e.GetSupportedServices() {
		ok := svc.ApiInterface == req.Collection.ApiInterface && svc.Addon == req.Collection.AddOn
		okOptional := svc.ApiInterface == req.Collection.ApiInterface && req.Collection.AddOn == svc.ApiInterface && svc.Addon == ""
		if ok || okOptional {
			if len(need) == 0 {
				return true
			}
			if need[svc.Extension] {
				got[svc.Extension] = true
			}
		}
	}
	return len(need) > 0 && len(got) == len(need)
}

func (m *PairingMon) check(s *Sim, where string, step int) {
	ctx := s.TS.Ctx
	ks := s.TS.Keepers
	epoch := ks.Epochstorage.GetEpochStart(ctx)
	fullReps := 0 // at most 8 fully repeated queries per check point
	for _, c := range s.Cons {
		clients := []string{c.Addr}
		for _, d := range c.Devs {
			clients = append(clients, d.Addr.String())
		}
		for _, client := range clients {
			acc, _ := sdk.AccAddressFromBech32(client)
			for _, chain := range s.Specs {
				res, err := ks.Pairing.GetPairing(sdk.WrapSDKContext(ctx), &pairingtypes.QueryGetPairingRequest{ChainID: chain, Client: client})
				if err != nil {
					continue
				}
				m.Lists++
				var list []string
				for _, p := range res.Providers {
					list = append(list, p.Address)
				}
				// ---- C01: repeated queries are identical (full repetition count where policies carry requirements or
				// selected-provider lists - the map-order sensitive paths - and a few repetitions elsewhere)
				if m.Repeat > 0 {
					reps := 4
					if pj, err := ks.Pairing.GetProjectData(ctx, acc, chain, uint64(ctx.BlockHeight())); err == nil {
						if sp, _, err := ks.Pairing.GetProjectStrictestPolicy(ctx, pj, chain, uint64(ctx.BlockHeight())); err == nil {
							if (sp.SelectedProvidersMode != planstypes.SELECTED_PROVIDERS_MODE_ALLOWED || (len(sp.ChainPolicies) > 0 && len(sp.ChainPolicies[0].Requirements) > 0)) && fullReps < 8 {
								reps = m.Repeat
								fullReps++
							}
						}
					}
					for r := 0; r < reps; r++ {
						m.RepeatQueries++
						res2, err2 := ks.Pairing.GetPairing(sdk.WrapSDKContext(ctx), &pairingtypes.QueryGetPairingRequest{ChainID: chain, Client: client})
						var l2 []string
						if err2 == nil {
							for _, p := range res2.Providers {
								l2 = append(l2, p.Address)
							}
						}
						if err2 != nil || strings.Join(l2, ",") != strings.Join(list, ",") {
							m.v("C01", "pairing-query-not-deterministic", "same GetPairing query in the same block gives different lists", fmt.Sprintf("%s: client %s chain %s: %v vs %v (err %v) at repetition %d", where, client, chain, shortAll(list), shortAll(l2), err2, r), s, step)
							break
						}
					}
				}
				proj, err := ks.Pairing.GetProjectData(ctx, acc, chain, uint64(ctx.BlockHeight()))
				if err != nil {
					continue
				}
				pol, _, err := ks.Pairing.GetProjectStrictestPolicy(ctx, proj, chain, uint64(ctx.BlockHeight()))
				if err != nil {
					continue
				}
				entries := ks.Epochstorage.GetAllStakeEntriesForEpochChainId(ctx, epoch, chain)
				byAddr := map[string]epochstoragetypes.StakeEntry{}
				for _, e := range entries {
					byAddr[e.Address] = e
				}
				// mandatory requirements (a requirement list with any Mixed member turns the add-on filter into a non-mandatory mix filter)
				var reqs []planstypes.ChainRequirement
				anyMixed := false
				if len(pol.ChainPolicies) > 0 {
					for _, r := range pol.ChainPolicies[0].Requirements {
						if r.Collection.AddOn != "" || len(r.Extensions) > 0 {
							reqs = append(reqs, r)
						}
						if r.Mixed {
							anyMixed = true
						}
					}
				}
				exclusive := pol.SelectedProvidersMode == planstypes.SELECTED_PROVIDERS_MODE_EXCLUSIVE
				mixedSel := pol.SelectedProvidersMode == planstypes.SELECTED_PROVIDERS_MODE_MIXED
				sel := map[string]bool{}
				for _, a := range pol.SelectedProviders {
					sel[a] = true
				}
				eligible := map[string]bool{}
				for _, e := range entries {
					if e.StakeAppliedBlock > epoch {
						continue
					}
					if exclusive && !sel[e.Address] {
						continue
					}
					ok := true
					if !anyMixed {
						for _, r := range reqs {
							if !supportsRequirement(e, r) {
								ok = false
								break
							}
						}
					}
					if ok {
						eligible[e.Address] = true
					}
				}
				if exclusive {
					m.Exclusive++
				}
				if len(reqs) > 0 && !anyMixed {
					m.AddonReq++
				}
				mix := anyMixed && len(reqs) > 0 || mixedSel
				if mix {
					m.MixMode++
				}
				seen := map[string]bool{}
				for _, a := range list {
					if seen[a] {
						m.v("C02", "duplicate-provider-in-pairing", "pairing list has a duplicate address", fmt.Sprintf("%s: client %s chain %s list %v", where, client, chain, shortAll(list)), s, step)
					}
					seen[a] = true
					e, inSnap := byAddr[a]
					switch {
					case !inSnap:
						m.v("C02", "paired-provider-not-in-epoch-snapshot", "pairing member has no stake entry in the epoch snapshot", fmt.Sprintf("%s: client %s chain %s provider %s epoch %d", where, client, chain, a, epoch), s, step)
					case e.StakeAppliedBlock > epoch:
						m.v("C02", "paired-provider-stake-not-applied", "pairing member's stake is not applied at the epoch (frozen / just staked)", fmt.Sprintf("%s: client %s chain %s provider %s applied %d epoch %d", where, client, chain, a, e.StakeAppliedBlock, epoch), s, step)
					case !eligible[a]:
						why := "missing a mandatory add-on / extension"
						if exclusive && !sel[a] {
							why = "outside the EXCLUSIVE selected-providers list"
						}
						m.v("C02", "paired-provider-misses-mandatory-requirement", why, fmt.Sprintf("%s: client %s chain %s provider %s policy %s", where, client, chain, a, polStr(pol)), s, step)
					}
				}
				want := int(pol.MaxProvidersToPair)
				if len(eligible) < want {
					want = len(eligible)
					m.AllReturned++
				} else if len(eligible) > want {
					m.Truncated++
				}
				if !mix && len(list) != want {
					m.v("C02", "pairing-list-wrong-length", fmt.Sprintf("exclusive=%v addon-requirements=%v", exclusive, len(reqs) > 0), fmt.Sprintf("%s: client %s chain %s: %d providers, expected min(max=%d, eligible=%d)=%d; list %v", where, client, chain, len(list), pol.MaxProvidersToPair, len(eligible), want, shortAll(list)), s, step)
				}
				if mix && len(list) > want {
					m.v("C02", "pairing-list-too-long", "mix mode", fmt.Sprintf("%s: client %s chain %s: %d providers > min(max, eligible)=%d", where, client, chain, len(list), want), s, step)
				}
				// GetPairing <=> VerifyPairing for every provider known on the chain
				for _, e := range entries {
					if !eligible[e.Address] {
						m.NotEligibleSeen++
					}
					m.VerifyCalls++
					vr, verr := ks.Pairing.VerifyPairing(sdk.WrapSDKContext(ctx), &pairingtypes.QueryVerifyPairingRequest{ChainID: chain, Client: client, Provider: e.Address, Block: epoch})
					valid := verr == nil && vr != nil && vr.Valid
					if valid != seen[e.Address] {
						m.v("C02", "getpairing-verifypairing-disagree", fmt.Sprintf("in-list=%v verify-valid=%v", seen[e.Address], valid), fmt.Sprintf("%s: client %s chain %s provider %s epoch %d (verify err: %v)", where, client, chain, e.Address, epoch, verr), s, step)
					}
				}
				m.Run.Nontrivial(fmt.Sprintf("%s|%d|%s|%s", m.Hist, epoch, short(client), chain))
			}
		}
	}
}

func shortAll(l []string) []string {
	out := make([]string, len(l))
	for i, a := range l {
		out[i] = short(a)
	}
	return out
}

func (m *PairingMon) AfterTx(s *Sim, r *TxRes) {
	if m.Every == 0 || !r.OK() {
		return
	}
	switch r.Name {
	case "stake", "unstake", "freeze", "unfreeze", "setpolicy", "setsubpolicy", "addkeys", "delkeys", "addproject", "buy":
		m.txs++
		if m.txs%m.Every == 0 {
			m.check(s, "after tx "+r.Name+" "+r.Desc, r.Step)
		}
	}
}

func (m *PairingMon) AfterBlock(s *Sim, b *BlockRes) {
	if b.Panic == "" && b.EpochStart {
		m.check(s, fmt.Sprintf("at epoch start %d", b.Height), b.Step)
	}
}

func (m *PairingMon) Report() {
	for k, v := range map[string]int{"pairing_lists_checked": m.Lists, "lists_under_exclusive_mode": m.Exclusive, "lists_under_mix_mode": m.MixMode, "lists_with_mandatory_addon_or_extension": m.AddonReq,
		"lists_truncated_to_max_providers": m.Truncated, "lists_returning_all_eligible": m.AllReturned, "verify_pairing_calls": m.VerifyCalls, "ineligible_providers_probed": m.NotEligibleSeen, "repeated_queries": m.RepeatQueries} {
		m.Run.Count(k, v)
	}
}
