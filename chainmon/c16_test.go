//go:build verif

package chainmon

import (
	"fmt"
	"sort"
	"strings"
	"testing"

	"verif/internal/ev"
)

// EpochMon: C16.
type EpochMon struct {
	BaseMon
	Run                          *ev.Run
	Hist                         string
	Full                         bool              // query every block in memory (thorough) instead of a sample
	starts                       []uint64          // observed epoch-start blocks, ascending
	window                       map[uint64]uint64 // epoch start -> blocks-to-save in force when it started
	lastEarliest                 uint64
	Queries, Drops, ParamChanges int
}

func (m *EpochMon) wit(s *Sim, step int) map[string]any {
	return map[string]any{"history": m.Hist, "seed": s.Seed, "profile": s.prof.Name, "step": step, "observed_starts_tail": tailU(m.starts, 12), "log_tail": s.LogTail(25)}
}

func tailU(x []uint64, n int) []uint64 {
	if len(x) > n {
		return x[len(x)-n:]
	}
	return x
}

func (m *EpochMon) AfterTx(s *Sim, r *TxRes) {
	if r.Name == "param" && r.OK() {
		m.ParamChanges++
	}
}

func (m *EpochMon) AfterBlock(s *Sim, b *BlockRes) {
	if b.Panic != "" {
		// epoch bookkeeping that cannot find the epoch / window of a block it still keeps panics inside the epochstorage
		// keeper: the mapping clause is broken right there (the halted chain cannot be queried any more)
		if fr := lavaFrames(b.Stack); len(fr) > 0 && strings.HasPrefix(fr[0], "x/epochstorage/keeper") {
			m.Run.Violation("epoch-bookkeeping-panicked", panicSignature(b.Phase, b.Stack), fmt.Sprintf("block %d: %s", b.Height, oneline(b.Panic)), m.wit(s, b.Step))
		}
		return
	}
	ctx := s.TS.Ctx
	k := s.TS.Keepers.Epochstorage
	h := uint64(b.Height)
	observed := len(findEvents(b.BeginEvents, "new_epoch")) > 0
	if observed != k.IsEpochStart(ctx) {
		m.Run.Violation("epoch-start-report-differs-from-processing", fmt.Sprintf("event=%v IsEpochStart=%v", observed, k.IsEpochStart(ctx)), fmt.Sprintf("block %d", h), m.wit(s, b.Step))
	}
	if observed {
		m.starts = append(m.starts, h)
		if m.window == nil {
			m.window = map[uint64]uint64{}
		}
		if w, err := k.BlocksToSave(ctx, h); err == nil {
			m.window[h] = w
		}
	}
	if len(m.starts) == 0 {
		return
	}
	earliest := k.GetEarliestEpochStart(ctx)
	if earliest < m.lastEarliest {
		m.Run.Violation("earliest-epoch-moved-backwards", "EarliestEpochStart decreased", fmt.Sprintf("block %d: %d -> %d", h, m.lastEarliest, earliest), m.wit(s, b.Step))
	}
	if earliest > m.lastEarliest && m.lastEarliest != 0 {
		for _, e := range m.starts {
			if e >= m.lastEarliest && e < earliest {
				m.Drops++
				if w, ok := m.window[e]; ok && h-e < w {
					m.Run.Violation("epoch-dropped-too-young", "epoch left memory while younger than the blocks-to-save window in force when it started", fmt.Sprintf("block %d: epoch %d dropped at age %d < window %d (earliest %d -> %d)", h, e, h-e, w, m.lastEarliest, earliest), m.wit(s, b.Step))
				}
			}
		}
	}
	m.lastEarliest = earliest
	// which blocks to query
	lo := earliest
	if lo < m.starts[0] {
		lo = m.starts[0]
	}
	var qs []uint64
	if m.Full && h-lo <= 300 { // (with a memory window of thousands of blocks the full scan of every block is quadratic: sample then)
		for x := lo; x <= h; x++ {
			qs = append(qs, x)
		}
	} else {
		qs = append(qs, lo, h)
		inMem := 0
		for _, e := range m.starts {
			if e >= lo {
				inMem++
			}
		}
		for _, e := range m.starts {
			if e >= lo && (inMem <= 40 || s.R.Intn(inMem) < 40) { // at most ~40 epoch boundaries per block
				if e > lo {
					qs = append(qs, e-1)
				}
				qs = append(qs, e, e+1)
			}
		}
		for i := 0; i < 6 && h > lo; i++ {
			qs = append(qs, lo+uint64(s.R.Int63n(int64(h-lo+1))))
		}
	}
	for _, x := range qs {
		if x > h || x < lo {
			continue
		}
		m.Queries++
		es, _, err := k.GetEpochStartForBlock(ctx, x)
		if err != nil {
			m.Run.Violation("epoch-start-query-fails", "GetEpochStartForBlock fails for a block in memory", fmt.Sprintf("now %d query %d: %v", h, x, err), m.wit(s, b.Step))
			continue
		}
		// last observed start <= x
		i := sort.Search(len(m.starts), func(i int) bool { return m.starts[i] > x })
		want := m.starts[i-1]
		if es > x || es != want {
			m.Run.Violation("epoch-start-mapping-wrong", "GetEpochStartForBlock != last observed epoch start <= block", fmt.Sprintf("now %d: block %d maps to %d, observed epoch starts say %d", h, x, es, want), m.wit(s, b.Step))
		}
		if ne, err := k.GetNextEpoch(ctx, x); err == nil && ne <= x {
			m.Run.Violation("next-epoch-not-later", "GetNextEpoch(b) <= b", fmt.Sprintf("now %d: next epoch of %d is %d", h, x, ne), m.wit(s, b.Step))
		}
	}
}

func profEpochs() *Profile {
	w := map[string]int{"block": 60, "epoch": 6, "param_epoch": 10, "relay": 6, "buy": 1, "stake": 1, "longblock": 1}
	return &Profile{Name: "epochs", W: w, Providers: 4, Consumers: 2, Delegators: 1, Validators: 2, KeepPools: true}
}

func TestC16(t *testing.T) {
	run := ev.Start("C16")
	nHist, nOps := run.Pick(8, 30), run.Pick(2500, 6000)
	for h := 0; h < nHist; h++ {
		var em *EpochMon
		s := History(t, run, profEpochs(), h, nOps, func(id string) []Monitor {
			em = &EpochMon{Run: run, Hist: id, Full: run.Thorough() || h%4 == 0}
			return []Monitor{em}
		})
		run.Count("block_queries", em.Queries)
		run.Count("epochs_dropped_from_memory", em.Drops)
		run.Count("param_changes", em.ParamChanges)
		run.Count("observed_epoch_starts", len(em.starts))
		if em.ParamChanges >= 3 && em.Drops > 5 {
			run.Nontrivial(fmt.Sprintf("hist%d:changes=%d:drops=%d:starts=%d", h, em.ParamChanges, em.Drops, len(em.starts)))
		}
		if h == 0 {
			var l []string
			for _, x := range s.Log {
				if len(l) < 20 && contains(x, "param") {
					l = append(l, x)
				}
			}
			run.Sample(map[string]any{"history": 0, "param_changes": l, "epoch_starts_tail": tailU(em.starts, 20)})
		}
	}
	run.Require("epochs dropped from memory", run.Counter("epochs_dropped_from_memory") > 0)
	run.Require("param changes", run.Counter("param_changes") > 10)
	run.Finish("long histories with EpochBlocks (2..31) and EpochsToSave (1..10) parameter changes at arbitrary off-grid blocks, several inside one memory window; the monitor keeps its own list of blocks where epoch-start processing was observed (new_epoch event) and of the window in force at each; after every block it queries blocks in memory (all of them in full mode, boundaries +-1 and a PRNG sample otherwise): mapping == last observed start <= block, IsEpochStart <=> observed, next epoch > block, earliest monotone, no epoch dropped younger than its window; a history is non-trivial with >= 3 param changes and > 5 dropped epochs", nHist/2)
}
