//go:build verif

package chainmon

import (
	"testing"

	"verif/internal/ev"
)

func profSubs() *Profile {
	w := map[string]int{
		"block": 20, "epoch": 8, "longblock": 8, "month": 8,
		"buy": 14, "buy_adv_replace": 4, "buy_then_upgrade": 3, "autorenew": 6, "addproject": 2, "delproject": 1,
		"plan_add": 4, "plan_del": 2, "relay": 10, "param": 1, "stake": 1,
	}
	return &Profile{Name: "subs", W: w, Providers: 5, Consumers: 5, Delegators: 1, Validators: 2, KeepPools: true, SmallBalances: true, EpochsToSave: 2, EpochBlocks: 5}
}

func subCheck(t *testing.T, id, rule string, floor int, req func(run *ev.Run)) {
	run := ev.Start(id)
	nHist, nOps := run.Pick(10, 100), run.Pick(500, 1500)
	for h := 0; h < nHist; h++ {
		var sm *SubMon
		prof := profSubs()
		if h%2 == 1 {
			prof.Name = "subsdirected"
			prof.Prologue = prologueFailedRenewal
		}
		s := History(t, run, prof, h, nOps, func(hid string) []Monitor {
			sm = NewSubMon(run, hid, id)
			return []Monitor{sm, &EventCounter{Run: run}}
		})
		sm.Report()
		if h == 0 {
			var l []string
			for _, x := range s.Log {
				if len(l) < 25 && (contains(x, "buy") || contains(x, "plan_") || contains(x, "autorenew")) {
					l = append(l, x)
				}
			}
			run.Sample(map[string]any{"history": 0, "subscription_ops": l})
		}
	}
	req(run)
	run.Finish(rule, floor, "the model learns whether an auto-renewal succeeded from the chain (creator balance / plan existence at the renewal instant are inputs), everything else is predicted")
}

func TestC12(t *testing.T) {
	subCheck(t, "C12", "subscription-heavy histories (buy new / extend / upgrade / advance purchase incl. replacement, auto-renew toggles, plan modifications and deletions, creators with insufficient funds, month boundaries crossed with realistic block gaps); a reference model of months-left / advance purchase is stepped by the same ops and by each month-expiry timer and compared with the subscription after every purchase and expiry; charges are compared with the creator's balance delta; MonthCuLeft bounds and reset are checked at each boundary; distinct non-trivial = distinct purchases and month expiries compared", 150,
		func(run *ev.Run) {
			for _, k := range []string{"sub_new", "sub_extend", "sub_upgrade", "sub_advance", "sub_advance_replaced", "month_expiries", "auto_renewals", "advance_activations", "removals"} {
				run.Require("observed: "+k, run.Counter(k) > 0)
			}
		})
}

func TestC13(t *testing.T) {
	subCheck(t, "C13", "subscription-heavy histories with plan add-version / delete proposals interleaved with buys, upgrades, auto-renewals onto newer plan versions, expiries and idle time beyond the fixation stale period (EpochsToSave=2, EpochBlocks=5); after every tx and block every live subscription version (current and next-epoch) and advance purchase must find its plan version and GetPlanFromSubscription must succeed; distinct non-trivial = lookups of plan versions that are no longer the latest", 20,
		func(run *ev.Run) {
			run.Require("plan versions added", run.Counter("ok:plan_add") > 0)
			run.Require("plans deleted", run.Counter("ok:plan_del") > 0)
			run.Require("auto renewals", run.Counter("auto_renewals") > 0)
			run.Require("lookups of non-latest plan versions", run.Counter("plan_lookups_of_non_latest_version") > 0)
		})
}
