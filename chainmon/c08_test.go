//go:build verif

package chainmon

import (
	"context"
	"fmt"
	"testing"

	sdkmath "cosmossdk.io/math"
	sdk "github.com/cosmos/cosmos-sdk/types"
	testkeeper "github.com/lavanet/lava/v5/testutil/keeper"
	dualstakingtypes "github.com/lavanet/lava/v5/x/dualstaking/types"

	"verif/internal/ev"
)

const c08Sender = "verif_reward_sender"

func TestC08(t *testing.T) {
	run := ev.Start("C08")
	nHist, rounds, callsPerRound := run.Pick(8, 80), run.Pick(10, 25), run.Pick(25, 100)
	classes := map[string]int{}
	for h := 0; h < nHist; h++ {
		prof := profStaking()
		prof.Name = "c08"
		prof.W["slash"] = 0
		prof.W["longblock"] = 8
		prof.W["month"] = 3
		id := fmt.Sprintf("c08/seed=%d/hist=%d", run.Seed, h)
		s := NewSim(t, run.Seed*100003+int64(h), prof)
		s.BuildWorld()
		// contributors on SPC
		sp := s.TS.Spec("SPC")
		c1, c2 := s.newAccount(1), s.newAccount(1)
		sp.Contributor = []string{c1.Addr.String(), c2.Addr.String()}
		pct := sdk.NewDecWithPrec(int64(1+s.R.Intn(40)), 2)
		sp.ContributorPercentage = &pct
		s.TS.AddSpec("SPC", sp)
		dual := modAddr(dualstakingtypes.ModuleName)
		sender := modAddr(c08Sender)
		for rd := 0; rd < rounds && !s.Halted; rd++ {
			s.Run(40)
			for c := 0; c < callsPerRound; c++ {
				ctx := s.TS.Ctx
				ks := s.TS.Keepers
				pr := s.Provs[s.R.Intn(len(s.Provs))]
				es := s.provEntries(pr)
				if len(es) == 0 {
					continue
				}
				chain := es[s.R.Intn(len(es))].Chain
				md, err := ks.Epochstorage.GetMetadata(ctx, pr.Addr)
				if err != nil {
					continue
				}
				// reward: 1 .. 1e18, sometimes two denominations
				amt := sdk.NewInt(1 + s.R.Int63n(1000))
				switch s.R.Intn(4) {
				case 0:
					amt = sdk.NewInt(1 + s.R.Int63n(1_000_000_000_000))
				case 1:
					amt = sdk.NewInt(s.R.Int63n(1_000_000_000)).MulRaw(1_000_000_000).AddRaw(int64(s.R.Intn(1000)))
				}
				total := sdk.NewCoins(sdk.NewCoin(s.Denom, amt))
				if s.R.Intn(4) == 0 {
					total = total.Add(sdk.NewCoin("uibc", sdk.NewInt(1+s.R.Int63n(1_000_000))))
				}
				_ = ks.BankKeeper.AddToBalance(testkeeper.GetModuleAddress(c08Sender), total)
				// inputs of the reference: credits as the code computes them, commission, contributors
				dels, err := ks.Dualstaking.GetProviderDelegators(ctx, pr.Addr)
				if err != nil {
					continue
				}
				type dcredit struct {
					del    string
					credit sdk.Int
				}
				var others []dcredit
				self := sdk.ZeroInt()
				selfFound := false
				D := sdk.ZeroInt()
				for _, d := range dels {
					cr := ks.Dualstaking.CalculateMonthlyCredit(ctx, d).Amount
					if d.Delegator == md.Vault {
						selfFound = true
						self = cr
						if cr.IsZero() {
							self = d.Amount.Amount // the code keeps the raw amount when the self credit is zero
						}
					} else if !cr.IsZero() {
						others = append(others, dcredit{d.Delegator, cr})
						D = D.Add(cr)
					}
				}
				if !selfFound {
					continue // a provider without self delegation: known finding of C06/C07, not this property's subject
				}
				contribAddrs, part := ks.Spec.GetContributorReward(ctx, chain)
				// pre-state
				preRec := map[string]sdk.Coins{}
				for _, r := range ks.Dualstaking.GetAllDelegatorReward(ctx) {
					if r.Provider == pr.Addr {
						preRec[r.Delegator] = r.Amount
					}
				}
				fr := &FlowRec{}
				fr.begin()
				var provReward sdk.Coins
				res := s.Tx("reward_split", fmt.Sprintf("prov=%s chain=%s total=%s commission=%d delegators=%d", short(pr.Addr), chain, total, md.DelegateCommission, len(others)), nil, func(c context.Context) (any, error) {
					var e error
					provReward, e = ks.Dualstaking.RewardProvidersAndDelegators(sdk.UnwrapSDKContext(c), pr.Addr, chain, total, c08Sender, false, false, false)
					return nil, e
				})
				fr.end()
				run.Eval(1)
				if !res.OK() {
					if res.Panic != "" {
						run.Violation("reward-split-panics", panicSignature("RewardProvidersAndDelegators", res.Stack), res.Panic, map[string]any{"history": id, "log_tail": s.LogTail(20)})
					}
					continue
				}
				ctx = s.TS.Ctx
				// observed parts
				obs := map[string]sdk.Coins{}
				sumParts := sdk.NewCoins()
				for _, r := range ks.Dualstaking.GetAllDelegatorReward(ctx) {
					if r.Provider != pr.Addr {
						continue
					}
					delta, neg := r.Amount.SafeSub(preRec[r.Delegator]...)
					if neg {
						run.Violation("negative-part", "a delegator reward record decreased", fmt.Sprintf("%s: %s -> %s", r.Delegator, preRec[r.Delegator], r.Amount), map[string]any{"history": id, "log_tail": s.LogTail(20)})
						continue
					}
					if !delta.IsZero() {
						obs[r.Delegator] = delta
						sumParts = sumParts.Add(delta...)
					}
				}
				contribPaid := sdk.NewCoins()
				toDual := sdk.NewCoins()
				for _, f := range fr.Flows {
					if f.Kind != "transfer" || f.From != sender {
						continue
					}
					if f.To == dual {
						toDual = toDual.Add(f.Amount...)
					} else {
						contribPaid = contribPaid.Add(f.Amount...)
					}
				}
				wit := map[string]any{"history": id, "provider": pr.Addr, "chain": chain, "total": total.String(), "commission": md.DelegateCommission, "self_credit": self.String(), "delegator_credits": fmt.Sprint(others), "log_tail": s.LogTail(12)}
				// (1) conservation
				if !normCoins(sumParts.Add(contribPaid...)).IsEqual(normCoins(total)) {
					run.Violation("parts-do-not-add-up", "provider + delegators + contributors != distributed amount", fmt.Sprintf("total %s: records %s + contributors %s", total, sumParts, contribPaid), wit)
				}
				if !normCoins(toDual).IsEqual(normCoins(sumParts)) {
					run.Violation("records-not-backed-by-transfer", "reward records delta != coins moved to the dualstaking module", fmt.Sprintf("records %s moved %s", sumParts, toDual), wit)
				}
				// (2) reference split
				R := total
				if len(contribAddrs) > 0 && part.IsPositive() {
					n := sdk.NewInt(int64(len(contribAddrs)))
					cr := total.MulInt(part.MulInt64(100000).RoundInt()).QuoInt(sdk.NewInt(100000))
					cr = cr.QuoInt(n).MulInt(n)
					R = total.Sub(cr...)
					classes["contributors"]++
					if !normCoins(contribPaid).IsEqual(normCoins(cr)) {
						run.Violation("contributors-part-wrong", "contributors received != floor share", fmt.Sprintf("paid %s expected %s", contribPaid, cr), wit)
					}
				}
				var wantProv sdk.Coins
				wantDel := map[string]sdk.Coins{}
				switch {
				case md.DelegateCommission == 100 || self.Add(D).IsZero():
					if self.Add(D).IsZero() {
						wantProv = sdk.NewCoins()
					} else {
						wantProv = R
						classes["commission-100"]++
					}
				default:
					base := R.MulInt(self).QuoInt(self.Add(D))
					wantProv = base
					if !D.IsZero() && md.DelegateCommission != 0 {
						raw := R.MulInt(D).QuoInt(self.Add(D))
						wantProv = wantProv.Add(raw.MulInt(sdk.NewIntFromUint64(md.DelegateCommission)).QuoInt(sdk.NewInt(100))...)
					}
					pool := R.Sub(wantProv...)
					used := sdk.NewCoins()
					for _, o := range others {
						p := pool.MulInt(o.credit).QuoInt(D)
						wantDel[o.del] = p
						used = used.Add(p...)
					}
					if !D.IsZero() {
						wantProv = wantProv.Add(pool.Sub(used...)...) // rounding remainder goes to the provider
						classes["with-delegators"]++
					} else {
						wantProv = wantProv.Add(pool...)
						classes["no-delegators"]++
					}
				}
				if md.DelegateCommission == 0 && !D.IsZero() {
					classes["commission-0"]++
				}
				if len(total) > 1 {
					classes["multi-denom"]++
				}
				if !self.Add(D).IsZero() {
					if !normCoins(obs[md.Vault]).IsEqual(normCoins(wantProv)) {
						run.Violation("provider-part-wrong", fmt.Sprintf("commission=%d delegators>0=%v", md.DelegateCommission, !D.IsZero()), fmt.Sprintf("provider got %s expected %s (returned %s)", obs[md.Vault], wantProv, provReward), wit)
					}
					for _, o := range others {
						if !normCoins(obs[o.del]).IsEqual(normCoins(wantDel[o.del])) && md.DelegateCommission != 100 {
							run.Violation("delegator-part-wrong", "delegator part != floor(pool x credit / total credit)", fmt.Sprintf("delegator %s got %s expected %s", o.del, obs[o.del], wantDel[o.del]), wit)
						}
					}
				}
				run.Nontrivial(fmt.Sprintf("%s|%d|%d|%s|%d", id, rd, c, amt, len(others)))
				if h == 0 && rd == 0 && c < 3 {
					run.Sample(map[string]any{"provider": short(pr.Addr), "chain": chain, "total": total.String(), "commission": md.DelegateCommission, "self_credit": self.String(), "delegators": len(others), "provider_got": obs[md.Vault].String()})
				}
			}
		}
	}
	for k, v := range classes {
		run.Count("class:"+k, v)
	}
	for _, k := range []string{"contributors", "commission-100", "with-delegators", "no-delegators", "multi-denom"} {
		run.Require("class exercised: "+k, classes[k] > 0)
	}
	run.Finish("staking-heavy generated worlds (delegations of ages 0 s .. months, commissions 0..100, contributors on one spec); the real RewardProvidersAndDelegators is called with generated rewards (1 .. 1e18, one or two denominations) from a funded sender module and its effects are observed: reward-record deltas, coins moved (bank flow log), contributor receipts; parts must add up exactly, none negative, each delegator gets floor(pool x credit / total credit), the provider gets own-credit share + commission on the raw delegators share + rounding remainder, everything at commission 100; credits (CalculateMonthlyCredit) are inputs here, their own correctness is C23; distinct non-trivial = distinct calls judged", 300,
		"providers whose vault delegation is missing (known C06/C07 finding) are skipped")
	_ = sdkmath.ZeroInt
}

// normCoins drops zero-amount entries so that "39uibc" and "39uibc,0ulava" compare equal.
func normCoins(c sdk.Coins) sdk.Coins {
	out := sdk.NewCoins()
	for _, x := range c {
		if x.Amount.IsPositive() {
			out = out.Add(x)
		}
	}
	return out
}
