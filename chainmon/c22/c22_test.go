//go:build verif

// C22 — spec inheritance expands deterministically and completely.
//
// Real code observed: spectypes.DoExpandSpec (with a counting GetSpec), the spec keeper's ExpandSpec on specs held
// in its KV store, and the spec-add proposal handler (SimulateSpecAddProposal -> handleSpecProposal -> ValidateSpec
// / RefreshSpec) with baseapp-like rollback of failed proposals.
package c22

import (
	"bytes"
	"fmt"
	"math/rand"
	"sort"
	"strings"
	"testing"

	sdk "github.com/cosmos/cosmos-sdk/types"
	"github.com/lavanet/lava/v5/testutil/common"
	testkeeper "github.com/lavanet/lava/v5/testutil/keeper"
	spectypes "github.com/lavanet/lava/v5/x/spec/types"
	"github.com/rs/zerolog"

	"verif/internal/ev"
	"verif/internal/vrand"
)

const stepBound = 1000 // GetSpec calls per expansion; an acyclic graph of <= 6 specs needs < 100 (DoExpandSpec keeps a growing
// "details" string per recursion level, so the bound also keeps a runaway recursion cheap)

var (
	collKeys = []spectypes.CollectionData{
		{ApiInterface: "jsonrpc", InternalPath: "", Type: "POST", AddOn: ""},
		{ApiInterface: "rest", InternalPath: "", Type: "GET", AddOn: ""},
		{ApiInterface: "jsonrpc", InternalPath: "", Type: "POST", AddOn: "debug"},
		{ApiInterface: "jsonrpc", InternalPath: "/x", Type: "POST", AddOn: ""},
		{ApiInterface: "rest", InternalPath: "", Type: "GET", AddOn: "trace"},
	}
	apiNames = []string{"alpha", "beta", "gamma", "delta", "eps", "zeta"}
)

type graphCase struct {
	Shape string           `json:"shape"`
	Specs []spectypes.Spec `json:"specs"`
}

func baseSpec(idx string, denom string) spectypes.Spec {
	return spectypes.Spec{
		Index: idx, Name: "spec " + strings.Map(func(r rune) rune {
			if r >= '0' && r <= '9' {
				return 'a' + (r - '0')
			}
			return r + ('a' - 'A')
		}, idx), Enabled: true, ReliabilityThreshold: 268435455, DataReliabilityEnabled: false,
		BlockDistanceForFinalizedData: 1, BlocksInFinalizationProof: 1, AverageBlockTime: 1000, AllowedBlockLagForQosSync: 1,
		MinStakeProvider: sdk.NewCoin(denom, sdk.NewInt(1000)), Shares: 1,
	}
}

// canonical body of an API name: the same in every spec, so that the same API reaching a spec over two import
// paths is "equal"; a variant body makes it a conflicting definition.
func mkApi(rng *rand.Rand, name string, maxCU uint64, hostileCU bool) *spectypes.Api {
	cu := uint64(10 * (1 + len(name)))
	a := &spectypes.Api{Name: name, Enabled: rng.Intn(8) != 0, ComputeUnits: cu, Category: spectypes.SpecCategory{Deterministic: true}}
	switch rng.Intn(12) {
	case 0:
		a.ExtraComputeUnits = 1 // variant body
	case 1:
		a.ComputeUnits = 1 + uint64(rng.Intn(5)) // variant body, still in range
	case 2:
		a.ComputeUnits = maxCU
	}
	if hostileCU {
		switch rng.Intn(3) {
		case 0:
			a.ComputeUnits = 0
		case 1:
			a.ComputeUnits = maxCU + 1 + uint64(rng.Intn(5))
		default:
			a.ComputeUnits = 1<<63 + uint64(rng.Intn(5))
		}
	}
	return a
}

func genCollections(rng *rand.Rand, maxCU uint64) []*spectypes.ApiCollection {
	var out []*spectypes.ApiCollection
	perm := rng.Perm(len(collKeys))
	n := rng.Intn(4)
	for _, ki := range perm[:n] {
		c := &spectypes.ApiCollection{Enabled: rng.Intn(6) != 0, CollectionData: collKeys[ki]}
		np := rng.Perm(len(apiNames))
		for _, ai := range np[:1+rng.Intn(4)] {
			c.Apis = append(c.Apis, mkApi(rng, apiNames[ai], maxCU, rng.Intn(60) == 0))
		}
		if rng.Intn(3) == 0 {
			c.Headers = append(c.Headers, &spectypes.Header{Name: vrand.Pick(rng, []string{"x-h1", "x-h2"}), Kind: spectypes.Header_pass_send})
		}
		if rng.Intn(4) == 0 {
			c.Extensions = append(c.Extensions, &spectypes.Extension{Name: "archive", CuMultiplier: uint64(1 + rng.Intn(2))})
		}
		if rng.Intn(4) == 0 {
			c.ParseDirectives = append(c.ParseDirectives, &spectypes.ParseDirective{FunctionTag: spectypes.FUNCTION_TAG_GET_BLOCKNUM, FunctionTemplate: vrand.Pick(rng, []string{"t1", "t1", "t2"}), ApiName: "alpha"})
		}
		out = append(out, c)
	}
	// add-on collections may inherit from a base collection of the same spec (or name one that is not there)
	for _, c := range out {
		if c.CollectionData.AddOn != "" && rng.Intn(2) == 0 {
			base := c.CollectionData
			base.AddOn = ""
			c.InheritanceApis = append(c.InheritanceApis, &base)
		}
	}
	return out
}

func genGraph(rng *rand.Rand, denom string, maxCU uint64) graphCase {
	n := 2 + rng.Intn(5)
	specs := make([]spectypes.Spec, n)
	for i := range specs {
		specs[i] = baseSpec(fmt.Sprintf("S%d", i), denom)
		specs[i].ApiCollections = genCollections(rng, maxCU)
	}
	shape := ""
	edge := func(from, to int) {
		for _, x := range specs[from].Imports {
			if x == specs[to].Index {
				return
			}
		}
		specs[from].Imports = append(specs[from].Imports, specs[to].Index)
	}
	switch vrand.Weighted(rng, []int{30, 12, 14, 18, 10, 16}) {
	case 0: // random DAG: i imports j < i
		shape = "dag"
		for i := 1; i < n; i++ {
			for j := 0; j < i; j++ {
				if rng.Intn(3) == 0 {
					edge(i, j)
				}
			}
		}
	case 1: // chain
		shape = "chain"
		for i := 1; i < n; i++ {
			edge(i, i-1)
		}
	case 2: // diamond(s): last imports all middles, middles import 0
		shape = "diamond"
		for i := 1; i < n-1; i++ {
			edge(i, 0)
			edge(n-1, i)
		}
		if n == 2 {
			edge(1, 0)
		}
	case 3: // cycle of length 1..4 somewhere, reachable from a DAG part
		l := 1 + rng.Intn(min(4, n))
		shape = fmt.Sprintf("cycle-%d", l)
		start := rng.Intn(n - l + 1)
		for i := 0; i < l; i++ {
			edge(start+i, start+(i+1)%l)
		}
		for i := start + l; i < n; i++ { // specs above import into the cycle or each other
			edge(i, start+rng.Intn(i-start))
		}
	case 4: // unknown import
		shape = "unknown-import"
		for i := 1; i < n; i++ {
			if rng.Intn(2) == 0 {
				edge(i, rng.Intn(i))
			}
		}
		k := rng.Intn(n)
		specs[k].Imports = append(specs[k].Imports, vrand.Pick(rng, []string{"NOPE", "S9", "s0", ""}))
		if rng.Intn(2) == 0 { // import order matters for which error comes first
			im := specs[k].Imports
			im[0], im[len(im)-1] = im[len(im)-1], im[0]
		}
	default: // wide: one child importing many parents with overlapping collections
		shape = "fan-in"
		for j := 0; j < n-1; j++ {
			if j == 0 || rng.Intn(3) != 0 {
				edge(n-1, j)
			}
		}
		if n > 3 && rng.Intn(2) == 0 {
			edge(1, 0)
		}
	}
	if rng.Intn(3) == 0 { // shuffle import order of one spec
		k := rng.Intn(n)
		rng.Shuffle(len(specs[k].Imports), func(a, b int) {
			specs[k].Imports[a], specs[k].Imports[b] = specs[k].Imports[b], specs[k].Imports[a]
		})
	}
	return graphCase{Shape: shape, Specs: specs}
}

// reachable import problems from spec idx in the raw graph: a cycle on some path, or an unknown spec
func analyse(specs map[string]spectypes.Spec, root string) (cycle, unknown bool) {
	onPath := map[string]bool{}
	var dfs func(s string, depth int)
	dfs = func(s string, depth int) {
		if depth > 64 {
			return
		}
		sp, ok := specs[s]
		if !ok {
			unknown = true
			return
		}
		if onPath[s] {
			cycle = true
			return
		}
		onPath[s] = true
		for _, im := range sp.Imports {
			dfs(im, depth+1)
		}
		delete(onPath, s)
	}
	dfs(root, 0)
	return
}

func cloneSpec(s spectypes.Spec) spectypes.Spec {
	b, err := s.Marshal()
	if err != nil {
		panic(err)
	}
	var out spectypes.Spec
	if err := out.Unmarshal(b); err != nil {
		panic(err)
	}
	return out
}

type stepLimit struct{}

// expandDirect: DoExpandSpec exactly as Keeper.ExpandSpec calls it, with a GetSpec that counts and hands out
// fresh copies (like a KV store does).
func expandDirect(ctx sdk.Context, raw map[string]spectypes.Spec, root string) (out spectypes.Spec, err error, steps int, bounded bool) {
	spec := cloneSpec(raw[root])
	get := func(_ sdk.Context, index string) (spectypes.Spec, bool) {
		steps++
		if steps > stepBound {
			panic(stepLimit{})
		}
		s, ok := raw[index]
		if !ok {
			return spectypes.Spec{}, false
		}
		return cloneSpec(s), true
	}
	defer func() {
		if r := recover(); r != nil {
			if _, ok := r.(stepLimit); ok {
				bounded = true
				return
			}
			panic(r)
		}
	}()
	depends := map[string]bool{spec.Index: true}
	inherit := map[string]bool{}
	_, err = spectypes.DoExpandSpec(ctx, &spec, depends, &inherit, spec.Index, get)
	return spec, err, steps, false
}

func findColl(s *spectypes.Spec, cd spectypes.CollectionData) *spectypes.ApiCollection {
	for _, c := range s.ApiCollections {
		if c.CollectionData == cd {
			return c
		}
	}
	return nil
}

func findApi(c *spectypes.ApiCollection, name string) *spectypes.Api {
	for _, a := range c.Apis {
		if a.Name == name {
			return a
		}
	}
	return nil
}

func TestC22(t *testing.T) {
	zerolog.SetGlobalLevel(zerolog.Disabled)
	run := ev.Start("C22")
	ngraphs := run.Pick(1500, 40000)
	reps := 64

	testkeeper.SetFixedTime()
	ts := common.NewTester(t)
	k := ts.Keepers.Spec
	denom := ts.Keepers.StakingKeeper.BondDenom(ts.Ctx)
	maxCU := k.MaxCU(ts.Ctx)

	cnt := map[string]int{}
	shapes := map[string]int{}
	for g := 0; g < ngraphs && run.Violations() < 12; g++ {
		rng := vrand.Sub(run.Seed, "c22", g)
		gc := genGraph(rng, denom, maxCU)
		shapes[strings.SplitN(gc.Shape, "-", 2)[0]]++
		raw := map[string]spectypes.Spec{}
		for _, s := range gc.Specs {
			raw[s.Index] = s
		}
		witness := func(root string, extra map[string]any) map[string]any {
			m := map[string]any{"graph": g, "shape": gc.Shape, "specs": gc.Specs, "root": root}
			for k, v := range extra {
				m[k] = v
			}
			return m
		}

		// ---------------- part 1: expansion of every spec of the graph against a store holding the raw graph
		sctx, _ := ts.Ctx.CacheContext()
		for _, s := range gc.Specs {
			k.SetSpec(sctx, s)
		}
		expanded := map[string]*spectypes.Spec{}
		nontrivialGraph := false
		for _, s := range gc.Specs {
			root := s.Index
			cyc, unk := analyse(raw, root)
			out, err, steps, bounded := expandDirect(sctx, raw, root)
			run.Eval(1)
			cnt["expansions (DoExpandSpec, counted)"]++
			if steps > cnt["max GetSpec calls in one expansion"] {
				cnt["max GetSpec calls in one expansion"] = steps
			}
			if bounded {
				if cyc {
					run.Violation("import-cycle-not-rejected", "step-bound-exceeded", fmt.Sprintf("expansion of %s (import cycle reachable) made more than %d GetSpec calls without rejecting the cycle", root, stepBound), witness(root, nil))
				} else {
					run.Inconclusive(fmt.Sprintf("graph %d: expansion of %s exceeded %d GetSpec calls on an acyclic graph", g, root, stepBound))
				}
				continue // do not hand a non-terminating input to the keeper path
			}
			if cyc {
				cnt["cyclic inputs"]++
			}
			if unk {
				cnt["inputs with unknown import"]++
			}
			if (cyc || unk) && err == nil {
				what := "import-cycle-accepted"
				if !cyc {
					what = "unknown-import-accepted"
				}
				run.Violation(what, gc.Shape, fmt.Sprintf("expansion of %s succeeded although cycle=%v unknown-import=%v is reachable over its imports", root, cyc, unk), witness(root, nil))
				continue
			}
			if cyc || unk {
				cnt["rejected: cycle/unknown"]++
				nontrivialGraph = true
			}
			// the keeper's own ExpandSpec over its KV store, repeated: same verdict and same bytes every time
			n := 4
			if len(s.Imports) > 0 {
				n = reps
			}
			var first []byte
			firstOK := false
			for r := 0; r < n; r++ {
				stored, found := k.GetSpec(sctx, root)
				if !found {
					t.Fatalf("harness: spec %s not in store", root)
				}
				e, kerr := k.ExpandSpec(sctx, stored)
				run.Eval(1)
				ok := kerr == nil
				var b []byte
				if ok {
					b, _ = e.Marshal()
				}
				if r == 0 {
					first, firstOK = b, ok
					if ok != (err == nil) {
						run.Violation("expansion-not-deterministic", "keeper-vs-direct verdict", fmt.Sprintf("%s: DoExpandSpec with a map-backed GetSpec err=%v, keeper ExpandSpec err=%v", root, err, kerr), witness(root, nil))
					} else if ok {
						db, _ := out.Marshal()
						if !bytes.Equal(db, b) {
							run.Violation("expansion-not-deterministic", "keeper-vs-direct bytes", fmt.Sprintf("%s: two expansions of the same input marshal differently", root), witness(root, map[string]any{"a": out.String(), "b": e.String()}))
						}
					}
					continue
				}
				if ok != firstOK {
					run.Violation("expansion-not-deterministic", "verdict differs between runs", fmt.Sprintf("%s: expansion %d ok=%v, first ok=%v", root, r, ok, firstOK), witness(root, nil))
					break
				}
				if ok && !bytes.Equal(b, first) {
					var fs spectypes.Spec
					_ = fs.Unmarshal(first)
					run.Violation("expansion-not-deterministic", "bytes differ between runs", fmt.Sprintf("%s: expansion %d of the same stored input differs from the first (collection order first: %s, now: %s)", root, r, collOrder(&fs), collOrder(&e)), witness(root, map[string]any{"first": fs.String(), "other": e.String()}))
					break
				}
			}
			cnt["repeated expansions compared"] += n - 1
			if err != nil {
				if !(cyc || unk) {
					cnt["rejected: other (conflicts between parents, intra-spec inheritance ...)"]++
				}
				continue
			}
			o := out
			expanded[root] = &o
			cnt["successful expansions"]++
			if len(s.Imports) > 0 {
				cnt["successful expansions with imports"]++
			}
		}
		// completeness: expanded(T) ⊇ own ∪ enabled collections / enabled APIs of expanded(import) unless T overrides
		for _, s := range gc.Specs {
			e := expanded[s.Index]
			if e == nil {
				continue
			}
			// no duplicates (judged once the expansions of all imports are known, to name the cause)
			seenC := map[spectypes.CollectionData]bool{}
			for _, c := range e.ApiCollections {
				if seenC[c.CollectionData] {
					run.Violation("duplicates-in-expanded-spec", "duplicate-collection", fmt.Sprintf("expansion of %s (imports %v) succeeded with collection %v twice", s.Index, s.Imports, c.CollectionData), witness(s.Index, map[string]any{"expanded": e.String()}))
				}
				seenC[c.CollectionData] = true
				seenA := map[string]bool{}
				for _, a := range c.Apis {
					if seenA[a.Name] {
						// which imports supply this api to this collection, or to a collection of the same spec that this
						// one inherits from (intra-spec inheritance copies what the base collection got from the imports)
						keys := map[spectypes.CollectionData]bool{c.CollectionData: true}
						for grew := true; grew; {
							grew = false
							for _, oc := range s.ApiCollections {
								if keys[oc.CollectionData] {
									for _, in := range oc.InheritanceApis {
										if !keys[*in] {
											keys[*in], grew = true, true
										}
									}
								}
							}
						}
						suppliers := 0
						for _, im := range s.Imports {
							if p := expanded[im]; p != nil {
								for key := range keys {
									if pc := findColl(p, key); pc != nil && pc.Enabled {
										for _, pa := range pc.Apis { // an import whose own expansion already carries the duplicate counts twice
											if pa.Name == a.Name && pa.Enabled {
												suppliers++
											}
										}
									}
								}
							}
						}
						sig := "duplicate-api: other"
						if suppliers >= 2 {
							sig = "duplicate-api: equal API supplied by two or more imports"
						}
						stored, _ := k.GetSpec(sctx, s.Index)
						_, verr := k.ValidateSpec(sctx, stored)
						run.Violation("duplicates-in-expanded-spec", sig, fmt.Sprintf("ExpandSpec of %s (imports %v) succeeded with api %q twice in collection %v; %d copies of that api (equal bodies) are supplied by its imports to that collection or to a collection it inherits from inside the spec; own collection with that key: %v; the proposal-side ValidateSpec then says: %v", s.Index, s.Imports, a.Name, c.CollectionData, suppliers, findColl(&s, c.CollectionData) != nil, verr), witness(s.Index, map[string]any{"expanded": e.String()}))
					}
					seenA[a.Name] = true
				}
			}
			for _, oc := range s.ApiCollections {
				ec := findColl(e, oc.CollectionData)
				if ec == nil {
					run.Violation("own-collection-missing", "own", fmt.Sprintf("%s: own collection %v missing after expansion", s.Index, oc.CollectionData), witness(s.Index, nil))
					continue
				}
				for _, a := range oc.Apis {
					ea := findApi(ec, a.Name)
					if ea == nil {
						run.Violation("own-api-missing", "own", fmt.Sprintf("%s: own api %s of %v missing after expansion", s.Index, a.Name, oc.CollectionData), witness(s.Index, nil))
					} else if ea.Equal(a) {
						cnt["own definitions kept"]++
					} else {
						cnt["own definitions replaced (not judged)"]++
					}
				}
			}
			for _, im := range s.Imports {
				p := expanded[im]
				if p == nil {
					cnt["import expanded inside child only"]++
					continue
				}
				for _, pc := range p.ApiCollections {
					if !pc.Enabled {
						cnt["disabled parent collections skipped"]++
						continue
					}
					own := findColl(&s, pc.CollectionData)
					ec := findColl(e, pc.CollectionData)
					if ec == nil || (own == nil && !ec.Enabled) {
						run.Violation("inherited-collection-missing", "enabled collection of an import", fmt.Sprintf("%s imports %s whose enabled collection %v is missing (or disabled) in the expansion and %s does not define it", s.Index, im, pc.CollectionData, s.Index), witness(s.Index, map[string]any{"expanded": e.String(), "import_expanded": p.String()}))
						continue
					}
					if own == nil {
						cnt["collections inherited whole"]++
					} else {
						cnt["collections merged into own"]++
					}
					for _, pa := range pc.Apis {
						if !pa.Enabled {
							cnt["disabled parent apis skipped"]++
							continue
						}
						if own != nil && findApi(own, pa.Name) != nil {
							cnt["apis overridden by the spec"]++
							continue
						}
						ea := findApi(ec, pa.Name)
						if ea == nil || !ea.Enabled {
							run.Violation("inherited-api-missing", "enabled api of an import", fmt.Sprintf("%s imports %s whose enabled api %s of %v is missing in the expansion and %s does not override it", s.Index, im, pa.Name, pc.CollectionData, s.Index), witness(s.Index, map[string]any{"expanded": e.String(), "import_expanded": p.String()}))
							continue
						}
						cnt["apis inherited"]++
						nontrivialGraph = true
					}
				}
			}
		}

		// ---------------- part 2: the proposal path — specs proposed one at a time (random order, some re-proposed with
		// changed imports); failed proposals are rolled back like a failed tx
		pctx, _ := ts.Ctx.CacheContext()
		order := rng.Perm(len(gc.Specs))
		var proposals []spectypes.Spec
		for _, i := range order {
			proposals = append(proposals, gc.Specs[i])
		}
		for j := 0; j < 2; j++ { // second round: what failed for a missing import may pass now; plus hostile modifications
			for _, i := range order {
				sp := cloneSpec(gc.Specs[i])
				if rng.Intn(3) == 0 {
					sp.Imports = append(sp.Imports, gc.Specs[rng.Intn(len(gc.Specs))].Index) // may close a cycle over accepted specs
				}
				proposals = append(proposals, sp)
			}
		}
		var plog []string
		for _, sp := range proposals {
			// the handler stores the spec and then expands it and every other stored spec with the keeper's own
			// GetSpec (no step bound possible there): first make sure, with the counted expansion over the same
			// would-be store, that all of these terminate
			would := map[string]spectypes.Spec{}
			for _, x := range k.GetAllSpec(pctx) {
				would[x.Index] = x
			}
			would[sp.Index] = sp
			runaway := false
			for idx := range would {
				if _, _, _, bounded := expandDirect(pctx, would, idx); bounded {
					cyc, _ := analyse(would, idx)
					if cyc {
						run.Violation("import-cycle-not-rejected", "step-bound-exceeded", fmt.Sprintf("with %s%v proposed on top of the accepted specs, expansion of %s made more than %d GetSpec calls without rejecting the import cycle", sp.Index, sp.Imports, idx, stepBound), witness(idx, map[string]any{"proposals": proposals, "log": plog}))
					} else {
						run.Inconclusive(fmt.Sprintf("graph %d: expansion of %s exceeded %d GetSpec calls on an acyclic store", g, idx, stepBound))
					}
					runaway = true
					break
				}
			}
			if runaway {
				break
			}
			cctx, write := pctx.CacheContext()
			err := testkeeper.SimulateSpecAddProposal(cctx, k, []spectypes.Spec{cloneSpec(sp)})
			run.Eval(1)
			if err == nil {
				write()
				cnt["proposals accepted"]++
				plog = append(plog, fmt.Sprintf("%s%v:ok", sp.Index, sp.Imports))
			} else {
				cnt["proposals rejected"]++
				plog = append(plog, fmt.Sprintf("%s%v:rejected", sp.Index, sp.Imports))
			}
			// after every proposal: every stored spec is acyclic, closed under imports, and exposes only in-range CUs
			stored := map[string]spectypes.Spec{}
			for _, x := range k.GetAllSpec(pctx) {
				stored[x.Index] = x
			}
			for idx := range stored {
				if _, mine := raw[idx]; !mine {
					continue // the tester's own mock specs
				}
				cyc, unk := analyse(stored, idx)
				if cyc || unk {
					run.Violation("accepted-spec-with-bad-imports", fmt.Sprintf("cycle=%v unknown=%v", cyc, unk), fmt.Sprintf("after proposals %v the store holds %s with cycle=%v unknown-import=%v reachable", plog, idx, cyc, unk), witness(idx, map[string]any{"proposals": proposals, "log": plog}))
					continue
				}
				e, err := k.GetExpandedSpec(pctx, idx)
				if err != nil {
					cnt["stored spec no longer expands (not judged)"]++
					continue
				}
				for _, c := range e.ApiCollections {
					for _, a := range c.Apis {
						if c.Enabled && a.Enabled {
							cnt["exposed apis of accepted specs range-checked"]++
							if a.ComputeUnits < 1 || a.ComputeUnits > maxCU {
								run.Violation("accepted-spec-exposes-out-of-range-cu", "enabled api in enabled collection", fmt.Sprintf("accepted spec %s exposes %s with %d CU (allowed 1..%d)", idx, a.Name, a.ComputeUnits, maxCU), witness(idx, map[string]any{"proposals": proposals, "log": plog}))
							}
						}
					}
				}
			}
		}
		if nontrivialGraph {
			b, _ := (&spectypes.SpecAddProposal{Specs: gc.Specs}).Marshal()
			run.Nontrivial(gc.Shape + string(b))
		}
		if g < 3 {
			run.Sample(map[string]any{"graph": g, "shape": gc.Shape, "imports": importsOf(gc.Specs), "proposal_log": plog})
		}
	}
	for _, sh := range []string{"dag", "chain", "diamond", "cycle", "unknown", "fan"} {
		run.Count("graphs of shape "+sh, shapes[sh])
		run.Require("shape generated: "+sh, shapes[sh] > 0)
	}
	keys := make([]string, 0, len(cnt))
	for k := range cnt {
		keys = append(keys, k)
	}
	sort.Strings(keys)
	for _, k := range keys {
		run.Count(k, cnt[k])
	}
	for _, need := range []string{"rejected: cycle/unknown", "cyclic inputs", "inputs with unknown import", "successful expansions with imports", "apis inherited", "apis overridden by the spec", "collections inherited whole", "collections merged into own", "disabled parent collections skipped", "disabled parent apis skipped", "proposals accepted", "proposals rejected", "exposed apis of accepted specs range-checked", "repeated expansions compared"} {
		run.Require("exercised: "+need, cnt[need] > 0)
	}
	run.Finish("PRNG import graphs of 2-6 specs (random DAGs, chains, diamonds, fan-in, cycles of length 1-4, unknown imports; overlapping collection keys, disabled collections and APIs, add-on collections with intra-spec inheritance, same-name APIs with equal and with different bodies, out-of-range CUs, headers/extensions/parse directives); every spec of a graph is expanded by DoExpandSpec with a counting GetSpec (step bound) and 64x (4x without imports) by the keeper's ExpandSpec over its KV store; oracle: cycle / unknown import reachable => rejected, success => no duplicate collection keys / API names, contains its own collections and APIs and every enabled collection and enabled API of each import's expansion unless it defines the same collection API name itself, all repetitions byte-identical; then the graph is fed spec by spec (random order, re-proposals, cycle-closing modifications) through the spec-add proposal handler with rollback, and after every proposal every stored spec must be acyclic, import-closed and expose only APIs with 1 <= CU <= MaxCU; a graph is non-trivial when an API was actually inherited or a cycle/unknown import was rejected; distinct = distinct graphs",
		ngraphs/3, "rejections caused by conflicting definitions in different imports are accepted as rejections", "raw specs are well-formed on their own (no duplicate collection keys or API names inside one raw spec)", "\"exposed\" = enabled API in an enabled collection of the expanded accepted spec")
}

func collOrder(s *spectypes.Spec) string {
	var p []string
	for _, c := range s.ApiCollections {
		p = append(p, fmt.Sprintf("%s/%s/%s/%s", c.CollectionData.ApiInterface, c.CollectionData.InternalPath, c.CollectionData.Type, c.CollectionData.AddOn))
	}
	return strings.Join(p, ",")
}

func importsOf(specs []spectypes.Spec) map[string][]string {
	m := map[string][]string{}
	for _, s := range specs {
		m[s.Index] = s.Imports
	}
	return m
}
