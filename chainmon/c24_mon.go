//go:build verif

package chainmon

// C24 — reputation pairing scores are bounded and order-preserving; decay never leaves an invalid
// stored reputation. Ops that feed QoS excellence reports through real relay payments, change the
// reputation params and produce decay gaps, plus the monitor (RepMon) that reads the stored
// reputations and pairing scores after every epoch-start block.

import (
	"context"
	"fmt"
	"sort"
	"time"

	sdk "github.com/cosmos/cosmos-sdk/types"
	"github.com/lavanet/lava/v5/utils/sigs"
	pairingtypes "github.com/lavanet/lava/v5/x/pairing/types"

	"verif/internal/ev"
)

// ---------------------------------------------------------------- ops

func init() {
	RegisterOp("rep_relay", func(s *Sim) { s.opRepRelay(false, false) })
	RegisterOp("rep_relay_over1", func(s *Sim) { s.opRepRelay(true, false) })
	RegisterOp("rep_relay_astro", func(s *Sim) { s.opRepRelay(false, true) })
	RegisterOp("rep_param", func(s *Sim) { s.opRepParam() })
	RegisterOp("rep_decay", func(s *Sim) { s.opRepDecay() })
	RegisterOp("rep_idle", func(s *Sim) { s.opRepIdle() })
}

// safeHalfLife: with this half-life factor an epoch of MaxEpochSpan gives t/h = 168, e^168 still fits a LegacyDec
// (the decay computation panics on overflow beyond t/h ~ 176, which is a block-processing matter, not C24's).
const safeHalfLife = 3600

func decPow10(m int64, exp int) sdk.Dec { // m * 10^exp
	d := sdk.NewDec(m)
	for ; exp > 0; exp-- {
		d = d.MulInt64(10)
	}
	for ; exp < 0; exp++ {
		d = d.QuoInt64(10)
	}
	return d
}

// repMetric: latency / sync value from zero and the smallest Dec to huge.
func (s *Sim) repMetric(astro bool) sdk.Dec {
	if astro && s.R.Intn(2) == 0 {
		switch s.R.Intn(8) {
		case 0, 1:
			return decPow10(int64(1+s.R.Intn(9)), 6+s.R.Intn(4)) // 1e6 .. 9e9: around the report validation's bound (1e9)
		case 2, 3, 4:
			// the squares of these still fit a LegacyDec (so the tx itself does not fail) but a few of them summed do not
			return decPow10(int64(1+s.R.Intn(9)), 36+s.R.Intn(2))
		}
		return decPow10(int64(1+s.R.Intn(9)), 24+s.R.Intn(14)) // 1e24 .. 9e37 (rejected by the report validation since the fix)
	}
	switch s.R.Intn(10) {
	case 0:
		return sdk.ZeroDec()
	case 1:
		return sdk.SmallestDec()
	case 2:
		return sdk.NewDecWithPrec(1, 6)
	case 3, 4, 5:
		return sdk.NewDecWithPrec(int64(1+s.R.Intn(5000)), 3)
	case 6:
		return sdk.NewDec(int64(1 + s.R.Intn(100000)))
	case 7:
		return decPow10(int64(1+s.R.Intn(9)), 5+s.R.Intn(4)) // 1e5 .. 9e8
	case 8:
		// at and just above the largest value the report validation accepts; far above it
		switch s.R.Intn(3) {
		case 0:
			return pairingtypes.MaxQosMetric
		case 1:
			return pairingtypes.MaxQosMetric.Add(sdk.SmallestDec())
		default:
			return decPow10(int64(1+s.R.Intn(9)), 15+s.R.Intn(4))
		}
	default:
		return sdk.NewDecWithPrec(int64(1+s.R.Intn(20)), 1)
	}
}

// repAvail: availability from the smallest Dec to 1 (over1: also above 1, which the report validation accepts).
func (s *Sim) repAvail(over1 bool) sdk.Dec {
	if over1 && s.R.Intn(2) == 0 {
		switch s.R.Intn(4) {
		case 0:
			return sdk.NewDecWithPrec(1001, 3)
		case 1:
			return sdk.NewDec(2)
		case 2:
			return sdk.NewDec(int64(3 + s.R.Intn(1000)))
		default:
			return decPow10(1, 6+s.R.Intn(12))
		}
	}
	switch s.R.Intn(8) {
	case 0, 1:
		return sdk.OneDec()
	case 2:
		return sdk.NewDecWithPrec(999, 3)
	case 3:
		return sdk.NewDecWithPrec(1, 6)
	case 4:
		return sdk.SmallestDec()
	default:
		return sdk.NewDecWithPrec(int64(1+s.R.Intn(1000)), 3)
	}
}

func (s *Sim) repReport(over1, astro bool) *pairingtypes.QualityOfServiceReport {
	return &pairingtypes.QualityOfServiceReport{Latency: s.repMetric(astro), Sync: s.repMetric(astro), Availability: s.repAvail(over1)}
}

func (s *Sim) repCU() uint64 {
	switch s.R.Intn(10) {
	case 0:
		return 1
	case 1:
		return uint64(100 + s.R.Intn(400))
	case 2:
		if s.R.Intn(4) == 0 {
			return 0
		}
		return uint64(1000 + s.R.Intn(4000))
	default:
		return uint64(1 + s.R.Intn(20))
	}
}

func qosStr(q *pairingtypes.QualityOfServiceReport) string {
	return fmt.Sprintf("{lat=%s sync=%s av=%s}", q.Latency, q.Sync, q.Availability)
}

// repTargets picks a consumer key, a chain and its current pairing.
func (s *Sim) repTargets() (dev sigs.Account, chain string, paired []string, ok bool) {
	for try := 0; try < 5; try++ {
		c := s.Cons[s.R.Intn(len(s.Cons))]
		dev = c.Acc
		if s.R.Intn(3) == 0 {
			dev = c.Devs[s.R.Intn(len(c.Devs))]
		}
		chain = vrandPick(s, s.Specs)
		if s.R.Intn(2) == 0 {
			chain = "SPB" // every provider stakes there: the largest groups
		}
		paired = s.pairedProviders(chain, dev.Addr.String())
		if len(paired) > 0 {
			return dev, chain, paired, true
		}
	}
	return dev, chain, nil, false
}

func (s *Sim) repSend(name string, dev sigs.Account, chain, prov string, reps []*pairingtypes.QualityOfServiceReport, cus []uint64) *TxRes {
	return s.repSendAt(name, dev, chain, prov, int64(s.TS.EpochStart()), reps, cus)
}

// repSendAt: the sessions refer to the given epoch (the pairing of that epoch must contain the provider).
func (s *Sim) repSendAt(name string, dev sigs.Account, chain, prov string, epoch int64, reps []*pairingtypes.QualityOfServiceReport, cus []uint64) *TxRes {
	var relays []*pairingtypes.RelaySession
	desc := fmt.Sprintf("prov=%s dev=%s chain=%s epoch=%d", short(prov), short(dev.Addr.String()), chain, epoch)
	for i, q := range reps {
		rs := s.newSession(dev, prov, chain, epoch, cus[i])
		rs.QosExcellenceReport = q
		signSession(dev, rs)
		relays = append(relays, rs)
		desc += fmt.Sprintf(" cu=%d exc=%s", cus[i], qosStr(q))
	}
	return s.sendRelays(name, prov, relays, desc)
}

// opRepRelay: relay payments that always carry an excellence report.
func (s *Sim) opRepRelay(over1, astro bool) {
	dev, chain, paired, ok := s.repTargets()
	if !ok {
		return
	}
	name := "rep_relay"
	if over1 {
		name = "rep_relay_over1"
	}
	if astro {
		name = "rep_relay_astro"
	}
	one := func(q *pairingtypes.QualityOfServiceReport, cu uint64, prov string) {
		s.repSend(name, dev, chain, prov, []*pairingtypes.QualityOfServiceReport{q}, []uint64{cu})
	}
	perm := s.R.Perm(len(paired))
	switch m := s.R.Intn(12); {
	case m < 6: // spread: several paired providers, each its own report
		k := 1 + s.R.Intn(len(paired))
		for _, i := range perm[:k] {
			one(s.repReport(over1, astro), s.repCU(), paired[i])
		}
	case m < 8: // tie: the same report and weight to every paired provider
		q, cu := s.repReport(over1, astro), s.repCU()
		for _, i := range perm {
			qq := *q
			one(&qq, cu, paired[i])
		}
	case m == 8: // perfect report(s): score exactly zero
		k := 1 + s.R.Intn(min(2, len(paired)))
		for _, i := range perm[:k] {
			one(&pairingtypes.QualityOfServiceReport{Latency: sdk.ZeroDec(), Sync: sdk.ZeroDec(), Availability: sdk.OneDec()}, s.repCU(), paired[i])
		}
	case m == 9: // zero availability (the report is invalid)
		q := s.repReport(over1, astro)
		q.Availability = sdk.ZeroDec()
		one(q, s.repCU(), paired[perm[0]])
	default: // several sessions with different reports in one tx
		n := 2 + s.R.Intn(2)
		var qs []*pairingtypes.QualityOfServiceReport
		var cus []uint64
		for i := 0; i < n; i++ {
			qs = append(qs, s.repReport(over1, astro))
			cus = append(cus, s.repCU())
		}
		s.repSend(name, dev, chain, paired[perm[0]], qs, cus)
	}
}

func (s *Sim) repSetHalfLife(h uint64) {
	s.paramChange("pairing", "ReputationHalfLifeFactor", fmt.Sprintf("\"%d\"", h))
}

// repOldestUpdate returns the oldest TimeLastUpdated among the stored reputations (now when there is none) and
// whether some reputation was left behind by the last epoch start (possible only after an aborted update).
func (s *Sim) repOldestUpdate() (oldest int64, stale bool) {
	oldest = s.TS.Ctx.BlockTime().UTC().Unix()
	for _, g := range s.TS.Keepers.Pairing.GetAllReputation(s.TS.Ctx) {
		if g.Reputation.TimeLastUpdated < oldest {
			oldest = g.Reputation.TimeLastUpdated
		}
		if g.Reputation.TimeLastUpdated < s.epochT0.UTC().Unix() && g.Reputation.CreationTime < s.epochT0.UTC().Unix() {
			stale = true
		}
	}
	return oldest, stale
}

// repPersistentHalfLife picks a half-life factor that may stay in force for any number of later epochs: the decay
// computation e^(t/h) overflows (a BeginBlock panic, which is C37's matter, not C24's) beyond t/h ~ 176, so with
// t <= MaxEpochSpan anything >= safeHalfLife is fine; when some reputation is no longer updated at epoch starts its
// t grows without bound and only the default (one year) is used.
func (s *Sim) repPersistentHalfLife() uint64 {
	if _, stale := s.repOldestUpdate(); stale {
		return pairingtypes.DefaultReputationHalfLifeFactor
	}
	return []uint64{safeHalfLife, 6 * 3600, 86400, 30 * 86400, pairingtypes.DefaultReputationHalfLifeFactor}[s.R.Intn(5)]
}

// opRepParam: governance changes of the reputation params.
func (s *Sim) opRepParam() {
	switch s.R.Intn(4) {
	case 0:
		s.repSetHalfLife(s.repPersistentHalfLife())
	case 1, 2:
		p := []int64{pairingtypes.DefaultReputationVarianceStabilizationPeriod, 0, 3600, 10 * 365 * 86400, 10 * 365 * 86400}[s.R.Intn(5)]
		s.paramChange("pairing", "ReputationVarianceStabilizationPeriod", fmt.Sprintf("\"%d\"", p))
	default:
		f := []string{"0.300000000000000000", "0.000000000000000000", "1.000000000000000000", "0.050000000000000000"}[s.R.Intn(4)]
		s.paramChange("pairing", "ReputationLatencyOverSyncFactor", fmt.Sprintf("%q", f))
	}
}

// opRepDecay: one epoch start under a chosen ratio (time since the oldest last update) / (half-life factor), from a
// fraction to far beyond the point where the decay factor rounds to zero; a half-life that is safe for any later
// epoch is restored before any other op runs. Also the degenerate factors 0 and 2^62.
func (s *Sim) opRepDecay() {
	ctx := s.TS.Ctx
	blocksLeft := int64(s.TS.GetNextEpoch()) - ctx.BlockHeight()
	if blocksLeft < 1 {
		blocksLeft = 1
	}
	blockTime := int64(s.TS.Keepers.Downtime.GetParams(ctx).DowntimeDuration / time.Second)
	oldest, _ := s.repOldestUpdate()
	t := ctx.BlockTime().UTC().Unix() - oldest + blocksLeft*blockTime
	var h uint64
	switch r := s.R.Intn(12); r {
	case 0:
		h = 0
	case 1:
		h = 1 << 62
	default:
		ratio := []int64{1, 3, 10, 20, 40, 42, 45, 60, 100, 160}[r-2]
		if r == 2 && s.R.Intn(2) == 0 {
			h = uint64(t * 2) // ratio 0.5
		} else {
			h = uint64(t/ratio) + 1
		}
	}
	s.repSetHalfLife(h)
	s.NextEpoch()
	s.repSetHalfLife(s.repPersistentHalfLife())
}

// opRepIdle: several epochs without any report, with long blocks (gaps within the driver's realism bounds).
func (s *Sim) opRepIdle() {
	n := 1 + s.R.Intn(6)
	for i := 0; i < n && !s.Halted; i++ {
		switch s.R.Intn(4) {
		case 0:
			s.NextBlock(MaxGap)
			s.NextBlock(MaxGap)
		case 1:
			s.NextBlock(time.Duration(1+s.R.Intn(72)) * time.Hour)
		}
		s.NextEpoch()
	}
}

// ---------------------------------------------------------------- monitor

type repItem struct {
	Provider string `json:"provider"`
	Qos      string `json:"qos_score"`
	Pairing  string `json:"pairing_score"`
	Stake    string `json:"stake"`
	EntryBlk uint64 `json:"pairing_entry_block"`
	Fresh    bool   `json:"reported_in_ended_epoch"`
	qos      sdk.Dec
	pairing  sdk.Dec
	stake    sdk.Dec
}

// RepMon: C24.
type RepMon struct {
	BaseMon
	Run  *ev.Run
	Hist string

	last     map[string]pairingtypes.Reputation // stored reputations as of the last read (key chain|cluster|provider)
	fresh    map[string]bool                    // reputations that took a report since the last epoch start
	idle     map[string]int                     // consecutive epoch starts without a report
	Clusters map[string]bool
	sampled  int
	// number of invalid stored reputations at the last read
	invalidNow int
}

func NewRepMon(run *ev.Run, hist string) *RepMon {
	return &RepMon{Run: run, Hist: hist, last: map[string]pairingtypes.Reputation{}, fresh: map[string]bool{}, idle: map[string]int{}, Clusters: map[string]bool{}}
}

func repKey(chain, cluster, provider string) string { return chain + "|" + cluster + "|" + provider }

func (m *RepMon) wit(s *Sim, step int, extra map[string]any) map[string]any {
	w := map[string]any{"history": m.Hist, "seed": s.Seed, "profile": s.prof.Name, "step": step, "log_tail": s.LogTail(40)}
	for k, v := range extra {
		w[k] = v
	}
	return w
}

// invalidWhy names the first clause of Reputation.Validate that fails ("" when the reputation is valid).
func invalidWhy(r pairingtypes.Reputation) string {
	if r.Validate() {
		return ""
	}
	neg := func(d sdk.Dec) bool { return d.IsNil() || d.IsNegative() }
	nonpos := func(d sdk.Dec) bool { return d.IsNil() || !d.IsPositive() }
	switch {
	case r.CreationTime <= 0 || r.TimeLastUpdated <= 0 || r.TimeLastUpdated < r.CreationTime:
		return "creation / last-update times inconsistent"
	case neg(r.EpochScore.Score.Num):
		return "EpochScore.Score.Num negative"
	case nonpos(r.EpochScore.Score.Denom):
		return "EpochScore.Score.Denom not positive"
	case neg(r.EpochScore.Variance.Num):
		return "EpochScore.Variance.Num negative"
	case nonpos(r.EpochScore.Variance.Denom):
		return "EpochScore.Variance.Denom not positive"
	case neg(r.Score.Score.Num):
		return "Score.Score.Num negative"
	case nonpos(r.Score.Score.Denom):
		return "Score.Score.Denom not positive"
	case neg(r.Score.Variance.Num):
		return "Score.Variance.Num negative"
	case nonpos(r.Score.Variance.Denom):
		return "Score.Variance.Denom not positive"
	}
	return "stake denom"
}

// readAll reads every stored reputation, checks Validate and refreshes m.last.
func (m *RepMon) readAll(s *Sim, step int, when string) []pairingtypes.ReputationGenesis {
	all := s.TS.Keepers.Pairing.GetAllReputation(s.TS.Ctx)
	m.invalidNow = 0
	for _, g := range all {
		k := repKey(g.ChainId, g.Cluster, g.Provider)
		if why := invalidWhy(g.Reputation); why != "" {
			m.invalidNow++
			m.Run.Count("invalid_stored_reputations_seen", 1)
			sig := when + ": " + why
			if p, ok := m.last[k]; ok && invalidWhy(p) != "" {
				// consequence of an earlier (already reported) violation: one signature wherever it is seen again
				sig = "reputation was already invalid before (" + invalidWhy(p) + ") and is still stored"
			}
			m.Run.Violation("stored-reputation-invalid", sig,
				fmt.Sprintf("%s %s provider %s: stored reputation fails Validate(): %s", g.ChainId, g.Cluster, g.Provider, g.Reputation.String()),
				m.wit(s, step, map[string]any{"chain": g.ChainId, "cluster": g.Cluster, "provider": g.Provider, "reputation": g.Reputation.String()}))
		}
		m.last[k] = g.Reputation
	}
	m.Run.Count("reputation_validations", len(all))
	return all
}

func (m *RepMon) AfterTx(s *Sim, r *TxRes) {
	rp, ok := r.Msg.(*pairingtypes.MsgRelayPayment)
	if !ok {
		return
	}
	withExc, zeroAv, over1 := 0, 0, 0
	for _, rs := range rp.Relays {
		if q := rs.QosExcellenceReport; q != nil {
			withExc++
			if !q.Availability.IsNil() && q.Availability.IsZero() {
				zeroAv++
			}
			if !q.Availability.IsNil() && q.Availability.GT(sdk.OneDec()) {
				over1++
			}
		}
	}
	if withExc == 0 {
		return
	}
	m.Run.Count("relay_txs_with_excellence_report", 1)
	if zeroAv > 0 {
		m.Run.Count("zero_availability_reports_submitted", zeroAv)
		if !r.OK() {
			m.Run.Count("zero_availability_txs_rejected", 1)
		} else {
			m.Run.Count("zero_availability_txs_accepted", 1)
		}
	}
	if r.Panic != "" {
		m.Run.Count("relay_txs_with_report_panicked_and_rolled_back", 1)
	}
	if !r.OK() {
		return
	}
	if over1 > 0 {
		m.Run.Count("availability_above_one_reports_accepted", over1)
	}
	m.Run.Count("relay_txs_with_excellence_report_accepted", 1)
	// UpdateReputationEpochQosScore ran: every stored reputation must still validate
	when := "after a relay payment"
	if over1 > 0 {
		when = "after a relay payment whose excellence report has availability > 1"
	}
	for _, g := range m.readAll(s, r.Step, when) {
		if !g.Reputation.EpochScore.Equal(pairingtypes.ZeroQosScore) {
			m.fresh[repKey(g.ChainId, g.Cluster, g.Provider)] = true
		}
	}
}

func resolveFrac(f pairingtypes.Frac) (d sdk.Dec, ok bool) {
	defer func() {
		if recover() != nil {
			ok = false
		}
	}()
	d, err := f.Resolve()
	return d, err == nil
}

func (m *RepMon) AfterBlock(s *Sim, b *BlockRes) {
	if b.Panic != "" {
		m.Run.Count("block_panics", 1)
		m.Run.Count("block_panic:"+b.Phase, 1)
		return
	}
	if !b.EpochStart {
		return
	}
	m.checkEpochStart(s, b)
}

func (m *RepMon) checkEpochStart(s *Sim, b *BlockRes) {
	ctx := s.TS.Ctx
	k := s.TS.Keepers.Pairing
	now := b.Time.UTC().Unix()
	height := uint64(b.Height)
	pre := map[string]pairingtypes.Reputation{}
	for key, r := range m.last {
		pre[key] = r
	}
	half := int64(k.ReputationHalfLifeFactor(ctx))
	m.Run.Count("epoch_starts_checked", 1)
	all := m.readAll(s, b.Step, "after an epoch start")

	// (1) bounds: every version of every stored pairing score
	gs := k.ExportReputations(ctx)
	nScores := 0
	for _, ge := range gs.Entries {
		for _, e := range ge.Entries {
			var ps pairingtypes.ReputationPairingScore
			if err := ps.Unmarshal(e.Data); err != nil {
				continue
			}
			nScores++
			if ps.Score.IsNil() || ps.Score.LT(pairingtypes.MinReputationPairingScore) || ps.Score.GT(pairingtypes.MaxReputationPairingScore) {
				side := "above the maximum"
				if !ps.Score.IsNil() && ps.Score.LT(pairingtypes.MinReputationPairingScore) {
					side = "below the minimum"
				}
				m.Run.Violation("pairing-score-out-of-bounds", "stored reputation pairing score "+side,
					fmt.Sprintf("entry %q block %d: pairing score %s not in [%s, %s]", ge.Index, e.Block, ps.Score, pairingtypes.MinReputationPairingScore, pairingtypes.MaxReputationPairingScore),
					m.wit(s, b.Step, map[string]any{"entry": ge.Index, "entry_block": e.Block, "score": ps.Score.String()}))
			}
		}
	}
	m.Run.Count("pairing_score_versions_bound_checked", nScores)

	// (2) order among the providers of one (chain, cluster) updated at this epoch start
	groups := map[string][]*repItem{}
	skipped := map[string]bool{}
	var gkeys []string
	for _, g := range all {
		key := repKey(g.ChainId, g.Cluster, g.Provider)
		r := g.Reputation
		if m.fresh[key] {
			m.idle[key] = 0
		} else {
			m.idle[key]++
			if m.idle[key] == 10 || m.idle[key] == 50 {
				m.Run.Count(fmt.Sprintf("reputations_idle_for_%d_epochs", m.idle[key]), 1)
			}
		}
		if p, ok := pre[key]; ok && r.TimeLastUpdated == now {
			dt := now - p.TimeLastUpdated
			if half > 0 && dt/half >= 10 {
				m.Run.Count("updates_with_gap_over_10_half_life_factors", 1)
			}
			if (half <= 0 || dt/half >= 45) && p.Score.Score.Num.IsPositive() && r.Score.Score.Num.Equal(p.EpochScore.Score.Num) {
				m.Run.Count("updates_where_decay_erased_the_old_score", 1)
			}
			if dt >= 3*86400 {
				m.Run.Count("updates_after_gap_of_3_days_or_more", 1)
			}
		}
		if r.TimeLastUpdated != now {
			m.Run.Count("reputations_not_updated_at_epoch_start", 1)
			continue
		}
		m.Run.Count("reputations_updated_at_epoch_start", 1)
		gk := g.ChainId + "|" + g.Cluster
		qos, ok := resolveFrac(r.Score.Score)
		if !ok {
			m.Run.Count("updated_reputations_with_unresolvable_score", 1)
			skipped[gk] = true
			continue
		}
		ps, entryBlock, found := k.GetReputationScoreForBlock(ctx, g.ChainId, g.Cluster, g.Provider, height)
		if !found {
			m.Run.Count("updated_reputations_without_pairing_score", 1)
			skipped[gk] = true
			continue
		}
		if _, ok := groups[gk]; !ok {
			gkeys = append(gkeys, gk)
		}
		groups[gk] = append(groups[gk], &repItem{Provider: g.Provider, Qos: qos.String(), Pairing: ps.String(), Stake: r.Stake.Amount.String(), EntryBlk: entryBlock, Fresh: m.fresh[key], qos: qos, pairing: ps, stake: r.Stake.Amount.ToLegacyDec()})
		switch {
		case ps.Equal(pairingtypes.MaxReputationPairingScore):
			m.Run.Count("pairing_scores_at_max_clamp", 1)
		case ps.Equal(pairingtypes.MinReputationPairingScore):
			m.Run.Count("pairing_scores_at_min_clamp", 1)
		default:
			m.Run.Count("pairing_scores_interior", 1)
		}
	}
	sort.Strings(gkeys)
	for _, gk := range gkeys {
		items := groups[gk]
		sort.SliceStable(items, func(i, j int) bool {
			if items[i].qos.Equal(items[j].qos) {
				return items[i].Provider < items[j].Provider
			}
			return items[i].qos.LT(items[j].qos)
		})
		nFresh, distinct, ties, tiesNZ := 0, 1, 0, 0
		for i, it := range items {
			if it.Fresh {
				nFresh++
			}
			if i > 0 {
				if it.qos.Equal(items[i-1].qos) {
					ties++
					if !it.qos.IsZero() {
						tiesNZ++
					}
				} else {
					distinct++
				}
			}
		}
		m.Run.Count("groups_checked", 1)
		if m.invalidNow == 0 && !skipped[gk] {
			m.benchmarkDiag(items)
		}
		m.Run.Count("equal_qos_score_ties", ties)
		m.Run.Count("equal_nonzero_qos_score_ties", tiesNZ)
		if len(items) >= 3 {
			m.Run.Count("groups_with_3_or_more_updated", 1)
		}
		if nFresh >= 3 {
			m.Run.Count("groups_with_3_or_more_reported_in_ended_epoch", 1)
		}
		if len(items) >= 10 {
			m.Run.Count("groups_with_10_or_more_updated", 1)
		}
		// for every b: the lowest pairing score among providers with a strictly better (lower) QoS score must be >= pairing(b)
		var worstBetter *repItem // lowest pairing score among strictly better QoS scores
		var runMin *repItem      // lowest pairing score in the current run of equal QoS scores
		for i, it := range items {
			if i > 0 && !it.qos.Equal(items[i-1].qos) {
				if worstBetter == nil || runMin.pairing.LT(worstBetter.pairing) {
					worstBetter = runMin
				}
				runMin = nil
			}
			if worstBetter != nil {
				m.Run.Count("order_comparisons", 1)
				if worstBetter.pairing.LT(it.pairing) {
					stale := "both pairing scores written at this epoch start"
					if worstBetter.EntryBlk != height || it.EntryBlk != height {
						stale = "a pairing score of an updated provider was not rewritten at this epoch start"
						if m.invalidNow > 0 {
							stale += " (an invalid stored reputation makes UpdateReputationsForEpochStart return early)"
						}
					}
					m.Run.Violation("order-not-preserved", stale,
						fmt.Sprintf("block %d %s: provider %s qos %s pairing %s (entry block %d) is better than provider %s qos %s but that one has pairing %s (entry block %d)",
							height, gk, worstBetter.Provider, worstBetter.Qos, worstBetter.Pairing, worstBetter.EntryBlk, it.Provider, it.Qos, it.Pairing, it.EntryBlk),
						m.wit(s, b.Step, map[string]any{"group": gk, "block": height, "providers_sorted_by_qos": items}))
				}
			}
			if runMin == nil || it.pairing.LT(runMin.pairing) {
				runMin = it
			}
		}
		if len(items) >= 2 && distinct >= 2 && nFresh >= 1 {
			m.Run.Nontrivial(fmt.Sprintf("%s|%d|%s", m.Hist, height, gk))
			cluster := gk[indexByte(gk, '|')+1:]
			m.Clusters[cluster] = true
			if m.sampled < 1 && len(items) >= 4 && distinct >= 3 {
				m.sampled++
				m.Run.Sample(map[string]any{"history": m.Hist, "epoch_start_block": height, "group": gk, "providers_sorted_by_qos": items})
			}
		}
	}
	m.fresh = map[string]bool{}
}

// benchmarkDiag is a diagnostic, never a verdict (the statement does not fix the benchmark): it recomputes the
// pairing scores of one fully updated group from the documented rule (benchmark = QoS score of the provider at
// which the stake, accumulated from the best score upwards, first reaches 10% of the group's stake; score <=
// benchmark -> max, else min + (max-min) * benchmark/score) and counts how many stored scores agree.
// items are sorted by (qos, provider), which is the order the code sorts in.
func (m *RepMon) benchmarkDiag(items []*repItem) {
	defer func() { _ = recover() }()
	total := sdk.ZeroDec()
	for _, it := range items {
		total = total.Add(it.stake)
	}
	threshold := pairingtypes.ReputationPairingScoreBenchmarkStakeThreshold.Mul(total)
	agg := sdk.ZeroDec()
	bench := items[0].qos
	for _, it := range items {
		agg = agg.Add(it.stake)
		if agg.GTE(threshold) {
			bench = it.qos
			break
		}
	}
	scale := pairingtypes.MaxReputationPairingScore.Sub(pairingtypes.MinReputationPairingScore)
	for _, it := range items {
		want := pairingtypes.MaxReputationPairingScore
		if !it.qos.IsZero() && it.qos.GT(bench) {
			want = pairingtypes.MinReputationPairingScore.Add(bench.Quo(it.qos).Mul(scale))
		}
		if want.Equal(it.pairing) {
			m.Run.Count("diag_pairing_scores_equal_to_documented_benchmark_formula", 1)
		} else {
			m.Run.Count("diag_pairing_scores_differing_from_documented_benchmark_formula", 1)
		}
	}
}

func indexByte(s string, c byte) int {
	for i := 0; i < len(s); i++ {
		if s[i] == c {
			return i
		}
	}
	return -1
}

// Final: one more read of everything at the end of the history.
func (m *RepMon) Final(s *Sim) {
	if s.Halted {
		return
	}
	m.readAll(s, s.Step, "at the end of the history")
}

var _ = context.Background
