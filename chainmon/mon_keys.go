//go:build verif

package chainmon

import (
	"fmt"
	"sort"

	projectstypes "github.com/lavanet/lava/v5/x/projects/types"

	"verif/internal/ev"
)

// KeyMon: C17, first sentence. After every tx and block, at the current block and at the next epoch start (where pending
// key / project changes are in force): every key the developer registry resolves must resolve to a project that exists
// there and lists it as a developer key; no developer key is listed by two live projects; a developer key listed by a
// live project resolves to that project.
type KeyMon struct {
	BaseMon
	Run  *ev.Run
	Hist string

	Checks, Resolved, DualKind int
}

func (m *KeyMon) wit(s *Sim, step int) map[string]any {
	return map[string]any{"history": m.Hist, "seed": s.Seed, "profile": s.prof.Name, "step": step, "log_tail": s.LogTail(30)}
}

func (m *KeyMon) check(s *Sim, where string, step int) {
	ctx := s.TS.Ctx
	ks := s.TS.Keepers
	blocks := []uint64{uint64(ctx.BlockHeight()), ks.Epochstorage.GetCurrentNextEpoch(ctx)}
	// universe of keys: every index of the developer registry (raw export) and every key of every project of the consumers
	keys := map[string]bool{}
	for _, ge := range ks.Projects.ExportDevelopers(ctx).Entries {
		keys[ge.Index] = true
	}
	var projects []string
	for _, c := range s.Cons {
		projects = append(projects, ks.Projects.GetAllProjectsForSubscription(ctx, c.Addr)...)
	}
	sort.Strings(projects)
	for _, b := range blocks {
		at := "now"
		if b != blocks[0] {
			at = "next-epoch"
		}
		listedBy := map[string][]string{} // developer key -> live projects listing it at b
		for _, pid := range projects {
			p, err := ks.Projects.GetProjectForBlock(ctx, pid, b)
			if err != nil {
				continue
			}
			for _, pk := range p.ProjectKeys {
				keys[pk.Key] = true
				if pk.IsType(projectstypes.ProjectKey_DEVELOPER) {
					listedBy[pk.Key] = append(listedBy[pk.Key], pid)
					if pk.IsType(projectstypes.ProjectKey_ADMIN) {
						m.DualKind++
					}
				}
			}
		}
		for _, k := range sortedKeysB(keys) {
			m.Checks++
			dd, err := ks.Projects.GetProjectDeveloperData(ctx, k, b)
			if err == nil {
				m.Resolved++
				p, perr := ks.Projects.GetProjectForBlock(ctx, dd.ProjectID, b)
				if perr != nil {
					m.Run.Violation("developer-key-resolves-to-a-deleted-project", at, fmt.Sprintf("%s: at block %d key %s resolves to project %s, which does not exist there: %v", where, b, k, dd.ProjectID, perr), m.wit(s, step))
				} else if !p.GetKey(k).IsType(projectstypes.ProjectKey_DEVELOPER) {
					m.Run.Violation("developer-key-resolves-to-a-project-that-does-not-list-it", at, fmt.Sprintf("%s: at block %d key %s resolves to project %s whose key list does not have it as a developer key", where, b, k, dd.ProjectID), m.wit(s, step))
				} else {
					m.Run.Nontrivial(fmt.Sprintf("%s:key:%s:%s", m.Hist, k, dd.ProjectID))
				}
			}
			if l := listedBy[k]; len(l) > 1 {
				m.Run.Violation("developer-key-in-two-projects", at, fmt.Sprintf("%s: at block %d key %s is a developer key of %v", where, b, k, l), m.wit(s, step))
			} else if len(l) == 1 && (err != nil || dd.ProjectID != l[0]) {
				got := "nothing"
				if err == nil {
					got = dd.ProjectID
				}
				m.Run.Violation("listed-developer-key-resolves-elsewhere", at, fmt.Sprintf("%s: at block %d project %s lists developer key %s, which resolves to %s", where, b, l[0], k, got), m.wit(s, step))
			}
		}
	}
}

func sortedKeysB(m map[string]bool) []string {
	out := make([]string, 0, len(m))
	for k := range m {
		out = append(out, k)
	}
	sort.Strings(out)
	return out
}

func (m *KeyMon) AfterTx(s *Sim, r *TxRes) {
	switch r.Name {
	case "addkeys", "delkeys", "addproject", "delproject", "buy", "buy_then_upgrade":
		m.check(s, "after tx "+r.Name+" "+r.Desc, r.Step)
	}
}

func (m *KeyMon) AfterBlock(s *Sim, b *BlockRes) {
	if b.Panic != "" {
		return
	}
	m.check(s, fmt.Sprintf("after block %d", b.Height), b.Step)
}
