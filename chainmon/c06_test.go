//go:build verif

package chainmon

import (
	"fmt"
	"testing"

	"verif/internal/ev"
)

func profStaking() *Profile {
	w := map[string]int{
		"block": 25, "epoch": 4, "longblock": 3, "month": 1,
		"stake": 6, "modify": 6, "movestake": 4, "unstake": 4, "freeze": 1, "unfreeze": 1,
		"ds_delegate": 8, "ds_redelegate": 7, "ds_unbond": 7, "ds_claim": 2,
		"st_delegate": 6, "st_undelegate": 7, "st_redelegate": 6, "st_cancel": 4, "st_batch": 3, "slash": 3,
		"buy": 1, "relay": 6,
	}
	return &Profile{Name: "staking", W: w, Providers: 6, Consumers: 2, Delegators: 4, Validators: 3, KeepPools: true}
}

func TestC06(t *testing.T) {
	run := ev.Start("C06")
	nHist, nOps := run.Pick(16, 200), run.Pick(500, 1500)
	for h := 0; h < nHist; h++ {
		var mm *MirrorMon
		s := History(t, run, profStaking(), h, nOps, func(id string) []Monitor {
			mm = &MirrorMon{Run: run, Hist: id}
			return []Monitor{mm}
		})
		run.Count("delegator_balance_checks", mm.Checks)
		run.Count("exact_checks_right_after_own_rebalancing_tx", mm.Exact)
		run.Count("checks_on_delegators_with_provider_delegations_or_several_validators", mm.NonTriv)
		if s.Stats["ok:st_undelegate"]+s.Stats["ok:st_redelegate"]+s.Stats["ok:slash"] > 0 && s.Stats["ok:ds_unbond"]+s.Stats["ok:ds_redelegate"] > 0 {
			run.Nontrivial(fmt.Sprintf("hist%d", h))
		}
		if h == 0 {
			run.Sample(map[string]any{"history": 0, "first_ops": s.Log[:min(len(s.Log), 30)]})
		}
	}
	for _, k := range []string{"st_delegate", "st_undelegate", "st_redelegate", "st_cancel", "slash", "ds_delegate", "ds_redelegate", "ds_unbond", "stake", "movestake", "unstake"} {
		run.Require("successful "+k, run.Counter("ok:"+k) > 0)
	}
	run.Require("batched x/staking txs with a redelegation among the messages were sent and rejected", run.Counter("tx:st_batch") > run.Counter("ok:st_batch") && run.Counter("ok:st_batch") > 0)
	run.Finish("staking-heavy generated histories (single-message txs and batches of 2-3 x/staking messages with a redelegation in a random position); after every tx and block, for every delegator known to x/staking or dualstaking, |sum validator tokens - sum provider delegations| <= number of validator delegations (the code's own per-delegation ceil) and no negative amount; suspended between a slash and the next block boundary; a history is non-trivial when it contains successful x/staking undelegate/redelegate/slash AND dualstaking unbond/redelegate", nHist/2,
		"quiescent = after a committed tx or a finished block; failed txs are rolled back like baseapp does")
}

func TestC07(t *testing.T) {
	run := ev.Start("C07")
	nHist, nOps := run.Pick(16, 200), run.Pick(500, 1500)
	for h := 0; h < nHist; h++ {
		var sm *StakeMon
		s := History(t, run, profStaking(), h, nOps, func(id string) []Monitor {
			sm = &StakeMon{Run: run, Hist: id}
			return []Monitor{sm}
		})
		run.Count("structural_checks", sm.Checks)
		run.Count("providers_touched_by_a_tx", sm.Touched)
		run.Count("entries_that_fell_below_min_stake", sm.Froze)
		if sm.Touched > 20 {
			run.Nontrivial(fmt.Sprintf("hist%d", h))
		}
		if h == 0 {
			run.Sample(map[string]any{"history": 0, "first_ops": s.Log[:min(len(s.Log), 30)]})
		}
	}
	for _, k := range []string{"ds_delegate", "ds_redelegate", "ds_unbond", "stake", "movestake", "unstake", "slash"} {
		run.Require("successful "+k, run.Counter("ok:"+k) > 0)
	}
	run.Require("an entry fell below the spec minimum", run.Counter("entries_that_fell_below_min_stake") > 0)
	run.Finish("staking-heavy generated histories with multi-chain providers; structural clauses (metadata.Chains == chains with entries, metadata iff entries, sum(Stake) == vault delegation, TotalDelegations == sum non-vault delegations) after every tx and block; DelegateTotal == floor share and under-min => frozen for providers whose stakes/delegations were changed by the tx just executed; a history is non-trivial when > 20 provider-touching txs committed", nHist/2,
		"touched providers are found by diffing stakes / delegations / TotalDelegations around each tx")
}
