//go:build verif

package chainmon

import (
	"fmt"
	"os"
	"sort"
	"testing"

	sdk "github.com/cosmos/cosmos-sdk/types"
	pairingtypes "github.com/lavanet/lava/v5/x/pairing/types"

	"verif/internal/ev"
)

// profRep: four world shapes; the hostile one (variant 3) is the only one that submits reports whose
// availability is above 1 or whose metrics are astronomically large, so that the other three keep
// checking the property on histories that contain only plausible reports.
func profRep(variant int) *Profile {
	w := map[string]int{
		"block": 14, "epoch": 10, "longblock": 1,
		"stake": 1, "modify": 2, "unstake": 1, "freeze": 1, "unfreeze": 1, "ds_delegate": 2, "ds_unbond": 1,
		"buy": 3, "autorenew": 1, "addproject": 1, "addkeys": 1,
		"relay":     4,
		"rep_relay": 45, "rep_param": 3, "rep_decay": 3, "rep_idle": 2,
	}
	p := &Profile{Name: fmt.Sprintf("rep%d", variant), W: w, Consumers: 6, Delegators: 2, Validators: 2, KeepPools: true, EpochsToSave: 5, EpochBlocks: 4}
	switch variant {
	case 0:
		p.Providers = 7
	case 1:
		p.Providers = 30
		p.Consumers = 8
		w["rep_relay"] = 60
	case 2:
		p.Providers = 12
		w["rep_decay"] = 8
		w["rep_idle"] = 6
		w["rep_param"] = 5
		w["month"] = 1
	default:
		p.Providers = 5
		w["rep_relay_over1"] = 10
		w["rep_relay_astro"] = 5
	}
	return p
}

func TestC24(t *testing.T) {
	run := ev.Start("C24")
	nHist, nOps := run.Pick(8, 48), run.Pick(450, 1500)
	clusters := map[string]bool{}
	for h := 0; h < nHist; h++ {
		var rm *RepMon
		s := History(t, run, profRep(h%4), h, nOps, func(id string) []Monitor {
			rm = NewRepMon(run, id)
			return []Monitor{rm}
		})
		rm.Final(s)
		for c := range rm.Clusters {
			clusters[c] = true
		}
		if s.Halted {
			run.Count("histories_halted_by_a_block_panic", 1)
		}
	}
	var cl []string
	for c := range clusters {
		cl = append(cl, c)
	}
	sort.Strings(cl)
	run.Set("clusters_with_ordered_groups", cl)
	run.Require("epoch starts with >= 3 providers updated in one (chain, cluster)", run.Counter("groups_with_3_or_more_updated") > 0)
	run.Require("epoch starts with >= 3 providers of one (chain, cluster) that took reports in the ended epoch", run.Counter("groups_with_3_or_more_reported_in_ended_epoch") > 0)
	run.Require("pairing scores at the max clamp", run.Counter("pairing_scores_at_max_clamp") > 0)
	run.Require("pairing scores at the min clamp", run.Counter("pairing_scores_at_min_clamp") > 0)
	run.Require("pairing scores strictly inside the range", run.Counter("pairing_scores_interior") > 0)
	run.Require("equal QoS score ties", run.Counter("equal_qos_score_ties") > 0)
	run.Require("equal non-zero QoS score ties", run.Counter("equal_nonzero_qos_score_ties") > 0)
	run.Require("zero availability reports submitted", run.Counter("zero_availability_reports_submitted") > 0)
	run.Require("updates after a gap of >= 10 half-life factors", run.Counter("updates_with_gap_over_10_half_life_factors") > 0)
	run.Require("updates where decay erased the old score (factor rounds to zero)", run.Counter("updates_where_decay_erased_the_old_score") > 0)
	run.Require("updates after a gap of >= 3 days", run.Counter("updates_after_gap_of_3_days_or_more") > 0)
	run.Require("reputations idle for 10 epochs", run.Counter("reputations_idle_for_10_epochs") > 0)
	run.Require(">= 2 clusters", len(cl) >= 2)
	run.Finish("generated histories (3..30 providers, 6-8 consumers on three plans => several clusters) in which relay payments always carry a QoS excellence report: latency / sync from 0 and 1e-18 to the validation bound 1e9 (and rejected ones above it up to 9e18), availability from 1e-18 to 1, zero availability, identical reports to all paired providers (ties), perfect reports (score 0), several reports per tx, CU weights 0..5000, stake changes; governance changes of ReputationHalfLifeFactor / VarianceStabilizationPeriod / LatencyOverSyncFactor; epoch starts under (gap / half-life) ratios 0.5..160 and factors 0 and 2^62; idle runs of epochs with block gaps up to 3 days; one history shape in four also submits availability > 1 and metrics up to 9e37 (rejected by the report validation since the fixes). After every epoch-start block: every stored reputation must Validate, every version of every stored pairing score must lie in [0.5, 2], and inside each (chain, cluster) the providers whose TimeLastUpdated equals the block time are sorted by their stored QoS score (Score.Score.Num / Denom, the value the benchmark code ranks) and a strictly better score must not have a lower pairing score; after every accepted relay payment with a report every stored reputation must Validate. A non-trivial case is one (history, epoch start, chain, cluster) group with >= 2 updated providers, >= 2 distinct QoS scores and >= 1 provider that took a report in the ended epoch",
		10*nHist,
		"the order clause reads the QoS score from the stored Reputation after the update (the same Frac the code resolves and sorts), never from raw reports",
		"block gaps <= 3 days and epoch spans <= 7 days (driver realism bounds); decay ratios beyond that are reached through the ReputationHalfLifeFactor param, kept >= 3600 outside the single controlled epoch so that e^(t/h) stays representable")
}

// TestC24Replay re-runs one C24 history with its monitor and prints the op log:
// VERIF_SEED=<seed> VERIF_C24_HIST=<hist>:<nOps> go test -tags verif -run TestC24Replay -v ./chainmon/
// (the history id in a witness is "rep<hist%4>/seed=<seed>/hist=<hist>"; quick tier nOps = 450).
func TestC24Replay(t *testing.T) {
	var hist, nOps int
	if n, _ := fmt.Sscanf(os.Getenv("VERIF_C24_HIST"), "%d:%d", &hist, &nOps); n != 2 {
		t.Skip()
	}
	run := ev.Start("C24REPLAY")
	var rm *RepMon
	s := History(t, run, profRep(hist%4), hist, nOps, func(id string) []Monitor {
		rm = NewRepMon(run, id)
		return []Monitor{rm}
	})
	rm.Final(s)
	for _, l := range s.Log {
		fmt.Println(l)
	}
	run.Finish("replay", 0)
}

// TestC24Witness is the minimal hand-written witness of the finding "an excellence report with availability > 1
// stores an invalid reputation, which then makes every epoch-start update return early" (VERIF_C24_WITNESS=1).
func TestC24Witness(t *testing.T) {
	if os.Getenv("VERIF_C24_WITNESS") == "" {
		t.Skip()
	}
	s := NewSim(t, 24, profRep(0))
	s.BuildWorld()
	k := s.TS.Keepers.Pairing
	rep := func(lat string, av int64) *pairingtypes.QualityOfServiceReport {
		return &pairingtypes.QualityOfServiceReport{Latency: sdk.MustNewDecFromStr(lat), Sync: sdk.ZeroDec(), Availability: sdk.NewDec(av)}
	}
	for _, c := range s.Cons {
		paired := s.pairedProviders("SPB", c.Addr)
		sub, found := s.TS.Keepers.Subscription.GetSubscription(s.TS.Ctx, c.Addr)
		if len(paired) < 3 || !found {
			continue
		}
		sort.Strings(paired)
		a, b, p := paired[0], paired[1], paired[len(paired)-1] // p is iterated last by UpdateReputationsForEpochStart
		show := func(when string) (pa, pb sdk.Dec) {
			for _, x := range []string{a, b, p} {
				r, _ := k.GetReputation(s.TS.Ctx, "SPB", sub.Cluster, x)
				ps, eb, _ := k.GetReputationScoreForBlock(s.TS.Ctx, "SPB", sub.Cluster, x, uint64(s.TS.Ctx.BlockHeight()))
				q, _ := resolveFrac(r.Score.Score)
				fmt.Printf("%s h=%d t=%d %s: qos=%s pairing=%s (entry block %d) lastUpdated=%d valid=%v epochScoreNum=%s\n", when, s.TS.Ctx.BlockHeight(), s.TS.Ctx.BlockTime().Unix(), short(x), q, ps, eb, r.TimeLastUpdated, r.Validate(), r.EpochScore.Score.Num)
				if x == a {
					pa = ps
				}
				if x == b {
					pb = ps
				}
			}
			return
		}
		ep := int64(s.TS.EpochStart()) // all sessions belong to this epoch (it stays in memory), so the pairing is the one read above
		one := func(x string, q *pairingtypes.QualityOfServiceReport, cu uint64) {
			if r := s.repSendAt("rep_relay", c.Acc, "SPB", x, ep, []*pairingtypes.QualityOfServiceReport{q}, []uint64{cu}); !r.OK() {
				t.Fatalf("relay rejected: %v %s", r.Err, r.Panic)
			}
		}
		// epoch 1: a good, b bad, p in between; make a the one with the larger stake so that it is the benchmark
		ra, _ := s.TS.Keepers.Epochstorage.GetStakeEntryCurrent(s.TS.Ctx, "SPB", a)
		rb, _ := s.TS.Keepers.Epochstorage.GetStakeEntryCurrent(s.TS.Ctx, "SPB", b)
		if ra.TotalStake().LT(rb.TotalStake()) {
			a, b = b, a
		}
		one(a, rep("1", 1), 10)
		one(b, rep("5", 1), 10)
		one(p, rep("3", 1), 10)
		s.NextEpoch()
		pa, pb := show("after epoch start 1")
		// epoch 2: the QoS order of a and b flips; p gets one report with availability 2 (score = 0 + 0 + (1/2-1)*3 < 0)
		one(a, rep("1000", 1), 5000)
		one(b, rep("0.001", 1), 5000)
		one(p, rep("0", 2), 1)
		show("before epoch start 2")
		s.NextEpoch()
		pa2, pb2 := show("after epoch start 2")
		rp, _ := k.GetReputation(s.TS.Ctx, "SPB", sub.Cluster, p)
		if rp.Validate() {
			t.Fatalf("witness did not reproduce: reputation of p is valid")
		}
		fmt.Printf("WITNESS: stored reputation of %s invalid; pairing scores of a,b unchanged across the epoch start: %v; a now worse than b but pairing(a)=%s > pairing(b)=%s: %v\n",
			short(p), pa.Equal(pa2) && pb.Equal(pb2), pa2, pb2, pa2.GT(pb2))
		for _, l := range s.LogTail(12) {
			fmt.Println(l)
		}
		return
	}
	t.Fatalf("no consumer with >= 3 paired providers on SPB")
}
