//go:build verif

package chainmon

import (
	"fmt"
	"strings"

	"github.com/lavanet/lava/v5/utils/sigs"
	pairingtypes "github.com/lavanet/lava/v5/x/pairing/types"
)

type voteInfo struct{}

func (s *Sim) opConflict() {}

type signer struct {
	dev sigs.Account
}

// devFor finds the signing account of a developer address (consumer owner or dev key).
func (s *Sim) devFor(addr string) (sigs.Account, bool) {
	for _, c := range s.Cons {
		if c.Addr == addr {
			return c.Acc, true
		}
		for _, d := range c.Devs {
			if d.Addr.String() == addr {
				return d, true
			}
		}
	}
	return sigs.Account{}, false
}

func cloneSession(r *pairingtypes.RelaySession) *pairingtypes.RelaySession {
	b, err := r.Marshal()
	if err != nil {
		panic(err)
	}
	out := &pairingtypes.RelaySession{}
	if err := out.Unmarshal(b); err != nil {
		panic(err)
	}
	return out
}

// honestSessions builds n valid, signed sessions for a paired provider. ok=false when no pairing exists.
func (s *Sim) honestSessions(n int) (prov string, dev sigs.Account, chain string, relays []*pairingtypes.RelaySession, ok bool) {
	for try := 0; try < 4; try++ {
		c := s.Cons[s.R.Intn(len(s.Cons))]
		dev = c.Devs[s.R.Intn(len(c.Devs))]
		chain = vrandPick(s, s.Specs)
		paired := s.pairedProviders(chain, dev.Addr.String())
		if len(paired) == 0 {
			continue
		}
		prov = paired[s.R.Intn(len(paired))]
		epoch := s.relayEpoch()
		for i := 0; i < n; i++ {
			rs := s.newSession(dev, prov, chain, epoch, uint64(1+s.R.Intn(300)))
			signSession(dev, rs)
			relays = append(relays, rs)
		}
		return prov, dev, chain, relays, true
	}
	return "", sigs.Account{}, "", nil, false
}

// opRelayHostile: the hostile relay-payment family (DESIGN 1.3).
func (s *Sim) opRelayHostile() {
	kind := s.R.Intn(12)
	switch kind {
	case 0: // same proof twice inside one tx, interleaved with another session
		prov, _, _, rel, ok := s.honestSessions(2)
		if !ok {
			return
		}
		batch := []*pairingtypes.RelaySession{rel[0], rel[1], cloneSession(rel[0])}
		if s.R.Intn(2) == 0 {
			batch = []*pairingtypes.RelaySession{rel[0], cloneSession(rel[0])}
		}
		s.sendRelays("relay_dup_same_tx", prov, batch, fmt.Sprintf("prov=%s sid=%d twice in one tx (n=%d)", short(prov), rel[0].SessionId, len(batch)))
	case 1, 2: // resubmit a credited proof later (next block / epoch / much later)
		if len(s.Credited) == 0 {
			s.opRelay()
			return
		}
		r := s.pickCredited()
		batch := []*pairingtypes.RelaySession{cloneSession(r)}
		if kind == 2 { // mixed with a fresh valid session of the same provider: the whole tx must fail or credit only the new one
			if dev, ok := s.devFor(s.signerOf(r)); ok {
				n := s.newSession(dev, r.Provider, r.SpecId, r.Epoch, uint64(1+s.R.Intn(100)))
				signSession(dev, n)
				batch = append(batch, n)
			}
		}
		s.sendRelays("relay_dup_later", r.Provider, batch, fmt.Sprintf("prov=%s resubmit sid=%d epoch=%d (n=%d)", short(r.Provider), r.SessionId, r.Epoch, len(batch)))
	case 3: // same session re-signed with a different cumulative CU
		if len(s.Credited) == 0 {
			return
		}
		r := cloneSession(s.pickCredited())
		dev, ok := s.devFor(s.signerOf(r))
		if !ok {
			return
		}
		if s.R.Intn(2) == 0 {
			r.CuSum += uint64(1 + s.R.Intn(500))
		} else if r.CuSum > 1 {
			r.CuSum = 1 + uint64(s.R.Intn(int(r.CuSum)))
		}
		r.RelayNum++
		signSession(dev, r)
		s.sendRelays("relay_resigned_cu", r.Provider, []*pairingtypes.RelaySession{r}, fmt.Sprintf("prov=%s sid=%d re-signed cu=%d", short(r.Provider), r.SessionId, r.CuSum))
	case 4: // tampered after signing
		prov, _, _, rel, ok := s.honestSessions(1)
		if !ok {
			return
		}
		r := rel[0]
		what := s.R.Intn(5)
		switch what {
		case 0:
			r.CuSum += 1000
		case 1:
			r.SessionId += 77
		case 2:
			r.RelayNum += 3
		case 3:
			r.ContentHash = []byte("other")
		case 4:
			r.Sig[len(r.Sig)/2] ^= 0x40
		}
		s.sendRelays("relay_tampered", prov, rel, fmt.Sprintf("prov=%s sid=%d tamper=%d", short(prov), r.SessionId, what))
	case 5: // claimed by another provider (creator != relay.Provider) or unpaired provider as named provider
		_, dev, chain, rel, ok := s.honestSessions(1)
		if !ok {
			return
		}
		other := s.Provs[s.R.Intn(len(s.Provs))].Addr
		if s.R.Intn(2) == 0 {
			s.sendRelays("relay_wrong_creator", other, rel, fmt.Sprintf("creator=%s relay.provider=%s", short(other), short(rel[0].Provider)))
		} else {
			r := rel[0]
			r.Provider = other
			signSession(dev, r)
			s.sendRelays("relay_other_provider", other, rel, fmt.Sprintf("provider=%s chain=%s (may be unpaired)", short(other), chain))
		}
	case 6: // future epoch / stale epoch / negative
		prov, dev, _, rel, ok := s.honestSessions(1)
		if !ok {
			return
		}
		r := rel[0]
		switch s.R.Intn(3) {
		case 0:
			r.Epoch = s.TS.Ctx.BlockHeight() + 1 + int64(s.R.Intn(50))
		case 1:
			e := int64(s.TS.Keepers.Epochstorage.GetEarliestEpochStart(s.TS.Ctx))
			r.Epoch = max(e-1-int64(s.R.Intn(40)), 0)
		case 2:
			r.Epoch = -1
		}
		signSession(dev, r)
		s.sendRelays("relay_bad_epoch", prov, rel, fmt.Sprintf("prov=%s epoch=%d now=%d", short(prov), r.Epoch, s.TS.Ctx.BlockHeight()))
	case 7: // wrong lava chain id / unknown spec
		prov, dev, _, rel, ok := s.honestSessions(1)
		if !ok {
			return
		}
		r := rel[0]
		if s.R.Intn(2) == 0 {
			r.LavaChainId = "other-lava"
		} else {
			r.SpecId = "NOPE"
		}
		signSession(dev, r)
		s.sendRelays("relay_bad_ids", prov, rel, fmt.Sprintf("prov=%s lava=%s spec=%s", short(prov), r.LavaChainId, r.SpecId))
	case 8: // signed by a stranger (no project)
		prov, _, _, rel, ok := s.honestSessions(1)
		if !ok {
			return
		}
		stranger := s.newAccount(10)
		signSession(stranger, rel[0])
		s.sendRelays("relay_stranger", prov, rel, fmt.Sprintf("prov=%s signer=stranger", short(prov)))
	case 9: // non-epoch-start block inside the epoch (same epoch as far as the chain is concerned)
		prov, dev, _, rel, ok := s.honestSessions(1)
		if !ok {
			return
		}
		r := rel[0]
		cur := int64(s.TS.EpochStart())
		if s.TS.Ctx.BlockHeight() > cur {
			r.Epoch = cur + s.R.Int63n(s.TS.Ctx.BlockHeight()-cur+1)
		}
		signSession(dev, r)
		s.sendRelays("relay_mid_epoch_block", prov, rel, fmt.Sprintf("prov=%s epoch field=%d (epoch start %d)", short(prov), r.Epoch, cur))
	default: // badge relays
		s.opBadgeRelay()
	}
}

// signerOf recovers the signer of a valid session.
func (s *Sim) signerOf(r *pairingtypes.RelaySession) string {
	a, err := sigs.ExtractSignerAddress(r)
	if err != nil {
		return ""
	}
	if r.Badge != nil {
		if b, err := sigs.ExtractSignerAddress(*r.Badge); err == nil {
			return b.String()
		}
	}
	return a.String()
}

// Badges the generator keeps reusing, so that allocations are actually approached.
type badgeInfo struct {
	badge *pairingtypes.Badge
	user  sigs.Account
	dev   sigs.Account
	chain string
	prov  string // provider the badge is mostly used with (so that the allocation is actually approached)
	upper bool   // relays of this badge spell the provider in uppercase
}

var _ = badgeInfo{}

func (s *Sim) opBadgeRelay() {
	// pick or create a badge for the current epoch
	var bi *badgeInfo
	cur := s.TS.EpochStart()
	if len(s.badges) > 0 && s.R.Intn(3) != 0 {
		bi = s.badges[s.R.Intn(len(s.badges))]
	}
	if bi == nil {
		c := s.Cons[s.R.Intn(len(s.Cons))]
		dev := c.Devs[s.R.Intn(len(c.Devs))]
		if s.R.Intn(2) == 0 {
			dev = c.Acc // the subscription owner is always a developer of its admin project
		}
		user := s.newAccount(10)
		alloc := uint64(50 + s.R.Intn(600))
		b := pairingtypes.CreateBadge(alloc, cur, user.Addr, s.TS.Ctx.BlockHeader().ChainID, nil)
		sig, err := sigs.Sign(dev.SK, *b)
		if err != nil {
			panic(err)
		}
		b.ProjectSig = sig
		bi = &badgeInfo{badge: b, user: user, dev: dev, chain: vrandPick(s, s.Specs), upper: s.R.Intn(3) == 0}
		s.badges = append(s.badges, bi)
		if len(s.badges) > 12 {
			s.badges = s.badges[1:]
		}
	}
	paired := s.pairedProviders(bi.chain, bi.dev.Addr.String())
	if len(paired) == 0 {
		return
	}
	prov := paired[s.R.Intn(len(paired))]
	if bi.prov != "" && s.R.Intn(4) != 0 {
		for _, p := range paired {
			if p == bi.prov {
				prov = p
			}
		}
	}
	bi.prov = prov
	// 35-70% of the allocation per relay: the second or third relay of a (badge, provider) crosses it
	cu := bi.badge.CuAllocation*uint64(35+s.R.Intn(36))/100 + 1
	switch s.R.Intn(6) {
	case 0:
		cu = bi.badge.CuAllocation + uint64(s.R.Intn(3))
	case 1:
		cu = uint64(1 + s.R.Intn(int(bi.badge.CuAllocation)))
	}
	rs := s.newSession(bi.user, prov, bi.chain, int64(bi.badge.Epoch), cu)
	if bi.upper {
		rs.Provider = strings.ToUpper(prov) // the all-uppercase bech32 spelling of the same provider address
	}
	b := *bi.badge
	rs.Badge = &b
	variant := s.R.Intn(10)
	switch variant {
	case 0: // badge for another address
		other := s.newAccount(10)
		signSession(other, rs)
	case 1: // relay epoch differs from the badge epoch
		if int64(cur) != int64(bi.badge.Epoch) {
			rs.Epoch = int64(cur)
		}
		signSession(bi.user, rs)
	case 2: // badge lava chain id mismatch
		bb := *bi.badge
		bb.LavaChainId = "other"
		rs.Badge = &bb
		signSession(bi.user, rs)
	case 3: // inflated allocation after signing (project sig no longer matches => different signer)
		bb := *bi.badge
		bb.CuAllocation *= 10
		rs.Badge = &bb
		signSession(bi.user, rs)
	default:
		signSession(bi.user, rs)
	}
	s.sendRelays("relay_badge", prov, []*pairingtypes.RelaySession{rs}, fmt.Sprintf("prov=%s badge_user=%s alloc=%d badge_epoch=%d cu=%d variant=%d", short(prov), short(bi.user.Addr.String()), bi.badge.CuAllocation, bi.badge.Epoch, cu, variant))
}

// pickCredited picks an already credited session to replay: two times in three one whose epoch is still in the chain's
// memory (only those are stopped by the double-spend record rather than by the epoch check), otherwise any.
func (s *Sim) pickCredited() *pairingtypes.RelaySession {
	if s.R.Intn(3) != 0 {
		earliest := int64(s.TS.Keepers.Epochstorage.GetEarliestEpochStart(s.TS.Ctx))
		var inMem []*pairingtypes.RelaySession
		for _, r := range s.Credited {
			if r.Epoch >= earliest {
				inMem = append(inMem, r)
			}
		}
		if len(inMem) > 0 {
			return inMem[s.R.Intn(len(inMem))]
		}
	}
	return s.Credited[s.R.Intn(len(s.Credited))]
}
