//go:build verif

package chainmon

import (
	"fmt"
	"testing"

	"verif/internal/ev"
)

// EventCounter tallies lava events seen in txs and in block processing (evidence of reach).
type EventCounter struct {
	BaseMon
	Run *ev.Run
}

func (m *EventCounter) AfterTx(s *Sim, r *TxRes) {
	for _, e := range r.Events {
		m.Run.Count("ev_tx:"+evName(e), 1)
	}
}

func (m *EventCounter) AfterBlock(s *Sim, b *BlockRes) {
	for _, e := range b.BeginEvents {
		m.Run.Count("ev_block:"+evName(e), 1)
	}
	for _, e := range b.EndEvents {
		m.Run.Count("ev_block:"+evName(e), 1)
	}
}

// History runs one generated history and returns the sim (for post-mortem stats).
func History(t *testing.T, run *ev.Run, prof *Profile, hist int, nOps int, mons func(histID string) []Monitor) *Sim {
	seed := run.Seed*100003 + int64(hist)
	id := fmt.Sprintf("%s/seed=%d/hist=%d", prof.Name, run.Seed, hist)
	s := NewSim(t, seed, prof, mons(id)...)
	s.BuildWorld()
	if prof.Prologue != nil {
		prof.Prologue(s)
	}
	s.Run(nOps)
	run.Eval(1)
	run.Count("ops", s.Step)
	run.Count("blocks", s.Stats["blocks"])
	run.Count("epochs", s.Stats["epochs"])
	for _, k := range sortedKeys(s.Stats) {
		if len(k) > 3 && (k[:3] == "ok:" || k[:3] == "tx:") {
			run.Count(k, s.Stats[k])
		}
	}
	return s
}

func profEconomic() *Profile {
	w := defaultWeights()
	w["month"] = 5
	w["longblock"] = 6
	w["fund_iprpc"] = 3
	w["iprpc_data"] = 2
	w["ds_claim"] = 5
	w["buy"] = 6
	w["autorenew"] = 2
	w["plan_add"] = 2
	w["plan_del"] = 1
	return &Profile{Name: "economic", W: w, Providers: 7, Consumers: 4, Delegators: 3, Validators: 2, KeepPools: true, SmallBalances: true}
}

func profUnusual() *Profile {
	w := defaultWeights()
	w["month"] = 6
	w["longblock"] = 6
	w["unstake"] = 5
	w["stake"] = 6
	w["plan_add"] = 3
	w["plan_del"] = 3
	w["param"] = 3
	w["slash"] = 3
	w["delproject"] = 3
	w["autorenew"] = 4
	w["buy"] = 8
	return &Profile{Name: "unusual", W: w, Providers: 6, Consumers: 4, Delegators: 3, Validators: 3, KeepPools: true, SmallBalances: true, EpochsToSave: 2, EpochBlocks: 5, PolicyHeavy: true}
}
