//go:build verif

package chainmon

import (
	"context"
	"fmt"
	"math/bits"
	"sort"
	"strings"
	"time"

	sdk "github.com/cosmos/cosmos-sdk/types"
	"github.com/lavanet/lava/v5/utils/sigs"
	epochstoragetypes "github.com/lavanet/lava/v5/x/epochstorage/types"
	pairingtypes "github.com/lavanet/lava/v5/x/pairing/types"

	"verif/internal/ev"
)

// ---------------------------------------------------------------------------------------------
// C19 — unresponsive-provider jailing is justified and bounded.
//
// Inputs transcribed from the statement / the chain's constants (NOT from the punishing code path):
//   * the checked window ends RecommendedEpochNumToCollectPayment epochs before the epoch that starts;
//     complaints are summed over EPOCHS_NUM_TO_CHECK_FOR_COMPLAINERS epochs, serviced CU over
//     EPOCHS_NUM_TO_CHECK_CU_FOR_UNRESPONSIVE_PROVIDER epochs, both going back from there;
//   * "exceed four times": complaints > 4 x serviced;
//   * "stake history long enough": the stake was applied no later than the oldest block the check looks at
//     (window + collection delay); relaxed: an entry that already carries jails is treated as long enough
//     (the soft jail itself moves StakeAppliedBlock, the statement is silent about that);
//   * "within a day": 24 h of block time; "frozen hard jail": entry frozen and still jailed;
//   * smallest plan's max-providers-to-pair: min over the plans visible at the block.
// ---------------------------------------------------------------------------------------------

const (
	c19Factor    = 4
	c19DaySecond = int64(24 * 60 * 60)
)

type c19Entry struct {
	Jails   uint64
	JailEnd int64
	Frozen  bool
	Applied uint64
}

func c19EntryOf(e epochstoragetypes.StakeEntry) c19Entry {
	return c19Entry{Jails: e.Jails, JailEnd: e.JailEndTime, Frozen: e.IsFrozen(), Applied: e.StakeAppliedBlock}
}

func c19Key(chain, addr string) string { return chain + " " + addr }

func c19Split(key string) (chain, addr string) {
	p := strings.SplitN(key, " ", 2)
	return p[0], p[1]
}

type c19Snap struct {
	height  int64
	entries map[string]c19Entry
	compl   map[string]map[uint64]uint64 // key -> epoch -> complainers CU
	serv    map[string]map[uint64]uint64 // key -> epoch -> serviced CU
	rec     uint64
}

// JailMon is the C19 monitor: snapshot before every block that will start an epoch, diff after it.
type JailMon struct {
	BaseMon
	Run  *ev.Run
	Hist string

	snap      *c19Snap
	carried   map[string]uint64  // "key|epoch" -> complaint CU that already counted towards a jailing and is still stored
	jailTimes map[string][]int64 // key -> block times of the unresponsiveness jailings since the last reset
	preUnf    map[string]c19Entry

	Jailings, Soft, Hard, JustBelow, JustAbove, AtThreshold, RepeatWithinDay, GuardSaved, ShortHistSaved int
	UnfreezeAfterJail, UnfreezeWhileJailedRejected, EpochStarts, Candidates, MissedSnapshots             int
}

func NewJailMon(run *ev.Run, hist string) *JailMon {
	return &JailMon{Run: run, Hist: hist, carried: map[string]uint64{}, jailTimes: map[string][]int64{}}
}

func (m *JailMon) wit(s *Sim, step int, extra map[string]any) map[string]any {
	w := map[string]any{"history": m.Hist, "seed": s.Seed, "profile": s.prof.Name, "providers": s.prof.Providers, "step": step, "log_tail": s.LogTail(60)}
	for k, v := range extra {
		w[k] = v
	}
	return w
}

func c19AllEntries(s *Sim) map[string]c19Entry {
	out := map[string]c19Entry{}
	for _, e := range s.TS.Keepers.Epochstorage.GetAllStakeEntriesCurrent(s.TS.Ctx) {
		out[c19Key(e.Chain, e.Address)] = c19EntryOf(e)
	}
	return out
}

func (m *JailMon) BeforeBlock(s *Sim) {
	m.snap = nil
	ctx := s.TS.Ctx
	next, err := s.TS.Keepers.Epochstorage.GetNextEpoch(ctx, uint64(ctx.BlockHeight()))
	if err == nil && next != uint64(ctx.BlockHeight())+1 {
		return // the next block does not start an epoch
	}
	sn := &c19Snap{height: ctx.BlockHeight(), entries: c19AllEntries(s), compl: map[string]map[uint64]uint64{}, serv: map[string]map[uint64]uint64{}}
	pk := s.TS.Keepers.Pairing
	for _, r := range pk.GetAllProviderEpochComplainerCuStore(ctx) {
		k := c19Key(r.ChainId, r.Provider)
		if sn.compl[k] == nil {
			sn.compl[k] = map[uint64]uint64{}
		}
		sn.compl[k][r.Epoch] = r.ProviderEpochComplainerCu.ComplainersCu
	}
	for _, r := range pk.GetAllProviderEpochCuStore(ctx) {
		k := c19Key(r.ChainId, r.Provider)
		if sn.serv[k] == nil {
			sn.serv[k] = map[uint64]uint64{}
		}
		sn.serv[k][r.Epoch] = r.ProviderEpochCu.ServicedCu
	}
	sn.rec = pk.RecommendedEpochNumToCollectPayment(ctx)
	m.snap = sn
}

// exceeds reports c > 4*s without overflow.
func c19Exceeds(c, sv uint64) bool {
	hi, lo := bits.Mul64(c19Factor, sv)
	return hi == 0 && c > lo
}

func (m *JailMon) AfterBlock(s *Sim, b *BlockRes) {
	if b.Panic != "" || !b.EpochStart {
		return
	}
	m.EpochStarts++
	ctx := s.TS.Ctx
	ks := s.TS.Keepers
	pk := ks.Pairing
	defer m.maintainCarried(s)
	sn := m.snap
	if sn == nil {
		m.MissedSnapshots++
		return
	}
	// ---- the epoch grid (input): e[0] = the epoch that starts now, e[i] = i epochs earlier
	nServ, nCompl := pairingtypes.EPOCHS_NUM_TO_CHECK_CU_FOR_UNRESPONSIVE_PROVIDER, pairingtypes.EPOCHS_NUM_TO_CHECK_FOR_COMPLAINERS
	larger := max(nServ, nCompl)
	need := int(sn.rec + larger)
	e := []uint64{uint64(b.Height)}
	for i := 1; i <= need; i++ {
		p, err := ks.Epochstorage.GetPreviousEpochStartForBlock(ctx, e[i-1])
		if err != nil {
			break
		}
		e = append(e, p)
	}
	enoughHistory := len(e) == need+1
	// records of epochs that left the chain's memory in this very block are gone before the check runs
	deleted := map[uint64]bool{}
	for _, d := range ks.Epochstorage.GetDeletedEpochs(ctx) {
		deleted[d] = true
	}
	window := func(n uint64) []uint64 {
		var out []uint64
		for i := sn.rec; i < sn.rec+n && int(i) < len(e); i++ {
			if !deleted[e[i]] {
				out = append(out, e[i])
			}
		}
		return out
	}
	complWin, servWin := window(nCompl), window(nServ)
	minHistoryBlock := uint64(0)
	if enoughHistory {
		minHistoryBlock = e[need]
	}
	// ---- smallest plan's max-providers-to-pair (input)
	minProviders := ^uint64(0)
	for _, idx := range ks.Plans.GetAllPlanIndices(ctx) {
		if pl, ok := ks.Plans.FindPlan(ctx, idx, uint64(b.Height)); ok && pl.PlanPolicy.MaxProvidersToPair < minProviders {
			minProviders = pl.PlanPolicy.MaxProvidersToPair
		}
	}
	post := c19AllEntries(s)
	// ---- who was jailed for unresponsiveness in this block: events and (Jails, JailEndTime) diffs
	jailed := map[string]string{} // key -> kind
	for _, name := range []string{pairingtypes.ProviderFreezeJailedEventName, pairingtypes.ProviderTemporaryJailedEventName} {
		for _, evn := range findEvents(b.BeginEvents, name) {
			pa, _ := evAttr(evn, "provider_address")
			ch, _ := evAttr(evn, "chain_id")
			jailed[c19Key(ch, pa)] = name
		}
	}
	for k, pre := range sn.entries {
		if po, ok := post[k]; ok && (po.Jails != pre.Jails || po.JailEnd != pre.JailEnd) {
			if _, seen := jailed[k]; !seen {
				jailed[k] = "state-diff-only"
				m.Run.Count("jail_state_change_without_event", 1)
			}
		}
	}
	jailedPerChain := map[string]int{}
	for k := range jailed {
		ch, _ := c19Split(k)
		jailedPerChain[ch]++
	}
	// non-frozen providers per chain after the block, the ones jailed in this block counted as removed
	after := map[string]int{}
	for k, po := range post {
		if _, j := jailed[k]; !po.Frozen && !j {
			ch, _ := c19Split(k)
			after[ch]++
		}
	}
	now := b.Time.UTC().Unix()

	sums := func(k string) (c, sv, svCodeLike uint64, complEpochs []uint64) {
		for _, ep := range complWin {
			if v, ok := sn.compl[k][ep]; ok {
				c += v
				complEpochs = append(complEpochs, ep)
			}
		}
		for _, ep := range servWin {
			sv += sn.serv[k][ep]
			if _, ok := sn.compl[k][ep]; ok {
				svCodeLike += sn.serv[k][ep]
			}
		}
		return
	}
	longEnough := func(pre c19Entry) bool {
		return enoughHistory && (pre.Applied <= minHistoryBlock || pre.Jails > 0)
	}

	keys := make([]string, 0, len(sn.entries))
	for k := range sn.entries {
		keys = append(keys, k)
	}
	sort.Strings(keys)
	for _, k := range keys {
		pre := sn.entries[k]
		chain, addr := c19Split(k)
		c, sv, svCode, complEpochs := sums(k)
		kind, wasJailed := jailed[k]
		po, postOK := post[k]
		detail := map[string]any{"provider": addr, "chain": chain, "block": b.Height, "block_time": now, "complaints_in_window": c, "serviced_in_window": sv,
			"serviced_only_in_epochs_with_complaint_record": svCode, "complaint_window_epochs": complWin, "serviced_window_epochs": servWin,
			"complaint_records": sn.compl[k], "serviced_records": sn.serv[k], "pre_entry": pre, "post_entry": po, "min_history_block": minHistoryBlock,
			"recommended_epochs_to_collect": sn.rec, "min_providers": minProviders, "nonfrozen_after_without_jailed": after[chain], "jailed_on_chain_this_block": jailedPerChain[chain]}
		if !wasJailed {
			if pre.Frozen || !postOK || c == 0 {
				continue
			}
			m.Candidates++
			switch {
			case c19Exceeds(c, sv) && !longEnough(pre):
				m.ShortHistSaved++
				m.Run.Nontrivial(fmt.Sprintf("not-jailed:short-history:jails=%d:min+%d", pre.Jails, after[chain]-int(minProviders)))
			case c19Exceeds(c, sv) && uint64(after[chain]) <= minProviders:
				m.GuardSaved++
				m.Run.Nontrivial(fmt.Sprintf("not-jailed:min-provider-guard:left=%d:min=%d:jailed-others=%d", after[chain], minProviders, jailedPerChain[chain]))
				if m.GuardSaved <= 1 {
					m.Run.Sample(map[string]any{"class": "min-provider guard kept a complained-about provider", "history": m.Hist, "detail": detail})
				}
			case c19Exceeds(c, sv):
				m.Run.Count("above_threshold_not_jailed_other_reason", 1)
			case sv > 0 && longEnough(pre) && uint64(after[chain]) > minProviders && c+3 >= c19Factor*sv:
				m.JustBelow++
				if c == c19Factor*sv {
					m.AtThreshold++
				}
				m.Run.Nontrivial(fmt.Sprintf("not-jailed:just-below:4s-c=%d", c19Factor*sv-c))
			}
			continue
		}
		// ---------------------------------------------------------------- a jailing: judge it
		m.Jailings++
		hard := postOK && po.Frozen
		if hard {
			m.Hard++
		} else {
			m.Soft++
		}
		if !c19Exceeds(c, sv) {
			if c19Exceeds(c, svCode) {
				m.Run.Violation("jailed-without-complaints-above-4x-serviced", "serviced CU of window epochs without a complaint record is not counted",
					fmt.Sprintf("%s on %s jailed at block %d (%s) with complaints %d <= 4 x serviced %d over the checked window (only %d serviced CU lie in epochs that also hold a complaint record)", short(addr), chain, b.Height, kind, c, sv, svCode),
					m.wit(s, b.Step, detail))
			} else {
				m.Run.Violation("jailed-without-complaints-above-4x-serviced", "complaints in window <= 4 x serviced in window",
					fmt.Sprintf("%s on %s jailed at block %d (%s) with complaints %d <= 4 x serviced %d over the checked window", short(addr), chain, b.Height, kind, c, sv),
					m.wit(s, b.Step, detail))
			}
		}
		if !longEnough(pre) {
			m.Run.Violation("jailed-with-short-stake-history", "stake applied after the oldest block of the checked window, no earlier jail",
				fmt.Sprintf("%s on %s jailed at block %d (%s): stake applied at %d, window reaches back to %d (enough chain history: %v), jails before %d", short(addr), chain, b.Height, kind, pre.Applied, minHistoryBlock, enoughHistory, pre.Jails),
				m.wit(s, b.Step, detail))
		}
		// the same complaints never punish twice
		for _, ep := range complEpochs {
			ck := fmt.Sprintf("%s|%d", k, ep)
			if old, ok := m.carried[ck]; ok && old > 0 {
				m.Run.Violation("same-complaints-punish-twice", "complaint record that counted towards a jailing is still stored and counts towards the next one",
					fmt.Sprintf("%s on %s jailed at block %d (%s): the complaint record of epoch %d (%d CU) already counted towards an earlier jailing (%d CU then) and was never cleared", short(addr), chain, b.Height, kind, ep, sn.compl[k][ep], old),
					m.wit(s, b.Step, detail))
			}
		}
		for _, ep := range complEpochs {
			ck := fmt.Sprintf("%s|%d", k, ep)
			if _, still := pk.GetProviderEpochComplainerCu(ctx, ep, addr, chain); still {
				m.carried[ck] = sn.compl[k][ep]
			} else {
				delete(m.carried, ck)
			}
		}
		// repeated jails within a day escalate to a frozen hard jail
		var recent []int64
		for _, t := range m.jailTimes[k] {
			if t > now-c19DaySecond {
				recent = append(recent, t)
			}
		}
		if len(recent) >= 2 {
			m.RepeatWithinDay++
			if !postOK || !po.Frozen || po.JailEnd <= now {
				m.Run.Violation("repeated-jail-not-escalated", "third jailing within 24 h is not a frozen hard jail",
					fmt.Sprintf("%s on %s jailed at block %d (%s) for the %d. time within 24 h (earlier at %v) but the entry is frozen=%v jailEnd=%d now=%d", short(addr), chain, b.Height, kind, len(recent)+1, recent, po.Frozen, po.JailEnd, now),
					m.wit(s, b.Step, detail))
			} else if po.JailEnd == now+c19DaySecond {
				m.Run.Count("hard_jails_ending_after_exactly_24h", 1)
			}
		}
		m.jailTimes[k] = append(recent, now)
		// classification
		rel := "above"
		switch {
		case sv == 0:
			rel = "never-serviced"
		case c19Exceeds(c, sv) && c <= c19Factor*sv+4:
			rel = "just-above"
			m.JustAbove++
		}
		m.Run.Nontrivial(fmt.Sprintf("jailed:%v:prejails=%d:%s:complaint-epochs=%d:min+%d:others=%d", hard, pre.Jails, rel, len(complEpochs), after[chain]-int(minProviders), jailedPerChain[chain]-1))
		if m.Jailings <= 2 || (rel == "just-above" && m.JustAbove <= 1) {
			m.Run.Sample(map[string]any{"class": "jailing judged (" + rel + ")", "history": m.Hist, "detail": detail})
		}
	}
	// ---- automatic jailing never leaves a chain below the smallest plan's max-providers-to-pair
	chains := make([]string, 0, len(jailedPerChain))
	for ch := range jailedPerChain {
		chains = append(chains, ch)
	}
	sort.Strings(chains)
	for _, ch := range chains {
		j := jailedPerChain[ch]
		left := uint64(after[ch])
		if left < minProviders {
			if left+uint64(j) >= minProviders {
				var who []string
				for k, kind := range jailed {
					if c, a := c19Split(k); c == ch {
						who = append(who, short(a)+":"+kind)
					}
				}
				sort.Strings(who)
				m.Run.Violation("auto-jail-leaves-chain-below-min-providers", "non-frozen providers after this block's jailings < smallest plan's max-providers-to-pair",
					fmt.Sprintf("chain %s at block %d: %d provider(s) jailed for unresponsiveness (%v) leave %d non-frozen providers, smallest plan max-providers-to-pair is %d (%d before the jailings)", ch, b.Height, j, who, left, minProviders, left+uint64(j)),
					m.wit(s, b.Step, map[string]any{"chain": ch, "jailed": who, "left": left, "min_providers": minProviders, "post_entries": post, "pre_entries": sn.entries}))
			} else {
				m.Run.Count("jailed_on_chain_already_below_min", 1)
			}
		}
	}
}

// maintainCarried forgets punished complaint records once they are gone from the store (records only
// disappear in epoch-start blocks: punishment reset or memory expiry).
func (m *JailMon) maintainCarried(s *Sim) {
	for ck := range m.carried {
		var key string
		var ep uint64
		i := strings.LastIndex(ck, "|")
		key = ck[:i]
		fmt.Sscanf(ck[i+1:], "%d", &ep)
		chain, addr := c19Split(key)
		if _, ok := s.TS.Keepers.Pairing.GetProviderEpochComplainerCu(s.TS.Ctx, ep, addr, chain); !ok {
			delete(m.carried, ck)
		}
	}
}

func (m *JailMon) BeforeTx(s *Sim, name string, msg sdk.Msg) {
	m.preUnf = nil
	if u, ok := msg.(*pairingtypes.MsgUnfreezeProvider); ok {
		m.preUnf = map[string]c19Entry{}
		for _, ch := range u.ChainIds {
			if e, ok := s.TS.Keepers.Epochstorage.GetStakeEntryCurrent(s.TS.Ctx, ch, u.Creator); ok {
				m.preUnf[c19Key(ch, u.Creator)] = c19EntryOf(e)
			}
		}
	}
}

func (m *JailMon) AfterTx(s *Sim, r *TxRes) {
	if m.preUnf != nil {
		for k, pre := range m.preUnf {
			chain, addr := c19Split(k)
			e, ok := s.TS.Keepers.Epochstorage.GetStakeEntryCurrent(s.TS.Ctx, chain, addr)
			switch {
			case r.OK() && ok && pre.Jails > 0 && pre.Frozen && !e.IsFrozen() && e.Jails == 0:
				m.UnfreezeAfterJail++
				m.Run.Nontrivial(fmt.Sprintf("unfreeze-after-jail:jails=%d", pre.Jails))
			case !r.OK() && pre.Frozen && pre.JailEnd > s.TS.Ctx.BlockTime().UTC().Unix():
				m.UnfreezeWhileJailedRejected++
			}
		}
		m.preUnf = nil
	}
	// the jail count starts over when the entry is reset (unfreeze) or replaced (unstake)
	for k := range m.jailTimes {
		chain, addr := c19Split(k)
		e, ok := s.TS.Keepers.Epochstorage.GetStakeEntryCurrent(s.TS.Ctx, chain, addr)
		if !ok || e.Jails == 0 {
			delete(m.jailTimes, k)
		}
	}
}

func (m *JailMon) Report() {
	r := m.Run
	r.Count("epoch_start_blocks_judged", m.EpochStarts-m.MissedSnapshots)
	r.Count("epoch_starts_without_snapshot", m.MissedSnapshots)
	r.Count("jailings", m.Jailings)
	r.Count("jailings_soft", m.Soft)
	r.Count("jailings_hard", m.Hard)
	r.Count("complained_providers_not_jailed", m.Candidates)
	r.Count("not_jailed_just_below_threshold", m.JustBelow)
	r.Count("not_jailed_exactly_at_threshold", m.AtThreshold)
	r.Count("jailed_just_above_threshold", m.JustAbove)
	r.Count("third_or_later_jail_within_24h", m.RepeatWithinDay)
	r.Count("not_jailed_because_of_min_provider_guard", m.GuardSaved)
	r.Count("not_jailed_because_of_short_stake_history", m.ShortHistSaved)
	r.Count("unfreeze_after_jail", m.UnfreezeAfterJail)
	r.Count("unfreeze_rejected_while_jailed", m.UnfreezeWhileJailedRejected)
}

// ---------------------------------------------------------------------------------------------
// workload: ops registered for the C19 profile
// ---------------------------------------------------------------------------------------------

type c19Gen struct {
	sim    *Sim
	victim map[string]string // chain -> provider that keeps being reported
}

var c19GenState *c19Gen

func c19GenOf(s *Sim) *c19Gen {
	if c19GenState == nil || c19GenState.sim != s {
		c19GenState = &c19Gen{sim: s, victim: map[string]string{}}
	}
	return c19GenState
}

func init() {
	RegisterOp("c19_report", c19OpReport)
	RegisterOp("c19_service", c19OpService)
	RegisterOp("c19_unfreeze", c19OpUnfreeze)
	RegisterOp("c19_boundary", c19OpBoundary)
}

// c19EpochsBack returns the epoch start k epochs before the current one.
func c19EpochsBack(s *Sim, k int) (uint64, bool) {
	ek := s.TS.Keepers.Epochstorage
	ep := ek.GetEpochStart(s.TS.Ctx)
	for i := 0; i < k; i++ {
		p, err := ek.GetPreviousEpochStartForBlock(s.TS.Ctx, ep)
		if err != nil {
			return 0, false
		}
		ep = p
	}
	if ep < ek.GetEarliestEpochStart(s.TS.Ctx) {
		return 0, false
	}
	return ep, true
}

// c19PairedAt returns the pairing list of a developer key for a chain at a (past) epoch, computed on a
// throw-away branch of the state.
func c19PairedAt(s *Sim, chain string, dev sdk.AccAddress, epoch uint64) []string {
	cc, _ := s.TS.Ctx.CacheContext()
	pk := s.TS.Keepers.Pairing
	var out []string
	func() {
		defer func() { _ = recover() }()
		proj, err := pk.GetProjectData(cc, dev, chain, epoch)
		if err != nil {
			return
		}
		for _, p := range s.Provs {
			valid, _, list, err := pk.ValidatePairingForClient(cc, chain, p.Acc.Addr, epoch, proj)
			if err == nil && valid {
				for _, e := range list {
					out = append(out, e.Address)
				}
				return
			}
		}
	}()
	return out
}

func (s *Sim) c19SomeDev() sigs.Account {
	c := s.Cons[s.R.Intn(len(s.Cons))]
	dev := c.Devs[s.R.Intn(len(c.Devs))]
	if s.R.Intn(4) == 0 {
		dev = c.Acc
	}
	return dev
}

// c19OpReport: a relay payment of some provider that reports a chosen victim as unresponsive, with CU
// sized so that the victim's complaints land around 4 x its serviced CU in the window of the next check.
func c19OpReport(s *Sim) {
	g := c19GenOf(s)
	pk := s.TS.Keepers.Pairing
	ctx := s.TS.Ctx
	rec := int(pk.RecommendedEpochNumToCollectPayment(ctx))
	chain := vrandPick(s, s.Specs)
	dev := s.c19SomeDev()
	devAddr := dev.Addr
	// epochs back: the next check looks at complaints of (rec-1) and rec epochs before the current one
	ks := []int{rec - 1, rec - 1, rec - 1, rec - 1, rec, rec, rec, 0, 1, rec + 1}
	k := ks[s.R.Intn(len(ks))]
	if k < 0 {
		k = 0
	}
	epoch, ok := c19EpochsBack(s, k)
	if !ok {
		return
	}
	paired := c19PairedAt(s, chain, devAddr, epoch)
	if len(paired) < 2 {
		return
	}
	if s.R.Intn(40) == 0 {
		delete(g.victim, chain)
	}
	victim := ""
	if v, ok := g.victim[chain]; ok && s.R.Intn(5) != 0 {
		for _, p := range paired {
			if p == v {
				victim = v
			}
		}
	}
	if victim == "" {
		victim = paired[s.R.Intn(len(paired))]
		if _, ok := g.victim[chain]; !ok {
			g.victim[chain] = victim
		}
	}
	var others []string
	for _, p := range paired {
		if p != victim {
			others = append(others, p)
		}
	}
	reporter := others[s.R.Intn(len(others))]
	reported := []*pairingtypes.ReportedProvider{{Address: victim, Disconnections: 1, Errors: 1, TimestampS: ctx.BlockTime().Unix()}}
	if len(others) >= 2 && s.R.Intn(6) == 0 {
		for _, o := range others {
			if o != reporter {
				reported = append(reported, &pairingtypes.ReportedProvider{Address: o, Disconnections: 2, TimestampS: ctx.BlockTime().Unix()})
				break
			}
		}
	}
	div := uint64(len(reported)) * uint64(len(paired)-1)
	cu := uint64(1 + s.R.Intn(300))
	mode := "random"
	if k == rec-1 || k == rec {
		// what the next epoch-start check will see for the victim
		c, sv, _, ok1 := c19WindowStats(s, victim, chain, 0)
		if ok1 {
			var target uint64
			switch x := s.R.Intn(10); {
			case x < 3 && sv > 0:
				target, mode = c19Factor*sv-uint64(s.R.Intn(3)), "just-below"
			case x < 6:
				target, mode = c19Factor*sv+1+uint64(s.R.Intn(3)), "just-above"
			case x < 8:
				target, mode = c19Factor*sv+20+uint64(s.R.Intn(300)), "far-above"
			}
			if target > c && (target-c)*div <= 6000 {
				cu = (target-c)*div + uint64(s.R.Intn(int(div)))
			} else {
				mode = "random"
			}
		}
	}
	rs := s.newSession(dev, reporter, chain, int64(epoch), cu)
	rs.UnresponsiveProviders = reported
	signSession(dev, rs)
	s.sendRelays("c19_report", reporter, []*pairingtypes.RelaySession{rs}, fmt.Sprintf("reporter=%s victim=%s chain=%s epoch=%d(-%d) cu=%d reported=%d paired=%d mode=%s sid=%d",
		short(reporter), short(victim), chain, epoch, k, cu, len(reported), len(paired), mode, rs.SessionId))
}

// c19WindowStats: what the next epoch-start check will see for a provider: complaints and serviced CU in
// the window, and the part of the serviced CU that lies in epochs holding a complaint record (or in epoch extra).
func c19WindowStats(s *Sim, prov, chain string, extra uint64) (c, sv, aligned uint64, ok bool) {
	pk := s.TS.Keepers.Pairing
	ctx := s.TS.Ctx
	rec := int(pk.RecommendedEpochNumToCollectPayment(ctx))
	ep, ok := c19EpochsBack(s, max(rec-1, 0))
	if !ok {
		return 0, 0, 0, false
	}
	for i := uint64(0); i < pairingtypes.EPOCHS_NUM_TO_CHECK_CU_FOR_UNRESPONSIVE_PROVIDER; i++ {
		r, hasC := pk.GetProviderEpochComplainerCu(ctx, ep, prov, chain)
		if hasC && i < pairingtypes.EPOCHS_NUM_TO_CHECK_FOR_COMPLAINERS {
			c += r.ComplainersCu
		}
		if r, ok := pk.GetProviderEpochCu(ctx, ep, prov, chain); ok {
			sv += r.ServicedCu
			if hasC || ep == extra {
				aligned += r.ServicedCu
			}
		}
		p, err := s.TS.Keepers.Epochstorage.GetPreviousEpochStartForBlock(ctx, ep)
		if err != nil {
			break
		}
		ep = p
	}
	return c, sv, aligned, true
}

// c19OpBoundary: directed boundary case. Picks a provider whose serviced CU of the window lies only in epochs
// that hold complaint records (lets it service a little in the reported epoch if it never serviced), and has
// another provider report it so that its complaints land exactly at / just below / just above 4 x serviced.
func c19OpBoundary(s *Sim) {
	pk := s.TS.Keepers.Pairing
	ctx := s.TS.Ctx
	rec := int(pk.RecommendedEpochNumToCollectPayment(ctx))
	chain := vrandPick(s, s.Specs)
	dev := s.c19SomeDev()
	k := max(rec-1, 0) + s.R.Intn(2)
	epoch, ok := c19EpochsBack(s, k)
	if !ok {
		return
	}
	paired := c19PairedAt(s, chain, dev.Addr, epoch)
	if len(paired) < 2 {
		return
	}
	victim := ""
	var c, sv uint64
	for _, i := range s.R.Perm(len(paired)) {
		cc, ss, al, ok := c19WindowStats(s, paired[i], chain, epoch)
		if ok && ss == al && ss < 400 {
			victim, c, sv = paired[i], cc, ss
			break
		}
	}
	if victim == "" {
		return
	}
	if sv == 0 {
		rs := s.newSession(dev, victim, chain, int64(epoch), uint64(1+s.R.Intn(20)))
		signSession(dev, rs)
		if r := s.sendRelays("c19_service", victim, []*pairingtypes.RelaySession{rs}, fmt.Sprintf("prov=%s chain=%s epoch=%d(-%d) cu=%d sid=%d (boundary)", short(victim), chain, epoch, k, rs.CuSum, rs.SessionId)); !r.OK() {
			return
		}
		c, sv, _, _ = c19WindowStats(s, victim, chain, epoch)
		if sv == 0 {
			return
		}
	}
	target, mode := c19Factor*sv-uint64(s.R.Intn(3)), "just-below"
	if s.R.Intn(4) == 0 {
		target, mode = c19Factor*sv+1, "just-above"
	}
	if target <= c {
		return
	}
	var others []string
	for _, p := range paired {
		if p != victim {
			others = append(others, p)
		}
	}
	reporter := others[s.R.Intn(len(others))]
	div := uint64(len(paired) - 1)
	cu := (target-c)*div + uint64(s.R.Intn(int(div)))
	rs := s.newSession(dev, reporter, chain, int64(epoch), cu)
	rs.UnresponsiveProviders = []*pairingtypes.ReportedProvider{{Address: victim, Errors: 3, TimestampS: ctx.BlockTime().Unix()}}
	signSession(dev, rs)
	s.sendRelays("c19_report", reporter, []*pairingtypes.RelaySession{rs}, fmt.Sprintf("reporter=%s victim=%s chain=%s epoch=%d(-%d) cu=%d reported=1 paired=%d mode=%s(boundary: serviced=%d complaints=%d target=%d) sid=%d",
		short(reporter), short(victim), chain, epoch, k, cu, len(paired), mode, sv, c, target, rs.SessionId))
}

// c19OpService: the victim (or another provider) services a little CU so that 4 x serviced is a reachable threshold.
func c19OpService(s *Sim) {
	g := c19GenOf(s)
	rec := int(s.TS.Keepers.Pairing.RecommendedEpochNumToCollectPayment(s.TS.Ctx))
	chain := vrandPick(s, s.Specs)
	dev := s.c19SomeDev()
	devAddr := dev.Addr
	// mostly the epochs whose complaints the next check looks at, otherwise anywhere in the serviced window
	k := max(rec-1, 0) + s.R.Intn(2)
	if s.R.Intn(3) == 0 {
		k = s.R.Intn(rec + 4)
	}
	epoch, ok := c19EpochsBack(s, k)
	if !ok {
		return
	}
	paired := c19PairedAt(s, chain, devAddr, epoch)
	if len(paired) == 0 {
		return
	}
	prov := paired[s.R.Intn(len(paired))]
	if v, ok := g.victim[chain]; ok && s.R.Intn(4) != 0 {
		for _, p := range paired {
			if p == v {
				prov = v
			}
		}
	}
	cu := uint64(1 + s.R.Intn(25))
	rs := s.newSession(dev, prov, chain, int64(epoch), cu)
	signSession(dev, rs)
	s.sendRelays("c19_service", prov, []*pairingtypes.RelaySession{rs}, fmt.Sprintf("prov=%s chain=%s epoch=%d(-%d) cu=%d sid=%d", short(prov), chain, epoch, k, cu, rs.SessionId))
}

// c19OpUnfreeze: a provider that carries jails tries to get back: waits for the jail end (or not), freezes
// itself when it is only soft-jailed, and unfreezes.
func c19OpUnfreeze(s *Sim) {
	var cands []epochstoragetypes.StakeEntry
	for _, p := range s.Provs {
		for _, e := range s.provEntries(p) {
			if e.Jails > 0 {
				cands = append(cands, e)
			}
		}
	}
	if len(cands) == 0 {
		s.opFreeze(true)
		return
	}
	// mostly providers in a hard jail; a soft-jailed one only now and then (its unfreeze ends the escalation)
	var hardOnes []epochstoragetypes.StakeEntry
	for _, e := range cands {
		if e.IsFrozen() {
			hardOnes = append(hardOnes, e)
		}
	}
	if len(hardOnes) > 0 {
		cands = hardOnes
	} else if s.R.Intn(5) != 0 {
		s.opFreeze(true)
		return
	}
	e := cands[s.R.Intn(len(cands))]
	now := s.TS.Ctx.BlockTime().UTC().Unix()
	if e.JailEndTime > now && s.R.Intn(4) != 0 {
		// step over the jail end (a block gap of at most 24 h), sometimes landing exactly on it
		s.AdvanceTo(time.Unix(e.JailEndTime+int64(s.R.Intn(3)), 0))
	}
	if !e.IsFrozen() {
		msg := &pairingtypes.MsgFreezeProvider{Creator: e.Address, ChainIds: []string{e.Chain}, Reason: "verif"}
		s.Tx("freeze", fmt.Sprintf("prov=%s chain=%s (soft-jailed, jails=%d)", short(e.Address), e.Chain, e.Jails), msg, func(ctx context.Context) (any, error) {
			return s.TS.Servers.PairingServer.FreezeProvider(ctx, msg)
		})
	}
	msg := &pairingtypes.MsgUnfreezeProvider{Creator: e.Address, ChainIds: []string{e.Chain}}
	s.Tx("unfreeze", fmt.Sprintf("prov=%s chain=%s jails=%d jailEnd=%d now=%d", short(e.Address), e.Chain, e.Jails, e.JailEndTime, s.TS.Ctx.BlockTime().UTC().Unix()), msg, func(ctx context.Context) (any, error) {
		return s.TS.Servers.PairingServer.UnfreezeProvider(ctx, msg)
	})
}
