//go:build verif

package chainmon

import (
	"fmt"
	"testing"

	"verif/internal/ev"
)

// MintMon: "tokens only move between accounts or are burned" - any mint of the bond denomination inside a monitored step
// is a violation even when burns in the same step hide it from the net supply. Needs a FlowRec before it.
type MintMon struct {
	BaseMon
	Run   *ev.Run
	Hist  string
	FR    *FlowRec
	Steps int
}

func (m *MintMon) look(s *Sim, what, class string, step int) {
	m.Steps++
	for _, f := range m.FR.Flows {
		if f.Kind == "mint" && f.Amount.AmountOf(s.Denom).IsPositive() {
			m.Run.Violation("tokens-minted", class, fmt.Sprintf("%s: %s appeared on %s without leaving another account (hidden from the net supply by burns of the same step or not)", what, f.Amount, f.To),
				map[string]any{"history": m.Hist, "seed": s.Seed, "profile": s.prof.Name, "step": step, "log_tail": s.LogTail(20)})
		}
	}
}

func (m *MintMon) AfterTx(s *Sim, r *TxRes) {
	if r.OK() {
		m.look(s, "tx "+r.Name+" "+r.Desc, "tx:"+r.Name, r.Step)
	}
}

func (m *MintMon) AfterBlock(s *Sim, b *BlockRes) {
	if b.Panic == "" {
		m.look(s, fmt.Sprintf("block %d", b.Height), "block", b.Step)
	}
}

func TestC09(t *testing.T) {
	run := ev.Start("C09")
	nHist, nOps := run.Pick(10, 120), run.Pick(900, 2500)
	for h := 0; h < nHist; h++ {
		var sm *SupplyMon
		var mm *MintMon
		prof := profEconomic()
		prof.W["param_burn"] = 2 // fractional leftover burn rates
		s := History(t, run, prof, h, nOps, func(id string) []Monitor {
			sm = &SupplyMon{Run: run, Hist: id}
			fr := &FlowRec{}
			mm = &MintMon{Run: run, Hist: id, FR: fr}
			return []Monitor{sm, fr, mm, &EventCounter{Run: run}}
		})
		run.Count("steps_scanned_for_mints", mm.Steps)
		run.Count("supply_checks", sm.Steps)
		run.Count("steps_that_burned", sm.Burns)
		months := int(s.TS.Ctx.BlockTime().Sub(s.t0).Hours() / 24 / 30)
		run.Count("months_of_block_time", months)
		if months >= 3 && sm.Burns > 0 {
			run.Nontrivial(fmt.Sprintf("hist%d:months=%d:burns=%d", h, months, sm.Burns))
		}
		if h == 0 {
			run.Sample(map[string]any{"history": 0, "months": months, "first_ops": s.Log[:min(len(s.Log), 25)]})
		}
	}
	for _, e := range []string{"subscription_payout", "distribution_pools_refill", "iprpc_pool_emmission", "provider_bonus_rewards"} {
		run.Require("block processing executed: "+e, run.Counter("ev_block:"+e) > 0)
	}
	for _, e := range []string{"ds_claim", "fund_iprpc", "buy", "slash"} {
		run.Require("successful "+e, run.Counter("ok:"+e) > 0)
	}
	run.Finish("long-horizon economic histories (subscriptions, IPRPC funds, stakes, delegations, claims, slashes, refills over months of block time); total supply of every denomination sampled around every tx, BeginBlock and EndBlock: any increase is a violation (decreases = burns are counted), and so is any mint of the bond denomination seen in the bank flow log of a step even when burns of the same step hide it; a history is non-trivial when it crossed >= 3 months and burned at least once", nHist/2,
		"supply = sum of the mock bank's balances (x/bank itself is trusted)", "harness funding of new accounts happens outside monitored steps")
}

func TestC10(t *testing.T) {
	run := ev.Start("C10")
	nHist, nOps := run.Pick(10, 120), run.Pick(900, 2500)
	for h := 0; h < nHist; h++ {
		var bm *BackingMon
		s := History(t, run, profEconomic(), h, nOps, func(id string) []Monitor {
			bm = &BackingMon{Run: run, Hist: id}
			pm := &PanicMon{Run: ev.Start("C37-shadow"), Hist: id, ToC10: bm.FromPanic}
			return []Monitor{bm, pm, &EventCounter{Run: run}}
		})
		run.Count("backing_checks", bm.Checks)
		months := int(s.TS.Ctx.BlockTime().Sub(s.t0).Hours() / 24 / 30)
		if months >= 3 {
			run.Nontrivial(fmt.Sprintf("hist%d:months=%d", h, months))
		}
		if h == 0 {
			run.Sample(map[string]any{"history": 0, "months": months, "first_ops": s.Log[:min(len(s.Log), 25)]})
		}
	}
	for _, k := range []string{"dualstaking-rewards", "iprpc-pool", "subscription-credit"} {
		run.Require("checks with a non-zero obligation: "+k, run.Counter("backing_checks_with_nonzero_obligation:"+k) > 0)
	}
	run.Finish("long-horizon economic histories incl. advance purchases replaced before activation, upgrades inside the payout window, unserved IPRPC months, claims at random times; after every committed tx and every block: dualstaking module balance >= sum of claimable delegator rewards, IPRPC pool >= sum of all promised spec funds, subscription module >= credit of live subscriptions (latest version incl. pending upgrade) + future subscriptions + pending cu-tracker timers, per denomination; a mock-bank negative-balance panic in block processing is reported here; a history is non-trivial when it crossed >= 3 months", nHist/2,
		"balances are the mock bank's")
}
