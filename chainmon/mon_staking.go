//go:build verif

package chainmon

import (
	"fmt"
	"sort"
	"strings"

	sdk "github.com/cosmos/cosmos-sdk/types"
	commontypes "github.com/lavanet/lava/v5/utils/common/types"
	dualstakingtypes "github.com/lavanet/lava/v5/x/dualstaking/types"
	epochstoragetypes "github.com/lavanet/lava/v5/x/epochstorage/types"

	"verif/internal/ev"
)

// ---------------------------------------------------------------- C06: provider delegations mirror validator delegations

type MirrorMon struct {
	BaseMon
	Run       *ev.Run
	Hist      string
	suspended bool // between a slash and the next block boundary
	Checks    int
	NonTriv   int
	// x/staking truncates the tokens that leave a validator on every unbond/redelegate, so the value of
	// everybody else's shares drifts up by < 1 token per such operation until their next rebalancing.
	// drift[D] counts share-removing operations since delegator D was last rebalanced by its own tx.
	shareOps  int
	lastReset map[string]int
	Exact     int // checks done right after the delegator's own rebalancing tx (tolerance = #delegations only)
	// classification of a delegator's imbalance is fixed when it first appears and kept until it is balanced again
	cls map[string]string
}

func (m *MirrorMon) check(s *Sim, where string, step int) {
	ctx := s.TS.Ctx
	ks := s.TS.Keepers
	dels, err := ks.Dualstaking.GetAllDelegations(ctx)
	if err != nil {
		return
	}
	sumProv := map[string]sdk.Int{}
	for _, d := range dels {
		if d.Amount.IsNil() {
			m.Run.Violation("nil-delegation-amount", "delegation with nil amount", fmt.Sprintf("%s: %s -> %s", where, d.Delegator, d.Provider), m.wit(s, step))
			continue
		}
		if d.Amount.Amount.IsNegative() {
			m.Run.Violation("negative-delegation", "provider delegation negative", fmt.Sprintf("%s: %s -> %s = %s", where, d.Delegator, d.Provider, d.Amount), m.wit(s, step))
		}
		if cur, ok := sumProv[d.Delegator]; ok {
			sumProv[d.Delegator] = cur.Add(d.Amount.Amount)
		} else {
			sumProv[d.Delegator] = d.Amount.Amount
		}
	}
	// every delegator known to x/staking or to dualstaking
	seen := map[string]bool{}
	var all []string
	for d := range sumProv {
		if !seen[d] {
			seen[d] = true
			all = append(all, d)
		}
	}
	for _, sd := range ks.StakingKeeper.GetAllDelegations(ctx) {
		if !seen[sd.DelegatorAddress] {
			seen[sd.DelegatorAddress] = true
			all = append(all, sd.DelegatorAddress)
		}
	}
	sort.Strings(all)
	for _, d := range all {
		acc, err := sdk.AccAddressFromBech32(d)
		if err != nil {
			continue
		}
		sumVal := sdk.ZeroDec()
		n := 0
		for _, sd := range ks.StakingKeeper.GetAllDelegatorDelegations(ctx, acc) {
			v, found := ks.StakingKeeper.GetValidator(ctx, sd.GetValidatorAddr())
			if !found {
				continue
			}
			sumVal = sumVal.Add(v.TokensFromShares(sd.Shares))
			n++
		}
		sp, ok := sumProv[d]
		if !ok {
			sp = sdk.ZeroInt()
		}
		m.Checks++
		diff := sumVal.Sub(sdk.NewDecFromInt(sp)).Abs()
		// share rounding: the code rounds each validator delegation up to the next integer
		drift := m.shareOps - m.lastReset[d]
		if drift == 0 {
			m.Exact++
		}
		tol := sdk.NewDec(int64(n + drift)).Add(sdk.NewDecWithPrec(1, 6))
		if n > 1 || !sp.IsZero() {
			m.NonTriv++
		}
		if m.cls == nil {
			m.cls = map[string]string{}
		}
		if !diff.GT(tol) {
			delete(m.cls, d)
		}
		if diff.GT(tol) {
			if m.cls[d] == "" {
				m.cls[d] = rebalanceOutcome(s, acc)
			}
			m.Run.Violation("mirror-mismatch", m.cls[d], fmt.Sprintf("%s: delegator %s validators=%s (in %d delegations) providers=%s diff=%s", where, d, sumVal, n, sp, diff), m.wit(s, step))
		}
	}
}

// rebalanceOutcome runs the code's own BalanceDelegator for d in a throw-away cache context and
// classifies why a delegator is (still) unbalanced.
func rebalanceOutcome(s *Sim, d sdk.AccAddress) string {
	cc, _ := s.TS.Ctx.CacheContext()
	_, err := s.TS.Keepers.Dualstaking.BalanceDelegator(cc, d)
	if err == nil {
		return "rebalancing-would-succeed(never triggered)"
	}
	e := err.Error()
	switch {
	case strings.Contains(e, "self delegation below minimum"):
		return "vault: uniform unbond after a slash would push an entry's self stake below the minimum self delegation, so rebalancing fails"
	default:
		if len(e) > 80 {
			e = e[:80]
		}
		return "rebalancing-fails: " + e
	}
}

// vaultUnbalanced tells whether the vault's provider delegations exceed its validator tokens beyond rounding.
func vaultUnbalanced(s *Sim, vault string) (bool, string) {
	acc, err := sdk.AccAddressFromBech32(vault)
	if err != nil {
		return false, ""
	}
	diff, n, err := s.TS.Keepers.Dualstaking.VerifyDelegatorBalance(s.TS.Ctx, acc)
	if err != nil {
		return false, ""
	}
	if diff.Abs().GT(sdk.NewInt(int64(n) + 64)) {
		return true, rebalanceOutcome(s, acc)
	}
	return false, ""
}

func (m *MirrorMon) wit(s *Sim, step int) map[string]any {
	return map[string]any{"history": m.Hist, "seed": s.Seed, "profile": s.prof.Name, "step": step, "log_tail": s.LogTail(40)}
}

var shareRemoving = map[string]bool{"st_undelegate": true, "st_redelegate": true, "ds_unbond": true, "stake": true, "unstake": true, "slash": true, "st_cancel": true, "ds_delegate": true, "st_delegate": true, "st_batch": true}

// txs after which the signer was fully rebalanced by the code (BalanceDelegator through the
// AfterDelegationModified hook). Undelegations are not in this set: removing a whole delegation goes
// through BeforeDelegationRemoved, which only subtracts the ceil of the removed tokens and keeps the
// rounding excess of the other delegations.
var rebalancing = map[string]bool{"st_delegate": true, "st_cancel": true, "ds_delegate": true}

func (m *MirrorMon) AfterTx(s *Sim, r *TxRes) {
	if m.lastReset == nil {
		m.lastReset = map[string]int{}
	}
	if r.OK() && shareRemoving[r.Name] {
		m.shareOps++
	}
	if r.OK() && rebalancing[r.Name] && r.Msg != nil && len(r.Msg.GetSigners()) > 0 {
		m.lastReset[r.Msg.GetSigners()[0].String()] = m.shareOps
	}
	if r.Name == "slash" && r.OK() {
		m.suspended = true // repaired at the next block boundary (HandleSlashedValidators)
		return
	}
	if !m.suspended {
		m.check(s, "after tx "+r.Name+" "+r.Desc, r.Step)
	}
}

func (m *MirrorMon) AfterBlock(s *Sim, b *BlockRes) {
	if b.Panic != "" {
		return
	}
	m.suspended = false
	m.check(s, fmt.Sprintf("after block %d", b.Height), b.Step)
}

// ---------------------------------------------------------------- C07: stake entries and metadata consistent

type provSnap struct {
	stake     map[string]sdk.Int // chain -> stake
	total     map[string]sdk.Int // chain -> total stake
	frozen    map[string]bool
	delegSig  string
	totalDels sdk.Int
}

type StakeMon struct {
	BaseMon
	Run     *ev.Run
	Hist    string
	before  map[string]*provSnap
	Checks  int
	Touched int
	Froze   int
	// once a provider's self stake went out of sync for a classified reason it stays so: keep the class
	selfStakeKnown map[string]string
	preUnbalanced  map[string]string
}

func (m *StakeMon) snapshot(s *Sim) map[string]*provSnap {
	ctx := s.TS.Ctx
	ks := s.TS.Keepers
	out := map[string]*provSnap{}
	get := func(p string) *provSnap {
		if out[p] == nil {
			out[p] = &provSnap{stake: map[string]sdk.Int{}, total: map[string]sdk.Int{}, frozen: map[string]bool{}, totalDels: sdk.ZeroInt()}
		}
		return out[p]
	}
	for _, e := range ks.Epochstorage.GetAllStakeEntriesCurrent(ctx) {
		ps := get(e.Address)
		ps.stake[e.Chain] = e.Stake.Amount
		ps.total[e.Chain] = e.TotalStake()
		ps.frozen[e.Chain] = e.IsFrozen()
	}
	mds, _ := ks.Epochstorage.GetAllMetadata(ctx)
	for _, md := range mds {
		ps := get(md.Provider)
		ps.totalDels = md.TotalDelegations.Amount
	}
	dels, _ := ks.Dualstaking.GetAllDelegations(ctx)
	sigs := map[string][]string{}
	for _, d := range dels {
		sigs[d.Provider] = append(sigs[d.Provider], d.Delegator+"="+d.Amount.Amount.String())
	}
	for p, l := range sigs {
		if p == commontypes.EMPTY_PROVIDER {
			continue
		}
		sort.Strings(l)
		get(p).delegSig = strings.Join(l, ",")
	}
	return out
}

func (m *StakeMon) BeforeTx(s *Sim, name string, msg sdk.Msg) {
	if m.selfStakeKnown == nil {
		m.selfStakeKnown = map[string]string{}
	}
	m.before = m.snapshot(s)
	m.trackVaults(s)
}

// trackVaults fixes the class of a vault's imbalance when it first appears (right after the block in which a
// slash rebalancing failed) and keeps it until the vault is balanced again.
func (m *StakeMon) trackVaults(s *Sim) {
	if m.preUnbalanced == nil {
		m.preUnbalanced = map[string]string{}
	}
	mds, _ := s.TS.Keepers.Epochstorage.GetAllMetadata(s.TS.Ctx)
	for _, md := range mds {
		unb, why := vaultUnbalanced(s, md.Vault)
		switch {
		case unb && m.preUnbalanced[md.Provider] == "":
			m.preUnbalanced[md.Provider] = why
		case !unb:
			delete(m.preUnbalanced, md.Provider)
		}
	}
}

func snapEqual(a, b *provSnap) bool {
	if a == nil || b == nil {
		return a == b
	}
	if a.delegSig != b.delegSig || !a.totalDels.Equal(b.totalDels) || len(a.stake) != len(b.stake) {
		return false
	}
	for c, v := range a.stake {
		w, ok := b.stake[c]
		if !ok || !v.Equal(w) {
			return false
		}
	}
	return true
}

func (m *StakeMon) wit(s *Sim, step int) map[string]any {
	return map[string]any{"history": m.Hist, "seed": s.Seed, "profile": s.prof.Name, "step": step, "log_tail": s.LogTail(40)}
}

// structural clauses, checked at every quiescent point
func (m *StakeMon) structural(s *Sim, where string, step int) {
	ctx := s.TS.Ctx
	ks := s.TS.Keepers
	m.Checks++
	entries := map[string][]epochstoragetypes.StakeEntry{}
	for _, e := range ks.Epochstorage.GetAllStakeEntriesCurrent(ctx) {
		entries[e.Address] = append(entries[e.Address], e)
	}
	mds, err := ks.Epochstorage.GetAllMetadata(ctx)
	if err != nil {
		return
	}
	mdBy := map[string]epochstoragetypes.ProviderMetadata{}
	for _, md := range mds {
		mdBy[md.Provider] = md
		es := entries[md.Provider]
		if len(es) == 0 {
			m.Run.Violation("metadata-without-entries", "metadata exists without any stake entry", fmt.Sprintf("%s: provider %s chains=%v", where, md.Provider, md.Chains), m.wit(s, step))
			continue
		}
		have := map[string]bool{}
		for _, e := range es {
			have[e.Chain] = true
		}
		listed := map[string]bool{}
		for _, c := range md.Chains {
			if listed[c] {
				m.Run.Violation("metadata-chains-mismatch", "duplicate chain in metadata", fmt.Sprintf("%s: provider %s chains=%v", where, md.Provider, md.Chains), m.wit(s, step))
			}
			listed[c] = true
		}
		if len(listed) != len(have) {
			m.Run.Violation("metadata-chains-mismatch", "metadata.Chains != chains with a current entry", fmt.Sprintf("%s: provider %s metadata=%v entries=%v", where, md.Provider, md.Chains, sortedKeys(have)), m.wit(s, step))
		} else {
			for c := range have {
				if !listed[c] {
					m.Run.Violation("metadata-chains-mismatch", "metadata.Chains != chains with a current entry", fmt.Sprintf("%s: provider %s metadata=%v entries=%v", where, md.Provider, md.Chains, sortedKeys(have)), m.wit(s, step))
					break
				}
			}
		}
		// self stake == vault delegation ; total delegations == sum non-vault delegations
		sumStake := sdk.ZeroInt()
		for _, e := range es {
			sumStake = sumStake.Add(e.Stake.Amount)
		}
		vaultDel := sdk.ZeroInt()
		others := sdk.ZeroInt()
		ds, _ := ks.Dualstaking.GetProviderDelegators(ctx, md.Provider)
		for _, d := range ds {
			if d.Delegator == md.Vault {
				vaultDel = d.Amount.Amount
			} else {
				others = others.Add(d.Amount.Amount)
			}
		}
		if !sumStake.Equal(vaultDel) {
			sig := "sum(entry.Stake) != vault delegation"
			if m.selfStakeKnown[md.Provider] != "" {
				sig = m.selfStakeKnown[md.Provider]
			} else if d := sumStake.Sub(vaultDel).Abs(); d.LTE(sdk.NewInt(8)) && s.lastTx != nil {
				sig = "rounding: vault delegation and self stake differ by a few tokens after tx:" + s.lastTx.Name + " (DelegateFull/UnbondFull move the ceil-rounded balance difference of a validator whose share price is not 1)"
				m.selfStakeKnown[md.Provider] = sig
			} else if why, unb := m.preUnbalanced[md.Provider]; unb {
				// a stake increase of an unbalanced vault only delegates the net difference
				sig = "vault unbalanced before the stake change (" + why + ")"
				m.selfStakeKnown[md.Provider] = sig
			}
			m.Run.Violation("self-stake-vs-vault-delegation", sig, fmt.Sprintf("%s: provider %s sum(stake)=%s vault delegation=%s", where, md.Provider, sumStake, vaultDel), m.wit(s, step))
		}
		if !md.TotalDelegations.Amount.Equal(others) {
			m.Run.Violation("total-delegations-mismatch", "metadata.TotalDelegations != sum(non-vault delegations)", fmt.Sprintf("%s: provider %s metadata=%s sum=%s", where, md.Provider, md.TotalDelegations.Amount, others), m.wit(s, step))
		}
	}
	for p := range entries {
		if _, ok := mdBy[p]; !ok {
			m.Run.Violation("entries-without-metadata", "stake entry without metadata", fmt.Sprintf("%s: provider %s", where, p), m.wit(s, step))
		}
	}
}

func (m *StakeMon) AfterTx(s *Sim, r *TxRes) {
	if !r.OK() {
		return
	}
	if r.Name == "slash" {
		return // slashes are repaired at the next block boundary
	}
	m.structural(s, "after tx "+r.Name+" "+r.Desc, r.Step)
	after := m.snapshot(s)
	ctx := s.TS.Ctx
	ks := s.TS.Keepers
	for _, p := range sortedKeys(after) {
		if snapEqual(m.before[p], after[p]) {
			continue
		}
		// provider touched by this tx: delegate totals must be the floor share, under-min entries frozen
		m.Touched++
		md, err := ks.Epochstorage.GetMetadata(ctx, p)
		if err != nil {
			continue
		}
		sum := sdk.ZeroInt()
		var es []epochstoragetypes.StakeEntry
		for _, c := range md.Chains {
			if e, ok := ks.Epochstorage.GetStakeEntryCurrent(ctx, c, p); ok {
				es = append(es, e)
				sum = sum.Add(e.Stake.Amount)
			}
		}
		if sum.IsZero() {
			continue
		}
		for _, e := range es {
			want := md.TotalDelegations.Amount.Mul(e.Stake.Amount).Quo(sum)
			if !e.DelegateTotal.Amount.Equal(want) {
				m.Run.Violation("delegate-total-not-proportional", "tx:"+r.Name, fmt.Sprintf("after tx %s %s: provider %s chain %s DelegateTotal=%s want floor(%s*%s/%s)=%s", r.Name, r.Desc, p, e.Chain, e.DelegateTotal.Amount, md.TotalDelegations.Amount, e.Stake.Amount, sum, want), m.wit(s, r.Step))
			}
			min := ks.Spec.GetMinStake(ctx, e.Chain).Amount
			bt, had := sdk.ZeroInt(), false
			if b := m.before[p]; b != nil {
				bt, had = b.total[e.Chain]
			}
			if had && bt.GTE(min) && e.TotalStake().LT(min) {
				m.Froze++
				if !e.IsFrozen() {
					m.Run.Violation("under-min-entry-not-frozen", "tx:"+r.Name, fmt.Sprintf("after tx %s %s: provider %s chain %s total stake fell %s -> %s below min %s and is not frozen", r.Name, r.Desc, p, e.Chain, bt, e.TotalStake(), min), m.wit(s, r.Step))
				}
			}
		}
	}
}

func (m *StakeMon) AfterBlock(s *Sim, b *BlockRes) {
	if b.Panic == "" {
		m.trackVaults(s)
		m.structural(s, fmt.Sprintf("after block %d", b.Height), b.Step)
	}
}

var _ = dualstakingtypes.ModuleName
