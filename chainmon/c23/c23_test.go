//go:build verif

// C23 — delegation credit is a bounded time-weighted average.
//
// Real code observed: the dualstaking msg server (Delegate / Unbond / Redelegate -> increaseDelegation /
// decreaseDelegation -> SetDelegation -> CalculateCredit) on the repo's full keeper world, and
// Keeper.CalculateMonthlyCredit on the delegations that path stored.
package c23

import (
	"fmt"
	"math/rand"
	"strings"
	"testing"
	"time"
	_ "time/tzdata"

	"cosmossdk.io/math"
	sdk "github.com/cosmos/cosmos-sdk/types"
	"github.com/lavanet/lava/v5/testutil/common"
	testkeeper "github.com/lavanet/lava/v5/testutil/keeper"
	dualstakingtypes "github.com/lavanet/lava/v5/x/dualstaking/types"
	"github.com/rs/zerolog"

	"verif/internal/ev"
	"verif/internal/vrand"
)

const (
	hour  = int64(3600)
	day   = 24 * hour
	month = 30 * day // "the last 30 days" of the statement: the closed interval [now-30*24h, now]
)

type world struct {
	ts        *common.Tester
	ctx       sdk.Context
	denom     string
	validator string
	p0, p1    string
	nAcc      int
}

func newWorld(t *testing.T, seed int64) *world {
	testkeeper.SetFixedTime()
	ts := common.NewTester(t)
	testkeeper.VerifSetRandomizer(seed)
	ts.AddPlan("mock", common.CreateMockPlan())
	ts.AddSpec("mock", common.CreateMockSpec())
	spec := ts.Spec("mock")
	ts.AdvanceEpoch()
	val, _ := ts.AddAccount(common.VALIDATOR, 0, 1_000_000_000_000)
	ts.TxCreateValidator(val, math.NewInt(100_000_000_000))
	w := &world{ts: ts, denom: ts.Keepers.StakingKeeper.BondDenom(ts.Ctx), validator: sdk.ValAddress(val.Addr).String()}
	for i := 0; i < 2; i++ {
		acc, addr := ts.AddAccount(common.PROVIDER, i, 1_000_000_000_000)
		if err := ts.StakeProvider(acc.GetVaultAddr(), addr, spec, 100_000_000); err != nil {
			t.Fatalf("stake provider: %v", err)
		}
		if i == 0 {
			w.p0 = addr
		} else {
			w.p1 = addr
		}
	}
	ts.AdvanceEpoch()
	w.ctx = ts.Ctx
	return w
}

type op struct {
	Gap    int64  `json:"gap_s"`  // seconds since the previous op
	Kind   string `json:"kind"`   // delegate | unbond | redelegate-out | redelegate-in
	Amount string `json:"amount"` // requested amount
	Err    string `json:"err,omitempty"`
	Held   string `json:"held_after"` // stored amount of the monitored delegation after the op
	T      int64  `json:"t"`
}

type step struct {
	t   int64
	amt math.Int
}

// tx runs one dualstaking message the way baseapp would: in a cache context that is written only on success;
// the mock bank (outside the multistore) is restored on failure.
func (w *world) tx(t int64, f func(goCtx sdk.Context) error) error {
	ctx := w.ctx.WithBlockTime(time.Unix(t, 0).UTC())
	cctx, write := ctx.CacheContext()
	snap := testkeeper.VerifBankSnapshot()
	err := f(cctx)
	if err != nil {
		testkeeper.VerifBankRestore(snap)
		return err
	}
	write()
	w.ctx = ctx
	return nil
}

func pickGap(rng *rand.Rand) (int64, string) {
	switch vrand.Weighted(rng, []int{8, 14, 6, 14, 22, 4, 4, 4, 6, 14, 4}) {
	case 0:
		return 0, "0s"
	case 1:
		return 1 + rng.Int63n(hour-1), "same-hour"
	case 2:
		return hour * (1 + rng.Int63n(3)), "whole-hours"
	case 3:
		return hour + rng.Int63n(day), "hours"
	case 4:
		return day + rng.Int63n(28*day), "days"
	case 5:
		return month - 1 - rng.Int63n(hour), "just-under-30d"
	case 6:
		return month, "exactly-30d"
	case 7:
		return month + 1 + rng.Int63n(hour), "just-over-30d"
	case 8:
		return month + rng.Int63n(30*day), "30-60d"
	case 9:
		return 15*day + rng.Int63n(hour), "15d"
	default:
		return 60*day + rng.Int63n(60*day), "60-120d"
	}
}

func pickAmount(rng *rand.Rand, limit math.Int) math.Int {
	var a math.Int
	switch rng.Intn(7) {
	case 0:
		a = math.NewInt(1)
	case 1:
		a = math.NewInt(1 + rng.Int63n(1000))
	case 2:
		a = math.NewInt(720 * (1 + rng.Int63n(5000)))
	case 3:
		a = math.NewInt(1 + rng.Int63n(1_000_000_000))
	case 4:
		a = math.NewInt(1 + rng.Int63n(1_000_000_000_000_000))
	case 5:
		a = math.NewInt(1_000_000_000_000_000_000 - rng.Int63n(3))
	default:
		a = math.NewInt(1 + rng.Int63n(1_000_000_000_000_000_000))
	}
	if a.GT(limit) {
		a = limit
	}
	return a
}

var evalOffsets = []int64{0, 1, 1799, 3599, 3600, 3601, 2 * hour, day, 15 * day, 29 * day, month - 3601, month - 3600, month - 1, month, month + 1, month + 3600, 45 * day, 60*day - 1, 60 * day, 90 * day, 120 * day}

type evalRec struct {
	Te     int64  `json:"eval_t"`
	Off    int64  `json:"since_last_change_s"`
	Credit string `json:"credit"`
	Amount string `json:"amount"`
	Max30  string `json:"max_held_last_30d"`
}

func TestC23(t *testing.T) {
	zerolog.SetGlobalLevel(zerolog.Disabled)
	run := ev.Start("C23")
	// the credit is chain state: the time zone of the node process must not matter. Run the whole check in a zone with
	// daylight-saving switches (the sequences below cross many of them); zone data comes from the embedded time/tzdata
	if loc, err := time.LoadLocation("America/New_York"); err == nil {
		time.Local = loc
		run.Set("process_time_zone", loc.String())
	}
	nseq := run.Pick(1500, 60000)
	perWorld := 150
	var w *world
	classes := map[string]int{}
	gapSeen := map[string]int{}
	var p1Checks, p2Checks, p3Pairs, mixedEvals, declineAfterReduction, opFailed, opOK, recreated, selfRedelegations, sameInstantChecks int

	for s := 0; s < nseq && run.Violations() < 8; s++ {
		if s%perWorld == 0 {
			w = newWorld(t, run.Seed*1000+int64(s/perWorld))
		}
		rng := vrand.Sub(run.Seed, "c23", s)
		ts := w.ts
		k := ts.Keepers.Dualstaking
		w.nAcc++
		_, delegator := ts.AddAccount(common.CONSUMER, w.nAcc, 9_000_000_000_000_000_000)
		budget := math.NewInt(4_000_000_000_000_000_000) // total this delegator may move into delegations

		now := w.ctx.BlockTime().UTC().Unix()
		var ops []op
		var steps []step // amounts held by (delegator -> p0) over time, as stored by the code
		created := 0     // index in steps where the current delegation object was created
		heldP0, heldP1 := math.ZeroInt(), math.ZeroInt()
		nChanges := 1 + rng.Intn(10)
		seqMixed, seqEvals := false, 0
		fail := func(rule, sig, desc string, evs []evalRec) {
			run.Violation(rule, sig, desc, map[string]any{"sequence": s, "world_seed": run.Seed*1000 + int64(s/perWorld), "ops": ops, "evaluations": evs,
				"replay": "ops are dualstaking msgs of one fresh delegator to provider 0 (redelegate-* moves to/from provider 1), gap_s seconds apart; evaluate CalculateMonthlyCredit at eval_t"})
		}

		for c := 0; c < nChanges; c++ {
			gap, gclass := pickGap(rng)
			if c == 0 {
				gap = rng.Int63n(hour)
			} else {
				gapSeen[gclass]++
			}
			now += gap
			o := op{Gap: gap, T: now}
			// choose an op that is possible in the current state
			var kinds []string
			if budget.IsPositive() {
				kinds = append(kinds, "delegate", "delegate")
			}
			if heldP0.IsPositive() {
				kinds = append(kinds, "unbond", "redelegate-out", "redelegate-out", "redelegate-self")
			}
			if heldP1.IsPositive() {
				kinds = append(kinds, "redelegate-in", "redelegate-in")
			}
			if len(kinds) == 0 {
				break
			}
			o.Kind = vrand.Pick(rng, kinds)
			var amt math.Int
			switch o.Kind {
			case "delegate":
				amt = pickAmount(rng, budget)
			case "unbond", "redelegate-out", "redelegate-self":
				switch rng.Intn(4) {
				case 0:
					amt = heldP0 // full: the delegation entry is removed
				case 1:
					amt = math.MaxInt(math.OneInt(), heldP0.QuoRaw(2))
				default:
					amt = pickAmount(rng, heldP0)
				}
			case "redelegate-in":
				amt = pickAmount(rng, heldP1)
				if rng.Intn(3) == 0 {
					amt = heldP1
				}
			}
			o.Amount = amt.String()
			coin := sdk.NewCoin(w.denom, amt)
			preCtx := w.ctx.WithBlockTime(time.Unix(now, 0).UTC())
			dBefore, foundBefore := k.GetDelegation(preCtx, w.p0, delegator)
			amtBefore, creditBefore := math.ZeroInt(), math.ZeroInt()
			if foundBefore {
				amtBefore, creditBefore = dBefore.Amount.Amount, k.CalculateMonthlyCredit(preCtx, dBefore).Amount
			}
			err := w.tx(now, func(cctx sdk.Context) error {
				g := sdk.WrapSDKContext(cctx)
				var err error
				switch o.Kind {
				case "delegate":
					_, err = ts.Servers.DualstakingServer.Delegate(g, &dualstakingtypes.MsgDelegate{Creator: delegator, Validator: w.validator, Provider: w.p0, ChainID: "mock", Amount: coin})
				case "unbond":
					_, err = ts.Servers.DualstakingServer.Unbond(g, &dualstakingtypes.MsgUnbond{Creator: delegator, Validator: w.validator, Provider: w.p0, ChainID: "mock", Amount: coin})
				case "redelegate-out":
					_, err = ts.Servers.DualstakingServer.Redelegate(g, &dualstakingtypes.MsgRedelegate{Creator: delegator, FromProvider: w.p0, ToProvider: w.p1, FromChainID: "mock", ToChainID: "mock", Amount: coin})
				case "redelegate-in":
					_, err = ts.Servers.DualstakingServer.Redelegate(g, &dualstakingtypes.MsgRedelegate{Creator: delegator, FromProvider: w.p1, ToProvider: w.p0, FromChainID: "mock", ToChainID: "mock", Amount: coin})
				case "redelegate-self": // source and target are the same provider: the amount held does not change
					_, err = ts.Servers.DualstakingServer.Redelegate(g, &dualstakingtypes.MsgRedelegate{Creator: delegator, FromProvider: w.p0, ToProvider: w.p0, FromChainID: "mock", ToChainID: "mock", Amount: coin})
				}
				return err
			})
			if err != nil {
				o.Err = err.Error()
				opFailed++
			} else {
				opOK++
				if o.Kind == "delegate" {
					budget = budget.Sub(amt)
				}
			}
			// what the code now stores is the record of "amount held"
			evalCtx := w.ctx.WithBlockTime(time.Unix(now, 0).UTC())
			d0, found0 := k.GetDelegation(evalCtx, w.p0, delegator)
			d1, found1 := k.GetDelegation(evalCtx, w.p1, delegator)
			newP0, newP1 := math.ZeroInt(), math.ZeroInt()
			if found0 {
				newP0 = d0.Amount.Amount
			}
			if found1 {
				newP1 = d1.Amount.Amount
			}
			o.Held = newP0.String()
			ops = append(ops, o)
			if !newP0.Equal(heldP0) || len(steps) == 0 || (o.Kind == "redelegate-self" && o.Err == "") {
				if heldP0.IsZero() && newP0.IsPositive() {
					if len(steps) > 0 {
						recreated++
					}
					created = len(steps)
				}
				steps = append(steps, step{now, newP0})
			}
			heldP0, heldP1 = newP0, newP1
			if !found0 {
				continue // no delegation, no credit to evaluate
			}
			lastChange := steps[len(steps)-1].t
			if o.Kind == "redelegate-self" && o.Err == "" {
				selfRedelegations++
			}
			// an operation that does not lower the amount held must not lower the credit at that very instant
			// (the credit describes the past 30 days, which the operation does not change)
			if o.Err == "" && foundBefore && !newP0.LT(amtBefore) {
				after := k.CalculateMonthlyCredit(evalCtx, d0).Amount
				run.Eval(1)
				if after.LT(creditBefore) {
					fail("credit-lowered-by-an-operation-that-did-not-lower-the-amount", o.Kind,
						fmt.Sprintf("%s at t=%d: amount %s -> %s, credit evaluated at the same instant %s -> %s", o.Kind, now, amtBefore, newP0, creditBefore, after), nil)
				} else {
					sameInstantChecks++
				}
			}
			if d0.Timestamp != lastChange {
				t.Fatalf("harness: stored delegation timestamp %d != time of the last amount change seen %d (sequence %d ops %+v)", d0.Timestamp, lastChange, s, ops)
			}
			// eligibility for "holding longer never lowers the credit": no larger amount was held by this delegation object
			increaseOnly := true
			for _, st := range steps[created:] {
				if st.amt.GT(heldP0) {
					increaseOnly = false
				}
			}
			allTimeMax := math.ZeroInt()
			for _, st := range steps {
				allTimeMax = math.MaxInt(allTimeMax, st.amt)
			}

			// evaluation times: fixed offsets from the last change + a few random ones, ascending
			offs := append([]int64{}, evalOffsets...)
			for j := 0; j < 3; j++ {
				offs = append(offs, rng.Int63n(70*day))
			}
			sortInt64(offs)
			var evs []evalRec
			prevCredit := math.NewInt(-1)
			var prevTe int64
			for _, off := range offs {
				te := now + off // "now" is the time of this op; the delegation was last changed at lastChange <= now
				credit := k.CalculateMonthlyCredit(w.ctx.WithBlockTime(time.Unix(te, 0).UTC()), d0)
				run.Eval(1)
				seqEvals++
				cr := credit.Amount
				// largest amount held during [te-30d, te]
				max30 := math.ZeroInt()
				for j, st := range steps {
					end := int64(1<<62 - 1)
					if j+1 < len(steps) {
						end = steps[j+1].t
					}
					if st.t <= te && end >= te-month {
						max30 = math.MaxInt(max30, st.amt)
					}
				}
				rec := evalRec{te, te - lastChange, cr.String(), heldP0.String(), max30.String()}
				evs = append(evs, rec)
				p1Checks++
				if cr.IsNegative() {
					fail("credit-negative", "negative", fmt.Sprintf("credit %s < 0 at %d s after the last change", cr, te-lastChange), evs)
				}
				if cr.GT(max30) {
					sig := "above-every-amount-ever-held"
					if cr.LTE(allTimeMax) {
						sig = "stale-credit-within-history-max" // above the 30-day maximum, but not above an amount held earlier: the stored credit still averages amounts held more than 30 days before the evaluation
					}
					fail("credit-exceeds-max-held-in-last-30-days", sig, fmt.Sprintf("credit %s > %s = largest amount held in the 30 days before the evaluation; the stored credit (an average over older amounts) is weighted in although those amounts were held before the window (evaluated %d s after the last change; amount now %s; largest amount ever held %s; stored credit %s since %d)", cr, max30, te-lastChange, heldP0, allTimeMax, d0.Credit.Amount, d0.CreditTimestamp), evs)
				}
				if te-lastChange >= month {
					p2Checks++
					if !cr.Equal(heldP0) {
						fail("credit-differs-from-amount-after-30-days-unchanged", "unchanged>=30d", fmt.Sprintf("credit %s != amount %s although unchanged for %d s", cr, heldP0, te-lastChange), evs)
					}
				}
				if prevCredit.IsNegative() || te == prevTe {
					prevCredit, prevTe = cr, te
				} else {
					if increaseOnly {
						p3Pairs++
						if cr.LT(prevCredit) {
							fail("credit-decreases-while-unchanged", "no-larger-amount-ever-held", fmt.Sprintf("credit fell from %s (at +%d s) to %s (at +%d s) with the delegation unchanged and never larger than now", prevCredit, prevTe-lastChange, cr, te-lastChange), evs)
						}
					} else if cr.LT(prevCredit) {
						declineAfterReduction++ // a time-weighted average falls after a reduction: not judged
					}
					prevCredit, prevTe = cr, te
				}
				if !d0.Credit.IsNil() && d0.Credit.IsPositive() && te-lastChange < month && te-lastChange >= hour && !cr.Equal(heldP0) {
					mixedEvals++
					seqMixed = true
				}
				switch {
				case te-lastChange == month:
					classes["evaluated exactly 30 days after the last change"]++
				case te-lastChange < hour:
					classes["evaluated within the first hour"]++
				}
			}
		}
		if seqMixed && len(steps) >= 2 {
			var sb strings.Builder
			for _, o := range ops {
				fmt.Fprintf(&sb, "%d:%s:%s:%s;", o.Gap, o.Kind, o.Amount, o.Err)
			}
			run.Nontrivial(sb.String())
		}
		if s < 3 {
			run.Sample(map[string]any{"sequence": s, "ops": ops, "evaluations": seqEvals})
		}
	}
	for _, g := range []string{"0s", "same-hour", "whole-hours", "days", "just-under-30d", "exactly-30d", "just-over-30d", "60-120d"} {
		run.Count("gap class: "+g, gapSeen[g])
		run.Require("gap class exercised: "+g, gapSeen[g] > 0)
	}
	for k, v := range classes {
		run.Count(k, v)
	}
	run.Count("self redelegations (same source and target provider, amount held unchanged)", selfRedelegations)
	run.Count("same-instant checks (operation that does not lower the amount must not lower the credit)", sameInstantChecks)
	run.Count("bound checks (0 <= credit <= max held in last 30 days)", p1Checks)
	run.Count("unchanged>=30d checks (credit == amount)", p2Checks)
	run.Count("monotonicity pairs checked (no larger amount ever held)", p3Pairs)
	run.Count("evaluations where stored history was actually weighted in", mixedEvals)
	run.Count("credit declined over time after a reduction (not judged)", declineAfterReduction)
	run.Count("ops accepted", opOK)
	run.Count("ops rejected by the code (rolled back)", opFailed)
	run.Count("delegation removed and created again", recreated)
	run.Require("unchanged>=30d evaluated", p2Checks > 0)
	run.Require("monotonicity pairs evaluated", p3Pairs > 0)
	run.Require("history-weighted evaluations", mixedEvals > 0)
	run.Require("delegation removed and re-created in a sequence", recreated > 0)
	run.Require("evaluated exactly at the 30-day boundary", classes["evaluated exactly 30 days after the last change"] > 0)
	run.Finish("PRNG sequences of 1-10 dualstaking messages (delegate / unbond / redelegate out / redelegate in, amounts 1..1e18, gaps 0 s..120 days incl. same-hour and 30-day boundaries) of a fresh delegator through the real msg server on the repo's keeper world (cache-context per message, block time set per message); after every message CalculateMonthlyCredit of the stored delegation is evaluated at 24 times (0 s .. 120 days later, incl. 30 days +-1 s / +-1 h) and compared with the amounts the store recorded: 0 <= credit <= largest amount held in [t-30d, t]; unchanged >= 30 d => credit == amount; credit non-decreasing in evaluation time when the delegation never held more than it holds now; a sequence is non-trivial when it has >= 2 distinct amounts and an evaluation in which the stored credit history was weighted in; distinct = distinct op lists",
		nseq/4, "block time is set directly on the context between messages (no Begin/EndBlock in between), as the repo's own credit test does", "\"holding an unchanged delegation longer never lowers its credit\" is judged only when no larger amount was ever held by that delegation (after a reduction a time-weighted average necessarily falls towards the new amount); declines after a reduction are counted, not judged")
}

func sortInt64(a []int64) {
	for i := 1; i < len(a); i++ {
		for j := i; j > 0 && a[j] < a[j-1]; j-- {
			a[j], a[j-1] = a[j-1], a[j]
		}
	}
}
