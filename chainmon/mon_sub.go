//go:build verif

package chainmon

import (
	"fmt"
	"sort"
	"strings"

	sdk "github.com/cosmos/cosmos-sdk/types"
	"github.com/lavanet/lava/v5/utils"
	planstypes "github.com/lavanet/lava/v5/x/plans/types"
	subscriptiontypes "github.com/lavanet/lava/v5/x/subscription/types"

	"verif/internal/ev"
)

// SubMon: C12 (reference model of subscription lifetime / charges / monthly CU) and C13 (plan
// versions of live subscriptions stay available).
type SubMon struct {
	BaseMon
	Run  *ev.Run
	Hist string
	Prop string

	model map[string]*subModel
	// pre-tx
	preBal   sdk.Int
	prePrice map[string]planstypes.Plan
	preKind  string
	// pre-block: timers due are recomputed in AfterBlock from this snapshot
	preTimers  []subTimer
	preAuto    map[string]string
	preCreator map[string]string

	Expiries, Renewals, Activations, Removals, Upgrades, Extends, Advances, AdvReplaced, News int
	PlanLookups, OldVersionLookups                                                            int
}

type subModel struct {
	left uint64
	plan string
	fut  *futModel
	// next month boundary as the model computes it (one calendar month after the purchase / upgrade / last
	// boundary, utils.NextMonth): the implementation must process an expiry by then, timers or not
	expiry int64
}

type futModel struct {
	months uint64
	credit sdk.Int
	plan   string
}

type subTimer struct {
	consumer string
	expiry   uint64
}

func NewSubMon(run *ev.Run, hist, prop string) *SubMon {
	return &SubMon{Run: run, Hist: hist, Prop: prop, model: map[string]*subModel{}}
}

func (m *SubMon) v(prop, rule, sig, desc string, s *Sim, step int) {
	if prop != m.Prop {
		return
	}
	m.Run.Violation(rule, sig, desc, map[string]any{"history": m.Hist, "seed": s.Seed, "profile": s.prof.Name, "step": step, "log_tail": s.LogTail(40)})
}

func priceFor(plan planstypes.Plan, months uint64) sdk.Int {
	p := plan.Price.Amount.MulRaw(int64(months))
	if months >= 12 && plan.AnnualDiscountPercentage > 0 {
		p = p.MulRaw(int64(100 - plan.AnnualDiscountPercentage)).QuoRaw(100)
	}
	return p
}

func (m *SubMon) latest(s *Sim, consumer string) (subscriptiontypes.Subscription, bool) {
	ks := s.TS.Keepers
	next := ks.Epochstorage.GetCurrentNextEpoch(s.TS.Ctx)
	sub, _, found := ks.Subscription.GetSubscriptionForBlock(s.TS.Ctx, consumer, next)
	return sub, found
}

func (m *SubMon) BeforeTx(s *Sim, name string, msg sdk.Msg) {
	m.preKind = ""
	buy, ok := msg.(*subscriptiontypes.MsgBuy)
	if !ok {
		return
	}
	ctx := s.TS.Ctx
	ks := s.TS.Keepers
	if acc, err := sdk.AccAddressFromBech32(buy.Creator); err == nil {
		m.preBal = ks.BankKeeper.GetBalance(ctx, acc, s.Denom).Amount
	}
	m.prePrice = map[string]planstypes.Plan{}
	if p, found := ks.Plans.FindPlan(ctx, buy.Index, uint64(ctx.BlockHeight())); found {
		m.prePrice[buy.Index] = p
	}
	sub, found := m.latest(s, buy.Consumer)
	switch {
	case buy.AdvancePurchase:
		m.preKind = "advance"
	case !found:
		m.preKind = "new"
	case sub.PlanIndex == buy.Index:
		m.preKind = "extend"
	default:
		m.preKind = "upgrade"
	}
}

func (m *SubMon) AfterTx(s *Sim, r *TxRes) {
	m.bounds(s, "after tx "+r.Name, r.Step)
	m.plans(s, "after tx "+r.Name+" "+r.Desc, r.Step)
	buy, ok := r.Msg.(*subscriptiontypes.MsgBuy)
	if !ok || !r.OK() || m.preKind == "" {
		return
	}
	ctx := s.TS.Ctx
	ks := s.TS.Keepers
	plan, okp := m.prePrice[buy.Index]
	if !okp {
		return
	}
	full := priceFor(plan, buy.Duration)
	want := full
	md := m.model[buy.Consumer]
	switch m.preKind {
	case "new":
		m.News++
		m.model[buy.Consumer] = &subModel{left: buy.Duration, plan: buy.Index, expiry: utils.NextMonth(ctx.BlockTime()).UTC().Unix()}
	case "extend":
		m.Extends++
		if md != nil {
			md.left += buy.Duration
		}
	case "upgrade":
		m.Upgrades++
		if md != nil {
			md.left = buy.Duration
			md.plan = buy.Index
			md.expiry = utils.NextMonth(ctx.BlockTime()).UTC().Unix()
		}
	case "advance":
		m.Advances++
		if md != nil {
			if md.fut != nil {
				m.AdvReplaced++
				want = full.Sub(md.fut.credit)
			}
			md.fut = &futModel{months: buy.Duration, credit: full, plan: buy.Index}
		}
	}
	if acc, err := sdk.AccAddressFromBech32(buy.Creator); err == nil {
		after := ks.BankKeeper.GetBalance(ctx, acc, s.Denom).Amount
		paid := m.preBal.Sub(after)
		if !paid.Equal(want) {
			m.v("C12", "purchase-charged-wrong-amount", "kind:"+m.preKind, fmt.Sprintf("tx %s: creator paid %s, expected %s (plan price %s x %d months, discount %d%%)", r.Desc, paid, want, plan.Price.Amount, buy.Duration, plan.AnnualDiscountPercentage), s, r.Step)
		}
		m.Run.Nontrivial(fmt.Sprintf("%s:buy:%s:%d", m.Hist, m.preKind, r.Step))
	}
	m.compare(s, buy.Consumer, "after tx "+r.Desc, r.Step)
}

func (m *SubMon) compare(s *Sim, consumer, where string, step int) {
	md := m.model[consumer]
	sub, found := m.latest(s, consumer)
	if md == nil {
		if found {
			m.v("C12", "subscription-outlives-model", "subscription exists although the model says it ended", fmt.Sprintf("%s: consumer %s still has DurationLeft=%d plan=%s", where, consumer, sub.DurationLeft, sub.PlanIndex), s, step)
		}
		return
	}
	if !found {
		m.v("C12", "subscription-ended-early", "subscription missing although months remain", fmt.Sprintf("%s: consumer %s model months left=%d", where, consumer, md.left), s, step)
		return
	}
	if sub.DurationLeft != md.left {
		m.v("C12", "months-left-differs", "DurationLeft != model", fmt.Sprintf("%s: consumer %s DurationLeft=%d model=%d (plan %s)", where, consumer, sub.DurationLeft, md.left, sub.PlanIndex), s, step)
	}
	if (sub.FutureSubscription != nil) != (md.fut != nil) {
		m.v("C12", "future-subscription-differs", "advance purchase presence differs from model", fmt.Sprintf("%s: consumer %s chain=%v model=%v", where, consumer, sub.FutureSubscription != nil, md.fut != nil), s, step)
	}
}

// bounds: monthly CU never above the total.
func (m *SubMon) bounds(s *Sim, where string, step int) {
	ks := s.TS.Keepers
	for _, c := range ks.Subscription.GetAllSubscriptionsIndices(s.TS.Ctx) {
		if sub, found := ks.Subscription.GetSubscription(s.TS.Ctx, c); found && sub.MonthCuLeft > sub.MonthCuTotal {
			m.v("C12", "month-cu-left-above-total", "MonthCuLeft > MonthCuTotal", fmt.Sprintf("%s: %s left=%d total=%d", where, c, sub.MonthCuLeft, sub.MonthCuTotal), s, step)
		}
	}
}

// plans (C13): every plan version referenced by a live subscription can be looked up.
func (m *SubMon) plans(s *Sim, where string, step int) {
	ctx := s.TS.Ctx
	ks := s.TS.Keepers
	next := ks.Epochstorage.GetCurrentNextEpoch(ctx)
	for _, c := range ks.Subscription.GetAllSubscriptionsIndices(ctx) {
		for _, blk := range []uint64{uint64(ctx.BlockHeight()), next} {
			sub, _, found := ks.Subscription.GetSubscriptionForBlock(ctx, c, blk)
			if !found {
				continue
			}
			m.PlanLookups++
			if latest, ok := ks.Plans.FindPlan(ctx, sub.PlanIndex, uint64(ctx.BlockHeight())); !ok || latest.Block != sub.PlanBlock {
				m.OldVersionLookups++ // the subscription references a version that is no longer the latest / was deleted
				m.Run.Nontrivial(fmt.Sprintf("%s:oldplan:%s:%s@%d", m.Hist, c, sub.PlanIndex, sub.PlanBlock))
			}
			if _, ok := ks.Plans.FindPlan(ctx, sub.PlanIndex, sub.PlanBlock); !ok {
				m.v("C13", "plan-version-missing", "plan version of a live subscription cannot be found", fmt.Sprintf("%s: consumer %s references plan %s@%d (subscription version at block %d)", where, c, sub.PlanIndex, sub.PlanBlock, blk), s, step)
			}
			if _, err := ks.Subscription.GetPlanFromSubscription(ctx, c, blk); err != nil {
				m.v("C13", "plan-from-subscription-fails", "GetPlanFromSubscription fails for a live subscription", fmt.Sprintf("%s: consumer %s: %v", where, c, err), s, step)
			}
			if f := sub.FutureSubscription; f != nil {
				if _, ok := ks.Plans.FindPlan(ctx, f.PlanIndex, f.PlanBlock); !ok {
					m.v("C13", "plan-version-missing", "plan version of an advance purchase cannot be found", fmt.Sprintf("%s: consumer %s future plan %s@%d", where, c, f.PlanIndex, f.PlanBlock), s, step)
				}
			}
		}
	}
}

func (m *SubMon) BeforeBlock(s *Sim) {
	ks := s.TS.Keepers
	m.preTimers = nil
	m.preAuto = map[string]string{}
	m.preCreator = map[string]string{}
	gs := ks.Subscription.ExportSubscriptionsTimers(s.TS.Ctx)
	for _, e := range gs.TimeEntries {
		m.preTimers = append(m.preTimers, subTimer{consumer: e.Key, expiry: e.Value})
		if sub, found := m.latest(s, e.Key); found {
			m.preAuto[e.Key] = sub.AutoRenewalNextPlan
			m.preCreator[e.Key] = sub.Creator
		}
	}
	sort.Slice(m.preTimers, func(i, j int) bool {
		if m.preTimers[i].expiry != m.preTimers[j].expiry {
			return m.preTimers[i].expiry < m.preTimers[j].expiry
		}
		return m.preTimers[i].consumer < m.preTimers[j].consumer
	})
}

func (m *SubMon) AfterBlock(s *Sim, b *BlockRes) {
	if b.Panic != "" {
		// "... never fail, or halt the chain, because a referenced plan version has disappeared": block processing of a
		// subscription (expiry, renewal, payout) that panics inside the plans keeper / its fixation store
		if m.Prop == "C13" {
			viaSub, viaPlans := false, false
			for _, f := range lavaFrames(b.Stack) {
				viaSub = viaSub || strings.HasPrefix(f, "x/subscription/keeper")
				viaPlans = viaPlans || strings.HasPrefix(f, "x/plans/keeper")
			}
			if viaSub && viaPlans {
				m.v("C13", "subscription-processing-halted-in-plans-keeper", panicSignature(b.Phase, b.Stack), fmt.Sprintf("block %d: %s", b.Height, oneline(b.Panic)), s, b.Step)
			}
		}
		return
	}
	ctx := s.TS.Ctx
	ks := s.TS.Keepers
	now := uint64(b.Time.UTC().Unix())
	processed := map[string]bool{}
	defer func() {
		// a live subscription whose month boundary (as the model computes it) has passed must have had its expiry
		// processed in this block at the latest
		for _, c := range sortedKeys(m.model) {
			md := m.model[c]
			if !processed[c] && md.expiry != 0 && md.expiry <= int64(now) {
				m.v("C12", "month-boundary-not-processed", "the subscription's month boundary passed but no expiry was processed", fmt.Sprintf("block %d consumer %s: boundary %d, block time %d, months left %d", b.Height, c, md.expiry, now, md.left), s, b.Step)
				md.expiry = 0 // report once
			}
		}
	}()
	// balances as they were before this block's timers ran are not observable any more; the model
	// only needs "could the creator pay": recompute from the balance after the block plus what the
	// model itself charged (renewals are the only debits of a creator inside timer callbacks).
	for _, t := range m.preTimers {
		if t.expiry > now {
			continue
		}
		md := m.model[t.consumer]
		if md == nil {
			continue
		}
		m.Expiries++
		if md.left == 0 {
			m.v("C12", "expiry-with-zero-months-left", "month expiry for a subscription with no months left", t.consumer, s, b.Step)
			continue
		}
		md.left--
		if md.left == 0 {
			switch {
			case md.fut != nil:
				// advance purchase activates (if its plan version can still be found)
				m.Activations++
				md.left = md.fut.months
				md.plan = md.fut.plan
				md.fut = nil
			case m.preAuto[t.consumer] != "" && m.preAuto[t.consumer] != subscriptiontypes.AUTO_RENEWAL_PLAN_NONE:
				// auto-renewal: succeeds iff the plan exists and the creator can pay one month. Whether it
				// succeeded is an input we read from the chain (balance / plan existence at that instant are
				// not observable afterwards); the model then requires exactly one more month.
				if sub, found := m.latest(s, t.consumer); found && sub.DurationLeft == 1 {
					m.Renewals++
					md.left = 1
					md.plan = sub.PlanIndex
				} else {
					delete(m.model, t.consumer)
					m.Removals++
				}
			default:
				delete(m.model, t.consumer)
				m.Removals++
			}
		}
		if md3 := m.model[t.consumer]; md3 != nil {
			md3.expiry = utils.NextMonth(b.Time).UTC().Unix()
		}
		processed[t.consumer] = true
		m.Run.Nontrivial(fmt.Sprintf("%s:expiry:%s:%d", m.Hist, t.consumer, b.Height))
		m.compare(s, t.consumer, fmt.Sprintf("after month expiry in block %d", b.Height), b.Step)
		if md2 := m.model[t.consumer]; md2 != nil {
			if sub, found := m.latest(s, t.consumer); found {
				if sub.MonthCuLeft != sub.MonthCuTotal {
					m.v("C12", "month-cu-not-reset", "MonthCuLeft not reset to the total at the month boundary", fmt.Sprintf("block %d consumer %s left=%d total=%d", b.Height, t.consumer, sub.MonthCuLeft, sub.MonthCuTotal), s, b.Step)
				}
				if plan, ok := ks.Plans.FindPlan(ctx, sub.PlanIndex, sub.PlanBlock); ok && sub.MonthCuTotal != plan.PlanPolicy.TotalCuLimit {
					m.v("C12", "month-cu-total-not-plan-total", "MonthCuTotal differs from the plan's total CU", fmt.Sprintf("block %d consumer %s total=%d plan %s@%d total=%d", b.Height, t.consumer, sub.MonthCuTotal, sub.PlanIndex, sub.PlanBlock, plan.PlanPolicy.TotalCuLimit), s, b.Step)
				}
			}
		} else {
			// gone: its projects must be gone from the next epoch on
			next := ks.Epochstorage.GetCurrentNextEpoch(ctx)
			for _, pid := range ks.Projects.GetAllProjectsForSubscription(ctx, t.consumer) {
				if _, err := ks.Projects.GetProjectForBlock(ctx, pid, next); err == nil {
					m.v("C12", "projects-outlive-subscription", "project still resolvable after its subscription ended", fmt.Sprintf("block %d project %s", b.Height, pid), s, b.Step)
				}
			}
		}
	}
	m.bounds(s, fmt.Sprintf("after block %d", b.Height), b.Step)
	m.plans(s, fmt.Sprintf("after block %d", b.Height), b.Step)
}

func (m *SubMon) Report() {
	for k, v := range map[string]int{"sub_new": m.News, "sub_extend": m.Extends, "sub_upgrade": m.Upgrades, "sub_advance": m.Advances, "sub_advance_replaced": m.AdvReplaced,
		"month_expiries": m.Expiries, "auto_renewals": m.Renewals, "advance_activations": m.Activations, "removals": m.Removals,
		"plan_lookups": m.PlanLookups, "plan_lookups_of_non_latest_version": m.OldVersionLookups} {
		m.Run.Count(k, v)
	}
}
