//go:build verif

package chainmon

import (
	"fmt"
	"os"
	"strconv"
	"strings"
	"testing"

	sdk "github.com/cosmos/cosmos-sdk/types"
	"verif/internal/ev"
)

type subTracer struct {
	BaseMon
	last map[string]string
}

func (m *subTracer) dump(s *Sim, where string) {
	m.timers(s)
	ks := s.TS.Keepers
	next := ks.Epochstorage.GetCurrentNextEpoch(s.TS.Ctx)
	for _, idx := range ks.Subscription.GetAllSubscriptionsIndices(s.TS.Ctx) {
		sub, eb, found := ks.Subscription.GetSubscriptionForBlock(s.TS.Ctx, idx, next)
		str := fmt.Sprintf("found=%v entryBlock=%d plan=%s@%d left=%d bought=%d total=%d credit=%s auto=%q future=%v expiry=%d subBlock=%d", found, eb, sub.PlanIndex, sub.PlanBlock, sub.DurationLeft, sub.DurationBought, sub.DurationTotal, sub.Credit, sub.AutoRenewalNextPlan, sub.FutureSubscription != nil, sub.MonthExpiryTime, sub.Block)
		if m.last[idx] != str {
			m.last[idx] = str
			fmt.Printf("   SUB %s %s: %s\n", short(idx), where, str)
		}
	}
}
func (m *subTracer) timers(s *Sim) {
	gs := s.TS.Keepers.Subscription.ExportSubscriptionsTimers(s.TS.Ctx)
	str := ""
	for _, e := range gs.TimeEntries {
		str += fmt.Sprintf(" %s@%d", short(e.Key), e.Value)
	}
	if m.last["_timers"] != str {
		m.last["_timers"] = str
		fmt.Printf("   SUBTIMERS h=%d now=%d:%s\n", s.TS.Ctx.BlockHeight(), s.TS.Ctx.BlockTime().Unix(), str)
	}
}
func (m *subTracer) AfterTx(s *Sim, r *TxRes) { m.dump(s, "after "+r.Name) }
func (m *subTracer) AfterBlock(s *Sim, b *BlockRes) {
	m.dump(s, fmt.Sprintf("after block %d t=%s", b.Height, b.Time.Format("01-02T15:04")))
}

// TestReplay re-runs one history: VERIF_HIST="<profile>:<seed>:<hist>:<nOps>"
func TestReplay(t *testing.T) {
	spec := os.Getenv("VERIF_HIST")
	if spec == "" {
		t.Skip()
	}
	p := strings.Split(spec, ":")
	seed, _ := strconv.ParseInt(p[1], 10, 64)
	hist, _ := strconv.Atoi(p[2])
	nOps, _ := strconv.Atoi(p[3])
	var prof *Profile
	for _, pr := range []*Profile{profEconomic(), profUnusual(), profStaking(), profSubs(), func() *Profile {
		p := profSubs()
		p.Name = "subsdirected"
		p.Prologue = prologueFailedRenewal
		return p
	}(), profPairingFor(0), profPairingFor(1), {Name: "default", Providers: 6, Consumers: 3, Delegators: 2, Validators: 2, KeepPools: true}} {
		if pr.Name == p[0] {
			prof = pr
		}
	}
	os.Setenv("VERIF_SEED", p[1])
	run := ev.Start("REPLAY")
	_ = seed
	var s *Sim
	defer func() {
		if s != nil {
			for _, l := range s.Log {
				fmt.Println(l)
			}
		}
	}()
	s = History(t, run, prof, hist, nOps, func(id string) []Monitor {
		mons := []Monitor{&PanicMon{Run: run, Hist: id}}
		switch os.Getenv("VERIF_TRACE") {
		case "sub":
			mons = append(mons, &subTracer{last: map[string]string{}})
		case "iprpc":
			mons = append(mons, &iprpcTracer{last: map[string]string{}})
		case "prov":
			mons = append(mons, &provTracer{last: map[string]string{}, who: os.Getenv("VERIF_WHO")})
		}
		return mons
	})
	_ = sdk.ZeroInt
}

type provTracer struct {
	BaseMon
	last map[string]string
	who  string
}

func (m *provTracer) dump(s *Sim, where string) {
	ks := s.TS.Keepers
	mds, _ := ks.Epochstorage.GetAllMetadata(s.TS.Ctx)
	for _, md := range mds {
		if m.who != "" && !strings.HasSuffix(md.Provider, m.who) {
			continue
		}
		str := fmt.Sprintf("totalDel=%s chains=%v comm=%d |", md.TotalDelegations.Amount, md.Chains, md.DelegateCommission)
		for _, c := range md.Chains {
			e, ok := ks.Epochstorage.GetStakeEntryCurrent(s.TS.Ctx, c, md.Provider)
			str += fmt.Sprintf(" %s:found=%v stake=%s dt=%s frozen=%v", c, ok, e.Stake.Amount, e.DelegateTotal.Amount, e.IsFrozen())
		}
		ds, _ := ks.Dualstaking.GetProviderDelegators(s.TS.Ctx, md.Provider)
		str += " | dels:"
		for _, d := range ds {
			str += fmt.Sprintf(" %s=%s", short(d.Delegator), d.Amount.Amount)
		}
		if m.last[md.Provider] != str {
			m.last[md.Provider] = str
			fmt.Printf("   PROV %s (vault %s) %s: %s\n", short(md.Provider), short(md.Vault), where, str)
		}
	}
}
func (m *provTracer) AfterTx(s *Sim, r *TxRes) {
	m.dump(s, fmt.Sprintf("after #%d %s", r.Step, r.Name))
}
func (m *provTracer) AfterBlock(s *Sim, b *BlockRes) {
	m.dump(s, fmt.Sprintf("after block %d", b.Height))
}

type iprpcTracer struct {
	BaseMon
	last map[string]string
}

func (m *iprpcTracer) dump(s *Sim, where string) {
	ks := s.TS.Keepers
	str := ""
	for _, r := range ks.Rewards.GetAllIprpcReward(s.TS.Ctx) {
		str += fmt.Sprintf(" [id=%d", r.Id)
		for _, f := range r.SpecFunds {
			str += fmt.Sprintf(" %s:%s", f.Spec, f.Fund)
		}
		str += "]"
	}
	str += fmt.Sprintf(" cur=%d pool=%s", ks.Rewards.GetIprpcRewardsCurrentId(s.TS.Ctx), ks.Rewards.TotalPoolTokens(s.TS.Ctx, "iprpc_pool"))
	bp := ""
	for _, b := range ks.Rewards.GetAllBasePay(s.TS.Ctx) {
		if b.BasePay.IprpcCu != 0 {
			bp += fmt.Sprintf(" %s=%d", fmt.Sprint(b.Provider, "/", b.ChainId), b.BasePay.IprpcCu)
		}
	}
	str += " iprpcCU:" + bp
	if m.last["x"] != str {
		m.last["x"] = str
		fmt.Printf("   IPRPC %s: %s\n", where, str)
	}
}
func (m *iprpcTracer) AfterTx(s *Sim, r *TxRes) {
	m.dump(s, fmt.Sprintf("after #%d %s", r.Step, r.Name))
}
func (m *iprpcTracer) AfterBlock(s *Sim, b *BlockRes) {
	m.dump(s, fmt.Sprintf("after block %d", b.Height))
}

func TestProbeVersions(t *testing.T) {
	if os.Getenv("VERIF_PROBE") == "" {
		t.Skip()
	}
	run := ev.Start("PROBE")
	s := NewSim(t, 7, profRelay())
	s.BuildWorld()
	s.Run(300)
	rm := NewRelayMon(run, "x", "C17")
	for _, c := range s.Cons {
		for _, p := range s.projectsOf(c) {
			vs := rm.projectVersions(s, p)
			fmt.Println("project", p, "versions", vs)
			for _, vb := range vs {
				pj, err := s.TS.Keepers.Projects.GetProjectForBlock(s.TS.Ctx, p, vb)
				fmt.Println("   ", vb, pj.Snapshot, pj.UsedCu, err)
			}
		}
	}
	fmt.Println("height", s.TS.Ctx.BlockHeight())
}

func TestProbeUnion(t *testing.T) {
	if os.Getenv("VERIF_PROBE") != "union" {
		t.Skip()
	}
	for seed := int64(11); seed < 19; seed++ {
		prof := profPairing()
		s := NewSim(t, seed, prof)
		s.BuildWorld()
		for ep := 0; ep < 6; ep++ {
			s.NextEpoch()
			c := s.Cons[0]
			seen := map[string]int{}
			for i := 0; i < 200; i++ {
				l := s.pairedProviders("SPA", c.Addr)
				seen[strings.Join(shortAll(l), ",")]++
			}
			fmt.Println("seed", seed, "epoch", ep, "distinct lists:", seen)
		}
	}
	s := NewSim(t, 11, profPairing())
	s.BuildWorld()
	c := s.Cons[0]
	res, err := s.TS.QueryPairingEffectivePolicy("SPA", c.Addr)
	fmt.Println(res, err)
}
