//go:build verif

package chainmon

import (
	"fmt"
	"testing"

	"verif/internal/ev"
)

func profPairing() *Profile {
	w := map[string]int{
		"block": 12, "epoch": 14, "longblock": 1,
		"stake": 6, "modify": 3, "unstake": 3, "freeze": 5, "unfreeze": 4,
		"buy": 4, "addproject": 4, "delproject": 1, "addkeys": 3, "delkeys": 2, "setpolicy": 10, "setsubpolicy": 8,
		"plan_add": 1, "relay": 6, "ds_delegate": 2,
	}
	return &Profile{Name: "pairing", W: w, Providers: 9, Consumers: 4, Delegators: 1, Validators: 2, KeepPools: true, PolicyHeavy: true, EpochsToSave: 3, EpochBlocks: 4}
}

// profPairingFor alternates the small world with a wide one (24 providers: enough providers that offer only one of
// the optional services for the mix-filter slots to matter).
func profPairingFor(h int) *Profile {
	p := profPairing()
	if h%2 == 1 {
		p.Name = "pairingwide"
		p.Providers = 24
	}
	return p
}

func TestC02(t *testing.T) {
	run := ev.Start("C02")
	nHist, nOps := run.Pick(8, 24), run.Pick(400, 1200)
	for h := 0; h < nHist; h++ {
		var pm *PairingMon
		s := History(t, run, profPairingFor(h), h, nOps, func(id string) []Monitor {
			pm = &PairingMon{Run: run, Hist: id, Prop: "C02", Every: 3}
			return []Monitor{pm}
		})
		pm.Report()
		if h == 0 {
			var l []string
			for _, x := range s.Log {
				if len(l) < 20 && (contains(x, "setpolicy") || contains(x, "setsubpolicy") || contains(x, "freeze")) {
					l = append(l, x)
				}
			}
			run.Sample(map[string]any{"history": 0, "policy_ops": l})
		}
	}
	for _, k := range []string{"lists_under_exclusive_mode", "lists_under_mix_mode", "lists_with_mandatory_addon_or_extension", "lists_truncated_to_max_providers", "lists_returning_all_eligible", "ineligible_providers_probed"} {
		run.Require("observed: "+k, run.Counter(k) > 0)
	}
	run.Finish("policy-heavy generated histories (plan, subscription and admin policies with chain requirements, add-ons, extensions, mixed requirements, EXCLUSIVE / MIXED selected-provider lists, frozen / just-staked / unstaked providers, 0..2x max eligible providers); at every epoch start and after every third stake / policy / key tx, for every client key and chain: no duplicates, every member in the epoch snapshot with applied stake and meeting the mandatory requirements of the effective policy, length == min(max providers, eligible) outside mix mode, and for every provider of the chain list membership == VerifyPairing.Valid in the same block; distinct non-trivial = distinct (epoch, client, chain) lists", 300,
		"the effective (strictest) policy is taken from the keeper's GetProjectStrictestPolicy and is an input of the eligibility model; mix-mode lists are only required to be subsets of the mandatory-eligible set of at most the right length; no static-provider specs in the world")
}

// DigestMon records the full-state digest after every block (C01 replay determinism).
type DigestMon struct {
	BaseMon
	Digests []string
	TxOK    []bool
}

func (m *DigestMon) AfterTx(s *Sim, r *TxRes) { m.TxOK = append(m.TxOK, r.OK()) }
func (m *DigestMon) AfterBlock(s *Sim, b *BlockRes) {
	m.Digests = append(m.Digests, s.Digest(s.TS.Ctx))
}

func TestC01(t *testing.T) {
	run := ev.Start("C01")
	nHist, nOps, replays, repeat := run.Pick(4, 10), run.Pick(300, 600), run.Pick(3, 4), run.Pick(64, 256)
	// besides the pairing worlds, histories of the jailing profile are replayed: epoch-start punishment of several
	// complained-about providers under a per-chain budget is order-sensitive state the pairing lists depend on
	nJail := run.Pick(2, 6)
	for hh := 0; hh < nHist+nJail; hh++ {
		h := hh
		profOf := func() *Profile { return profPairingFor(h) }
		ops := nOps
		if hh >= nHist {
			h = hh - nHist
			profOf = func() *Profile { return profJail(h + 2) } // 5+ providers: several offenders per chain
			ops = run.Pick(900, 1800)
		}
		var first *DigestMon
		for rep := 0; rep < replays; rep++ {
			var dm *DigestMon
			var pm *PairingMon
			s := History(t, run, profOf(), h, ops, func(id string) []Monitor {
				dm = &DigestMon{}
				mons := []Monitor{dm}
				if rep == 0 && hh < nHist {
					pm = &PairingMon{Run: run, Hist: id, Prop: "C01", Repeat: repeat}
					mons = append(mons, pm)
				}
				return mons
			})
			if pm != nil {
				pm.Report()
			}
			if rep == 0 {
				first = dm
				run.Count("blocks_digested", len(dm.Digests))
				run.Nontrivial(fmt.Sprintf("hist%d", hh))
				if hh == 0 {
					run.Sample(map[string]any{"history": 0, "blocks": len(dm.Digests), "first_digests": dm.Digests[:min(5, len(dm.Digests))], "tail": s.LogTail(5)})
				}
				continue
			}
			run.Count("replays_compared", 1)
			n := min(len(first.Digests), len(dm.Digests))
			if len(first.Digests) != len(dm.Digests) || len(first.TxOK) != len(dm.TxOK) {
				run.Violation("replay-diverged", "number of blocks / txs differs between two executions of the same history", fmt.Sprintf("history %d replay %d: blocks %d vs %d, txs %d vs %d", hh, rep, len(first.Digests), len(dm.Digests), len(first.TxOK), len(dm.TxOK)), map[string]any{"history": h, "seed": run.Seed})
			}
			for i := 0; i < n; i++ {
				if first.Digests[i] != dm.Digests[i] {
					run.Violation("replay-diverged", "state digest differs between two executions of the same history", fmt.Sprintf("history %d (%s) replay %d: first difference at block index %d (%s vs %s)", hh, s.prof.Name, rep, i, first.Digests[i], dm.Digests[i]), map[string]any{"history": hh, "profile": s.prof.Name, "profile_history": h, "seed": run.Seed, "block_index": i})
					break
				}
			}
			for i := 0; i < min(len(first.TxOK), len(dm.TxOK)); i++ {
				if first.TxOK[i] != dm.TxOK[i] {
					run.Violation("replay-diverged", "tx result vector differs between two executions of the same history", fmt.Sprintf("history %d replay %d: tx index %d", hh, rep, i), map[string]any{"history": hh, "seed": run.Seed, "tx_index": i})
					break
				}
			}
		}
	}
	run.Require("repeated pairing queries", run.Counter("repeated_queries") > 1000)
	run.Require("lists under mix mode (map-order sensitive filters)", run.Counter("lists_under_mix_mode") > 0)
	run.Require("replays compared", run.Counter("replays_compared") > 0)
	run.Finish("policy-heavy generated histories; (a) every GetPairing query at every epoch start is repeated R times in the same block and must return the identical ordered list (Go re-randomises map iteration on every range, so repetition samples map orders: a two-way order dependence that changes the result once in 8 evaluations escapes R=64 repetitions with probability (7/8)^64 ~ 2e-4); (b) each history, and a few histories of the jailing profile (several complained-about providers per chain under the per-chain jail budget), is executed several times from scratch in the same process and the per-block digest of all stores + bank and the tx result vector must be identical; distinct non-trivial = histories replayed", nHist+nJail,
		"replays run in one process (same hash seed of the runtime, but map iteration order is still re-randomised per range); goroutine scheduling does not affect the keepers, which are single-threaded")
}
