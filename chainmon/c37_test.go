//go:build verif

package chainmon

import (
	"fmt"
	"testing"

	"verif/internal/ev"
)

func TestSmoke(t *testing.T) {
	run := ev.Start("SMOKE")
	prof := &Profile{Name: "smoke", Providers: 6, Consumers: 3, Delegators: 2, Validators: 2, KeepPools: true}
	s := NewSim(t, run.Seed, prof)
	s.BuildWorld()
	s.Run(400)
	for _, k := range sortedKeys(s.Stats) {
		fmt.Printf("%-28s %d\n", k, s.Stats[k])
	}
	if s.Halted {
		fmt.Println("HALTED")
	}
	for _, l := range s.LogTail(30) {
		fmt.Println(l)
	}
}

func init() {
	// governance may set any half-life factor (the parameter has no validation): from one second to the default year
	RegisterOp("rep_param_any", func(s *Sim) {
		s.repSetHalfLife([]uint64{1, 7, 60, 600, 3600, 86400, 30 * 86400, 365 * 86400}[s.R.Intn(8)])
	})
}

// C37: block processing never halts the chain.
func TestC37(t *testing.T) {
	run := ev.Start("C37")
	nHist, nOps := run.Pick(25, 200), run.Pick(700, 2000)
	// hostileqos: consumers sign QoS excellence reports with any values the report validation lets through
	hq := profRep(3)
	hq.Name = "hostileqos"
	hq.W["rep_relay"], hq.W["rep_relay_astro"], hq.W["month"] = 10, 30, 1
	hq.W["rep_param"], hq.W["rep_decay"], hq.W["rep_param_any"] = 0, 0, 3 // (the C24 ops keep the half-life in a safe range)
	// subsdirected: the subscription profile opened by the failed-renewal prologue (plan versions around a renewal that cannot be paid)
	sd := profSubs()
	sd.Name, sd.Prologue = "subsdirected", prologueFailedRenewal
	profiles := []*Profile{profEconomic(), profUnusual(), {Name: "default", Providers: 6, Consumers: 3, Delegators: 2, Validators: 2, KeepPools: true}, hq, sd}
	for h := 0; h < nHist; h++ {
		prof := profiles[h%len(profiles)]
		var pm *PanicMon
		s := History(t, run, prof, h, nOps, func(id string) []Monitor {
			pm = &PanicMon{Run: run, Hist: id}
			return []Monitor{pm, &EventCounter{Run: run}}
		})
		// a history is non-trivial when block processing did real work: several epoch starts and at least
		// one subscription month expiry / payout / refill executed inside BeginBlock
		if pm.Epochs >= 5 && s.Stats["blocks"] >= 100 {
			run.Nontrivial(fmt.Sprintf("%s/%d", prof.Name, h))
		}
		if h < 2 {
			run.Sample(map[string]any{"history": fmt.Sprintf("%s/%d", prof.Name, h), "first_ops": s.Log[:min(len(s.Log), 25)]})
		}
	}
	for _, e := range []string{"new_epoch", "subscription_payout", "distribution_pools_refill", "expire_subscription_event", "iprpc_pool_emmission"} {
		run.Require("block processing executed: "+e, run.Counter("ev_block:"+e) > 0)
	}
	run.Finish("generated histories (full op grammar: staking, dualstaking, x/staking, slashes, subscriptions, projects, governance, relay payments incl. hostile ones, IPRPC, time jumps of at most 3 days) on the real keepers with app.go block order; every BeginBlock/EndBlock runs under recover(); a history is non-trivial when it ran >= 100 blocks and >= 5 epoch starts", nHist/2,
		"mock bank / account keepers from testutil; panics raised by the mock bank's negative-balance check are routed to C10",
		"block gaps never exceed 3 days; gas, ABCI, IBC, upgrades are outside the driver")
}
