//go:build verif

package chainmon

import (
	"testing"

	"verif/internal/ev"
)

// profJail: few providers per chain (around the smallest plan's max-providers-to-pair = 2), short epochs
// (4-5 blocks of 5 min, so a soft jail lasts ~3 epochs and a day ~60-70 epochs), relay payments that report a
// sticky victim with CU sized around 4 x its serviced CU, a little servicing, freezes / unfreezes / (un)stakes.
func profJail(hist int) *Profile {
	w := map[string]int{
		"block": 30, "epoch": 7, "longblock": 1,
		"c19_report": 22, "c19_boundary": 6, "c19_service": 8, "c19_unfreeze": 3, "relay": 6,
		"freeze": 2, "unfreeze": 1, "stake": 2, "unstake": 1, "modify": 1,
		"ds_delegate": 1, "ds_unbond": 1, "buy": 1,
	}
	p := &Profile{Name: "jail", W: w, Providers: 3 + hist%5, Consumers: 3, Delegators: 1, Validators: 2, KeepPools: true,
		EpochBlocks: uint64(4 + hist%2), EpochsToSave: 12}
	if hist%4 == 3 {
		p.EpochsToSave = 10 // the serviced-CU window then reaches the edge of the chain's memory
	}
	return p
}

func TestC19(t *testing.T) {
	run := ev.Start("C19")
	nHist, nOps := run.Pick(14, 120), run.Pick(1600, 4000)
	for h := 0; h < nHist; h++ {
		var jm *JailMon
		s := History(t, run, profJail(h), h, nOps, func(id string) []Monitor {
			jm = NewJailMon(run, id)
			return []Monitor{jm, &EventCounter{Run: run}}
		})
		jm.Report()
		if h == 0 {
			var l []string
			for _, x := range s.Log {
				if len(l) < 25 && contains(x, "c19_report") {
					l = append(l, x)
				}
			}
			run.Sample(map[string]any{"history": 0, "first_report_ops": l})
		}
	}
	run.Require("unresponsiveness jailings happened", run.Counter("jailings") > 0)
	run.Require("soft and hard jailings", run.Counter("jailings_soft") > 0 && run.Counter("jailings_hard") > 0)
	run.Require("a provider just below the 4x threshold was not jailed", run.Counter("not_jailed_just_below_threshold") > 0)
	run.Require("a provider just above the 4x threshold was jailed", run.Counter("jailed_just_above_threshold") > 0)
	run.Require("a third jail within 24 h occurred", run.Counter("third_or_later_jail_within_24h") > 0)
	run.Require("the min-provider guard kept a complained-about provider", run.Counter("not_jailed_because_of_min_provider_guard") > 0)
	run.Require("a too short stake history kept a complained-about provider", run.Counter("not_jailed_because_of_short_stake_history") > 0)
	run.Require("unfreeze after a jail occurred", run.Counter("unfreeze_after_jail") > 0)
	run.Require("every epoch start had a pre-block snapshot", run.Counter("epoch_starts_without_snapshot") == 0)
	run.Finish("generated histories on 3-7 providers (1-7 per chain, smallest plan max-providers-to-pair 2) with 4-5 block epochs: relay payments reporting a sticky victim as unresponsive with CU sized just below / just above / far above 4 x its serviced CU in the window of the next check, small servicing relays, manual freezes, unfreezes after the jail end, (un)stakes; snapshot of stake entries + ProviderEpochComplainerCu + ProviderEpochCu before every block that starts an epoch, diff after it; every jailing (event or Jails/JailEndTime change) is judged against the monitor's own window sums, stake history, punished-complaint ledger, 24 h jail history and the per-chain non-frozen count; a case is non-trivial when it is a judged jailing or a complained-about provider that was not jailed for a named reason (just below threshold, min-provider guard, short history), distinct by (kind, earlier jails, threshold relation, complaint epochs, distance to the min-provider bound)",
		25,
		"a provider jailed in the block counts as removed from the chain's non-frozen providers (soft jails move StakeAppliedBlock into the future instead of freezing)",
		"an entry that already carries jails is treated as having a long enough stake history",
		"records of epochs that leave the chain's memory in the same block are not part of the window")
}
