//go:build verif

package chainmon

import (
	"fmt"
	"math"
	"testing"

	sdk "github.com/cosmos/cosmos-sdk/types"
	authtypes "github.com/cosmos/cosmos-sdk/x/auth/types"
	rewardstypes "github.com/lavanet/lava/v5/x/rewards/types"

	"verif/internal/ev"
)

// PoolMon: C21. Needs a FlowRec placed before it in the monitor list.
type PoolMon struct {
	BaseMon
	Run  *ev.Run
	Hist string
	FR   *FlowRec

	preMonthsLeft int64
	preTimeToNext int64
	preBurnRate   sdk.Dec
	prePd         sdk.Int

	Refills, BlockRewards, PartLeftover, PartDist, Bonus, LeftoverMoves int
}

func (m *PoolMon) wit(s *Sim, step int) map[string]any {
	return map[string]any{"history": m.Hist, "seed": s.Seed, "profile": s.prof.Name, "step": step, "log_tail": s.LogTail(25)}
}

func (m *PoolMon) BeforeBlock(s *Sim) {
	k := s.TS.Keepers.Rewards
	m.preMonthsLeft = k.AllocationPoolMonthsLeft(s.TS.Ctx)
	m.preTimeToNext = k.TimeToNextTimerExpiry(s.TS.Ctx)
	m.preBurnRate = k.GetParams(s.TS.Ctx).LeftoverBurnRate
	m.prePd = k.TotalPoolTokens(s.TS.Ctx, rewardstypes.ProviderRewardsDistributionPool).AmountOf(s.Denom)
}

const daySeconds = 24 * 60 * 60

func (m *PoolMon) AfterBlock(s *Sim, b *BlockRes) {
	if b.Panic != "" {
		return
	}
	vd, va := modAddr(string(rewardstypes.ValidatorsRewardsDistributionPoolName)), modAddr(string(rewardstypes.ValidatorsRewardsAllocationPoolName))
	pd, pa := modAddr(string(rewardstypes.ProviderRewardsDistributionPool)), modAddr(string(rewardstypes.ProvidersRewardsAllocationPool))
	lo := modAddr(string(rewardstypes.ValidatorsRewardsLeftOverPoolName))
	fee := modAddr(authtypes.FeeCollectorName)
	flows := m.FR.Flows
	refill := len(findEvents(b.EndEvents, rewardstypes.DistributionPoolRefillEventName)) > 0
	// (a) block rewards within the distribution pool
	for _, f := range flows {
		if f.Kind == "transfer" && f.From == vd && f.To == fee {
			m.BlockRewards++
			if !f.FromBefore.IsAllGTE(f.Amount) {
				m.Run.Violation("block-reward-exceeds-pool", "validators block reward > validators distribution pool", fmt.Sprintf("block %d reward %s pool %s", b.Height, f.Amount, f.FromBefore), m.wit(s, b.Step))
			}
		}
	}
	if refill {
		m.Refills++
		// locate the refill's own flows: burn on vd, va->vd, burn on pd, pa->pd (in that order)
		iBurnV, iFillV, iBurnP, iFillP := -1, -1, -1, -1
		var bonusOut sdk.Int = sdk.ZeroInt()
		for i, f := range flows {
			switch {
			case f.Kind == "transfer" && f.From == va && f.To == vd:
				iFillV = i
			case f.Kind == "transfer" && f.From == pa && f.To == pd:
				iFillP = i
			case f.Kind == "burn" && f.From == vd:
				iBurnV = i
			case f.Kind == "burn" && f.From == pd:
				iBurnP = i
			case f.Kind == "transfer" && f.From == pd && iBurnP < 0:
				bonusOut = bonusOut.Add(f.Amount.AmountOf(s.Denom))
			}
		}
		if !bonusOut.IsZero() {
			m.Bonus++
		}
		if bonusOut.GT(m.prePd) {
			m.Run.Violation("bonus-rewards-exceed-pool", "provider bonus rewards of the month > providers distribution pool", fmt.Sprintf("block %d paid %s pool at month end %s", b.Height, bonusOut, m.prePd), m.wit(s, b.Step))
		}
		ml := m.preMonthsLeft
		if ml == math.MaxInt64 || ml <= 0 {
			ml = int64(rewardstypes.RewardsAllocationPoolsLifetime)
		}
		check := func(name string, iBurn, iFill int, rate sdk.Dec) {
			var balAtBurn sdk.Int
			if iBurn >= 0 {
				f := flows[iBurn]
				balAtBurn = f.FromBefore.AmountOf(s.Denom)
				want := rate.MulInt(balAtBurn).TruncateInt()
				if !f.Amount.AmountOf(s.Denom).Equal(want) {
					m.Run.Violation("refill-burn-wrong", name, fmt.Sprintf("block %d %s burned %s, expected floor(%s x %s)=%s", b.Height, name, f.Amount, rate, balAtBurn, want), m.wit(s, b.Step))
				}
			}
			if iFill >= 0 {
				f := flows[iFill]
				allocBal := f.FromBefore.AmountOf(s.Denom)
				want := allocBal.QuoRaw(ml)
				if !f.Amount.AmountOf(s.Denom).Equal(want) {
					m.Run.Violation("refill-quota-wrong", name, fmt.Sprintf("block %d %s moved %s, expected floor(%s/%d)=%s", b.Height, name, f.Amount, allocBal, ml, want), m.wit(s, b.Step))
				}
				if iBurn > iFill {
					m.Run.Violation("refill-before-burn", name, fmt.Sprintf("block %d %s: quota moved in before the leftover was burned", b.Height, name), m.wit(s, b.Step))
				}
				if iBurn < 0 && !rate.IsZero() && !f.ToBefore.AmountOf(s.Denom).IsZero() && !rate.MulInt(f.ToBefore.AmountOf(s.Denom)).TruncateInt().IsZero() {
					m.Run.Violation("refill-without-burn", name, fmt.Sprintf("block %d %s: nothing burned although the pool held %s (rate %s)", b.Height, name, f.ToBefore, rate), m.wit(s, b.Step))
				}
			}
		}
		// what accumulated in the leftover pool during the last 24 h is for the NEW month: it may only join the
		// distribution pool after the old month's remainder was burned
		for i, f := range flows {
			if f.Kind == "transfer" && f.From == lo && f.To == vd {
				m.LeftoverMoves++
				if iFillV >= 0 && i < iFillV || iBurnV >= 0 && i < iBurnV {
					m.Run.Violation("leftover-moved-before-burn", "validators", fmt.Sprintf("block %d: %s moved from the leftover pool into the distribution pool before the burn / quota", b.Height, f.Amount), m.wit(s, b.Step))
				}
			}
		}
		check("validators", iBurnV, iFillV, m.preBurnRate)
		check("providers", iBurnP, iFillP, sdk.OneDec())
		m.Run.Nontrivial(fmt.Sprintf("%s:refill:%d", m.Hist, b.Height))
	}
	// (d) destination of the validators participation
	judge := func(evs []sdk.Event, phase string, timeToNext func(idx int) (int64, bool)) {
		for i, e := range evs {
			if evName(e) != rewardstypes.ValidatorsAndCommunityFund {
				continue
			}
			pool, _ := evAttr(e, "validator_pool")
			vals, _ := evAttr(e, "validators")
			if c, err := sdk.ParseCoinsNormalized(vals); err == nil && c.IsZero() {
				continue // nothing was sent to any validators pool
			}
			ttn, ok := timeToNext(i)
			if !ok {
				continue
			}
			wantLeftover := ttn <= daySeconds
			if wantLeftover {
				m.PartLeftover++
			} else {
				m.PartDist++
			}
			gotLeftover := pool == string(rewardstypes.ValidatorsRewardsLeftOverPoolName)
			if gotLeftover != wantLeftover {
				cls := "sent-to-leftover-pool-more-than-24h-before-refill"
				if wantLeftover {
					cls = "sent-to-distribution-pool-within-24h-of-refill"
				}
				m.Run.Violation("validators-participation-wrong-pool", cls, fmt.Sprintf("block %d %s: participation %s went to %s with %d s to the next refill", b.Height, phase, vals, pool, ttn), m.wit(s, b.Step))
			}
			m.Run.Nontrivial(fmt.Sprintf("%s:part:%d:%d", m.Hist, b.Height, i))
		}
	}
	refillIdx := -1
	for i, e := range b.EndEvents {
		if evName(e) == rewardstypes.DistributionPoolRefillEventName {
			refillIdx = i
		}
	}
	judge(b.EndEvents, "EndBlock", func(i int) (int64, bool) {
		if refillIdx < 0 {
			return m.preTimeToNext, m.preTimeToNext != math.MaxInt64
		}
		if i < refillIdx {
			return 0, true // timer due / popped: end of month
		}
		return 28 * daySeconds, true // the next refill is a month away
	})
	post := s.TS.Keepers.Rewards.TimeToNextTimerExpiry(s.TS.Ctx)
	judge(b.BeginEvents, "BeginBlock", func(i int) (int64, bool) { return post, post != math.MaxInt64 })
	_ = lo
}

func profPools() *Profile {
	w := map[string]int{
		"block": 20, "epoch": 10, "longblock": 10, "month": 8,
		"buy": 8, "relay": 30, "fund_iprpc": 3, "iprpc_data": 2, "ds_delegate": 3, "ds_claim": 2, "stake": 2, "param_burn": 2,
	}
	return &Profile{Name: "pools", W: w, Providers: 6, Consumers: 4, Delegators: 2, Validators: 2, KeepPools: true, EpochsToSave: 2, EpochBlocks: 5}
}

func TestC21(t *testing.T) {
	run := ev.Start("C21")
	nHist, nOps := run.Pick(10, 120), run.Pick(700, 2000)
	for h := 0; h < nHist; h++ {
		var pm *PoolMon
		s := History(t, run, profPools(), h, nOps, func(id string) []Monitor {
			fr := &FlowRec{}
			pm = &PoolMon{Run: run, Hist: id, FR: fr}
			return []Monitor{fr, pm, &EventCounter{Run: run}}
		})
		run.Count("refills", pm.Refills)
		run.Count("block_reward_transfers", pm.BlockRewards)
		run.Count("participation_expected_leftover(<=24h)", pm.PartLeftover)
		run.Count("participation_expected_distribution(>24h)", pm.PartDist)
		run.Count("refill_blocks_with_bonus_payouts", pm.Bonus)
		run.Count("leftover_pool_moves_at_refill", pm.LeftoverMoves)
		if h == 0 {
			run.Sample(map[string]any{"history": 0, "tail": s.LogTail(10)})
		}
	}
	run.Require("refills observed", run.Counter("refills") >= 5)
	run.Require("block rewards observed", run.Counter("block_reward_transfers") > 100)
	run.Require("participation within 24h of the refill", run.Counter("participation_expected_leftover(<=24h)") > 0)
	run.Require("participation more than 24h before the refill", run.Counter("participation_expected_distribution(>24h)") > 0)
	run.Require("bonus payouts at a refill", run.Counter("refill_blocks_with_bonus_payouts") > 0)
	run.Require("leftover pool non-empty at a refill", run.Counter("leftover_pool_moves_at_refill") > 0)
	run.Finish("histories with subscriptions, relays, IPRPC and months of block time; the mock bank's ordered operation log (hook) is turned into flows per block: every block reward <= validators distribution pool at that moment; at each refill the burn on each distribution pool equals floor(rate x balance at that moment) (rate 1 for providers) and precedes the quota floor(allocation / months left); bonus payouts of the month <= providers distribution pool at month end; each validators_and_community_fund event must name the leftover pool iff the next refill is <= 24 h away (distribution pool otherwise); distinct non-trivial = refills and participation events judged", 30,
		"flows are reconstructed from the mock bank log: a sub directly followed by an equal add is a transfer, a lone sub a burn")
}
