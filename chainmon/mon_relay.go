//go:build verif

package chainmon

import (
	"encoding/hex"
	"fmt"
	"strconv"
	"strings"

	sdk "github.com/cosmos/cosmos-sdk/types"
	"github.com/lavanet/lava/v5/utils/sigs"
	pairingtypes "github.com/lavanet/lava/v5/x/pairing/types"
	planstypes "github.com/lavanet/lava/v5/x/plans/types"
	projectstypes "github.com/lavanet/lava/v5/x/projects/types"

	"verif/internal/ev"
)

// RelayMon is the relay-payment ledger shared by C03, C04, C17 and C18. It reads the relay_payment
// events of accepted txs and the state deltas around them. Prop selects which rules report.
type RelayMon struct {
	BaseMon
	Run  *ev.Run
	Hist string
	Prop string

	// C03 ledger: key -> step of the first credit
	credited map[string]int
	// C04: running sum per (epochStart, provider, project, chain)
	epochSum map[string]uint64
	// C18: per (badge sig, provider): total credited, allocation, expiry block fixed at first use
	badgeUsed   map[string]uint64
	badgeExpiry map[string]uint64

	pre *relayPre

	Accepted, DupRejected, DupRejectedWhileCredited, StaleRejected     int
	OverLimit, QosLowered, BadgeCredits, BadgeNearAlloc, BadgeRejected int
	MultiVersion                                                       int
}

type relayPre struct {
	height   int64
	relays   []*relayInfo
	projUsed map[string]uint64 // "project|versionBlock" -> UsedCu
	projSnap map[string]uint64 // "project|versionBlock" -> Snapshot
	subLeft  map[string]uint64 // "consumer|subBlock" -> MonthCuLeft
	tracked  map[string]uint64 // "consumer|provider|chain|subBlock" -> tracked CU
}

type relayInfo struct {
	rs          *pairingtypes.RelaySession
	signer      string // developer key the relay resolves to (badge signer for badge relays)
	relaySig    string // address that signed the relay itself
	project     string
	snapshot    uint64
	sub         string
	subBlock    uint64
	epochStart  uint64
	resolved    bool
	ledgerKey   string
	wasCredited bool
}

func NewRelayMon(run *ev.Run, hist, prop string) *RelayMon {
	return &RelayMon{Run: run, Hist: hist, Prop: prop, credited: map[string]int{}, epochSum: map[string]uint64{}, badgeUsed: map[string]uint64{}, badgeExpiry: map[string]uint64{}}
}

func (m *RelayMon) v(prop, rule, sig, desc string, s *Sim, step int) {
	if prop != m.Prop {
		return
	}
	m.Run.Violation(rule, sig, desc, map[string]any{"history": m.Hist, "seed": s.Seed, "profile": s.prof.Name, "step": step, "log_tail": s.LogTail(40)})
}

func (m *RelayMon) BeforeTx(s *Sim, name string, msg sdk.Msg) {
	m.pre = nil
	rp, ok := msg.(*pairingtypes.MsgRelayPayment)
	if !ok {
		return
	}
	ctx := s.TS.Ctx
	ks := s.TS.Keepers
	pre := &relayPre{height: ctx.BlockHeight(), projUsed: map[string]uint64{}, projSnap: map[string]uint64{}, subLeft: map[string]uint64{}, tracked: map[string]uint64{}}
	for _, r := range rp.Relays {
		ri := &relayInfo{rs: r}
		pre.relays = append(pre.relays, ri)
		if r == nil || r.Epoch < 0 {
			continue
		}
		a, err := sigs.ExtractSignerAddress(r)
		if err != nil {
			continue
		}
		ri.relaySig = a.String()
		ri.signer = a.String()
		if r.Badge != nil {
			if b, err := sigs.ExtractSignerAddress(*r.Badge); err == nil {
				ri.signer = b.String()
			}
		}
		es, _, err := ks.Epochstorage.GetEpochStartForBlock(ctx, uint64(r.Epoch))
		if err != nil {
			continue
		}
		ri.epochStart = es
		proj, err := ks.Projects.GetProjectForDeveloper(ctx, ri.signer, uint64(r.Epoch))
		if err != nil {
			continue
		}
		ri.project, ri.snapshot, ri.sub = proj.Index, proj.Snapshot, proj.Subscription
		ri.resolved = true
		canon := r.Provider
		if pa, err := sdk.AccAddressFromBech32(r.Provider); err == nil {
			canon = pa.String() // the provider is an address, not a spelling
		}
		ri.ledgerKey = fmt.Sprintf("%d|%s|%s|%s|%d", es, canon, proj.Index, r.SpecId, r.SessionId)
		_, ri.wasCredited = m.credited[ri.ledgerKey]
		// project versions (all of them: the monitor decides which belong to the snapshot)
		for _, vb := range m.projectVersions(s, proj.Index) {
			p, err := ks.Projects.GetProjectForBlock(ctx, proj.Index, vb)
			if err == nil {
				pre.projUsed[fmt.Sprintf("%s|%d", proj.Index, vb)] = p.UsedCu
				pre.projSnap[fmt.Sprintf("%s|%d", proj.Index, vb)] = p.Snapshot
			}
		}
		if sub, _, found := ks.Subscription.GetSubscriptionForBlock(ctx, proj.Subscription, uint64(r.Epoch)); found {
			ri.subBlock = sub.Block
			pre.subLeft[fmt.Sprintf("%s|%d", sub.Consumer, sub.Block)] = sub.MonthCuLeft
			cu, _, _ := ks.Subscription.GetTrackedCu(ctx, sub.Consumer, r.Provider, r.SpecId, sub.Block)
			pre.tracked[fmt.Sprintf("%s|%s|%s|%d", sub.Consumer, r.Provider, r.SpecId, sub.Block)] = cu
		}
	}
	m.pre = pre
}

// projectVersions lists the version blocks of a project entry in the projects fixation store.
func (m *RelayMon) projectVersions(s *Sim, project string) []uint64 {
	res, err := s.TS.QueryFixationVersions(projectstypes.StoreKey, projectstypes.ProjectsFixationPrefix, project)
	if err != nil {
		return nil
	}
	var out []uint64
	for _, e := range res.Entries {
		out = append(out, e.Block)
	}
	return out
}

type acceptedRelay struct {
	idx        int
	cu         uint64
	rewarded   uint64
	provider   string
	project    string
	chain      string
	session    uint64
	epoch      uint64
	badge      string
	totalEpoch uint64
}

func parseRelayEvents(evs []sdk.Event) []acceptedRelay {
	var out []acceptedRelay
	for _, e := range findEvents(evs, pairingtypes.RelayPaymentEventName) {
		byIdx := map[int]map[string]string{}
		for _, a := range e.Attributes {
			i := strings.LastIndex(a.Key, ".")
			if i < 0 {
				continue
			}
			idx, err := strconv.Atoi(a.Key[i+1:])
			if err != nil {
				continue
			}
			if byIdx[idx] == nil {
				byIdx[idx] = map[string]string{}
			}
			byIdx[idx][a.Key[:i]] = a.Value
		}
		for idx, kv := range byIdx {
			ar := acceptedRelay{idx: idx, provider: kv["provider"], project: kv["projectID"], chain: kv["chainID"], badge: kv["badge"]}
			ar.cu, _ = strconv.ParseUint(kv["CU"], 10, 64)
			ar.rewarded, _ = strconv.ParseUint(kv["rewardedCU"], 10, 64)
			ar.session, _ = strconv.ParseUint(kv["uniqueIdentifier"], 10, 64)
			ar.epoch, _ = strconv.ParseUint(kv["epoch"], 10, 64)
			ar.totalEpoch, _ = strconv.ParseUint(kv["totalCUInEpoch"], 10, 64)
			out = append(out, ar)
		}
	}
	return out
}

func (m *RelayMon) AfterTx(s *Sim, r *TxRes) {
	pre := m.pre
	m.pre = nil
	rp, ok := r.Msg.(*pairingtypes.MsgRelayPayment)
	if !ok || pre == nil {
		return
	}
	ctx := s.TS.Ctx
	ks := s.TS.Keepers
	if !r.OK() {
		// classify rejections for the evidence (non-triviality counters)
		for _, ri := range pre.relays {
			if ri.resolved && ri.wasCredited {
				m.DupRejected++
				// "still in memory": its epoch is not below the earliest epoch
				if ri.epochStart >= ks.Epochstorage.GetEarliestEpochStart(ctx) {
					m.DupRejectedWhileCredited++
					m.Run.Nontrivial(fmt.Sprintf("%s:dup:%s:%s", m.Hist, r.Name, ri.ledgerKey))
				}
			}
			if ri.resolved && ri.epochStart < ks.Epochstorage.GetEarliestEpochStart(ctx) {
				m.StaleRejected++
			}
			if ri.rs != nil && ri.rs.Badge != nil {
				m.BadgeRejected++
			}
		}
		return
	}
	accepted := parseRelayEvents(r.Events)
	if len(accepted) != len(rp.Relays) {
		// an accepted tx credits every relay it carries (the handler fails the tx otherwise)
		m.v("C03", "accepted-tx-event-count", "relay_payment events != relays in accepted tx", fmt.Sprintf("tx %s %s: %d relays, %d relay_payment event groups", r.Name, r.Desc, len(rp.Relays), len(accepted)), s, r.Step)
	}
	earliest := ks.Epochstorage.GetEarliestEpochStart(ctx)
	sumByProject := map[string]uint64{} // project -> Σ CuSum accepted in this tx
	sumBySub := map[string][]uint64{}   // "consumer|subBlock" -> CuSums in order
	sumTracked := map[string]uint64{}   // tracked key -> Σ rewarded (upper bound of tracked delta)
	for _, ar := range accepted {
		if ar.idx >= len(pre.relays) {
			continue
		}
		ri := pre.relays[ar.idx]
		rs := ri.rs
		m.Accepted++
		if !ri.resolved {
			m.v("C05", "credited-unresolvable-relay", "relay credited although signer has no project at that epoch", fmt.Sprintf("tx %s %s idx %d", r.Name, r.Desc, ar.idx), s, r.Step)
			continue
		}
		// ---- C03
		if first, dup := m.credited[ri.ledgerKey]; dup {
			m.v("C03", "session-credited-twice", "same (epoch,provider,project,chain,session) credited again", fmt.Sprintf("key %s first credited at step %d, again by tx %s %s (cu=%d)", ri.ledgerKey, first, r.Name, r.Desc, ar.cu), s, r.Step)
		} else {
			m.credited[ri.ledgerKey] = r.Step
		}
		if ri.epochStart < earliest {
			m.v("C03", "credit-after-epoch-left-memory", "relay credited for an epoch below EarliestEpochStart", fmt.Sprintf("epoch start %d < earliest %d: tx %s %s", ri.epochStart, earliest, r.Name, r.Desc), s, r.Step)
		}
		// ---- C04
		if ar.rewarded > rs.CuSum {
			m.v("C04", "credited-more-than-signed", "rewardedCU > signed CuSum", fmt.Sprintf("tx %s %s: session %d signed CuSum=%d rewardedCU=%d", r.Name, r.Desc, rs.SessionId, rs.CuSum, ar.rewarded), s, r.Step)
		}
		if ar.rewarded < rs.CuSum {
			m.OverLimit++
		}
		ek := fmt.Sprintf("%d|%s|%s|%s", ri.epochStart, rs.Provider, ri.project, rs.SpecId)
		m.epochSum[ek] += ar.rewarded
		if proj, err := ks.Projects.GetProjectForBlock(ctx, ri.project, ri.epochStart); err == nil {
			// the per-epoch allowance is the smallest EpochCuLimit of the policies in force for that epoch (plan,
			// subscription policy, admin policy); the code's own dynamic figure (also capped by CU left) is never larger
			allowed := uint64(0)
			upd := func(p *planstypes.Policy) {
				if p != nil && p.EpochCuLimit != 0 && (allowed == 0 || p.EpochCuLimit < allowed) {
					allowed = p.EpochCuLimit
				}
			}
			if plan, err := ks.Subscription.GetPlanFromSubscription(ctx, proj.Subscription, ri.epochStart); err == nil {
				pp := plan.PlanPolicy
				upd(&pp)
			}
			upd(proj.AdminPolicy)
			upd(proj.SubscriptionPolicy)
			if allowed != 0 {
				factor := ks.Downtime.GetDowntimeFactor(ctx, ri.epochStart)
				limit := allowed * factor
				if factor != 0 && limit/factor != allowed {
					limit = ^uint64(0)
				}
				if m.epochSum[ek] > limit {
					m.v("C04", "epoch-allowance-exceeded", "sum credited for (epoch,provider,project,chain) > allowance*downtime factor", fmt.Sprintf("key %s credited sum=%d allowance=%d factor=%d after tx %s %s", ek, m.epochSum[ek], allowed, factor, r.Name, r.Desc), s, r.Step)
				}
				if m.epochSum[ek]*10 >= limit*8 {
					m.Run.Count("credits_with_epoch_sum_at_or_above_80pct_of_allowance", 1)
				}
			}
		}
		sumByProject[ri.project] += rs.CuSum
		sk := fmt.Sprintf("%s|%d", ri.sub, ri.subBlock)
		sumBySub[sk] = append(sumBySub[sk], rs.CuSum)
		tk := fmt.Sprintf("%s|%s|%s|%d", ri.sub, rs.Provider, rs.SpecId, ri.subBlock)
		sumTracked[tk] += ar.rewarded
		if rs.QosReport != nil {
			m.QosLowered++
		}
		// ---- C18
		if rs.Badge != nil {
			m.BadgeCredits++
			b := rs.Badge
			canonProv := rs.Provider
			if pa, err := sdk.AccAddressFromBech32(rs.Provider); err == nil {
				canonProv = pa.String() // the allocation is per provider (an address), however the relay spells it
			}
			bk := hex.EncodeToString(b.ProjectSig) + "|" + canonProv
			if b.Address != ri.relaySig || b.Epoch != uint64(rs.Epoch) || b.LavaChainId != ctx.BlockHeader().ChainID {
				m.v("C18", "badge-honoured-for-other-traits", "badge honoured although address/epoch/lava chain differ", fmt.Sprintf("badge{addr=%s epoch=%d chain=%s} relay{signer=%s epoch=%d} chain=%s tx %s", b.Address, b.Epoch, b.LavaChainId, ri.relaySig, rs.Epoch, ctx.BlockHeader().ChainID, r.Desc), s, r.Step)
			}
			if exp, ok := m.badgeExpiry[bk]; ok {
				if uint64(ctx.BlockHeight()) >= exp {
					m.v("C18", "badge-honoured-after-expiry", "badge credited after its usage record expired", fmt.Sprintf("badge %s expiry block %d now %d tx %s", bk[:16], exp, ctx.BlockHeight(), r.Desc), s, r.Step)
				}
			} else {
				m.badgeExpiry[bk] = ks.Pairing.BadgeUsedCuExpiry(ctx, *b)
			}
			m.badgeUsed[bk] += rs.CuSum
			if m.badgeUsed[bk] > b.CuAllocation {
				m.v("C18", "badge-allocation-exceeded", "sum credited through badge to provider > CuAllocation", fmt.Sprintf("badge %s provider %s used=%d allocation=%d tx %s", bk[:16], rs.Provider, m.badgeUsed[bk], b.CuAllocation, r.Desc), s, r.Step)
			}
			if m.badgeUsed[bk]*10 >= b.CuAllocation*7 {
				m.BadgeNearAlloc++
			}
			m.Run.Nontrivial(fmt.Sprintf("%s:badge:%s:%d", m.Hist, bk[:12], m.badgeUsed[bk]))
		}
	}
	// ---- state deltas (C17: charged exactly once, in every version of the snapshot; C04: tracked <= rewarded)
	for _, p := range sortedKeys(sumByProject) {
		var snap uint64
		found := false
		for _, ri := range pre.relays {
			if ri.resolved && ri.project == p {
				snap, found = ri.snapshot, true
				break
			}
		}
		if !found {
			continue
		}
		nver := 0
		for _, vb := range m.projectVersions(s, p) {
			key := fmt.Sprintf("%s|%d", p, vb)
			before, had := pre.projUsed[key]
			if !had {
				continue
			}
			proj, err := ks.Projects.GetProjectForBlock(ctx, p, vb)
			if err != nil {
				continue
			}
			delta := proj.UsedCu - before
			if pre.projSnap[key] == snap {
				nver++
				// versions older than the relay epoch's own version are legitimately untouched only if they precede the range
				if delta != sumByProject[p] && delta != 0 {
					m.v("C17", "project-charged-wrong-amount", "project UsedCu delta != sum of accepted CuSum", fmt.Sprintf("project %s version %d: delta=%d want %d (tx %s %s)", p, vb, delta, sumByProject[p], r.Name, r.Desc), s, r.Step)
				}
			} else if delta != 0 {
				m.v("C17", "other-snapshot-charged", "a project version of another monthly snapshot was charged", fmt.Sprintf("project %s version %d snapshot %d (relay snapshot %d): delta=%d (tx %s %s)", p, vb, pre.projSnap[key], snap, delta, r.Name, r.Desc), s, r.Step)
			}
		}
		// the version the relay resolved to must carry the charge
		for _, ri := range pre.relays {
			if ri.resolved && ri.project == p {
				pj, err := ks.Projects.GetProjectForBlock(ctx, p, uint64(ri.rs.Epoch))
				if err == nil {
					// find its version block
					for _, vb := range m.projectVersions(s, p) {
						if pv, err := ks.Projects.GetProjectForBlock(ctx, p, vb); err == nil && pv.Snapshot == pj.Snapshot {
							key := fmt.Sprintf("%s|%d", p, vb)
							if before, had := pre.projUsed[key]; had && vb >= ri.epochStart && pv.UsedCu-before != sumByProject[p] {
								sig := "a version of the same monthly snapshot at/after the relay epoch was not charged"
								if vb > ri.epochStart+ks.Epochstorage.BlocksToSaveRaw(ctx) {
									sig = "version lies beyond relay epoch + BlocksToSaveRaw (range used by ChargeComputeUnitsToProject)"
								}
								m.v("C17", "snapshot-version-not-charged", sig, fmt.Sprintf("project %s version %d (relay epoch %d): delta=%d want %d (tx %s %s)", p, vb, ri.epochStart, pv.UsedCu-before, sumByProject[p], r.Name, r.Desc), s, r.Step)
							}
						}
					}
				}
				break
			}
		}
		if nver > 1 {
			m.MultiVersion++
		}
	}
	for _, sk := range sortedKeys(sumBySub) {
		parts := strings.Split(sk, "|")
		blk, _ := strconv.ParseUint(parts[1], 10, 64)
		before, had := pre.subLeft[sk]
		if !had {
			continue
		}
		want := before
		for _, cu := range sumBySub[sk] {
			if want < cu {
				want = 0
			} else {
				want -= cu
			}
		}
		sub, _, found := ks.Subscription.GetSubscriptionForBlock(ctx, parts[0], blk)
		if found && sub.Block == blk && sub.MonthCuLeft != want {
			m.v("C17", "subscription-charged-wrong-amount", "subscription MonthCuLeft delta != saturating sum of accepted CuSum", fmt.Sprintf("sub %s block %d: before=%d after=%d want=%d (tx %s %s)", parts[0], blk, before, sub.MonthCuLeft, want, r.Name, r.Desc), s, r.Step)
		}
		if found && sub.MonthCuLeft > sub.MonthCuTotal {
			m.v("C12", "month-cu-left-above-total", "MonthCuLeft > MonthCuTotal", fmt.Sprintf("sub %s: left=%d total=%d", parts[0], sub.MonthCuLeft, sub.MonthCuTotal), s, r.Step)
		}
	}
	for _, tk := range sortedKeys(sumTracked) {
		parts := strings.Split(tk, "|")
		blk, _ := strconv.ParseUint(parts[3], 10, 64)
		before := pre.tracked[tk]
		after, _, _ := ks.Subscription.GetTrackedCu(ctx, parts[0], parts[1], parts[2], blk)
		if after-before > sumTracked[tk] {
			m.v("C04", "tracked-cu-above-rewarded", "tracked CU delta > rewardedCU (QoS adjustment raised the credit)", fmt.Sprintf("%s: tracked %d -> %d, rewarded sum %d (tx %s %s)", tk, before, after, sumTracked[tk], r.Name, r.Desc), s, r.Step)
		}
	}
	if m.Prop == "C03" || m.Prop == "C04" || m.Prop == "C17" {
		for _, ar := range accepted {
			if ar.idx < len(pre.relays) && pre.relays[ar.idx].resolved {
				m.Run.Nontrivial(fmt.Sprintf("%s:acc:%s", m.Hist, pre.relays[ar.idx].ledgerKey))
			}
		}
	}
}

// Report pushes the monitor counters into the run.
func (m *RelayMon) Report() {
	m.Run.Count("relays_accepted", m.Accepted)
	m.Run.Count("duplicates_rejected", m.DupRejected)
	m.Run.Count("duplicates_rejected_while_first_copy_credited_and_in_memory", m.DupRejectedWhileCredited)
	m.Run.Count("stale_epoch_rejected", m.StaleRejected)
	m.Run.Count("credits_cut_below_signed_cu", m.OverLimit)
	m.Run.Count("credits_with_qos_report", m.QosLowered)
	m.Run.Count("badge_credits", m.BadgeCredits)
	m.Run.Count("badge_credits_at_or_above_70pct_of_allocation", m.BadgeNearAlloc)
	m.Run.Count("badge_relays_rejected", m.BadgeRejected)
	m.Run.Count("charges_seen_in_several_project_versions", m.MultiVersion)
}
