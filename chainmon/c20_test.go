//go:build verif

package chainmon

import (
	"fmt"
	"os"
	"strconv"
	"strings"
	"testing"

	"verif/internal/ev"
)

func profConflict() *Profile {
	w := map[string]int{
		"block": 12, "epoch": 1,
		"conflict_detect": 3, "conflict_commit": 30, "conflict_reveal": 30,
		"c20_restake": 4, "c20_delegate": 2, "c20_param": 2,
		"freeze": 1, "unfreeze": 2, "unstake": 1,
	}
	return &Profile{Name: "conflict", W: w, Providers: 7, Consumers: 3, Delegators: 2, Validators: 2, KeepPools: true, EpochBlocks: 4, EpochsToSave: 12}
}

// c20History: like History, with the conflict-specific world set-up between BuildWorld and Run.
func c20History(t *testing.T, run *ev.Run, hist, nOps int) (*Sim, *ConflictMon) {
	prof := profConflict()
	seed := run.Seed*100003 + int64(hist)
	id := fmt.Sprintf("%s/seed=%d/hist=%d", prof.Name, run.Seed, hist)
	cm := NewConflictMon(run, id)
	s := NewSim(t, seed, prof, cm, &EventCounter{Run: run})
	s.BuildWorld()
	// short votes; voter stakes from a small set so that subsets holding exactly half exist
	s.c20SetVotePeriod(uint64(1 + hist%2))
	for _, pr := range s.Provs {
		s.c20Raise(pr, "SPB", int64(s.R.Intn(3)))
	}
	s.NextEpoch()
	s.Run(nOps)
	run.Count("histories", 1)
	run.Count("ops", s.Step)
	run.Count("blocks", s.Stats["blocks"])
	run.Count("epochs", s.Stats["epochs"])
	for _, k := range sortedKeys(s.Stats) {
		if len(k) > 3 && (k[:3] == "ok:" || k[:3] == "tx:") {
			run.Count(k, s.Stats[k])
		}
	}
	if s.Halted {
		run.Count("histories_halted_by_block_panic", 1)
	}
	return s, cm
}

func TestC20(t *testing.T) {
	run := ev.Start("C20")
	nHist, nOps := run.Pick(16, 150), run.Pick(1200, 2500)
	for h := 0; h < nHist; h++ {
		s, _ := c20History(t, run, h, nOps)
		if h == 0 {
			var l []string
			for _, x := range s.Log {
				if len(l) < 30 && contains(x, "conflict_") {
					l = append(l, x)
				}
			}
			run.Sample(map[string]any{"history": 0, "first_conflict_ops": l})
		}
	}
	c := func(k string) bool { return run.Counter(k) > 0 }
	run.Require("votes opened", c("votes_opened"))
	run.Require("valid commits accepted", c("commit_accepted:valid"))
	run.Require("valid reveals accepted (counted)", c("reveal_accepted:valid"))
	for _, k := range []string{"duplicate", "in-reveal-phase", "after-close", "not-listed", "unknown-vote"} {
		run.Require("commit class sent: "+k, c("commit:"+k))
	}
	for _, k := range []string{"duplicate", "in-commit-phase", "after-close", "not-listed", "unknown-vote", "no-commit", "mismatch:wrong-nonce", "mismatch:wrong-hash", "mismatch:other-voters-reveal"} {
		run.Require("reveal class sent: "+k, c("reveal:"+k))
	}
	run.Require("moves commit->reveal observed", c("transition:commit->reveal"))
	run.Require("moves reveal->closed observed", c("transition:reveal->closed"))
	run.Require("moves at an epoch start later than the deadline block (deadline off the epoch grid)", c("transition_later_than_deadline_block"))
	run.Require("outcome resolved", c("outcome_resolved"))
	run.Require("outcome unresolved", c("outcome_unresolved"))
	run.Require("votes closed with an option at exactly half of the counted stake", c("votes_closed_with_an_option_at_exactly_half"))
	run.Require("votes closed with committed-but-unrevealed voters", c("votes_closed_with_committed_but_unrevealed_voters"))
	run.Require("votes resolved although some committed voters never revealed", c("votes_resolved_with_committed_but_unrevealed_voters"))
	run.Finish("generated histories of response-conflict detections (now / older block / repeated), commit and reveal messages (planned, second commit, outsider, bad id, early, late, wrong nonce, wrong hash, another voter's reveal, reveal without commit) interleaved with blocks, epochs, VotePeriod / EpochBlocks changes, restakes, delegations, freezes; voter stakes from a small set with plans aiming at exactly half / narrowly above / below half of the listed stake; a reference model of each vote (phase, deadline, per-voter commit hash and counted result) is stepped by the same messages and compared with the ConflictVote record after every tx and block: phase moves only at epoch-start blocks at or after the deadline and only commit->reveal->closed, accepted commits only from listed voters once in the commit phase, reveals counted only in the reveal phase when CommitVoteData(nonce, hash, voter) equals that voter's commit, resolved <=> one option holds more than half of the counted stake (and the winner is that option), per-option tallies == stake of counted reveals, committed-but-unrevealed voters == never-committed voters; evaluations = judged messages + phase moves; distinct non-trivial = distinct (outcome, majority relation, voter-shape) tuples of closed votes with at least one counted reveal",
		40,
		"the voter list, the deadlines written at detection / at the move to reveal and the per-voter stake (epochstorage snapshot of the vote's epoch as read when the vote closes) are inputs taken from the chain",
		"'counted stake' is read as the stake of all listed voters that still have a snapshot entry (the code counts non-voters in the total); the statement does not define it otherwise",
		"a valid commit / reveal that is rejected, a vote that is eligible but not moved, and a vote removed without an outcome event are counted, not judged (the statement only restricts what may be accepted / counted)")
}

// TestC20Replay re-runs one history and prints its op log: VERIF_HIST=<seed>:<hist>:<nOps>
func TestC20Replay(t *testing.T) {
	spec := os.Getenv("VERIF_HIST")
	if spec == "" {
		t.Skip()
	}
	p := strings.Split(spec, ":")
	hist, _ := strconv.Atoi(p[1])
	nOps, _ := strconv.Atoi(p[2])
	os.Setenv("VERIF_SEED", p[0])
	run := ev.Start("REPLAY")
	s, cm := c20History(t, run, hist, nOps)
	for _, l := range s.Log {
		fmt.Println(l)
	}
	for _, v := range cm.order {
		fmt.Printf("VOTE %+v outcome=%s\n", v.dump(), v.Outcome)
	}
	for _, k := range []string{"votes_opened", "outcome_resolved", "outcome_unresolved", "votes_closed_with_an_option_at_exactly_half", "commit_accepted:valid", "reveal_accepted:valid", "closed_without_outcome_event", "closed_vote_epoch_out_of_memory"} {
		fmt.Println(k, run.Counter(k))
	}
	fmt.Println("violations", run.Violations())
}
