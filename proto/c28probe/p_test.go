//go:build verif

package c28probe

import (
	"context"
	"fmt"
	"net"
	"testing"
	"time"

	"github.com/lavanet/lava/v5/protocol/common"
	"github.com/lavanet/lava/v5/protocol/lavasession"
	"github.com/lavanet/lava/v5/protocol/provideroptimizer"
	"github.com/lavanet/lava/v5/utils"
	lavarand "github.com/lavanet/lava/v5/utils/rand"
	pairingtypes "github.com/lavanet/lava/v5/x/pairing/types"
	spectypes "github.com/lavanet/lava/v5/x/spec/types"
	"google.golang.org/grpc"
	"google.golang.org/grpc/credentials"
)

type probeServer struct{}

func (probeServer) Probe(ctx context.Context, req *pairingtypes.ProbeRequest) (*pairingtypes.ProbeReply, error) {
	return &pairingtypes.ProbeReply{Guid: req.GetGuid(), LatestBlock: 1, FinalizedBlocksHashes: []byte{}, LavaEpoch: 1, LavaLatestBlock: 1}, nil
}
func (probeServer) Relay(context.Context, *pairingtypes.RelayRequest) (*pairingtypes.RelayReply, error) {
	return nil, fmt.Errorf("x")
}
func (probeServer) RelaySubscribe(*pairingtypes.RelayRequest, pairingtypes.Relayer_RelaySubscribeServer) error {
	return fmt.Errorf("x")
}

func mkList(addr string, epoch uint64) map[uint64]*lavasession.ConsumerSessionsWithProvider {
	out := map[uint64]*lavasession.ConsumerSessionsWithProvider{}
	for i := 0; i < 6; i++ {
		ep := &lavasession.Endpoint{NetworkAddress: addr, Enabled: true, Connections: []*lavasession.EndpointConnection{}}
		if i == 2 {
			ep.Addons = map[string]struct{}{"addon": {}}
			ep.Extensions = map[string]struct{}{"ext1": {}}
		}
		if i == 3 {
			ep.Addons = map[string]struct{}{"addon": {}}
			ep.Extensions = map[string]struct{}{"ext1": {}, "ext2": {}}
		}
		out[uint64(i)] = &lavasession.ConsumerSessionsWithProvider{PublicLavaAddress: fmt.Sprintf("p%d", i), Endpoints: []*lavasession.Endpoint{ep}, Sessions: map[int64]*lavasession.SingleConsumerSession{}, MaxComputeUnits: 400, PairingEpoch: epoch}
	}
	return out
}

func TestProbe(t *testing.T) {
	lavasession.AllowInsecureConnectionToProviders = true
	utils.SetGlobalLoggingLevel("debug")
	lavarand.InitRandomSeed()
	lis, _ := net.Listen("tcp", "127.0.0.1:0")
	s := grpc.NewServer(grpc.Creds(credentials.NewTLS(lavasession.GetTlsConfig(lavasession.NetworkAddressData{}))))
	pairingtypes.RegisterRelayerServer(s, probeServer{})
	go func() { _ = s.Serve(lis) }()
	addr := lis.Addr().String()
	opt := provideroptimizer.NewProviderOptimizer(provideroptimizer.StrategyBalanced, 0, 1, nil, "dontcare")
	csm := lavasession.NewConsumerSessionManager(&lavasession.RPCEndpoint{NetworkAddress: "stub", ChainID: "LAV1", ApiInterface: "jsonrpc", HealthCheckPath: "/"}, opt, nil, "lava@c", lavasession.NewActiveSubscriptionProvidersStorage())
	go csm.UpdateAllProviders(140, mkList(addr, 140), nil)
	for csm.VerifEpoch() != 140 {
		time.Sleep(time.Millisecond)
	}
	ext := []*spectypes.Extension{{Name: "ext1"}}
	// block p2 through a relay that asks for ext1 and fails with BlockProviderError
	for i := 0; i < 20; i++ {
		css, err := csm.GetSessions(context.Background(), 1, 10, lavasession.NewUsedProviders(nil), 100, "", ext, common.NO_STATE, 0, "", "")
		if err != nil {
			t.Fatal(err)
		}
		for a, info := range css {
			if a == "p2" {
				csm.OnSessionFailure(info.Session, lavasession.BlockProviderError)
			} else {
				csm.OnSessionDone(info.Session, 100, 10, time.Millisecond, time.Millisecond, 0, 6, 6, false, nil)
			}
		}
		if sn := csm.VerifSnapshot(); len(sn.Blocked) > 0 {
			fmt.Printf("PROBE blocked after %d: %+v\n", i, sn)
			break
		}
	}
	go csm.UpdateAllProviders(160, mkList(addr, 160), nil)
	for csm.VerifEpoch() != 160 {
		time.Sleep(time.Millisecond)
	}
	fmt.Printf("PROBE after update: %+v\n", csm.VerifSnapshot())
	for i := 0; i < 3; i++ {
		fmt.Println("PROBE ---- GetSessions ext1 attempt", i)
		css, err := csm.GetSessions(context.Background(), 1, 34, lavasession.NewUsedProviders(nil), 100, "", ext, common.NO_STATE, 0, "", "")
		fmt.Printf("PROBE result err=%v\n", err)
		for a, info := range css {
			fmt.Printf("PROBE got %s\n", a)
			csm.OnSessionDone(info.Session, 100, 34, time.Millisecond, time.Millisecond, 0, 6, 6, false, nil)
		}
		fmt.Printf("PROBE snapshot: %+v\n", csm.VerifSnapshot())
	}
}
