//go:build verif

// Package c28: runtime monitor for property C28 (consumer session manager: exact CU accounting, sessions
// never shared, blocked providers only as last resort).
//
// TestC28 (parent) re-executes the test binary as child processes (TestC28Child). Each child builds real
// ConsumerSessionManagers over loopback gRPC probe servers and drives them with 40-64 goroutines through
// many short rounds; the oracles run inside the child (ledger, exclusivity counter, signed CuSum / relay
// number, blocked-only-as-last-resort) and the parent adds the race-detector reports of the children and
// turns a crashed child into a violation.
package c28

import (
	"context"
	"crypto/ecdsa"
	"crypto/elliptic"
	crand "crypto/rand"
	"crypto/tls"
	"crypto/x509"
	"crypto/x509/pkix"
	"encoding/json"
	"fmt"
	"math/big"
	mrand "math/rand"
	"net"
	"os"
	"os/exec"
	"path/filepath"
	"regexp"
	"runtime"
	"sort"
	"strconv"
	"strings"
	"sync"
	"sync/atomic"
	"syscall"
	"testing"
	"time"

	sdkerrors "cosmossdk.io/errors"
	"github.com/lavanet/lava/v5/protocol/common"
	"github.com/lavanet/lava/v5/protocol/lavaprotocol"
	"github.com/lavanet/lava/v5/protocol/lavasession"
	"github.com/lavanet/lava/v5/protocol/provideroptimizer"
	"github.com/lavanet/lava/v5/utils"
	lavarand "github.com/lavanet/lava/v5/utils/rand"
	pairingtypes "github.com/lavanet/lava/v5/x/pairing/types"
	spectypes "github.com/lavanet/lava/v5/x/spec/types"
	"google.golang.org/grpc"
	"google.golang.org/grpc/codes"
	"google.golang.org/grpc/credentials"
	"google.golang.org/grpc/status"

	"verif/internal/ev"
	"verif/internal/vrand"
)

const (
	envChild       = "VERIF_C28_CHILD" // "<first round>:<number of rounds>:<result file>"
	roundsPerChild = 8
)

// ------------------------------------------------------------------------------------------------
// shared result format (child -> parent)

type violRec struct {
	Rule    string `json:"rule"`
	Sig     string `json:"sig"`
	Desc    string `json:"desc"`
	Witness any    `json:"witness"`
	Count   int    `json:"count"`
}

type childResult struct {
	First        int              `json:"first"`
	Count        int              `json:"count"`
	RoundsDone   int              `json:"rounds_done"`
	CurrentRound int              `json:"current_round"`
	Counters     map[string]int64 `json:"counters"`
	Violations   []*violRec       `json:"violations"`
	Nontrivial   []string         `json:"nontrivial"`
	Samples      []any            `json:"samples"`
	Inconclusive []string         `json:"inconclusive"`
	Finished     bool             `json:"finished"`
}

// ------------------------------------------------------------------------------------------------
// child: harness

type harness struct {
	seed    int64
	server  string
	mu      sync.Mutex
	res     *childResult
	violIdx map[string]*violRec
	outFile string
	updates sync.WaitGroup // detached UpdateAllProviders calls (they sleep up to 500 ms after releasing the lock)
}

func (h *harness) count(name string, n int64) {
	h.mu.Lock()
	h.res.Counters[name] += n
	h.mu.Unlock()
}

func (h *harness) violation(rule, sig, desc string, witness any) {
	h.mu.Lock()
	defer h.mu.Unlock()
	key := rule + " | " + sig
	if v, ok := h.violIdx[key]; ok {
		v.Count++
		return
	}
	v := &violRec{Rule: rule, Sig: sig, Desc: desc, Witness: witness, Count: 1}
	h.violIdx[key] = v
	h.res.Violations = append(h.res.Violations, v)
	if b, err := json.Marshal(h.res); err == nil {
		if os.WriteFile(h.outFile+".tmp", b, 0o644) == nil {
			_ = os.Rename(h.outFile+".tmp", h.outFile)
		}
	}
}

func (h *harness) nViolations() int {
	h.mu.Lock()
	defer h.mu.Unlock()
	return len(h.res.Violations)
}

func (h *harness) flush() {
	h.mu.Lock()
	b, _ := json.Marshal(h.res)
	h.mu.Unlock()
	tmp := h.outFile + ".tmp"
	if err := os.WriteFile(tmp, b, 0o644); err == nil {
		_ = os.Rename(tmp, h.outFile)
	}
}

type probeServer struct{}

func (probeServer) Probe(ctx context.Context, req *pairingtypes.ProbeRequest) (*pairingtypes.ProbeReply, error) {
	return &pairingtypes.ProbeReply{Guid: req.GetGuid(), LatestBlock: 1, FinalizedBlocksHashes: []byte{}, LavaEpoch: 1, LavaLatestBlock: 1}, nil
}

func (probeServer) Relay(context.Context, *pairingtypes.RelayRequest) (*pairingtypes.RelayReply, error) {
	return nil, fmt.Errorf("not implemented")
}

func (probeServer) RelaySubscribe(*pairingtypes.RelayRequest, pairingtypes.Relayer_RelaySubscribeServer) error {
	return fmt.Errorf("not implemented")
}

// loopback gRPC probe server (as in the repo's own tests). The server certificate is a throw-away ECDSA one
// (clients run with AllowInsecureConnectionToProviders, exactly like the repo's tests); the repo's helper
// generates an RSA key, whose handshakes are an order of magnitude slower under the race detector.
func serverTLS() (*tls.Config, error) {
	key, err := ecdsa.GenerateKey(elliptic.P256(), crand.Reader)
	if err != nil {
		return nil, err
	}
	tmpl := x509.Certificate{SerialNumber: big.NewInt(1), Subject: pkix.Name{CommonName: "localhost"}, NotBefore: time.Unix(0, 0), NotAfter: time.Unix(4102444800, 0),
		KeyUsage: x509.KeyUsageDigitalSignature, ExtKeyUsage: []x509.ExtKeyUsage{x509.ExtKeyUsageServerAuth}, BasicConstraintsValid: true}
	der, err := x509.CreateCertificate(crand.Reader, &tmpl, &tmpl, &key.PublicKey, key)
	if err != nil {
		return nil, err
	}
	return &tls.Config{Certificates: []tls.Certificate{{Certificate: [][]byte{der}, PrivateKey: key}}, NextProtos: []string{"h2"}}, nil
}

func startServer() (string, error) {
	lis, err := net.Listen("tcp", "127.0.0.1:0")
	if err != nil {
		return "", err
	}
	cfg, err := serverTLS()
	if err != nil {
		return "", err
	}
	s := grpc.NewServer(grpc.Creds(credentials.NewTLS(cfg)))
	pairingtypes.RegisterRelayerServer(s, probeServer{})
	go func() { _ = s.Serve(lis) }()
	addr := lis.Addr().String()
	csp := &lavasession.ConsumerSessionsWithProvider{}
	for i := 0; i < 50; i++ {
		ctx, cancel := context.WithTimeout(context.Background(), 5*time.Second)
		_, conn, err := csp.ConnectRawClientWithTimeout(ctx, addr)
		cancel()
		if err == nil {
			_ = conn.Close()
			return addr, nil
		}
	}
	return "", fmt.Errorf("loopback gRPC server did not come up")
}

// ---- per round state

type provObj struct {
	cswp      *lavasession.ConsumerSessionsWithProvider
	Key       string // address@epoch#generation
	Addr      string
	Epoch     uint64
	Gen       int
	Max       uint64
	Backup    bool
	addon     bool
	exts      map[string]bool
	completed atomic.Uint64 // CU of relays completed on this provider object (done + increase-only)
	inflight  atomic.Int64  // CU reserved by acquisitions that were not yet returned
	acquired  atomic.Int64
	heldN     atomic.Int64 // sessions of this provider object currently held by harness goroutines
	veMax     atomic.Uint64 // highest virtual epoch any call that may have reserved CU here was started with
}

func (p *provObj) supports(addon string, exts []string) bool {
	if addon != "" && !p.addon {
		return false
	}
	for _, e := range exts {
		if !p.exts[e] {
			return false
		}
	}
	return true
}

type sessLedger struct {
	inUse        atomic.Int32
	mu           sync.Mutex
	prov         *provObj
	id           int64
	completed    uint64 // CU of relays completed on this session
	lastRelayNum uint64
	acquisitions int
}

type opRec struct {
	Call int64  `json:"call"`
	Ret  int64  `json:"ret"`
	W    int    `json:"w"`
	Op   string `json:"op"`
	Prov string `json:"prov,omitempty"`
	Sess int64  `json:"sess,omitempty"`
	Cu   uint64 `json:"cu,omitempty"`
	Res  string `json:"res,omitempty"`
}

type roundParams struct {
	Round      int      `json:"round"`
	Providers  int      `json:"providers"`
	Backups    int      `json:"backups"`
	Workers    int      `json:"workers"`
	Bursts     int      `json:"bursts"`
	Steps      int      `json:"steps"`
	MaxCU      []uint64 `json:"max_cu"`
	Epoch0     uint64   `json:"epoch0"`
	UpdateAt   []int    `json:"update_at_burst"`
	StaleAt    int      `json:"stale_update_at_burst"`
	VeAt       []int    `json:"virtual_epoch_bump_at_burst"`
	VeResetOnE bool     `json:"virtual_epoch_reset_on_epoch"`
}

type round struct {
	h   *harness
	p   roundParams
	csm *lavasession.ConsumerSessionManager
	opt *provideroptimizer.ProviderOptimizer

	mu     sync.RWMutex
	objs   map[*lavasession.ConsumerSessionsWithProvider]*provObj
	all    []*provObj
	byAddr map[uint64]map[string]*provObj // pairing epoch -> address -> provider object (regular and backup)
	gen    int
	epoch  uint64

	sess sync.Map // *lavasession.SingleConsumerSession -> *sessLedger

	ve     atomic.Uint64
	veEver atomic.Uint64
	seq    atomic.Int64 // +1 at the start and at the end of every harness call into the csm
	active atomic.Int64 // harness calls into the csm currently in progress
	held   atomic.Int64 // sessions currently held by harness goroutines
	clock  atomic.Int64

	logMu sync.Mutex
	log   []opRec

	// per round class counters (merged into the child's counters at the end of the round)
	cmu sync.Mutex
	cnt map[string]int64

	sawBoth       atomic.Bool // a quiescent check saw a provider with completed CU and in-flight reservations
	rollbacks     atomic.Int64
	oldEpochDone  atomic.Int64
	updWithHeld   atomic.Int64
	blockedJust   atomic.Int64
	capRejections atomic.Int64
}

func (rd *round) c(name string, n int64) {
	rd.cmu.Lock()
	rd.cnt[name] += n
	rd.cmu.Unlock()
}

func (rd *round) logOp(o opRec) {
	rd.logMu.Lock()
	rd.log = append(rd.log, o)
	rd.logMu.Unlock()
}

// witness: round parameters + the ops that touched the given provider / session + the tail of the op log
func (rd *round) witness(prov string, sess int64, extra map[string]any) map[string]any {
	rd.logMu.Lock()
	var rel []opRec
	for _, o := range rd.log {
		if (prov != "" && o.Prov == prov) || (sess != 0 && o.Sess == sess) {
			rel = append(rel, o)
		}
	}
	if len(rel) > 300 {
		rel = rel[len(rel)-300:]
	}
	tail := rd.log
	if len(tail) > 120 {
		tail = tail[len(tail)-120:]
	}
	tail = append([]opRec(nil), tail...)
	rd.logMu.Unlock()
	w := map[string]any{"seed": rd.h.seed, "round": rd.p.Round, "params": rd.p, "ops_on_object": rel, "op_log_tail": tail}
	for k, v := range extra {
		w[k] = v
	}
	return w
}

func atomicMax(a *atomic.Uint64, v uint64) {
	for {
		cur := a.Load()
		if v <= cur || a.CompareAndSwap(cur, v) {
			return
		}
	}
}

func contains(xs []string, x string) bool {
	for _, y := range xs {
		if y == x {
			return true
		}
	}
	return false
}

func (rd *round) begin() { rd.active.Add(1); rd.seq.Add(1) }
func (rd *round) end()   { rd.seq.Add(1); rd.active.Add(-1) }

// builds a fresh pairing list (new provider objects) for the given epoch
func (rd *round) newPairing(rng *mrand.Rand, epoch uint64, register bool) (map[uint64]*lavasession.ConsumerSessionsWithProvider, map[uint64]*lavasession.ConsumerSessionsWithProvider, []*provObj) {
	rd.mu.Lock()
	defer rd.mu.Unlock()
	gen := rd.gen + 1
	pairing := map[uint64]*lavasession.ConsumerSessionsWithProvider{}
	backup := map[uint64]*lavasession.ConsumerSessionsWithProvider{}
	var objs []*provObj
	mk := func(idx int, addr string, isBackup bool) *lavasession.ConsumerSessionsWithProvider {
		ep := &lavasession.Endpoint{NetworkAddress: rd.h.server, Enabled: true, Connections: []*lavasession.EndpointConnection{}}
		po := &provObj{Addr: addr, Epoch: epoch, Gen: gen, Backup: isBackup, exts: map[string]bool{}}
		switch {
		case isBackup:
		case idx == 0 || idx == 1:
			po.addon = true
		case idx == 2:
			po.addon = true
			po.exts["ext1"] = true
		case idx == 3:
			po.addon = true
			po.exts["ext1"], po.exts["ext2"] = true, true
		}
		if po.addon {
			ep.Addons = map[string]struct{}{"addon": {}}
		}
		if len(po.exts) > 0 {
			ep.Extensions = map[string]struct{}{}
			for e := range po.exts {
				ep.Extensions[e] = struct{}{}
			}
		}
		po.Max = rd.p.MaxCU[idx%len(rd.p.MaxCU)]
		po.Key = fmt.Sprintf("%s@%d#%d", addr, epoch, gen)
		cswp := &lavasession.ConsumerSessionsWithProvider{
			PublicLavaAddress: addr,
			Endpoints:         []*lavasession.Endpoint{ep},
			Sessions:          map[int64]*lavasession.SingleConsumerSession{},
			MaxComputeUnits:   po.Max,
			PairingEpoch:      epoch,
		}
		po.cswp = cswp
		objs = append(objs, po)
		return cswp
	}
	for i := 0; i < rd.p.Providers; i++ {
		addr := fmt.Sprintf("lava@r%dp%d", rd.p.Round, i)
		// from the second generation on one plain provider is replaced by a new address
		if gen > 1 && i == rd.p.Providers-1 {
			addr = fmt.Sprintf("lava@r%dp%dg%d", rd.p.Round, i, gen)
		}
		pairing[uint64(i)] = mk(i, addr, false)
	}
	for i := 0; i < rd.p.Backups; i++ {
		backup[uint64(rd.p.Providers+i)] = mk(rd.p.Providers+i, fmt.Sprintf("lava@r%dbackup%d", rd.p.Round, i), true)
	}
	for _, po := range objs {
		// every object is in the ledger (a rejected update must leave its objects untouched: used CU stays 0)
		rd.objs[po.cswp] = po
		rd.all = append(rd.all, po)
	}
	if register {
		rd.gen = gen
		rd.epoch = epoch
		rd.byAddr[epoch] = map[string]*provObj{}
		for _, po := range objs {
			rd.byAddr[epoch][po.Addr] = po
		}
	} else {
		for _, po := range objs {
			po.Gen = 0
			po.Key += "(stale)"
		}
	}
	for _, po := range objs {
		atomicMax(&po.veMax, rd.veEver.Load())
	}
	return pairing, backup, objs
}

func (rd *round) lookup(cswp *lavasession.ConsumerSessionsWithProvider) *provObj {
	rd.mu.RLock()
	defer rd.mu.RUnlock()
	return rd.objs[cswp]
}

// at returns the provider object that the pairing of the given epoch holds for the address
func (rd *round) at(epoch uint64, addr string) *provObj {
	rd.mu.RLock()
	defer rd.mu.RUnlock()
	return rd.byAddr[epoch][addr]
}

func (rd *round) registerVe(v uint64) {
	atomicMax(&rd.veEver, v)
	rd.mu.RLock()
	for _, po := range rd.all {
		atomicMax(&po.veMax, v)
	}
	rd.mu.RUnlock()
}

// waits (logical condition, bounded) until the manager shows the epoch
func (rd *round) waitEpoch(epoch uint64) bool {
	for i := 0; i < 400000; i++ {
		if rd.csm.VerifEpoch() == epoch {
			return true
		}
		if i < 1000 {
			runtime.Gosched()
		} else {
			time.Sleep(50 * time.Microsecond)
		}
	}
	return false
}

// updateProviders issues UpdateAllProviders for a new epoch in a detached goroutine (the call sleeps up to
// 500 ms after it released csm.lock) and returns when the new epoch is visible under csm.lock.
func (rd *round) updateProviders(w int, rng *mrand.Rand, stale bool) {
	rd.mu.RLock()
	cur := rd.epoch
	rd.mu.RUnlock()
	call := rd.clock.Add(1)
	if stale {
		// an update for an epoch older than the one the manager is in must be rejected without any effect
		cur = rd.csm.VerifEpoch()
		if cur < 40 {
			return
		}
		pairing, backup, _ := rd.newPairing(rng, cur-20, false)
		rd.begin()
		rd.h.updates.Add(1)
		go func() {
			defer rd.h.updates.Done()
			if err := rd.csm.UpdateAllProviders(cur-20, pairing, backup); err == nil {
				rd.h.count("unexpected.stale-update-accepted", 1)
			}
		}()
		rd.end()
		rd.c("op.update-stale-epoch", 1)
		rd.logOp(opRec{Call: call, Ret: rd.clock.Add(1), W: w, Op: "UpdateAllProviders(stale)", Res: fmt.Sprint(cur - 20)})
		return
	}
	heldBefore := rd.held.Load()
	epoch := cur + 20
	rd.begin()
	pairing, backup, _ := rd.newPairing(rng, epoch, true)
	rd.h.updates.Add(1)
	go func() {
		defer rd.h.updates.Done()
		if err := rd.csm.UpdateAllProviders(epoch, pairing, backup); err != nil {
			rd.h.count("unexpected.update-error", 1)
		}
	}()
	ok := rd.waitEpoch(epoch)
	rd.end()
	if !ok {
		rd.h.mu.Lock()
		rd.h.res.Inconclusive = append(rd.h.res.Inconclusive, fmt.Sprintf("round %d: epoch %d never became visible", rd.p.Round, epoch))
		rd.h.mu.Unlock()
	}
	if rd.p.VeResetOnE {
		rd.ve.Store(0)
	}
	rd.c("op.update-epoch", 1)
	if heldBefore > 0 && rd.held.Load() > 0 {
		rd.updWithHeld.Add(1)
	}
	rd.logOp(opRec{Call: call, Ret: rd.clock.Add(1), W: w, Op: "UpdateAllProviders", Res: fmt.Sprintf("epoch %d held=%d", epoch, heldBefore)})
}

type relay struct {
	up       *lavasession.UsedProviders
	cu       uint64
	addon    string
	exts     []*spectypes.Extension
	extNames []string
	stateful uint32
	wanted   int
	attempts int
	kind     string
}

type heldSession struct {
	s     *lavasession.SingleConsumerSession
	sl    *sessLedger
	p     *provObj
	cu    uint64
	epoch uint64
	gen   int
}

func newRelay(rng *mrand.Rand, maxCU uint64) *relay {
	rl := &relay{up: lavasession.NewUsedProviders(nil), wanted: 1, attempts: 2 + rng.Intn(6), stateful: common.NO_STATE, kind: "plain"}
	rl.cu = uint64(5 + rng.Intn(56))
	if rng.Intn(12) == 0 {
		rl.cu = maxCU/2 + uint64(rng.Intn(int(maxCU/2)+1))
	}
	switch k := rng.Intn(100); {
	case k < 62:
	case k < 76:
		rl.addon, rl.kind = "addon", "addon"
	case k < 86:
		rl.exts, rl.kind = []*spectypes.Extension{{Name: "ext1"}}, "ext1"
	case k < 91:
		rl.addon, rl.exts, rl.kind = "addon", []*spectypes.Extension{{Name: "ext1"}, {Name: "ext2"}}, "addon+ext1+ext2"
	default:
		rl.stateful, rl.kind = common.CONSISTENCY_SELECT_ALL_PROVIDERS, "stateful"
	}
	if rl.stateful == common.NO_STATE {
		switch rng.Intn(10) {
		case 0, 1:
			rl.wanted = 2
		case 2:
			rl.wanted = 3
		}
	}
	rl.extNames = common.GetExtensionNames(rl.exts)
	return rl
}

func (rd *round) ledger(s *lavasession.SingleConsumerSession, p *provObj) *sessLedger {
	if v, ok := rd.sess.Load(s); ok {
		return v.(*sessLedger)
	}
	v, _ := rd.sess.LoadOrStore(s, &sessLedger{prov: p, id: s.SessionId})
	return v.(*sessLedger)
}

var debugTiming = os.Getenv("VERIF_C28_DEBUG") != "" // diagnostics only

var relayData = &pairingtypes.RelayPrivateData{ConnectionType: "POST", ApiUrl: "", Data: []byte(`{"jsonrpc":"2.0","id":1,"method":"eth_blockNumber","params":[]}`), RequestBlock: spectypes.LATEST_BLOCK, ApiInterface: "jsonrpc", Salt: []byte{1, 2, 3, 4, 5, 6, 7, 8}}

// getSessions performs one GetSessions call of the relay and runs the acquisition-time oracles.
func (rd *round) getSessions(w int, rl *relay) []*heldSession {
	ve := rd.ve.Load()
	rd.registerVe(ve)
	rk := lavasession.NewRouterKeyFromExtensions(rl.exts)
	call := rd.clock.Add(1)

	rd.active.Add(1)
	startSeq := rd.seq.Add(1)
	s1 := rd.csm.VerifSnapshot()
	unwanted := rl.up.GetUnwantedProvidersToSend(rk)
	aloneAtStart := rd.active.Load() == 1
	t0 := time.Now()
	css, err := rd.csm.GetSessions(context.Background(), rl.wanted, rl.cu, rl.up, 100, rl.addon, rl.exts, rl.stateful, ve, "", "")
	// exclusivity counter: incremented right after the acquisition
	type acq struct {
		addr string
		info *lavasession.SessionInfo
		n    int32
		sl   *sessLedger
		p    *provObj
	}
	var acqs []acq
	for addr, info := range css {
		p := rd.lookup(info.Session.Parent)
		sl := rd.ledger(info.Session, p)
		acqs = append(acqs, acq{addr, info, sl.inUse.Add(1), sl, p})
	}
	rd.held.Add(int64(len(acqs)))
	callWall := time.Since(t0) // diagnostics only
	s2 := rd.csm.VerifSnapshot()
	isolated := aloneAtStart && rd.seq.Load() == startSeq && rd.active.Load() == 1
	rd.seq.Add(1)
	rd.active.Add(-1)
	rl.attempts--

	rd.c("op.GetSessions", 1)
	if err != nil {
		kind := "other"
		if lavasession.PairingListEmptyError.Is(err) || strings.Contains(err.Error(), "No pairings available") {
			kind = "pairing-list-empty"
		}
		rd.c("GetSessions.error."+kind, 1)
		if kind == "other" {
			msg := err.Error()
			if len(msg) > 300 {
				msg = msg[:300]
			}
			rd.h.mu.Lock()
			if len(rd.h.res.Samples) < 4 {
				rd.h.res.Samples = append(rd.h.res.Samples, map[string]any{"unexpected_getsessions_error": msg, "round": rd.p.Round})
			}
			rd.h.mu.Unlock()
		}
		// CU-cap rejection (judged only when no other call overlapped): the call failed although a valid, not
		// excluded, supporting provider existed whose only obstacle was the CU cap
		if isolated && s1.Epoch == s2.Epoch {
			for _, q := range s1.Valid {
				po := rd.at(s1.Epoch, q)
				if _, un := unwanted[q]; un || po == nil || !po.supports(rl.addon, rl.extNames) || !contains(s2.Valid, q) {
					continue
				}
				used, max := po.cswp.VerifUsedAndMaxCU()
				if used+rl.cu > max*(ve+1) {
					rd.capRejections.Add(1)
					rd.c("class.cu-cap-rejection", 1)
					break
				}
			}
		}
		rd.logOp(opRec{Call: call, Ret: rd.clock.Add(1), W: w, Op: "GetSessions(" + rl.kind + ")", Cu: rl.cu, Res: "error " + kind})
		return nil
	}

	sort.Slice(acqs, func(i, j int) bool { return acqs[i].addr < acqs[j].addr })
	var out []*heldSession
	for _, a := range acqs {
		s := a.info.Session
		p := a.p
		key := "unknown-provider-object"
		if p != nil {
			key = p.Key
		}
		rd.c("acquisitions", 1)
		// (a) exclusivity
		if a.n > 1 {
			rd.h.violation("session-held-twice", "GetSessions returned a SingleConsumerSession that another relay still holds",
				fmt.Sprintf("round %d: session %d of %s returned to worker %d while %d other holder(s) had not called done/failure", rd.p.Round, s.SessionId, key, w, a.n-1),
				rd.witness(key, s.SessionId, nil))
		}
		// (c) what would be signed for this relay
		rs := lavaprotocol.ConstructRelaySession("lava", relayData, "LAV1", a.addr, s, int64(a.info.Epoch), a.info.ReportedProviders)
		a.sl.mu.Lock()
		want := a.sl.completed + rl.cu
		last := a.sl.lastRelayNum
		a.sl.acquisitions++
		if rs.RelayNum > a.sl.lastRelayNum {
			a.sl.lastRelayNum = rs.RelayNum
		}
		nacq := a.sl.acquisitions
		a.sl.mu.Unlock()
		if rs.CuSum != want {
			cmp := "signed>expected"
			if rs.CuSum < want {
				cmp = "signed<expected"
			}
			rd.h.violation("signed-cusum-mismatch", cmp,
				fmt.Sprintf("round %d: relay on session %d of %s would sign CuSum %d, but the session completed %d CU and this relay costs %d (expected %d)", rd.p.Round, s.SessionId, key, rs.CuSum, want-rl.cu, rl.cu, want),
				rd.witness(key, s.SessionId, map[string]any{"signed_cu_sum": rs.CuSum, "session_completed_cu": want - rl.cu, "relay_cu": rl.cu}))
		}
		if rs.RelayNum <= last {
			rd.h.violation("relay-num-not-increasing", "signed RelayNum <= previous signed RelayNum of the session",
				fmt.Sprintf("round %d: session %d of %s: relay number %d after %d", rd.p.Round, s.SessionId, key, rs.RelayNum, last),
				rd.witness(key, s.SessionId, nil))
		}
		if nacq > 1 {
			rd.c("acquisitions.of-reused-session", 1)
		}
		if p != nil {
			p.inflight.Add(int64(rl.cu))
			p.acquired.Add(1)
			p.heldN.Add(1)
			// (b) cap, against the highest virtual epoch any call that could have reserved here was started with
			used, max := p.cswp.VerifUsedAndMaxCU()
			vm := p.veMax.Load()
			if used > max*(vm+1) {
				rd.h.violation("used-cu-above-cap", "after-acquisition",
					fmt.Sprintf("round %d: %s used CU %d > max %d x (virtual epoch %d + 1)", rd.p.Round, key, used, max, vm),
					rd.witness(key, 0, nil))
			}
			if used > max {
				rd.c("class.virtual-epoch-capacity-used", 1)
			}
		} else {
			rd.h.count("unexpected.unknown-provider-object", 1)
		}
		// (d) blocked only as last resort
		blocked1 := contains(s1.Blocked, a.addr) || contains(s1.BlockedBackup, a.addr)
		if blocked1 {
			rd.c("blocked-selection.observed", 1)
			blocked2 := contains(s2.Blocked, a.addr) || contains(s2.BlockedBackup, a.addr)
			switch {
			case !isolated:
				rd.c("blocked-selection.undecidable-concurrent-calls", 1)
			case s1.Epoch != s2.Epoch || a.info.Epoch != s1.Epoch || !blocked2:
				rd.c("blocked-selection.undecidable-state-moved", 1)
			default:
				witnessQ := ""
				var witnessUsed, witnessCap uint64
				for _, q := range s1.Valid {
					if !contains(s2.Valid, q) {
						continue
					}
					if _, un := unwanted[q]; un {
						continue
					}
					if _, got := css[q]; got {
						continue
					}
					po := rd.at(s1.Epoch, q)
					if po == nil || !po.supports(rl.addon, rl.extNames) {
						continue
					}
					// no other call overlapped, q was not returned: its CU counter did not move during the call
					qs := po.cswp.VerifSnapshot()
					if qs.UsedCU+rl.cu > qs.MaxCU*(ve+1) {
						continue
					}
					healthy := true
					for _, e := range qs.Endpoints {
						if !e.Enabled || e.ConnectionRefusals > 0 {
							healthy = false
						}
					}
					if !healthy {
						rd.c("blocked-selection.candidate-had-connection-failures", 1)
						continue
					}
					witnessUsed, witnessCap = qs.UsedCU, qs.MaxCU*(ve+1)
					witnessQ = q
					break
				}
				if witnessQ != "" {
					// NOT a verdict: this clause of the statement is observed, not decided, by the check (the reconstruction of
					// "an unblocked provider could have served" from outside GetSessions is not established as sound: on the
					// unchanged tree it flags rare, non-persistent cases). Counted and sampled only.
					rd.c("blocked_selection_suspect_not_judged", 1)
					rd.h.mu.Lock()
					if len(rd.h.res.Samples) < 5 {
						_, un := unwanted[witnessQ]
						rd.h.res.Samples = append(rd.h.res.Samples, map[string]any{"blocked_selection_suspect_not_judged": fmt.Sprintf("round %d: GetSessions returned %s (blocked in epoch %d) while unblocked %s looked eligible (used %d + %d <= %d)", rd.p.Round, a.addr, s1.Epoch, witnessQ, witnessUsed, rl.cu, witnessCap),
							"request": rl.kind, "wanted": rl.wanted, "virtual_epoch": ve, "unwanted": keys(unwanted), "returned": keysCss(css), "candidate_unwanted": un, "valid": s1.Valid, "blocked": s1.Blocked, "call_wall_ms": callWall.Milliseconds()})
					}
					rd.h.mu.Unlock()
				} else {
					rd.c("blocked_selection_judged_justified", 1)
					rd.c("class.blocked-as-last-resort", 1)
					rd.blockedJust.Add(1)
				}
			}
		} else if isolated {
			rd.c("unblocked-selection.decidable", 1)
		}
		rd.logOp(opRec{Call: call, Ret: rd.clock.Add(1), W: w, Op: "GetSessions(" + rl.kind + ")", Prov: key, Sess: s.SessionId, Cu: rl.cu, Res: fmt.Sprintf("cusum=%d relaynum=%d blocked=%v isolated=%v", rs.CuSum, rs.RelayNum, blocked1, isolated)})
		gen := 0
		if p != nil {
			gen = p.Gen
		}
		out = append(out, &heldSession{s: s, sl: a.sl, p: p, cu: rl.cu, epoch: a.info.Epoch, gen: gen})
	}
	return out
}

func keys(m map[string]struct{}) []string {
	out := make([]string, 0, len(m))
	for k := range m {
		out = append(out, k)
	}
	sort.Strings(out)
	return out
}

func keysCss(m lavasession.ConsumerSessionsMap) []string {
	out := make([]string, 0, len(m))
	for k := range m {
		out = append(out, k)
	}
	sort.Strings(out)
	return out
}

var outcomeNames = []string{"done", "increase-only", "fail-plain", "fail-block-provider", "fail-report-and-block", "fail-session-out-of-sync", "fail-block-endpoint", "fail-wrapped-block-provider", "fail-grpc-out-of-sync"}
var outcomeWeights = []int{44, 8, 18, 5, 3, 6, 6, 3, 3}

func outcomeError(o int) error {
	switch o {
	case 2:
		return fmt.Errorf("c28: relay failed")
	case 3:
		return lavasession.BlockProviderError
	case 4:
		return lavasession.ReportAndBlockProviderError
	case 5:
		return lavasession.SessionOutOfSyncError
	case 6:
		return lavasession.BlockEndpointError
	case 7:
		return sdkerrors.Wrapf(lavasession.BlockProviderError, "c28: wrapped")
	case 8:
		return status.Error(codes.Code(lavasession.SessionOutOfSyncError.ABCICode()), "c28: out of sync")
	}
	return nil
}

// complete returns one held session with the given outcome; the exclusivity counter is decremented right before.
func (rd *round) complete(w int, hs *heldSession, o int) {
	key := "unknown-provider-object"
	if hs.p != nil {
		key = hs.p.Key
	}
	call := rd.clock.Add(1)
	var err error
	rd.mu.RLock()
	curGen := rd.gen
	rd.mu.RUnlock()
	switch o {
	case 0, 1:
		// the session's completed CU is advanced while the session is still held (it is free as soon as the call returns)
		hs.sl.mu.Lock()
		hs.sl.completed += hs.cu
		hs.sl.mu.Unlock()
		hs.sl.inUse.Add(-1)
		rd.begin()
		if o == 0 {
			err = rd.csm.OnSessionDone(hs.s, 100, hs.cu, time.Millisecond, hs.s.CalculateExpectedLatency(2*time.Millisecond), 0, rd.p.Providers, uint64(rd.p.Providers), w%7 == 0, nil)
		} else {
			err = rd.csm.OnSessionDoneIncreaseCUOnly(hs.s, 101)
		}
		rd.end()
		if hs.p != nil {
			hs.p.inflight.Add(-int64(hs.cu))
			hs.p.completed.Add(hs.cu)
			hs.p.heldN.Add(-1)
		}
		if err != nil {
			rd.h.violation("completion-rejected-on-held-session", outcomeNames[o],
				fmt.Sprintf("round %d: %s on held session %d of %s returned %v (the holder's session lock was not held)", rd.p.Round, outcomeNames[o], hs.s.SessionId, key, err),
				rd.witness(key, hs.s.SessionId, nil))
		}
	default:
		hs.sl.inUse.Add(-1)
		rd.begin()
		err = rd.csm.OnSessionFailure(hs.s, outcomeError(o))
		rd.end()
		if hs.p != nil {
			hs.p.inflight.Add(-int64(hs.cu))
			hs.p.heldN.Add(-1)
		}
		rd.rollbacks.Add(1)
		if err != nil {
			switch {
			case lavasession.NegativeComputeUnitsAmountError.Is(err):
				rd.c("OnSessionFailure.returned.negative-cu", 1)
			case lavasession.SessionIsAlreadyBlockListedError.Is(err):
				rd.c("OnSessionFailure.returned.already-blocklisted", 1)
			case lavasession.LockMisUseDetectedError.Is(err):
				rd.h.violation("completion-rejected-on-held-session", outcomeNames[o],
					fmt.Sprintf("round %d: OnSessionFailure on held session %d of %s returned %v", rd.p.Round, hs.s.SessionId, key, err), rd.witness(key, hs.s.SessionId, nil))
			default:
				rd.c("OnSessionFailure.returned.other-error", 1)
			}
		}
	}
	rd.held.Add(-1)
	rd.c("class."+outcomeNames[o], 1)
	if hs.gen != curGen {
		rd.oldEpochDone.Add(1)
		rd.c("completed-on-previous-epoch-object", 1)
	}
	res := "ok"
	if err != nil {
		res = err.Error()
		if len(res) > 80 {
			res = res[:80]
		}
	}
	rd.logOp(opRec{Call: call, Ret: rd.clock.Add(1), W: w, Op: outcomeNames[o], Prov: key, Sess: hs.s.SessionId, Cu: hs.cu, Res: res})
}

// quiescent: no harness call in progress. (b) used CU == completed + in-flight, <= max x (virtual epoch + 1)
func (rd *round) quiescentCheck(where string) {
	rd.mu.RLock()
	all := append([]*provObj(nil), rd.all...)
	rd.mu.RUnlock()
	for _, p := range all {
		snap := p.cswp.VerifSnapshot()
		completed, inflight := p.completed.Load(), p.inflight.Load()
		want := int64(completed) + inflight
		rd.c("quiescent.provider-checks", 1)
		inUse := 0
		for _, ss := range snap.Sessions {
			if ss.InUse {
				inUse++
			}
		}
		if int64(snap.UsedCU) != want {
			cmp := "used>ledger"
			if int64(snap.UsedCU) < want {
				cmp = "used<ledger"
			}
			// shape of the history: is a session of this provider locked although no relay holds it, and was the
			// provider object already replaced by a later UpdateAllProviders?
			shape := "every locked session is held by a relay"
			orphans := int64(inUse) - p.heldN.Load()
			if orphans > 0 {
				shape = "a session is locked although GetSessions never returned it"
			}
			rd.mu.RLock()
			replaced := p.Gen < rd.gen
			rd.mu.RUnlock()
			if replaced {
				shape += "; provider object replaced by UpdateAllProviders"
			} else {
				shape += "; provider object of the current pairing"
			}
			diff := int64(snap.UsedCU) - want
			if diff < 0 {
				diff = -diff
			}
			// calls that could explain the difference: GetSessions calls with exactly that CU, and the epoch updates
			var suspects []opRec
			rd.logMu.Lock()
			for _, o := range rd.log {
				if strings.HasPrefix(o.Op, "UpdateAllProviders") || (strings.HasPrefix(o.Op, "GetSessions") && int64(o.Cu) == diff) {
					suspects = append(suspects, o)
				}
			}
			rd.logMu.Unlock()
			rd.h.violation("used-cu-ledger-mismatch", cmp+" | "+shape,
				fmt.Sprintf("round %d %s: %s UsedComputeUnits=%d but completed=%d + in-flight=%d = %d (sessions locked %d, held by relays %d)", rd.p.Round, where, p.Key, snap.UsedCU, completed, inflight, want, inUse, p.heldN.Load()),
				rd.witness(p.Key, 0, map[string]any{"where": where, "used": snap.UsedCU, "completed": completed, "inflight": inflight, "sessions_locked": inUse, "sessions_held_by_relays": p.heldN.Load(), "epoch_updates_and_getsessions_with_cu_equal_to_difference": suspects}))
		}
		if vm := p.veMax.Load(); snap.UsedCU > snap.MaxCU*(vm+1) {
			rd.h.violation("used-cu-above-cap", "at-quiescence",
				fmt.Sprintf("round %d %s: %s used CU %d > max %d x (virtual epoch %d + 1)", rd.p.Round, where, p.Key, snap.UsedCU, snap.MaxCU, vm), rd.witness(p.Key, 0, nil))
		}
		if completed > 0 && inflight > 0 {
			rd.sawBoth.Store(true)
		}
		if float64(snap.UsedCU) >= 0.8*float64(snap.MaxCU) {
			rd.c("quiescent.provider-near-or-above-base-cap", 1)
		}
		if inUse > 0 {
			rd.c("quiescent.sessions-in-flight", int64(inUse))
		}
	}
	// integrity of the selection sets (counters and one sample only: the statement does not constrain them directly)
	ms := rd.csm.VerifSnapshot()
	dups := func(xs []string) bool {
		seen := map[string]bool{}
		for _, x := range xs {
			if seen[x] {
				return true
			}
			seen[x] = true
		}
		return false
	}
	anomaly := ""
	if dups(ms.Valid) {
		anomaly = "duplicate address in validAddresses"
	}
	if dups(ms.Blocked) {
		anomaly = "duplicate address in currentlyBlockedProviderAddresses"
	}
	for _, v := range ms.Valid {
		if contains(ms.Blocked, v) {
			anomaly = "address both valid and blocked"
		}
	}
	for k, l := range ms.AddonAddresses {
		if dups(l) {
			anomaly = "duplicate address in cached valid list for router key " + k
		}
		for _, a := range l {
			if !contains(ms.Valid, a) {
				anomaly = "cached valid list for router key " + k + " contains an address that is not valid"
			}
		}
	}
	if anomaly != "" {
		rd.c("selection-set-anomaly", 1)
		rd.c("selection-set-anomaly: "+anomaly, 1)
		rd.h.mu.Lock()
		if len(rd.h.res.Samples) < 4 {
			rd.h.res.Samples = append(rd.h.res.Samples, map[string]any{"selection_set_anomaly": anomaly, "round": rd.p.Round, "where": where, "snapshot": ms})
		}
		rd.h.mu.Unlock()
	}
	rd.c("quiescent.points", 1)
}

// serialized relays at a quiescent point: every other goroutine is parked (holding its sessions), so each
// GetSessions here is decidable for the blocked-as-last-resort clause.
func (rd *round) serializedRelays(rng *mrand.Rand, n int) {
	for i := 0; i < n; i++ {
		rl := newRelay(rng, rd.p.MaxCU[0])
		rl.attempts = 14
		if rng.Intn(3) == 0 {
			rl.cu = uint64(5 + rng.Intn(20))
		}
		for rl.attempts > 0 {
			hs := rd.getSessions(-1, rl)
			if hs == nil {
				break
			}
			for _, x := range hs {
				o := vrand.Weighted(rng, []int{30, 4, 50, 3, 2, 4, 4, 2, 1})
				rd.complete(-1, x, o)
			}
		}
		rd.c("serialized-relays", 1)
	}
}

func (rd *round) run(rng *mrand.Rand) bool {
	pairing, backup, _ := rd.newPairing(rng, rd.p.Epoch0, true)
	rd.begin()
	rd.h.updates.Add(1)
	go func() {
		defer rd.h.updates.Done()
		if err := rd.csm.UpdateAllProviders(rd.p.Epoch0, pairing, backup); err != nil {
			rd.h.count("unexpected.update-error", 1)
		}
	}()
	ok := rd.waitEpoch(rd.p.Epoch0)
	rd.end()
	if !ok {
		return false
	}

	type workerState struct {
		rng  *mrand.Rand
		rl   *relay
		held []*heldSession
	}
	ws := make([]*workerState, rd.p.Workers)
	for w := range ws {
		ws[w] = &workerState{rng: vrand.Sub(rd.h.seed, fmt.Sprintf("c28-worker-%d", rd.p.Round), w)}
	}
	inList := func(xs []int, x int) bool {
		for _, y := range xs {
			if y == x {
				return true
			}
		}
		return false
	}
	for b := 0; b <= rd.p.Bursts; b++ {
		last := b == rd.p.Bursts
		var wg sync.WaitGroup
		updater, staleUpdater, veBumper := -1, -1, -1
		if !last {
			if inList(rd.p.UpdateAt, b) {
				updater = rng.Intn(rd.p.Workers)
			}
			if rd.p.StaleAt == b {
				staleUpdater = rng.Intn(rd.p.Workers)
			}
			if inList(rd.p.VeAt, b) {
				veBumper = rng.Intn(rd.p.Workers)
			}
		}
		specialStep := rng.Intn(rd.p.Steps)
		for w := range ws {
			wg.Add(1)
			go func(w int, st *workerState) {
				defer wg.Done()
				if last {
					// drain: return everything that is still held
					for _, hs := range st.held {
						rd.complete(w, hs, vrand.Weighted(st.rng, outcomeWeights))
					}
					st.held = nil
					return
				}
				for step := 0; step < rd.p.Steps; step++ {
					if step == specialStep {
						if w == updater {
							rd.updateProviders(w, st.rng, false)
						}
						if w == staleUpdater {
							rd.updateProviders(w, st.rng, true)
						}
						if w == veBumper {
							rd.ve.Add(1)
							rd.c("op.virtual-epoch-bump", 1)
						}
					}
					doComplete := len(st.held) > 0 && (st.rng.Intn(100) < 62 || len(st.held) >= 4)
					if doComplete {
						i := st.rng.Intn(len(st.held))
						hs := st.held[i]
						st.held = append(st.held[:i], st.held[i+1:]...)
						rd.complete(w, hs, vrand.Weighted(st.rng, outcomeWeights))
						continue
					}
					if st.rl == nil || st.rl.attempts <= 0 {
						st.rl = newRelay(st.rng, rd.p.MaxCU[0])
					}
					got := rd.getSessions(w, st.rl)
					if got == nil {
						st.rl = nil // the relay gave up
						continue
					}
					st.held = append(st.held, got...)
					if st.rng.Intn(4) == 0 {
						runtime.Gosched()
					}
				}
			}(w, ws[w])
		}
		t0 := time.Now()
		done := make(chan struct{})
		go func() { wg.Wait(); close(done) }()
		select {
		case <-done:
		case <-time.After(180 * time.Second): // watchdog only
			rd.h.mu.Lock()
			rd.h.res.Inconclusive = append(rd.h.res.Inconclusive, fmt.Sprintf("round %d burst %d: workers did not reach the barrier within the watchdog", rd.p.Round, b))
			rd.h.mu.Unlock()
			return false
		}
		t1 := time.Now()
		rd.quiescentCheck(fmt.Sprintf("after burst %d", b))
		t2 := time.Now()
		if !last {
			rd.serializedRelays(rng, 2)
			rd.quiescentCheck(fmt.Sprintf("after serialized relays %d", b))
		}
		if debugTiming {
			fmt.Fprintf(os.Stderr, "c28dbg round %d burst %d: workers %v check %v serialized %v\n", rd.p.Round, b, t1.Sub(t0), t2.Sub(t1), time.Since(t2))
		}
	}
	if h := rd.held.Load(); h != 0 {
		rd.h.count("unexpected.held-after-drain", 1)
	}
	// the stale update must not have changed the epoch
	rd.mu.RLock()
	wantEpoch := rd.epoch
	rd.mu.RUnlock()
	if got := rd.csm.VerifEpoch(); got != wantEpoch {
		rd.h.count("unexpected.epoch-after-round", 1)
	}
	return true
}

func (h *harness) runRound(r int) bool {
	rng := vrand.Sub(h.seed, "c28-round", r)
	p := roundParams{Round: r, Providers: 8 + rng.Intn(5), Workers: 40 + rng.Intn(25), Bursts: 3 + rng.Intn(3), Steps: 2 + rng.Intn(3), StaleAt: -1}
	if rng.Intn(4) == 0 {
		p.Backups = 2
	}
	base := uint64(150 + rng.Intn(450))
	for i := 0; i < p.Providers+p.Backups; i++ {
		p.MaxCU = append(p.MaxCU, base/2+uint64(rng.Intn(int(base))))
	}
	p.Epoch0 = uint64(20 * (1 + rng.Intn(50)))
	if rng.Intn(8) != 0 {
		p.UpdateAt = append(p.UpdateAt, 1+rng.Intn(p.Bursts-1))
		if rng.Intn(2) == 0 {
			p.UpdateAt = append(p.UpdateAt, 1+rng.Intn(p.Bursts-1))
		}
	}
	if rng.Intn(3) == 0 {
		p.StaleAt = 1 + rng.Intn(p.Bursts-1)
	}
	if rng.Intn(2) == 0 {
		p.VeAt = append(p.VeAt, rng.Intn(p.Bursts))
		if rng.Intn(2) == 0 {
			p.VeAt = append(p.VeAt, rng.Intn(p.Bursts))
		}
	}
	p.VeResetOnE = rng.Intn(2) == 0

	optimizer := provideroptimizer.NewProviderOptimizer(provideroptimizer.StrategyBalanced, 0, 1, nil, "dontcare")
	optimizer.SetDeterministicSeed(h.seed*1000 + int64(r))
	csm := lavasession.NewConsumerSessionManager(&lavasession.RPCEndpoint{NetworkAddress: "stub", ChainID: "LAV1", ApiInterface: "jsonrpc", HealthCheckPath: "/"}, optimizer, nil, "lava@c28consumer", lavasession.NewActiveSubscriptionProvidersStorage())
	rd := &round{h: h, p: p, csm: csm, opt: optimizer, objs: map[*lavasession.ConsumerSessionsWithProvider]*provObj{}, byAddr: map[uint64]map[string]*provObj{}, cnt: map[string]int64{}}
	ok := rd.run(rng)

	// merge counters, classify the round
	rd.cmu.Lock()
	cnt := rd.cnt
	rd.cmu.Unlock()
	h.mu.Lock()
	for k, v := range cnt {
		h.res.Counters[k] += v
	}
	h.res.Counters["class.epoch-update-with-sessions-in-flight"] += rd.updWithHeld.Load()
	nontrivial := ok && rd.sawBoth.Load() && rd.rollbacks.Load() > 0 && cnt["class.done"] > 0
	if nontrivial {
		sig := fmt.Sprintf("r%d|prov=%d+%d|w=%d|upd=%v|ve=%v|acq=%d|done=%d|fail=%d|blockedJust=%d|cap=%d|old=%d", r, p.Providers, p.Backups, p.Workers, p.UpdateAt, p.VeAt, cnt["acquisitions"], cnt["class.done"], rd.rollbacks.Load(), rd.blockedJust.Load(), rd.capRejections.Load(), rd.oldEpochDone.Load())
		h.res.Nontrivial = append(h.res.Nontrivial, sig)
	}
	if len(h.res.Samples) < 2 {
		rd.logMu.Lock()
		n := len(rd.log)
		if n > 14 {
			n = 14
		}
		h.res.Samples = append(h.res.Samples, map[string]any{"params": p, "first_ops": append([]opRec(nil), rd.log[:n]...), "ops": len(rd.log)})
		rd.logMu.Unlock()
	}
	if ok {
		h.res.RoundsDone++
	}
	h.mu.Unlock()
	return ok
}

func TestC28Child(t *testing.T) {
	spec := os.Getenv(envChild)
	if spec == "" {
		t.Skip("child of TestC28")
	}
	parts := strings.SplitN(spec, ":", 3)
	first, _ := strconv.Atoi(parts[0])
	count, _ := strconv.Atoi(parts[1])
	seed := int64(1)
	if v, err := strconv.ParseInt(os.Getenv("VERIF_SEED"), 10, 64); err == nil {
		seed = v
	}
	h := &harness{seed: seed, outFile: parts[2], violIdx: map[string]*violRec{}, res: &childResult{First: first, Count: count, Counters: map[string]int64{}}}
	h.flush()
	lavasession.AllowInsecureConnectionToProviders = true
	utils.SetGlobalLoggingLevel("fatal")
	lavarand.InitRandomSeed()
	addr, err := startServer()
	if err != nil {
		h.res.Inconclusive = append(h.res.Inconclusive, "loopback server: "+err.Error())
		h.flush()
		return
	}
	h.server = addr
	for r := first; r < first+count; r++ {
		h.mu.Lock()
		h.res.CurrentRound = r
		h.mu.Unlock()
		h.flush()
		ok := h.runRound(r)
		h.count("goroutines.max", 0)
		h.mu.Lock()
		if g := int64(runtime.NumGoroutine()); g > h.res.Counters["goroutines.max"] {
			h.res.Counters["goroutines.max"] = g
		}
		h.mu.Unlock()
		if !ok || h.nViolations() >= 12 {
			break
		}
	}
	// detached UpdateAllProviders calls return after their post-unlock sleep (< 500 ms)
	wait := make(chan struct{})
	go func() { h.updates.Wait(); close(wait) }()
	select {
	case <-wait:
	case <-time.After(30 * time.Second):
		h.count("unexpected.update-call-never-returned", 1)
	}
	h.mu.Lock()
	h.res.Finished = true
	h.mu.Unlock()
	h.flush()
}

// ------------------------------------------------------------------------------------------------
// parent

// race reports ---------------------------------------------------------------------------------

type raceFrame struct {
	Fn   string
	File string
	Line int
}

type raceSide struct {
	Header string
	Write  bool
	Frames []raceFrame
}

type raceReport struct {
	Sides []raceSide
	Text  string
}

var (
	reSideHeader = regexp.MustCompile(`^(?i)(previous )?(atomic )?(read|write) at 0x[0-9a-f]+ by (main )?goroutine`)
	reLoc        = regexp.MustCompile(`^\s+(/[^\s:]+):(\d+)`)
	// fields the statement is about: provider CU counter, session CU / relay counters, the valid / blocked sets
	reMonitored = regexp.MustCompile(`\b(UsedComputeUnits|CuSum|LatestRelayCu|RelayNum|validAddresses|currentlyBlockedProviderAddresses|blockedBackupProviders)\b`)
)

func parseRaceLog(text string) []raceReport {
	var out []raceReport
	for _, blk := range strings.Split(text, "==================") {
		if !strings.Contains(blk, "WARNING: DATA RACE") {
			continue
		}
		rep := raceReport{Text: strings.TrimSpace(blk)}
		lines := strings.Split(blk, "\n")
		var cur *raceSide
		var fn string
		for _, ln := range lines {
			t := strings.TrimSpace(ln)
			if reSideHeader.MatchString(t) {
				rep.Sides = append(rep.Sides, raceSide{Header: t, Write: strings.Contains(strings.ToLower(t), "write at")})
				cur = &rep.Sides[len(rep.Sides)-1]
				fn = ""
				continue
			}
			if t == "" || strings.HasPrefix(t, "Goroutine ") {
				cur = nil
				continue
			}
			if cur == nil {
				continue
			}
			if m := reLoc.FindStringSubmatch(ln); m != nil {
				n, _ := strconv.Atoi(m[2])
				cur.Frames = append(cur.Frames, raceFrame{Fn: fn, File: m[1], Line: n})
				continue
			}
			fn = strings.TrimSuffix(t, "()")
			if i := strings.LastIndex(fn, "("); i > 0 && strings.HasSuffix(fn, ")") && !strings.Contains(fn[i:], "*") {
				fn = fn[:i]
			}
		}
		if len(rep.Sides) >= 2 {
			out = append(out, rep)
		}
	}
	return out
}

var srcCache = map[string][]string{}

func sourceLine(file string, line int) string {
	ls, ok := srcCache[file]
	if !ok {
		b, err := os.ReadFile(file)
		if err == nil {
			ls = strings.Split(string(b), "\n")
		}
		srcCache[file] = ls
	}
	if line >= 1 && line <= len(ls) {
		return strings.TrimSpace(ls[line-1])
	}
	return ""
}

func shortFn(fn string) string {
	fn = strings.TrimPrefix(fn, "github.com/lavanet/lava/v5/")
	return fn
}

// first frame inside the repository under test (the access itself may be in runtime / sort / reflect)
func repoFrame(s raceSide) (raceFrame, bool) {
	for _, f := range s.Frames {
		if strings.HasPrefix(f.File, ev.RepoDir()+"/") {
			return f, true
		}
	}
	return raceFrame{}, false
}

func sideKey(s raceSide) string {
	var fs []string
	for i, f := range s.Frames {
		if i >= 8 {
			break
		}
		fs = append(fs, shortFn(f.Fn))
	}
	kind := "read"
	if s.Write {
		kind = "write"
	}
	return kind + ":" + strings.Join(fs, "<")
}

// Justified baseline. A racing pair in which a monitored field is written is benign (not attributed) when the
// other side is a pure reader of one of these kinds; the writes themselves are all made under the code's own lock.
var (
	reLogLine     = regexp.MustCompile(`LavaFormat|LogAttr\(|utils\.Attribute\{`)
	raceBenignWhy = map[string]string{
		"log":     "the unsynchronised side only evaluates a log attribute (len()/value of the field passed to utils.LavaFormat*); the value never reaches the accounting",
		"atomic":  "the unsynchronised side is atomicReadUsedComputeUnits (word-sized sync/atomic load): ordering heuristics (sort by CU served) and the report-provider decision of OnSessionFailure; nothing is written back",
		"metrics": "the unsynchronised side is the metrics goroutine of updateMetricsManager reading a session it no longer holds; the value only goes to SetQOSMetrics",
	}
)

func benignReader(other raceSide) string {
	if other.Write {
		return ""
	}
	if len(other.Frames) > 0 && strings.HasPrefix(other.Frames[0].Fn, "sync/atomic.Load") {
		return "atomic"
	}
	f, ok := repoFrame(other)
	if !ok {
		return ""
	}
	if strings.Contains(f.Fn, "updateMetricsManager.func") {
		return "metrics"
	}
	if reLogLine.MatchString(sourceLine(f.File, f.Line)) {
		return "log"
	}
	return ""
}

// classifyRace: key = stack pair (line numbers stripped); attributed = one side writes a monitored field and the
// other side is not a baselined benign reader; sig names the field and the writing function only, so that all
// readers racing with the same unsynchronised writer are one finding.
func classifyRace(rep raceReport) (key string, attributed bool, sig string, desc string, baselined string) {
	k0, k1 := sideKey(rep.Sides[0]), sideKey(rep.Sides[1])
	if k1 < k0 {
		k0, k1 = k1, k0
	}
	key = k0 + " || " + k1
	for i, s := range rep.Sides[:2] {
		if !s.Write {
			continue
		}
		f, ok := repoFrame(s)
		if !ok {
			continue
		}
		m := reMonitored.FindString(sourceLine(f.File, f.Line))
		if m == "" {
			continue
		}
		other := rep.Sides[1-i]
		of, _ := repoFrame(other)
		okind := "read"
		if other.Write {
			okind = "write"
		}
		sig = fmt.Sprintf("write of %s in %s", m, shortFn(f.Fn))
		desc = fmt.Sprintf("%s vs unsynchronised %s in %s", sig, okind, shortFn(of.Fn))
		if b := benignReader(other); b != "" {
			baselined = b
			continue // the other side may itself be a monitored write
		}
		return key, true, sig, desc, ""
	}
	return key, false, sig, desc, baselined
}

var reFatal = regexp.MustCompile(`(?m)^(fatal error: .*|panic: .*|unexpected fault address.*|SIGSEGV.*)$`)

func TestC28(t *testing.T) {
	run := ev.Start("C28")
	nRounds := run.Pick(64, 2400)
	parallel := run.Pick(12, 12)
	outDir := filepath.Join(ev.Dir(), ".out")
	_ = os.MkdirAll(outDir, 0o755)
	racePrefix := filepath.Join(outDir, "c28race")
	old, _ := filepath.Glob(racePrefix + ".*")
	for _, f := range old {
		_ = os.Remove(f)
	}
	old, _ = filepath.Glob(filepath.Join(outDir, "c28-child-*"))
	for _, f := range old {
		_ = os.Remove(f)
	}

	type job struct{ first, count int }
	var jobs []job
	for f := 0; f < nRounds; f += roundsPerChild {
		n := roundsPerChild
		if f+n > nRounds {
			n = nRounds - f
		}
		jobs = append(jobs, job{f, n})
	}
	type outcome struct {
		job     job
		res     *childResult
		exitErr error
		logFile string
		timeout bool
	}
	results := make([]outcome, len(jobs))
	sem := make(chan struct{}, parallel)
	var wg sync.WaitGroup
	var stop atomic.Bool
	for i, j := range jobs {
		wg.Add(1)
		go func(i int, j job) {
			defer wg.Done()
			sem <- struct{}{}
			defer func() { <-sem }()
			if stop.Load() {
				results[i] = outcome{job: j}
				return
			}
			resFile := filepath.Join(outDir, fmt.Sprintf("c28-child-%05d.json", j.first))
			logFile := filepath.Join(outDir, fmt.Sprintf("c28-child-%05d.log", j.first))
			lf, _ := os.Create(logFile)
			cmd := exec.Command(os.Args[0], "-test.run", "^TestC28Child$", "-test.count=1", "-test.timeout=0")
			cmd.Env = append(os.Environ(), fmt.Sprintf("%s=%d:%d:%s", envChild, j.first, j.count, resFile), "GORACE=halt_on_error=0 log_path="+racePrefix, fmt.Sprintf("GOMAXPROCS=%d", 2+(j.first/roundsPerChild)%3))
			cmd.Stdout, cmd.Stderr = lf, lf
			o := outcome{job: j, logFile: logFile}
			if err := cmd.Start(); err != nil {
				o.exitErr = err
				results[i] = o
				return
			}
			waitCh := make(chan error, 1)
			go func() { waitCh <- cmd.Wait() }()
			select {
			case o.exitErr = <-waitCh:
			case <-time.After(time.Duration(run.Pick(600, 900)) * time.Second): // watchdog only
				o.timeout = true
				_ = cmd.Process.Signal(syscall.SIGQUIT)
				select {
				case <-waitCh:
				case <-time.After(20 * time.Second):
					_ = cmd.Process.Kill()
					<-waitCh
				}
			}
			_ = lf.Close()
			if b, err := os.ReadFile(resFile); err == nil {
				var r childResult
				if json.Unmarshal(b, &r) == nil {
					o.res = &r
				}
			}
			if o.res != nil && len(o.res.Violations) >= 12 {
				stop.Store(true)
			}
			results[i] = o
		}(i, j)
	}
	wg.Wait()

	childrenRun, childrenCrashed := 0, 0
	for _, o := range results {
		if o.logFile == "" {
			continue
		}
		childrenRun++
		if o.res != nil {
			run.Eval(o.res.RoundsDone)
			for k, v := range o.res.Counters {
				if k == "goroutines.max" {
					if int64(v) > run.Counter(k) {
						run.Count(k, int(v-run.Counter(k)))
					}
					continue
				}
				run.Count(k, int(v))
			}
			for _, s := range o.res.Nontrivial {
				run.Nontrivial(s)
			}
			for _, s := range o.res.Samples {
				run.Sample(s)
			}
			for _, v := range o.res.Violations {
				for n := 0; n < v.Count; n++ {
					run.Violation(v.Rule, v.Sig, v.Desc, v.Witness)
				}
			}
			for _, s := range o.res.Inconclusive {
				run.Inconclusive(s)
			}
		}
		finished := o.res != nil && o.res.Finished
		if o.timeout {
			run.Inconclusive(fmt.Sprintf("child for rounds %d..%d hit the wall-clock watchdog (log %s)", o.job.first, o.job.first+o.job.count-1, o.logFile))
			continue
		}
		if !finished {
			// the child died: a Go fatal error / panic / process exit inside the monitored code
			childrenCrashed++
			logText := ""
			if b, err := os.ReadFile(o.logFile); err == nil {
				logText = string(b)
			}
			cur := -1
			if o.res != nil {
				cur = o.res.CurrentRound
			}
			sig, tail := crashSignature(logText)
			run.Violation("child-process-died", sig,
				fmt.Sprintf("child for rounds %d..%d died in round %d (%v): %s", o.job.first, o.job.first+o.job.count-1, cur, o.exitErr, sig),
				map[string]any{"seed": run.Seed, "rounds": []int{o.job.first, o.job.first + o.job.count - 1}, "died_in_round": cur, "exit": fmt.Sprint(o.exitErr), "log_tail": tail})
		}
	}
	run.Count("children.run", childrenRun)
	run.Count("children.crashed", childrenCrashed)

	// race detector reports of all children
	files, _ := filepath.Glob(racePrefix + ".*")
	type agg struct {
		n          int
		attributed bool
		sig        string
		desc       string
		baselined  string
		text       string
	}
	distinct := map[string]*agg{}
	total := 0
	for _, f := range files {
		b, err := os.ReadFile(f)
		if err != nil {
			continue
		}
		for _, rep := range parseRaceLog(string(b)) {
			total++
			key, attributed, sig, desc, baselined := classifyRace(rep)
			a, ok := distinct[key]
			if !ok {
				a = &agg{attributed: attributed, sig: sig, desc: desc, baselined: baselined, text: rep.Text}
				distinct[key] = a
			}
			a.n++
		}
	}
	run.Count("race.reports-total", total)
	run.Count("race.distinct-stack-pairs", len(distinct))
	classes := map[string]int{}
	keysSorted := make([]string, 0, len(distinct))
	for k := range distinct {
		keysSorted = append(keysSorted, k)
	}
	sort.Strings(keysSorted)
	type finding struct {
		others  map[string]int
		example string
		n       int
	}
	findings := map[string]*finding{}
	var findingOrder []string
	for _, k := range keysSorted {
		a := distinct[k]
		switch {
		case a.attributed:
			run.Count("race.distinct-attributed", 1)
			classes["ATTRIBUTED "+a.desc] += a.n
			fd, ok := findings[a.sig]
			if !ok {
				fd = &finding{others: map[string]int{}, example: a.text}
				findings[a.sig] = fd
				findingOrder = append(findingOrder, a.sig)
			}
			fd.others[a.desc] += a.n
			fd.n += a.n
		case a.baselined != "":
			run.Count("race.distinct-baselined-benign", 1)
			classes["baselined["+a.baselined+"] "+a.desc] += a.n
		default:
			run.Count("race.distinct-not-on-monitored-field", 1)
			short := k
			if len(short) > 200 {
				short = short[:200]
			}
			classes["other "+short] += a.n
		}
	}
	for _, sig := range findingOrder {
		fd := findings[sig]
		txt := fd.example
		if len(txt) > 6000 {
			txt = txt[:6000]
		}
		var pairs []string
		for d := range fd.others {
			pairs = append(pairs, d)
		}
		sort.Strings(pairs)
		run.Violation("race-on-accounting-field", sig, fmt.Sprintf("race detector (%d reports): %s", fd.n, strings.Join(pairs, "; ")),
			map[string]any{"seed": run.Seed, "racing_pairs": fd.others, "example_report": txt})
	}
	run.Set("race_baseline_rules", raceBenignWhy)
	run.Set("race_report_classes", classes)

	for _, cls := range []string{"class.done", "class.increase-only", "class.fail-plain", "class.fail-block-provider", "class.fail-report-and-block", "class.fail-session-out-of-sync", "class.fail-block-endpoint", "class.epoch-update-with-sessions-in-flight", "completed-on-previous-epoch-object", "class.cu-cap-rejection", "blocked-selection.observed", "class.virtual-epoch-capacity-used", "acquisitions.of-reused-session", "quiescent.sessions-in-flight"} {
		run.Require("behaviour class exercised: "+cls, run.Counter(cls) > 0)
	}
	run.Finish("rounds of 40-64 goroutines on a real ConsumerSessionManager (8-12 providers +0/2 backups over loopback gRPC, CU caps near the demand, add-on/extension/stateful requests, multi-attempt relays sharing a UsedProviders) mixing GetSessions with OnSessionDone / OnSessionDoneIncreaseCUOnly / OnSessionFailure{plain, BlockProvider, ReportAndBlock, SessionOutOfSync (sdk and gRPC code), BlockEndpoint}, UpdateAllProviders (new and stale epochs) and virtual-epoch bumps mid-flight; oracles: exclusivity counter per session pointer, ledger (completed + in-flight) vs UsedComputeUnits under the provider lock at every barrier, CuSum/RelayNum of the real ConstructRelaySession vs the session ledger, blocked-provider selections are OBSERVED and counted against snapshots under csm.lock (judged-justified / suspect-not-judged) but the clause 'a blocked provider is chosen only when no unblocked provider can serve' is NOT decided by this check and never produces a violation, race reports of the children attributed only when a monitored field is written; a round is non-trivial when a barrier saw a provider with completed CU and in-flight reservations at once and the round had successes and rolled-back failures; distinct = distinct round outcome signatures",
		nRounds/2,
		"the loopback probe servers are healthy (connection failures are not part of the workload)",
		"stickiness and forced provider selection are not used (the statement does not mention them)",
		"the blocked-as-last-resort clause of the statement is observed but not decided: selections of blocked providers are counted (justified by the snapshots / suspect / overlapping another call) and sampled, never reported as violations")
}

func crashSignature(logText string) (string, string) {
	lines := strings.Split(logText, "\n")
	idx := -1
	sig := "no fatal-error line in the child's log"
	for i, ln := range lines {
		if reFatal.MatchString(ln) {
			idx = i
			sig = strings.TrimSpace(ln)
			break
		}
		if strings.Contains(ln, " FTL ") && idx < 0 {
			idx = i
			sig = "LavaFormatFatal: " + strings.TrimSpace(ln)
			if len(sig) > 160 {
				sig = sig[:160]
			}
			break
		}
	}
	if idx >= 0 {
		// first frame of the repository after the fatal line
		for _, ln := range lines[idx:] {
			if m := reLoc.FindStringSubmatch(ln); m != nil && strings.HasPrefix(m[1], ev.RepoDir()+"/") {
				sig += " @ " + strings.TrimPrefix(m[1], ev.RepoDir()+"/")
				break
			}
		}
		end := idx + 60
		if end > len(lines) {
			end = len(lines)
		}
		return sig, strings.Join(lines[idx:end], "\n")
	}
	start := len(lines) - 40
	if start < 0 {
		start = 0
	}
	return sig, strings.Join(lines[start:], "\n")
}
