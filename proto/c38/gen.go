//go:build verif

package c38

import (
	"encoding/json"
	"fmt"
	"math/rand"
	"net/url"
	"regexp"
	"sort"
	"strconv"
	"strings"

	spectypes "github.com/lavanet/lava/v5/x/spec/types"

	"verif/internal/vrand"
)

// One input handed to ParseMsg: (url, data, connection type, metadata) + the latest block the consumer knows.
type input struct {
	Idx    int         `json:"idx"`
	Op     string      `json:"op"`       // generator operator (valid, truncate, byte-flip ...)
	Base   string      `json:"base_api"` // spec API the request was derived from
	Url    string      `json:"url"`
	Conn   string      `json:"conn"`
	Data   []byte      `json:"data"` // base64 in the JSON file
	Text   string      `json:"data_text,omitempty"`
	Meta   [][2]string `json:"meta,omitempty"`
	Latest uint64      `json:"latest_block"`
}

type apiInfo struct {
	Name, Conn, Addon, Internal string
	BP                          spectypes.BlockParser
	Parsers                     []spectypes.GenericParser
	CU                          uint64
}

type gen struct {
	spec    string
	iface   string
	apis    []apiInfo
	headers []string // request headers the spec handles (pass_send / pass_both)
}

func newGen(spec spectypes.Spec, iface string) *gen {
	g := &gen{spec: spec.Index, iface: iface}
	hs := map[string]struct{}{}
	for _, c := range spec.ApiCollections {
		if !c.Enabled || c.CollectionData.ApiInterface != iface {
			continue
		}
		for _, a := range c.Apis {
			if !a.Enabled {
				continue
			}
			g.apis = append(g.apis, apiInfo{Name: a.Name, Conn: c.CollectionData.Type, Addon: c.CollectionData.AddOn, Internal: c.CollectionData.InternalPath, BP: a.BlockParsing, Parsers: a.Parsers, CU: a.ComputeUnits})
		}
		for _, h := range c.Headers {
			if h.Kind == spectypes.Header_pass_send || h.Kind == spectypes.Header_pass_both {
				hs[h.Name] = struct{}{}
			}
		}
	}
	sort.SliceStable(g.apis, func(i, j int) bool {
		a, b := g.apis[i], g.apis[j]
		return a.Name+"|"+a.Addon+"|"+a.Internal+"|"+a.Conn < b.Name+"|"+b.Addon+"|"+b.Internal+"|"+b.Conn
	})
	for h := range hs {
		g.headers = append(g.headers, h)
	}
	sort.Strings(g.headers)
	return g
}

const blkPH = "@@BLK@@" // placeholder replaced by the raw block token after marshalling

var validBlocks = []string{`"0x1b4"`, `"latest"`, `"earliest"`, `"pending"`, `"safe"`, `"finalized"`, `436`, `"436"`, `17000000`, `"0x10b0760"`, `0`, `"0x0"`, `1`, `999873`, `"999874"`}

var numberForms = []string{
	`1e30`, `18446744073709551616`, `18446744073709551615`, `9223372036854775808`, `9223372036854775807`, `99999999999999999999999999999999`,
	`-1`, `-9223372036854775808`, `-9223372036854775809`, `-0`, `1.5`, `1e2`, `1E400`, `-1e-400`, `0.0000001`, `4294967296`, `2147483648`,
	`"0x"`, `"0x-1"`, `"-0x1"`, `"0xffffffffffffffffff"`, `"0X10"`, `"0x7fffffffffffffff"`, `"0x8000000000000000"`, `"0xg"`, `"0b101"`, `"0o17"`, `"017"`, `"1_000"`, `"+5"`, `" 5"`, `"5 "`,
	`"1e3"`, `"1.0"`, `"-5"`, `"18446744073709551616"`, `"9223372036854775808"`, `"00000000000000000000000000000005"`, `"٣"`,
}

var oddTags = []string{
	`"Latest"`, `"LATEST"`, `" latest"`, `"latest "`, `"latest\u0000"`, `"earliest\n"`, `"validated"`, `"final"`, `"optimistic"`, `"confirmed"`, `"processed"`, `"head"`, `"genesis"`,
	`""`, `null`, `true`, `false`, `[]`, `{}`, `["latest"]`, `{"blockNumber":"0x5"}`, `{"blockHash":"0x` + strings.Repeat("ab", 32) + `"}`,
	`"0x` + strings.Repeat("ab", 32) + `"`, `"0x` + strings.Repeat("ab", 64) + `"`, `"0x` + strings.Repeat("ab", 31) + `"`, `"` + strings.Repeat("ab", 32) + `"`, `"0x` + strings.Repeat("zz", 32) + `"`,
	`"\"latest\""`, `"\"5\""`, `"\"\""`, `"\""`, `"%!s(<nil>)"`, `"-1"`, `"-2"`, `"-3"`, `"nil"`, `"undefined"`, `"NaN"`, `"Infinity"`,
}

var fillers = []any{"0x00000000219ab540356cbb839cbe05303d7705fa", "cosmos1qypqxpq9qcrsszg2pvxq6rs0zqg3yyc5lzv7xu", 1, true, "abc", map[string]any{"to": "0x00", "data": "0x"}, []any{}, nil, "0x0"}

var restFill = []string{"cosmos1qypqxpq9qcrsszg2pvxq6rs0zqg3yyc5lzv7xu", "1", "12345", "latest", "lava@1q2w3e", "uatom", "ETH1", "0xabc", "A1B2C3", "true"}

func nested(keys []string, leaf any) any {
	v := leaf
	for i := len(keys) - 1; i >= 0; i-- {
		if n, err := strconv.Atoi(keys[i]); err == nil && n >= 0 && n < 8 {
			arr := make([]any, n+1)
			for j := range arr {
				arr[j] = "x"
			}
			arr[n] = v
			v = arr
		} else {
			v = map[string]any{keys[i]: v}
		}
	}
	return v
}

// setPath sets a value along a generic-parser path like ".params.[0].toBlock" inside params
func setPath(params any, path string, leaf any) any {
	toks := strings.Split(strings.TrimPrefix(path, ".params"), ".")
	var keys []string
	for _, t := range toks {
		if t == "" {
			continue
		}
		keys = append(keys, strings.Trim(t, "[]"))
	}
	if len(keys) == 0 {
		return params
	}
	add := nested(keys, leaf)
	// merge at top level only (enough for the spec paths in use)
	switch a := add.(type) {
	case map[string]any:
		if m, ok := params.(map[string]any); ok {
			for k, v := range a {
				m[k] = v
			}
			return m
		}
		return a
	case []any:
		if arr, ok := params.([]any); ok {
			for len(arr) < len(a) {
				arr = append(arr, "x")
			}
			for i, v := range a {
				if v != "x" {
					arr[i] = v
				}
			}
			return arr
		}
		return a
	}
	return params
}

// params for a JSON-RPC style request of `api`, with the block placeholder where the spec looks for the block
func (g *gen) buildParams(api apiInfo, rng *rand.Rand) any {
	fill := func() any { return fillers[rng.Intn(len(fillers))] }
	arrTo := func(k int) []any {
		a := make([]any, k+1)
		for i := range a {
			a[i] = fill()
		}
		return a
	}
	var p any
	args := api.BP.ParserArg
	switch api.BP.ParserFunc {
	case spectypes.PARSER_FUNC_PARSE_BY_ARG:
		k, _ := strconv.Atoi(first(args))
		a := arrTo(k)
		a[k] = blkPH
		if rng.Intn(4) == 0 {
			a = append(a, fill())
		}
		p = a
	case spectypes.PARSER_FUNC_PARSE_CANONICAL:
		if k, err := strconv.Atoi(first(args)); err == nil && rng.Intn(5) != 0 {
			a := arrTo(k)
			if len(args) > 1 {
				a[k] = nested(args[1:], blkPH)
			} else {
				a[k] = blkPH
			}
			p = a
		} else {
			keys := args
			if err == nil {
				keys = args[1:]
			}
			p = nested(keys, blkPH)
		}
	case spectypes.PARSER_FUNC_PARSE_DICTIONARY, spectypes.PARSER_FUNC_PARSE_DICTIONARY_OR_ORDERED:
		if len(args) >= 2 && rng.Intn(4) == 0 {
			// positional params written as "name<sep>value" strings, well-formed and not: the bare property name, an
			// empty value, an empty name, a second separator, another name
			name, sep := args[0], args[1]
			forms := []string{name + sep + blkPH, name, name + sep, sep + blkPH, name + sep + blkPH + sep + "x", "x" + name + sep + blkPH, name + name}
			n := 1 + rng.Intn(3)
			a := make([]any, n)
			for i := range a {
				if rng.Intn(3) == 0 {
					a[i] = fill()
				} else {
					a[i] = forms[rng.Intn(len(forms))]
				}
			}
			p = a
			break
		}
		if api.BP.ParserFunc == spectypes.PARSER_FUNC_PARSE_DICTIONARY_OR_ORDERED {
			k := 0
			if len(args) >= 3 {
				k, _ = strconv.Atoi(args[2])
			}
			switch rng.Intn(3) {
			case 0:
				p = map[string]any{first(args): blkPH}
			case 1:
				a := arrTo(k)
				a[k] = blkPH
				p = a
			default:
				p = []any{map[string]any{first(args): blkPH}}
			}
			break
		}
		if len(args) >= 2 && rng.Intn(2) == 0 {
			p = []any{fill(), args[0] + args[1] + blkPH}
		} else {
			p = map[string]any{first(args): blkPH}
		}
	default:
		switch rng.Intn(4) {
		case 0:
			p = []any{}
		case 1:
			p = []any{fill(), fill()}
		case 2:
			p = map[string]any{"a": fill()}
		default:
			p = nil
		}
	}
	if len(api.Parsers) > 0 && rng.Intn(2) == 0 {
		gp := api.Parsers[rng.Intn(len(api.Parsers))]
		var leaf any = blkPH
		switch gp.ParseType {
		case spectypes.PARSER_TYPE_BLOCK_HASH:
			leaf = "0x" + strings.Repeat("ab", 32)
			if rng.Intn(3) == 0 {
				leaf = strings.Repeat("Qm", 22)
			}
		case spectypes.PARSER_TYPE_DEFAULT_VALUE:
			leaf = "final"
			if i := strings.Index(gp.Rule, "="); i >= 0 {
				leaf = strings.TrimSpace(strings.Split(gp.Rule[i+1:], "||")[0])
			}
		}
		p = setPath(p, gp.ParsePath, leaf)
	}
	return p
}

func first(a []string) string {
	if len(a) == 0 {
		return ""
	}
	return a[0]
}

func marshal(v any) string {
	b, err := json.Marshal(v)
	if err != nil {
		return "null"
	}
	return string(b)
}

// replace the placeholder (inside a JSON text) by a raw token
func putBlock(jsonText, tok string) string {
	// placeholder alone as a string value
	out := strings.ReplaceAll(jsonText, `"`+blkPH+`"`, tok)
	// placeholder embedded in a longer string ("height=@@BLK@@"): use the token's bare text
	bare := strings.Trim(tok, `"`)
	return strings.ReplaceAll(out, blkPH, strings.ReplaceAll(bare, `"`, ``))
}

func bareTok(tok string) string {
	var s string
	if json.Unmarshal([]byte(tok), &s) == nil {
		return s
	}
	return tok
}

var tmplRe = regexp.MustCompile(`{[^}]+}`)

// valid request for `api`; blockTok is the raw JSON token used as the block (valid or hostile)
func (g *gen) request(api apiInfo, rng *rand.Rand, blockTok string, id string) input {
	in := input{Base: api.Name, Conn: api.Conn}
	switch g.iface {
	case "jsonrpc":
		in.Url = "/"
		if api.Internal != "" {
			in.Url = api.Internal
		}
		in.Text = putBlock(`{"jsonrpc":"2.0","id":`+id+`,"method":`+marshal(api.Name)+`,"params":`+marshal(g.buildParams(api, rng))+`}`, blockTok)
	case "tendermintrpc":
		params := g.buildParams(api, rng)
		if m, ok := params.(map[string]any); (ok || params == nil) && rng.Intn(2) == 0 {
			// URI form: method?key=value
			q := []string{}
			for k, v := range m {
				q = append(q, url.QueryEscape(k)+"="+url.QueryEscape(strings.ReplaceAll(fmt.Sprint(v), blkPH, bareTok(blockTok))))
			}
			sort.Strings(q)
			in.Url = api.Name + "?" + strings.Join(q, "&")
		} else {
			in.Text = putBlock(`{"jsonrpc":"2.0","id":`+id+`,"method":`+marshal(api.Name)+`,"params":`+marshal(params)+`}`, blockTok)
		}
	case "rest":
		path := api.Name
		blockUsed := false
		args := api.BP.ParserArg
		prop := ""
		if api.BP.ParserFunc == spectypes.PARSER_FUNC_PARSE_DICTIONARY || api.BP.ParserFunc == spectypes.PARSER_FUNC_PARSE_DICTIONARY_OR_ORDERED {
			prop = first(args)
		}
		if api.BP.ParserFunc == spectypes.PARSER_FUNC_PARSE_CANONICAL && len(args) > 0 {
			prop = args[len(args)-1]
		}
		for _, gp := range api.Parsers {
			if gp.ParseType == spectypes.PARSER_TYPE_BLOCK_LATEST && strings.HasPrefix(gp.ParsePath, ".params.") && prop == "" {
				prop = strings.TrimPrefix(gp.ParsePath, ".params.")
			}
		}
		path = tmplRe.ReplaceAllStringFunc(path, func(m string) string {
			if strings.Trim(m, "{}") == prop {
				blockUsed = true
				return url.PathEscape(bareTok(blockTok))
			}
			return restFill[rng.Intn(len(restFill))]
		})
		q := []string{}
		if prop != "" && !blockUsed {
			q = append(q, url.QueryEscape(prop)+"="+url.QueryEscape(bareTok(blockTok)))
		}
		if rng.Intn(4) == 0 {
			q = append(q, "pagination.limit=5")
		}
		if len(q) > 0 {
			path += "?" + strings.Join(q, "&")
		}
		in.Url = path
		if api.Conn == "POST" {
			body := map[string]any{"value": "x", "visible": true}
			if prop != "" {
				body[prop] = blkPH
			}
			in.Text = putBlock(marshal(body), blockTok)
		}
	case "grpc":
		in.Url = api.Name
		prop := ""
		if api.BP.ParserFunc == spectypes.PARSER_FUNC_PARSE_DICTIONARY || api.BP.ParserFunc == spectypes.PARSER_FUNC_PARSE_DICTIONARY_OR_ORDERED {
			prop = first(api.BP.ParserArg)
		}
		switch rng.Intn(4) {
		case 0:
			in.Text = ""
		case 1: // protobuf: field 1 varint, field 2 string
			in.Data = []byte{0x08, byte(rng.Intn(120)), 0x12, 0x03, 'a', 'b', 'c'}
		default:
			body := map[string]any{"address": restFill[0]}
			if prop != "" {
				body[prop] = blkPH
			}
			in.Text = putBlock(marshal(body), blockTok)
		}
	}
	if len(g.headers) > 0 && rng.Intn(4) == 0 {
		in.Meta = append(in.Meta, [2]string{g.headers[rng.Intn(len(g.headers))], bareTok(blockTok)})
	}
	if in.Data == nil {
		in.Data = []byte(in.Text)
	}
	in.Text = ""
	return in
}

var ops = []string{"valid", "valid-batch", "number-forms", "odd-block-tags", "truncate", "byte-flip", "deep-nesting", "duplicate-keys", "invalid-utf8",
	"mixed-batch", "huge-array", "type-confusion", "url-mangle", "grpc-path-mangle", "conn-mangle", "header-mangle", "random-bytes", "prefix-bom-ws"}

var opWeights = []int{14, 6, 13, 9, 8, 10, 2, 4, 5, 5, 1, 6, 8, 6, 3, 4, 3, 2}

func (g *gen) batchCapable() bool { return g.iface == "jsonrpc" || g.iface == "tendermintrpc" }

// make produces input #i of the stream of (seed, spec, iface)
func (g *gen) make(seed int64, i int) input {
	rng := vrand.Sub(seed, "c38|"+g.spec+"|"+g.iface, i)
	latest := []uint64{0, 50, 1_000_000, 20_000_000}[rng.Intn(4)]
	pickAPI := func() apiInfo { return g.apis[rng.Intn(len(g.apis))] }
	vb := func() string {
		if latest >= 1000 && rng.Intn(4) == 0 { // blocks around the head the consumer knows
			b := latest - []uint64{0, 1, 50, 125, 126, 127, 128, 500}[rng.Intn(8)] + uint64(rng.Intn(2))
			switch rng.Intn(3) {
			case 0:
				return fmt.Sprintf(`"0x%x"`, b)
			case 1:
				return fmt.Sprintf(`%d`, b)
			}
			return fmt.Sprintf(`"%d"`, b)
		}
		return validBlocks[rng.Intn(len(validBlocks))]
	}
	var in input
	op := ""
	if i < len(g.apis) { // first pass: one valid request per spec API
		op = "valid"
		in = g.request(g.apis[i], rng, vb(), "1")
	}
	for op == "" {
		cand := ops[vrand.Weighted(rng, opWeights)]
		api := pickAPI()
		switch cand {
		case "valid":
			in = g.request(api, rng, vb(), strconv.Itoa(1+rng.Intn(99)))
		case "valid-batch", "mixed-batch":
			if !g.batchCapable() {
				continue
			}
			n := 1 + rng.Intn(6)
			var parts []string
			url0 := ""
			for k := 0; k < n; k++ {
				a := pickAPI()
				if cand == "valid-batch" && rng.Intn(3) != 0 {
					// same collection as the first member most of the time
					for tries := 0; tries < 20 && (a.Addon != api.Addon || a.Internal != api.Internal); tries++ {
						a = pickAPI()
					}
				}
				r := g.request(a, rng, vb(), strconv.Itoa(k+1))
				if len(r.Data) == 0 { // tendermint URI form has no body
					r.Data = []byte(`{"jsonrpc":"2.0","id":` + strconv.Itoa(k+1) + `,"method":` + marshal(a.Name) + `,"params":{}}`)
				} else if url0 == "" {
					url0 = r.Url
				}
				parts = append(parts, string(r.Data))
			}
			if cand == "mixed-batch" {
				junk := []string{`1`, `null`, `"x"`, `{}`, `[]`, `[` + parts[0] + `]`, `{"jsonrpc":"2.0"}`, `{"method":5}`, `{"id":1,"result":"0x1"}`, `{"jsonrpc":"2.0","id":7,"method":"","params":[]}`, `true`, `{"jsonrpc":"2.0","id":1,"error":{"code":-1,"message":"m"}}`}
				for k := 0; k < 1+rng.Intn(3); k++ {
					pos := rng.Intn(len(parts) + 1)
					parts = append(parts[:pos], append([]string{junk[rng.Intn(len(junk))]}, parts[pos:]...)...)
				}
				if rng.Intn(8) == 0 {
					parts = nil // empty batch
				}
			}
			in = input{Base: api.Name, Conn: api.Conn, Url: url0, Data: []byte("[" + strings.Join(parts, ",") + "]")}
			if g.iface == "jsonrpc" && in.Url == "" {
				in.Url = "/"
			}
		case "number-forms":
			in = g.request(api, rng, numberForms[rng.Intn(len(numberForms))], "1")
		case "odd-block-tags":
			in = g.request(api, rng, oddTags[rng.Intn(len(oddTags))], "1")
		case "truncate":
			in = g.request(api, rng, vb(), "1")
			if len(in.Data) > 0 {
				in.Data = in.Data[:rng.Intn(len(in.Data))]
			} else if len(in.Url) > 0 {
				in.Url = in.Url[:rng.Intn(len(in.Url))]
			}
		case "byte-flip":
			in = g.request(api, rng, vb(), "1")
			onURL := len(in.Data) == 0 || ((g.iface == "rest" || g.iface == "grpc") && rng.Intn(2) == 0)
			buf := append([]byte(nil), in.Data...)
			if onURL {
				buf = []byte(in.Url)
			}
			for k, nflip := 0, 1+rng.Intn(4); k < nflip && len(buf) > 0; k++ {
				p := rng.Intn(len(buf))
				switch rng.Intn(3) {
				case 0:
					buf[p] ^= 1 << uint(rng.Intn(8))
				case 1:
					buf[p] = byte(rng.Intn(256))
				default:
					buf[p] = `{}[]",:\0-e.`[rng.Intn(12)]
				}
			}
			if onURL {
				in.Url = string(buf)
			} else {
				in.Data = buf
			}
		case "deep-nesting":
			d := []int{100, 1000, 10000}[rng.Intn(3)]
			var tok string
			switch rng.Intn(3) {
			case 0:
				tok = strings.Repeat("[", d) + strings.Repeat("]", d)
			case 1:
				tok = strings.Repeat(`{"a":`, d) + "1" + strings.Repeat("}", d)
			default:
				tok = strings.Repeat("[", d) // unbalanced
			}
			if rng.Intn(2) == 0 || !g.batchCapable() {
				in = g.request(api, rng, tok, "1")
			} else { // nesting around the whole request / as params
				in = g.request(api, rng, vb(), "1")
				in.Data = []byte(`{"jsonrpc":"2.0","id":1,"method":` + marshal(api.Name) + `,"params":` + tok + `}`)
			}
		case "duplicate-keys":
			in = g.request(api, rng, vb(), "1")
			if len(in.Data) > 2 && in.Data[0] == '{' {
				other := pickAPI()
				extra := []string{`"method":` + marshal(other.Name), `"params":[]`, `"params":{"height":"5"}`, `"id":2`, `"jsonrpc":"1.0"`, `"method":null`, `"height":"7"`, `"block":"9"`}[rng.Intn(8)]
				if rng.Intn(2) == 0 {
					in.Data = []byte(`{` + extra + `,` + string(in.Data[1:]))
				} else {
					in.Data = []byte(string(in.Data[:len(in.Data)-1]) + `,` + extra + `}`)
				}
			} else if strings.Contains(in.Url, "?") {
				in.Url += "&height=5&height=6&" + strings.SplitN(strings.SplitN(in.Url, "?", 2)[1], "&", 2)[0]
			} else {
				in.Url += "?height=5&height=77"
			}
		case "invalid-utf8":
			bad := []string{"\xff\xfe", "\xc3\x28", "\xed\xa0\x80", `\ud800`, `\udc00\ud800`, "\x00", "\xf8\x88\x80\x80\x80", "\u202e", "\ufeff"}[rng.Intn(9)]
			if rng.Intn(2) == 0 {
				in = g.request(api, rng, `"`+bad+`"`, "1")
			} else {
				in = g.request(api, rng, vb(), "1")
				if len(in.Data) > 0 {
					p := rng.Intn(len(in.Data))
					in.Data = []byte(string(in.Data[:p]) + bad + string(in.Data[p:]))
				} else {
					p := rng.Intn(len(in.Url) + 1)
					in.Url = in.Url[:p] + bad + in.Url[p:]
				}
			}
		case "huge-array":
			n := []int{20000, 100000}[rng.Intn(2)]
			if g.batchCapable() && rng.Intn(2) == 0 {
				one := string(g.request(api, rng, vb(), "1").Data)
				if one == "" {
					continue
				}
				m := 300 + rng.Intn(1200)
				in = input{Base: api.Name, Conn: api.Conn, Url: map[bool]string{true: "/", false: ""}[g.iface == "jsonrpc"], Data: []byte("[" + strings.Repeat(one+",", m-1) + one + "]")}
			} else {
				in = g.request(api, rng, "["+strings.Repeat("1,", n)+"1]", "1")
			}
		case "type-confusion":
			in = g.request(api, rng, vb(), "1")
			if g.batchCapable() {
				meth := []string{`5`, `null`, `[]`, `{}`, `true`, `""`, `"` + strings.Repeat("A", 5000) + `"`, marshal(api.Name + " "), marshal(strings.ToUpper(api.Name)), `"\u0000"`, marshal(api.Name + "&" + api.Name)}[rng.Intn(11)]
				par := []string{`"str"`, `5`, `true`, `null`, `[[]]`, `[null]`, `[{}]`, `{"":""}`, `"[1,2]"`, `[1.5e300]`, marshal(g.buildParams(api, rng))}[rng.Intn(11)]
				id := []string{`1`, `"a"`, `null`, `{}`, `[1]`, `1.5`, `-1`, `18446744073709551616`, `true`}[rng.Intn(9)]
				var fields []string
				if rng.Intn(8) != 0 {
					fields = append(fields, `"jsonrpc":`+[]string{`"2.0"`, `2`, `null`, `"1.0"`}[vrand.Weighted(rng, []int{7, 1, 1, 1})])
				}
				if rng.Intn(6) != 0 {
					fields = append(fields, `"id":`+id)
				}
				switch rng.Intn(3) {
				case 0:
					fields = append(fields, `"method":`+meth, `"params":`+putBlock(marshal(g.buildParams(api, rng)), vb()))
				case 1:
					fields = append(fields, `"method":`+marshal(api.Name), `"params":`+par)
				default:
					fields = append(fields, `"method":`+meth, `"params":`+par)
				}
				if rng.Intn(5) == 0 {
					fields = append(fields, `"error":{"code":1,"message":"x"}`, `"result":"0x5"`)
				}
				in.Data = []byte("{" + strings.Join(fields, ",") + "}")
				in.Url = map[bool]string{true: "/", false: ""}[g.iface == "jsonrpc"]
			} else {
				in.Data = []byte([]string{`5`, `null`, `[]`, `"x"`, `[{"height":"5"}]`, `{"height":{"a":1}}`, `{"height":[1,2]}`, `[[1]]`, `{`, `\x00`}[rng.Intn(10)])
			}
		case "url-mangle":
			in = g.request(api, rng, vb(), "1")
			base := in.Url
			if g.iface == "jsonrpc" && rng.Intn(2) == 0 {
				base = []string{"", "/", "//", "/ws", "/C/rpc", "/rpc/v0_8", "HTTP-ONLY", "WS-ONLY", "/../", "?x=1"}[rng.Intn(10)]
			}
			muts := []func(string) string{
				func(s string) string { return strings.ReplaceAll(s, "/", "//") },
				func(s string) string { return s + "/" },
				func(s string) string { return strings.TrimPrefix(s, "/") },
				func(s string) string { return "/.." + s + "/../x" },
				func(s string) string { return strings.Replace(s, "/", "%2F", 1+rng.Intn(3)) },
				func(s string) string { return s + "%00" },
				func(s string) string { return s + "%zz" },
				func(s string) string { return s + "%" },
				func(s string) string { return "http://host:80" + s },
				func(s string) string { return "a:b" + s },
				func(s string) string { return s + "#frag" },
				func(s string) string { return s + "?" },
				func(s string) string { return s + "?&&==&a" },
				func(s string) string { return s + "?height=1&height=2&height=latest" },
				func(s string) string {
					return s + "?height=" + url.QueryEscape(bareTok(numberForms[rng.Intn(len(numberForms))]))
				},
				func(s string) string {
					return s + "?block=" + url.QueryEscape(bareTok(oddTags[rng.Intn(len(oddTags))]))
				},
				func(s string) string { return s + "?" + strings.Repeat("k=v&", 3000) },
				func(s string) string { return s + "/" + strings.Repeat("A", 20000) },
				func(s string) string { return strings.ToUpper(s) },
				func(s string) string { return s + " " },
				func(s string) string { return " " + s },
				func(s string) string { return s + "\n" },
				func(s string) string { return s + "\x7f\x01" },
				func(s string) string { return s + "/日本語/%E2%82%AC" },
				func(s string) string { return s + ";jsessionid=1" },
				func(s string) string { return s + "?a=%" },
				func(s string) string { return strings.Replace(s, "/", "\\", 1) },
				func(s string) string {
					if j := strings.LastIndex(s, "/"); j > 0 {
						return s[:j]
					}
					return s
				},
				func(s string) string { return s + "/extra/segment" },
				func(s string) string { return "[::1" + s },
				func(s string) string { return s + "?height=%00" },
			}
			in.Url = muts[rng.Intn(len(muts))](base)
			if rng.Intn(4) == 0 {
				in.Url = muts[rng.Intn(len(muts))](in.Url)
			}
		case "grpc-path-mangle":
			if g.iface != "grpc" {
				continue
			}
			in = g.request(api, rng, vb(), "1")
			s := in.Url
			muts := []string{"/" + s, strings.ReplaceAll(s, "/", "."), strings.ReplaceAll(s, ".", "/"), "", "/", ".", s + "/", s + "/X", strings.ToLower(s), s + "x", "x" + s,
				strings.Replace(s, "Query", "Msg", 1), strings.Replace(s, "/", "//", 1), s + "?height=5", s + "\x00", strings.Repeat("a.", 5000) + "Q/M", "grpc.reflection.v1alpha.ServerReflection/ServerReflectionInfo",
				"cosmos.base.tendermint.v1beta1.Service/GetLatestBlock", "cosmos.base.tendermint.v1beta1.Service/GetBlockByHeight", strings.Replace(s, "/", " /", 1), s[:len(s)/2]}
			in.Url = muts[rng.Intn(len(muts))]
			if rng.Intn(3) == 0 { // binary junk as the message
				b := make([]byte, rng.Intn(64))
				rng.Read(b)
				in.Data = b
			}
		case "conn-mangle":
			in = g.request(api, rng, vb(), "1")
			in.Conn = []string{"GET", "POST", "", "PUT", "get", "post", "DELETE", "HEAD", "P\x00ST", strings.Repeat("G", 1000)}[rng.Intn(10)]
		case "header-mangle":
			in = g.request(api, rng, vb(), "1")
			names := append([]string{"x-cosmos-block-height", "grpc-metadata-x-cosmos-block-height", "X-Cosmos-Block-Height", "lava-extension", "lava-relay-timeout", "content-type", "", "\x00", "project_id"}, g.headers...)
			vals := []string{"5", "latest", "earliest", "-1", "abc", "", "0x10", "18446744073709551616", "9223372036854775807", "1e3", " 7", "\xff", strings.Repeat("9", 400), `"5"`}
			for k := 0; k < 1+rng.Intn(3); k++ {
				in.Meta = append(in.Meta, [2]string{names[rng.Intn(len(names))], vals[rng.Intn(len(vals))]})
			}
		case "random-bytes":
			in = g.request(api, rng, vb(), "1")
			b := make([]byte, rng.Intn(300))
			rng.Read(b)
			in.Data = b
			if rng.Intn(3) == 0 {
				u := make([]byte, rng.Intn(60))
				rng.Read(u)
				in.Url = string(u)
			}
		case "prefix-bom-ws":
			in = g.request(api, rng, vb(), "1")
			pre := []string{"\xef\xbb\xbf", " \t\r\n", "\xef\xbb\xbf\xef\xbb\xbf", "\ufeff ", "\x00", "//c\n", "\xef\xbb"}[rng.Intn(7)]
			in.Data = append([]byte(pre), in.Data...)
			if rng.Intn(3) == 0 {
				in.Data = append(in.Data, []byte([]string{"\n", " garbage", "{}", "\x00"}[rng.Intn(4)])...)
			}
		}
		op = cand
	}
	in.Idx, in.Op, in.Latest = i, op, latest
	return in
}
