//go:build verif

// C38 — request parsing is total and consistent on both sides.
//
// Parent (TestC38) splits the input stream of every (spec, interface) into shards and re-executes the test binary
// once per shard (TestC38Child). A child builds two real parsers (consumer-side and provider-side), generates its
// inputs from (seed, spec, interface, index), writes every input to <shard>.cur BEFORE handing it to ParseMsg, and
// checks:
//
//	totality     no panic (recover), no fatal exit / crash, no hang (child-side per-input watchdog => the parent re-runs
//	             the named input alone; only a reproduced hang is a violation, otherwise inconclusive)
//	well-formed  success => API != nil, API enabled, CU >= 1
//	agreement    the provider-side parse of the same (url, bytes, connection type), given the consumer's headers and the
//	             consumer's chosen extensions as ExtensionOverride with LatestBlock 0 (exactly what rpcprovider_server.go
//	             initRelay does), agrees on API name, CU, add-on and requested block.
package c38

import (
	"context"
	"encoding/json"
	"fmt"
	"os"
	"os/exec"
	"path/filepath"
	"regexp"
	"runtime"
	"runtime/debug"
	"sort"
	"strconv"
	"strings"
	"sync"
	"sync/atomic"
	"testing"
	"time"

	"github.com/lavanet/lava/v5/protocol/chainlib"
	"github.com/lavanet/lava/v5/protocol/chainlib/extensionslib"
	"github.com/lavanet/lava/v5/protocol/common"
	pairingtypes "github.com/lavanet/lava/v5/x/pairing/types"
	spectypes "github.com/lavanet/lava/v5/x/spec/types"

	"verif/internal/ev"
	"verif/proto/parsekit"
)

type combo struct{ Spec, Iface string }

var combos = []combo{
	{"ETH1", "jsonrpc"},
	{"LAVA", "rest"}, {"LAVA", "grpc"}, {"LAVA", "tendermintrpc"},
	{"COSMOSHUB", "rest"}, {"COSMOSHUB", "grpc"}, {"COSMOSHUB", "tendermintrpc"},
	{"NEAR", "jsonrpc"}, {"SOLANA", "jsonrpc"}, {"STRK", "jsonrpc"}, {"BTC", "jsonrpc"}, {"XRP", "jsonrpc"},
	{"APT1", "rest"}, {"TRX", "rest"}, {"TON", "rest"}, {"XLM", "rest"},
}

// inputs per (spec, interface): the REST matcher compiles one regexp per spec API on every call (several ms per
// parse), so REST streams are shorter; sizes are fixed by the tier
func streamSize(iface string, quick bool) int {
	q := map[string]int{"jsonrpc": 5500, "tendermintrpc": 4000, "grpc": 4000, "rest": 2000}
	th := map[string]int{"jsonrpc": 300000, "tendermintrpc": 200000, "grpc": 150000, "rest": 60000}
	if quick {
		return q[iface]
	}
	return th[iface]
}

const hangLimit = 40 * time.Second // one ParseMsg call on a <= 2 MB input; only a watchdog (=> inconclusive unless reproduced alone)

type violationRec struct {
	Rule, Sig, Desc string
	Witness         any
	Count           int
}

type childResult struct {
	Combo      combo
	Start, N   int
	Evals      int
	Success    int
	CleanFail  int
	Compared   int
	Ops        map[string]int
	OpsSuccess map[string]int
	Nontrivial []string
	Violations []violationRec
	ApisTotal  int
	ApisOK     int // spec APIs whose valid request parsed to a spec API (first pass, shard 0 only)
	ApisMissed []string
	Upto       int // inputs [Start, Upto) are covered by this (partial) result
	Samples    []any
}

// ------------------------------------------------------------------------------------------------ child

type child struct {
	cons, prov chainlib.ChainParser
	g          *gen
	res        *childResult
	viol       map[string]*violationRec
	nt         map[string]struct{}
	curPath    string
	started    atomic.Int64 // unix nano of the start of the running input (0 = idle)
	curIdx     atomic.Int64
}

func buildParsers(c combo) (cons, prov chainlib.ChainParser, closer func(), err error) {
	closer = func() {}
	if c.Iface != "grpc" {
		cons, _, err = parsekit.NewParser(c.Spec, c.Iface)
		if err != nil {
			return
		}
		prov, _, err = parsekit.NewParser(c.Spec, c.Iface)
		return
	}
	// gRPC needs the descriptor registry that the chain proxy installs (reflection against the node): the repo's own
	// mock wiring starts a local gRPC server with reflection and connects the parser to it.
	spec, e := parsekit.Spec(c.Spec)
	if e != nil {
		return nil, nil, closer, e
	}
	var closers []func()
	mk := func() (chainlib.ChainParser, error) {
		cp, _, _, cl, _, err := chainlib.CreateChainLibMocks(context.Background(), c.Spec, c.Iface, nil, nil, ev.RepoDir()+"/", nil)
		if cl != nil {
			closers = append(closers, cl)
		}
		if err != nil {
			return nil, err
		}
		parsekit.Quiet()
		return cp, cp.SetPolicy(parsekit.PolicyFor(spec, c.Iface), c.Spec, c.Iface)
	}
	closer = func() {
		for _, f := range closers {
			f()
		}
	}
	if cons, err = mk(); err != nil {
		return
	}
	prov, err = mk()
	return
}

func toMeta(m [][2]string) []pairingtypes.Metadata {
	if len(m) == 0 {
		return nil
	}
	out := make([]pairingtypes.Metadata, len(m))
	for i, kv := range m {
		out[i] = pairingtypes.Metadata{Name: kv[0], Value: kv[1]}
	}
	return out
}

var frameRe = regexp.MustCompile(`(?m)^(github\.com/lavanet/lava/v5/[^\s(]+(?:\([^)]*\))?[^\s(]*)\(`)

// the innermost lava frame below the panic, line numbers stripped
func panicSite(stack string) string {
	if i := strings.Index(stack, "panic("); i >= 0 {
		stack = stack[i:]
	}
	for _, m := range frameRe.FindAllStringSubmatch(stack, -1) {
		f := m[1]
		if strings.Contains(f, "verif/") {
			continue
		}
		return strings.TrimPrefix(f, "github.com/lavanet/lava/v5/")
	}
	for _, l := range strings.Split(stack, "\n") {
		l = strings.TrimSpace(l)
		if strings.Contains(l, "(") && !strings.HasPrefix(l, "panic(") && !strings.HasPrefix(l, "runtime") && !strings.HasPrefix(l, "/") && !strings.Contains(l, "verif/") {
			return l[:strings.Index(l, "(")]
		}
	}
	return "unknown"
}

type parsed struct {
	msg   chainlib.ChainMessage
	err   error
	panic string
	stack string
}

func safeParse(cp chainlib.ChainParser, in input, meta []pairingtypes.Metadata, ei extensionslib.ExtensionInfo) (p parsed) {
	defer func() {
		if r := recover(); r != nil {
			p = parsed{panic: fmt.Sprint(r), stack: string(debug.Stack())}
		}
	}()
	m, err := chainlib.ParseAndValidateMessage(cp, in.Url, in.Data, in.Conn, meta, ei)
	return parsed{msg: m, err: err}
}

func blockKind(b int64) string {
	switch {
	case b >= 0:
		return "numeric"
	case b == spectypes.NOT_APPLICABLE:
		return "n/a"
	case b == spectypes.LATEST_BLOCK:
		return "latest"
	case b == spectypes.EARLIEST_BLOCK:
		return "earliest"
	case b == spectypes.PENDING_BLOCK:
		return "pending"
	case b == spectypes.SAFE_BLOCK:
		return "safe"
	case b == spectypes.FINALIZED_BLOCK:
		return "finalized"
	}
	return "other-negative"
}

func (c *child) violation(rule, sig, desc string, in input, extra map[string]any) {
	key := rule + " | " + sig
	if v, ok := c.viol[key]; ok {
		v.Count++
		return
	}
	w := map[string]any{"spec": c.g.spec, "interface": c.g.iface, "input": witnessInput(in)}
	for k, v := range extra {
		w[k] = v
	}
	c.viol[key] = &violationRec{Rule: rule, Sig: sig, Desc: desc, Witness: w, Count: 1}
}

func witnessInput(in input) map[string]any {
	w := map[string]any{"idx": in.Idx, "op": in.Op, "base_api": in.Base, "url": in.Url, "conn": in.Conn, "meta": in.Meta, "latest_block": in.Latest, "data_base64": in.Data}
	if len(in.Data) <= 4000 {
		w["data_text"] = string(in.Data)
	} else {
		w["data_text_head"] = string(in.Data[:2000])
		w["data_len"] = len(in.Data)
	}
	return w
}

func apiClass(name string) string {
	parts := strings.Split(name, "&")
	for _, p := range parts {
		if p == "eth_call" {
			return "contains-eth_call"
		}
	}
	if len(parts) > 1 {
		return "batch"
	}
	if strings.HasPrefix(name, chainlib.DefaultApiName) {
		return "default-api"
	}
	return "spec-api"
}

func (c *child) runOne(in input) {
	c.res.Evals++
	c.res.Ops[in.Op]++
	meta := toMeta(in.Meta)
	p1 := safeParse(c.cons, in, meta, extensionslib.ExtensionInfo{LatestBlock: in.Latest})
	if p1.panic != "" {
		site := panicSite(p1.stack)
		c.violation("panic-in-parse", c.g.iface+"|consumer|"+site, fmt.Sprintf("ParseMsg panicked: %s", p1.panic), in, map[string]any{"panic": p1.panic, "stack": p1.stack})
		return
	}
	if p1.err != nil {
		c.res.CleanFail++
		if in.Op == "valid" && in.Idx < len(c.g.apis) {
			c.res.ApisMissed = append(c.res.ApisMissed, in.Base+": "+p1.err.Error())
		}
		return
	}
	c.res.Success++
	c.res.OpsSuccess[in.Op]++
	m1 := p1.msg
	api := m1.GetApi()
	if api == nil {
		c.violation("success-without-api", c.g.iface, "ParseMsg returned success with a nil API", in, nil)
		return
	}
	if !api.Enabled {
		c.violation("success-with-disabled-api", c.g.iface+"|"+apiClass(api.Name), fmt.Sprintf("ParseMsg succeeded with disabled API %q", api.Name), in, nil)
	}
	if api.ComputeUnits < 1 {
		c.violation("success-with-zero-cu", c.g.iface+"|"+apiClass(api.Name), fmt.Sprintf("ParseMsg succeeded with API %q and %d compute units", api.Name, api.ComputeUnits), in, nil)
	}
	l1, e1 := m1.RequestedBlock()
	ext1 := common.GetExtensionNames(m1.GetExtensions())
	addon1 := chainlib.GetAddon(m1)
	if in.Op == "valid" && in.Idx < len(c.g.apis) {
		if strings.HasPrefix(api.Name, chainlib.DefaultApiName) {
			c.res.ApisMissed = append(c.res.ApisMissed, in.Base+": resolved to "+api.Name)
		} else {
			c.res.ApisOK++
		}
	}
	sort.Strings(ext1)
	name := api.Name
	if len(name) > 80 {
		name = name[:80]
	}
	c.nt[fmt.Sprintf("%s|%s|%s|%s|%s|%v", c.g.spec, c.g.iface, in.Op, name, blockKind(l1), ext1)] = struct{}{}

	// provider side: same bytes, consumer's outgoing headers, consumer's extensions as override, latest block 0
	override := common.GetExtensionNames(m1.GetExtensions())
	if override == nil {
		override = []string{}
	}
	var meta2 []pairingtypes.Metadata
	if rm := m1.GetRPCMessage(); rm != nil {
		meta2 = rm.GetHeaders()
	}
	p2 := safeParse(c.prov, in, meta2, extensionslib.ExtensionInfo{LatestBlock: 0, ExtensionOverride: override})
	if p2.panic != "" {
		site := panicSite(p2.stack)
		c.violation("panic-in-parse", c.g.iface+"|provider|"+site, fmt.Sprintf("provider-side ParseMsg panicked: %s", p2.panic), in, map[string]any{"panic": p2.panic, "stack": p2.stack})
		return
	}
	cons := map[string]any{"api": api.Name, "cu": api.ComputeUnits, "addon": addon1, "latest": l1, "earliest": e1, "extensions": ext1}
	if p2.err != nil {
		c.violation("provider-rejects-what-consumer-parsed", c.g.iface+"|"+apiClass(api.Name), fmt.Sprintf("consumer parsed %q, provider failed: %v", api.Name, p2.err), in, map[string]any{"consumer": cons, "provider_error": p2.err.Error()})
		return
	}
	c.res.Compared++
	m2 := p2.msg
	api2 := m2.GetApi()
	if api2 == nil {
		c.violation("success-without-api", c.g.iface+"|provider", "provider-side ParseMsg returned success with a nil API", in, nil)
		return
	}
	l2, e2 := m2.RequestedBlock()
	ext2 := common.GetExtensionNames(m2.GetExtensions())
	sort.Strings(ext2)
	addon2 := chainlib.GetAddon(m2)
	prov := map[string]any{"api": api2.Name, "cu": api2.ComputeUnits, "addon": addon2, "latest": l2, "earliest": e2, "extensions": ext2}
	extra := map[string]any{"consumer": cons, "provider": prov, "provider_extension_override": override}
	extNote := "same-extensions"
	if fmt.Sprint(ext1) != fmt.Sprint(ext2) {
		extNote = fmt.Sprintf("consumer-ext=%v,provider-ext=%v", ext1, ext2)
	}
	if api.Name != api2.Name {
		cls := "other"
		if c.g.iface == "rest" {
			cls = "url-matches-several-spec-templates"
			for _, n := range []string{api.Name, api2.Name} {
				if strings.HasPrefix(n, chainlib.DefaultApiName) {
					cls = "other"
				}
			}
		}
		c.violation("consumer-provider-disagree", c.g.iface+"|api-name|"+cls, fmt.Sprintf("consumer parsed API %q, provider parsed API %q", api.Name, api2.Name), in, extra)
		return
	}
	if addon1 != addon2 {
		c.violation("consumer-provider-disagree", c.g.iface+"|add-on|"+apiClass(api.Name), fmt.Sprintf("API %q: consumer add-on %q, provider add-on %q", api.Name, addon1, addon2), in, extra)
	}
	if api.ComputeUnits != api2.ComputeUnits {
		c.violation("consumer-provider-disagree", c.g.iface+"|compute-units|"+apiClass(api.Name)+"|"+extNote, fmt.Sprintf("API %q: consumer CU %d (extensions %v), provider CU %d (extensions %v)", api.Name, api.ComputeUnits, ext1, api2.ComputeUnits, ext2), in, extra)
	}
	if l1 != l2 || e1 != e2 {
		c.violation("consumer-provider-disagree", fmt.Sprintf("%s|requested-block|%s|consumer=%s/%s,provider=%s/%s", c.g.iface, apiClass(api.Name), blockKind(l1), blockKind(e1), blockKind(l2), blockKind(e2)),
			fmt.Sprintf("API %q: consumer requested block (%d,%d), provider (%d,%d)", api.Name, l1, e1, l2, e2), in, extra)
	}
	if len(c.res.Samples) < 3 && in.Op != "valid" && c.res.Evals%97 == 0 {
		c.res.Samples = append(c.res.Samples, map[string]any{"input": witnessInput(in), "consumer": cons, "provider": prov})
	}
}

func (c *child) writeCur(in input) {
	b, _ := json.Marshal(in)
	f, err := os.OpenFile(c.curPath, os.O_WRONLY|os.O_CREATE|os.O_TRUNC, 0o644)
	if err != nil {
		panic(err)
	}
	f.Write(b)
	f.Close()
}

func TestC38Child(t *testing.T) {
	shard := os.Getenv("VERIF_C38_SHARD")
	if shard == "" {
		t.Skip("child entry point of TestC38")
	}
	// shard = spec|iface|start|count|prefix ; isolate = path of a .cur file to run alone
	f := strings.Split(shard, "|")
	cb := combo{f[0], f[1]}
	start, _ := strconv.Atoi(f[2])
	n, _ := strconv.Atoi(f[3])
	prefix := f[4]
	seed, _ := strconv.ParseInt(os.Getenv("VERIF_SEED"), 10, 64)
	parsekit.Quiet()
	cons, prov, closer, err := buildParsers(cb)
	if err != nil {
		t.Fatalf("cannot build parsers for %v: %v", cb, err)
	}
	defer closer()
	parsekit.Quiet()
	spec, _ := parsekit.Spec(cb.Spec)
	c := &child{cons: cons, prov: prov, g: newGen(spec, cb.Iface), viol: map[string]*violationRec{}, nt: map[string]struct{}{}, curPath: prefix + ".cur",
		res: &childResult{Combo: cb, Start: start, N: n, Ops: map[string]int{}, OpsSuccess: map[string]int{}}}
	c.res.ApisTotal = len(c.g.apis)
	if len(c.g.apis) == 0 {
		t.Fatalf("%v has no enabled APIs", cb)
	}
	finish := func(upto int, file string) {
		c.res.Upto = upto
		c.res.Nontrivial, c.res.Violations = nil, nil
		for k := range c.nt {
			c.res.Nontrivial = append(c.res.Nontrivial, k)
		}
		sort.Strings(c.res.Nontrivial)
		keys := make([]string, 0, len(c.viol))
		for k := range c.viol {
			keys = append(keys, k)
		}
		sort.Strings(keys)
		for _, k := range keys {
			c.res.Violations = append(c.res.Violations, *c.viol[k])
		}
		b, _ := json.Marshal(c.res)
		os.WriteFile(prefix+file+".tmp", b, 0o644)
		os.Rename(prefix+file+".tmp", prefix+file)
	}
	// per-input watchdog: names the input and leaves
	go func() {
		for {
			time.Sleep(500 * time.Millisecond)
			st := c.started.Load()
			if st != 0 && time.Since(time.Unix(0, st)) > hangLimit {
				os.WriteFile(prefix+".hang", []byte(strconv.FormatInt(c.curIdx.Load(), 10)), 0o644)
				os.Exit(3)
			}
		}
	}()
	var inputs []input
	if iso := os.Getenv("VERIF_C38_ISOLATE"); iso != "" {
		b, err := os.ReadFile(iso)
		if err != nil {
			t.Fatal(err)
		}
		var in input
		if err := json.Unmarshal(b, &in); err != nil {
			t.Fatal(err)
		}
		inputs = []input{in}
	}
	run := func(in input) {
		c.writeCur(in)
		c.curIdx.Store(int64(in.Idx))
		c.started.Store(time.Now().UnixNano())
		c.runOne(in)
		c.started.Store(0)
	}
	if inputs != nil {
		for _, in := range inputs {
			run(in)
		}
	} else {
		for i := start; i < start+n; i++ {
			run(c.g.make(seed, i))
			if (i-start)%250 == 249 {
				finish(i+1, ".part")
			}
		}
	}
	finish(start+n, ".done")
}

// ------------------------------------------------------------------------------------------------ parent

type shardJob struct {
	cb       combo
	start, n int
	prefix   string
}

func runChild(env []string, logPath string, overall time.Duration) (exit int, timedOut bool) {
	ctx, cancel := context.WithTimeout(context.Background(), overall)
	defer cancel()
	cmd := exec.CommandContext(ctx, os.Args[0], "-test.run", "^TestC38Child$", "-test.count=1", "-test.timeout=0")
	cmd.Env = append(append(os.Environ(), "VERIF_SEED="+os.Getenv("VERIF_C38_SEED"), "GOMAXPROCS=2"), env...)
	lf, err := os.Create(logPath)
	if err == nil {
		cmd.Stdout, cmd.Stderr = lf, lf
		defer lf.Close()
	}
	err = cmd.Run()
	if ctx.Err() != nil {
		return -1, true
	}
	if err != nil {
		if ee, ok := err.(*exec.ExitError); ok {
			return ee.ExitCode(), false
		}
		return -2, false
	}
	return 0, false
}

func tail(path string, n int) string {
	b, _ := os.ReadFile(path)
	if len(b) > n {
		b = b[len(b)-n:]
	}
	return string(b)
}

func TestC38(t *testing.T) {
	run := ev.Start("C38")
	chunk := run.Pick(1000, 10000)
	dir := filepath.Join(ev.Dir(), ".out", "c38", fmt.Sprintf("%s-%d", run.Tier, run.Seed))
	os.RemoveAll(dir)
	if err := os.MkdirAll(dir, 0o755); err != nil {
		t.Fatal(err)
	}
	os.Setenv("VERIF_C38_SEED", strconv.FormatInt(run.Seed, 10))
	var jobs []shardJob
	sizes := map[string]int{}
	total := 0
	for _, cb := range combos {
		perCombo := streamSize(cb.Iface, run.Quick())
		sizes[cb.Spec+"/"+cb.Iface] = perCombo
		total += perCombo
		for s := 0; s < perCombo; s += chunk {
			n := chunk
			if s+n > perCombo {
				n = perCombo - s
			}
			jobs = append(jobs, shardJob{cb, s, n, filepath.Join(dir, fmt.Sprintf("%s-%s-%07d", cb.Spec, cb.Iface, s))})
		}
	}
	par := runtime.NumCPU()
	if par > 12 {
		par = 12
	}
	run.Set("inputs_per_spec_interface", sizes)
	run.Set("inputs_total", total)
	run.Set("shard_size", chunk)
	run.Set("children", len(jobs))
	overall := time.Duration(run.Pick(600, 1800)) * time.Second

	type comboStat struct {
		success, fail, compared, apisTotal, apisOK int
		missed                                     []string
	}
	stats := map[combo]*comboStat{}
	opsSeen, opsSuccess := map[string]int{}, map[string]int{}
	var mu sync.Mutex
	merge := func(r *childResult) {
		mu.Lock()
		defer mu.Unlock()
		run.Eval(r.Evals)
		st := stats[r.Combo]
		if st == nil {
			st = &comboStat{}
			stats[r.Combo] = st
		}
		st.success += r.Success
		st.fail += r.CleanFail
		st.compared += r.Compared
		if r.ApisTotal > st.apisTotal {
			st.apisTotal = r.ApisTotal
		}
		st.apisOK += r.ApisOK
		st.missed = append(st.missed, r.ApisMissed...)
		for k, v := range r.Ops {
			opsSeen[k] += v
		}
		for k, v := range r.OpsSuccess {
			opsSuccess[k] += v
		}
		for _, s := range r.Nontrivial {
			run.Nontrivial(s)
		}
		for _, v := range r.Violations {
			for i := 0; i < v.Count && i < 1; i++ {
				run.Violation(v.Rule, v.Sig, v.Desc, v.Witness)
			}
			run.Count("violation-instances:"+v.Rule, v.Count)
		}
		for _, s := range r.Samples {
			run.Sample(s)
		}
	}
	brokenChildren := 0
	readResult := func(path string) *childResult {
		b, err := os.ReadFile(path)
		if err != nil {
			return nil
		}
		var r childResult
		if json.Unmarshal(b, &r) != nil {
			return nil
		}
		return &r
	}
	readCur := func(prefix string) (input, bool) {
		var in input
		b, err := os.ReadFile(prefix + ".cur")
		if err != nil || json.Unmarshal(b, &in) != nil {
			return in, false
		}
		return in, true
	}

	shardEnv := func(j shardJob, isolate string) []string {
		return []string{"VERIF_C38_SHARD=" + fmt.Sprintf("%s|%s|%d|%d|%s", j.cb.Spec, j.cb.Iface, j.start, j.n, j.prefix), "VERIF_C38_ISOLATE=" + isolate}
	}
	siteRe := regexp.MustCompile(`(?m)(fatal error: [^\n]{0,70}|panic: [^\n]{0,70}|FTL [^\n=]{0,70})`)
	// a crashed / hung child names its input; that input is re-run alone, then the unfinished parts of the shard are run
	runShard := func(j shardJob) {
		queue := []shardJob{j}
		crashes := 0
		for len(queue) > 0 {
			cur := queue[0]
			queue = queue[1:]
			exit, timedOut := runChild(shardEnv(cur, ""), cur.prefix+".log", overall)
			if r := readResult(cur.prefix + ".done"); r != nil && exit == 0 {
				merge(r)
				continue
			}
			crashes++
			in, ok := readCur(cur.prefix)
			_, hangErr := os.Stat(cur.prefix + ".hang")
			kind := "fatal-exit"
			if hangErr == nil || timedOut {
				kind = "hang"
			}
			if !ok {
				mu.Lock()
				brokenChildren++
				run.Inconclusive(fmt.Sprintf("child %s exited %d without result and without a current input; log tail: %s", filepath.Base(cur.prefix), exit, tail(cur.prefix+".log", 600)))
				mu.Unlock()
				continue
			}
			upto := cur.start
			if part := readResult(cur.prefix + ".part"); part != nil && part.Upto > cur.start && part.Upto <= in.Idx {
				merge(part)
				upto = part.Upto
			}
			// reproduce alone
			iso := shardJob{cur.cb, 0, 0, cur.prefix + ".iso"}
			os.Rename(cur.prefix+".cur", iso.prefix+".input")
			exit2, timedOut2 := runChild(shardEnv(iso, iso.prefix+".input"), iso.prefix+".log", hangLimit+60*time.Second)
			_, hang2 := os.Stat(iso.prefix + ".hang")
			r2 := readResult(iso.prefix + ".done")
			switch {
			case r2 != nil && exit2 == 0:
				merge(r2)
				mu.Lock()
				run.Inconclusive(fmt.Sprintf("%s in shard %s at input #%d (%s) did not reproduce when the input was parsed alone", kind, filepath.Base(cur.prefix), in.Idx, in.Op))
				mu.Unlock()
			case hang2 == nil || timedOut2:
				mu.Lock()
				run.Eval(1)
				run.Violation("hang-in-parse", cur.cb.Iface+"|"+in.Op, fmt.Sprintf("ParseMsg did not return within %s (reproduced with the input alone)", hangLimit), map[string]any{"spec": cur.cb.Spec, "interface": cur.cb.Iface, "input": witnessInput(in)})
				mu.Unlock()
			default:
				lg := tail(iso.prefix+".log", 6000)
				site := "unknown"
				if m := siteRe.FindString(tail(iso.prefix+".log", 1<<20)); m != "" {
					site = strings.TrimSpace(strings.TrimSuffix(strings.TrimSpace(m), "StackTrace"))
				}
				mu.Lock()
				run.Eval(1)
				run.Violation("fatal-in-parse", cur.cb.Iface+"|"+site, fmt.Sprintf("the process died (exit %d) while parsing; reproduced with the input alone", exit2), map[string]any{"spec": cur.cb.Spec, "interface": cur.cb.Iface, "input": witnessInput(in), "log_tail": lg})
				mu.Unlock()
			}
			end := cur.start + cur.n
			if crashes > 30 {
				mu.Lock()
				run.Inconclusive(fmt.Sprintf("shard %s: more than 30 crashed/hung children, inputs #%d..#%d not run", filepath.Base(j.prefix), upto, end-1))
				mu.Unlock()
				break
			}
			if in.Idx >= cur.start && in.Idx < end {
				if in.Idx > upto {
					queue = append(queue, shardJob{cur.cb, upto, in.Idx - upto, fmt.Sprintf("%s.s%d", j.prefix, upto)})
				}
				if end > in.Idx+1 {
					queue = append(queue, shardJob{cur.cb, in.Idx + 1, end - in.Idx - 1, fmt.Sprintf("%s.s%d", j.prefix, in.Idx+1)})
				}
			}
		}
	}
	jobCh := make(chan shardJob)
	var wg sync.WaitGroup
	for w := 0; w < par; w++ {
		wg.Add(1)
		go func() {
			defer wg.Done()
			for j := range jobCh {
				runShard(j)
			}
		}()
	}
	for _, j := range jobs {
		jobCh <- j
	}
	close(jobCh)
	wg.Wait()

	for _, cb := range combos {
		st := stats[cb]
		name := cb.Spec + "/" + cb.Iface
		if st == nil {
			run.Require("results for "+name, false)
			continue
		}
		run.Count("success:"+name, st.success)
		run.Count("clean-failure:"+name, st.fail)
		run.Count("two-sided-comparisons:"+name, st.compared)
		run.Count("spec-apis:"+name, st.apisTotal)
		run.Count("spec-apis-valid-request-parsed:"+name, st.apisOK)
		run.Require(name+": some requests parsed", st.success > 0)
		run.Require(name+": some requests failed cleanly", st.fail > 0)
		run.Require(name+": two-sided comparisons ran", st.compared > 0)
		run.Require(fmt.Sprintf("%s: valid request parsed for >=90%% of the spec's APIs (%d/%d; missed: %v)", name, st.apisOK, st.apisTotal, st.missed), st.apisOK*10 >= st.apisTotal*9)
		if len(st.missed) > 0 {
			run.Set("apis-without-parsed-valid-request:"+name, st.missed)
		}
	}
	for _, op := range ops {
		run.Count("op:"+op, opsSeen[op])
		run.Count("op-parsed:"+op, opsSuccess[op])
		run.Require("mutation operator exercised: "+op, opsSeen[op] > 0)
	}
	run.Count("children-without-result", brokenChildren)
	run.Require("no child ended without a result and without naming an input", brokenChildren == 0)
	run.Finish("per (spec, interface) a seeded stream of requests: one valid request per spec API, then valid / batch / number forms / odd block tags / truncation / byte flips / nesting to 10000 / duplicate keys / invalid UTF-8 / mixed batches / huge arrays / type confusion / URL mangling / gRPC path mangling / connection-type and header mangling / random bytes / BOM+whitespace; each parsed by a consumer-side and a provider-side real parser in a child process (input written to disk first); non-trivial = the consumer-side parse succeeded, so the success oracle and the two-sided comparison were evaluated; distinct = distinct (spec, interface, operator, API name, requested-block class, extension set)",
		run.Pick(800, 5000),
		"both parsers carry a policy that allows every add-on and extension of the interface (SetPolicy)",
		"the provider-side parse gets the consumer's outgoing headers and extensions with LatestBlock 0, as rpcprovider_server.go initRelay does",
		"gRPC parsers take their descriptor registry from the repo's mock wiring (local reflection server), for the consumer side too",
		"a watchdog hit counts only when the same input hangs again alone; otherwise the run is inconclusive")
}
