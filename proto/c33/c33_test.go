//go:build verif

// Package c33: C33 — cross-validated responses reflect an agreeing quorum.
//
// Every (multiset of provider responses, agreement threshold, arrival order) case is fed through the
// real relaycore.RelayProcessor in CrossValidation mode (real UnifiedRelayStateMachine built by
// rpcconsumer.NewRelayStateMachine from the cross-validation headers, real UsedProviders, real REST
// chain message of the LAV1 spec so that "successful" / "node error" are classified by the code's own
// CheckResponseError), exactly as the consumer does it: SetResponse per provider, WaitForResults,
// ProcessingResult. The oracle is a multiset reference written from the statement.
package c33

import (
	"context"
	"fmt"
	"net/http"
	"sort"
	"strings"
	"testing"
	"time"

	"github.com/lavanet/lava/v5/protocol/chainlib"
	"github.com/lavanet/lava/v5/protocol/chainlib/extensionslib"
	"github.com/lavanet/lava/v5/protocol/common"
	"github.com/lavanet/lava/v5/protocol/lavaprotocol"
	"github.com/lavanet/lava/v5/protocol/lavasession"
	"github.com/lavanet/lava/v5/protocol/relaycore"
	"github.com/lavanet/lava/v5/protocol/rpcconsumer"
	"github.com/lavanet/lava/v5/utils"
	specutils "github.com/lavanet/lava/v5/utils/keeper"
	pairingtypes "github.com/lavanet/lava/v5/x/pairing/types"
	spectypes "github.com/lavanet/lava/v5/x/spec/types"

	"verif/internal/ev"
	"verif/internal/vrand"
)

// ---------------------------------------------------------------------------------------------
// response classes
//
//	"A".."D"  successful reply (HTTP 200, no transport error) carrying the bytes of group A..D
//	"e"       successful reply with an empty payload (nil or zero-length data)
//	"N"       node error (HTTP 500) with its own error body
//	"NA"      node error (HTTP 500) whose body is byte-identical to group A's data (must never count)
//	"P"       protocol error (transport error, no reply)
//	"PA"      protocol error that still carries a reply whose bytes equal group A's data
//
// Group payloads differ in one byte / trailing whitespace / key order only, so that anything weaker
// than byte identity (trimmed, parsed, prefix compare) would merge them.
var groupData = map[string][]byte{
	"A": []byte(`{"block":"100","hash":"aa"}`),
	"B": []byte(`{"block":"100","hash":"ab"}`),
	"C": []byte(`{"block":"100","hash":"aa"} `),
	"D": []byte(`{"hash":"aa","block":"100"}`),
}

var nodeErrBody = []byte(`{"message":"node is down","code":13}`)

type senderMock struct{}

func (senderMock) GetProcessingTimeout(chainlib.ChainMessage) (time.Duration, time.Duration) {
	return time.Hour, time.Hour
}
func (senderMock) GetChainIdAndApiInterface() (string, string) { return "LAV1", "rest" }
func (senderMock) ParseRelay(context.Context, string, string, string, string, string, []pairingtypes.Metadata) (chainlib.ProtocolMessage, error) {
	return nil, fmt.Errorf("not used")
}

type metricsMock struct{}

func (metricsMock) SetRelayNodeErrorMetric(string, string, string, string) {}
func (metricsMock) GetChainIdAndApiInterface() (string, string)            { return "LAV1", "rest" }

type world struct {
	parser  chainlib.ChainParser
	retries *lavaprotocol.RelayRetriesManager
}

func newWorld(t *testing.T) *world {
	spec, err := specutils.GetASpec("LAV1", ev.RepoDir()+"/", nil, nil)
	if err != nil {
		t.Fatalf("spec: %v", err)
	}
	cp, err := chainlib.NewChainParser(spectypes.APIInterfaceRest)
	if err != nil {
		t.Fatalf("parser: %v", err)
	}
	cp.SetSpec(spec)
	return &world{parser: cp, retries: lavaprotocol.NewRelayRetriesManager()}
}

type outcome struct {
	Err      bool   `json:"err"`
	ErrText  string `json:"err_text,omitempty"`
	HasReply bool   `json:"has_reply"`
	Data     string `json:"data"`
	Reported int    `json:"reported_agreement"`
	Consumed int    `json:"consumed"`
	WaitErr  bool   `json:"wait_err,omitempty"`
}

func mkResponse(label string, idx int) *relaycore.RelayResponse {
	prov := fmt.Sprintf("lava@p%d", idx)
	res := common.RelayResult{
		Request: &pairingtypes.RelayRequest{
			RelaySession: &pairingtypes.RelaySession{},
			RelayData:    &pairingtypes.RelayPrivateData{},
		},
		ProviderInfo: common.ProviderInfo{ProviderAddress: prov},
	}
	var rerr error
	switch label {
	case "e":
		res.StatusCode = 200
		if idx%2 == 0 {
			res.Reply = &pairingtypes.RelayReply{Data: nil, LatestBlock: 1}
		} else {
			res.Reply = &pairingtypes.RelayReply{Data: []byte{}, LatestBlock: 1}
		}
	case "N":
		res.StatusCode = 500
		res.Reply = &pairingtypes.RelayReply{Data: append([]byte(nil), nodeErrBody...)}
	case "NA":
		res.StatusCode = 500
		res.Reply = &pairingtypes.RelayReply{Data: append([]byte(nil), groupData["A"]...)}
	case "P":
		rerr = fmt.Errorf("connection refused by provider %d", idx)
	case "PA":
		rerr = fmt.Errorf("session out of sync %d", idx)
		res.Reply = &pairingtypes.RelayReply{Data: append([]byte(nil), groupData["A"]...)}
	default:
		res.StatusCode = 200
		res.Reply = &pairingtypes.RelayReply{Data: append([]byte(nil), groupData[label]...), LatestBlock: 1}
	}
	return &relaycore.RelayResponse{RelayResult: res, Err: rerr}
}

// runOrder drives one arrival order through a fresh real RelayProcessor.
func (w *world) runOrder(t *testing.T, order []string, threshold, maxParticipants int) (outcome, error) {
	ctx := context.Background()
	chainMsg, err := w.parser.ParseMsg("/cosmos/base/tendermint/v1beta1/blocks/17", nil, http.MethodGet, nil, extensionslib.ExtensionInfo{LatestBlock: 0})
	if err != nil {
		return outcome{}, err
	}
	headers := map[string]string{
		common.CROSS_VALIDATION_HEADER_MAX_PARTICIPANTS:    fmt.Sprint(maxParticipants),
		common.CROSS_VALIDATION_HEADER_AGREEMENT_THRESHOLD: fmt.Sprint(threshold),
	}
	pm := chainlib.NewProtocolMessage(chainMsg, headers, nil, "dapp", "127.0.0.1")
	used := lavasession.NewUsedProviders(nil)
	sm, err := rpcconsumer.NewRelayStateMachine(ctx, used, senderMock{}, pm, nil, false)
	if err != nil {
		return outcome{}, err
	}
	if sm.GetSelection() != relaycore.CrossValidation {
		return outcome{}, fmt.Errorf("selection is %v, not CrossValidation", sm.GetSelection())
	}
	rp := relaycore.NewRelayProcessor(ctx, sm.GetCrossValidationParams(), nil, metricsMock{}, metricsMock{}, w.retries, sm)

	lctx, cancel := context.WithTimeout(ctx, 2*time.Second)
	if err := used.TryLockSelection(lctx); err != nil {
		cancel()
		return outcome{}, err
	}
	cancel()
	sessions := lavasession.ConsumerSessionsMap{}
	for i := range order {
		sessions[fmt.Sprintf("lava@p%d", i)] = &lavasession.SessionInfo{}
	}
	used.AddUsed(sessions, nil)
	for i, label := range order {
		r := mkResponse(label, i)
		used.RemoveUsed(r.RelayResult.ProviderInfo.ProviderAddress, lavasession.NewRouterKey(nil), r.Err)
		rp.SetResponse(r)
	}
	// every response is already queued: WaitForResults returns by the code's own end-of-processing
	// rule (threshold reached or all sessions of the batch answered). The timeout is a watchdog.
	wctx, wcancel := context.WithTimeout(ctx, 5*time.Second)
	werr := rp.WaitForResults(wctx)
	wcancel()
	res, perr := rp.ProcessingResult()
	s, n, sp, p := rp.GetResults()
	out := outcome{Err: perr != nil, Consumed: s + n + sp + p, WaitErr: werr != nil}
	if perr != nil {
		out.ErrText = perr.Error()
		if len(out.ErrText) > 80 {
			out.ErrText = out.ErrText[:80]
		}
	}
	if res != nil {
		out.Reported = res.CrossValidation
		if res.Reply != nil {
			out.HasReply = true
			out.Data = string(res.Reply.Data)
		}
	}
	return out, nil
}

// ---------------------------------------------------------------------------------------------
// reference (from the statement): counts of byte-identical *successful* payloads
type tally struct {
	groups map[string]int // non-empty successful payload -> count
	empty  int            // successful empty payloads
	maxNE  int            // size of a largest non-empty group
}

func tallyOf(labels []string) tally {
	tl := tally{groups: map[string]int{}}
	for _, l := range labels {
		if d, ok := groupData[l]; ok {
			tl.groups[string(d)]++
		} else if l == "e" {
			tl.empty++
		}
	}
	for _, c := range tl.groups {
		if c > tl.maxNE {
			tl.maxNE = c
		}
	}
	return tl
}

func (tl tally) quorum(threshold int) bool { return tl.maxNE >= threshold || tl.empty >= threshold }

// distinct arrangements of a label multiset (lexicographic next-permutation)
func arrangements(labels []string, limit int) ([][]string, bool) {
	cur := append([]string(nil), labels...)
	sort.Strings(cur)
	var out [][]string
	for {
		out = append(out, append([]string(nil), cur...))
		if len(out) > limit {
			return nil, false
		}
		i := len(cur) - 2
		for i >= 0 && cur[i] >= cur[i+1] {
			i--
		}
		if i < 0 {
			return out, true
		}
		j := len(cur) - 1
		for cur[j] <= cur[i] {
			j--
		}
		cur[i], cur[j] = cur[j], cur[i]
		for a, b := i+1, len(cur)-1; a < b; a, b = a+1, b-1 {
			cur[a], cur[b] = cur[b], cur[a]
		}
	}
}

type caseDesc struct {
	Case      int      `json:"case"`
	Labels    []string `json:"multiset"`
	Threshold int      `json:"threshold"`
	MaxPart   int      `json:"max_participants"`
}

func genMultiset(rng interface{ Intn(int) int }, maxN int) []string {
	nW := []int{3, 8, 10, 10, 6, 2, 2, 2, 1, 1}[:maxN]
	n := 1 + weighted(rng, nW)
	var labels []string
	shape := rng.Intn(7)
	names := []string{"A", "B", "C", "D"}
	// shuffle group names so that every payload plays every role
	for i := len(names) - 1; i > 0; i-- {
		j := rng.Intn(i + 1)
		names[i], names[j] = names[j], names[i]
	}
	add := func(l string, k int) {
		for i := 0; i < k && len(labels) < n; i++ {
			labels = append(labels, l)
		}
	}
	switch shape {
	case 0: // tie between two (or three) groups
		k := 1 + rng.Intn(3)
		add(names[0], k)
		add(names[1], k)
		if rng.Intn(3) == 0 {
			add(names[2], k)
		}
	case 1: // majority + minority
		k := 2 + rng.Intn(3)
		add(names[0], k)
		add(names[1], 1+rng.Intn(k))
	case 2: // empties compete with a group
		add("e", 1+rng.Intn(3))
		add(names[0], 1+rng.Intn(3))
	case 3: // errors that look like the majority payload
		add("A", 1+rng.Intn(2))
		add("NA", 1+rng.Intn(3))
		add("PA", rng.Intn(2))
	case 4: // all distinct
		add(names[0], 1)
		add(names[1], 1)
		add(names[2], 1)
		add(names[3], 1)
	}
	pool := []string{"A", "B", "C", "D", "e", "e", "N", "NA", "P", "PA", "A", "B"}
	for len(labels) < n {
		labels = append(labels, pool[rng.Intn(len(pool))])
	}
	sort.Strings(labels)
	return labels
}

func weighted(rng interface{ Intn(int) int }, w []int) int {
	t := 0
	for _, x := range w {
		t += x
	}
	n := rng.Intn(t)
	for i, x := range w {
		if n < x {
			return i
		}
		n -= x
	}
	return len(w) - 1
}

func TestC33(t *testing.T) {
	run := ev.Start("C33")
	utils.SetGlobalLoggingLevel("fatal")
	w := newWorld(t)

	target := run.Pick(5000, 250000) // (multiset, threshold, order) executions
	maxN := run.Pick(8, 10)
	sampledOrders := run.Pick(40, 200)
	seenCase := map[string]bool{}
	executed := 0
	classSeen := map[string]int{}
	var earlyExit, earlyNonLargestOfAll, earlyEmptyWhileAllHasQuorum, tieCases, tieBothWays int

	for c := 0; executed < target && run.Violations() < 6 && c < target*4; c++ {
		rng := vrand.Sub(run.Seed, "c33", c)
		labels := genMultiset(rng, maxN)
		n := len(labels)
		maxPart := n + rng.Intn(2)
		full := tallyOf(labels)
		// thresholds: biased to the interesting boundary values, always within 1..maxParticipants
		cands := []int{1, full.maxNE, full.maxNE + 1, full.empty, full.empty + 1, maxPart, 1 + rng.Intn(maxPart)}
		var ths []int
		for _, x := range cands {
			if x >= 1 && x <= maxPart {
				ths = append(ths, x)
			}
		}
		threshold := ths[rng.Intn(len(ths))]
		key := fmt.Sprintf("%v|%d|%d", labels, threshold, maxPart)
		if seenCase[key] {
			continue
		}
		seenCase[key] = true
		cd := caseDesc{c, labels, threshold, maxPart}

		var orders [][]string
		exhaustive := false
		if n <= 6 {
			orders, exhaustive = arrangements(labels, 720)
		}
		if !exhaustive {
			seen := map[string]bool{}
			for k := 0; k < sampledOrders*3 && len(orders) < sampledOrders; k++ {
				o := append([]string(nil), labels...)
				rng.Shuffle(len(o), func(i, j int) { o[i], o[j] = o[j], o[i] })
				if s := strings.Join(o, ","); !seen[s] {
					seen[s] = true
					orders = append(orders, o)
				}
			}
		}
		if exhaustive {
			run.Count("multisets_all_orders", 1)
		} else {
			run.Count("multisets_sampled_orders", 1)
		}

		// a largest-group tie that matters: two different payloads share the maximum and reach the threshold
		tie := 0
		for _, cnt := range full.groups {
			if cnt == full.maxNE && cnt >= threshold {
				tie++
			}
		}
		winners := map[string]bool{}
		var okOrder, errOrder []string
		var okOut, errOut outcome
		for _, order := range orders {
			out, herr := w.runOrder(t, order, threshold, maxPart)
			if herr != nil {
				t.Fatalf("harness: %v", herr)
			}
			executed++
			run.Eval(1)
			if out.WaitErr {
				run.Inconclusive(fmt.Sprintf("WaitForResults watchdog fired for %v order %v", cd, order))
				continue
			}
			wit := map[string]any{"case": cd, "order": order, "outcome": out,
				"legend": "A-D identical-success groups, e empty success, N node error, NA node error with A's bytes, P protocol error, PA protocol error carrying A's bytes"}
			if out.Consumed < 1 || out.Consumed > n {
				run.Violation("harness-consumed-count", "consumed-out-of-range", fmt.Sprintf("consumed=%d of %d", out.Consumed, n), wit)
				continue
			}
			seen := tallyOf(order[:out.Consumed]) // responses the processor had taken in when it decided
			if out.Consumed < n {
				earlyExit++
			}
			for _, l := range order[:out.Consumed] {
				classSeen[l]++
			}
			if !out.Err {
				if !out.HasReply {
					run.Violation("success-without-reply", fmt.Sprintf("T=%d", threshold), "ProcessingResult returned no error and no reply", wit)
					continue
				}
				if len(out.Data) > 0 {
					cnt := seen.groups[out.Data]
					switch {
					case cnt < threshold:
						sig := "agreeing-successes<threshold"
						if cnt == 0 {
							sig = "returned-data-has-no-successful-copy"
						}
						run.Violation("returned-below-threshold", sig, fmt.Sprintf("returned %q backed by %d byte-identical successful responses, threshold %d", out.Data, cnt, threshold), wit)
					case cnt < seen.maxNE:
						run.Violation("returned-non-largest-group", "smaller-group-returned", fmt.Sprintf("returned group of %d while a group of %d identical non-empty responses was present", cnt, seen.maxNE), wit)
					}
					winners[out.Data] = true
					if full.groups[out.Data] < full.maxNE {
						earlyNonLargestOfAll++
					}
					classSeen["result:non-empty"]++
				} else {
					switch {
					case seen.empty < threshold:
						run.Violation("returned-below-threshold", "empty-successes<threshold", fmt.Sprintf("returned the empty response backed by %d empty successful responses, threshold %d", seen.empty, threshold), wit)
					case seen.maxNE >= threshold:
						run.Violation("empty-returned-despite-non-empty-quorum", "non-empty-group-reaches-threshold", fmt.Sprintf("returned the empty response while %d identical non-empty responses reach the threshold %d", seen.maxNE, threshold), wit)
					}
					if full.maxNE >= threshold {
						earlyEmptyWhileAllHasQuorum++
					}
					classSeen["result:empty"]++
				}
				okOrder, okOut = order, out
			} else {
				if seen.quorum(threshold) {
					run.Violation("error-despite-quorum", "quorum-among-processed-responses", fmt.Sprintf("error although %d identical non-empty / %d empty successful responses were processed, threshold %d", seen.maxNE, seen.empty, threshold), wit)
				}
				errOrder, errOut = order, out
				classSeen["result:error"]++
			}
			// non-trivial: the verdict needed discrimination — at least two response classes were
			// processed and the threshold lies within reach of the participants
			kinds := map[string]bool{}
			for _, l := range order[:out.Consumed] {
				kinds[l] = true
			}
			if len(kinds) >= 2 {
				run.Nontrivial(fmt.Sprintf("%d|%d|%s", threshold, maxPart, strings.Join(order, ",")))
			}
		}
		// arrival order must not flip success <-> error
		if okOrder != nil && errOrder != nil {
			run.Violation("verdict-depends-on-arrival-order", "success-vs-error", fmt.Sprintf("same responses, threshold %d: order %v succeeds, order %v fails", threshold, okOrder, errOrder),
				map[string]any{"case": cd, "order_success": okOrder, "outcome_success": okOut, "order_error": errOrder, "outcome_error": errOut})
		}
		if tie >= 2 {
			tieCases++
			if len(winners) >= 2 {
				tieBothWays++
			}
		}
		if c < 3 {
			run.Sample(map[string]any{"case": cd, "orders_run": len(orders), "all_orders": exhaustive})
		}
	}

	run.Count("early_exit_runs", earlyExit)
	run.Count("early_exit_returned_group_not_largest_of_all_sent", earlyNonLargestOfAll)
	run.Count("early_exit_returned_empty_while_all_sent_hold_non_empty_quorum", earlyEmptyWhileAllHasQuorum)
	run.Count("tie_cases", tieCases)
	run.Count("tie_cases_resolved_both_ways", tieBothWays)
	for k, v := range classSeen {
		run.Count("seen:"+k, v)
	}
	for _, k := range []string{"A", "B", "C", "D", "e", "N", "NA", "P", "PA", "result:non-empty", "result:empty", "result:error"} {
		run.Require("class exercised: "+k, classSeen[k] > 0)
	}
	run.Require("ties between equally large groups exercised", tieCases > 0)
	run.Require("early exit (threshold met before all responses) exercised", earlyExit > 0)
	run.Require("all-responses-processed runs exercised", executed > earlyExit)
	run.Finish("multisets of provider responses (1-4 groups of byte-identical successes whose payloads differ by one byte / trailing space / key order, empty payloads, node errors incl. ones with the majority's bytes, protocol errors incl. ones carrying the majority's bytes) x thresholds 1..max-participants x arrival orders (all distinct arrangements for <=6 responses, PRNG sample above) through the real RelayProcessor (SetResponse, WaitForResults, ProcessingResult); reference = multiset tally of the responses the processor had taken in when it decided (the prefix it consumed, read back from its own counters); non-trivial = at least two response classes were processed; distinct = distinct (threshold, max, order)",
		run.Pick(1500, 60000),
		"the quorum is judged over the responses the processor consumed before its own end-of-processing rule fired (threshold met or whole batch answered), as the consumer does; responses still in flight at that moment are not part of the multiset",
		"'Otherwise it returns an error' is read as a dichotomy: a quorum among the processed responses must yield a response",
		"successful = HTTP 200 reply without transport error as classified by the REST chain message's CheckResponseError; empty = nil or zero-length data")
}
