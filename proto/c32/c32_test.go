//go:build verif

// C32 — archive routing follows the configured block rule.
//
// Monitor: the predicate of the statement, transcribed literally (shouldArchive below, plain integer
// arithmetic, no unsigned subtraction), is compared with what the real code decides:
//
//	layer "parser":      GetExtensions() of messages parsed by the real JsonRPCChainParser (ETH1 spec as checked in, and
//	                     copies of it whose archive rule block is edited to 1 / 50 / 128 / 1000), no extension override;
//	layer "rule-object": the real extensionslib.ExtensionParser / ArchiveParserRule driven directly with a recording
//	                     message (more rule values; no method-specific clause there).
//
// The grid is complete: requested in {earliest, latest, pending, safe, finalized, none, 0..300, three big values} x
// latest in {0..400, 1e6} x rule x method. The thorough tier runs all of it (exhaustive: true), the quick tier a seeded
// subsample of the parser layer and all of the rule-object layer.
package c32

import (
	"fmt"
	"testing"

	"github.com/lavanet/lava/v5/protocol/chainlib"
	"github.com/lavanet/lava/v5/protocol/chainlib/extensionslib"
	spectypes "github.com/lavanet/lava/v5/x/spec/types"

	"verif/internal/ev"
	"verif/internal/vrand"
	"verif/proto/parsekit"
)

const (
	reqNone = int64(-1) // no specific block (parameter omitted / method without block parameter)
	LAT     = spectypes.LATEST_BLOCK
	EAR     = spectypes.EARLIEST_BLOCK
	PEN     = spectypes.PENDING_BLOCK
	SAF     = spectypes.SAFE_BLOCK
	FIN     = spectypes.FINALIZED_BLOCK
)

// shouldArchive is the statement:
//
//	marked  <=>  asks for the earliest block
//	          or asks for a specific block and ( latest unknown
//	                                            or more than `rule` blocks behind latest
//	                                            or eth_call more than 126 blocks behind latest )
//	never marked: latest / no specific block (and the other head tags, which are not specific blocks either)
func shouldArchive(ethCall bool, req int64, latest, rule uint64) (bool, string) {
	if req == EAR {
		return true, "asks-earliest"
	}
	if req < 0 {
		return false, "no-specific-block"
	}
	b := uint64(req)
	if latest == 0 {
		return true, "latest-unknown"
	}
	if b+rule < latest { // latest - b > rule, without unsigned subtraction
		return true, "beyond-rule-distance"
	}
	if ethCall && b+126 < latest {
		return true, "eth_call-beyond-126"
	}
	return false, "specific-block-within-distance"
}

func reqClass(req int64) string {
	switch {
	case req == EAR:
		return "earliest-tag"
	case req >= 0:
		return "numeric-block"
	case req == reqNone:
		return "no-block"
	}
	return "head-tag"
}

func latestClass(l uint64) string {
	switch {
	case l == 0:
		return "latest-unknown(0)"
	case l < 126:
		return "0<latest<126"
	}
	return "latest>=126"
}

func signature(layer, methodClass string, req int64, latest uint64, marked bool) string {
	dir := "marked-but-should-not"
	if !marked {
		dir = "not-marked-but-should"
	}
	return layer + "|" + methodClass + "|" + reqClass(req) + "|" + latestClass(latest) + "|" + dir
}

const addr = `"0x00000000219ab540356cbb839cbe05303d7705fa"`

func blockParam(b int64) string {
	switch b {
	case LAT:
		return `"latest"`
	case EAR:
		return `"earliest"`
	case PEN:
		return `"pending"`
	case SAF:
		return `"safe"`
	case FIN:
		return `"finalized"`
	}
	return fmt.Sprintf(`"0x%x"`, b)
}

var methods = []string{"eth_call", "eth_getBalance", "eth_getBlockByNumber", "eth_blockNumber"}

// request for (method, requested); second result = the block the request really asks for
// (eth_blockNumber has no block parameter: it always asks for the head)
func request(method string, req int64) (string, int64) {
	p := blockParam(req)
	var params string
	eff := req
	switch method {
	case "eth_call":
		params = `[{"to":` + addr + `,"data":"0x70a08231"}`
		if req != reqNone {
			params += "," + p
		}
		params += "]"
	case "eth_getBalance":
		params = `[` + addr
		if req != reqNone {
			params += "," + p
		}
		params += "]"
	case "eth_getBlockByNumber":
		if req != reqNone {
			params = `[` + p + `,false]`
		} else {
			params = `[]`
		}
	default:
		params = `[]`
		eff = LAT
	}
	return `{"jsonrpc":"2.0","id":1,"method":"` + method + `","params":` + params + `}`, eff
}

// recording message for the rule-object layer
type recMsg struct {
	lat, ear int64
	set      []string
}

func (m *recMsg) SetExtension(e *spectypes.Extension)  { m.set = append(m.set, e.Name) }
func (m *recMsg) RequestedBlock() (int64, int64)        { return m.lat, m.ear }

func TestC32(t *testing.T) {
	run := ev.Start("C32")
	parsekit.Quiet()
	base, err := parsekit.Spec("ETH1")
	if err != nil {
		t.Fatalf("ETH1 spec: %v", err)
	}
	var specRule uint64
	for _, c := range base.ApiCollections {
		if c.CollectionData.ApiInterface == "jsonrpc" && c.CollectionData.AddOn == "" {
			for _, e := range c.Extensions {
				if e.Name == extensionslib.ArchiveExtension && e.Rule != nil {
					specRule = e.Rule.Block
				}
			}
		}
	}
	if specRule == 0 {
		t.Fatalf("ETH1 has no archive extension with a positive rule")
	}
	run.Set("spec_rule_block", specRule)

	// requested-block axis and latest-block axis
	reqs := []int64{EAR, LAT, PEN, SAF, FIN, reqNone}
	for b := int64(0); b <= 300; b++ {
		reqs = append(reqs, b)
	}
	reqs = append(reqs, 999_000, 1_000_000, 5_000_000)
	var latests []uint64
	for l := uint64(0); l <= 400; l++ {
		latests = append(latests, l)
	}
	latests = append(latests, 1_000_000)

	// ------------------------------------------------------------------ layer 1: real parsers, rule as checked in + edited copies
	rules := []uint64{specRule, 1, 50, 128, 1000}
	parsers := make([]chainlib.ChainParser, len(rules))
	for i, r := range rules {
		sp, err := parsekit.CloneSpec(base)
		if err != nil {
			t.Fatal(err)
		}
		if i > 0 {
			for _, c := range sp.ApiCollections {
				for _, e := range c.Extensions {
					if e.Name == extensionslib.ArchiveExtension {
						e.Rule = &spectypes.Rule{Block: r}
					}
				}
			}
		}
		parsers[i], _, err = parsekit.NewParserForSpec(sp, "jsonrpc")
		if err != nil {
			t.Fatalf("parser for rule %d: %v", r, err)
		}
	}
	type reqInfo struct {
		data []byte
		eff  int64
	}
	reqTab := make([][]reqInfo, len(methods))
	for mi, m := range methods {
		reqTab[mi] = make([]reqInfo, len(reqs))
		for ri, r := range reqs {
			d, eff := request(m, r)
			reqTab[mi][ri] = reqInfo{[]byte(d), eff}
		}
	}
	total := len(rules) * len(methods) * len(reqs) * len(latests)
	run.Set("parser_grid_size", total)
	clauses := map[string]int{}
	outcome := map[string]int{} // methodClass|marked
	harnessOK := true
	young := 0

	evalCase := func(idx int) {
		li := idx % len(latests)
		ri := (idx / len(latests)) % len(reqs)
		mi := (idx / len(latests) / len(reqs)) % len(methods)
		ui := idx / len(latests) / len(reqs) / len(methods)
		L, rule, method := latests[li], rules[ui], methods[mi]
		ri0 := reqTab[mi][ri]
		var marked bool
		var lat, ear int64
		var perr error
		func() {
			defer func() {
				if p := recover(); p != nil {
					perr = fmt.Errorf("panic: %v", p)
					run.Violation("panic-in-parse", "jsonrpc", fmt.Sprint(p), map[string]any{"request": string(ri0.data), "latest_block": L, "rule": rule})
				}
			}()
			m, err := parsers[ui].ParseMsg("", ri0.data, "POST", nil, extensionslib.ExtensionInfo{LatestBlock: L})
			if err != nil {
				perr = err
				return
			}
			lat, ear = m.RequestedBlock()
			marked = parsekit.HasExtension(m.GetExtensions(), extensionslib.ArchiveExtension)
		}()
		run.Eval(1)
		if perr != nil || lat != ri0.eff || ear != ri0.eff {
			if harnessOK {
				run.Sample(map[string]any{"harness-mismatch": string(ri0.data), "intended": ri0.eff, "parsed_latest": lat, "parsed_earliest": ear, "err": fmt.Sprint(perr)})
			}
			harnessOK = false
			return
		}
		ethCall := method == "eth_call"
		want, clause := shouldArchive(ethCall, ri0.eff, L, rule)
		mc := "other-method"
		if ethCall {
			mc = "eth_call"
		}
		clauses[mc+"/"+clause]++
		outcome[fmt.Sprintf("%s/marked=%v", mc, marked)]++
		if L > 0 && (L <= rule || L < 126) && ri0.eff >= 0 {
			young++
		}
		if ri0.eff >= 0 || ri0.eff == EAR {
			run.Nontrivial(fmt.Sprintf("p|%d|%d|%d|%d", ui, mi, ri, li))
		}
		if want != marked {
			run.Violation("archive-predicate-mismatch", signature("parser", mc, ri0.eff, L, marked),
				fmt.Sprintf("%s with latest block %d, archive rule %d: code marked=%v, statement says %v (%s)", ri0.data, L, rule, marked, want, clause),
				map[string]any{"request": string(ri0.data), "latest_block": L, "rule_block": rule, "marked": marked, "statement_says": want, "clause": clause, "grid_index": idx, "spec": "ETH1 jsonrpc" + map[bool]string{true: " (as checked in)", false: " (archive rule edited)"}[ui == 0]})
		} else if idx%50021 == 0 {
			run.Sample(map[string]any{"request": string(ri0.data), "latest_block": L, "rule_block": rule, "marked": marked, "clause": clause})
		}
	}
	if run.Thorough() {
		for idx := 0; idx < total; idx++ {
			evalCase(idx)
		}
	} else {
		rng := vrand.New(run.Seed, "c32-grid")
		for k := 0; k < 250_000; k++ {
			evalCase(rng.Intn(total))
		}
	}

	// ------------------------------------------------------------------ layer 2: the rule object itself, complete in both tiers
	objRules := []uint64{1, 2, 50, 125, 126, 127, 128, 129, 300, 1000, 1_000_000}
	objLatests := append(append([]uint64{}, latests...), 1_000_001, 1<<40, 1<<63-1, 1<<63, ^uint64(0))
	objCases := 0
	for _, rule := range objRules {
		ext := &spectypes.Extension{Name: extensionslib.ArchiveExtension, CuMultiplier: 5, Rule: &spectypes.Rule{Block: rule}}
		ep := extensionslib.NewExtensionParser(map[extensionslib.ExtensionKey]*spectypes.Extension{{Extension: extensionslib.ArchiveExtension, ConnectionType: "POST", Addon: ""}: ext})
		for _, req := range reqs {
			for _, L := range objLatests {
				m := &recMsg{lat: req, ear: req}
				func() {
					defer func() {
						if p := recover(); p != nil {
							run.Violation("panic-in-rule", "rule-object", fmt.Sprint(p), map[string]any{"earliest": req, "latest_block": L, "rule": rule})
						}
					}()
					ep.ExtensionParsing("", m, L)
				}()
				run.Eval(1)
				objCases++
				marked := len(m.set) > 0
				want, clause := shouldArchive(false, req, L, rule)
				clauses["rule-object/"+clause]++
				if req >= 0 || req == EAR {
					run.Nontrivial(fmt.Sprintf("o|%d|%d|%d", rule, req, L))
				}
				if want != marked {
					run.Violation("archive-predicate-mismatch", signature("rule-object", "any-method", req, L, marked),
						fmt.Sprintf("ArchiveParserRule(rule %d) on earliest requested block %d, latest block %d: marked=%v, statement says %v (%s)", rule, req, L, marked, want, clause),
						map[string]any{"earliest_requested": req, "latest_block": L, "rule_block": rule, "marked": marked, "statement_says": want, "clause": clause})
				}
			}
		}
	}
	run.Count("rule-object-cases", objCases)
	run.Set("rule_object_grid_exhaustive", true)
	if run.Thorough() {
		run.Set("exhaustive", true)
	} else {
		run.Set("exhaustive", false)
		run.Set("parser_grid_sampled", 250_000)
	}
	for k, v := range clauses {
		run.Count("clause:"+k, v)
	}
	for k, v := range outcome {
		run.Count("outcome:"+k, v)
	}
	run.Count("young-chain-numeric-cases(latest<=rule or <126)", young)
	run.Require("every request parsed to the intended block (harness sanity)", harnessOK)
	for _, c := range []string{"eth_call/asks-earliest", "eth_call/latest-unknown", "eth_call/beyond-rule-distance", "eth_call/eth_call-beyond-126", "eth_call/specific-block-within-distance", "eth_call/no-specific-block",
		"other-method/asks-earliest", "other-method/latest-unknown", "other-method/beyond-rule-distance", "other-method/specific-block-within-distance", "other-method/no-specific-block",
		"rule-object/asks-earliest", "rule-object/latest-unknown", "rule-object/beyond-rule-distance", "rule-object/specific-block-within-distance", "rule-object/no-specific-block"} {
		run.Require("predicate clause exercised: "+c, clauses[c] > 0)
	}
	for _, o := range []string{"eth_call/marked=true", "eth_call/marked=false", "other-method/marked=true", "other-method/marked=false"} {
		run.Require("outcome observed: "+o, outcome[o] > 0)
	}
	run.Require("young chains (latest <= rule or < 126) with numeric blocks exercised", young > 0)
	run.Finish("complete grid requested{earliest,latest,pending,safe,finalized,none,0..300,999000,1e6,5e6} x latest{0..400,1e6} x rule{spec(127),1,50,128,1000} x method{eth_call,eth_getBalance,eth_getBlockByNumber,eth_blockNumber} parsed by the real ETH1 JSON-RPC parser without extension override (quick: 250k seeded samples of it; thorough: all, exhaustive) plus the complete rule-object grid (11 rules x same requested axis x latest{0..400,1e6,1e6+1,2^40,2^63-1,2^63,2^64-1}) through the real ExtensionParser; GetExtensions()∋archive compared with the statement's predicate; non-trivial = cases asking for a specific block or the earliest block (where the decision depends on the numbers); distinct = distinct grid points",
		run.Pick(100_000, 2_000_000),
		"policy allows the archive extension (SetPolicy); rule variants are the checked-in ETH1 spec with only rule.block edited",
		"the rule-object layer feeds (latest, earliest) through the ExtensionsChainMessage interface instead of a parsed request")
}
