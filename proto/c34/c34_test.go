//go:build verif

// Package c34: C34 — the consumer's relay retry state machine stops correctly and terminates.
//
// Part 1: relaypolicy.Policy (Decide, OnSendRelayResult) on the complete decision-input grid against the
// "must stop" rows of the statement.
// Part 2: the real relaycore.UnifiedRelayStateMachine with the consumer's configuration (built directly
// with a logging wrapper around the real relaypolicy.Policy, and through rpcconsumer.NewRelayStateMachine)
// plus the real RelayProcessor as results checker (behind a logging wrapper), driven by scripted
// senders/providers. The verdict is on the logical instruction sequence read from GetRelayTaskChannel
// and on what the state machine had been told (its own summary queries / policy calls) before it
// emitted each instruction.
package c34

import (
	"context"
	"fmt"
	"net/http"
	"sort"
	"strings"
	"sync"
	"sync/atomic"
	"testing"
	"time"

	"github.com/lavanet/lava/v5/protocol/chainlib"
	"github.com/lavanet/lava/v5/protocol/chainlib/extensionslib"
	"github.com/lavanet/lava/v5/protocol/common"
	"github.com/lavanet/lava/v5/protocol/lavaprotocol"
	"github.com/lavanet/lava/v5/protocol/lavasession"
	"github.com/lavanet/lava/v5/protocol/relaycore"
	"github.com/lavanet/lava/v5/protocol/relaypolicy"
	"github.com/lavanet/lava/v5/protocol/rpcconsumer"
	"github.com/lavanet/lava/v5/utils"
	specutils "github.com/lavanet/lava/v5/utils/keeper"
	pairingtypes "github.com/lavanet/lava/v5/x/pairing/types"
	spectypes "github.com/lavanet/lava/v5/x/spec/types"

	"verif/internal/ev"
	"verif/internal/vrand"
)

const (
	relayTimeout      = 20 * time.Millisecond  // hedge ticker period given to the state machine
	processingTimeout = 450 * time.Millisecond // processing deadline given to the state machine
	watchdogExtra     = time.Second            // Done must be seen before processingTimeout + this, else inconclusive
	afterDoneGrace    = 90 * time.Millisecond  // keep listening after Done (> 4 ticker periods) for stray instructions
)

// =============================================================================================
// Part 1 — policy grid

func selName(s relaycore.Selection) string {
	switch s {
	case relaycore.Stateless:
		return "Stateless"
	case relaycore.Stateful:
		return "Stateful"
	case relaycore.CrossValidation:
		return "CrossValidation"
	}
	return fmt.Sprint(int(s))
}

type gridCell struct {
	Config relaypolicy.PolicyConfig `json:"config"`
	Input  map[string]any           `json:"input"`
	Output string                   `json:"output"`
}

func policyGrid(run *ev.Run) {
	base := rpcconsumer.ConsumerPolicyConfig()
	cfgB := base
	cfgB.DisableBatchRetry = !base.DisableBatchRetry
	cfgC := base
	cfgC.MaxRetries, cfgC.RelayRetryLimit = 3, 5
	hashErr := fmt.Errorf("hash failed")
	mkArchive := func(k int) *relaycore.ArchiveStatus {
		switch k {
		case 0:
			return nil
		case 1:
			return &relaycore.ArchiveStatus{}
		case 2:
			a := &relaycore.ArchiveStatus{}
			a.SetArchive(true)
			return a
		}
		a := &relaycore.ArchiveStatus{}
		a.SetArchive(true)
		a.SetUpgraded(true)
		return a
	}
	archives := []*relaycore.ArchiveStatus{mkArchive(0), mkArchive(1), mkArchive(2), mkArchive(3)}
	cells, retryWithSuccess := 0, 0
	rowHits := map[string]int{}
	bools := []bool{false, true}
	for _, cfg := range []relaypolicy.PolicyConfig{base, cfgB, cfgC} {
		p := relaypolicy.NewPolicy(cfg)
		// the send-side counters must not leak into Decide: dirty them first
		p.OnSendRelayResult(fmt.Errorf("x"), false)
		p.OnSendRelayResult(fmt.Errorf("x"), true)
		for _, sel := range []relaycore.Selection{relaycore.Stateless, relaycore.Stateful, relaycore.CrossValidation} {
			for attempt := 0; attempt <= cfg.MaxRetries+2; attempt++ {
				for _, isBatch := range bools {
					for succ := 0; succ <= 2; succ++ {
						for ne := 0; ne <= 3; ne++ {
							for sne := 0; sne <= 1; sne++ {
								for pe := 0; pe <= 3; pe++ {
									for flags := 0; flags < 32; flags++ {
										for arch := 0; arch < 4; arch++ {
											for ine := uint64(0); ine <= 2; ine++ {
												for _, tick := range bools {
													in := relaycore.DecisionInput{
														Selection: sel, AttemptNumber: attempt, IsBatch: isBatch,
														Summary: relaycore.ResultsSummary{
															SuccessCount: succ, NodeErrors: ne, SpecialNodeErrors: sne, ProtocolErrors: pe,
															HasNonRetryableNodeError: flags&1 != 0, HasUnsupportedMethod: flags&2 != 0,
															HasPermanentProtocolError: flags&4 != 0, HasEpochMismatch: flags&8 != 0,
														},
														ArchiveStatus: archives[arch], NodeErrors: ine, IsTickerHedge: tick,
													}
													if flags&16 != 0 {
														in.Summary.HashErr = hashErr
													}
													out := p.Decide(in)
													cells++
													retry := out.Action == relaycore.ActionRetry
													row := ""
													switch {
													case sel != relaycore.Stateless:
														row = "mode-" + selName(sel) + "-never-retries"
													case in.Summary.HasNonRetryableNodeError:
														row = "non-retryable-node-error-stops"
													case in.Summary.HasPermanentProtocolError:
														row = "permanent-protocol-error-stops"
													case attempt >= cfg.MaxRetries:
														row = "attempts>=max-stops"
													}
													if row != "" {
														rowHits[row]++
														if retry {
															run.Violation("policy-table", "Decide/"+row, fmt.Sprintf("Decide returned Retry (%s) where the statement demands Stop", out.Reason),
																gridCell{cfg, describeInput(in), "Retry/" + out.Reason})
														}
													} else if retry && succ > 0 {
														retryWithSuccess++
													}
												}
											}
										}
									}
								}
							}
						}
					}
				}
			}
		}
	}
	for row, n := range rowHits {
		run.Count("grid_row:"+row, n)
		run.Nontrivial("grid/" + row)
	}
	for _, row := range []string{"mode-Stateful-never-retries", "mode-CrossValidation-never-retries", "non-retryable-node-error-stops", "permanent-protocol-error-stops", "attempts>=max-stops"} {
		run.Require("policy grid row exercised: "+row, rowHits[row] > 0)
	}
	run.Count("grid_decide_cells", cells)
	run.Count("grid_decide_retry_although_summary_reports_success", retryWithSuccess)

	// OnSendRelayResult: every history over {ok, error, pairing-list-empty} up to length 9 on a fresh policy.
	seqCells, stopRows, okRows := 0, 0, 0
	errGeneric := fmt.Errorf("failed sending message")
	for L := 1; L <= 9; L++ {
		total := 1
		for i := 0; i < L; i++ {
			total *= 3
		}
		for code := 0; code < total; code++ {
			p := relaypolicy.NewPolicy(base)
			consecutive := 0
			x := code
			hist := make([]int, 0, L)
			for i := 0; i < L; i++ {
				sym := x % 3
				x /= 3
				hist = append(hist, sym)
				var res relaycore.SendResult
				switch sym {
				case 0:
					res = p.OnSendRelayResult(nil, false)
					consecutive = 0
				case 1:
					res = p.OnSendRelayResult(errGeneric, false)
					consecutive++
				case 2:
					res = p.OnSendRelayResult(lavasession.PairingListEmptyError, true)
					consecutive++
				}
				if i < L-1 {
					continue // prefixes were judged as shorter histories
				}
				seqCells++
				if sym == 0 {
					okRows++
					if res == relaycore.SendRetry {
						run.Violation("policy-table", "OnSendRelayResult/resend-after-successful-send", "SendRetry returned for a successful send",
							map[string]any{"history(0 ok,1 error,2 pairing-empty)": hist})
					}
				} else if consecutive > base.SendRelayAttempts {
					stopRows++
					if res == relaycore.SendRetry {
						run.Violation("policy-table", "OnSendRelayResult/send-failure-retries-exceeded", fmt.Sprintf("SendRetry after %d consecutive send failures (allowed retries %d)", consecutive, base.SendRelayAttempts),
							map[string]any{"history(0 ok,1 error,2 pairing-empty)": hist})
					}
				}
			}
		}
	}
	run.Count("grid_send_result_histories", seqCells)
	run.Count("grid_row:send-failure-retries-exhausted-stops", stopRows)
	run.Count("grid_row:successful-send-not-retried", okRows)
	run.Nontrivial("grid/send-failure-retries-exhausted-stops")
	run.Nontrivial("grid/successful-send-not-retried")
	run.Require("policy grid row exercised: send-failure retries exhausted", stopRows > 0)
	run.Set("exhaustive_policy_grid", true)
	run.Set("policy_grid", "Decide: 3 configs (consumer; batch-retry flag flipped; MaxRetries 3 / RelayRetryLimit 5) x selection(3) x attempt 0..MaxRetries+2 x batch(2) x successes 0..2 x node errors 0..3 x special 0..1 x protocol errors 0..3 x 5 flags (non-retryable, unsupported, permanent, epoch mismatch, hash error) x archive status(4) x counter 0..2 x ticker(2); OnSendRelayResult: all 3^L histories, L<=9, consumer config")
	run.Eval(cells + seqCells)
}

func describeInput(in relaycore.DecisionInput) map[string]any {
	m := map[string]any{
		"selection": selName(in.Selection), "attempt": in.AttemptNumber, "is_batch": in.IsBatch, "ticker": in.IsTickerHedge,
		"success": in.Summary.SuccessCount, "node_errors": in.Summary.NodeErrors, "special": in.Summary.SpecialNodeErrors, "protocol_errors": in.Summary.ProtocolErrors,
		"non_retryable": in.Summary.HasNonRetryableNodeError, "unsupported": in.Summary.HasUnsupportedMethod, "permanent_protocol": in.Summary.HasPermanentProtocolError,
		"epoch_mismatch": in.Summary.HasEpochMismatch, "hash_err": in.Summary.HashErr != nil, "node_error_counter": in.NodeErrors,
	}
	if in.ArchiveStatus != nil {
		m["archive"] = fmt.Sprintf("archive=%v upgraded=%v", in.ArchiveStatus.IsArchive(), in.ArchiveStatus.IsUpgraded())
	}
	return m
}

// =============================================================================================
// Part 2 — scripted runs of the real state machine

type respSpec struct {
	Kind    string `json:"kind"` // ok okB nodeR nodeNR protoT protoP epoch silent
	DelayMs int    `json:"delay_ms"`
}

type step struct {
	ReadDelayMs    int        `json:"read_delay_ms,omitempty"`    // time before the consumer loop takes this instruction
	Resolve        string     `json:"resolve"`                    // S (sent) | F (send failed) | Fpair (pairing list empty)
	ResolveDelayMs int        `json:"resolve_delay_ms,omitempty"` // time the send itself takes before UpdateBatch
	Resp           []respSpec `json:"resp,omitempty"`
}

type script struct {
	ID           int    `json:"id"`
	Mode         string `json:"mode"`
	Variant      string `json:"variant"` // "policy-wrapped" (NewUnifiedRelayStateMachine + consumer configs) | "consumer-wrapper" (rpcconsumer.NewRelayStateMachine)
	Class        string `json:"class"`
	MaxPart      int    `json:"max_participants,omitempty"`
	Threshold    int    `json:"threshold,omitempty"`
	ProcessingMs int    `json:"processing_timeout_ms"`
	Steps        []step `json:"steps"`
}

type world struct {
	parser  chainlib.ChainParser
	retries *lavaprotocol.RelayRetriesManager
}

type sender struct {
	w          *world
	headers    map[string]string
	processing time.Duration
}

func (s *sender) GetProcessingTimeout(chainlib.ChainMessage) (time.Duration, time.Duration) {
	return s.processing, relayTimeout
}
func (s *sender) GetChainIdAndApiInterface() (string, string) { return "LAV1", "rest" }
func (s *sender) ParseRelay(ctx context.Context, url, req, connectionType, dappID, consumerIp string, metadata []pairingtypes.Metadata) (chainlib.ProtocolMessage, error) {
	return s.w.protocolMessage(ctx, url, req, connectionType, s.headers, metadata)
}

func (w *world) protocolMessage(ctx context.Context, url, req, connectionType string, headers map[string]string, metadata []pairingtypes.Metadata) (chainlib.ProtocolMessage, error) {
	var data []byte
	if req != "" {
		data = []byte(req)
	}
	chainMsg, err := w.parser.ParseMsg(url, data, connectionType, metadata, extensionslib.ExtensionInfo{LatestBlock: 0})
	if err != nil {
		return nil, err
	}
	reqBlock, _ := chainMsg.RequestedBlock()
	rd := lavaprotocol.NewRelayData(ctx, connectionType, url, data, 0, reqBlock, spectypes.APIInterfaceRest, chainMsg.GetRPCMessage().GetHeaders(), chainlib.GetAddon(chainMsg), common.GetExtensionNames(chainMsg.GetExtensions()))
	return chainlib.NewProtocolMessage(chainMsg, headers, rd, "dapp", "127.0.0.1"), nil
}

type metricsMock struct{}

func (metricsMock) SetRelayNodeErrorMetric(string, string, string, string) {}
func (metricsMock) GetChainIdAndApiInterface() (string, string)            { return "LAV1", "rest" }

// ---- one run's monitor state
type snap struct {
	E       int    // number of instructions the state machine had emitted when it was told
	Success int    // Summary.SuccessCount it was told
	NonRet  bool   // HasNonRetryableNodeError
	Perm    bool   // HasPermanentProtocolError
	Epoch   bool   // HasEpochMismatch
	What    string // "summary" | "send-ok"
	Batch   int    // UsedProviders.BatchNumber() read inside the summary call (>= the attempt number Decide is given)
}

type instrRec struct {
	Done    bool
	Err     string
	N       int
	State   *relaycore.RelayState
	Resolve string // how the harness resolved it (S/F/Fpair), "" for final / unresolved
}

type monitor struct {
	mu     sync.Mutex
	ch     chan relaycore.RelayStateSendInstructions
	recv   int
	log    []string
	snaps  []snap
	instrs []instrRec
	// variant "policy-wrapped" only
	decides []decideRec
	sends   []sendRec
	// harness-side lower bounds for the consumer-wrapper variant
	updateCalls       int
	policyCallsOnSend int
	hasPolicyWrap     bool
	lastPolicy        struct {
		E        int
		willEmit bool
		what     string
	}
	sendOKLowerBound []int
	seenSummary      map[string]int
	stopped          atomic.Bool
}

type decideRec struct {
	E       int
	Ticker  bool
	Attempt int
	Success int
	Retry   bool
	Reason  string
}
type sendRec struct {
	E           int
	Failed      bool
	Consecutive int
	Result      relaycore.SendResult
}

func (m *monitor) logf(f string, a ...any) {
	m.log = append(m.log, fmt.Sprintf(f, a...))
}

// emitted: exact number of instructions emitted so far; must be called from the state machine's main
// loop goroutine (the only producer) — the reader only receives while holding m.mu.
func (m *monitor) emittedLocked() int { return m.recv + len(m.ch) }

type checkerWrap struct {
	rp   *relaycore.RelayProcessor
	m    *monitor
	used *lavasession.UsedProviders
}

func (c *checkerWrap) WaitForResults(ctx context.Context) error { return c.rp.WaitForResults(ctx) }
func (c *checkerWrap) HasRequiredNodeResults(tries int) (bool, int) {
	ok, n := c.rp.HasRequiredNodeResults(tries)
	c.m.mu.Lock()
	c.m.logf("has-required -> %v nodeErrors=%d", ok, n)
	c.m.mu.Unlock()
	return ok, n
}
func (c *checkerWrap) GetCrossValidationParams() *common.CrossValidationParams {
	return c.rp.GetCrossValidationParams()
}
func (c *checkerWrap) GetResultsSummary() relaycore.ResultsSummary {
	s := c.rp.GetResultsSummary()
	batch := c.used.BatchNumber()
	m := c.m
	m.mu.Lock()
	e := m.emittedLocked()
	m.snaps = append(m.snaps, snap{E: e, Success: s.SuccessCount, NonRet: s.HasNonRetryableNodeError, Perm: s.HasPermanentProtocolError, Epoch: s.HasEpochMismatch, What: "summary", Batch: batch})
	m.logf("summary@%d success=%d nodeErr=%d protoErr=%d nonRetryable=%v permanent=%v epoch=%v", e, s.SuccessCount, s.NodeErrors, s.ProtocolErrors, s.HasNonRetryableNodeError, s.HasPermanentProtocolError, s.HasEpochMismatch)
	if s.SuccessCount > 0 {
		m.seenSummary["success"]++
	}
	if s.HasNonRetryableNodeError {
		m.seenSummary["nonretryable"]++
	}
	if s.HasPermanentProtocolError {
		m.seenSummary["permanent"]++
	}
	if s.HasEpochMismatch {
		m.seenSummary["epoch"]++
	}
	if s.NodeErrors > 0 && !s.HasNonRetryableNodeError {
		m.seenSummary["retryable-node-error"]++
	}
	if s.ProtocolErrors > 0 && !s.HasPermanentProtocolError && !s.HasEpochMismatch {
		m.seenSummary["transient-protocol-error"]++
	}
	m.mu.Unlock()
	return s
}

type policyWrap struct {
	p           *relaypolicy.Policy
	m           *monitor
	consecutive int
}

func (w *policyWrap) Decide(in relaycore.DecisionInput) relaycore.DecisionOutput {
	out := w.p.Decide(in)
	m := w.m
	m.mu.Lock()
	e := m.emittedLocked()
	m.decides = append(m.decides, decideRec{E: e, Ticker: in.IsTickerHedge, Attempt: in.AttemptNumber, Success: in.Summary.SuccessCount, Retry: out.Action == relaycore.ActionRetry, Reason: out.Reason})
	m.lastPolicy.E, m.lastPolicy.willEmit, m.lastPolicy.what = e, out.Action == relaycore.ActionRetry, fmt.Sprintf("Decide ticker=%v -> %s", in.IsTickerHedge, out.Reason)
	m.logf("decide@%d ticker=%v attempt=%d -> %s(%s)", e, in.IsTickerHedge, in.AttemptNumber, map[bool]string{true: "Retry", false: "Stop"}[out.Action == relaycore.ActionRetry], out.Reason)
	m.mu.Unlock()
	return out
}
func (w *policyWrap) OnSendRelayResult(err error, isPairingListEmpty bool) relaycore.SendResult {
	res := w.p.OnSendRelayResult(err, isPairingListEmpty)
	if err == nil {
		w.consecutive = 0
	} else {
		w.consecutive++
	}
	m := w.m
	m.mu.Lock()
	e := m.emittedLocked()
	m.sends = append(m.sends, sendRec{E: e, Failed: err != nil, Consecutive: w.consecutive, Result: res})
	if err == nil {
		m.snaps = append(m.snaps, snap{E: e, What: "send-ok"})
	}
	m.policyCallsOnSend++
	m.lastPolicy.E, m.lastPolicy.willEmit, m.lastPolicy.what = e, res == relaycore.SendRetry, fmt.Sprintf("OnSendRelayResult failed=%v -> %v", err != nil, res)
	m.logf("on-send-result@%d failed=%v pairingEmpty=%v consecutive=%d -> %v", e, err != nil, isPairingListEmpty, w.consecutive, res)
	m.mu.Unlock()
	return res
}
func (w *policyWrap) GetConsecutiveBatchErrors() int { return w.p.GetConsecutiveBatchErrors() }

type runResult struct {
	sc          script
	mon         *monitor
	watchdog    bool
	deadlock    string // non-empty: proof of a cyclic wait between consumer loop and state machine
	deadlockSig string
	harnessErr  error
	sOK, sFail  int
	classesSeen map[string]int
	maxRetries  int
	sendAtt     int
}

// updateBatch is the consumer loop's synchronous UpdateBatch call. The loop does not proceed until it
// returns (as in ProcessRelaySend: read instruction -> send -> UpdateBatch -> read next instruction).
// If the call stays parked, the logical state is sampled until it is frozen (no callback of the state
// machine, no instruction movement between samples). Then a diagnosis decides what the frozen state is:
// one instruction is taken out of the (full) instruction channel on behalf of nobody; if the state machine
// thereupon delivers a further instruction, that instruction had been blocked behind the full channel, i.e.
// the main loop was parked in an instruction send while the consumer loop was parked in UpdateBatch. The
// only reader of the instruction channel is the parked consumer loop and the only reader of the batch-update
// channel is the parked main loop: a cyclic wait that no timer can resolve. Without that proof the expiry
// is a plain watchdog (inconclusive).
func updateBatch(sm relaycore.RelayStateMachine, mon *monitor, batchCap int, procT time.Duration, err error) (returned bool, deadlock, sig string) {
	done := make(chan struct{})
	mon.mu.Lock()
	mon.updateCalls++
	mon.mu.Unlock()
	go func() { sm.UpdateBatch(err); close(done) }()
	select {
	case <-done:
		return true, "", ""
	case <-time.After(procT + watchdogExtra):
	}
	type sample struct{ events, recv, queued, inCh int }
	take := func() sample {
		mon.mu.Lock()
		defer mon.mu.Unlock()
		return sample{len(mon.log), mon.recv, mon.updateCalls - 1 - mon.policyCallsOnSend, len(mon.ch)}
	}
	prev := take()
	stable := 0
	for i := 0; i < 12 && stable < 3; i++ {
		time.Sleep(250 * time.Millisecond)
		select {
		case <-done:
			return true, "", ""
		default:
		}
		cur := take()
		if cur == prev {
			stable++
		} else {
			stable = 0
		}
		prev = cur
	}
	if stable < 3 || prev.inCh != cap(mon.ch) {
		return false, "", ""
	}
	// diagnosis (after the verdict-relevant state is frozen): make room once, see whether something was waiting
	recvOne := func(wait time.Duration) (instrRec, bool) {
		deadline := time.Now().Add(wait)
		for {
			mon.mu.Lock()
			select {
			case in := <-mon.ch:
				mon.recv++
				rec := instrRec{Done: in.IsDone(), N: in.NumOfProviders, State: in.RelayState, Resolve: "diagnosis"}
				if in.Err != nil {
					rec.Err = in.Err.Error()
				}
				mon.instrs = append(mon.instrs, rec)
				mon.logf("diagnosis: took instr#%d out of the channel (final=%v)", mon.recv-1, rec.Done)
				mon.mu.Unlock()
				return rec, true
			default:
			}
			mon.mu.Unlock()
			if time.Now().After(deadline) {
				return instrRec{}, false
			}
			time.Sleep(200 * time.Microsecond)
		}
	}
	y, ok := recvOne(0)
	if !ok {
		return false, "", ""
	}
	state := fmt.Sprintf("frozen state: consumer loop parked in UpdateBatch for > %v; instruction channel full (%d/%d); no state-machine callback and no instruction movement over 3 samples", procT+watchdogExtra, prev.inCh, cap(mon.ch))
	if mon.hasPolicyWrap {
		state += fmt.Sprintf("; batch updates enqueued and not processed by the main loop: %d (channel capacity %d)", prev.queued, batchCap)
	}
	if y.Done {
		return false, state + "; the buffered instruction is the final one: the state machine has stopped with the batch-update channel full, the consumer loop can never return from UpdateBatch to read it", "final-emitted-but-consumer-loop-parked-in-UpdateBatch-forever"
	}
	z, ok := recvOne(time.Second)
	if !ok {
		return false, "", ""
	}
	if z.Done {
		return false, state + "; after one instruction was taken out, the state machine delivered the FINAL instruction, which had been blocked behind the full channel: the main loop was parked emitting it", "main-loop-parked-emitting-final+consumer-loop-parked-in-UpdateBatch"
	}
	return false, state + "; after one instruction was taken out, the state machine delivered a further send instruction, which had been blocked behind the full channel: the main loop was parked in that send", "main-loop-parked-emitting-send+consumer-loop-parked-in-UpdateBatch"
}

func sleepMs(ms int) {
	if ms > 0 {
		time.Sleep(time.Duration(ms) * time.Millisecond)
	}
}

func (w *world) runScript(sc script) *runResult {
	rr := &runResult{sc: sc, classesSeen: map[string]int{}}
	smCfg := rpcconsumer.ConsumerStateMachineConfig()
	polCfg := rpcconsumer.ConsumerPolicyConfig()
	rr.maxRetries, rr.sendAtt = polCfg.MaxRetries, polCfg.SendRelayAttempts

	ctx, cancel := context.WithCancel(context.Background())
	defer cancel()
	headers := map[string]string(nil)
	url, body, method := "/cosmos/base/tendermint/v1beta1/blocks/17", "", http.MethodGet
	switch sc.Mode {
	case "Stateful":
		url, body, method = "/cosmos/tx/v1beta1/txs", "data", http.MethodPost
	case "CrossValidation":
		headers = map[string]string{
			common.CROSS_VALIDATION_HEADER_MAX_PARTICIPANTS:    fmt.Sprint(sc.MaxPart),
			common.CROSS_VALIDATION_HEADER_AGREEMENT_THRESHOLD: fmt.Sprint(sc.Threshold),
		}
	}
	pm, err := w.protocolMessage(ctx, url, body, method, headers, nil)
	if err != nil {
		rr.harnessErr = err
		return rr
	}
	procT := time.Duration(sc.ProcessingMs) * time.Millisecond
	snd := &sender{w: w, headers: headers, processing: procT}
	used := lavasession.NewUsedProviders(pm)
	used.SetChainID("LAV1")
	used.SetEligibilityFunc(relaypolicy.DecideEligibility)
	mon := &monitor{seenSummary: map[string]int{}}
	rr.mon = mon

	var sm relaycore.RelayStateMachine
	if sc.Variant == "policy-wrapped" {
		mon.hasPolicyWrap = true
		sm, err = relaycore.NewUnifiedRelayStateMachine(ctx, used, snd, pm, nil, false, smCfg, &policyWrap{p: relaypolicy.NewPolicy(polCfg), m: mon})
	} else {
		sm, err = rpcconsumer.NewRelayStateMachine(ctx, used, snd, pm, nil, false)
	}
	if err != nil {
		rr.harnessErr = err
		return rr
	}
	if selName(sm.GetSelection()) != sc.Mode {
		rr.harnessErr = fmt.Errorf("selection %s, wanted %s", selName(sm.GetSelection()), sc.Mode)
		return rr
	}
	rp := relaycore.NewRelayProcessor(ctx, sm.GetCrossValidationParams(), nil, metricsMock{}, metricsMock{}, w.retries, sm)
	sm.SetResultsChecker(&checkerWrap{rp: rp, m: mon, used: used})
	ch, err := rp.GetRelayTaskChannel()
	if err != nil {
		rr.harnessErr = err
		return rr
	}
	mon.mu.Lock()
	mon.ch = ch
	mon.mu.Unlock()

	start := time.Now()
	deadline := start.Add(procT + watchdogExtra)
	doneSeen := false
	k := 0 // number of send instructions resolved
	var wg sync.WaitGroup
	for {
		if !doneSeen && k < len(sc.Steps) {
			sleepMs(sc.Steps[k].ReadDelayMs)
		}
		var instr relaycore.RelayStateSendInstructions
		got := false
		for !got {
			mon.mu.Lock()
			select {
			case instr = <-ch:
				got = true
				mon.recv++
				rec := instrRec{Done: instr.IsDone(), N: instr.NumOfProviders, State: instr.RelayState}
				if instr.Err != nil {
					rec.Err = instr.Err.Error()
					if len(rec.Err) > 60 {
						rec.Err = rec.Err[:60]
					}
				}
				mon.instrs = append(mon.instrs, rec)
				if rec.Done {
					mon.logf("instr#%d FINAL err=%q", mon.recv-1, rec.Err)
				} else {
					mon.logf("instr#%d send providers=%d", mon.recv-1, rec.N)
				}
			default:
			}
			mon.mu.Unlock()
			if !got {
				if time.Now().After(deadline) {
					if !doneSeen {
						rr.watchdog = true
					}
					mon.stopped.Store(true)
					cancel()
					wg.Wait()
					return rr
				}
				time.Sleep(100 * time.Microsecond)
			}
		}
		if instr.IsDone() {
			if !doneSeen {
				doneSeen = true
				deadline = time.Now().Add(afterDoneGrace)
			}
			continue
		}
		if doneSeen {
			continue // recorded; judged by the oracle
		}
		idx := len(mon.instrs) - 1
		// ---- the consumer's reaction to a send instruction: sendRelayToProvider + UpdateBatch
		st := step{Resolve: "S", Resp: []respSpec{{Kind: "silent"}}}
		if k < len(sc.Steps) {
			st = sc.Steps[k]
		}
		k++
		sleepMs(st.ResolveDelayMs)
		lctx, lcancel := context.WithTimeout(ctx, time.Second)
		_ = used.TryLockSelection(lctx)
		lcancel()
		switch st.Resolve {
		case "F", "Fpair":
			var serr error = fmt.Errorf("failed sending message")
			if st.Resolve == "Fpair" {
				serr = lavasession.PairingListEmptyError
			}
			used.AddUsed(lavasession.ConsumerSessionsMap{}, serr)
			rr.sFail++
			rr.classesSeen["send:"+st.Resolve]++
			mon.mu.Lock()
			mon.instrs[idx].Resolve = st.Resolve
			mon.logf("harness: instr#%d send FAILED (%s) -> UpdateBatch(err)", idx, st.Resolve)
			mon.mu.Unlock()
			if ok, dl, dsig := updateBatch(sm, mon, smCfg.MaxRetries, procT, serr); !ok {
				rr.deadlock, rr.deadlockSig, rr.watchdog = dl, dsig, dl == ""
				mon.stopped.Store(true)
				cancel()
				wg.Wait()
				return rr
			}
		default:
			n := len(st.Resp)
			if sc.Mode == "CrossValidation" {
				n = instr.NumOfProviders
			} else if sc.Mode == "Stateless" {
				n = 1
			}
			if n < 1 {
				n = 1
			}
			sessions := lavasession.ConsumerSessionsMap{}
			provs := make([]string, n)
			for j := 0; j < n; j++ {
				provs[j] = fmt.Sprintf("lava@s%dp%d", idx, j)
				sessions[provs[j]] = &lavasession.SessionInfo{}
			}
			used.AddUsed(sessions, nil)
			rr.sOK++
			rr.classesSeen["send:S"]++
			mon.mu.Lock()
			mon.instrs[idx].Resolve = "S"
			mon.sendOKLowerBound = append(mon.sendOKLowerBound, mon.emittedLocked())
			kinds := make([]string, n)
			for j := 0; j < n; j++ {
				kinds[j] = respAt(st, j).Kind
			}
			mon.logf("harness: instr#%d SENT to %d provider(s) %v -> UpdateBatch(nil)", idx, n, kinds)
			mon.mu.Unlock()
			for j := 0; j < n; j++ {
				rs := respAt(st, j)
				rr.classesSeen["resp:"+rs.Kind]++
				if rs.Kind == "silent" {
					continue
				}
				wg.Add(1)
				go func(prov string, rs respSpec) {
					defer wg.Done()
					sleepMs(rs.DelayMs)
					if mon.stopped.Load() {
						return
					}
					deliver(rp, used, mon, prov, rs.Kind)
				}(provs[j], rs)
			}
			if ok, dl, dsig := updateBatch(sm, mon, smCfg.MaxRetries, procT, nil); !ok {
				rr.deadlock, rr.deadlockSig, rr.watchdog = dl, dsig, dl == ""
				mon.stopped.Store(true)
				cancel()
				wg.Wait()
				return rr
			}
		}
	}
}

func respAt(st step, j int) respSpec {
	if len(st.Resp) == 0 {
		return respSpec{Kind: "silent"}
	}
	if j < len(st.Resp) {
		return st.Resp[j]
	}
	return st.Resp[len(st.Resp)-1]
}

func deliver(rp *relaycore.RelayProcessor, used *lavasession.UsedProviders, mon *monitor, prov, kind string) {
	res := common.RelayResult{
		Request: &pairingtypes.RelayRequest{
			RelaySession: &pairingtypes.RelaySession{},
			RelayData:    &pairingtypes.RelayPrivateData{},
		},
		ProviderInfo: common.ProviderInfo{ProviderAddress: prov},
	}
	var rerr error
	switch kind {
	case "ok":
		res.StatusCode = 200
		res.Reply = &pairingtypes.RelayReply{Data: []byte(`{"height":"17"}`), LatestBlock: 1}
	case "okB":
		res.StatusCode = 200
		res.Reply = &pairingtypes.RelayReply{Data: []byte(`{"height":"18"}`), LatestBlock: 1}
	case "nodeR":
		res.StatusCode = 500
		res.IsNodeError = true
		res.Reply = &pairingtypes.RelayReply{Data: []byte(`{"message":"node busy","code":13}`)}
	case "nodeNR":
		res.StatusCode = 500
		res.IsNodeError = true
		res.IsNonRetryable = true
		res.Reply = &pairingtypes.RelayReply{Data: []byte(`{"message":"invalid params","code":3}`)}
	case "protoT":
		rerr = fmt.Errorf("connection reset by peer")
	case "protoP":
		rerr = chainlib.NewUnsupportedMethodError(nil, "blocks")
	case "epoch":
		rerr = lavasession.EpochMismatchError
	}
	used.RemoveUsed(prov, lavasession.NewRouterKey(nil), rerr)
	mon.mu.Lock()
	mon.logf("provider %s answers %s", prov, kind)
	mon.mu.Unlock()
	// SetResponse blocks only if 50 responses are queued unread; never the case here
	rp.SetResponse(&relaycore.RelayResponse{RelayResult: res, Err: rerr})
}

// ---- script generation
var delayPool = []int{0, 0, 0, 1, 3, 8, 15, 25, 45}

func genResp(rng interface{ Intn(int) int }, kinds []string) respSpec {
	return respSpec{Kind: kinds[rng.Intn(len(kinds))], DelayMs: delayPool[rng.Intn(len(delayPool))]}
}

var classes = []string{"all-send-fail", "send-fail-k-then-sent", "pairing-list-empty", "success", "node-error-retryable", "node-error-non-retryable",
	"protocol-error-transient", "protocol-error-permanent", "epoch-mismatch", "silence-hedges", "mixed", "slow-consumer-loop", "hedge-send-fails-late", "pipeline-flood"}

var classMod = len(classes)

var allKinds = []string{"ok", "nodeR", "nodeNR", "protoT", "protoP", "epoch", "silent", "silent"}

func genScript(id int, seed int64) script {
	rng := vrand.Sub(seed, "c34-script", id)
	modes := []string{"Stateless", "Stateful", "CrossValidation"}
	sc := script{ID: id, Mode: modes[id%3], Class: classes[(id/3)%classMod], Variant: "policy-wrapped", ProcessingMs: int(processingTimeout / time.Millisecond)}
	if rng.Intn(4) == 0 {
		sc.Variant = "consumer-wrapper"
	}
	nResp := 1
	if sc.Mode == "CrossValidation" {
		sc.MaxPart = 2 + rng.Intn(3)
		sc.Threshold = 1 + rng.Intn(sc.MaxPart)
		nResp = sc.MaxPart
	}
	slow := sc.Class == "slow-consumer-loop" || rng.Intn(6) == 0
	mkStep := func(resolve string, kinds []string) step {
		st := step{Resolve: resolve}
		if slow {
			st.ReadDelayMs = []int{0, 0, 5, 25, 45, 60}[rng.Intn(6)]
			st.ResolveDelayMs = []int{0, 0, 2, 25, 45, 60}[rng.Intn(6)]
		} else if rng.Intn(5) == 0 {
			st.ReadDelayMs = []int{1, 5, 25}[rng.Intn(3)]
			st.ResolveDelayMs = []int{1, 5, 25}[rng.Intn(3)]
		}
		if resolve == "S" {
			n := nResp
			if sc.Mode == "Stateful" {
				n = 1 + rng.Intn(3)
			}
			for j := 0; j < n; j++ {
				ks := kinds
				if sc.Mode == "CrossValidation" && j > 0 && rng.Intn(2) == 0 {
					ks = []string{"ok", "okB", "ok", "silent", "nodeR", "protoT"}
				}
				st.Resp = append(st.Resp, genResp(rng, ks))
			}
		}
		return st
	}
	mixed := func() step {
		r := rng.Intn(10)
		switch {
		case r < 2:
			return mkStep("F", nil)
		case r < 3:
			return mkStep("Fpair", nil)
		}
		return mkStep("S", allKinds)
	}
	var steps []step
	switch sc.Class {
	case "all-send-fail":
		for i := 0; i < 14; i++ {
			steps = append(steps, mkStep("F", nil))
		}
	case "send-fail-k-then-sent":
		k := 1 + rng.Intn(5)
		for i := 0; i < k; i++ {
			steps = append(steps, mkStep("F", nil))
		}
		steps = append(steps, mkStep("S", allKinds))
	case "pairing-list-empty":
		k := 1 + rng.Intn(5)
		for i := 0; i < k; i++ {
			steps = append(steps, mkStep("Fpair", nil))
		}
		steps = append(steps, mkStep("S", allKinds))
	case "success":
		steps = append(steps, mkStep("S", []string{"ok"}))
	case "node-error-retryable":
		for i := 0; i < 1+rng.Intn(4); i++ {
			steps = append(steps, mkStep("S", []string{"nodeR"}))
		}
	case "node-error-non-retryable":
		if rng.Intn(2) == 0 {
			steps = append(steps, mkStep("S", []string{"nodeR"}))
		}
		steps = append(steps, mkStep("S", []string{"nodeNR"}))
	case "protocol-error-transient":
		for i := 0; i < 1+rng.Intn(4); i++ {
			steps = append(steps, mkStep("S", []string{"protoT"}))
		}
	case "protocol-error-permanent":
		if rng.Intn(2) == 0 {
			steps = append(steps, mkStep("S", []string{"protoT"}))
		}
		steps = append(steps, mkStep("S", []string{"protoP"}))
	case "epoch-mismatch":
		for i := 0; i < 1+rng.Intn(4); i++ {
			steps = append(steps, mkStep("S", []string{"epoch"}))
		}
	case "silence-hedges":
		for i := 0; i < 2+rng.Intn(12); i++ {
			steps = append(steps, mkStep("S", []string{"silent"}))
		}
	case "slow-consumer-loop":
		// silence with a late answer to the first relay while hedges pile up behind a slow consumer loop
		first := mkStep("S", []string{"ok", "nodeNR", "protoP", "ok"})
		for j := range first.Resp {
			first.Resp[j].DelayMs = 30 + rng.Intn(90)
		}
		steps = append(steps, first)
		for i := 0; i < 12; i++ {
			steps = append(steps, mkStep("S", []string{"silent"}))
		}
	case "pipeline-flood":
		// a consumer loop that stays slower than the hedge ticker during a long request; three of four sends
		// fail (so the send-failure limit never trips) and nobody answers: every hedge adds one more
		// instruction -> UpdateBatch round trip to the pipeline between consumer loop and state machine
		sc.ProcessingMs = 1500
		for i := 0; i < 90; i++ {
			st := mkStep([]string{"F", "F", "F", "S"}[i%4], []string{"silent"})
			st.ReadDelayMs = 22 + rng.Intn(10)
			st.ResolveDelayMs = 0
			steps = append(steps, st)
		}
	case "hedge-send-fails-late":
		// first relay answers late with a stop-worthy result; the hedges behind it fail to send
		first := mkStep("S", []string{"nodeNR", "protoP", "ok", "nodeR"})
		for j := range first.Resp {
			first.Resp[j].DelayMs = 15 + rng.Intn(40)
		}
		steps = append(steps, first)
		for i := 0; i < 6; i++ {
			st := mkStep("F", nil)
			st.ResolveDelayMs = []int{0, 5, 15, 30}[rng.Intn(4)]
			steps = append(steps, st)
		}
	}
	for len(steps) < 16 {
		if sc.Class == "mixed" || rng.Intn(3) > 0 {
			steps = append(steps, mixed())
		} else {
			steps = append(steps, mkStep("S", []string{"silent"}))
		}
	}
	sc.Steps = steps
	return sc
}

// ---- oracle over one run
func judge(run *ev.Run, rr *runResult) (nontrivialSig string) {
	sc, mon := rr.sc, rr.mon
	mon.mu.Lock()
	defer mon.mu.Unlock()
	witness := func() map[string]any {
		return map[string]any{"script": sc, "trace": mon.log,
			"constants": map[string]int{"MaxRetries": rr.maxRetries, "SendRelayAttempts": rr.sendAtt, "relay_timeout_ms": int(relayTimeout / time.Millisecond), "processing_timeout_ms": sc.ProcessingMs}}
	}
	pathOf := func(i int) string {
		// a send-failure retry re-emits the latest relay state; a policy retry creates a new one
		for j := i - 1; j >= 0; j-- {
			if !mon.instrs[j].Done {
				if mon.instrs[j].State == mon.instrs[i].State {
					return "send-failure-retry"
				}
				return "decide-retry"
			}
		}
		return "initial"
	}
	detail := func(i int) string {
		for j := len(mon.decides) - 1; j >= 0; j-- {
			d := mon.decides[j]
			if d.E == i && d.Retry {
				return fmt.Sprintf("decide(ticker=%v attempt=%d summary.success=%d reason=%s)", d.Ticker, d.Attempt, d.Success, d.Reason)
			}
		}
		return ""
	}
	finalIdx := -1
	finals := 0
	for i, in := range mon.instrs {
		if in.Done {
			finals++
			if finalIdx < 0 {
				finalIdx = i
			}
		}
	}
	if rr.deadlock != "" {
		run.Count("deadlock_shape:"+rr.deadlockSig, 1)
		run.Violation("final-instruction-never-reaches-consumer", sc.Mode+"/consumer-loop-parked-in-UpdateBatch(batch-update-channel-full)",
			"the consumer loop (read instruction, send, UpdateBatch, read next) and the state machine wait for each other forever: "+rr.deadlock,
			witness())
		run.Count("deadlocks_proven", 1)
		return sc.Mode + "|" + sc.Variant + "|deadlock|" + rr.deadlockSig
	}
	if finalIdx < 0 {
		tail := mon.log
		if len(tail) > 4 {
			tail = tail[len(tail)-4:]
		}
		run.Inconclusive(fmt.Sprintf("script %d (%s/%s): no final instruction within processing timeout + %v; %d log lines, last: %v", sc.ID, sc.Mode, sc.Class, watchdogExtra, len(mon.log), tail))
		run.Count("watchdog_no_final", 1)
		return ""
	}
	if finals > 1 {
		run.Violation("more-than-one-final-instruction", sc.Mode, fmt.Sprintf("%d final instructions", finals), witness())
	}
	for i := finalIdx + 1; i < len(mon.instrs); i++ {
		if !mon.instrs[i].Done {
			run.Violation("instruction-after-final", sc.Mode+"/"+pathOf(i), fmt.Sprintf("send instruction #%d after the final instruction #%d", i, finalIdx), witness())
			break
		}
	}
	var sends []int
	for i, in := range mon.instrs {
		if !in.Done && i < finalIdx {
			sends = append(sends, i)
		}
	}
	antecedents := []string{}
	// told about a success / a non-retryable error, then a new attempt
	var firstSucc, firstStopErr = -1, -1
	stopErrKind := ""
	for _, s := range mon.snaps {
		if s.What != "summary" {
			continue
		}
		if s.Success > 0 && (firstSucc < 0 || s.E < firstSucc) {
			firstSucc = s.E
		}
		if (s.NonRet || s.Perm) && (firstStopErr < 0 || s.E < firstStopErr) {
			firstStopErr = s.E
			stopErrKind = map[bool]string{true: "non-retryable-node-error", false: "permanent-protocol-error"}[s.NonRet]
		}
	}
	if firstSucc >= 0 {
		antecedents = append(antecedents, "told-success")
		for _, i := range sends {
			if i >= firstSucc {
				run.Violation("new-attempt-after-successful-result", sc.Mode+"/"+pathOf(i),
					fmt.Sprintf("the state machine's own results summary reported a success when %d instructions had been emitted; it then emitted send instruction #%d %s", firstSucc, i, detail(i)), witness())
				break
			}
		}
	}
	if firstStopErr >= 0 {
		antecedents = append(antecedents, "told-"+stopErrKind)
		for _, i := range sends {
			if i >= firstStopErr {
				run.Violation("retry-after-non-retryable-error", sc.Mode+"/"+pathOf(i),
					fmt.Sprintf("the results summary reported a %s when %d instructions had been emitted; the state machine then emitted send instruction #%d %s", stopErrKind, firstStopErr, i, detail(i)), witness())
				break
			}
		}
	}
	// stateful / cross-validation: nothing is sent again once a send succeeded
	if sc.Mode != "Stateless" {
		bound := -1
		if sc.Variant == "policy-wrapped" {
			for _, s := range mon.snaps {
				if s.What == "send-ok" && (bound < 0 || s.E < bound) {
					bound = s.E // exact: the state machine processed the successful send at this point
				}
			}
		} else if len(mon.sendOKLowerBound) > 0 {
			bound = mon.sendOKLowerBound[0] + 1 // one instruction may have been decided concurrently
		}
		if bound >= 0 {
			antecedents = append(antecedents, "send-succeeded")
			for _, i := range sends {
				if i >= bound {
					run.Violation("resend-after-successful-send", sc.Mode+"/"+pathOf(i), fmt.Sprintf("send instruction #%d emitted after the %s request had been sent successfully %s", i, sc.Mode, detail(i)), witness())
					break
				}
			}
		}
		// without hedges every send after the first is a send-failure retry: at most SendRelayAttempts of them in a row
		runLen, worst := 0, 0
		for _, i := range sends {
			if mon.instrs[i].Resolve == "F" || mon.instrs[i].Resolve == "Fpair" {
				runLen++
				if runLen > worst {
					worst = runLen
				}
			} else {
				runLen = 0
			}
		}
		if worst > rr.sendAtt {
			antecedents = append(antecedents, "send-failure-retries-exhausted")
		}
		if worst > rr.sendAtt+1 {
			run.Violation("send-failure-retries-exceeded", sc.Mode+"/consecutive-failed-sends", fmt.Sprintf("%d consecutive failed sends were retried, allowed %d retries", worst, rr.sendAtt), witness())
		}
	}
	for _, s := range mon.sends {
		if s.Failed && s.Consecutive > rr.sendAtt {
			antecedents = append(antecedents, "send-failure-retries-exhausted")
			if s.Result == relaycore.SendRetry {
				run.Violation("send-failure-retries-exceeded", sc.Mode+"/policy-in-situ", fmt.Sprintf("SendRetry after %d consecutive send failures", s.Consecutive), witness())
			}
			break
		}
	}
	// attempts actually sent vs the configured maximum
	if rr.sOK >= rr.maxRetries {
		antecedents = append(antecedents, "max-attempts-reached")
	}
	if rr.sOK > rr.maxRetries {
		// cause: did the policy itself allow a retry at/over the maximum, or did the attempt number it was
		// given lag behind sends that were already decided but not yet carried out?
		sig := "attempt-counter-lags-pending-sends"
		if sc.Variant == "policy-wrapped" {
			for _, d := range mon.decides {
				if d.Retry && d.Attempt >= rr.maxRetries {
					sig = "decide-retry-at-max"
				}
			}
		} else {
			// the policy is not visible here; the batch number read inside the summary call that led to a
			// policy retry is an upper bound of the attempt number Decide was given
			for _, i := range sends {
				if pathOf(i) != "decide-retry" {
					continue
				}
				for j := len(mon.snaps) - 1; j >= 0; j-- {
					if sn := mon.snaps[j]; sn.What == "summary" && sn.E == i {
						if sn.Batch >= rr.maxRetries {
							sig = "decide-retry-at-max(unproven,consumer-wrapper)"
						}
						break
					}
				}
			}
		}
		run.Violation("attempts-exceed-maximum", sc.Mode+"/"+sig, fmt.Sprintf("%d relays were sent, configured maximum %d (plus %d failed sends)", rr.sOK, rr.maxRetries, rr.sFail), witness())
	}
	if len(sends) >= 2 {
		antecedents = append(antecedents, "retried")
	}
	if len(antecedents) == 0 {
		return ""
	}
	// signature: mode + abstract trace (resolution of every send, causes, final kind)
	var sb strings.Builder
	sb.WriteString(sc.Mode + "|" + sc.Variant + "|")
	for _, i := range sends {
		sb.WriteString(pathOf(i)[:1] + mon.instrs[i].Resolve + ",")
	}
	sb.WriteString("|final-err=" + fmt.Sprint(mon.instrs[finalIdx].Err != ""))
	sort.Strings(antecedents)
	sb.WriteString("|" + strings.Join(antecedents, "+"))
	return sb.String()
}

func TestC34(t *testing.T) {
	run := ev.Start("C34")
	utils.SetGlobalLoggingLevel("fatal")

	policyGrid(run)

	spec, err := specutils.GetASpec("LAV1", ev.RepoDir()+"/", nil, nil)
	if err != nil {
		t.Fatalf("spec: %v", err)
	}
	cp, err := chainlib.NewChainParser(spectypes.APIInterfaceRest)
	if err != nil {
		t.Fatalf("parser: %v", err)
	}
	cp.SetSpec(spec)
	w := &world{parser: cp, retries: lavaprotocol.NewRelayRetriesManager()}

	for id := 0; id < 3; id++ { // warm-up (lazy initialisation inside the repo's packages), not judged
		w.runScript(genScript(3*3+id, run.Seed)) // class 'success'
	}
	nScripts := run.Pick(420, 12600) // multiples of 3 modes x 14 classes
	results := make([]*runResult, nScripts)
	jobs := make(chan int)
	var wg sync.WaitGroup
	for wk := 0; wk < 16; wk++ {
		wg.Add(1)
		go func() {
			defer wg.Done()
			for id := range jobs {
				sc := genScript(id, run.Seed)
				rr := w.runScript(sc)
				// a watchdog expiry under machine load says nothing about the state machine: repeat the
				// script (same script, fresh objects) before calling it inconclusive
				for tries := 0; rr.watchdog && tries < 2; tries++ {
					run.Count("watchdog_reruns", 1)
					rr = w.runScript(sc)
				}
				results[id] = rr
			}
		}()
	}
	for id := 0; id < nScripts; id++ {
		jobs <- id
	}
	close(jobs)
	wg.Wait()

	perMode := map[string]map[string]int{}
	summarySeen := map[string]int{}
	maxSends, hedges, finalsWithErr, finalsClean := 0, 0, 0, 0
	for _, rr := range results {
		if rr.harnessErr != nil {
			t.Fatalf("harness: script %d: %v", rr.sc.ID, rr.harnessErr)
		}
		run.Eval(1)
		sig := judge(run, rr)
		if sig != "" {
			run.Nontrivial(sig)
		}
		if perMode[rr.sc.Mode] == nil {
			perMode[rr.sc.Mode] = map[string]int{}
		}
		for k, v := range rr.classesSeen {
			perMode[rr.sc.Mode][k] += v
		}
		perMode[rr.sc.Mode]["script:"+rr.sc.Class]++
		perMode[rr.sc.Mode]["variant:"+rr.sc.Variant]++
		for k, v := range rr.mon.seenSummary {
			summarySeen[rr.sc.Mode+"/"+k] += v
		}
		n := 0
		for _, in := range rr.mon.instrs {
			if !in.Done {
				n++
			} else if in.Err != "" {
				finalsWithErr++
			} else {
				finalsClean++
			}
		}
		if n > maxSends {
			maxSends = n
		}
		for _, d := range rr.mon.decides {
			if d.Ticker && d.Retry {
				hedges++
			}
		}
		if rr.sc.ID < 3 {
			run.Sample(map[string]any{"script": rr.sc.ID, "mode": rr.sc.Mode, "class": rr.sc.Class, "variant": rr.sc.Variant, "trace": rr.mon.log})
		}
	}
	for mode, m := range perMode {
		for k, v := range m {
			run.Count(mode+"/"+k, v)
		}
		for _, c := range classes {
			run.Require(fmt.Sprintf("script class %s run in mode %s", c, mode), m["script:"+c] > 0)
		}
		for _, k := range []string{"send:S", "send:F", "send:Fpair", "resp:ok", "resp:nodeR", "resp:nodeNR", "resp:protoT", "resp:protoP", "resp:epoch", "resp:silent"} {
			run.Require(fmt.Sprintf("%s exercised in mode %s", k, mode), m[k] > 0)
		}
		run.Require("both construction variants run in mode "+mode, m["variant:policy-wrapped"] > 0 && m["variant:consumer-wrapper"] > 0)
	}
	for k, v := range summarySeen {
		run.Count("summary_told/"+k, v)
	}
	for _, k := range []string{"success", "nonretryable", "permanent", "epoch", "retryable-node-error", "transient-protocol-error"} {
		run.Require("state machine was told about "+k+" (Stateless)", summarySeen["Stateless/"+k] > 0)
	}
	run.Count("ticker_hedges_emitted", hedges)
	run.Count("final_with_error", finalsWithErr)
	run.Count("final_without_error", finalsClean)
	run.Set("max_send_instructions_in_one_run", maxSends)
	run.Require("ticker hedges exercised", hedges > 0)
	run.Require("all three selection modes run", len(perMode) == 3)

	run.Finish("part 1: complete policy grid (see policy_grid); part 2: scripted runs of the real state machine with the consumer's config (relay timeout 20 ms, processing timeout 450 ms, 1500 ms in the pipeline-flood class): per send instruction the script fixes how long the consumer loop takes to fetch it, whether the send fails / finds no pairing / succeeds, how long the send takes, and what every provider answers (success, retryable / non-retryable node error, transient / permanent protocol error, epoch mismatch, silence) after which delay; 14 script classes x 3 selection modes; a run is non-trivial when a stop rule's precondition became true in it (told about a success / non-retryable error, successful send in Stateful or CrossValidation, send-failure retries exhausted, maximum reached) or it retried at least once; distinct = distinct (mode, variant, per-send cause+resolution sequence, final kind, preconditions)",
		run.Pick(60, 400),
		"'after a successful result / non-retryable error' = after the state machine's main loop was itself told so by its results summary (exact emission index taken inside that call); results still queued behind other select cases are concurrent, not 'before'",
		"configured maximum = MaxRetries relays actually sent; allowed send-failure retries = SendRelayAttempts consecutive failed sends",
		"termination is bounded progress: final instruction within processing timeout + 1 s, else inconclusive")
}
