//go:build verif

package c34

import (
	"fmt"
	"os"
	"strconv"
	"testing"

	"github.com/lavanet/lava/v5/protocol/chainlib"
	"github.com/lavanet/lava/v5/protocol/lavaprotocol"
	"github.com/lavanet/lava/v5/utils"
	specutils "github.com/lavanet/lava/v5/utils/keeper"
	spectypes "github.com/lavanet/lava/v5/x/spec/types"

	"verif/internal/ev"
)

func TestDbg(t *testing.T) {
	utils.SetGlobalLoggingLevel("fatal")
	spec, _ := specutils.GetASpec("LAV1", ev.RepoDir()+"/", nil, nil)
	cp, _ := chainlib.NewChainParser(spectypes.APIInterfaceRest)
	cp.SetSpec(spec)
	w := &world{parser: cp, retries: lavaprotocol.NewRelayRetriesManager()}
	id, _ := strconv.Atoi(os.Getenv("DBG_ID"))
	seed, _ := strconv.Atoi(os.Getenv("DBG_SEED"))
	if m, _ := strconv.Atoi(os.Getenv("DBG_MOD")); m > 0 {
		classMod = m
	}
	reps, _ := strconv.Atoi(os.Getenv("DBG_REPS"))
	done := make(chan bool, 16)
	for wk := 0; wk < 16; wk++ {
		go func() {
			for rep := 0; rep < reps; rep++ {
				sc := genScript(id, int64(seed))
				rr := w.runScript(sc)
				if rr.deadlock != "" || rr.watchdog {
					fmt.Println("---- rep", rep, sc.Mode, sc.Class, sc.Variant, "deadlock:", rr.deadlock, "watchdog:", rr.watchdog)
					fmt.Printf("%+v\n", sc.Steps)
					for _, l := range rr.mon.log {
						fmt.Println("   ", l)
					}
				}
			}
			done <- true
		}()
	}
	for wk := 0; wk < 16; wk++ {
		<-done
	}
}
