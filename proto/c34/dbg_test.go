//go:build verif

package c34

import (
	"fmt"
	"os"
	"strconv"
	"testing"

	"github.com/lavanet/lava/v5/protocol/chainlib"
	"github.com/lavanet/lava/v5/protocol/lavaprotocol"
	"github.com/lavanet/lava/v5/utils"
	specutils "github.com/lavanet/lava/v5/utils/keeper"
	spectypes "github.com/lavanet/lava/v5/x/spec/types"

	"verif/internal/ev"
)

func TestDbg(t *testing.T) {
	utils.SetGlobalLoggingLevel("fatal")
	spec, _ := specutils.GetASpec("LAV1", ev.RepoDir()+"/", nil, nil)
	cp, _ := chainlib.NewChainParser(spectypes.APIInterfaceRest)
	cp.SetSpec(spec)
	w := &world{parser: cp, retries: lavaprotocol.NewRelayRetriesManager()}
	id, _ := strconv.Atoi(os.Getenv("DBG_ID"))
	for rep := 0; rep < 5; rep++ {
		sc := genScript(id, 1)
		rr := w.runScript(sc)
		fmt.Println("---- rep", rep, sc.Mode, sc.Class, sc.Variant)
		for _, l := range rr.mon.log {
			fmt.Println("   ", l)
		}
	}
}
