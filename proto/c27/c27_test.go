//go:build verif

// C27 — Provider sessions enforce CU limits and replay protection under concurrency.
//
// Runtime monitor over the REAL lavasession.ProviderSessionManager. A parent test re-executes the test
// binary as child processes (a Go fatal error such as "concurrent map writes" or "Unlock of unlocked
// RWMutex" cannot be recovered in-process); every child runs a batch of short rounds. One round =
// a fresh manager, 16..64 relay goroutines + an epoch updater + a used-CU reader + detached
// UpdateSessionCU goroutines, over 1..2 consumers x 1..4 session ids, with the max CU chosen so that
// the cap is reached inside the round.
//
// Call protocol = the one rpcprovider_server.go uses:
//
//	GetSession -> (ConsumerNotRegisteredYet -> RegisterProviderSessionWithConsumer)
//	-> PrepareSessionForUsage (error -> DisbandSession) -> OnSessionDone | OnSessionFailure
//	-> after OnSessionDone, detached (`go rpcps.SendProof`): UpdateSessionCU(consumer, epoch, id, storedCU)
//
// (The server never calls UpdateSessionCU while it holds the session: SendProof is started after
// OnSessionDone, rpcprovider_server.go finalizeSession / TryRelaySubscribe. The harness does the same.)
//
// Oracles — exactly the statement, see oracle_test.go:
//
//	(a) at quiescence used CU == sum of session CuSum for every project object ever handed out
//	(b) no acceptance that took used CU above max x (virtualEpoch+1) at acceptance time
//	(c) an atomic in-use counter per (epoch, project, session id) never exceeds 1, and never two
//	    distinct session objects are handed out for one id
//	(d) accepted relay numbers strictly increase per session
//	(e) a failure while the epoch is still valid rolls back exactly its CU
//	(f) the per-project accounting object is linearizable (porcupine) against a small sequential model
//	(g) race-detector reports of the children, attributed only when one side WRITES a monitored
//	    accounting field; Go fatal errors of a child are violations
package c27

import (
	"bufio"
	"context"
	"encoding/json"
	"fmt"
	"os"
	"os/exec"
	"path/filepath"
	"runtime"
	"runtime/pprof"
	"sort"
	"strconv"
	"strings"
	"sync"
	"sync/atomic"
	"testing"
	"time"

	"github.com/lavanet/lava/v5/protocol/common"
	"github.com/lavanet/lava/v5/protocol/lavasession"
	"github.com/lavanet/lava/v5/utils"

	"verif/internal/ev"
	"verif/internal/vrand"

	"math/rand"
)

const (
	pCreate  = "createNewSingleProviderSession:before-write-lock"
	pCAS     = "validateAndAddUsedCU:between-load-and-cas"
	pUpdCu   = "UpdateSessionCU:between-cusum-load-and-store"
	pUpdUsed = "UpdateSessionCU:between-used-cu-load-and-store"

	blockDistance = 10 // epochs kept valid: epoch e is valid while e > current - blockDistance
	epoch0        = 20
)

// ---------------------------------------------------------------------------------------------
// one monotonic counter for every recorded call

const roundWatchdog = 30 * time.Second // covers the execution of a round only; porcupine has its own 2-minute timeout

var clock atomic.Int64

func tick() int64 { return clock.Add(1) }

func goid() int64 {
	var b [40]byte
	n := runtime.Stack(b[:], false)
	s := string(b[:n])
	s = strings.TrimPrefix(s, "goroutine ")
	if i := strings.IndexByte(s, ' '); i > 0 {
		if v, err := strconv.ParseInt(s[:i], 10, 64); err == nil {
			return v
		}
	}
	return -1
}

// ---------------------------------------------------------------------------------------------
// records

type relayRec struct {
	Proc     int    `json:"proc"`
	Epoch    uint64 `json:"epoch"`
	Consumer string `json:"consumer"`
	Project  string `json:"project"`
	Sid      uint64 `json:"sid"`
	RelayNum uint64 `json:"relay_num"`
	Replay   bool   `json:"replay,omitempty"`

	TGetCall   int64  `json:"t_get_call"`
	TGetRet    int64  `json:"t_get_ret"`
	Registered bool   `json:"registered,omitempty"`
	AcqRes     string `json:"acq"`
	ViaCreate  bool   `json:"via_create,omitempty"`
	Obj        int    `json:"obj"`
	C0         uint64 `json:"c0"`
	TC0        int64  `json:"t_c0"`

	Cu        uint64  `json:"cu"`
	Total     uint64  `json:"total"`
	VE        uint64  `json:"ve"`
	Thr       float64 `json:"thr"`
	TPrepCall int64   `json:"t_prep_call"`
	TPrepRet  int64   `json:"t_prep_ret"`
	PrepRes   string  `json:"prep"`
	X         uint64  `json:"x"`
	C1        uint64  `json:"c1"`

	End          string `json:"end"`
	CEnd         uint64 `json:"c_end"`
	XFail        uint64 `json:"x_fail"`
	TEndCall     int64  `json:"t_end_call"`
	TEndRet      int64  `json:"t_end_ret"`
	EndErr       string `json:"end_err,omitempty"`
	MustRollback bool   `json:"must_rollback,omitempty"`
}

type updRec struct {
	Proc     int    `json:"proc"`
	Epoch    uint64 `json:"epoch"`
	Consumer string `json:"consumer"`
	Project  string `json:"project"`
	Sid      uint64 `json:"sid"`
	NewCU    uint64 `json:"new_cu"`
	TCall    int64  `json:"t_call"`
	TRet     int64  `json:"t_ret"`
	Res      string `json:"res"`
}

type epochRec struct {
	Proc        int      `json:"proc"`
	Epoch       uint64   `json:"epoch"`
	TCall       int64    `json:"t_call"`
	TRet        int64    `json:"t_ret"`
	Invalidates []uint64 `json:"invalidates,omitempty"`
}

type readRec struct {
	Proc    int    `json:"proc"`
	Epoch   uint64 `json:"epoch"`
	Project string `json:"project"`
	Used    uint64 `json:"used"`
	TCall   int64  `json:"t_call"`
	TRet    int64  `json:"t_ret"`
}

type yev struct {
	T     int64  `json:"t"`
	Proc  int    `json:"proc"`
	Role  string `json:"role"`
	Point string `json:"point"`
	Key   string `json:"key"`
}

// the generic client-call record of the design: {proc, op, args, t_call, result, t_return}
type call struct {
	Proc   int    `json:"proc"`
	Op     string `json:"op"`
	Args   string `json:"args"`
	TCall  int64  `json:"t_call"`
	Result string `json:"result"`
	TRet   int64  `json:"t_return"`
}

// ---------------------------------------------------------------------------------------------
// round configuration: a pure function of (seed, round index)

type epochStep struct {
	At    int    `json:"at"` // issued once this many relay ops were started
	Epoch uint64 `json:"epoch"`
	After bool   `json:"after"` // switch the workers' current epoch after (true) / before (false) the call
}

type roundCfg struct {
	Idx         int         `json:"round"`
	Workers     int         `json:"workers"`
	Consumers   []string    `json:"consumers"`
	Projects    []string    `json:"projects"` // project of consumer i
	Sids        []uint64    `json:"sids"`
	SidAt       []int       `json:"sid_at"` // session id i is used once this many relay ops were started
	MaxCU       uint64      `json:"max_cu"`
	VE          uint64      `json:"ve"`
	VEBumpAt    int         `json:"ve_bump_at"` // virtual epoch +1 from this op count on (-1: never)
	Budget      int         `json:"budget"`
	Rendezvous  bool        `json:"rendezvous"`
	Updates     bool        `json:"updates"`
	UpdatePct   int         `json:"update_pct"`
	FailPct     int         `json:"fail_pct"`
	EpochPlan   []epochStep `json:"epoch_plan"`
	YieldWeight []int       `json:"yield_weight"` // nothing / Gosched / sleep
}

func makeCfg(seed int64, idx int) roundCfg {
	rng := vrand.Sub(seed, "c27-cfg", idx)
	c := roundCfg{Idx: idx}
	c.Workers = vrand.Pick(rng, []int{16, 16, 24, 32, 32, 48, 64})
	nc := 1 + rng.Intn(2)
	for i := 0; i < nc; i++ {
		c.Consumers = append(c.Consumers, fmt.Sprintf("consumer%d", i+1))
	}
	if nc == 2 && rng.Intn(2) == 0 {
		c.Projects = []string{"projA", "projB"}
	} else {
		c.Projects = make([]string, nc)
		for i := range c.Projects {
			c.Projects[i] = "projA"
		}
	}
	c.Budget = 100 + rng.Intn(61)
	ns := 1 + rng.Intn(4)
	for i := 0; i < ns; i++ {
		c.Sids = append(c.Sids, uint64(100+i*7+rng.Intn(5)))
		at := 0
		if i > 0 && rng.Intn(2) == 0 {
			at = rng.Intn(c.Budget * 2 / 3)
		}
		c.SidAt = append(c.SidAt, at)
	}
	c.VE = uint64(vrand.Weighted(rng, []int{6, 3, 1}))
	capTarget := uint64(60 + rng.Intn(200))
	c.MaxCU = capTarget / (c.VE + 1)
	c.VEBumpAt = -1
	if rng.Intn(4) == 0 {
		c.VEBumpAt = c.Budget/2 + rng.Intn(c.Budget/3)
	}
	c.Rendezvous = rng.Intn(2) == 0
	c.Updates = rng.Intn(10) < 6
	c.UpdatePct = 20 + rng.Intn(40)
	c.FailPct = 20 + rng.Intn(30)
	// epoch plan: small non-invalidating steps, stale calls, and in half of the rounds steps that
	// invalidate the epoch the workers are using
	cur := uint64(epoch0)
	steps := rng.Intn(5)
	invalidating := rng.Intn(2) == 0
	at := 0
	for i := 0; i < steps; i++ {
		at += 5 + rng.Intn(c.Budget/3)
		if at >= c.Budget {
			break
		}
		var e uint64
		switch {
		case invalidating && rng.Intn(2) == 0:
			cur += blockDistance
			e = cur
		case rng.Intn(4) == 0:
			e = cur - uint64(1+rng.Intn(3)) // stale: must be ignored
		default:
			cur += uint64(1 + rng.Intn(3))
			e = cur
		}
		c.EpochPlan = append(c.EpochPlan, epochStep{At: at, Epoch: e, After: rng.Intn(2) == 0})
	}
	c.YieldWeight = vrand.Pick(rng, [][]int{{2, 1, 1}, {1, 1, 2}, {1, 2, 1}, {0, 1, 3}})
	return c
}

// ---------------------------------------------------------------------------------------------
// round runtime

type keyState struct {
	inuse     atomic.Int32 // holders of the session id (epoch, project, id)
	nextRelay atomic.Uint64
	mu        sync.Mutex
	objs      []*lavasession.SingleProviderSession // every distinct object handed out for this id
	via       []bool                               // ... and whether that acquisition passed the create path
	objInuse  []*atomic.Int32                      // holders per object
}

// handedOut registers the object an acquisition returned; isNew reports a not yet seen object,
// first is the first object ever handed out for the id (nil when this one is the first).
func (ks *keyState) handedOut(s *lavasession.SingleProviderSession, via bool) (inuse *atomic.Int32, first *lavasession.SingleProviderSession, firstVia bool, isNew bool) {
	ks.mu.Lock()
	defer ks.mu.Unlock()
	for i, o := range ks.objs {
		if o == s {
			return ks.objInuse[i], ks.objs[0], ks.via[0], false
		}
	}
	ks.objs = append(ks.objs, s)
	ks.via = append(ks.via, via)
	ks.objInuse = append(ks.objInuse, new(atomic.Int32))
	if len(ks.objs) == 1 {
		return ks.objInuse[0], nil, false, true
	}
	return ks.objInuse[len(ks.objs)-1], ks.objs[0], ks.via[0], true
}

type worker struct {
	id     int
	rng    *rand.Rand
	role   string
	key    string // current (epoch/project/sid) for yields
	pkey   string
	nYield int
	sawCr  bool
	ylog   []yev
	relays []*relayRec
	upds   []*updRec
	reads  []*readRec
	epochs []*epochRec
}

type onlineViol struct {
	Rule, Sig, Desc string
	PKey            string
}

type round struct {
	cfg      roundCfg
	seed     int64
	psm      *lavasession.ProviderSessionManager
	keys     sync.Map // key string -> *keyState
	g2w      sync.Map // goid -> *worker
	opsStart atomic.Int64
	curEpoch atomic.Uint64
	maxEpoch atomic.Uint64 // highest epoch an UpdateEpoch call was STARTED with
	taint    sync.Map      // key -> true (a duplicate session object was handed out for this id)
	rdv      rdv
	rdvDone  atomic.Int64
	dupHeld  atomic.Int64

	mu      sync.Mutex
	objs    map[*lavasession.SingleProviderSession]int
	objKey  []string
	parents map[string]*lavasession.ProviderSessionsWithConsumerProject // pkey -> first project object seen
	online  []onlineViol
	extra   []*worker // detached updaters
	wg      sync.WaitGroup
}

func pkeyOf(epoch uint64, project string) string { return fmt.Sprintf("%d/%s", epoch, project) }
func keyOf(epoch uint64, project string, sid uint64) string {
	return fmt.Sprintf("%d/%s/%d", epoch, project, sid)
}

func (r *round) key(k string) *keyState {
	if v, ok := r.keys.Load(k); ok {
		return v.(*keyState)
	}
	v, _ := r.keys.LoadOrStore(k, &keyState{})
	return v.(*keyState)
}

func (r *round) objIndex(s *lavasession.SingleProviderSession, key string) int {
	r.mu.Lock()
	defer r.mu.Unlock()
	if i, ok := r.objs[s]; ok {
		return i
	}
	i := len(r.objKey)
	r.objs[s] = i
	r.objKey = append(r.objKey, key)
	return i
}

func (r *round) addOnline(v onlineViol) {
	r.mu.Lock()
	r.online = append(r.online, v)
	r.mu.Unlock()
}

// epoch e can no longer be relied on as valid once an UpdateEpoch(e') with e' - blockDistance >= e was started
func (r *round) maybeInvalid(e uint64) bool {
	m := r.maxEpoch.Load()
	return m >= blockDistance && m-blockDistance >= e
}

// two-party rendezvous per key: "both past the failed lookup, neither past the insert"
type rdv struct {
	mu      sync.Mutex
	waiting map[string]chan struct{}
}

func (d *rdv) meet(key string, timeout time.Duration) bool {
	d.mu.Lock()
	if ch, ok := d.waiting[key]; ok {
		delete(d.waiting, key)
		d.mu.Unlock()
		close(ch)
		return true
	}
	ch := make(chan struct{})
	d.waiting[key] = ch
	d.mu.Unlock()
	select {
	case <-ch:
		return true
	case <-time.After(timeout): // schedule control only; never a verdict
		d.mu.Lock()
		if d.waiting[key] == ch {
			delete(d.waiting, key)
		}
		d.mu.Unlock()
		select {
		case <-ch:
			return true
		default:
			return false
		}
	}
}

var curRound atomic.Pointer[round]

func yieldDispatch(point string) {
	r := curRound.Load()
	if r == nil {
		return
	}
	v, ok := r.g2w.Load(goid())
	if !ok {
		return
	}
	w := v.(*worker)
	w.ylog = append(w.ylog, yev{T: tick(), Proc: w.id, Role: w.role, Point: point, Key: w.key})
	w.nYield++
	if point == pCreate {
		w.sawCr = true
		if r.cfg.Rendezvous {
			if r.rdv.meet(w.key, 3*time.Millisecond) {
				r.rdvDone.Add(1)
			}
			return
		}
	}
	if w.nYield > 400 { // a CAS loop that keeps losing must not be slowed down forever
		return
	}
	switch vrand.Weighted(w.rng, r.cfg.YieldWeight) {
	case 1:
		runtime.Gosched()
	case 2:
		time.Sleep(time.Duration(w.rng.Intn(200)) * time.Microsecond)
	}
}

func classify(err error) string {
	switch {
	case err == nil:
		return "ok"
	case lavasession.MaximumCULimitReachedByConsumer.Is(err):
		return "limit"
	case lavasession.ProviderConsumerCuMisMatch.Is(err):
		return "cu-mismatch"
	case lavasession.InvalidEpochError.Is(err):
		return "invalid-epoch"
	case lavasession.ConsumerNotRegisteredYet.Is(err):
		return "not-registered"
	case lavasession.SessionOutOfSyncError.Is(err):
		if strings.Contains(err.Error(), "tryLockForUse") {
			return "session-busy"
		}
		return "relay-num"
	case lavasession.EpochIsNotRegisteredError.Is(err), lavasession.ConsumerIsNotRegisteredError.Is(err), lavasession.SessionIdNotFoundError.Is(err):
		return "not-found"
	}
	s := err.Error()
	if len(s) > 60 {
		s = s[:60]
	}
	return "err:" + s
}

func (r *round) ve() uint64 {
	if r.cfg.VEBumpAt >= 0 && int(r.opsStart.Load()) >= r.cfg.VEBumpAt {
		return r.cfg.VE + 1
	}
	return r.cfg.VE
}

// one relay, the way RPCProviderServer.Relay drives the session manager
func (r *round) relay(w *worker) {
	rng := w.rng
	n := int(r.opsStart.Load())
	ci := rng.Intn(len(r.cfg.Consumers))
	var active []uint64
	for i, s := range r.cfg.Sids {
		if r.cfg.SidAt[i] <= n {
			active = append(active, s)
		}
	}
	sid := active[rng.Intn(len(active))]
	if rng.Intn(3) == 0 { // bias to the newest id so that first uses are contended
		sid = active[len(active)-1]
	}
	epoch := r.curEpoch.Load()
	rl := &relayRec{Proc: w.id, Epoch: epoch, Consumer: r.cfg.Consumers[ci], Project: r.cfg.Projects[ci], Sid: sid, Obj: -1}
	w.relays = append(w.relays, rl)
	k := keyOf(epoch, rl.Project, sid)
	pk := pkeyOf(epoch, rl.Project)
	ks := r.key(k)
	rl.RelayNum = ks.nextRelay.Add(1)
	if rl.RelayNum > 1 && rng.Intn(100) < 15 { // replayed / stale relay number
		rl.Replay = true
		back := uint64(1 + rng.Intn(2))
		if back >= rl.RelayNum {
			back = rl.RelayNum - 1
		}
		rl.RelayNum -= back
	}
	w.role, w.key, w.pkey, w.sawCr = "relay", k, pk, false
	ctx := utils.WithUniqueIdentifier(context.Background(), uint64(r.cfg.Idx)<<20|uint64(w.id)<<10|uint64(len(w.relays)))

	rl.TGetCall = tick()
	sess, err := r.psm.GetSession(ctx, rl.Consumer, epoch, sid, rl.RelayNum)
	if err != nil && lavasession.ConsumerNotRegisteredYet.Is(err) {
		rl.Registered = true
		sess, err = r.psm.RegisterProviderSessionWithConsumer(ctx, rl.Consumer, epoch, sid, rl.RelayNum, r.cfg.MaxCU, 1, rl.Project)
	}
	rl.TGetRet = tick()
	rl.AcqRes = classify(err)
	rl.ViaCreate = w.sawCr
	if err != nil {
		return
	}
	// ---- the session is held by this goroutine from here on
	rl.Obj = r.objIndex(sess, k)
	objInuse, first, firstVia, isNew := ks.handedOut(sess, rl.ViaCreate)
	if isNew && first != nil {
		r.taint.Store(k, true)
		sig := "other-path"
		if rl.ViaCreate && firstVia {
			sig = "createNewSingleProviderSession:no-recheck-under-write-lock"
		}
		r.addOnline(onlineViol{Rule: "two-session-objects-one-id", Sig: sig, PKey: pk,
			Desc: fmt.Sprintf("round %d: session id %d of %s was handed out as NEW object #%d to proc %d (relay %d) although object #%d had already been handed out for the same id; both acquisitions went through createNewSingleProviderSession: %v", r.cfg.Idx, sid, pk, rl.Obj, w.id, rl.RelayNum, r.objIndex(first, k), rl.ViaCreate && firstVia)})
	}
	if p := sess.VerifC27Parent(); p != nil {
		r.mu.Lock()
		if q, ok := r.parents[pk]; !ok {
			r.parents[pk] = p
		} else if q != p {
			r.online = append(r.online, onlineViol{Rule: "two-project-objects-one-id", Sig: "registerNewConsumer", PKey: pk, Desc: "two per-project accounting objects for " + pk})
		}
		r.mu.Unlock()
	}
	// (c) in-use counters, incremented right after the acquisition, decremented right before the release
	c, oc := ks.inuse.Add(1), objInuse.Add(1)
	if oc > 1 {
		r.addOnline(onlineViol{Rule: "session-held-twice", Sig: "same-session-object", PKey: pk,
			Desc: fmt.Sprintf("round %d: %d goroutines hold the same session object of %s at once (proc %d, relay %d)", r.cfg.Idx, oc, k, w.id, rl.RelayNum)})
	} else if c > 1 {
		if _, dup := r.taint.Load(k); dup {
			r.dupHeld.Add(1) // distinct objects of one id held at once: the consequence of the duplicate object already reported
		} else {
			r.addOnline(onlineViol{Rule: "session-held-twice", Sig: "in-use-counter>1", PKey: pk,
				Desc: fmt.Sprintf("round %d: %d goroutines hold session %s at once (proc %d, relay %d)", r.cfg.Idx, c, k, w.id, rl.RelayNum)})
		}
	}
	release := func() { objInuse.Add(-1); ks.inuse.Add(-1) }
	hv := sess.VerifC27HeldView()
	rl.C0 = hv.CuSum
	rl.TC0 = tick()

	rl.Cu = uint64(1 + rng.Intn(10))
	switch x := rng.Intn(100); {
	case x < 70:
		rl.Total = rl.C0 + rl.Cu
	case x < 85:
		rl.Total = rl.C0 + rl.Cu + uint64(1+rng.Intn(5)) // consumer pays more
	default: // consumer is behind: missing-CU branch
		d := uint64(1 + rng.Intn(int(rl.Cu)+3))
		if d > rl.C0+rl.Cu {
			d = rl.C0 + rl.Cu
		}
		rl.Total = rl.C0 + rl.Cu - d
	}
	rl.Thr = []float64{0, 0.1, 0.5}[rng.Intn(3)]
	rl.VE = r.ve()
	rl.TPrepCall = tick()
	err = sess.PrepareSessionForUsage(ctx, rl.Cu, rl.Total, rl.Thr, rl.VE)
	rl.TPrepRet = tick()
	rl.PrepRes = classify(err)
	if err != nil {
		rl.End = "disband"
		rl.CEnd = sess.VerifC27HeldView().CuSum
		release()
		rl.TEndCall = tick()
		if e := sess.DisbandSession(); e != nil {
			rl.EndErr = classify(e)
		}
		rl.TEndRet = tick()
		return
	}
	hv = sess.VerifC27HeldView()
	rl.C1, rl.X = hv.CuSum, hv.LatestRelayCu
	// "serving" the relay
	switch rng.Intn(3) {
	case 1:
		runtime.Gosched()
	case 2:
		time.Sleep(time.Duration(rng.Intn(150)) * time.Microsecond)
	}
	hv = sess.VerifC27HeldView()
	rl.CEnd, rl.XFail = hv.CuSum, hv.LatestRelayCu
	if rng.Intn(100) < r.cfg.FailPct {
		rl.End = "fail"
		release()
		rl.TEndCall = tick()
		err = r.psm.OnSessionFailure(sess, rl.RelayNum)
		rl.TEndRet = tick()
		// the epoch was valid during the whole call iff no invalidating UpdateEpoch had even been started by now
		rl.MustRollback = !r.maybeInvalid(epoch)
	} else {
		rl.End = "done"
		release()
		rl.TEndCall = tick()
		err = r.psm.OnSessionDone(sess, rl.RelayNum)
		rl.TEndRet = tick()
	}
	if err != nil {
		rl.EndErr = classify(err)
	}
	// the server starts `go SendProof(...)` after OnSessionDone; when the reward server already holds a
	// proof with more CU it calls UpdateSessionCU(consumer, epoch, sessionId, storedCU) from there
	if rl.End == "done" && r.cfg.Updates && rng.Intn(100) < r.cfg.UpdatePct {
		newCU := rl.C1 + uint64(1+rng.Intn(8))
		if rng.Intn(6) == 0 {
			newCU = rl.C1 - uint64(rng.Intn(int(rl.C1)+1)) // not higher: must be a no-op
		}
		u := &updRec{Epoch: epoch, Consumer: rl.Consumer, Project: rl.Project, Sid: sid, NewCU: newCU}
		uw := &worker{id: 1000 + w.id*20 + len(w.relays), rng: rand.New(rand.NewSource(rng.Int63())), role: "update", key: k, pkey: pk}
		u.Proc = uw.id
		uw.upds = append(uw.upds, u)
		r.mu.Lock()
		r.extra = append(r.extra, uw)
		r.mu.Unlock()
		r.wg.Add(1)
		go func() {
			defer r.wg.Done()
			id := goid()
			r.g2w.Store(id, uw)
			defer r.g2w.Delete(id)
			u.TCall = tick()
			e := r.psm.UpdateSessionCU(u.Consumer, u.Epoch, u.Sid, u.NewCU)
			u.TRet = tick()
			u.Res = classify(e)
		}()
	}
}

func (r *round) epochUpdater(w *worker) {
	cur := uint64(epoch0)
	used := []uint64{epoch0} // epochs the relay goroutines were directed to
	invalidated := map[uint64]bool{}
	for _, st := range r.cfg.EpochPlan {
		for int(r.opsStart.Load()) < st.At {
			if int(r.opsStart.Load()) >= r.cfg.Budget {
				return
			}
			time.Sleep(50 * time.Microsecond)
		}
		rec := &epochRec{Proc: w.id, Epoch: st.Epoch}
		if st.Epoch > cur && st.Epoch >= blockDistance {
			for _, e := range used {
				if st.Epoch-blockDistance >= e && !invalidated[e] {
					invalidated[e] = true
					rec.Invalidates = append(rec.Invalidates, e)
				}
			}
		}
		w.epochs = append(w.epochs, rec)
		for {
			m := r.maxEpoch.Load()
			if st.Epoch <= m || r.maxEpoch.CompareAndSwap(m, st.Epoch) {
				break
			}
		}
		switchEpoch := st.Epoch > cur && st.Epoch-blockDistance >= r.curEpoch.Load()
		if switchEpoch {
			used = append(used, st.Epoch)
		}
		if switchEpoch && !st.After {
			r.curEpoch.Store(st.Epoch)
		}
		rec.TCall = tick()
		r.psm.UpdateEpoch(st.Epoch)
		rec.TRet = tick()
		if switchEpoch && st.After {
			r.curEpoch.Store(st.Epoch)
		}
		if st.Epoch > cur {
			cur = st.Epoch
		}
	}
}

func (r *round) reader(w *worker, stop *atomic.Bool) {
	for i := 0; i < 24 && !stop.Load(); i++ {
		epoch := r.curEpoch.Load()
		for _, p := range uniq(r.cfg.Projects) {
			rec := &readRec{Proc: w.id, Epoch: epoch, Project: p}
			rec.TCall = tick()
			obj := r.psm.VerifC27Project(epoch, p)
			if obj == nil {
				continue
			}
			rec.Used = obj.VerifC27UsedCU()
			rec.TRet = tick()
			w.reads = append(w.reads, rec)
		}
		time.Sleep(time.Duration(100+w.rng.Intn(400)) * time.Microsecond)
	}
}

func uniq(xs []string) []string {
	seen := map[string]bool{}
	var out []string
	for _, x := range xs {
		if !seen[x] {
			seen[x] = true
			out = append(out, x)
		}
	}
	return out
}

// runRound executes one round and returns everything recorded plus the quiescent views.
func runRound(seed int64, cfg roundCfg) *roundData {
	r := &round{cfg: cfg, seed: seed, objs: map[*lavasession.SingleProviderSession]int{}, parents: map[string]*lavasession.ProviderSessionsWithConsumerProject{}}
	r.rdv.waiting = map[string]chan struct{}{}
	r.psm = lavasession.NewProviderSessionManager(&lavasession.RPCProviderEndpoint{
		NetworkAddress: lavasession.NetworkAddressData{Address: "127.0.0.1:6666"}, ChainID: "LAV1", ApiInterface: "tendermint", Geolocation: 1,
		NodeUrls: []common.NodeUrl{{Url: "http://localhost:666"}},
	}, blockDistance)
	r.psm.UpdateEpoch(epoch0)
	r.curEpoch.Store(epoch0)
	r.maxEpoch.Store(epoch0)
	curRound.Store(r)
	defer curRound.Store(nil)

	workers := make([]*worker, cfg.Workers+2)
	for i := range workers {
		workers[i] = &worker{id: i, rng: vrand.Sub(seed, fmt.Sprintf("c27-w%d", i), cfg.Idx)}
	}
	start := make(chan struct{})
	var stop atomic.Bool
	var relayWG sync.WaitGroup
	for i := 0; i < cfg.Workers; i++ {
		w := workers[i]
		r.wg.Add(1)
		relayWG.Add(1)
		go func() {
			defer r.wg.Done()
			defer relayWG.Done()
			id := goid()
			r.g2w.Store(id, w)
			defer r.g2w.Delete(id)
			<-start
			for int(r.opsStart.Add(1)) <= cfg.Budget {
				r.relay(w)
			}
		}()
	}
	ew, rw := workers[cfg.Workers], workers[cfg.Workers+1]
	ew.role, rw.role = "epoch", "reader"
	r.wg.Add(2)
	go func() { defer r.wg.Done(); <-start; r.epochUpdater(ew) }()
	go func() { defer r.wg.Done(); <-start; r.reader(rw, &stop) }()
	close(start)
	relayWG.Wait()
	stop.Store(true)
	r.wg.Wait()
	// ---- quiescence
	d := &roundData{cfg: cfg, tEnd: tick(), online: r.online, rdvDone: int(r.rdvDone.Load()), tainted: map[string]bool{}, views: map[string]lavasession.VerifC27Project{}}
	r.taint.Range(func(k, _ any) bool { d.tainted[k.(string)] = true; return true })
	d.dupHeld = int(r.dupHeld.Load())
	d.objKey = r.objKey
	d.objViews = make([]lavasession.VerifC27Session, len(r.objKey))
	for s, i := range r.objs {
		d.objViews[i] = s.VerifC27Snapshot()
	}
	for pk, p := range r.parents {
		d.views[pk] = p.VerifC27View()
	}
	for e, m := range r.psm.VerifC27Snapshot() {
		for name, v := range m {
			pk := pkeyOf(e, name)
			if _, ok := d.views[pk]; !ok {
				d.views[pk] = v
			}
		}
	}
	all := append(append([]*worker{}, workers...), r.extra...)
	for _, w := range all {
		d.relays = append(d.relays, w.relays...)
		d.upds = append(d.upds, w.upds...)
		d.reads = append(d.reads, w.reads...)
		d.epochs = append(d.epochs, w.epochs...)
		d.yields = append(d.yields, w.ylog...)
	}
	sort.Slice(d.yields, func(i, j int) bool { return d.yields[i].T < d.yields[j].T })
	return d
}

// ---------------------------------------------------------------------------------------------
// child process: runs rounds [from, to) and streams one JSON line per round

type violOut struct {
	Rule    string `json:"rule"`
	Sig     string `json:"sig"`
	Desc    string `json:"desc"`
	Round   int    `json:"round"`
	Clean   bool   `json:"clean,omitempty"`
	Witness any    `json:"witness,omitempty"`
}

type roundOut struct {
	Start      *int           `json:"start,omitempty"`
	Hung       bool           `json:"hung,omitempty"`
	Done       bool           `json:"done,omitempty"`
	Round      int            `json:"round"`
	Counters   map[string]int `json:"counters,omitempty"`
	Viol       []violOut      `json:"viol,omitempty"`
	Nontrivial string         `json:"nontrivial,omitempty"`
	Seqs       []string       `json:"seqs,omitempty"`  // hashes of per-project (role,point) sequences
	Grams      []string       `json:"grams,omitempty"` // distinct 3-grams of (role,point)
	Inconcl    []string       `json:"inconcl,omitempty"`
	Sample     any            `json:"sample,omitempty"`
	Suppressed map[string]int `json:"suppressed,omitempty"`
}

func TestC27Child(t *testing.T) {
	if os.Getenv("C27_CHILD") == "" {
		t.Skip("child entry point of TestC27")
	}
	utils.SetGlobalLoggingLevel("fatal")
	seed, _ := strconv.ParseInt(os.Getenv("VERIF_SEED"), 10, 64)
	from, _ := strconv.Atoi(os.Getenv("C27_FROM"))
	to, _ := strconv.Atoi(os.Getenv("C27_TO"))
	f, err := os.OpenFile(os.Getenv("C27_OUT"), os.O_APPEND|os.O_CREATE|os.O_WRONLY, 0o644)
	if err != nil {
		t.Fatal(err)
	}
	defer f.Close()
	emit := func(o roundOut) {
		b, _ := json.Marshal(o)
		f.Write(append(b, '\n'))
	}
	lavasession.VerifSetYield(yieldDispatch)
	witnessed := map[string]bool{}
	for i := from; i < to; i++ {
		ii := i
		emit(roundOut{Start: &ii, Round: i})
		// watchdog only: a round takes well under a second; one that does not finish is hung (deadlock in
		// the code under test or in the harness). Dump the goroutines for the parent and give up on the round.
		finished := make(chan struct{})
		go func() {
			select {
			case <-finished:
			case <-time.After(roundWatchdog):
				fmt.Fprintf(os.Stderr, "C27-ROUND-WATCHDOG round %d did not finish within %v; goroutines:\n", ii, roundWatchdog)
				pprof.Lookup("goroutine").WriteTo(os.Stderr, 2)
				emit(roundOut{Hung: true, Round: ii})
				os.Exit(3)
			}
		}()
		d := runRound(seed, makeCfg(seed, i))
		close(finished)
		emit(analyse(seed, d, witnessed))
	}
	emit(roundOut{Done: true, Round: -1})
}

// ---------------------------------------------------------------------------------------------
// parent

func TestC27(t *testing.T) {
	run := ev.Start("C27")
	nRounds := run.Pick(300, 20000)
	batch := run.Pick(50, 250)
	par := run.Pick(4, 8)
	if v, err := strconv.Atoi(os.Getenv("C27_ROUNDS")); err == nil && v > 0 {
		nRounds = v
	}
	outDir := filepath.Join(ev.Dir(), ".out", "c27race")
	os.RemoveAll(outDir)
	if err := os.MkdirAll(outDir, 0o755); err != nil {
		t.Fatal(err)
	}
	type job struct{ id, from, to int }
	var jobs []job
	for from := 0; from < nRounds; from += batch {
		jobs = append(jobs, job{len(jobs), from, min(from+batch, nRounds)})
	}
	var mu sync.Mutex // serialises aggregation into run
	seqs, grams := map[string]bool{}, map[string]bool{}
	suppressed := map[string]int{}
	histories := 0
	var viols []violOut
	aggregate := func(o roundOut) {
		mu.Lock()
		defer mu.Unlock()
		run.Eval(1)
		for k, v := range o.Counters {
			run.Count(k, v)
		}
		histories += o.Counters["porcupine_histories_checked"]
		viols = append(viols, o.Viol...)
		if o.Nontrivial != "" {
			run.Nontrivial(o.Nontrivial)
		}
		for _, s := range o.Seqs {
			seqs[s] = true
		}
		for _, g := range o.Grams {
			grams[g] = true
		}
		for _, s := range o.Inconcl {
			run.Inconclusive(s)
		}
		for k, v := range o.Suppressed {
			suppressed[k] += v
		}
		if o.Sample != nil {
			run.Sample(o.Sample)
		}
	}
	watchdog := time.Duration(run.Pick(15, 100)) * time.Minute
	runJob := func(j job) {
		from := j.from
		for attempt := 0; from < j.to && attempt < 8; attempt++ {
			out := filepath.Join(outDir, fmt.Sprintf("b%d.%d.jsonl", j.id, attempt))
			logf := filepath.Join(outDir, fmt.Sprintf("b%d.%d.log", j.id, attempt))
			lf, _ := os.Create(logf)
			ctx, cancel := context.WithTimeout(context.Background(), watchdog)
			cmd := exec.CommandContext(ctx, os.Args[0], "-test.run", "^TestC27Child$", "-test.timeout", "0")
			cmd.Env = append(os.Environ(), "C27_CHILD=1", fmt.Sprintf("C27_FROM=%d", from), fmt.Sprintf("C27_TO=%d", j.to), "C27_OUT="+out,
				fmt.Sprintf("VERIF_SEED=%d", run.Seed),
				"GORACE=halt_on_error=0 exitcode=0 history_size=3 log_path="+filepath.Join(outDir, fmt.Sprintf("race.b%d.%d", j.id, attempt)))
			cmd.Stdout, cmd.Stderr = lf, lf
			err := cmd.Run()
			timedOut := ctx.Err() != nil
			cancel()
			lf.Close()
			done, lastStart, lastDone, hung := false, -1, -1, false
			if fh, e := os.Open(out); e == nil {
				sc := bufio.NewScanner(fh)
				sc.Buffer(make([]byte, 1<<20), 1<<28)
				for sc.Scan() {
					var o roundOut
					if json.Unmarshal(sc.Bytes(), &o) != nil {
						continue
					}
					switch {
					case o.Done:
						done = true
					case o.Hung:
						hung = true
					case o.Start != nil:
						lastStart = *o.Start
					default:
						lastDone = o.Round
						aggregate(o)
					}
				}
				fh.Close()
			}
			if done { // (exit status 1 only means "race detected during execution of test": the reports are read from the log)
				return
			}
			// the child died: a Go fatal error / panic inside the session code is a violation
			tail, fatalLine, where := logTail(logf)
			crashed := lastStart
			if crashed <= lastDone {
				crashed = lastDone + 1
			}
			mu.Lock()
			switch {
			case hung:
				diag := hangDiagnosis(logf)
				run.Count("rounds_hung_"+diag, 1)
				run.Inconclusive(fmt.Sprintf("round %d did not finish within the %v round watchdog (%s); goroutine dump in %s", crashed, roundWatchdog, diag, logf))
			case timedOut:
				run.Inconclusive(fmt.Sprintf("child for rounds %d..%d hit the %v watchdog in round %d", from, j.to, watchdog, crashed))
			case fatalLine != "":
				run.Count("child_fatal_errors", 1)
				run.Violation("fatal-error-in-child", fatalLine+" @ "+where, fmt.Sprintf("child process died in round %d: %s", crashed, fatalLine),
					map[string]any{"seed": run.Seed, "round": crashed, "cfg": makeCfg(run.Seed, crashed), "child_log_tail": tail})
			default:
				run.Inconclusive(fmt.Sprintf("child for rounds %d..%d exited abnormally (%v) in round %d without a Go fatal error: %s", from, j.to, err, crashed, lastLine(tail)))
			}
			mu.Unlock()
			from = crashed + 1
		}
	}
	ch := make(chan job)
	var wg sync.WaitGroup
	for i := 0; i < par; i++ {
		wg.Add(1)
		go func() {
			defer wg.Done()
			for j := range ch {
				runJob(j)
			}
		}()
	}
	for _, j := range jobs {
		ch <- j
	}
	close(ch)
	wg.Wait()

	// violations in a deterministic order; the witness kept per (rule, signature) is the first one, so
	// prefer a witness that shows the violation on its own, then the lowest round
	rank := func(v violOut) int {
		switch {
		case v.Witness != nil && v.Clean:
			return 0
		case v.Witness != nil:
			return 1
		}
		return 2
	}
	sort.SliceStable(viols, func(i, j int) bool {
		if rank(viols[i]) != rank(viols[j]) {
			return rank(viols[i]) < rank(viols[j])
		}
		return viols[i].Round < viols[j].Round
	})
	for _, v := range viols {
		run.Violation(v.Rule, v.Sig, v.Desc, v.Witness)
	}

	// (g) race detector reports of the children
	reports := parseRaceLogs(outDir)
	classes := map[string]int{}
	dedup := map[string]bool{}
	for _, rp := range reports {
		run.Count("race_reports_total", 1)
		if dedup[rp.dedupKey()] {
			continue
		}
		dedup[rp.dedupKey()] = true
		run.Count("race_reports_distinct", 1)
		cls, field, sig := rp.attribute(ev.RepoDir())
		classes[cls]++
		if cls == "monitored-field-write" {
			run.Violation("data-race-on-accounting-field", sig, fmt.Sprintf("race detector: unsynchronised access pair, one side writes %s", field),
				map[string]any{"seed": run.Seed, "report": rp.Text})
		}
	}
	for k, v := range classes {
		run.Count("race_class_"+k, v)
	}
	run.Set("race_reports_by_class", classes)
	run.Set("interleavings", map[string]int{"distinct_project_sequences_of_role_point": len(seqs), "distinct_3grams_of_role_point": len(grams)})
	run.Count("interleavings_distinct_sequences", len(seqs))
	run.Count("interleavings_distinct_3grams", len(grams))
	run.Set("porcupine_histories_checked", histories)
	run.Set("downstream_effects_suppressed", suppressed)
	run.Set("race_detector_enabled", raceEnabled)

	run.Require("test binary built with -race", raceEnabled)
	run.Require("rendezvous on first use of a new session id happened", run.Counter("rendezvous_completed") > 0)
	run.Require("CU-near-cap rejections happened", run.Counter("prepare_limit_rejections") > 0)
	run.Require("failure rollbacks (epoch valid) happened", run.Counter("failures_must_rollback") > 0)
	run.Require("effective UpdateSessionCU calls happened", run.Counter("updates_ok_raising") > 0)
	run.Require("epoch updates happened (advancing and invalidating)", run.Counter("epoch_updates_advancing") > 0 && run.Counter("epoch_updates_invalidating") > 0)
	run.Require("relay-number replays were rejected", run.Counter("acquire_rejected_relay_num") > 0)
	run.Require("porcupine checked histories", histories > 0)

	run.Finish("rounds of <=200 client calls on a fresh real ProviderSessionManager (16-64 relay goroutines following the rpcprovider_server call protocol, detached UpdateSessionCU, epoch updater, used-CU reader; 1-2 consumers, 1-4 session ids, max CU reached inside the round; H3 yields: Gosched / seeded sleeps / 2-party rendezvous on first use of a session id); oracles: used==sum(CuSum) at quiescence, cap at acceptance, in-use counter<=1 and one object per id, relay numbers increasing, exact rollback, porcupine on the per-project accounting object, attributed race reports, child fatal errors. A round is non-trivial when two different goroutines got the same session accepted, a CU-limit rejection happened while the project had accepted CU, and a failure was rolled back with the epoch valid; distinct = distinct (yield sequence, result sequence) of such rounds",
		nRounds/4,
		"the monotonic call counter is a shared atomic and therefore a happens-before edge: the race detector only sees accesses that overlap between two ticks",
		"UpdateSessionCU is issued as the server issues it (detached, after OnSessionDone), never by the goroutine that holds the session")
}

func logTail(path string) (tail string, fatalLine string, where string) {
	b, err := os.ReadFile(path)
	if err != nil {
		return "", "", ""
	}
	lines := strings.Split(string(b), "\n")
	fi := -1
	for i, l := range lines {
		if strings.HasPrefix(l, "fatal error: ") || strings.HasPrefix(l, "panic: ") {
			fi = i
			fatalLine = strings.TrimSpace(l)
			if j := strings.Index(fatalLine[1:], "fatal error: "); j >= 0 { // two threads dying at once interleave their lines
				fatalLine = fatalLine[:j+1]
			}
			break
		}
	}
	if fi >= 0 {
		for _, l := range lines[fi:] {
			l = strings.TrimSpace(l)
			if strings.Contains(l, "/lavasession.") && !strings.Contains(l, "Verif") {
				where = shortFunc(strings.SplitN(l, "(0x", 2)[0])
				break
			}
		}
		end := min(len(lines), fi+60)
		return strings.Join(lines[fi:end], "\n"), fatalLine, where
	}
	start := max(0, len(lines)-40)
	return strings.Join(lines[start:], "\n"), "", ""
}

// hangDiagnosis names the one hang pattern seen so far: UpdateSessionCU takes psm.lock.RLock() and, still
// holding it, calls readConsumerToPairedWithProjectMap which takes psm.lock.RLock() again; with a writer
// (UpdateEpoch / registerNewConsumer) queued between the two, sync.RWMutex blocks the second RLock forever.
func hangDiagnosis(logf string) string {
	b, _ := os.ReadFile(logf)
	for _, g := range strings.Split(string(b), "\n\n") {
		if strings.Contains(g, "readConsumerToPairedWithProjectMap") && strings.Contains(g, "UpdateSessionCU") && strings.Contains(g, "RWMutex).RLock") {
			return "recursive-RLock-of-psm.lock-in-UpdateSessionCU-behind-a-queued-writer"
		}
	}
	return "unclassified"
}

func lastLine(s string) string {
	ls := strings.Split(strings.TrimSpace(s), "\n")
	return ls[len(ls)-1]
}
