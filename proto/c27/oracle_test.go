//go:build verif

package c27

import (
	"crypto/sha256"
	"encoding/hex"
	"fmt"
	"sort"
	"strings"
	"time"

	"github.com/anishathalye/porcupine"
	"github.com/lavanet/lava/v5/protocol/lavasession"
)

type roundData struct {
	cfg      roundCfg
	tEnd     int64
	relays   []*relayRec
	upds     []*updRec
	reads    []*readRec
	epochs   []*epochRec
	yields   []yev
	online   []onlineViol
	rdvDone  int
	tainted  map[string]bool // session keys for which more than one object was handed out
	dupHeld  int
	objKey   []string
	objViews []lavasession.VerifC27Session
	views    map[string]lavasession.VerifC27Project
}

func hash(s string) string {
	h := sha256.Sum256([]byte(s))
	return hex.EncodeToString(h[:8])
}

// ---------------------------------------------------------------------------------------------
// (f) sequential model of one per-project accounting object: used CU + CuSum per session id.
//   add(sid, x, cap) -> ok      : legal only if used + x <= cap ; used += x ; cusum[sid] += x
//   fail(sid, x, must)          : used -= x ; cusum[sid] -= x   (when the epoch may already be invalid: either that or nothing)
//   bump(sid, newCU)            : if newCU > cusum[sid] { used += newCU - cusum[sid] ; cusum[sid] = newCU }
//   read -> v                   : v == used
//   cusum(sid) -> v             : v == cusum[sid]
// Rejected adds are not part of the history: the statement forbids over-acceptance, not rejection.

const maxSess = 12 // session objects per project the model state has room for

type pcState struct {
	Used uint64
	Cus  [maxSess]uint64
}

const (
	kAdd = iota
	kFail
	kBump
	kRead
	kCus
)

type pcIn struct {
	Kind  int
	Sid   int
	X     uint64
	Cap   uint64
	Must  bool
	NewCU uint64
}

type pcOut struct{ V uint64 }

func pcStep(state, input, output interface{}) []interface{} {
	st, in, out := state.(pcState), input.(pcIn), output.(pcOut)
	switch in.Kind {
	case kAdd:
		if st.Used+in.X > in.Cap {
			return nil
		}
		st.Used += in.X
		st.Cus[in.Sid] += in.X
		return []interface{}{st}
	case kFail:
		var res []interface{}
		if !in.Must {
			res = append(res, st)
		}
		if st.Used >= in.X && st.Cus[in.Sid] >= in.X {
			st.Used -= in.X
			st.Cus[in.Sid] -= in.X
			res = append(res, st)
		}
		return res
	case kBump:
		if in.NewCU > st.Cus[in.Sid] {
			st.Used += in.NewCU - st.Cus[in.Sid]
			st.Cus[in.Sid] = in.NewCU
		}
		return []interface{}{st}
	case kRead:
		if out.V != st.Used {
			return nil
		}
		return []interface{}{st}
	case kCus:
		if out.V != st.Cus[in.Sid] {
			return nil
		}
		return []interface{}{st}
	}
	return nil
}

var pcNondet = porcupine.NondeterministicModel{
	Init:  func() []interface{} { return []interface{}{pcState{}} },
	Step:  pcStep,
	Equal: func(a, b interface{}) bool { return a.(pcState) == b.(pcState) },
}

var pcModel = pcNondet.ToModel()

var porcupineTimeout = 2 * time.Minute

// ---------------------------------------------------------------------------------------------

func (d *roundData) calls(pk string) []call {
	var out []call
	for _, r := range d.relays {
		if pk != "" && pkeyOf(r.Epoch, r.Project) != pk {
			continue
		}
		op := "GetSession"
		if r.Registered {
			op = "GetSession+RegisterProviderSessionWithConsumer"
		}
		res := r.AcqRes
		if r.AcqRes == "ok" {
			res = fmt.Sprintf("ok obj#%d cusum=%d", r.Obj, r.C0)
		}
		out = append(out, call{r.Proc, op, fmt.Sprintf("consumer=%s epoch=%d sid=%d relay=%d", r.Consumer, r.Epoch, r.Sid, r.RelayNum), r.TGetCall, res, r.TGetRet})
		if r.AcqRes != "ok" {
			continue
		}
		res = r.PrepRes
		if r.PrepRes == "ok" {
			res = fmt.Sprintf("ok added=%d cusum=%d", r.X, r.C1)
		}
		out = append(out, call{r.Proc, "PrepareSessionForUsage", fmt.Sprintf("sid=%d obj#%d cu=%d total=%d thr=%.1f ve=%d", r.Sid, r.Obj, r.Cu, r.Total, r.Thr, r.VE), r.TPrepCall, res, r.TPrepRet})
		op = map[string]string{"done": "OnSessionDone", "fail": "OnSessionFailure", "disband": "DisbandSession"}[r.End]
		res = "ok"
		if r.EndErr != "" {
			res = r.EndErr
		}
		if r.End == "fail" {
			res += fmt.Sprintf(" latest_relay_cu=%d epoch_certainly_valid=%v", r.XFail, r.MustRollback)
		}
		out = append(out, call{r.Proc, op, fmt.Sprintf("sid=%d obj#%d relay=%d cusum_before=%d", r.Sid, r.Obj, r.RelayNum, r.CEnd), r.TEndCall, res, r.TEndRet})
	}
	for _, u := range d.upds {
		if pk != "" && pkeyOf(u.Epoch, u.Project) != pk {
			continue
		}
		out = append(out, call{u.Proc, "UpdateSessionCU", fmt.Sprintf("consumer=%s epoch=%d sid=%d newCU=%d", u.Consumer, u.Epoch, u.Sid, u.NewCU), u.TCall, u.Res, u.TRet})
	}
	for _, e := range d.epochs {
		out = append(out, call{e.Proc, "UpdateEpoch", fmt.Sprintf("epoch=%d invalidates=%v", e.Epoch, e.Invalidates), e.TCall, "", e.TRet})
	}
	for _, r := range d.reads {
		if pk != "" && pkeyOf(r.Epoch, r.Project) != pk {
			continue
		}
		out = append(out, call{r.Proc, "ReadUsedCU", fmt.Sprintf("epoch=%d project=%s", r.Epoch, r.Project), r.TCall, fmt.Sprint(r.Used), r.TRet})
	}
	sort.Slice(out, func(i, j int) bool { return out[i].TCall < out[j].TCall })
	return out
}

func overlap(a1, a2, b1, b2 int64) bool { return a1 <= b2 && b1 <= a2 }

// an effective-looking UpdateSessionCU ran concurrently with a hold / accounting op of the same project
func (d *roundData) updateConcurrent(pk string) bool {
	for _, u := range d.upds {
		if u.Res != "ok" || pkeyOf(u.Epoch, u.Project) != pk {
			continue
		}
		for _, r := range d.relays {
			if r.AcqRes == "ok" && pkeyOf(r.Epoch, r.Project) == pk && overlap(u.TCall, u.TRet, r.TGetCall, r.TEndRet) {
				return true
			}
		}
		for _, u2 := range d.upds {
			if u2 != u && u2.Res == "ok" && pkeyOf(u2.Epoch, u2.Project) == pk && overlap(u.TCall, u.TRet, u2.TCall, u2.TRet) {
				return true
			}
		}
	}
	return false
}

type facet struct{ rule, desc string }

func analyse(seed int64, d *roundData, witnessed map[string]bool) roundOut {
	o := roundOut{Round: d.cfg.Idx, Counters: map[string]int{}, Suppressed: map[string]int{}}
	cnt := o.Counters
	cnt["rounds"] = 1
	cnt["rendezvous_completed"] = d.rdvDone
	cnt["yields_total"] = len(d.yields)
	cnt["relay_goroutines"] = d.cfg.Workers
	witness := func(pk string) any {
		var ys []yev
		for _, y := range d.yields {
			if pk == "" || strings.HasPrefix(y.Key, pk+"/") {
				ys = append(ys, y)
			}
		}
		return map[string]any{"seed": seed, "round": d.cfg.Idx, "cfg": d.cfg, "project": pk, "final_view": d.views[pk], "calls": d.calls(pk), "yields": ys,
			"replay": fmt.Sprintf("VERIF_SEED=%d ./check C27 re-runs this round (round index %d); schedules are not reproducible bit-for-bit, the recorded history is the witness", seed, d.cfg.Idx)}
	}
	// clean: no duplicate session object in the project, i.e. the witness shows this violation on its own
	report := func(rule, sig, desc, pk string, clean bool) {
		v := violOut{Rule: rule, Sig: sig, Desc: desc, Round: d.cfg.Idx, Clean: clean}
		if !witnessed[rule+"|"+sig] || (clean && !witnessed["clean|"+rule+"|"+sig]) {
			witnessed[rule+"|"+sig] = true
			if clean {
				witnessed["clean|"+rule+"|"+sig] = true
			}
			v.Witness = witness(pk)
		}
		o.Viol = append(o.Viol, v)
	}

	// ---- counters over the recorded calls
	for _, r := range d.relays {
		cnt["relay_attempts"]++
		cnt["client_calls"]++
		if r.Registered {
			cnt["register_calls"]++
		}
		switch r.AcqRes {
		case "ok":
			cnt["acquired"]++
		case "relay-num":
			cnt["acquire_rejected_relay_num"]++
		case "session-busy":
			cnt["acquire_rejected_session_busy"]++
		case "invalid-epoch":
			cnt["acquire_rejected_invalid_epoch"]++
		default:
			cnt["acquire_rejected_other"]++
		}
		if r.AcqRes != "ok" {
			continue
		}
		cnt["client_calls"] += 2
		switch r.PrepRes {
		case "ok":
			cnt["prepared_ok"]++
		case "limit":
			cnt["prepare_limit_rejections"]++
		case "cu-mismatch":
			cnt["prepare_cu_mismatch"]++
		default:
			cnt["prepare_other_error"]++
		}
		switch r.End {
		case "done":
			cnt["done"]++
		case "fail":
			cnt["failures"]++
			if r.MustRollback {
				cnt["failures_must_rollback"]++
			} else {
				cnt["failures_epoch_maybe_invalid"]++
			}
		}
		if r.EndErr != "" {
			cnt["end_call_errors"]++
		}
	}
	raised := map[int]bool{}
	for _, y := range d.yields {
		if y.Point == pUpdUsed {
			raised[y.Proc] = true
		}
	}
	for _, u := range d.upds {
		cnt["updates_issued"]++
		cnt["client_calls"]++
		if u.Res == "ok" {
			if raised[u.Proc] {
				cnt["updates_ok_raising"]++
			} else {
				cnt["updates_ok_noop"]++
			}
		} else {
			cnt["updates_error"]++
		}
	}
	cur := uint64(epoch0)
	for _, e := range d.epochs {
		cnt["client_calls"]++
		if e.Epoch > cur {
			cur = e.Epoch
			cnt["epoch_updates_advancing"]++
			if len(e.Invalidates) > 0 {
				cnt["epoch_updates_invalidating"]++
			}
		} else {
			cnt["epoch_updates_stale"]++
		}
	}
	cnt["client_calls"] += len(d.reads)
	cnt["reads"] = len(d.reads)

	// ---- (c) online oracles: one object per id, in-use counter
	for _, v := range d.online {
		report(v.Rule, v.Sig, v.Desc, v.PKey, true)
	}

	// ---- per project
	pks := map[string]bool{}
	for _, r := range d.relays {
		if r.AcqRes == "ok" {
			pks[pkeyOf(r.Epoch, r.Project)] = true
		}
	}
	var pkl []string
	for pk := range pks {
		pkl = append(pkl, pk)
	}
	sort.Strings(pkl)
	o.Suppressed["in_use_counter_gt1_with_distinct_objects_after_duplicate"] += d.dupHeld
	nontrivial := false
	for _, pk := range pkl {
		var facets []facet
		view, haveView := d.views[pk]
		// holds per session OBJECT in lock order (without the duplicate-object defect: one object per id)
		byObj := map[int][]*relayRec{}
		var adds, fails []*relayRec
		dupInProject := false
		for _, r := range d.relays {
			if r.AcqRes != "ok" || pkeyOf(r.Epoch, r.Project) != pk {
				continue
			}
			byObj[r.Obj] = append(byObj[r.Obj], r)
			if d.tainted[keyOf(r.Epoch, r.Project, r.Sid)] {
				dupInProject = true
			}
			if r.PrepRes == "ok" {
				adds = append(adds, r)
				if r.End == "fail" {
					fails = append(fails, r)
				}
			}
		}
		var myUpds []*updRec
		updOnDupKey := false
		for _, u := range d.upds {
			if u.Res == "ok" && pkeyOf(u.Epoch, u.Project) == pk {
				myUpds = append(myUpds, u)
				if d.tainted[keyOf(u.Epoch, u.Project, u.Sid)] {
					updOnDupKey = true
				}
			}
		}
		objs := make([]int, 0, len(byObj))
		for ob := range byObj {
			objs = append(objs, ob)
		}
		sort.Ints(objs)
		// (a) used == sum CuSum at quiescence, over every session object ever handed out for the project
		// (equal to the project's session map unless a duplicate object was created, which is reported on its own)
		if haveView {
			var sum uint64
			parts := map[string]uint64{}
			sidSeen := map[uint64]bool{}
			for _, ob := range objs {
				sum += d.objViews[ob].CuSum
				parts[fmt.Sprintf("%s#%d", d.objKey[ob], ob)] = d.objViews[ob].CuSum
				sidSeen[byObj[ob][0].Sid] = true
				if d.objViews[ob].Locked {
					cnt["sessions_left_locked_at_quiescence"]++
				}
			}
			for sid, sv := range view.Sessions { // sessions of the map nobody was handed (none expected)
				if !sidSeen[sid] {
					sum += sv.CuSum
					parts[fmt.Sprintf("map:%d", sid)] = sv.CuSum
				}
			}
			if sum != view.UsedCU {
				facets = append(facets, facet{"used-cu-ne-sum-cusum", fmt.Sprintf("at quiescence used CU of %s is %d but the session CuSums add up to %d (%v)", pk, view.UsedCU, sum, parts)})
			}
		}
		// in-hold + chain (e) + (d), per object
		workersAccepted := 0
		for _, ob := range objs {
			hs := byObj[ob]
			sid := hs[0].Sid
			sort.Slice(hs, func(i, j int) bool { return hs[i].TGetRet < hs[j].TGetRet })
			cand := map[uint64]bool{0: true}
			prevEnd := int64(0)
			prevWasMustFail := false
			var lastDone uint64
			procs := map[int]bool{}
			allowedFrom := func(lo, hi int64) map[uint64]bool {
				m := map[uint64]bool{}
				for _, u := range myUpds {
					if u.Sid == sid && u.TCall <= hi && u.TRet >= lo {
						m[u.NewCU] = true
					}
				}
				return m
			}
			okVal := func(v uint64, upd map[uint64]bool) bool {
				if cand[v] {
					return true
				}
				if !upd[v] {
					return false
				}
				for c := range cand {
					if v > c {
						return true
					}
				}
				return false
			}
			chainRule := func() string {
				if prevWasMustFail {
					return "failure-rollback-inexact"
				}
				return "cusum-chain-broken"
			}
			for _, h := range hs {
				if !okVal(h.C0, allowedFrom(prevEnd, h.TC0)) {
					facets = append(facets, facet{chainRule(), fmt.Sprintf("session %d (object #%d) of %s: holder proc %d (relay %d) found CuSum %d, expected one of %v after the previous holder", sid, ob, pk, h.Proc, h.RelayNum, h.C0, keys(cand))})
				}
				base := h.C0
				prevWasMustFail = false
				if h.PrepRes == "ok" {
					procs[h.Proc] = true
					if h.C1 != h.C0+h.X || h.CEnd != h.C1 || h.XFail != h.X {
						facets = append(facets, facet{"cusum-changed-during-hold", fmt.Sprintf("session %d (object #%d) of %s held by proc %d: CuSum %d at acquisition, +%d accepted, but CuSum %d after prepare and %d / latest %d before release", sid, ob, pk, h.Proc, h.C0, h.X, h.C1, h.CEnd, h.XFail)})
					}
					// (d) accepted relay numbers strictly increase
					if h.RelayNum <= lastDone {
						report("relay-number-not-increasing", "accepted-number<=last-completed-number", fmt.Sprintf("round %d: session %d (object #%d) of %s accepted relay number %d after relay number %d had completed", d.cfg.Idx, sid, ob, pk, h.RelayNum, lastDone), pk, !dupInProject)
					}
					base = h.CEnd
				} else if h.CEnd != h.C0 {
					facets = append(facets, facet{"cusum-changed-during-hold", fmt.Sprintf("session %d (object #%d) of %s held by proc %d (prepare rejected): CuSum %d at acquisition but %d before release", sid, ob, pk, h.Proc, h.C0, h.CEnd)})
				}
				cand = map[uint64]bool{}
				switch h.End {
				case "done":
					cand[base] = true
					if h.RelayNum > lastDone {
						lastDone = h.RelayNum
					}
				case "fail":
					if !h.MustRollback {
						cand[base] = true
					} else {
						prevWasMustFail = true
					}
					if base >= h.XFail {
						cand[base-h.XFail] = true
					}
				default:
					cand[base] = true
				}
				prevEnd = h.TEndCall
			}
			if len(procs) >= 2 {
				workersAccepted++
			}
			if !okVal(d.objViews[ob].CuSum, allowedFrom(prevEnd, d.tEnd)) {
				facets = append(facets, facet{chainRule(), fmt.Sprintf("session %d (object #%d) of %s: CuSum %d at quiescence, expected one of %v after the last holder", sid, ob, pk, d.objViews[ob].CuSum, keys(cand))})
			}
		}
		// (b) sound direct cap check: lower bound of used CU at the acceptance
		maxCU := d.cfg.MaxCU
		if haveView {
			maxCU = view.MaxCU
		}
		for _, a := range adds {
			var lb, sub uint64
			for _, b := range adds {
				if b != a && b.TPrepRet < a.TPrepCall {
					lb += b.X
				}
			}
			for _, f := range fails {
				if f.TEndCall < a.TPrepRet {
					sub += f.XFail
				}
			}
			if lb > sub && lb-sub+a.X > maxCU*(a.VE+1) {
				facets = append(facets, facet{"cu-cap-exceeded", fmt.Sprintf("%s: proc %d relay %d on session %d was accepted with %d CU although at least %d CU were already used (cap %d x (%d+1))", pk, a.Proc, a.RelayNum, a.Sid, a.X, lb-sub, maxCU, a.VE)})
				break
			}
		}
		// (f) porcupine, only if the cheaper facets are silent (an illegal history makes the search exhaustive)
		switch {
		case len(facets) > 0:
			cnt["porcupine_skipped_cheaper_oracle_fired"]++
		case len(objs) > maxSess:
			cnt["porcupine_skipped_too_many_session_objects"]++
		case updOnDupKey:
			cnt["porcupine_skipped_update_target_ambiguous_after_duplicate"]++
		default:
			idx := map[int]int{}
			sidObj := map[uint64]int{}
			for i, ob := range objs {
				idx[ob] = i
				sidObj[byObj[ob][0].Sid] = i
			}
			var ops []porcupine.Operation
			for _, a := range adds {
				ops = append(ops, porcupine.Operation{ClientId: a.Proc, Input: pcIn{Kind: kAdd, Sid: idx[a.Obj], X: a.X, Cap: maxCU * (a.VE + 1)}, Call: a.TPrepCall, Output: pcOut{}, Return: a.TPrepRet})
			}
			for _, f := range fails {
				ops = append(ops, porcupine.Operation{ClientId: f.Proc, Input: pcIn{Kind: kFail, Sid: idx[f.Obj], X: f.XFail, Must: f.MustRollback}, Call: f.TEndCall, Output: pcOut{}, Return: f.TEndRet})
			}
			for _, u := range myUpds {
				if i, ok := sidObj[u.Sid]; ok {
					ops = append(ops, porcupine.Operation{ClientId: u.Proc, Input: pcIn{Kind: kBump, Sid: i, NewCU: u.NewCU}, Call: u.TCall, Output: pcOut{}, Return: u.TRet})
				}
			}
			for _, r := range d.reads {
				if pkeyOf(r.Epoch, r.Project) == pk {
					ops = append(ops, porcupine.Operation{ClientId: r.Proc, Input: pcIn{Kind: kRead}, Call: r.TCall, Output: pcOut{V: r.Used}, Return: r.TRet})
				}
			}
			if haveView {
				ops = append(ops, porcupine.Operation{ClientId: 9999, Input: pcIn{Kind: kRead}, Call: d.tEnd, Output: pcOut{V: view.UsedCU}, Return: d.tEnd + 1})
			}
			for ob, i := range idx {
				ops = append(ops, porcupine.Operation{ClientId: 9999, Input: pcIn{Kind: kCus, Sid: i}, Call: d.tEnd + 2 + int64(i)*2, Output: pcOut{V: d.objViews[ob].CuSum}, Return: d.tEnd + 3 + int64(i)*2})
			}
			switch porcupine.CheckOperationsTimeout(pcModel, ops, porcupineTimeout) {
			case porcupine.Ok:
				cnt["porcupine_histories_checked"]++
				cnt["porcupine_ops_checked"] += len(ops)
			case porcupine.Illegal:
				cnt["porcupine_histories_checked"]++
				facets = append(facets, facet{"used-cu-not-linearizable", fmt.Sprintf("the history of the accounting object of %s (%d ops) has no linearization against the sequential model", pk, len(ops))})
			default:
				o.Inconcl = append(o.Inconcl, fmt.Sprintf("porcupine timeout (%v) on round %d project %s (%d ops)", porcupineTimeout, d.cfg.Idx, pk, len(ops)))
			}
		}
		if len(facets) > 0 {
			// one monitor rule for the CU accounting of a project; the signature is the history shape:
			// either "an UpdateSessionCU ran concurrently with a hold / accounting op of the project", or the
			// first failing facet in a history without such an update
			sig := facets[0].rule + ":no-concurrent-UpdateSessionCU"
			if d.updateConcurrent(pk) {
				sig = "UpdateSessionCU:concurrent-with-hold-or-accounting-op-on-same-project"
			}
			var all []string
			for _, f := range facets {
				all = append(all, f.rule+": "+f.desc)
			}
			o.Suppressed["accounting_facets_folded_into_first"] += len(facets) - 1
			dupNote := "no duplicate session object in this project"
			if dupInProject {
				dupNote = "the project also has duplicate session objects (reported separately; their CuSums are included in the sum)"
			}
			report("cu-accounting", sig, fmt.Sprintf("round %d (%s): %s", d.cfg.Idx, dupNote, strings.Join(all, " || ")), pk, !dupInProject)
		}
		if dupInProject {
			cnt["projects_analysed_with_duplicate_session_objects"]++
		}
		// non-triviality of this round
		limit, must := false, false
		for _, r := range d.relays {
			if pkeyOf(r.Epoch, r.Project) != pk {
				continue
			}
			if r.PrepRes == "limit" {
				limit = true
			}
			if r.End == "fail" && r.MustRollback && r.XFail > 0 {
				must = true
			}
		}
		if workersAccepted > 0 && limit && must && len(adds) > 0 {
			nontrivial = true
		}
	}

	// ---- interleavings: per project sequence of (role, point), and its 3-grams
	seqByP := map[string][]string{}
	for _, y := range d.yields {
		p := y.Key
		if i := strings.LastIndexByte(p, '/'); i > 0 {
			p = p[:i]
		}
		seqByP[p] = append(seqByP[p], y.Role+"@"+y.Point)
	}
	gr := map[string]bool{}
	var seqAll []string
	for p, s := range seqByP {
		o.Seqs = append(o.Seqs, hash(strings.Join(s, ",")))
		seqAll = append(seqAll, p+":"+strings.Join(s, ","))
		for i := 0; i+3 <= len(s); i++ {
			gr[strings.Join(s[i:i+3], ">")] = true
		}
	}
	for g := range gr {
		o.Grams = append(o.Grams, g)
	}
	sort.Strings(o.Grams)
	if nontrivial {
		sort.Strings(seqAll)
		var res []string
		for _, c := range d.calls("") {
			res = append(res, c.Op+"="+c.Result)
		}
		o.Nontrivial = hash(strings.Join(seqAll, ";") + "|" + strings.Join(res, ","))
	}
	if d.cfg.Idx < 2 {
		cs := d.calls("")
		o.Sample = map[string]any{"round": d.cfg.Idx, "cfg": d.cfg, "first_calls": cs[:min(len(cs), 14)], "calls_in_round": len(cs)}
	}
	return o
}

func keys(m map[uint64]bool) []uint64 {
	var out []uint64
	for k := range m {
		out = append(out, k)
	}
	sort.Slice(out, func(i, j int) bool { return out[i] < out[j] })
	return out
}
