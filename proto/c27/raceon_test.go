//go:build verif && race

package c27

const raceEnabled = true
