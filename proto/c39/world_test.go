//go:build verif

package c39

import (
	"context"
	"encoding/hex"
	"encoding/json"
	"errors"
	"fmt"
	"io"
	"math/rand"
	"net/http"
	"sort"
	"strings"
	"sync"
	"time"

	"github.com/lavanet/lava/v5/protocol/chainlib"
	"github.com/lavanet/lava/v5/protocol/chainlib/extensionslib"
	"github.com/lavanet/lava/v5/protocol/chaintracker"
	"github.com/lavanet/lava/v5/protocol/lavaprotocol"
	"github.com/lavanet/lava/v5/protocol/lavasession"
	"github.com/lavanet/lava/v5/protocol/qos"
	"github.com/lavanet/lava/v5/protocol/rpcprovider"
	"github.com/lavanet/lava/v5/protocol/rpcprovider/rewardserver"
	"github.com/lavanet/lava/v5/utils"
	"github.com/lavanet/lava/v5/utils/sigs"
	pairingtypes "github.com/lavanet/lava/v5/x/pairing/types"

	"verif/internal/ev"
	"verif/internal/vrand"
)

// ---------------------------------------------------------------------------------------------
// mock chain (state tracker): the only source of truth about who is paired with the provider
// ---------------------------------------------------------------------------------------------

type pairKey struct {
	consumer string
	epoch    uint64
}

type pairing struct {
	project string
	maxCU   uint64
}

type mockChain struct {
	mu           sync.Mutex
	provider     string
	spec         string
	latest       int64
	paired       map[pairKey]pairing // (consumer, epoch) the chain pairs with this provider
	errConsumers map[string]bool     // VerifyPairing fails (RPC error) for these consumers
	maxCuErr     map[string]bool     // VerifyPairing ok but GetMaxCuForUser fails
	calls        map[string]int      // outcome -> count
	allowance    map[string]uint64   // consumer -> epoch CU allowance of its subscription
}

func (m *mockChain) LatestBlock() int64 {
	m.mu.Lock()
	defer m.mu.Unlock()
	return m.latest
}

func (m *mockChain) GetMaxCuForUser(ctx context.Context, consumerAddress, chainID string, epoch uint64) (uint64, error) {
	m.mu.Lock()
	defer m.mu.Unlock()
	if m.maxCuErr[consumerAddress] {
		m.calls["maxcu-error"]++
		return 0, errors.New("mock chain: max cu query failed")
	}
	// the allowance belongs to the consumer's subscription, not to its pairing with this provider: a
	// consumer with a live subscription that is simply not paired here still has one
	if cu, ok := m.allowance[consumerAddress]; ok && chainID == m.spec {
		m.calls["maxcu-ok"]++
		return cu, nil
	}
	m.calls["maxcu-unknown-consumer"]++
	return 0, errors.New("mock chain: consumer has no subscription")
}

func (m *mockChain) VerifyPairing(ctx context.Context, consumerAddress, providerAddress string, epoch uint64, chainID string) (bool, int64, string, error) {
	m.mu.Lock()
	defer m.mu.Unlock()
	if m.errConsumers[consumerAddress] {
		m.calls["verify-error"]++
		return false, 0, "", errors.New("mock chain: verify pairing rpc failed")
	}
	p, ok := m.paired[pairKey{consumerAddress, epoch}]
	if !ok || providerAddress != m.provider || chainID != m.spec {
		m.calls["verify-false"]++
		return false, 0, "", nil
	}
	m.calls["verify-valid"]++
	return true, 5, p.project, nil
}

func (m *mockChain) GetVirtualEpoch(epoch uint64) uint64 { return 0 }

func (m *mockChain) isPaired(consumer string, epoch uint64) bool {
	m.mu.Lock()
	defer m.mu.Unlock()
	_, ok := m.paired[pairKey{consumer, epoch}]
	return ok
}

// reward-server side of the state tracker (RewardsTxSender); never reached in this check (no epoch
// update is delivered to the reward server) but required by the constructor.
func (m *mockChain) TxRelayPayment(ctx context.Context, relayRequests []*pairingtypes.RelaySession, description string, latestBlocks []*pairingtypes.LatestBlockReport) error {
	return nil
}

func (m *mockChain) GetEpochSizeMultipliedByRecommendedEpochNumToCollectPayment(ctx context.Context) (uint64, error) {
	return epochSize * 3, nil
}
func (m *mockChain) EarliestBlockInMemory(ctx context.Context) (uint64, error) { return 1, nil }
func (m *mockChain) GetEpochSize(ctx context.Context) (uint64, error)          { return epochSize, nil }
func (m *mockChain) GetAverageBlockTime() time.Duration                        { return time.Second }

// ---------------------------------------------------------------------------------------------
// chain tracker of the served chain: fixed head, no poller
// ---------------------------------------------------------------------------------------------

type fixedChainTracker struct {
	*chaintracker.DummyChainTracker
	latest int64
}

func (t *fixedChainTracker) GetLatestBlockData(fromBlock, toBlock, specificBlock int64) (int64, []*chaintracker.BlockStore, time.Time, error) {
	return t.latest, nil, time.Time{}, nil
}
func (t *fixedChainTracker) GetLatestBlockNum() (int64, time.Time) { return t.latest, time.Time{} }
func (t *fixedChainTracker) GetAtomicLatestBlockNum() int64        { return t.latest }
func (t *fixedChainTracker) GetWireLatestBlock() int64             { return t.latest }
func (t *fixedChainTracker) IsDummy() bool                         { return false }

// ---------------------------------------------------------------------------------------------
// reward server: the real one, behind a recorder (every proof the reward server ever holds enters
// through SendNewProof)
// ---------------------------------------------------------------------------------------------

type proofRec struct {
	Key      string // marshalled RelaySession
	Epoch    uint64
	Consumer string
	Updated  bool
}

type recordingRewards struct {
	inner *rewardserver.RewardServer
	mu    sync.Mutex
	cond  *sync.Cond
	recs  []proofRec
}

func newRecordingRewards(inner *rewardserver.RewardServer) *recordingRewards {
	r := &recordingRewards{inner: inner}
	r.cond = sync.NewCond(&r.mu)
	return r
}

func sessionKey(s *pairingtypes.RelaySession) string {
	b, err := s.Marshal()
	if err != nil {
		return "marshal-error:" + err.Error()
	}
	return string(b)
}

func (r *recordingRewards) SendNewProof(ctx context.Context, proof *pairingtypes.RelaySession, epoch uint64, consumerAddr, apiInterface string) (uint64, bool) {
	existing, updated := r.inner.SendNewProof(ctx, proof, epoch, consumerAddr, apiInterface)
	r.mu.Lock()
	r.recs = append(r.recs, proofRec{Key: sessionKey(proof), Epoch: epoch, Consumer: consumerAddr, Updated: updated})
	r.cond.Broadcast()
	r.mu.Unlock()
	return existing, updated
}
func (r *recordingRewards) SubscribeStarted(consumer string, epoch uint64, subscribeID string) {}
func (r *recordingRewards) SubscribeEnded(consumer string, epoch uint64, subscribeID string)   {}

func (r *recordingRewards) count() int {
	r.mu.Lock()
	defer r.mu.Unlock()
	return len(r.recs)
}

func (r *recordingRewards) all() []proofRec {
	r.mu.Lock()
	defer r.mu.Unlock()
	return append([]proofRec(nil), r.recs...)
}

// waitFor blocks until a proof with this key was recorded; the watchdog only turns a hang into
// "inconclusive", it never decides a verdict.
func (r *recordingRewards) waitFor(key string, watchdog time.Duration) bool {
	timer := time.AfterFunc(watchdog, func() {
		r.mu.Lock()
		r.cond.Broadcast()
		r.mu.Unlock()
	})
	defer timer.Stop()
	deadline := time.Now().Add(watchdog)
	r.mu.Lock()
	defer r.mu.Unlock()
	for {
		for _, p := range r.recs {
			if p.Key == key {
				return true
			}
		}
		if time.Now().After(deadline) {
			return false
		}
		r.cond.Wait()
	}
}

// ---------------------------------------------------------------------------------------------
// stub node
// ---------------------------------------------------------------------------------------------

const nodeKillMarker = "dead00000000000000000000000000000000dead"

type stubNode struct {
	mu    sync.Mutex
	calls int
	kills int
}

func (n *stubNode) handler() http.HandlerFunc {
	return func(w http.ResponseWriter, r *http.Request) {
		body, _ := io.ReadAll(r.Body)
		n.mu.Lock()
		n.calls++
		n.mu.Unlock()
		if strings.Contains(string(body), nodeKillMarker) || strings.Contains(r.URL.String(), nodeKillMarker) {
			n.mu.Lock()
			n.kills++
			n.mu.Unlock()
			if hj, ok := w.(http.Hijacker); ok {
				if conn, _, err := hj.Hijack(); err == nil {
					conn.Close()
					return
				}
			}
			panic(http.ErrAbortHandler)
		}
		var req struct {
			ID     json.RawMessage `json:"id"`
			Method string          `json:"method"`
		}
		if err := json.Unmarshal(body, &req); err == nil && req.Method != "" {
			id := string(req.ID)
			if id == "" {
				id = "1"
			}
			var result string
			switch req.Method {
			case "eth_getBlockByNumber", "eth_getBlockByHash", "eth_getTransactionReceipt":
				result = `{"number":"0x3e8","hash":"0x00000000000000000000000000000000000000000000000000000000000003e8"}`
			case "eth_getLogs":
				result = `[]`
			default:
				result = `"0x3e8"`
			}
			w.Header().Set("Content-Type", "application/json")
			fmt.Fprintf(w, `{"jsonrpc":"2.0","id":%s,"result":%s}`, id, result)
			return
		}
		w.Header().Set("Content-Type", "application/json")
		fmt.Fprintf(w, `{"stub":"ok","path":%q}`, r.URL.Path)
	}
}

// ---------------------------------------------------------------------------------------------
// world
// ---------------------------------------------------------------------------------------------

const (
	epochSize      = uint64(20)
	epochsInMemory = uint64(3)
	lavaChainID    = "lava-c39"
	projectMaxCU   = uint64(5_000_000)
)

type consumer struct {
	acc     sigs.Account
	addr    string
	project string
}

type sessKey struct {
	consumer string
	epoch    uint64
	session  uint64
}

type sessLedger struct {
	cuSum    uint64
	relayNum uint64
}

type world struct {
	idx          int
	spec         string
	apiInterface string
	provider     sigs.Account
	otherProv    sigs.Account
	server       *rpcprovider.RPCProviderServer
	psm          *lavasession.ProviderSessionManager
	chain        *mockChain
	rewards      *recordingRewards
	parser       chainlib.ChainParser
	node         *stubNode
	closeFn      func()

	lateEpochUpdates int
	cancel           context.CancelFunc

	consumers    []*consumer
	outsiderNo   sigs.Account // chain answers VerifyPairing = false
	outsiderErr  sigs.Account // chain answers VerifyPairing = error
	outsiderMax  sigs.Account // chain pairs it but GetMaxCuForUser fails
	currentEpoch uint64
	ledger       map[sessKey]*sessLedger
	nextSession  uint64

	// every RelaySession the harness sent, by marshalled bytes
	sentValid   map[string]string            // key -> description of the valid request
	sentCorrupt map[string]string            // key -> kind
	accepted    []*pairingtypes.RelayRequest // valid requests accepted so far, in order (for the control replay)
	epochOps    map[int]uint64               // len(accepted) at which UpdateEpoch(value) was applied
}

func detKey(rng *rand.Rand) sigs.Account { return sigs.GenerateDeterministicFloatingKey(rng) }

func blockedHeight(current uint64) uint64 {
	if current > epochSize*epochsInMemory {
		return current - epochSize*epochsInMemory
	}
	return 0
}

// newWorld builds a full provider for (seed, idx); everything random derives from the run seed, so
// the same (seed, idx) gives the same keys and therefore accepts the same signed requests (this is
// what the control replay relies on).
func newWorld(seed int64, idx int) (*world, error) {
	rng := vrand.Sub(seed, "c39-world", idx)
	w := &world{idx: idx, ledger: map[sessKey]*sessLedger{}, sentValid: map[string]string{}, sentCorrupt: map[string]string{}, epochOps: map[int]uint64{}}
	if idx%3 == 2 {
		w.spec, w.apiInterface = "LAV1", "rest"
	} else {
		w.spec, w.apiInterface = "ETH1", "jsonrpc"
	}
	w.provider, w.otherProv = detKey(rng), detKey(rng)
	w.outsiderNo, w.outsiderErr, w.outsiderMax = detKey(rng), detKey(rng), detKey(rng)
	w.currentEpoch = 2000 + epochSize*uint64(rng.Intn(50))
	w.nextSession = uint64(1000 + rng.Intn(100000))

	ctx, cancel := context.WithCancel(context.Background())
	w.cancel = cancel
	w.node = &stubNode{}
	parser, router, _, closeFn, endpoint, err := chainlib.CreateChainLibMocks(ctx, w.spec, w.apiInterface, w.node.handler(), nil, ev.RepoDir()+"/", nil)
	utils.SetGlobalLoggingLevel("fatal")
	if err != nil {
		cancel()
		return nil, err
	}
	w.parser, w.closeFn = parser, closeFn
	rpcEndpoint := &lavasession.RPCProviderEndpoint{
		NetworkAddress: lavasession.NetworkAddressData{Address: "127.0.0.1:0"},
		ChainID:        w.spec, ApiInterface: w.apiInterface, Geolocation: 1, NodeUrls: endpoint.NodeUrls,
	}
	w.chain = &mockChain{provider: w.provider.Addr.String(), spec: w.spec, latest: int64(w.currentEpoch + 7), paired: map[pairKey]pairing{},
		allowance:    map[string]uint64{w.outsiderNo.Addr.String(): projectMaxCU, w.outsiderErr.Addr.String(): projectMaxCU},
		errConsumers: map[string]bool{w.outsiderErr.Addr.String(): true}, maxCuErr: map[string]bool{w.outsiderMax.Addr.String(): true}, calls: map[string]int{}}
	nCons := 3 + rng.Intn(2)
	for i := 0; i < nCons; i++ {
		c := &consumer{acc: detKey(rng)}
		c.addr = c.acc.Addr.String()
		c.project = fmt.Sprintf("project-%d", i)
		w.chain.allowance[c.addr] = projectMaxCU
		if i == 1 {
			c.project = "project-0" // two developer keys of one project share the epoch allowance
		}
		w.consumers = append(w.consumers, c)
	}
	w.pairEpochs(w.currentEpoch)

	rewardDB := rewardserver.NewRewardDB()
	if err := rewardDB.AddDB(rewardserver.NewMemoryDB(w.spec)); err != nil {
		cancel()
		return nil, err
	}
	w.rewards = newRecordingRewards(rewardserver.NewRewardServer(w.chain, nil, rewardDB, "c39-mem", 1_000_000_000, 3600, nil))
	w.psm = lavasession.NewProviderSessionManager(rpcEndpoint, epochSize*epochsInMemory)
	w.psm.UpdateEpoch(w.currentEpoch)
	parser.SetPolicy(rpcprovider.GetAllAddonsAndExtensionsFromNodeUrlSlice(rpcEndpoint.NodeUrls), w.spec, w.apiInterface)
	w.server = &rpcprovider.RPCProviderServer{}
	w.server.ServeRPCRequests(ctx, rpcEndpoint, parser, w.rewards, w.psm, &fixedChainTracker{DummyChainTracker: &chaintracker.DummyChainTracker{}, latest: 1000},
		w.provider.SK, nil, false, router, w.chain, w.provider.Addr, lavaChainID, rpcprovider.DEFAULT_ALLOWED_MISSING_CU,
		nil, nil, nil, nil, nil, 2, nil, nil, false)
	parser.Activate()
	return w, nil
}

// the chain pairs every consumer for `current` and the epoch before it; even-numbered consumers also
// for the oldest epoch still in the provider's memory.
func (w *world) pairEpochs(current uint64) {
	w.chain.mu.Lock()
	defer w.chain.mu.Unlock()
	for i, c := range w.consumers {
		for k := uint64(0); k < epochsInMemory; k++ {
			if k == epochsInMemory-1 && i%2 == 1 {
				continue
			}
			w.chain.paired[pairKey{c.addr, current - k*epochSize}] = pairing{project: c.project, maxCU: projectMaxCU}
		}
	}
	// the max-cu outsider is paired (VerifyPairing true) but its allowance query fails
	for k := uint64(0); k < epochsInMemory; k++ {
		w.chain.paired[pairKey{w.outsiderMax.Addr.String(), current - k*epochSize}] = pairing{project: "project-maxcu-outsider", maxCU: projectMaxCU}
	}
}

func (w *world) advanceEpoch(to uint64) {
	w.currentEpoch = to
	w.chain.mu.Lock()
	w.chain.latest = int64(to + 3)
	w.chain.mu.Unlock()
	w.pairEpochs(to)
	w.psm.UpdateEpoch(to)
	// epoch notifications are not ordered: every third advance is followed by a late notification of an older epoch
	// that is still above the blocked height (an epoch query answered by a lagging node), every fourth by a repeat of
	// the current one. Neither may move the provider's epoch window.
	n := to / epochSize
	if n%3 == 0 {
		if k := 1 + n%(epochsInMemory-1); to > k*epochSize && to-k*epochSize > blockedHeight(to) {
			w.psm.UpdateEpoch(to - k*epochSize)
			w.lateEpochUpdates++
		}
	}
	if n%4 == 0 {
		w.psm.UpdateEpoch(to)
	}
	// the provider dropped everything at or below the blocked height; so does the consumer side
	for k := range w.ledger {
		if k.epoch <= blockedHeight(to) {
			delete(w.ledger, k)
		}
	}
}

func (w *world) close() {
	if w.closeFn != nil {
		w.closeFn()
	}
	w.cancel()
}

func (w *world) pairedEpochsOf(c *consumer) []uint64 {
	var out []uint64
	for k := uint64(0); k < epochsInMemory; k++ {
		e := w.currentEpoch - k*epochSize
		if w.chain.isPaired(c.addr, e) && e > blockedHeight(w.currentEpoch) {
			out = append(out, e)
		}
	}
	return out
}

// ---------------------------------------------------------------------------------------------
// base (valid) requests
// ---------------------------------------------------------------------------------------------

type apiTemplate struct {
	name string
	conn string
	url  func(r *rand.Rand) string
	data func(r *rand.Rand, id int) string
}

func hexN(r *rand.Rand, n int) string {
	b := make([]byte, n)
	r.Read(b)
	return hex.EncodeToString(b)
}

var ethTemplates = []apiTemplate{
	{"eth_blockNumber", "POST", nil, func(r *rand.Rand, id int) string {
		return fmt.Sprintf(`{"jsonrpc":"2.0","id":%d,"method":"eth_blockNumber","params":[]}`, id)
	}},
	{"eth_chainId", "POST", nil, func(r *rand.Rand, id int) string {
		return fmt.Sprintf(`{"jsonrpc":"2.0","id":%d,"method":"eth_chainId","params":[]}`, id)
	}},
	{"eth_gasPrice", "POST", nil, func(r *rand.Rand, id int) string {
		return fmt.Sprintf(`{"jsonrpc":"2.0","id":%d,"method":"eth_gasPrice","params":[]}`, id)
	}},
	{"net_version", "POST", nil, func(r *rand.Rand, id int) string {
		return fmt.Sprintf(`{"jsonrpc":"2.0","id":%d,"method":"net_version","params":[]}`, id)
	}},
	{"eth_getBalance", "POST", nil, func(r *rand.Rand, id int) string {
		blk := `"latest"`
		if r.Intn(2) == 0 {
			blk = fmt.Sprintf(`"0x%x"`, 900+r.Intn(100))
		}
		return fmt.Sprintf(`{"jsonrpc":"2.0","id":%d,"method":"eth_getBalance","params":["0x%s",%s]}`, id, hexN(r, 20), blk)
	}},
	{"eth_getTransactionCount", "POST", nil, func(r *rand.Rand, id int) string {
		return fmt.Sprintf(`{"jsonrpc":"2.0","id":%d,"method":"eth_getTransactionCount","params":["0x%s","latest"]}`, id, hexN(r, 20))
	}},
	{"eth_getBlockByNumber", "POST", nil, func(r *rand.Rand, id int) string {
		return fmt.Sprintf(`{"jsonrpc":"2.0","id":%d,"method":"eth_getBlockByNumber","params":["0x%x",%v]}`, id, 900+r.Intn(100), r.Intn(2) == 0)
	}},
	{"eth_call", "POST", nil, func(r *rand.Rand, id int) string {
		return fmt.Sprintf(`{"jsonrpc":"2.0","id":%d,"method":"eth_call","params":[{"to":"0x%s","data":"0x%s"},"latest"]}`, id, hexN(r, 20), hexN(r, 4+r.Intn(32)))
	}},
	{"eth_getTransactionReceipt", "POST", nil, func(r *rand.Rand, id int) string {
		return fmt.Sprintf(`{"jsonrpc":"2.0","id":%d,"method":"eth_getTransactionReceipt","params":["0x%s"]}`, id, hexN(r, 32))
	}},
	{"eth_getLogs", "POST", nil, func(r *rand.Rand, id int) string {
		from := 900 + r.Intn(50)
		return fmt.Sprintf(`{"jsonrpc":"2.0","id":%d,"method":"eth_getLogs","params":[{"fromBlock":"0x%x","toBlock":"0x%x","address":"0x%s"}]}`, id, from, from+r.Intn(20), hexN(r, 20))
	}},
}

var lavaRestTemplates = []apiTemplate{
	{"blocks-latest", "GET", func(r *rand.Rand) string { return "/cosmos/base/tendermint/v1beta1/blocks/latest" }, nil},
	{"blocks-height", "GET", func(r *rand.Rand) string {
		return fmt.Sprintf("/cosmos/base/tendermint/v1beta1/blocks/%d", 900+r.Intn(100))
	}, nil},
	{"node-info", "GET", func(r *rand.Rand) string { return "/cosmos/base/tendermint/v1beta1/node_info" }, nil},
	{"bank-balances", "GET", func(r *rand.Rand) string {
		return "/cosmos/bank/v1beta1/balances/lava@1" + hexN(r, 19)
	}, nil},
	{"spec-show-all", "GET", func(r *rand.Rand) string { return "/lavanet/lava/spec/show_all_chains" }, nil},
	{"epoch-details", "GET", func(r *rand.Rand) string { return "/lavanet/lava/epochstorage/epoch_details" }, nil},
	{"pairing-params", "GET", func(r *rand.Rand) string { return "/lavanet/lava/pairing/params" }, nil},
}

type baseReq struct {
	Req        *pairingtypes.RelayRequest
	cons       *consumer
	epoch      uint64
	session    uint64
	cu         uint64
	api        string
	newSession bool
	registered bool // consumer already registered at the provider for this epoch when the burst started
}

func (w *world) templates() []apiTemplate {
	if w.apiInterface == "rest" {
		return lavaRestTemplates
	}
	return ethTemplates
}

// buildBase creates the consumer's next valid relay on some (consumer, epoch, session): correct
// content hash, next relay number, CuSum = previous + spec CU of the call, signed with the real helpers.
func (w *world) buildBase(rng *rand.Rand, n int) (*baseReq, error) {
	c := w.consumers[rng.Intn(len(w.consumers))]
	epochs := w.pairedEpochsOf(c)
	if len(epochs) == 0 {
		return nil, fmt.Errorf("consumer has no paired epoch")
	}
	epoch := epochs[rng.Intn(len(epochs))]
	var existing []uint64
	for k := range w.ledger {
		if k.consumer == c.addr && k.epoch == epoch {
			existing = append(existing, k.session)
		}
	}
	sort.Slice(existing, func(i, j int) bool { return existing[i] < existing[j] })
	b := &baseReq{cons: c, epoch: epoch}
	if len(existing) > 0 && rng.Intn(3) != 0 {
		b.session = existing[rng.Intn(len(existing))]
	} else {
		w.nextSession += uint64(1 + rng.Intn(1000))
		b.session = w.nextSession
		b.newSession = true
	}
	led := w.ledger[sessKey{c.addr, epoch, b.session}]
	if led == nil {
		led = &sessLedger{}
	}
	tpls := w.templates()
	tpl := tpls[rng.Intn(len(tpls))]
	b.api = tpl.name
	url, data := "", []byte(nil)
	if tpl.url != nil {
		url = tpl.url(rng)
	}
	if tpl.data != nil {
		data = []byte(tpl.data(rng, 1+rng.Intn(1_000_000)))
	}
	msg, err := w.parser.ParseMsg(url, data, tpl.conn, nil, extensionslib.ExtensionInfo{LatestBlock: 0})
	if err != nil {
		return nil, fmt.Errorf("template %s does not parse: %w", tpl.name, err)
	}
	b.cu = msg.GetApi().ComputeUnits
	reqBlock, _ := msg.RequestedBlock()
	var md []pairingtypes.Metadata
	ctx := utils.WithUniqueIdentifier(context.Background(), rng.Uint64()|1)
	rd := lavaprotocol.NewRelayData(ctx, tpl.conn, url, data, int64(rng.Intn(1000)), reqBlock, w.apiInterface, md, "", nil)
	scs := &lavasession.SingleConsumerSession{CuSum: led.cuSum, LatestRelayCu: b.cu, SessionId: int64(b.session), RelayNum: led.relayNum + 1, QoSManager: qos.NewQoSManager()}
	req, err := lavaprotocol.ConstructRelayRequest(ctx, c.acc.SK, lavaChainID, w.spec, rd, w.provider.Addr.String(), scs, int64(epoch), nil)
	if err != nil {
		return nil, err
	}
	b.Req = req
	return b, nil
}

// fixCuSum re-prices a request whose call was replaced: CuSum = the session's CuSum before this relay +
// the spec CU of the new call, and the requested block the parser derives.
func (w *world) fixCuSum(b *baseReq, r *pairingtypes.RelayRequest) bool {
	msg, err := w.parser.ParseMsg(r.RelayData.ApiUrl, r.RelayData.Data, r.RelayData.ConnectionType, nil, extensionslib.ExtensionInfo{LatestBlock: 0})
	if err != nil {
		return false
	}
	r.RelaySession.CuSum = b.Req.RelaySession.CuSum - b.cu + msg.GetApi().ComputeUnits
	r.RelayData.RequestBlock, _ = msg.RequestedBlock()
	return true
}

func cloneReq(r *pairingtypes.RelayRequest) *pairingtypes.RelayRequest {
	b, err := r.Marshal()
	if err != nil {
		panic(err)
	}
	out := &pairingtypes.RelayRequest{}
	if err := out.Unmarshal(b); err != nil {
		panic(err)
	}
	return out
}

func resign(sk sigs.Account, req *pairingtypes.RelayRequest) {
	req.RelaySession.Sig = nil
	sig, err := sigs.Sign(sk.SK, *req.RelaySession)
	if err != nil {
		panic(err)
	}
	req.RelaySession.Sig = sig
}

func rehash(req *pairingtypes.RelayRequest) {
	req.RelaySession.ContentHash = sigs.HashMsg(req.RelayData.GetContentHashData())
}

// ---------------------------------------------------------------------------------------------
// snapshots
// ---------------------------------------------------------------------------------------------

type strictSession struct {
	ID, CuSum, LatestRelayCu, RelayNum uint64
	Locked                             bool
}

type strictProject struct {
	Epoch              uint64
	Project            string
	Used, Missing, Max uint64
	Sessions           []strictSession
}

// strictState is what the statement calls "the provider's session and CU state": per epoch and
// project the used / missing / max CU, and per session CuSum, RelayNum and the in-flight relay CU.
// A session record whose counters are all zero is indistinguishable from an absent one (GetSession
// creates it on demand with the same zero values), and a project entry with zero counters and no such
// session is only the consumer-registration cache; both are dropped so that they cannot raise an alarm
// (they are counted separately).
func strictState(s lavasession.VerifC39Snapshot) (string, int, int) {
	var out []strictProject
	emptySessions, emptyProjects := 0, 0
	for _, e := range s.Epochs {
		for _, p := range e.Projects {
			sp := strictProject{Epoch: e.Epoch, Project: p.ProjectID, Used: p.UsedCU, Missing: p.MissingCU, Max: p.MaxCU}
			for _, x := range p.Sessions {
				if !x.Locked && x.CuSum == 0 && x.RelayNum == 0 && x.LatestRelayCu == 0 {
					emptySessions++
					continue
				}
				sp.Sessions = append(sp.Sessions, strictSession{x.SessionID, x.CuSum, x.LatestRelayCu, x.RelayNum, x.Locked})
			}
			if sp.Used == 0 && sp.Missing == 0 && len(sp.Sessions) == 0 {
				emptyProjects++
				continue
			}
			out = append(out, sp)
		}
	}
	b, _ := json.Marshal(out)
	return string(b), emptySessions, emptyProjects
}

func registrations(s lavasession.VerifC39Snapshot) map[pairKey]string {
	out := map[pairKey]string{}
	for _, e := range s.Epochs {
		for c, p := range e.Consumers {
			out[pairKey{c, e.Epoch}] = p
		}
	}
	return out
}

func findSession(s lavasession.VerifC39Snapshot, epoch uint64, project string, id uint64) (lavasession.VerifC39Session, uint64, bool) {
	for _, e := range s.Epochs {
		if e.Epoch != epoch {
			continue
		}
		for _, p := range e.Projects {
			if p.ProjectID != project {
				continue
			}
			for _, x := range p.Sessions {
				if x.SessionID == id {
					return x, p.UsedCU, true
				}
			}
			return lavasession.VerifC39Session{}, p.UsedCU, false
		}
	}
	return lavasession.VerifC39Session{}, 0, false
}

// ---------------------------------------------------------------------------------------------
// calling the provider
// ---------------------------------------------------------------------------------------------

type callResult struct {
	Served   bool
	Err      string
	Panicked bool
}

func (w *world) relay(req *pairingtypes.RelayRequest) (res callResult) {
	ctx, cancel := context.WithTimeout(context.Background(), 20*time.Second)
	defer cancel()
	defer func() {
		if r := recover(); r != nil {
			res = callResult{Panicked: true, Err: fmt.Sprint("panic: ", r)}
		}
	}()
	// the provider owns (and rewrites, e.g. RelayData.RequestBlock) the request object it is handed, as
	// with a freshly deserialised gRPC message: always hand it a private copy
	reply, err := w.server.Relay(ctx, cloneReq(req))
	if err != nil {
		return callResult{Err: err.Error()}
	}
	if reply == nil {
		return callResult{Err: "nil reply without error"}
	}
	return callResult{Served: true}
}

func reqJSON(r *pairingtypes.RelayRequest) map[string]any {
	s := r.RelaySession
	d := r.RelayData
	if d == nil {
		d = &pairingtypes.RelayPrivateData{ApiInterface: "<nil RelayData>"}
	}
	md := []string{}
	for _, m := range d.Metadata {
		md = append(md, m.Name+"="+m.Value)
	}
	return map[string]any{
		"session": map[string]any{"spec_id": s.SpecId, "content_hash": hex.EncodeToString(s.ContentHash), "session_id": s.SessionId, "cu_sum": s.CuSum,
			"provider": s.Provider, "relay_num": s.RelayNum, "epoch": s.Epoch, "lava_chain_id": s.LavaChainId, "sig": hex.EncodeToString(s.Sig), "qos": fmt.Sprint(s.QosReport)},
		"data": map[string]any{"connection_type": d.ConnectionType, "api_url": d.ApiUrl, "data": string(d.Data), "request_block": d.RequestBlock, "seen_block": d.SeenBlock,
			"api_interface": d.ApiInterface, "salt": hex.EncodeToString(d.Salt), "metadata": md, "addon": d.Addon, "extensions": d.Extensions},
	}
}
