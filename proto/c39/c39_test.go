//go:build verif

// C39 — providers serve only authentic, valid relay requests; rejected requests leave the session
// and CU state unchanged.
//
// A full RPCProviderServer (real ProviderSessionManager, real RewardServer behind a recorder, real
// chain parser / router against a loopback stub node, mock chain = state tracker whose pairing table
// is scripted) receives, for every valid base request of a consumer, first a burst of single-field
// corruptions of that very request and then the request itself.
package c39

import (
	"fmt"
	"math/rand"
	"os"
	"sort"
	"strings"
	"testing"
	"time"

	"github.com/lavanet/lava/v5/protocol/lavasession"
	lavarand "github.com/lavanet/lava/v5/utils/rand"
	pairingtypes "github.com/lavanet/lava/v5/x/pairing/types"

	"verif/internal/ev"
	"verif/internal/vrand"
)

// A kind turns a clone of the valid base request into a corrupted one (nil = not applicable here).
// authenticity = true: the request lacks one of the conditions the statement lists, so it must never
// be served or rewarded. authenticity = false ("late" kinds): the request is authentic but invalid for
// another reason; the statement only demands that *if* it is rejected the state is unchanged.
type kind struct {
	name         string
	class        string
	authenticity bool
	apply        func(w *world, b *baseReq, r *pairingtypes.RelayRequest, rng *rand.Rand) *pairingtypes.RelayRequest
}

func flipByte(b []byte, rng *rand.Rand) []byte {
	out := append([]byte(nil), b...)
	if len(out) == 0 {
		return []byte{0x5a}
	}
	i := rng.Intn(len(out))
	out[i] ^= byte(1 << uint(rng.Intn(8)))
	return out
}

func otherSpec(w *world) string {
	if w.spec == "ETH1" {
		return "LAV1"
	}
	return "ETH1"
}

func kinds() []kind {
	resigned := func(f func(w *world, b *baseReq, r *pairingtypes.RelayRequest, rng *rand.Rand) bool) func(*world, *baseReq, *pairingtypes.RelayRequest, *rand.Rand) *pairingtypes.RelayRequest {
		return func(w *world, b *baseReq, r *pairingtypes.RelayRequest, rng *rand.Rand) *pairingtypes.RelayRequest {
			if !f(w, b, r, rng) {
				return nil
			}
			resign(b.cons.acc, r)
			return r
		}
	}
	tampered := func(f func(w *world, b *baseReq, r *pairingtypes.RelayRequest, rng *rand.Rand) bool) func(*world, *baseReq, *pairingtypes.RelayRequest, *rand.Rand) *pairingtypes.RelayRequest {
		return func(w *world, b *baseReq, r *pairingtypes.RelayRequest, rng *rand.Rand) *pairingtypes.RelayRequest {
			if !f(w, b, r, rng) {
				return nil
			}
			return r
		}
	}
	// mutate the relay data after the content hash was computed and signed (session untouched, so the
	// signature stays the consumer's)
	afterHash := func(f func(w *world, d *pairingtypes.RelayPrivateData, rng *rand.Rand)) func(*world, *baseReq, *pairingtypes.RelayRequest, *rand.Rand) *pairingtypes.RelayRequest {
		return func(w *world, b *baseReq, r *pairingtypes.RelayRequest, rng *rand.Rand) *pairingtypes.RelayRequest {
			before := string(r.RelayData.GetContentHashData())
			f(w, r.RelayData, rng)
			if string(r.RelayData.GetContentHashData()) == before {
				return nil // the hashed byte string did not change: not a content-hash corruption (C26 territory)
			}
			return r
		}
	}
	setEpoch := func(pick func(w *world, b *baseReq, rng *rand.Rand) (int64, bool)) func(w *world, b *baseReq, r *pairingtypes.RelayRequest, rng *rand.Rand) bool {
		return func(w *world, b *baseReq, r *pairingtypes.RelayRequest, rng *rand.Rand) bool {
			e, ok := pick(w, b, rng)
			if !ok || e == r.RelaySession.Epoch {
				return false
			}
			r.RelaySession.Epoch = e
			return true
		}
	}
	type S = pairingtypes.RelaySession
	ks := []kind{
		// ---- names another provider
		{"provider-tampered", "provider", true, tampered(func(w *world, b *baseReq, r *pairingtypes.RelayRequest, rng *rand.Rand) bool {
			r.RelaySession.Provider = w.otherProv.Addr.String()
			return true
		})},
		{"provider-resigned-other", "provider", true, resigned(func(w *world, b *baseReq, r *pairingtypes.RelayRequest, rng *rand.Rand) bool {
			r.RelaySession.Provider = w.otherProv.Addr.String()
			return true
		})},
		{"provider-resigned-empty", "provider", true, resigned(func(w *world, b *baseReq, r *pairingtypes.RelayRequest, rng *rand.Rand) bool {
			r.RelaySession.Provider = ""
			return true
		})},
		{"provider-resigned-consumer-itself", "provider", true, resigned(func(w *world, b *baseReq, r *pairingtypes.RelayRequest, rng *rand.Rand) bool {
			r.RelaySession.Provider = b.cons.addr
			return true
		})},
		// ---- names another spec
		{"spec-tampered", "spec", true, tampered(func(w *world, b *baseReq, r *pairingtypes.RelayRequest, rng *rand.Rand) bool {
			r.RelaySession.SpecId = otherSpec(w)
			return true
		})},
		{"spec-resigned-other", "spec", true, resigned(func(w *world, b *baseReq, r *pairingtypes.RelayRequest, rng *rand.Rand) bool {
			r.RelaySession.SpecId = otherSpec(w)
			return true
		})},
		{"spec-resigned-lowercase", "spec", true, resigned(func(w *world, b *baseReq, r *pairingtypes.RelayRequest, rng *rand.Rand) bool {
			r.RelaySession.SpecId = strings.ToLower(w.spec)
			return true
		})},
		{"spec-resigned-empty", "spec", true, resigned(func(w *world, b *baseReq, r *pairingtypes.RelayRequest, rng *rand.Rand) bool {
			r.RelaySession.SpecId = ""
			return true
		})},
		// ---- names another lava network
		{"lavachain-tampered", "lava-chain-id", true, tampered(func(w *world, b *baseReq, r *pairingtypes.RelayRequest, rng *rand.Rand) bool {
			r.RelaySession.LavaChainId = "lava-mainnet-1"
			return true
		})},
		{"lavachain-resigned-other", "lava-chain-id", true, resigned(func(w *world, b *baseReq, r *pairingtypes.RelayRequest, rng *rand.Rand) bool {
			r.RelaySession.LavaChainId = vrand.Pick(rng, []string{"lava-mainnet-1", "lava-testnet-2", lavaChainID + "x", strings.ToUpper(lavaChainID)})
			return true
		})},
		{"lavachain-resigned-empty", "lava-chain-id", true, resigned(func(w *world, b *baseReq, r *pairingtypes.RelayRequest, rng *rand.Rand) bool {
			r.RelaySession.LavaChainId = ""
			return true
		})},
		// ---- epoch not (any longer / yet) valid; signed by the genuine consumer
		{"epoch-resigned-too-old", "epoch", true, resigned(setEpoch(func(w *world, b *baseReq, rng *rand.Rand) (int64, bool) {
			bl := blockedHeight(w.currentEpoch)
			return int64(vrand.Pick(rng, []uint64{bl, bl - epochSize, bl - 7*epochSize, 1})), true
		}))},
		{"epoch-resigned-zero", "epoch", true, resigned(setEpoch(func(w *world, b *baseReq, rng *rand.Rand) (int64, bool) { return 0, true }))},
		{"epoch-resigned-negative", "epoch", true, resigned(setEpoch(func(w *world, b *baseReq, rng *rand.Rand) (int64, bool) {
			return vrand.Pick(rng, []int64{-1, -2, -int64(b.epoch)}), true
		}))},
		{"epoch-resigned-future", "epoch", true, resigned(setEpoch(func(w *world, b *baseReq, rng *rand.Rand) (int64, bool) {
			return int64(w.currentEpoch + epochSize*uint64(1+rng.Intn(5))), true
		}))},
		{"epoch-resigned-far-future", "epoch", true, resigned(setEpoch(func(w *world, b *baseReq, rng *rand.Rand) (int64, bool) {
			return int64(1) << uint(40+rng.Intn(20)), true
		}))},
		{"epoch-resigned-in-memory-unpaired", "epoch", true, resigned(setEpoch(func(w *world, b *baseReq, rng *rand.Rand) (int64, bool) {
			// an epoch start the provider still keeps but for which the chain does not pair this consumer
			for k := uint64(0); k < epochsInMemory; k++ {
				e := w.currentEpoch - k*epochSize
				if e > blockedHeight(w.currentEpoch) && !w.chain.isPaired(b.cons.addr, e) {
					return int64(e), true
				}
			}
			return 0, false
		}))},
		{"epoch-resigned-not-an-epoch-start", "epoch", true, resigned(setEpoch(func(w *world, b *baseReq, rng *rand.Rand) (int64, bool) {
			return int64(b.epoch + 1 + uint64(rng.Intn(int(epochSize)-1))), true
		}))},
		{"epoch-tampered", "epoch", true, tampered(setEpoch(func(w *world, b *baseReq, rng *rand.Rand) (int64, bool) {
			// to another epoch that is perfectly valid for this consumer, but without the consumer's signature
			for _, e := range w.pairedEpochsOf(b.cons) {
				if e != b.epoch {
					return int64(e), true
				}
			}
			return int64(b.epoch + epochSize), true
		}))},
		// ---- content hash does not match the data
		{"hash-data-mutated", "content-hash", true, afterHash(func(w *world, d *pairingtypes.RelayPrivateData, rng *rand.Rand) {
			if len(d.Data) == 0 {
				d.Data = []byte(`{"x":1}`)
				return
			}
			// keep it a well-formed call of the same method: change one hex digit / decimal digit
			s := []byte(string(d.Data))
			var idx []int
			for i, c := range s {
				if c >= '0' && c <= '8' {
					idx = append(idx, i)
				}
			}
			if len(idx) == 0 {
				d.Data = append(s, ' ')
				return
			}
			s[idx[rng.Intn(len(idx))]]++
			d.Data = s
		})},
		{"hash-data-appended", "content-hash", true, afterHash(func(w *world, d *pairingtypes.RelayPrivateData, rng *rand.Rand) {
			d.Data = append(append([]byte(nil), d.Data...), ' ')
		})},
		{"hash-apiurl-mutated", "content-hash", true, afterHash(func(w *world, d *pairingtypes.RelayPrivateData, rng *rand.Rand) {
			if d.ApiUrl == "" {
				d.ApiUrl = "/"
			} else {
				d.ApiUrl += vrand.Pick(rng, []string{"/", "?a=1", "0"})
			}
		})},
		{"hash-connectiontype-mutated", "content-hash", true, afterHash(func(w *world, d *pairingtypes.RelayPrivateData, rng *rand.Rand) {
			if d.ConnectionType == "POST" {
				d.ConnectionType = vrand.Pick(rng, []string{"GET", "", "post"})
			} else {
				d.ConnectionType = vrand.Pick(rng, []string{"POST", "", "get"})
			}
		})},
		{"hash-addon-mutated", "content-hash", true, afterHash(func(w *world, d *pairingtypes.RelayPrivateData, rng *rand.Rand) {
			d.Addon = vrand.Pick(rng, []string{"debug", "trace", "x"})
		})},
		{"hash-extensions-mutated", "content-hash", true, afterHash(func(w *world, d *pairingtypes.RelayPrivateData, rng *rand.Rand) {
			d.Extensions = append(d.Extensions, vrand.Pick(rng, []string{"archive", "x"}))
		})},
		{"hash-metadata-mutated", "content-hash", true, afterHash(func(w *world, d *pairingtypes.RelayPrivateData, rng *rand.Rand) {
			d.Metadata = append(d.Metadata, pairingtypes.Metadata{Name: vrand.Pick(rng, []string{"x-forwarded-for", "lava-extension", "x-c39"}), Value: "1"})
		})},
		{"hash-requestblock-mutated", "content-hash", true, afterHash(func(w *world, d *pairingtypes.RelayPrivateData, rng *rand.Rand) {
			d.RequestBlock += vrand.Pick(rng, []int64{1, -1, 1000})
		})},
		{"hash-seenblock-mutated", "content-hash", true, afterHash(func(w *world, d *pairingtypes.RelayPrivateData, rng *rand.Rand) {
			d.SeenBlock += vrand.Pick(rng, []int64{1, 100})
		})},
		{"hash-salt-mutated", "content-hash", true, afterHash(func(w *world, d *pairingtypes.RelayPrivateData, rng *rand.Rand) {
			d.Salt = flipByte(d.Salt, rng)
		})},
		{"hash-apiinterface-mutated", "content-hash", true, afterHash(func(w *world, d *pairingtypes.RelayPrivateData, rng *rand.Rand) {
			d.ApiInterface = vrand.Pick(rng, []string{"tendermintrpc", "grpc", ""})
		})},
		{"hash-relaydata-emptied", "content-hash", true, afterHash(func(w *world, d *pairingtypes.RelayPrivateData, rng *rand.Rand) {
			*d = pairingtypes.RelayPrivateData{}
		})},
		{"hash-relaydata-nil", "content-hash", true, func(w *world, b *baseReq, r *pairingtypes.RelayRequest, rng *rand.Rand) *pairingtypes.RelayRequest {
			r.RelayData = nil
			return r
		}},
		{"hash-field-tampered", "content-hash", true, tampered(func(w *world, b *baseReq, r *pairingtypes.RelayRequest, rng *rand.Rand) bool {
			r.RelaySession.ContentHash = flipByte(r.RelaySession.ContentHash, rng)
			return true
		})},
		{"hash-field-resigned-wrong", "content-hash", true, resigned(func(w *world, b *baseReq, r *pairingtypes.RelayRequest, rng *rand.Rand) bool {
			// the consumer genuinely signs a hash, but of other data than it sends
			r.RelaySession.ContentHash = flipByte(r.RelaySession.ContentHash, rng)
			return true
		})},
		{"hash-field-resigned-empty", "content-hash", true, resigned(func(w *world, b *baseReq, r *pairingtypes.RelayRequest, rng *rand.Rand) bool {
			r.RelaySession.ContentHash = nil
			return true
		})},
		// ---- signature
		{"sig-bitflip", "signature", true, tampered(func(w *world, b *baseReq, r *pairingtypes.RelayRequest, rng *rand.Rand) bool {
			s := append([]byte(nil), r.RelaySession.Sig...)
			i := 1 + rng.Intn(len(s)-1) // not the recovery byte
			s[i] ^= byte(1 << uint(rng.Intn(8)))
			r.RelaySession.Sig = s
			return true
		})},
		{"sig-recovery-id-changed", "signature", true, tampered(func(w *world, b *baseReq, r *pairingtypes.RelayRequest, rng *rand.Rand) bool {
			s := append([]byte(nil), r.RelaySession.Sig...)
			s[0] ^= 1
			r.RelaySession.Sig = s
			return true
		})},
		{"sig-truncated", "signature", true, tampered(func(w *world, b *baseReq, r *pairingtypes.RelayRequest, rng *rand.Rand) bool {
			r.RelaySession.Sig = append([]byte(nil), r.RelaySession.Sig[:1+rng.Intn(len(r.RelaySession.Sig)-1)]...)
			return true
		})},
		{"sig-empty", "signature", true, tampered(func(w *world, b *baseReq, r *pairingtypes.RelayRequest, rng *rand.Rand) bool {
			r.RelaySession.Sig = nil
			return true
		})},
		{"sig-zeroed", "signature", true, tampered(func(w *world, b *baseReq, r *pairingtypes.RelayRequest, rng *rand.Rand) bool {
			r.RelaySession.Sig = make([]byte, len(r.RelaySession.Sig))
			return true
		})},
		// ---- a signed field changed after signing
		{"cusum-tampered", "signed-field", true, tampered(func(w *world, b *baseReq, r *pairingtypes.RelayRequest, rng *rand.Rand) bool {
			r.RelaySession.CuSum += vrand.Pick(rng, []uint64{1, 10, 1000})
			return true
		})},
		{"cusum-tampered-lower", "signed-field", true, tampered(func(w *world, b *baseReq, r *pairingtypes.RelayRequest, rng *rand.Rand) bool {
			r.RelaySession.CuSum--
			return true
		})},
		{"sessionid-tampered", "signed-field", true, tampered(func(w *world, b *baseReq, r *pairingtypes.RelayRequest, rng *rand.Rand) bool {
			r.RelaySession.SessionId += uint64(1 + rng.Intn(5))
			return true
		})},
		{"relaynum-tampered", "signed-field", true, tampered(func(w *world, b *baseReq, r *pairingtypes.RelayRequest, rng *rand.Rand) bool {
			r.RelaySession.RelayNum += uint64(1 + rng.Intn(3))
			return true
		})},
		{"unresponsive-providers-tampered", "signed-field", true, tampered(func(w *world, b *baseReq, r *pairingtypes.RelayRequest, rng *rand.Rand) bool {
			r.RelaySession.UnresponsiveProviders = append(r.RelaySession.UnresponsiveProviders, &pairingtypes.ReportedProvider{Address: w.otherProv.Addr.String(), Errors: 3})
			return true
		})},
		// ---- consumer the chain does not pair with this provider
		{"pairing-false", "pairing", true, func(w *world, b *baseReq, r *pairingtypes.RelayRequest, rng *rand.Rand) *pairingtypes.RelayRequest {
			resign(w.outsiderNo, r) // identical request, signed by a key the chain does not pair
			return r
		}},
		{"pairing-error", "pairing", true, func(w *world, b *baseReq, r *pairingtypes.RelayRequest, rng *rand.Rand) *pairingtypes.RelayRequest {
			resign(w.outsiderErr, r) // the pairing query itself fails for this key
			return r
		}},
		// ---- late kinds: authentic, but invalid for a reason outside sentence 1 of the statement
		{"late-maxcu-query-fails", "late", false, func(w *world, b *baseReq, r *pairingtypes.RelayRequest, rng *rand.Rand) *pairingtypes.RelayRequest {
			resign(w.outsiderMax, r) // chain pairs this key, but its allowance query fails
			return r
		}},
		{"late-addon-unknown-resigned", "late", false, resigned(func(w *world, b *baseReq, r *pairingtypes.RelayRequest, rng *rand.Rand) bool {
			r.RelayData.Addon = "c39-no-such-addon"
			rehash(r)
			return true
		})},
		{"late-extension-unknown-resigned", "late", false, resigned(func(w *world, b *baseReq, r *pairingtypes.RelayRequest, rng *rand.Rand) bool {
			r.RelayData.Extensions = []string{"c39-no-such-extension"}
			rehash(r)
			return true
		})},
		{"late-relaynum-replay-resigned", "late", false, resigned(func(w *world, b *baseReq, r *pairingtypes.RelayRequest, rng *rand.Rand) bool {
			if r.RelaySession.RelayNum < 2 {
				return false
			}
			r.RelaySession.RelayNum-- // the relay number the provider already served on this session
			return true
		})},
		{"late-unparsable-data-resigned", "late", false, resigned(func(w *world, b *baseReq, r *pairingtypes.RelayRequest, rng *rand.Rand) bool {
			if w.apiInterface == "rest" {
				return false // the REST parser routes every path somewhere
			}
			r.RelayData.Data = []byte(vrand.Pick(rng, []string{`{"jsonrpc":"2.0","id":1,"method":`, `not json at all`}))
			rehash(r)
			return true
		})},
		{"late-node-connection-dies-resigned", "late", false, resigned(func(w *world, b *baseReq, r *pairingtypes.RelayRequest, rng *rand.Rand) bool {
			if w.apiInterface == "rest" {
				r.RelayData.ApiUrl = "/cosmos/bank/v1beta1/balances/lava@1" + nodeKillMarker
			} else {
				r.RelayData.Data = []byte(`{"jsonrpc":"2.0","id":1,"method":"eth_getBalance","params":["0x` + nodeKillMarker + `","latest"]}`)
			}
			if !w.fixCuSum(b, r) {
				return false
			}
			rehash(r)
			return true
		})},
	}
	_ = S{}
	return ks
}

type step struct {
	Kind   string         `json:"kind"`
	Req    map[string]any `json:"request"`
	Result callResult     `json:"result"`
}

func diffStrict(a, b string) string {
	if len(a) > 700 {
		a = a[:700] + "…"
	}
	if len(b) > 700 {
		b = b[:700] + "…"
	}
	return "before=" + a + " after=" + b
}

func TestC39(t *testing.T) {
	run := ev.Start("C39")
	lavarand.InitRandomSeed() // the protocol's own rand (crypto/rand based; only feeds log GUIDs and the reward server id)
	nWorlds := run.Pick(16, 300)
	basesPerWorld := run.Pick(8, 14)
	ks := kinds()
	debug := os.Getenv("C39_DEBUG") != ""

	kindRejected := map[string]int{} // corrupted request rejected AND its base accepted right after
	kindApplied := map[string]int{}
	bursts, burstsFollowedByAccept := 0, 0
	basesAccepted := 0
	lateServed := map[string]int{}
	emptySessionsMax, emptyProjectsMax := 0, 0
	proofsSeen := 0
	chainCalls := map[string]int{}
	rejectReasons := map[string]int{}
	knownCulprits, fullScans := map[string]bool{}, 0

	for wi := 0; wi < nWorlds && run.Violations() < 5; wi++ {
		w, err := newWorld(run.Seed, wi)
		if err != nil {
			run.Require(fmt.Sprintf("world %d built: %v", wi, err), false)
			break
		}
		rng := vrand.Sub(run.Seed, "c39-load", wi)
		var history []step
		witness := func(extra map[string]any) map[string]any {
			m := map[string]any{"seed": run.Seed, "world": wi, "spec": w.spec, "api_interface": w.apiInterface, "provider": w.provider.Addr.String(),
				"current_epoch": w.currentEpoch, "blocked_epoch_height": blockedHeight(w.currentEpoch), "history_tail": history[max(0, len(history)-12):]}
			for k, v := range extra {
				m[k] = v
			}
			return m
		}
		dirty := false
		for bi := 0; bi < basesPerWorld && !dirty; bi++ {
			if bi == basesPerWorld/2 && wi%2 == 1 {
				// the chain moved on: older epochs fall out of the provider's memory
				to := w.currentEpoch + epochSize*uint64(1+rng.Intn(2))
				w.epochOps[len(w.accepted)] = to
				w.advanceEpoch(to)
				history = append(history, step{Kind: fmt.Sprintf("update-epoch-%d", to)})
			}
			b, err := w.buildBase(rng, bi)
			if err != nil {
				run.Require(fmt.Sprintf("base request built (world %d base %d): %v", wi, bi, err), false)
				dirty = true
				break
			}
			snap0 := w.psm.VerifC39Snapshot()
			_, b.registered = registrations(snap0)[pairKey{b.cons.addr, b.epoch}]
			baseKey := sessionKey(b.Req.RelaySession)

			// ---------------- burst of single-field corruptions of this very request
			order := rng.Perm(len(ks))
			var rejectedKinds []string
			var rejectedReqs []*pairingtypes.RelayRequest
			bursts++
			for _, ki := range order {
				k := ks[ki]
				cr := k.apply(w, b, cloneReq(b.Req), vrand.Sub(run.Seed, "c39-kind-"+k.name, wi*1000+bi))
				if cr == nil {
					continue
				}
				ckey := sessionKey(cr.RelaySession)
				if ckey == baseKey && cr.RelayData != nil && string(cr.RelayData.GetContentHashData()) == string(b.Req.RelayData.GetContentHashData()) {
					continue // nothing changed
				}
				kindApplied[k.name]++
				w.sentCorrupt[ckey] = k.name
				before, _, _ := strictState(w.psm.VerifC39Snapshot())
				proofsBefore := w.rewards.count()
				res := w.relay(cr)
				run.Eval(1)
				snapAfter := w.psm.VerifC39Snapshot()
				after, es, ep := strictState(snapAfter)
				emptySessionsMax, emptyProjectsMax = max(emptySessionsMax, es), max(emptyProjectsMax, ep)
				history = append(history, step{Kind: k.name, Req: reqJSON(cr), Result: res})
				if debug {
					fmt.Printf("C39DBG w%d b%d %-40s served=%v err=%.160s\n", wi, bi, k.name, res.Served, res.Err)
				}
				if res.Served {
					if k.authenticity {
						gotProof := w.rewards.waitFor(ckey, 3*time.Second)
						run.Violation("corrupted-request-served", k.name,
							fmt.Sprintf("Relay() answered successfully a request whose only defect is %q (class %s); proof reached the reward server: %v; session/CU state %s",
								k.name, k.class, gotProof, diffStrict(before, after)),
							witness(map[string]any{"corrupted_request": reqJSON(cr), "valid_base_request": reqJSON(b.Req), "proof_recorded": gotProof}))
						dirty = true
						break
					}
					// an authentic request the provider chose to serve: a normal paid relay; follow it in the ledger
					lateServed[k.name]++
					w.sentValid[ckey] = "late kind served: " + k.name
					if cr.RelaySession.CuSum > 0 {
						w.rewards.waitFor(ckey, 3*time.Second)
					}
					bursts-- // burst abandoned: the base request is no longer "the next relay"; start a new world
					dirty = true
					break
				}
				reason := res.Err
				if i := strings.Index(reason, ":"); i > 0 && i < 80 {
					reason = reason[:i]
				}
				if len(reason) > 80 {
					reason = reason[:80]
				}
				rejectReasons[k.class+" <- "+reason]++
				if before != after {
					run.Violation("rejected-request-changed-session-state", k.name,
						fmt.Sprintf("Relay() rejected the request (%s) but the provider's session/CU state differs: %s", res.Err, diffStrict(before, after)),
						witness(map[string]any{"corrupted_request": reqJSON(cr), "state_before": before, "state_after": after}))
					dirty = true
					break
				}
				if n := w.rewards.count(); n != proofsBefore {
					run.Violation("rejected-request-added-proof", k.name,
						fmt.Sprintf("Relay() rejected the request (%s) but the reward server received %d new proof(s)", res.Err, n-proofsBefore),
						witness(map[string]any{"corrupted_request": reqJSON(cr)}))
					dirty = true
					break
				}
				rejectedKinds = append(rejectedKinds, k.name)
				rejectedReqs = append(rejectedReqs, cr)
			}
			if dirty {
				break
			}

			// ---------------- the valid request itself: next relay number, next CuSum
			snapB := w.psm.VerifC39Snapshot()
			beforeBase, _, _ := strictState(snapB)
			res := w.relay(b.Req)
			run.Eval(1)
			history = append(history, step{Kind: "VALID-BASE", Req: reqJSON(b.Req), Result: res})
			if debug {
				fmt.Printf("C39DBG w%d b%d %-40s served=%v err=%.200s\n", wi, bi, "VALID-BASE "+b.api, res.Served, res.Err)
			}
			if !res.Served && (strings.Contains(res.Err, "context deadline exceeded") || strings.Contains(res.Err, "deadline expired")) {
				// the relay to the stub node ran into a wall-clock timeout (loaded machine): no verdict from a timer
				run.Inconclusive(fmt.Sprintf("world %d base %d: the valid relay timed out on the wall clock (%.160s)", wi, bi, res.Err))
				dirty = true
				break
			}
			if !res.Served {
				// is the burst the reason? replay only the accepted valid requests, then this one, in a fresh identical world
				ctrl := controlAccepts(run.Seed, wi, w, nil, b.Req)
				if ctrl == "accepted" {
					// which single rejected request is enough to make the valid relay fail?
					culprit := ""
					try := func(want func(kn string) bool) {
						for i, cr := range rejectedReqs {
							if culprit == "" && want(rejectedKinds[i]) && controlAccepts(run.Seed, wi, w, cr, b.Req) != "accepted" {
								culprit = rejectedKinds[i]
							}
						}
					}
					try(func(kn string) bool { return knownCulprits[kn] }) // kinds that already explained an earlier failure first
					if culprit == "" && fullScans < 3 {
						fullScans++
						try(func(kn string) bool { return !knownCulprits[kn] })
					}
					if culprit == "" {
						culprit = "only-in-combination-or-not-searched"
					} else {
						knownCulprits[culprit] = true
					}
					run.Violation("valid-relay-rejected-after-rejections", culprit,
						fmt.Sprintf("after a burst of %d rejected corruptions the consumer's next valid relay was rejected (%s), although a fresh identical provider that never saw the burst accepts it; a single rejected request of kind %q before it is enough; visible session/CU state before the valid relay %s",
							len(rejectedKinds), res.Err, culprit, beforeBase),
						witness(map[string]any{"valid_base_request": reqJSON(b.Req), "culprit_kind": culprit, "burst": uniqueSorted(rejectedKinds)}))
				} else {
					run.Require(fmt.Sprintf("base request world %d base %d (%s) is valid in a world without corruptions: control says %s; provider error: %s", wi, bi, b.api, ctrl, res.Err), false)
				}
				dirty = true
				break
			}
			w.sentValid[baseKey] = "base " + b.api
			w.accepted = append(w.accepted, b.Req)
			if !w.rewards.waitFor(baseKey, 10*time.Second) {
				run.Inconclusive(fmt.Sprintf("world %d base %d: proof of an accepted relay did not reach the reward server within the watchdog", wi, bi))
				dirty = true
				break
			}
			// harness sanity: the accepted relay moved exactly its own session (otherwise the ledger below is wrong)
			snapC := w.psm.VerifC39Snapshot()
			sess, used, ok := findSession(snapC, b.epoch, b.cons.project, b.session)
			_, usedBefore, _ := findSession(snapB, b.epoch, b.cons.project, b.session)
			if !ok || sess.CuSum != b.Req.RelaySession.CuSum || sess.RelayNum != b.Req.RelaySession.RelayNum || sess.LatestRelayCu != 0 || sess.Locked || used != usedBefore+b.cu {
				run.Require(fmt.Sprintf("accepted relay accounted as expected (world %d base %d): session %+v found=%v used %d->%d cu %d", wi, bi, sess, ok, usedBefore, used, b.cu), false)
				dirty = true
				break
			}
			w.ledger[sessKey{b.cons.addr, b.epoch, b.session}] = &sessLedger{cuSum: b.Req.RelaySession.CuSum, relayNum: b.Req.RelaySession.RelayNum}
			basesAccepted++
			burstsFollowedByAccept++
			for _, kn := range rejectedKinds {
				kindRejected[kn]++
				run.Nontrivial(fmt.Sprintf("%s|%s|registered=%v|newsession=%v|%s", kn, w.apiInterface, b.registered, b.newSession, b.api))
			}
			if wi == 0 && bi < 2 {
				run.Sample(map[string]any{"world": wi, "base": reqJSON(b.Req), "rejected_corruptions": len(rejectedKinds), "base_accepted_after_burst": true})
			}
		}

		// ---------------- reward server: exactly the proofs of the valid requests
		time.Sleep(30 * time.Millisecond) // settle only: lets a stray goroutine deliver; lateness can hide a stray proof, never invent one
		seenProof := map[string]int{}
		for _, p := range w.rewards.all() {
			proofsSeen++
			if _, ok := w.sentValid[p.Key]; ok {
				seenProof[p.Key]++
				if seenProof[p.Key] == 1 {
					continue
				}
				// each valid request was sent (and accepted) once; a second proof with the same session
				// can only stem from a request that shares its session with it (data corrupted after hashing)
				kn := w.sentCorrupt[p.Key]
				run.Violation("proof-held-for-corrupted-request", "duplicate-of-valid-session:"+kn,
					fmt.Sprintf("the reward server received the proof of a valid request %d times although it was sent once (corrupted requests sharing this session: %s)", seenProof[p.Key], kn),
					witness(nil))
				continue
			}
			kn, isCorrupt := w.sentCorrupt[p.Key]
			if !isCorrupt {
				kn = "unknown-request"
			}
			var rs pairingtypes.RelaySession
			_ = rs.Unmarshal([]byte(p.Key))
			run.Violation("proof-held-for-corrupted-request", kn,
				fmt.Sprintf("the reward server holds a proof (epoch %d consumer %s) for a request that was never accepted as valid (kind %s)", p.Epoch, p.Consumer, kn),
				witness(map[string]any{"proof": reqJSON(&pairingtypes.RelayRequest{RelaySession: &rs, RelayData: &pairingtypes.RelayPrivateData{}})}))
		}
		w.chain.mu.Lock()
		for k, v := range w.chain.calls {
			chainCalls[k] += v
		}
		w.chain.mu.Unlock()
		run.Count("late_epoch_notifications_sent_to_the_session_manager", w.lateEpochUpdates)
		w.close()
	}

	// ---------------- reach requirements
	for _, k := range ks {
		run.Count("kind_applied:"+k.name, kindApplied[k.name])
		run.Count("kind_rejected_then_base_accepted:"+k.name, kindRejected[k.name])
		if k.authenticity {
			run.Require("corruption kind exercised (rejected, then the base request accepted): "+k.name, kindRejected[k.name] > 0)
		} else {
			run.Require("late kind exercised (rejected or served): "+k.name, kindRejected[k.name]+lateServed[k.name] > 0)
		}
	}
	for k, v := range lateServed {
		run.Count("late_kind_served:"+k, v)
	}
	for k, v := range chainCalls {
		run.Count("chain_"+k, v)
	}
	for k, v := range rejectReasons {
		run.Count("reject: "+k, v)
	}
	run.Count("bursts", bursts)
	run.Count("bursts_followed_by_accepted_valid_relay", burstsFollowedByAccept)
	run.Count("base_requests_accepted", basesAccepted)
	run.Count("proofs_recorded", proofsSeen)
	run.Count("max_zero_counter_session_records_ignored", emptySessionsMax)
	run.Count("max_zero_counter_project_records_ignored", emptyProjectsMax)
	run.Require(">= 50 valid base requests accepted", basesAccepted >= 50)
	run.Require("every completed burst was followed by an accepted valid relay", burstsFollowedByAccept > 0 && (run.Violations() > 0 || burstsFollowedByAccept == bursts))
	run.Require("pairing outcome valid seen", chainCalls["verify-valid"] > 0)
	run.Require("pairing outcome false seen", chainCalls["verify-false"] > 0)
	run.Require("pairing outcome error seen", chainCalls["verify-error"] > 0)
	run.Require("one proof per accepted valid relay", run.Violations() > 0 || proofsSeen >= basesAccepted)

	run.Finish("worlds = full RPCProviderServer (real session manager, reward server, parser, router; mock chain with a scripted pairing table; loopback stub node); per valid base request (real lavaprotocol/sigs helpers, next relay number and CuSum) a burst of every applicable single-field corruption kind of that request, then the request itself. A case is non-trivial when the corrupted request was rejected with identical session/CU state and proof set AND the uncorrupted request was accepted right after; distinct = (kind, api interface, consumer registered?, new session?, api)",
		len(ks),
		"the mock chain answers VerifyPairing like the chain would: true only for (consumer, epoch) in its pairing table, for this provider and spec; an epoch that is not in the table (future, not an epoch start) is unpaired",
		"session/CU state = per epoch and project used/missing/max CU and per session CuSum, RelayNum, in-flight CU, lock; zero-counter session/project records (consumer-registration cache) and error counters are not part of it",
		"the reward server holds exactly what went through SendNewProof (recorded in front of the real RewardServer)")
}

func uniqueSorted(xs []string) []string {
	m := map[string]bool{}
	for _, x := range xs {
		m[x] = true
	}
	out := make([]string, 0, len(m))
	for x := range m {
		out = append(out, x)
	}
	sort.Strings(out)
	return out
}

// controlAccepts rebuilds world (seed, idx) from scratch, replays only the valid requests accepted so
// far (and the epoch updates at the same positions), optionally one of the rejected requests, and then
// sends req: "accepted" means the request is valid on its own and only the burst can explain its rejection.
func controlAccepts(seed int64, idx int, orig *world, rejectedFirst, req *pairingtypes.RelayRequest) string {
	c, err := newWorld(seed, idx)
	if err != nil {
		return "control world failed: " + err.Error()
	}
	defer c.close()
	for i, r := range orig.accepted {
		if to, ok := orig.epochOps[i]; ok {
			c.advanceEpoch(to)
		}
		if res := c.relay(cloneReq(r)); !res.Served {
			return fmt.Sprintf("control diverged at accepted request %d: %s", i, res.Err)
		}
		c.rewards.waitFor(sessionKey(r.RelaySession), 5*time.Second)
	}
	if to, ok := orig.epochOps[len(orig.accepted)]; ok {
		c.advanceEpoch(to)
	}
	if rejectedFirst != nil {
		c.relay(rejectedFirst)
	}
	if res := c.relay(req); !res.Served {
		return "rejected: " + res.Err
	}
	return "accepted"
}

var _ = lavasession.VerifC39Snapshot{}
