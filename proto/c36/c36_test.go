//go:build verif

// C36 — the relay cache never serves a wrong or corrupted reply.
//
// A real cache.RelayerCacheServer runs in process (SetRelay / GetRelay called directly, and the same
// CacheServer also served by the real cs.Serve on a loopback listener and reached through the real
// performance.Cache gRPC client). Every GetRelay is compared with a shadow map keyed by the SEMANTIC key
// of the statement: (chain, request without JSON-RPC id / salt / seen block / request-, task-, tx-id,
// requested block). A miss is always allowed, a wrong hit never.
package c36

import (
	"bytes"
	"context"
	"crypto/sha256"
	"encoding/hex"
	"fmt"
	"net"
	"reflect"
	"runtime/debug"
	"sort"
	"strings"
	"testing"
	"time"

	"github.com/lavanet/lava/v5/ecosystem/cache"
	"github.com/lavanet/lava/v5/protocol/chainlib"
	"github.com/lavanet/lava/v5/protocol/common"
	"github.com/lavanet/lava/v5/protocol/lavaprotocol"
	"github.com/lavanet/lava/v5/protocol/performance"
	"github.com/lavanet/lava/v5/utils"
	pairingtypes "github.com/lavanet/lava/v5/x/pairing/types"
	spectypes "github.com/lavanet/lava/v5/x/spec/types"

	"math/rand"

	"verif/internal/ev"
	"verif/internal/vrand"
)

// ---------------------------------------------------------------- structured request

type rpcCall struct {
	Method string `json:"method"`
	Params string `json:"params"` // raw JSON
}

type semReq struct {
	Chain    string      `json:"chain"`
	Conn     string      `json:"conn"`
	URL      string      `json:"url"`
	ApiIf    string      `json:"api_interface"`
	DataKind string      `json:"data_kind"` // obj | batch | raw
	Calls    []rpcCall   `json:"calls,omitempty"`
	KeyOrder int         `json:"key_order"`
	Raw      []byte      `json:"raw,omitempty"`
	Block    int64       `json:"block"`
	Addon    string      `json:"addon"`
	Ext      []string    `json:"extensions"`
	Meta     [][2]string `json:"metadata"`
	// fields the statement tells the cache to ignore
	IDs   []string `json:"ids"` // raw JSON of each call's id, "" = member absent
	Salt  []byte   `json:"salt"`
	Seen  int64    `json:"seen_block"`
	ReqID string   `json:"request_id"`
	Task  *string  `json:"task_id"`
	Tx    *string  `json:"tx_id"`
}

func (r semReq) clone() semReq {
	c := r
	c.Calls = append([]rpcCall(nil), r.Calls...)
	c.Raw = append([]byte(nil), r.Raw...)
	c.Ext = append([]string(nil), r.Ext...)
	c.Meta = append([][2]string(nil), r.Meta...)
	c.IDs = append([]string(nil), r.IDs...)
	c.Salt = append([]byte(nil), r.Salt...)
	if r.Task != nil {
		s := *r.Task
		c.Task = &s
	}
	if r.Tx != nil {
		s := *r.Tx
		c.Tx = &s
	}
	return c
}

func jsonRPCInterface(api string) bool {
	return api == spectypes.APIInterfaceJsonRPC || api == spectypes.APIInterfaceTendermintRPC
}

func buildObj(c rpcCall, id string, order int) string {
	ver := `"jsonrpc":"2.0"`
	m := `"method":"` + c.Method + `"`
	p := `"params":` + c.Params
	i := ""
	if id != "" {
		i = `"id":` + id
	}
	var parts []string
	switch order {
	case 0:
		parts = []string{ver, i, m, p}
	case 1:
		parts = []string{ver, m, p, i}
	default:
		parts = []string{i, m, p, ver}
	}
	var nz []string
	for _, x := range parts {
		if x != "" {
			nz = append(nz, x)
		}
	}
	return "{" + strings.Join(nz, ",") + "}"
}

// data builds the request bytes. withIDs=false gives the id-less form used in the semantic key.
func (r semReq) data(withIDs bool) []byte {
	switch r.DataKind {
	case "obj":
		id := ""
		if withIDs {
			id = r.IDs[0]
		}
		return []byte(buildObj(r.Calls[0], id, r.KeyOrder))
	case "batch":
		var el []string
		for i, c := range r.Calls {
			id := ""
			if withIDs {
				id = r.IDs[i]
			}
			el = append(el, buildObj(c, id, r.KeyOrder))
		}
		return []byte("[" + strings.Join(el, ",") + "]")
	}
	return append([]byte(nil), r.Raw...)
}

func lp(b *strings.Builder, s string) { fmt.Fprintf(b, "%d:%s|", len(s), s) }

// semKey is the statement's key without the requested block: chain + the request with the JSON-RPC id,
// salt, seen block and request / task / tx ids removed.
func (r semReq) semKey() string {
	var b strings.Builder
	lp(&b, r.Chain)
	lp(&b, r.Conn)
	lp(&b, r.URL)
	lp(&b, r.ApiIf)
	if jsonRPCInterface(r.ApiIf) && r.DataKind != "raw" {
		lp(&b, "jsonrpc-without-id")
		lp(&b, string(r.data(false)))
	} else {
		lp(&b, "opaque")
		lp(&b, string(r.data(true)))
	}
	lp(&b, r.Addon)
	fmt.Fprintf(&b, "ext%d|", len(r.Ext))
	for _, e := range r.Ext {
		lp(&b, e)
	}
	fmt.Fprintf(&b, "meta%d|", len(r.Meta))
	for _, m := range r.Meta {
		lp(&b, m[0])
		lp(&b, m[1])
	}
	return b.String()
}

func (r semReq) proto() *pairingtypes.RelayPrivateData {
	p := &pairingtypes.RelayPrivateData{
		ConnectionType: r.Conn, ApiUrl: r.URL, Data: r.data(true), RequestBlock: r.Block, ApiInterface: r.ApiIf,
		Salt: append([]byte(nil), r.Salt...), Addon: r.Addon, SeenBlock: r.Seen, RequestId: r.ReqID,
	}
	if r.Salt == nil {
		p.Salt = nil
	}
	if r.Ext != nil {
		p.Extensions = append([]string{}, r.Ext...)
	}
	if r.Meta != nil {
		p.Metadata = []pairingtypes.Metadata{}
		for _, m := range r.Meta {
			p.Metadata = append(p.Metadata, pairingtypes.Metadata{Name: m[0], Value: m[1]})
		}
	}
	if r.Task != nil {
		p.XTaskId = &pairingtypes.RelayPrivateData_TaskId{TaskId: *r.Task}
	}
	if r.Tx != nil {
		p.XTxId = &pairingtypes.RelayPrivateData_TxId{TxId: *r.Tx}
	}
	return p
}

// ---------------------------------------------------------------- generators

var (
	chains   = []string{"ETH1", "ETH", "eth1", "LAV1", "COSMOSHUB", "ETH1x", "SOLANA"}
	methods  = []string{"eth_getBlockByNumber", "eth_getBlockByHash", "eth_call", "eth_getBalance", "status", "block", "abci_query", "eth_getbalance"}
	paramSet = []string{`[]`, `["0x10",true]`, `["0x10",false]`, `["0x11",true]`, `[{"to":"0xabc","data":"0x01"},"latest"]`, `[{"to":"0xabc","data":"0x02"},"latest"]`, `{"height":"5"}`, `{"height":"6"}`, `["latest"]`, `[1]`, `["1"]`, `[[1]]`, `{"id":7}`, `{"id":8}`}
	idSet    = []string{`1`, `2`, `0`, `-7`, `1234567890123456`, `1.5`, `"abc"`, `"1"`, `""`, `null`, ``, `true`, `{"a":1}`, `[1,2]`, `"id"`, `1e3`}
	addons   = []string{"", "archive", "debug", "trace"}
	extSets  = [][]string{nil, {}, {"archive"}, {"archive", "debug"}, {"debug", "archive"}, {"debug"}}
	conns    = []string{"POST", "GET", "", "PUT"}
	urls     = []string{"", "/cosmos/base/tendermint/v1beta1/blocks/5", "/cosmos/base/tendermint/v1beta1/blocks/6", "/status", "/block?height=5", "/block?height=6"}
	apiIfs   = []string{spectypes.APIInterfaceJsonRPC, spectypes.APIInterfaceTendermintRPC, spectypes.APIInterfaceRest, spectypes.APIInterfaceGrpc}
	metaPool = [][2]string{{"x-api-key", "k1"}, {"x-api-key", "k2"}, {"lava-extension", "archive"}, {"cache-control", "no-cache"}, {"x-api-key", ""}, {"", "k1"}}
	// non-object payloads a JSON-RPC interface may be handed: JSON scalars, arrays of scalars, non-JSON text
	rawJSONRPC = []string{`12345`, `67890`, `"hello"`, `"world"`, `true`, `null`, `[1,2]`, `[3,4]`, `[1,2,3]`, `hello world`, `foo bar baz`, `{}`, `[]`, `1`, `7`, ``}
	rawOpaque  = []string{``, `{"height":"5"}`, `{"height":"6"}`, `{"uid":1,"q":"a"}`, `{"uid":2,"q":"a"}`, `\x00\x01\x02`, `a`, `ab`, `abc`}
)

func pickOther[T any](rng *rand.Rand, xs []T, same func(T) bool) T {
	for {
		x := xs[rng.Intn(len(xs))]
		if !same(x) {
			return x
		}
	}
}

func genBase(rng *rand.Rand) semReq {
	r := semReq{
		Chain: vrand.Pick(rng, chains), Conn: vrand.Pick(rng, conns), URL: vrand.Pick(rng, urls), ApiIf: vrand.Pick(rng, apiIfs),
		KeyOrder: rng.Intn(3), Block: int64(1 + rng.Intn(5_000_000)), Addon: vrand.Pick(rng, addons),
	}
	if rng.Intn(4) == 0 {
		r.Block = []int64{0, 1, 1 << 40, 255, 256, 65535, 65536}[rng.Intn(7)]
	}
	r.Ext = append([]string(nil), vrand.Pick(rng, extSets)...)
	if rng.Intn(3) == 0 {
		r.Ext = nil
	}
	switch rng.Intn(4) {
	case 0:
		r.Meta = nil
	case 1:
		r.Meta = [][2]string{}
	default:
		n := 1 + rng.Intn(2)
		for i := 0; i < n; i++ {
			r.Meta = append(r.Meta, vrand.Pick(rng, metaPool))
		}
	}
	w := rng.Intn(100)
	switch {
	case w < 60:
		r.DataKind = "obj"
		r.Calls = []rpcCall{{vrand.Pick(rng, methods), vrand.Pick(rng, paramSet)}}
	case w < 78:
		r.DataKind = "batch"
		n := 1 + rng.Intn(3)
		for i := 0; i < n; i++ {
			r.Calls = append(r.Calls, rpcCall{vrand.Pick(rng, methods), vrand.Pick(rng, paramSet)})
		}
	default:
		r.DataKind = "raw"
		if jsonRPCInterface(r.ApiIf) {
			r.Raw = []byte(vrand.Pick(rng, rawJSONRPC))
		} else {
			r.Raw = []byte(vrand.Pick(rng, rawOpaque))
		}
	}
	randomizeIgnored(rng, &r)
	return r
}

// randomizeIgnored re-draws every field the statement tells the cache to ignore.
func randomizeIgnored(rng *rand.Rand, r *semReq) []string {
	var changed []string
	if r.DataKind != "raw" && (jsonRPCInterface(r.ApiIf) || len(r.IDs) != len(r.Calls)) {
		// under rest / grpc the body is opaque: an "id" member is ordinary data there and is kept
		r.IDs = make([]string, len(r.Calls))
		for i := range r.IDs {
			r.IDs[i] = vrand.Pick(rng, idSet)
		}
		changed = append(changed, "id")
	}
	switch rng.Intn(3) {
	case 0:
		r.Salt = nil
	case 1:
		r.Salt = []byte{}
	default:
		r.Salt = make([]byte, 1+rng.Intn(8))
		rng.Read(r.Salt)
	}
	r.Seen = []int64{0, 1, int64(rng.Intn(1000)), 1 << 33}[rng.Intn(4)]
	r.ReqID = []string{"", "req-1", fmt.Sprintf("req-%d", rng.Intn(1e6))}[rng.Intn(3)]
	r.Task, r.Tx = nil, nil
	if rng.Intn(2) == 0 {
		s := fmt.Sprintf("task-%d", rng.Intn(1e6))
		r.Task = &s
	}
	if rng.Intn(2) == 0 {
		s := []string{"", fmt.Sprintf("tx-%d", rng.Intn(1e6))}[rng.Intn(2)]
		r.Tx = &s
	}
	return changed
}

func idJSONType(id string) string {
	switch {
	case id == "":
		return "absent"
	case id[0] == '"':
		return "string"
	case id == "null":
		return "null"
	case id == "true":
		return "bool"
	case id[0] == '{':
		return "object"
	case id[0] == '[':
		return "array"
	case strings.ContainsAny(id, ".e"):
		return "float"
	}
	return "int"
}

var mutFields = []string{"chain", "data", "method", "block", "api-interface", "addon", "extensions", "metadata", "connection-type", "api-url"}

// mutate returns a copy differing from r in exactly one semantic field (ok=false if the field does
// not apply to this kind of request).
func mutate(rng *rand.Rand, r semReq, field string) (semReq, bool) {
	m := r.clone()
	switch field {
	case "chain":
		m.Chain = pickOther(rng, chains, func(s string) bool { return s == r.Chain })
	case "data":
		switch r.DataKind {
		case "raw":
			pool := rawOpaque
			if jsonRPCInterface(r.ApiIf) {
				pool = rawJSONRPC
			}
			m.Raw = []byte(pickOther(rng, pool, func(s string) bool { return s == string(r.Raw) }))
		default:
			i := rng.Intn(len(m.Calls))
			if r.DataKind == "batch" && rng.Intn(3) == 0 { // add / drop / swap a member: still "data differs"
				switch {
				case len(m.Calls) > 1 && rng.Intn(2) == 0:
					m.Calls = m.Calls[:len(m.Calls)-1]
					m.IDs = m.IDs[:len(m.IDs)-1]
				default:
					m.Calls = append(m.Calls, rpcCall{vrand.Pick(rng, methods), vrand.Pick(rng, paramSet)})
					m.IDs = append(m.IDs, vrand.Pick(rng, idSet))
				}
			} else {
				m.Calls[i].Params = pickOther(rng, paramSet, func(s string) bool { return s == r.Calls[i].Params })
			}
		}
	case "method":
		if r.DataKind == "raw" {
			return m, false
		}
		i := rng.Intn(len(m.Calls))
		m.Calls[i].Method = pickOther(rng, methods, func(s string) bool { return s == r.Calls[i].Method })
	case "block":
		switch rng.Intn(4) {
		case 0:
			m.Block = r.Block + 1
		case 1:
			m.Block = r.Block + 256
		case 2:
			m.Block = r.Block ^ (1 << 32)
		default:
			m.Block = int64(1 + rng.Intn(5_000_000))
		}
		if m.Block == r.Block || m.Block < 0 {
			m.Block = r.Block + 2
		}
	case "api-interface":
		m.ApiIf = pickOther(rng, apiIfs, func(s string) bool { return s == r.ApiIf })
	case "addon":
		m.Addon = pickOther(rng, addons, func(s string) bool { return s == r.Addon })
	case "extensions":
		m.Ext = append([]string(nil), pickOther(rng, extSets, func(s []string) bool { return strings.Join(s, ",") == strings.Join(r.Ext, ",") })...)
	case "metadata":
		switch {
		case len(m.Meta) > 0 && rng.Intn(3) == 0:
			m.Meta = m.Meta[:len(m.Meta)-1]
		case len(m.Meta) > 0 && rng.Intn(2) == 0:
			i := rng.Intn(len(m.Meta))
			m.Meta[i] = pickOther(rng, metaPool, func(s [2]string) bool { return s == r.Meta[i] })
		default:
			m.Meta = append(m.Meta, vrand.Pick(rng, metaPool))
		}
	case "connection-type":
		m.Conn = pickOther(rng, conns, func(s string) bool { return s == r.Conn })
	case "api-url":
		m.URL = pickOther(rng, urls, func(s string) bool { return s == r.URL })
	}
	if m.semKey() == r.semKey() && m.Block == r.Block {
		return m, false
	}
	return m, true
}

// ---------------------------------------------------------------- payloads

type payloadSpec struct {
	Class string `json:"class"` // size class
	Kind  string `json:"kind"`  // json | random | zeros | gzip-magic
	Size  int    `json:"size"`
	Nonce int    `json:"nonce"`
}

func genPayload(seed int64, p payloadSpec) []byte {
	out := make([]byte, p.Size)
	head := []byte(fmt.Sprintf(`{"jsonrpc":"2.0","id":1,"nonce":%d,"result":"`, p.Nonce))
	switch p.Kind {
	case "random":
		vrand.Sub(seed, "c36-payload", p.Nonce).Read(out)
		copy(out, []byte(fmt.Sprintf("#%d#", p.Nonce)))
	case "zeros":
		copy(out, []byte(fmt.Sprintf("#%d#", p.Nonce)))
	case "gzip-magic": // looks like a gzip stream but is not one
		vrand.Sub(seed, "c36-payload", p.Nonce).Read(out)
		copy(out, []byte{0x1f, 0x8b, 0x08, 0x00})
		if len(out) > 12 {
			copy(out[4:], []byte(fmt.Sprintf("#%d#", p.Nonce)))
		}
	default: // compressible JSON text
		text := []byte(fmt.Sprintf(`0x%064x","hash":"0xdeadbeef","transactions":[], `, p.Nonce))
		n := copy(out, head)
		for n < len(out) {
			n += copy(out[n:], text)
		}
	}
	return out
}

// genPayloadSpec draws a reply. bigIdx >= 0 forces the bigIdx-th entry of a fixed plan that cycles through
// the size classes around / above the compression threshold and through all content kinds.
func genPayloadSpec(rng *rand.Rand, nonce int, bigIdx int) payloadSpec {
	T := common.CompressionThreshold
	p := payloadSpec{Nonce: nonce}
	kinds := []string{"json", "random", "zeros", "gzip-magic", "json"}
	p.Kind = kinds[rng.Intn(len(kinds))]
	w := rng.Intn(100)
	if bigIdx >= 0 {
		w = []int{96, 97, 98, 99}[bigIdx%4]
		p.Kind = kinds[(bigIdx/4+bigIdx)%4]
	}
	switch {
	case w < 8:
		p.Class, p.Size = "0", 0
	case w < 14:
		p.Class, p.Size = "1", 1
	case w < 96:
		p.Class, p.Size = "small", 2+rng.Intn(3000)
	case w < 97:
		p.Class, p.Size = "T-1", T-1
	case w < 98:
		p.Class, p.Size = "T", T
	case w < 99:
		p.Class, p.Size = "T+1", T+1
	default:
		p.Class, p.Size = "multi-MB", 2*T+rng.Intn(3*T)
	}
	return p
}

// ---------------------------------------------------------------- shadow

type stored struct {
	SetNo     int         `json:"set_no"`
	Req       semReq      `json:"request"`
	Payload   payloadSpec `json:"payload"`
	Sum       [32]byte    `json:"-"`
	Finalized bool        `json:"finalized"`
	BlockHash []byte      `json:"block_hash"`
	Latest    int64       `json:"reply_latest_block"`
	RMeta     [][2]string `json:"reply_metadata"`
	OptMeta   [][2]string `json:"optional_metadata"`
	FinHashes []byte      `json:"finalized_blocks_hashes"`
	SigBlocks []byte      `json:"sig_blocks"`
	Via       string      `json:"via"`
}

type shadowKey struct {
	sem   string
	block int64
}

type harness struct {
	t        *testing.T
	run      *ev.Run
	ctx      context.Context
	srv      *cache.RelayerCacheServer
	client   *performance.Cache
	shadow   map[shadowKey][]*stored
	bySum    map[[32]byte][]*stored
	latest   map[string]map[int64]bool // chain -> every latest-known block ever handed to SetRelay
	latestMx map[string]int64
	steps    int
	sets     int
	cnt      map[string]int
	hashSeen map[string]string // request hash hex -> semantic key (diagnostic: key-level collisions)
	bigs     []bigRef          // the last few big replies stored (re-read after later big stores)
}

func (h *harness) count(k string) { h.cnt[k]++ }

func metaProto(m [][2]string) []pairingtypes.Metadata {
	if m == nil {
		return nil
	}
	out := []pairingtypes.Metadata{}
	for _, x := range m {
		out = append(out, pairingtypes.Metadata{Name: x[0], Value: x[1]})
	}
	return out
}

func metaEq(a []pairingtypes.Metadata, b [][2]string) bool {
	if len(a) != len(b) {
		return false
	}
	for i := range a {
		if a[i].Name != b[i][0] || a[i].Value != b[i][1] {
			return false
		}
	}
	return true
}

func deepCopyReq(p *pairingtypes.RelayPrivateData) *pairingtypes.RelayPrivateData {
	c := *p
	if p.Data != nil {
		c.Data = append([]byte{}, p.Data...)
	}
	if p.Salt != nil {
		c.Salt = append([]byte{}, p.Salt...)
	}
	if p.Metadata != nil {
		c.Metadata = append([]pairingtypes.Metadata{}, p.Metadata...)
	}
	if p.Extensions != nil {
		c.Extensions = append([]string{}, p.Extensions...)
	}
	if t, ok := p.XTaskId.(*pairingtypes.RelayPrivateData_TaskId); ok && t != nil {
		c.XTaskId = &pairingtypes.RelayPrivateData_TaskId{TaskId: t.TaskId}
	}
	if t, ok := p.XTxId.(*pairingtypes.RelayPrivateData_TxId); ok && t != nil {
		c.XTxId = &pairingtypes.RelayPrivateData_TxId{TxId: t.TxId}
	}
	return &c
}

// hash computes the request hash with the real HashCacheRequest and checks that the request is left
// unchanged (deep-equal and marshalled bytes).
func (h *harness) hash(r semReq) []byte {
	p := r.proto()
	before := deepCopyReq(p)
	bb, err := p.Marshal()
	if err != nil {
		h.t.Fatalf("marshal: %v", err)
	}
	hash, _, err := chainlib.HashCacheRequest(p, r.Chain)
	h.count("hash-computations")
	if err != nil {
		h.count("hash-errors")
		return nil
	}
	ab, _ := p.Marshal()
	if !reflect.DeepEqual(before, p) || !bytes.Equal(bb, ab) {
		var diff []string
		bv, av := reflect.ValueOf(*before), reflect.ValueOf(*p)
		for i := 0; i < bv.NumField(); i++ {
			if !reflect.DeepEqual(bv.Field(i).Interface(), av.Field(i).Interface()) {
				diff = append(diff, bv.Type().Field(i).Name)
			}
		}
		h.run.Violation("hash-changes-request", "HashCacheRequest:"+strings.Join(diff, "+"),
			fmt.Sprintf("HashCacheRequest left the request changed in %v", diff), map[string]any{"seed": h.run.Seed, "request": r, "before_hex": hex.EncodeToString(bb), "after_hex": hex.EncodeToString(ab)})
	}
	// diagnostic + direct key-level oracle: two semantically different requests must not share a hash
	hx := hex.EncodeToString(hash)
	sk := r.semKey()
	if prev, ok := h.hashSeen[hx]; ok {
		if prev != sk {
			h.count("request-hash-shared-by-different-requests")
		}
	} else {
		h.hashSeen[hx] = sk
	}
	return hash
}

// bigRef remembers how to read back a big reply stored earlier.
type bigRef struct {
	req  semReq
	opts getOpts
	st   *stored
}

type getOpts struct {
	Finalized bool   `json:"finalized"`
	BlockHash []byte `json:"block_hash"`
	Seen      int64  `json:"seen_block"`
	Shared    string `json:"shared_state_id"`
	ReqBlock  int64  `json:"requested_block"` // what is sent (may be negative)
	Via       string `json:"via"`
}

// set stores one reply. exactLatest makes the request's block the latest known block handed to the cache.
func (h *harness) set(r semReq, ps payloadSpec, finalized bool, blockHash []byte, via string, exactLatest bool, rng *rand.Rand) *stored {
	payload := genPayload(h.run.Seed, ps)
	st := &stored{SetNo: h.sets, Req: r.clone(), Payload: ps, Sum: sha256.Sum256(payload), Finalized: finalized, BlockHash: blockHash, Via: via}
	h.sets++
	switch rng.Intn(3) {
	case 0:
		st.Latest = 0
	case 1:
		st.Latest = r.Block
	default:
		st.Latest = r.Block + int64(rng.Intn(20))
	}
	if exactLatest {
		st.Latest = r.Block
	}
	if rng.Intn(3) == 0 {
		st.RMeta = [][2]string{{"x-node", fmt.Sprintf("n%d", st.SetNo)}}
	}
	if rng.Intn(3) == 0 {
		st.OptMeta = [][2]string{{"lava-opt", fmt.Sprintf("o%d", st.SetNo)}}
	}
	if rng.Intn(3) == 0 {
		st.FinHashes = []byte(fmt.Sprintf(`{"%d":"0xaa%d"}`, r.Block, st.SetNo))
		st.SigBlocks = []byte(fmt.Sprintf("sigblocks-%d", st.SetNo))
	}
	hash := h.hash(r)
	if hash == nil {
		return nil
	}
	hashCopy := append([]byte(nil), hash...)
	setSeen := int64(0)
	if rng.Intn(4) == 0 && !exactLatest {
		setSeen = r.Block + int64(rng.Intn(3))
	}
	msg := &pairingtypes.RelayCacheSet{
		RequestHash: hash, BlockHash: append([]byte(nil), blockHash...), ChainId: r.Chain, Finalized: finalized, RequestedBlock: r.Block,
		Response: &pairingtypes.RelayReply{
			Data: append([]byte(nil), payload...), Sig: []byte("sig-by-provider"), LatestBlock: st.Latest,
			FinalizedBlocksHashes: append([]byte(nil), st.FinHashes...), SigBlocks: append([]byte(nil), st.SigBlocks...), Metadata: metaProto(st.RMeta),
		},
		OptionalMetadata: metaProto(st.OptMeta), SeenBlock: setSeen,
		AverageBlockTime: int64([]time.Duration{0, 400 * time.Millisecond, 12 * time.Second}[rng.Intn(3)]),
	}
	if blockHash == nil {
		msg.BlockHash = nil
	}
	if rng.Intn(10) == 0 {
		msg.SharedStateId = "user" + fmt.Sprint(rng.Intn(2))
	}
	var err error
	if via == "grpc" {
		err = h.client.SetEntry(h.ctx, msg)
	} else {
		_, err = h.srv.SetRelay(h.ctx, msg)
	}
	h.steps++
	h.run.Eval(1)
	if err != nil {
		h.t.Fatalf("SetRelay(%s) failed: %v", via, err)
	}
	if !bytes.Equal(hashCopy, msg.RequestHash) {
		h.run.Violation("key-computation-changes-request", "SetRelay:RequestHash", "SetRelay changed the request hash it was given", map[string]any{"seed": h.run.Seed, "request": r})
	}
	known := st.Latest
	if setSeen > known {
		known = setSeen
	}
	if h.latest[r.Chain] == nil {
		h.latest[r.Chain] = map[int64]bool{}
	}
	h.latest[r.Chain][known] = true
	if known > h.latestMx[r.Chain] {
		h.latestMx[r.Chain] = known
	}
	k := shadowKey{r.semKey(), r.Block}
	h.shadow[k] = append(h.shadow[k], st)
	h.bySum[st.Sum] = append(h.bySum[st.Sum], st)
	h.srv.WaitCaches()
	h.count("sets")
	h.count("sets-via-" + via)
	h.count("set-payload-class-" + ps.Class)
	return st
}

// diffFields lists the semantic fields in which two requests differ.
func diffFields(a, b semReq) []string {
	var d []string
	add := func(c bool, n string) {
		if c {
			d = append(d, n)
		}
	}
	add(a.Chain != b.Chain, "chain")
	// request body
	sameData := func() bool {
		x, y := a.clone(), b.clone()
		x.Chain, y.Chain, x.Conn, y.Conn, x.URL, y.URL, x.Addon, y.Addon = "", "", "", "", "", "", "", ""
		x.Ext, y.Ext, x.Meta, y.Meta = nil, nil, nil, nil
		x.ApiIf, y.ApiIf = a.ApiIf, a.ApiIf
		return x.semKey() == y.semKey()
	}
	add(!sameData(), "data")
	add(a.Block != b.Block, "block")
	add(a.ApiIf != b.ApiIf, "api-interface")
	add(a.Addon != b.Addon, "addon")
	add(strings.Join(a.Ext, "\x00") != strings.Join(b.Ext, "\x00"), "extensions")
	add(fmt.Sprint(a.Meta) != fmt.Sprint(b.Meta), "metadata")
	add(a.Conn != b.Conn, "connection-type")
	add(a.URL != b.URL, "api-url")
	return d
}

func diffFieldsIgnoringBlock(d []string) []string {
	var out []string
	for _, x := range d {
		if x != "block" {
			out = append(out, x)
		}
	}
	return out
}

func containsBlock(bs []int64, b int64) bool {
	for _, x := range bs {
		if x == b {
			return true
		}
	}
	return false
}

type getResult struct {
	hit      bool
	resolved int64
	st       *stored // matched shadow entry (nil on miss / violation)
}

// get performs one GetRelay and judges it against the shadow. field names the single semantic field in
// which r differs from the entry the scenario just stored ("" for an equivalent request).
func (h *harness) get(r semReq, o getOpts, note string) getResult {
	hash := h.hash(r)
	if hash == nil {
		return getResult{}
	}
	hashCopy := append([]byte(nil), hash...)
	msg := &pairingtypes.RelayCacheGet{
		RequestHash: hash, BlockHash: o.BlockHash, Finalized: o.Finalized, RequestedBlock: o.ReqBlock,
		SharedStateId: o.Shared, ChainId: r.Chain, SeenBlock: o.Seen,
	}
	var rep *pairingtypes.CacheRelayReply
	var err error
	if o.Via == "grpc" {
		rep, err = h.client.GetEntry(h.ctx, msg)
	} else {
		rep, err = h.srv.GetRelay(h.ctx, msg)
	}
	h.steps++
	h.run.Eval(1)
	h.count("gets")
	h.count("gets-via-" + o.Via)
	if err != nil {
		h.t.Fatalf("GetRelay(%s) failed: %v", o.Via, err)
	}
	wit := func(extra map[string]any) map[string]any {
		w := map[string]any{"seed": h.run.Seed, "step": h.steps, "note": note, "get_request": r, "get_options": o}
		for k, v := range extra {
			w[k] = v
		}
		return w
	}
	if !bytes.Equal(hashCopy, msg.RequestHash) {
		h.run.Violation("key-computation-changes-request", "GetRelay:RequestHash", "GetRelay changed the request hash it was given", wit(nil))
	}
	if rep == nil || rep.Reply == nil {
		h.count("misses")
		return getResult{}
	}
	h.count("hits")
	h.count("hits-via-" + o.Via)
	data := rep.Reply.Data
	sum := sha256.Sum256(data)

	// which requested block(s) may this get legitimately have been answered for?
	var blocks []int64
	resolved := o.ReqBlock
	if o.ReqBlock >= 0 {
		blocks = []int64{o.ReqBlock}
	} else {
		if o.Via == "direct" {
			resolved = msg.RequestedBlock // the handler writes the block it resolved back into the message
			ok := false
			for l := range h.latest[r.Chain] {
				if lavaprotocol.ReplaceRequestedBlock(o.ReqBlock, l) == resolved {
					ok = true
				}
			}
			if !ok && resolved >= 0 {
				h.run.Violation("negative-block-resolved-outside-latest-store", fmt.Sprintf("requested=%d", o.ReqBlock),
					fmt.Sprintf("requested block %d of chain %q was resolved to %d, which no SetRelay of that chain ever made the latest block", o.ReqBlock, r.Chain, resolved), wit(nil))
			}
			blocks = []int64{resolved}
		} else {
			for l := range h.latest[r.Chain] {
				if b := lavaprotocol.ReplaceRequestedBlock(o.ReqBlock, l); b >= 0 {
					blocks = append(blocks, b)
				}
			}
		}
	}
	var cands []*stored
	for _, b := range blocks {
		cands = append(cands, h.shadow[shadowKey{r.semKey(), b}]...)
	}
	var match []*stored
	for _, c := range cands {
		if c.Sum == sum && c.Payload.Size == len(data) {
			match = append(match, c)
		}
	}
	if len(match) == 0 {
		// Wrong hit. Either the bytes are the reply of ANOTHER request (key confusion) or they are nobody's (corruption).
		owners := h.bySum[sum]
		if len(owners) > 0 {
			best, bestD := owners[len(owners)-1], []string(nil)
			for i := len(owners) - 1; i >= 0 && i >= len(owners)-300; i-- {
				d := diffFields(owners[i].Req, r)
				if o.ReqBlock < 0 { // the block of the get was resolved by the cache
					d = diffFieldsIgnoringBlock(d)
					if !containsBlock(blocks, owners[i].Req.Block) {
						d = append(d, "block(resolved)")
					}
				}
				if bestD == nil || len(d) < len(bestD) {
					best, bestD = owners[i], d
				}
			}
			if len(bestD) == 0 {
				bestD = []string{"nothing(stale-or-shadowed)"}
			}
			sig := "differs-in:" + strings.Join(bestD, "+")
			if jsonRPCInterface(r.ApiIf) && r.DataKind == "raw" && best.Req.DataKind == "raw" && len(bestD) == 1 && bestD[0] == "data" {
				sig = "jsonrpc-non-object-data:differs-in:data"
			}
			h.run.Violation("hit-serves-reply-of-another-request", sig,
				fmt.Sprintf("GetRelay (%s) answered with the reply stored for a request that %s (%d bytes; %d replies are stored under the asked key, none equal) [%s]", o.Via, sig, len(data), len(cands), note),
				wit(map[string]any{"owner_of_returned_bytes": best, "asked_blocks": blocks, "stored_under_asked_key": cands}))
			return getResult{hit: true, resolved: resolved}
		}
		sig := "no-entry-under-key"
		if len(cands) > 0 {
			last := cands[len(cands)-1]
			sig = "class=" + last.Payload.Class + ":kind=" + last.Payload.Kind
			if len(data) >= 2 && data[0] == 0x1f && data[1] == 0x8b && last.Payload.Kind != "gzip-magic" {
				sig = "gzip-stream-returned:" + sig
			}
		}
		h.run.Violation("hit-bytes-differ-from-stored", sig,
			fmt.Sprintf("GetRelay (%s) returned %d bytes (sha256 %x…) that were never stored by anybody; %d replies are stored under the asked key [%s]", o.Via, len(data), sum[:6], len(cands), note),
			wit(map[string]any{"stored_under_asked_key": cands, "returned_len": len(data), "returned_head_hex": hex.EncodeToString(data[:min(len(data), 48)])}))
		return getResult{hit: true, resolved: resolved}
	}
	// block-hash rule: a non-finalized entry stored with a block hash only for a request carrying that hash
	var okHash []*stored
	for _, c := range match {
		if c.Finalized || len(c.BlockHash) == 0 || bytes.Equal(c.BlockHash, o.BlockHash) {
			okHash = append(okHash, c)
		}
	}
	if len(okHash) == 0 {
		c := match[len(match)-1]
		sig := "request-with-different-hash"
		if len(o.BlockHash) == 0 {
			sig = "request-without-hash"
		}
		h.run.Violation("non-finalized-entry-served-despite-block-hash", sig,
			fmt.Sprintf("GetRelay (%s, finalized=%v, block hash %x) was served the non-finalized entry stored with block hash %x [%s]", o.Via, o.Finalized, o.BlockHash, c.BlockHash, note),
			wit(map[string]any{"stored_entry": c}))
		return getResult{hit: true, resolved: resolved}
	}
	// the rest of the stored reply
	var full *stored
	var bad string
	for _, c := range okHash {
		switch {
		case rep.Reply.LatestBlock != c.Latest:
			bad = "latest_block"
		case !metaEq(rep.Reply.Metadata, c.RMeta):
			bad = "metadata"
		case !bytes.Equal(rep.Reply.FinalizedBlocksHashes, c.FinHashes):
			bad = "finalized_blocks_hashes"
		case !bytes.Equal(rep.Reply.SigBlocks, c.SigBlocks):
			bad = "sig_blocks"
		case !metaEq(rep.OptionalMetadata, c.OptMeta):
			bad = "optional_metadata"
		default:
			full = c
		}
		if full != nil {
			break
		}
	}
	if full == nil {
		h.run.Violation("hit-reply-fields-differ-from-stored", bad,
			fmt.Sprintf("GetRelay (%s) returned the stored data but field %s differs from every reply stored with these bytes [%s]", o.Via, bad, note),
			wit(map[string]any{"stored_under_key": okHash, "got_latest_block": rep.Reply.LatestBlock, "got_metadata": rep.Reply.Metadata, "got_optional_metadata": rep.OptionalMetadata}))
		return getResult{hit: true, resolved: resolved}
	}
	if full != cands[len(cands)-1] {
		h.count("hits-on-an-older-reply-of-the-key") // allowed: two stores (temp / finalized), dropped writes
	}
	h.count("hits-correct")
	h.count("hit-payload-class-" + full.Payload.Class)
	if full.Payload.Size > common.CompressionThreshold && (full.Payload.Kind == "json" || full.Payload.Kind == "zeros") {
		h.count("hits-compressed-payload-via-" + o.Via)
	}
	return getResult{hit: true, resolved: resolved, st: full}
}

// ---------------------------------------------------------------- scenarios

func (h *harness) scenario(n int, rng *rand.Rand) {
	run := h.run
	base := genBase(rng)
	via := "direct"
	if rng.Intn(100) < 18 {
		via = "grpc"
	}
	bigIdx := -1
	if n%10 == 0 { // every 10th scenario follows the fixed plan of big replies; every 3rd of those goes through gRPC
		bigIdx = n / 10
		via = []string{"grpc", "direct", "direct"}[bigIdx%3]
	}
	ps := genPayloadSpec(rng, h.sets, bigIdx)
	// finality / hash class
	var finalized bool
	var bhash []byte
	fcls := []string{"finalized", "finalized+hash", "non-finalized", "non-finalized+hash"}[rng.Intn(4)]
	if n%2 == 1 {
		fcls = "non-finalized+hash"
	}
	switch fcls {
	case "finalized":
		finalized = true
	case "finalized+hash":
		finalized, bhash = true, []byte(fmt.Sprintf("0xhash-%d", n))
	case "non-finalized+hash":
		bhash = []byte(fmt.Sprintf("0xhash-%d", n))
		if rng.Intn(6) == 0 {
			bhash = []byte{byte(n)}
		}
	}
	latestScenario := rng.Intn(5) == 0
	if latestScenario {
		base.Block = h.latestMx[base.Chain] + 1 + int64(rng.Intn(5))
	}
	st := h.set(base, ps, finalized, bhash, via, latestScenario, rng)
	if st == nil {
		return
	}
	opt := func() getOpts {
		o := getOpts{Finalized: finalized, BlockHash: bhash, ReqBlock: base.Block, Via: via}
		if rng.Intn(4) == 0 {
			o.Finalized = !finalized // lookups search both stores
		}
		if rng.Intn(5) == 0 {
			o.Seen = int64(rng.Intn(3))
		}
		if rng.Intn(12) == 0 {
			o.Shared = "user" + fmt.Sprint(rng.Intn(2))
		}
		if rng.Intn(6) == 0 {
			if o.Via == "grpc" {
				o.Via = "direct"
			} else {
				o.Via = "grpc"
			}
		}
		return o
	}
	sigBase := fmt.Sprintf("%s|%s|%s|%s|%s", base.ApiIf, base.DataKind, ps.Class, ps.Kind, fcls)

	// 1. equivalent requests (only ignored fields differ) — expected to hit with exactly the stored bytes
	present := false
	for i := 0; i < 2; i++ {
		eq := base.clone()
		randomizeIgnored(rng, &eq)
		res := h.get(eq, opt(), "equivalent request (only id / salt / seen block / request-, task-, tx-id differ)")
		if res.st == st {
			present = true
			h.count("equivalent-request-hits")
			if eq.DataKind != "raw" && jsonRPCInterface(eq.ApiIf) {
				for j := range eq.IDs {
					if j < len(base.IDs) && idJSONType(eq.IDs[j]) != idJSONType(base.IDs[j]) {
						h.count("hit-across-id-json-types")
						run.Nontrivial("idtype|" + idJSONType(base.IDs[j]) + "->" + idJSONType(eq.IDs[j]))
					}
				}
			}
			if ps.Size > common.CompressionThreshold {
				run.Nontrivial("bigpayload|" + ps.Class + "|" + ps.Kind + "|" + via)
			}
		} else if !res.hit {
			h.count("equivalent-request-misses")
		}
	}
	if bigIdx >= 0 { // plain re-read of a planned big reply (no seen-block / shared-state variation)
		o := opt()
		o.Seen, o.Shared = 0, ""
		if res := h.get(base, o, "plain re-read of a big reply"); res.st == st {
			present = true
		}
	}
	if ps.Size > common.CompressionThreshold {
		// big replies stored EARLIER are read again now that another big reply has gone through the same store path:
		// a stored entry must not change when later entries are written
		plain := getOpts{Finalized: finalized, BlockHash: bhash, ReqBlock: base.Block, Via: "direct"}
		for _, old := range h.bigs {
			h.count("revisits-of-an-earlier-big-reply")
			if res := h.get(old.req, old.opts, fmt.Sprintf("re-read of the big reply stored %d stores earlier, after another big reply was stored", h.sets-old.st.SetNo)); res.st == old.st {
				h.count("revisits-of-an-earlier-big-reply-hit-intact")
				if old.st.Payload.Kind == "json" || old.st.Payload.Kind == "zeros" {
					run.Nontrivial("revisit|" + old.st.Payload.Class + "|" + old.st.Payload.Kind)
				}
			}
		}
		h.bigs = append(h.bigs, bigRef{req: base, opts: plain, st: st})
		if len(h.bigs) > 2 {
			h.bigs = h.bigs[1:]
		}
	}
	// 2. one-field-different requests — must never be answered with this entry
	k := 3 + rng.Intn(4)
	perm := rng.Perm(len(mutFields))
	for _, fi := range perm[:k] {
		f := mutFields[fi]
		m, ok := mutate(rng, base, f)
		if !ok {
			continue
		}
		randomizeIgnored(rng, &m)
		o := opt()
		o.ReqBlock = m.Block
		h.get(m, o, "differs from the entry just stored in exactly: "+f)
		if present {
			h.count("one-field-pair:" + f)
			run.Nontrivial("pair|" + f + "|" + sigBase)
		}
	}
	// 3. block-hash probes on a non-finalized entry stored with a hash
	if fcls == "non-finalized+hash" {
		for _, probe := range []string{"other-hash", "no-hash", "empty-hash", "prefix-hash", "other-hash-finalized-lookup"} {
			o := opt()
			o.Seen, o.Shared = 0, ""
			switch probe {
			case "other-hash":
				o.BlockHash = []byte(fmt.Sprintf("0xhash-%d-fork", n))
			case "no-hash":
				o.BlockHash = nil
			case "empty-hash":
				o.BlockHash = []byte{}
			case "prefix-hash":
				o.BlockHash = bhash[:len(bhash)-1]
			case "other-hash-finalized-lookup":
				o.BlockHash, o.Finalized = []byte("0xfork"), true
			}
			eq := base.clone()
			randomizeIgnored(rng, &eq)
			h.get(eq, o, "non-finalized entry stored with a block hash, probed with "+probe)
			if present {
				h.count("hash-probe:" + probe)
				run.Nontrivial("hashprobe|" + probe + "|" + base.ApiIf + "|" + ps.Class)
			}
		}
		o := opt()
		o.BlockHash, o.Seen, o.Shared = bhash, 0, ""
		if res := h.get(base, o, "non-finalized entry stored with a block hash, same hash"); res.st == st {
			h.count("non-finalized-with-hash-hit-same-hash")
		}
	}
	// 4. negative requested blocks, resolved through the latest-block store of the chain
	if latestScenario {
		for _, nb := range []int64{spectypes.LATEST_BLOCK, spectypes.PENDING_BLOCK, spectypes.SAFE_BLOCK, spectypes.FINALIZED_BLOCK, spectypes.EARLIEST_BLOCK, spectypes.NOT_APPLICABLE} {
			eq := base.clone()
			randomizeIgnored(rng, &eq)
			eq.Block = nb
			o := opt()
			o.ReqBlock, o.Seen, o.Shared = nb, 0, ""
			res := h.get(eq, o, fmt.Sprintf("negative requested block %d", nb))
			if res.st == st {
				h.count("negative-block-hit-through-latest-store")
				run.Nontrivial(fmt.Sprintf("negblock|%d|%s|%s", nb, o.Via, fcls))
			}
			// the same negative block on another chain / other data must not get this entry
			f := []string{"chain", "data", "method", "addon"}[rng.Intn(4)]
			if m, ok := mutate(rng, eq, f); ok {
				h.get(m, o, fmt.Sprintf("negative requested block %d, differs in %s", nb, f))
				if res.st == st {
					h.count("negative-block-one-field-pair")
				}
			}
		}
	}
	// 5. a neighbour entry: store a one-field-different request with its own reply; both must keep their own
	if rng.Intn(3) == 0 {
		f := mutFields[rng.Intn(len(mutFields))]
		if m, ok := mutate(rng, base, f); ok && m.Block >= 0 {
			randomizeIgnored(rng, &m)
			ps2 := genPayloadSpec(rng, h.sets, -1)
			fin2 := rng.Intn(2) == 0
			st2 := h.set(m, ps2, fin2, nil, via, false, rng)
			o := opt()
			o.Seen, o.Shared = 0, ""
			r1 := h.get(base, o, "entry re-read after a neighbour differing in "+f+" was stored")
			o2 := o
			o2.ReqBlock, o2.Finalized, o2.BlockHash = m.Block, fin2, nil
			r2 := h.get(m, o2, "neighbour entry differing in "+f)
			if r1.st == st && st2 != nil && r2.st == st2 {
				h.count("neighbour-pairs-both-hit-own-reply")
				run.Nontrivial("neighbours|" + f + "|" + base.ApiIf)
			}
		}
	}
	// 6. overwrite the same key with a new reply, or re-read an old key
	if rng.Intn(6) == 0 {
		eq := base.clone()
		randomizeIgnored(rng, &eq)
		st3 := h.set(eq, genPayloadSpec(rng, h.sets, -1), finalized, bhash, via, false, rng)
		o := opt()
		o.Seen, o.Shared = 0, ""
		if res := h.get(base, o, "same key stored twice"); res.st != nil && res.st == st3 {
			h.count("overwrite-latest-reply-served")
		}
	}
	if n < 3 {
		run.Sample(map[string]any{"scenario": n, "request": base, "data": string(base.data(true)), "payload": ps, "class": fcls, "via": via, "entry_present_when_probed": present})
	}
}

// directedNonObject always exercises the class "payload handed to a JSON-RPC interface that is not a JSON
// object" (scalars, arrays of scalars, plain text): two such requests differ in their data and in nothing else.
func (h *harness) directedNonObject(rng *rand.Rand) {
	pairs := [][2]string{{`12345`, `67890`}, {`"hello"`, `"world"`}, {`[1,2]`, `[3,4]`}, {`hello world`, `foo bar baz`}, {`true`, `null`}}
	for i, pr := range pairs {
		for j, api := range []string{spectypes.APIInterfaceJsonRPC, spectypes.APIInterfaceTendermintRPC} {
			base := semReq{Chain: "ETH1", Conn: "POST", ApiIf: api, DataKind: "raw", Raw: []byte(pr[0]), Block: int64(7000 + 10*i + j)}
			randomizeIgnored(rng, &base)
			st := h.set(base, payloadSpec{Class: "small", Kind: "json", Size: 200, Nonce: h.sets}, true, nil, "direct", false, rng)
			o := getOpts{Finalized: true, ReqBlock: base.Block, Via: "direct"}
			res := h.get(base, o, "directed: non-object payload on a JSON-RPC interface, same request")
			other := base.clone()
			other.Raw = []byte(pr[1])
			h.get(other, o, "directed: non-object payload on a JSON-RPC interface, differs in exactly: data")
			if st != nil && res.st == st {
				h.count("one-field-pair:data(non-object-jsonrpc-payload)")
				h.run.Nontrivial("pair|data|non-object|" + api + "|" + pr[0])
			}
		}
	}
}

func freeAddr(t *testing.T) string {
	l, err := net.Listen("tcp", "127.0.0.1:0")
	if err != nil {
		t.Fatalf("no loopback listener: %v", err)
	}
	a := l.Addr().String()
	l.Close()
	return a
}

func TestC36(t *testing.T) {
	run := ev.Start("C36")
	utils.SetGlobalLoggingLevel("fatal")
	debug.SetGCPercent(400) // multi-MB replies are copied several times per step; memory is not what is being measured
	target := run.Pick(4000, 60000)
	ctx, cancel := context.WithCancel(context.Background())
	defer cancel()

	cs := &cache.CacheServer{CacheMaxCost: 8 * 1024 * 1024 * 1024}
	cs.InitCache(ctx, cache.DefaultExpirationTimeFinalized, cache.DefaultExpirationForNonFinalized, cache.DefaultExpirationNodeErrors,
		cache.DefaultExpirationBlocksHashesToHeights, cache.DisabledFlagOption, cache.DefaultExpirationTimeFinalizedMultiplier, cache.DefaultExpirationTimeNonFinalizedMultiplier)
	srv := &cache.RelayerCacheServer{CacheServer: cs}

	// the same CacheServer behind the real gRPC front (cs.Serve) on a loopback port, reached by the real client
	addr := freeAddr(t)
	go cs.Serve(ctx, addr)
	var client *performance.Cache
	var err error
	for i := 0; i < 100; i++ { // watchdog only
		client, err = performance.InitCache(ctx, addr)
		if err == nil && client.CacheActive() {
			break
		}
		time.Sleep(100 * time.Millisecond)
	}
	if err != nil || client == nil || !client.CacheActive() {
		t.Fatalf("cannot reach the cache server on %s: %v", addr, err)
	}

	h := &harness{t: t, run: run, ctx: ctx, srv: srv, client: client, shadow: map[shadowKey][]*stored{}, bySum: map[[32]byte][]*stored{},
		latest: map[string]map[int64]bool{}, latestMx: map[string]int64{}, cnt: map[string]int{}, hashSeen: map[string]string{}}
	h.directedNonObject(vrand.New(run.Seed, "c36-directed"))
	for n := 0; h.steps < target && run.Violations() < 8; n++ {
		h.scenario(n, vrand.Sub(run.Seed, "c36-scenario", n))
		h.cnt["scenarios"] = n + 1
	}
	keys := make([]string, 0, len(h.cnt))
	for k := range h.cnt {
		keys = append(keys, k)
	}
	sort.Strings(keys)
	for _, k := range keys {
		run.Count(k, h.cnt[k])
	}
	run.Set("compression_threshold", common.CompressionThreshold)
	run.Require("hits observed", h.cnt["hits-correct"] > 100)
	run.Require("gRPC pass: hits through the loopback listener", h.cnt["hits-via-grpc"] > 0)
	run.Require("compressed payload (> threshold, compressible) hit, direct handler", h.cnt["hits-compressed-payload-via-direct"] > 0)
	run.Require("compressed payload (> threshold, compressible) hit, through gRPC", h.cnt["hits-compressed-payload-via-grpc"] > 0)
	run.Require("earlier big replies read back intact after later big stores", h.cnt["revisits-of-an-earlier-big-reply-hit-intact"] > 0)
	for _, c := range []string{"0", "1", "T-1", "T", "T+1", "multi-MB"} {
		run.Require("payload size class hit: "+c, h.cnt["hit-payload-class-"+c] > 0)
	}
	run.Require("non-finalized entry with block hash hit with the same hash", h.cnt["non-finalized-with-hash-hit-same-hash"] > 0)
	for _, p := range []string{"other-hash", "no-hash", "empty-hash", "prefix-hash", "other-hash-finalized-lookup"} {
		run.Require("block-hash probe while the entry was present: "+p, h.cnt["hash-probe:"+p] > 0)
	}
	for _, f := range mutFields {
		run.Require("one-field-different pair probed while the entry was present: "+f, h.cnt["one-field-pair:"+f] > 0)
	}
	run.Require("one-field-different pair probed while the entry was present: data (non-object payload on a JSON-RPC interface)", h.cnt["one-field-pair:data(non-object-jsonrpc-payload)"] > 0)
	run.Require("ids of different JSON types hit the same entry", h.cnt["hit-across-id-json-types"] > 0)
	run.Require("negative requested block resolved through the latest-block store and hit", h.cnt["negative-block-hit-through-latest-store"] > 0)
	run.Require("neighbour entries (one field apart) each served their own reply", h.cnt["neighbour-pairs-both-hit-own-reply"] > 0)

	run.Finish("scenarios on a real RelayerCacheServer (direct handlers and the gRPC front on loopback): store a generated request with a unique reply (sizes 0, 1, small, threshold-1/0/+1, several MB; JSON / random / zeros / gzip-looking), then read it back through equivalent requests (other JSON-RPC id types, salt, seen block, request/task/tx ids), through requests differing in exactly one of chain / data / method / block / api interface / add-on / extensions / metadata / connection type / api url, with other / no block hashes, and with negative requested blocks; every hit is compared with a shadow map keyed by the statement's semantic key; every HashCacheRequest call is checked to leave the request deep-equal and byte-equal. Non-trivial = a probe evaluated while the entry it must not (or must) return was demonstrably present (an equivalent request had just hit it); distinct = distinct (probe kind, field, api interface, data kind, payload class, finality class)",
		run.Pick(60, 200),
		"a miss is always allowed; when one key was stored several times any of the stored replies may be served (two internal stores, dropped writes)",
		"a negative requested block may be resolved to any block that some SetRelay of that chain made the latest known block",
		"Sig of the stored reply is cleared by the cache by design and is not compared")
}
