//go:build verif

// C31 — JSON-RPC batches are summarised order-independently.
//
// Monitor: the real JsonRPCChainParser over the checked-in ETH1 spec (policy allowing `archive`, as
// consumer and provider set it in production) parses generated batches, every member on its own, and
// permutations of the batch (all n! for n <= 5, 50 PRNG permutations above). The oracle is the statement:
//
//	(1) CU(batch) = sum CU(member alone)               [compared at equal extension state]
//	(2) (latest, earliest) of RequestedBlock() identical for every permutation
//	(3) every member's numeric block lies inside [earliest, latest]
//	(4) some member alone gets `archive`  =>  the batch gets `archive`
//
// Tag resolution used for (3) - only unambiguous cases are judged, everything else is counted as skipped:
// a numeric bound is compared numerically; summarised earliest = EARLIEST covers everything below;
// summarised earliest = LATEST/PENDING means "the head" and misses a numeric member b < known latest block;
// summarised latest = EARLIEST (genesis) misses any numeric member b > 0; SAFE / FINALIZED / NOT_APPLICABLE
// bounds are not judged.
package c31

import (
	"fmt"
	"sort"
	"strings"
	"testing"

	"github.com/lavanet/lava/v5/protocol/chainlib"
	"github.com/lavanet/lava/v5/protocol/chainlib/extensionslib"
	spectypes "github.com/lavanet/lava/v5/x/spec/types"

	"verif/internal/ev"
	"verif/internal/vrand"
	"verif/proto/parsekit"
)

const (
	NA  = spectypes.NOT_APPLICABLE
	LAT = spectypes.LATEST_BLOCK
	EAR = spectypes.EARLIEST_BLOCK
	PEN = spectypes.PENDING_BLOCK
	SAF = spectypes.SAFE_BLOCK
	FIN = spectypes.FINALIZED_BLOCK
)

type member struct {
	Method string `json:"method"`
	Kind   string `json:"kind"`  // block class label (generator's intent)
	Block  int64  `json:"block"` // the block the request asks for (>=0 numeric, <0 tag constant)
	Body   string `json:"body"`  // JSON object without the id
}

type res struct {
	OK      bool   `json:"ok"`
	Err     string `json:"err,omitempty"`
	Lat     int64  `json:"latest"`
	Ear     int64  `json:"earliest"`
	CU      uint64 `json:"cu"`
	Archive bool   `json:"archive"`
	Api     string `json:"api,omitempty"`
}

const addr = `"0x00000000219ab540356cbb839cbe05303d7705fa"`

func blockParam(b int64) string {
	switch b {
	case LAT:
		return `"latest"`
	case EAR:
		return `"earliest"`
	case PEN:
		return `"pending"`
	case SAF:
		return `"safe"`
	case FIN:
		return `"finalized"`
	}
	return fmt.Sprintf(`"0x%x"`, b)
}

// methods with a block parameter (ETH1, base collection, so a batch never mixes add-ons)
var blockMethods = []string{"eth_getBalance", "eth_call", "eth_getBlockByNumber", "eth_getCode", "eth_getStorageAt", "eth_getTransactionCount", "eth_getLogs"}

func mkMember(method, kind string, b int64) member {
	p := blockParam(b)
	var params string
	switch method {
	case "eth_getBalance", "eth_getCode", "eth_getTransactionCount":
		params = `[` + addr + `,` + p + `]`
	case "eth_call":
		params = `[{"to":` + addr + `,"data":"0x70a08231"},` + p + `]`
	case "eth_getBlockByNumber":
		params = `[` + p + `,false]`
	case "eth_getStorageAt":
		params = `[` + addr + `,"0x0",` + p + `]`
	case "eth_getLogs":
		params = `[{"fromBlock":` + p + `,"toBlock":` + p + `,"address":` + addr + `}]`
	default: // no block parameter
		params = `[]`
	}
	return member{Method: method, Kind: kind, Block: b, Body: `"jsonrpc":"2.0","method":"` + method + `","params":` + params}
}

func single(m member, id int) string { return fmt.Sprintf(`{"id":%d,%s}`, id, m.Body) }

func batchJSON(ms []member, ord []int) string {
	var sb strings.Builder
	sb.WriteByte('[')
	for i, k := range ord {
		if i > 0 {
			sb.WriteByte(',')
		}
		sb.WriteString(single(ms[k], i+1))
	}
	sb.WriteByte(']')
	return sb.String()
}

type harness struct {
	cp     chainlib.ChainParser
	run    *ev.Run
	mult   uint64
	panics int
}

func (h *harness) parse(data string, ei extensionslib.ExtensionInfo) (r res) {
	defer func() {
		if p := recover(); p != nil {
			h.panics++
			r = res{Err: fmt.Sprint("panic: ", p)}
			h.run.Violation("panic-in-parse", "jsonrpc", fmt.Sprint(p), map[string]any{"data": data, "latest_block": ei.LatestBlock})
		}
	}()
	m, err := h.cp.ParseMsg("", []byte(data), "POST", nil, ei)
	if err != nil {
		return res{Err: err.Error()}
	}
	l, e := m.RequestedBlock()
	return res{OK: true, Lat: l, Ear: e, CU: m.GetApi().ComputeUnits, Archive: parsekit.HasExtension(m.GetExtensions(), extensionslib.ArchiveExtension), Api: m.GetApi().Name}
}

// base CU = CU at the "no extension" state: the archive extension multiplies CU by its multiplier
func (h *harness) base(r res) (uint64, bool) {
	if !r.Archive {
		return r.CU, true
	}
	return r.CU / h.mult, r.CU%h.mult == 0
}

// ---------------------------------------------------------------- coverage predicates (statement part 3)

// missedBelow: the summarised earliest bound does not reach down to numeric block b (judged cases only)
func missedBelow(ear, b int64, L uint64) (missed, judged bool) {
	switch {
	case ear >= 0:
		return ear > b, true
	case ear == EAR:
		return false, true
	case ear == LAT || ear == PEN:
		if L == 0 {
			return false, false
		}
		return uint64(b) < L, true
	}
	return false, false // SAFE / FINALIZED / NOT_APPLICABLE: not fixed by the statement
}

// missedAbove: the summarised latest bound does not reach up to numeric block b (judged cases only)
func missedAbove(lat, b int64) (missed, judged bool) {
	switch {
	case lat >= 0:
		return lat < b, true
	case lat == EAR:
		return b > 0, true
	case lat == LAT || lat == PEN:
		return false, true
	}
	return false, false
}

// covered-for-archive: is member block b inside what the summarised earliest claims (used only to name the class
// of an archive-lost violation)
func coveredBelowForArchive(ear, b int64) bool {
	if b == EAR {
		return ear == EAR
	}
	return ear == EAR || (ear >= 0 && ear <= b)
}

// ---------------------------------------------------------------- shape classes (signatures)

func feats(ms []member, ord []int) (zeroLater, zero, nonEarTag, earTag, lowTag, positive bool) {
	for i, k := range ord {
		b := ms[k].Block
		switch {
		case b == 0:
			zero = true
			if i > 0 {
				zeroLater = true
			}
		case b > 0:
			positive = true
		case b == EAR:
			earTag = true
		default:
			nonEarTag = true
			if b == PEN || b == SAF || b == FIN {
				lowTag = true
			}
		}
	}
	return
}

func kinds(ms []member, ord []int) string {
	out := make([]string, len(ord))
	for i, k := range ord {
		b := ms[k].Block
		switch {
		case b == 0:
			out[i] = "0"
		case b > 0:
			out[i] = "n"
		default:
			out[i] = map[int64]string{NA: "na", LAT: "latest", EAR: "earliest", PEN: "pending", SAF: "safe", FIN: "finalized"}[b]
		}
	}
	return strings.Join(out, ",")
}

func classEarliestMiss(ms []member, ord []int, pos int) string {
	if pos == 0 {
		return "first-member-not-folded-into-earliest"
	}
	allNumericBefore := true
	for j := 1; j < pos; j++ {
		if ms[ord[j]].Block < 0 {
			allNumericBefore = false
		}
	}
	if allNumericBefore {
		return "later-numeric-member-dropped-while-earliest-unset(min-with-0)"
	}
	if zl, _, _, _, _, _ := feats(ms, ord); zl {
		return "block-zero-member-reads-as-unset"
	}
	return "other:" + kinds(ms, ord)
}

func classLatestMiss(ms []member, ord []int, lat int64) string {
	_, zero, nonEar, earTag, lowTag, _ := feats(ms, ord)
	if lat == EAR && earTag && lowTag {
		return "summarised-latest-is-earliest-tag(earliest-tag-beats-lower-tag-that-beat-numeric)"
	}
	if lat >= 0 && zero && nonEar {
		return "block-zero-member-erases-tag-and-earlier-numeric"
	}
	if lat >= 0 {
		return "numeric-summarised-latest-below-numeric-member"
	}
	return "other:" + kinds(ms, ord)
}

func classOrderLatest(ms []member, ord []int) string {
	_, zero, nonEar, earTag, lowTag, positive := feats(ms, ord)
	if zero && nonEar && positive {
		return "latest|block-zero-member+tag+numeric"
	}
	if earTag && lowTag && positive {
		return "latest|earliest-tag+lower-tag+numeric"
	}
	return "latest|other:" + kinds(ms, ord)
}

func without(ord []int, k int) []int {
	out := make([]int, 0, len(ord)-1)
	for _, x := range ord {
		if x != k {
			out = append(out, x)
		}
	}
	return out
}

func indexOf(ord []int, k int) int {
	for i, x := range ord {
		if x == k {
			return i
		}
	}
	return -1
}

// greedy shrink: drop members (never `keep`) while still(ord) holds
func shrink(ord []int, keep int, still func([]int) bool) []int {
	for changed := true; changed; {
		changed = false
		for j := len(ord) - 1; j >= 0; j-- {
			if ord[j] == keep || len(ord) <= 1 {
				continue
			}
			cand := without(ord, ord[j])
			if still(cand) {
				ord = cand
				changed = true
			}
		}
	}
	return ord
}

func perms(n int) [][]int {
	var out [][]int
	a := make([]int, n)
	for i := range a {
		a[i] = i
	}
	var rec func(k int)
	rec = func(k int) {
		if k == n {
			out = append(out, append([]int(nil), a...))
			return
		}
		for i := k; i < n; i++ {
			a[k], a[i] = a[i], a[k]
			rec(k + 1)
			a[k], a[i] = a[i], a[k]
		}
	}
	rec(0)
	return out
}

func TestC31(t *testing.T) {
	run := ev.Start("C31")
	parsekit.Quiet()
	cp, spec, err := parsekit.NewParser("ETH1", "jsonrpc")
	if err != nil {
		t.Fatalf("cannot build ETH1 jsonrpc parser: %v", err)
	}
	h := &harness{cp: cp, run: run}
	var rule uint64
	for _, c := range spec.ApiCollections {
		if c.CollectionData.ApiInterface == "jsonrpc" && c.CollectionData.AddOn == "" {
			for _, e := range c.Extensions {
				if e.Name == extensionslib.ArchiveExtension && e.Rule != nil {
					rule, h.mult = e.Rule.Block, uint64(e.CuMultiplier)
				}
			}
		}
	}
	if rule == 0 || h.mult < 1 {
		t.Fatalf("ETH1 base collection has no archive extension with a positive rule (rule=%d mult=%d)", rule, h.mult)
	}
	run.Set("spec", "ETH1/jsonrpc")
	run.Set("archive_rule_block", rule)
	run.Set("archive_cu_multiplier", h.mult)

	nb := run.Pick(4000, 80000)
	latests := []uint64{0, 50, 100, 126, 127, 128, 200, 1000, 1_000_000, 20_000_000}
	sizesSeen := map[int]int{}
	kindsSeen := map[string]int{}
	allPermBatches, sampledPermBatches, orderings := 0, 0, 0
	harnessOK, allParsed := true, true
	archiveMemberBatches, archiveKeptBatches, ethCallMembers := 0, 0, 0
	covJudged, covSkipped := 0, 0
	heldCU, heldOrder, heldCover, heldArchive := 0, 0, 0, 0

	for s := 0; s < nb; s++ {
		rng := vrand.Sub(run.Seed, "c31", s)
		n := 1 + s%8
		L := latests[rng.Intn(len(latests))]
		li := int64(L)
		pickBlock := func() (string, int64) {
			num := func(kind string, v int64) (string, int64) {
				if v < 0 {
					return "small", int64(2 + rng.Intn(299))
				}
				return kind, v
			}
			switch vrand.Weighted(rng, []int{6, 5, 10, 5, 5, 5, 4, 4, 6, 4, 4, 9, 7, 5, 4, 4}) {
			case 0:
				return "0", 0
			case 1:
				return "1", 1
			case 2:
				return "small", int64(2 + rng.Intn(299))
			case 3:
				return num("latest-rule-1", li-int64(rule)-1)
			case 4:
				return num("latest-rule", li-int64(rule))
			case 5:
				return num("latest-rule+1", li-int64(rule)+1)
			case 6:
				return num("latest-126-1", li-127+int64(rng.Intn(3))-1)
			case 7:
				return num("latest-1", li-1)
			case 8:
				return num("latest-value", li)
			case 9:
				return "above-latest", li + 1
			case 10:
				return "far-above-latest", li + 1000 + int64(rng.Intn(1000))
			case 11:
				return "tag-latest", LAT
			case 12:
				return "tag-earliest", EAR
			case 13:
				return "tag-pending", PEN
			case 14:
				return "tag-safe", SAF
			default:
				return "tag-finalized", FIN
			}
		}
		ms := make([]member, n)
		for i := range ms {
			switch w := rng.Intn(100); {
			case w < 8:
				ms[i] = mkMember("eth_syncing", "no-block(n/a)", NA)
			case w < 12:
				ms[i] = mkMember("net_version", "no-block(n/a)", NA)
			case w < 20:
				ms[i] = mkMember(vrand.Pick(rng, []string{"eth_blockNumber", "eth_chainId", "eth_gasPrice"}), "no-block(default-latest)", LAT)
			default:
				k, b := pickBlock()
				ms[i] = mkMember(vrand.Pick(rng, blockMethods), k, b)
			}
			kindsSeen[ms[i].Kind]++
			if ms[i].Method == "eth_call" {
				ethCallMembers++
			}
		}
		sizesSeen[n]++
		ei := extensionslib.ExtensionInfo{LatestBlock: L}

		// members alone
		alone := make([]res, n)
		anyArchive := false
		var sumBase uint64
		for i, m := range ms {
			alone[i] = h.parse(single(m, 1), ei)
			if !alone[i].OK || alone[i].Lat != m.Block || alone[i].Ear != m.Block {
				harnessOK = false
				run.Sample(map[string]any{"harness-mismatch": m, "parsed": alone[i]})
				continue
			}
			b, exact := h.base(alone[i])
			if !exact {
				run.Violation("cu-not-sum-of-members", "member-archive-cu-not-multiple-of-multiplier", fmt.Sprintf("%+v", alone[i]), map[string]any{"member": m, "latest_block": L})
			}
			sumBase += b
			anyArchive = anyArchive || alone[i].Archive
		}
		if anyArchive {
			archiveMemberBatches++
		}

		// orderings
		var ords [][]int
		if n <= 5 {
			ords = perms(n)
			allPermBatches++
		} else {
			id := make([]int, n)
			for i := range id {
				id[i] = i
			}
			ords = append(ords, id)
			for p := 0; p < 50; p++ {
				ords = append(ords, rng.Perm(n))
			}
			sampledPermBatches++
		}

		eval := func(ord []int) res { return h.parse(batchJSON(ms, ord), ei) }
		witness := func(ord []int, r res, extra map[string]any) map[string]any {
			w := map[string]any{"seed": run.Seed, "batch_index": s, "latest_block": L, "request": batchJSON(ms, ord), "observed": r}
			var al []any
			for _, k := range ord {
				al = append(al, map[string]any{"request": single(ms[k], 1), "alone": alone[k]})
			}
			w["members_alone_in_this_order"] = al
			for k, v := range extra {
				w[k] = v
			}
			return w
		}

		type pend struct {
			ord  []int
			ord2 []int
			mem  int
		}
		pending := map[string]pend{}
		var first res
		batchClean := true
		for oi, ord := range ords {
			r := eval(ord)
			orderings++
			run.Eval(1)
			if !r.OK {
				allParsed = false
				run.Sample(map[string]any{"batch-did-not-parse": batchJSON(ms, ord), "err": r.Err})
				continue
			}
			if oi == 0 {
				first = r
			}
			// (1) CU, normalised to the no-extension state
			if b, exact := h.base(r); !exact || b != sumBase {
				pending["cu"] = pend{ord: ord}
			} else {
				heldCU++
			}
			// (2) order independence
			if first.OK {
				if r.Lat != first.Lat {
					if _, ok := pending["ord-latest"]; !ok {
						pending["ord-latest"] = pend{ord: ords[0], ord2: ord}
					}
				}
				if r.Ear != first.Ear {
					if _, ok := pending["ord-earliest"]; !ok {
						pending["ord-earliest"] = pend{ord: ords[0], ord2: ord}
					}
				}
			}
			// (3) coverage, (4) archive
			for pos, k := range ord {
				b := ms[k].Block
				if b >= 0 {
					if miss, judged := missedBelow(r.Ear, b, L); judged {
						covJudged++
						if miss {
							key := fmt.Sprintf("emiss|%d|%s", k, classEarliestMiss(ms, ord, pos))
							if _, ok := pending[key]; !ok {
								pending[key] = pend{ord: ord, mem: k}
							}
						} else {
							heldCover++
						}
					} else {
						covSkipped++
					}
					if miss, judged := missedAbove(r.Lat, b); judged {
						covJudged++
						if miss {
							key := fmt.Sprintf("lmiss|%d|%s", k, classLatestMiss(ms, ord, r.Lat))
							if _, ok := pending[key]; !ok {
								pending[key] = pend{ord: ord, mem: k}
							}
						} else {
							heldCover++
						}
					} else {
						covSkipped++
					}
				}
				if alone[k].Archive && !r.Archive {
					key := fmt.Sprintf("alost|%d|%v", k, coveredBelowForArchive(r.Ear, b))
					if _, ok := pending[key]; !ok {
						pending[key] = pend{ord: ord, mem: k}
					}
				}
			}
			if anyArchive && r.Archive {
				heldArchive++
			}
		}
		if anyArchive && first.OK && first.Archive {
			archiveKeptBatches++
		}
		if _, a := pending["ord-latest"]; !a {
			if _, b := pending["ord-earliest"]; !b && len(ords) > 1 {
				heldOrder++
			}
		}

		// forced-archive state: CU(batch) = sum CU(member), everything parsed with the archive extension chosen explicitly
		{
			fe := extensionslib.ExtensionInfo{LatestBlock: L, ExtensionOverride: []string{extensionslib.ArchiveExtension}}
			rb := h.parse(batchJSON(ms, ords[0]), fe)
			var sum uint64
			okAll := rb.OK && rb.Archive
			for _, m := range ms {
				rm := h.parse(single(m, 1), fe)
				okAll = okAll && rm.OK && rm.Archive
				sum += rm.CU
			}
			run.Eval(1)
			if !okAll {
				harnessOK = false
				run.Sample(map[string]any{"forced-archive-parse-failed": batchJSON(ms, ords[0]), "batch": rb})
			} else if rb.CU != sum {
				batchClean = false
				run.Violation("cu-not-sum-of-members", "forced-archive-state", fmt.Sprintf("batch CU %d, sum of members %d", rb.CU, sum), witness(ords[0], rb, map[string]any{"extension_override": []string{"archive"}, "sum_members": sum}))
			} else {
				heldCU++
			}
		}

		// shrink + classify what fired in this batch
		keys := make([]string, 0, len(pending))
		for k := range pending {
			keys = append(keys, k)
		}
		sort.Strings(keys)
		for _, key := range keys {
			batchClean = false
			p := pending[key]
			switch {
			case key == "cu":
				r := eval(p.ord)
				b, _ := h.base(r)
				run.Violation("cu-not-sum-of-members", "normalised-to-no-extension-state", fmt.Sprintf("batch CU %d (base %d), sum of member base CU %d", r.CU, b, sumBase), witness(p.ord, r, map[string]any{"sum_member_base_cu": sumBase}))
			case strings.HasPrefix(key, "ord-"):
				comp := strings.TrimPrefix(key, "ord-")
				differs := func(a, b []int) bool {
					ra, rb := eval(a), eval(b)
					if !ra.OK || !rb.OK {
						return false
					}
					if comp == "latest" {
						return ra.Lat != rb.Lat
					}
					return ra.Ear != rb.Ear
				}
				a, b := p.ord, p.ord2
				for changed := true; changed; {
					changed = false
					for _, k := range append([]int(nil), a...) {
						if len(a) <= 2 {
							break
						}
						if differs(without(a, k), without(b, k)) {
							a, b = without(a, k), without(b, k)
							changed = true
						}
					}
				}
				ra, rb := eval(a), eval(b)
				sig := "earliest"
				if comp == "latest" {
					sig = classOrderLatest(ms, a)
				}
				run.Violation("order-dependent-summary", sig,
					fmt.Sprintf("same members, two orders: %s -> (latest %d, earliest %d) but %s -> (latest %d, earliest %d) [latest block %d]", batchJSON(ms, a), ra.Lat, ra.Ear, batchJSON(ms, b), rb.Lat, rb.Ear, L),
					witness(a, ra, map[string]any{"other_order": batchJSON(ms, b), "other_observed": rb, "original_batch": batchJSON(ms, p.ord)}))
			case strings.HasPrefix(key, "emiss|"):
				still := func(o []int) bool {
					r := eval(o)
					m, j := missedBelow(r.Ear, ms[p.mem].Block, L)
					return r.OK && j && m
				}
				o := shrink(p.ord, p.mem, still)
				r := eval(o)
				sig := classEarliestMiss(ms, o, indexOf(o, p.mem))
				run.Violation("earliest-misses-member", sig,
					fmt.Sprintf("%s -> (latest %d, earliest %d) but member %d asks for numeric block %d [latest block %d]", batchJSON(ms, o), r.Lat, r.Ear, indexOf(o, p.mem), ms[p.mem].Block, L),
					witness(o, r, map[string]any{"missed_member_position": indexOf(o, p.mem), "original_batch": batchJSON(ms, p.ord)}))
			case strings.HasPrefix(key, "lmiss|"):
				still := func(o []int) bool {
					r := eval(o)
					m, j := missedAbove(r.Lat, ms[p.mem].Block)
					return r.OK && j && m
				}
				o := shrink(p.ord, p.mem, still)
				r := eval(o)
				sig := classLatestMiss(ms, o, r.Lat)
				run.Violation("latest-misses-member", sig,
					fmt.Sprintf("%s -> (latest %d, earliest %d) but member %d asks for numeric block %d [latest block %d]", batchJSON(ms, o), r.Lat, r.Ear, indexOf(o, p.mem), ms[p.mem].Block, L),
					witness(o, r, map[string]any{"missed_member_position": indexOf(o, p.mem), "original_batch": batchJSON(ms, p.ord)}))
			case strings.HasPrefix(key, "alost|"):
				still := func(o []int) bool { r := eval(o); return r.OK && !r.Archive }
				o := shrink(p.ord, p.mem, still)
				r := eval(o)
				sig := "archive-member-not-covered-by-summarised-earliest"
				if coveredBelowForArchive(r.Ear, ms[p.mem].Block) {
					sig = "archive-member-covered-but-batch-not-archived"
				}
				run.Violation("archive-lost-in-batch", sig,
					fmt.Sprintf("%s -> extensions without archive (latest %d, earliest %d) although member %d alone (%s) gets archive [latest block %d]", batchJSON(ms, o), r.Lat, r.Ear, indexOf(o, p.mem), single(ms[p.mem], 1), L),
					witness(o, r, map[string]any{"archive_member_position": indexOf(o, p.mem), "original_batch": batchJSON(ms, p.ord)}))
			}
		}

		// non-trivial: at least two members asking for different blocks (so that the summary is not just the only value)
		distinctBlocks := map[int64]struct{}{}
		for _, m := range ms {
			distinctBlocks[m.Block] = struct{}{}
		}
		if n >= 2 && len(distinctBlocks) >= 2 && first.OK {
			shape := make([]string, n)
			for i, m := range ms {
				shape[i] = m.Method + ":" + m.Kind
			}
			sort.Strings(shape)
			run.Nontrivial(fmt.Sprintf("L%d|%s", L, strings.Join(shape, ",")))
		}
		if s < 3 || (batchClean && n >= 3 && len(distinctBlocks) >= 2 && s%7 == 0) {
			run.Sample(map[string]any{"batch": batchJSON(ms, ords[0]), "latest_block": L, "summary": first, "orderings": len(ords), "clean": batchClean})
		}
	}

	run.Count("batches", nb)
	run.Count("orderings-parsed", orderings)
	run.Count("batches-all-permutations", allPermBatches)
	run.Count("batches-50-sampled-permutations", sampledPermBatches)
	run.Count("batches-with-archive-member", archiveMemberBatches)
	run.Count("batches-with-archive-member-and-archive-kept", archiveKeptBatches)
	run.Count("eth_call-members", ethCallMembers)
	run.Count("coverage-bounds-judged", covJudged)
	run.Count("coverage-bounds-skipped(safe/finalized/n-a/unknown-latest)", covSkipped)
	run.Count("held:cu-equal-sum", heldCU)
	run.Count("held:order-independent-batches", heldOrder)
	run.Count("held:member-inside-range", heldCover)
	run.Count("held:archive-kept-orderings", heldArchive)
	run.Count("panics", h.panics)
	for k, v := range kindsSeen {
		run.Count("member-kind:"+k, v)
	}
	run.Require("every generated member parsed alone to the intended block (harness sanity)", harnessOK)
	run.Require("every generated batch parsed", allParsed)
	for n := 1; n <= 8; n++ {
		run.Require(fmt.Sprintf("batch size %d exercised", n), sizesSeen[n] > 0)
	}
	for _, k := range []string{"0", "1", "small", "latest-rule-1", "latest-rule", "latest-rule+1", "latest-value", "above-latest", "tag-latest", "tag-earliest", "tag-pending", "tag-safe", "tag-finalized", "no-block(n/a)", "no-block(default-latest)"} {
		run.Require("member kind exercised: "+k, kindsSeen[k] > 0)
	}
	run.Require("batches with a member that alone needs archive", archiveMemberBatches > 0)
	run.Require("batches that kept archive", archiveKeptBatches > 0)
	run.Require("eth_call members present", ethCallMembers > 0)
	run.Require("exhaustive-permutation and sampled-permutation batches both present", allPermBatches > 0 && sampledPermBatches > 0)
	run.Require("order-independent batches observed", heldOrder > 0)
	run.Finish("PRNG batches (sizes 1-8) of ETH1 JSON-RPC methods with a block parameter (numeric 0/1/small/around latest-rule/around latest-126/latest/above latest, tags latest/earliest/pending/safe/finalized) and methods without one, parsed by the real JsonRPCChainParser at latest-block values 0..2e7: every member alone, every permutation (n<=5) or 50 PRNG permutations; CU compared after dividing out the archive multiplier and again with archive forced on everything; a batch is non-trivial when it has >=2 members asking for >=2 different blocks; distinct = distinct (latest block, multiset of method:block-class)",
		nb/8,
		"policy allows every add-on/extension of ETH1 jsonrpc (SetPolicy, as consumer/provider do)",
		"range coverage is judged only where the statement fixes the order: numeric bounds, EARLIEST as lower bound, LATEST/PENDING lower bound vs known latest block, EARLIEST as upper bound; SAFE/FINALIZED/NOT_APPLICABLE bounds are skipped (counted)",
		"CU equality is judged at equal extension state (archive multiplier divided out; and with archive forced on batch and members)")
}
