//go:build verif

// Package parsekit builds real chainlib.ChainParser objects from the checked-in specs for the
// request-parsing checks (C31, C32, C38). Nothing is mocked: the spec is loaded and expanded by the
// repo's own spec keeper (utils/keeper.GetASpec), the parser is chainlib.NewChainParser + SetSpec, and
// the policy is installed through the production entry point SetPolicy, as rpcconsumer / rpcprovider do.
package parsekit

import (
	"sort"
	"sync"

	"github.com/lavanet/lava/v5/protocol/chainlib"
	"github.com/lavanet/lava/v5/utils"
	specutils "github.com/lavanet/lava/v5/utils/keeper"
	epochstoragetypes "github.com/lavanet/lava/v5/x/epochstorage/types"
	spectypes "github.com/lavanet/lava/v5/x/spec/types"

	"verif/internal/ev"
)

// AllowAll is a chainlib.PolicyInf that allows every add-on and every extension of a spec on one
// API interface (what a provider serving everything, or a consumer with an unrestricted plan, has).
type AllowAll struct {
	Addons     []string
	Extensions []epochstoragetypes.EndpointService
}

func (p *AllowAll) GetSupportedAddons(string) ([]string, error) { return p.Addons, nil }
func (p *AllowAll) GetSupportedExtensions(string) ([]epochstoragetypes.EndpointService, error) {
	return p.Extensions, nil
}

var (
	specMu    sync.Mutex
	specCache = map[string]spectypes.Spec{}
)

// Quiet turns the repo's logger down to errors-are-dropped level: the parsers log every malformed
// request, which would dominate the run time of a fuzzing loop. Logging is not what is observed.
func Quiet() {
	if utils.IsDebugEnabled() || !quiet {
		quiet = true
		utils.SetGlobalLoggingLevel("fatal")
	}
}

var quiet bool

// Spec loads and expands a checked-in spec (cached per process).
func Spec(index string) (spectypes.Spec, error) {
	specMu.Lock()
	defer specMu.Unlock()
	if s, ok := specCache[index]; ok {
		return s, nil
	}
	s, err := specutils.GetASpec(index, ev.RepoDir()+"/", nil, nil)
	if err != nil {
		return s, err
	}
	specCache[index] = s
	return s, nil
}

// PolicyFor returns the allow-everything policy of (spec, apiInterface).
func PolicyFor(spec spectypes.Spec, apiInterface string) *AllowAll {
	addons := map[string]struct{}{"": {}}
	exts := map[epochstoragetypes.EndpointService]struct{}{}
	for _, c := range spec.ApiCollections {
		if c.CollectionData.ApiInterface != apiInterface {
			continue
		}
		addons[c.CollectionData.AddOn] = struct{}{}
		for _, e := range c.Extensions {
			exts[epochstoragetypes.EndpointService{ApiInterface: apiInterface, Addon: c.CollectionData.AddOn, Extension: e.Name}] = struct{}{}
		}
	}
	p := &AllowAll{}
	for a := range addons {
		p.Addons = append(p.Addons, a)
	}
	sort.Strings(p.Addons)
	for e := range exts {
		p.Extensions = append(p.Extensions, e)
	}
	sort.Slice(p.Extensions, func(i, j int) bool {
		return p.Extensions[i].Addon+"|"+p.Extensions[i].Extension < p.Extensions[j].Addon+"|"+p.Extensions[j].Extension
	})
	return p
}

// CloneSpec deep-copies a spec (protobuf round trip) so that a variant can be edited without touching the cache.
func CloneSpec(spec spectypes.Spec) (spectypes.Spec, error) {
	b, err := spec.Marshal()
	if err != nil {
		return spectypes.Spec{}, err
	}
	var out spectypes.Spec
	err = out.Unmarshal(b)
	return out, err
}

// NewParser builds a fresh real parser for (spec index, interface) with the allow-all policy set.
func NewParser(index, apiInterface string) (chainlib.ChainParser, spectypes.Spec, error) {
	spec, err := Spec(index)
	if err != nil {
		return nil, spec, err
	}
	return NewParserForSpec(spec, apiInterface)
}

// NewParserForSpec builds a real parser from an already loaded (possibly edited) spec.
func NewParserForSpec(spec spectypes.Spec, apiInterface string) (chainlib.ChainParser, spectypes.Spec, error) {
	index := spec.Index
	cp, err := chainlib.NewChainParser(apiInterface)
	if err != nil {
		return nil, spec, err
	}
	cp.SetSpec(spec)
	if err := cp.SetPolicy(PolicyFor(spec, apiInterface), index, apiInterface); err != nil {
		return nil, spec, err
	}
	return cp, spec, nil
}

// HasExtension reports whether the parsed message carries the named extension.
func HasExtension(exts []*spectypes.Extension, name string) bool {
	for _, e := range exts {
		if e != nil && e.Name == name {
			return true
		}
	}
	return false
}

// ExtensionNames returns the sorted names of the extensions on a message.
func ExtensionNames(exts []*spectypes.Extension) []string {
	out := []string{}
	for _, e := range exts {
		if e != nil {
			out = append(out, e.Name)
		}
	}
	sort.Strings(out)
	return out
}
