//go:build verif

// C41 — provider resource limiter admits, runs and answers each request exactly once.
//
// Parent (TestC41) re-executes this test binary as children (TestC41Child) that drive the REAL
// rpcprovider.ResourceLimiter with PRNG-shaped concurrent load and dump a totally ordered event log
// per round (call / start / end / ret / cancel, one monotonic counter). The parent decides on the
// logical events only; a child that dies (double unlock, panic on the queue worker, fatal error) is
// turned into a violation with the child's log.
package c41

import (
	"bufio"
	"context"
	"encoding/json"
	"errors"
	"fmt"
	"os"
	"os/exec"
	"path/filepath"
	"regexp"
	"runtime"
	"sort"
	"strconv"
	"strings"
	"sync"
	"sync/atomic"
	"testing"
	"time"

	"github.com/anishathalye/porcupine"
	"github.com/lavanet/lava/v5/protocol/rpcprovider"
	"github.com/lavanet/lava/v5/utils"

	"verif/internal/ev"
	"verif/internal/vrand"
)

const cuThreshold = 100

type reqSpec struct {
	ID      int    `json:"id"`
	G       int    `json:"g"`
	Bucket  string `json:"bucket"` // bucket the request belongs to (heavy|normal)
	CU      uint64 `json:"cu"`
	Method  string `json:"method"`
	DelayUs int    `json:"delay_us"` // pause before the call
	ExecUs  int    `json:"exec_us"`  // how long the execute closure runs
	RetErr  bool   `json:"ret_err"`  // closure returns its own unique error (else nil)
	Ctx     string `json:"ctx"`      // background | deadline | cancel | precancelled
	CtxUs   int    `json:"ctx_us"`   // deadline / cancel instant after the call
}

type roundCfg struct {
	Round          int   `json:"round"`
	HeavyLimit     int64 `json:"heavy_limit"`
	Queue          int   `json:"queue"`
	NormalLimit    int64 `json:"normal_limit"`
	Goroutines     int   `json:"goroutines"`
	QueueTimeoutUs int   `json:"queue_timeout_us"`
}

type event struct {
	N   int    `json:"n"`
	K   string `json:"k"` // call | start | end | ret | cancel | panic
	R   int    `json:"r"`
	Q   bool   `json:"q,omitempty"` // start: the closure runs on the queue worker (processQueue frame on its stack)
	D   bool   `json:"d,omitempty"` // start / end: the caller's ctx is already done
	Res string `json:"res,omitempty"`
	Err string `json:"err,omitempty"`
}

type roundLog struct {
	Cfg        roundCfg                      `json:"cfg"`
	Reqs       []reqSpec                     `json:"reqs"`
	Events     []event                       `json:"events"`
	Probe      rpcprovider.VerifLimiterState `json:"probe"`
	ProbePolls int                           `json:"probe_polls"`
	Settled    bool                          `json:"settled"`
	Hang       string                        `json:"hang,omitempty"`
	Done       bool                          `json:"done,omitempty"` // end-of-file marker line
}

// ---------------------------------------------------------------- workload generation (pure function of seed, round)

func genRound(seed int64, round int) (roundCfg, []reqSpec) {
	rng := vrand.Sub(seed, "c41-round", round)
	cfg := roundCfg{
		Round:          round,
		HeavyLimit:     int64(1 + rng.Intn(3)),
		Queue:          1 + rng.Intn(5),
		NormalLimit:    int64(2 + rng.Intn(7)),
		Goroutines:     32 + rng.Intn(97),
		QueueTimeoutUs: 5000 + rng.Intn(45001),
	}
	heavyMethods := []string{"eth_call", "debug_traceTransaction", "trace_block", "TRACE_filter", "eth_getLogs&eth_call"}
	var reqs []reqSpec
	// a "burst" profile makes queue-full / busy likely, a "spread" profile makes queue waits and timeouts likely
	spreadUs := []int{500, 3000, 12000, 40000}[rng.Intn(4)]
	pHeavy := []int{30, 55, 80}[rng.Intn(3)]
	for g := 0; g < cfg.Goroutines; g++ {
		n := 1 + rng.Intn(2)
		for k := 0; k < n; k++ {
			rq := reqSpec{ID: len(reqs), G: g}
			if rng.Intn(100) < pHeavy {
				rq.Bucket = "heavy"
				switch rng.Intn(4) {
				case 0: // heavy by method name / batch marker with low CU
					rq.CU = uint64(rng.Intn(cuThreshold))
					rq.Method = heavyMethods[1+rng.Intn(len(heavyMethods)-1)]
				default:
					rq.CU = uint64(cuThreshold + rng.Intn(500))
					rq.Method = heavyMethods[rng.Intn(len(heavyMethods))]
				}
			} else {
				rq.Bucket = "normal"
				rq.CU = uint64(rng.Intn(cuThreshold))
				rq.Method = vrand.Pick(rng, []string{"eth_blockNumber", "eth_getBalance", "status", "block"})
			}
			rq.DelayUs = rng.Intn(spreadUs)
			switch rng.Intn(5) {
			case 0:
				rq.ExecUs = 0
			case 1:
				rq.ExecUs = rng.Intn(300)
			default:
				rq.ExecUs = rng.Intn(5001)
			}
			rq.RetErr = rng.Intn(10) < 7
			// ctx: deadlines / cancels are placed around the instant a queued heavy request is expected to be
			// dequeued: (queue position 0..queue) * mean execution 2.5 ms / heavy limit  =>  roughly 0..12 ms
			switch w := rng.Intn(100); {
			case w < 30:
				rq.Ctx = "background"
			case w < 60:
				rq.Ctx = "deadline"
			case w < 92:
				rq.Ctx = "cancel"
			default:
				rq.Ctx = "precancelled"
			}
			if rq.Ctx == "deadline" || rq.Ctx == "cancel" {
				switch rng.Intn(4) {
				case 0:
					rq.CtxUs = 50 + rng.Intn(1000)
				case 1:
					rq.CtxUs = 500 + rng.Intn(6000)
				case 2:
					rq.CtxUs = 1000 + rng.Intn(15000)
				default:
					rq.CtxUs = 1000 + rng.Intn(cfg.QueueTimeoutUs+5000)
				}
			}
			reqs = append(reqs, rq)
		}
	}
	return cfg, reqs
}

// ---------------------------------------------------------------- child: run rounds against the real limiter

type execError struct{ id int }

func (e *execError) Error() string { return "exec-result-of-request-" + strconv.Itoa(e.id) }

type evlog struct {
	mu sync.Mutex
	ev []event
}

func (l *evlog) add(e event) {
	l.mu.Lock()
	e.N = len(l.ev)
	l.ev = append(l.ev, e)
	l.mu.Unlock()
}

func (l *evlog) snapshot() []event {
	l.mu.Lock()
	defer l.mu.Unlock()
	return append([]event(nil), l.ev...)
}

func onQueueWorker() bool {
	var pcs [24]uintptr
	n := runtime.Callers(2, pcs[:])
	frames := runtime.CallersFrames(pcs[:n])
	for {
		f, more := frames.Next()
		if strings.HasSuffix(f.Function, ".processQueue") {
			return true
		}
		if !more {
			return false
		}
	}
}

func classify(err error, own *execError) (string, string) {
	if err == nil {
		return "nil", ""
	}
	var ee *execError
	if errors.As(err, &ee) {
		if ee == own {
			return "own", ""
		}
		return "other", err.Error()
	}
	s := err.Error()
	switch {
	case strings.Contains(s, "provider busy"):
		return "busy", s
	case strings.Contains(s, "provider queue full"):
		return "queue-full", s
	case strings.Contains(s, "timeout in queue"):
		return "queue-timeout", s
	case errors.Is(err, context.Canceled):
		return "ctx-canceled", s
	case errors.Is(err, context.DeadlineExceeded):
		return "ctx-deadline", s
	}
	return "unknown", s
}

// unsettledRounds counts rounds of this child whose probe never became free: after two of them the
// remaining rounds poll for 0.5 s instead of 5 s (a leak was already witnessed twice).
var unsettledRounds int

func runRound(seed int64, round int) roundLog {
	cfg, reqs := genRound(seed, round)
	out := roundLog{Cfg: cfg, Reqs: reqs}
	name := fmt.Sprintf("c41-%d-%d-%d", os.Getpid(), seed, round)
	rl := rpcprovider.NewResourceLimiter(true, name, cuThreshold, cfg.HeavyLimit, cfg.Queue, cfg.NormalLimit)
	rl.VerifSetQueueTimeout(time.Duration(cfg.QueueTimeoutUs) * time.Microsecond)

	lg := &evlog{}
	var starts, ends atomic.Int64
	byG := map[int][]reqSpec{}
	for _, rq := range reqs {
		byG[rq.G] = append(byG[rq.G], rq)
	}
	var wg sync.WaitGroup
	startCh := make(chan struct{})
	for g := 0; g < cfg.Goroutines; g++ {
		wg.Add(1)
		go func(rs []reqSpec) {
			defer wg.Done()
			<-startCh
			for _, rq := range rs {
				rq := rq
				if rq.DelayUs > 0 {
					time.Sleep(time.Duration(rq.DelayUs) * time.Microsecond)
				}
				own := &execError{id: rq.ID}
				var ctx context.Context
				cancel := func() {}
				switch rq.Ctx {
				case "background":
					ctx = context.Background()
				case "deadline":
					ctx, cancel = context.WithTimeout(context.Background(), time.Duration(rq.CtxUs)*time.Microsecond)
				case "cancel":
					c, cf := context.WithCancel(context.Background())
					tm := time.AfterFunc(time.Duration(rq.CtxUs)*time.Microsecond, func() {
						lg.add(event{K: "cancel", R: rq.ID})
						cf()
					})
					ctx, cancel = c, func() { tm.Stop(); cf() }
				case "precancelled":
					c, cf := context.WithCancel(context.Background())
					lg.add(event{K: "cancel", R: rq.ID})
					cf()
					ctx = c
				}
				closure := func() error {
					starts.Add(1)
					lg.add(event{K: "start", R: rq.ID, Q: onQueueWorker(), D: ctx.Err() != nil})
					if rq.ExecUs > 0 {
						time.Sleep(time.Duration(rq.ExecUs) * time.Microsecond)
					} else {
						runtime.Gosched()
					}
					lg.add(event{K: "end", R: rq.ID, D: ctx.Err() != nil})
					ends.Add(1)
					if rq.RetErr {
						return own
					}
					return nil
				}
				lg.add(event{K: "call", R: rq.ID})
				var err error
				panicked := false
				func() {
					defer func() {
						if p := recover(); p != nil {
							panicked = true
							lg.add(event{K: "panic", R: rq.ID, Err: fmt.Sprint(p)})
						}
					}()
					err = rl.Acquire(ctx, rq.CU, rq.Method, closure)
				}()
				if !panicked {
					res, es := classify(err, own)
					lg.add(event{K: "ret", R: rq.ID, Res: res, Err: es})
				}
				cancel()
			}
		}(byG[g])
	}
	close(startCh)

	// quiescence: every caller returned, every started execution ended (wall clock here is a watchdog only)
	done := make(chan struct{})
	go func() { wg.Wait(); close(done) }()
	select {
	case <-done:
	case <-time.After(60 * time.Second):
		out.Hang = "callers still blocked in Acquire 60 s after the load was issued"
		out.Events = lg.snapshot()
		return out
	}
	for i := 0; starts.Load() != ends.Load(); i++ {
		if i > 600000 {
			out.Hang = "an execute closure did not end"
			out.Events = lg.snapshot()
			return out
		}
		time.Sleep(100 * time.Microsecond)
	}
	// H7 probe: all permits free, queue empty — polled, since the release after the last execution and the
	// draining of expired queue entries by the worker are not signalled to anybody.
	free := func(s rpcprovider.VerifLimiterState) bool {
		return s.HeavyAllFree && s.NormalAllFree && s.QueueLen == 0
	}
	var st rpcprovider.VerifLimiterState
	for out.ProbePolls = 1; ; out.ProbePolls++ {
		st = rl.VerifProbe()
		if free(st) {
			// must stay free: probe again after a pause (a late execution would take a permit)
			time.Sleep(2 * time.Millisecond)
			st = rl.VerifProbe()
			if free(st) && starts.Load() == ends.Load() {
				out.Settled = true
				break
			}
		}
		if out.ProbePolls >= 5000 || (unsettledRounds >= 2 && out.ProbePolls >= 500) {
			unsettledRounds++
			break
		}
		time.Sleep(time.Millisecond)
	}
	rl.VerifProbeFields(&st)
	out.Probe = st
	out.Events = lg.snapshot()
	return out
}

func TestC41Child(t *testing.T) {
	if os.Getenv("VERIF_C41_CHILD") == "" {
		t.Skip("child entry point of TestC41")
	}
	utils.SetGlobalLoggingLevel("fatal")
	seed, _ := strconv.ParseInt(os.Getenv("VERIF_SEED"), 10, 64)
	from, _ := strconv.Atoi(os.Getenv("VERIF_C41_FROM"))
	to, _ := strconv.Atoi(os.Getenv("VERIF_C41_TO"))
	f, err := os.Create(os.Getenv("VERIF_C41_OUT"))
	if err != nil {
		t.Fatal(err)
	}
	w := bufio.NewWriterSize(f, 1<<20)
	enc := json.NewEncoder(w)
	for r := from; r < to; r++ {
		fmt.Fprintf(os.Stderr, "C41-CHILD round %d begin\n", r)
		rl := runRound(seed, r)
		if err := enc.Encode(rl); err != nil {
			t.Fatal(err)
		}
		w.Flush()
	}
	_ = enc.Encode(roundLog{Done: true})
	w.Flush()
	f.Close()
	fmt.Fprintf(os.Stderr, "C41-CHILD done\n")
}

// ---------------------------------------------------------------- parent: oracles

type reqView struct {
	spec                  reqSpec
	call, start, end, ret int // event numbers, -1 = absent
	nStart                int
	queued, dStart, dEnd  bool
	res, errs             string
	cancelAt              int
	panicked              bool
	panicMsg              string
}

type agg struct {
	heavyDirect, heavyQueued, normalExec              int
	busy, queueFull, timeoutNotExec, ctxBeforeDequeue int
	ctxDoneDuringQueuedExec, precancelled, defectSeen int
	timeoutWhileExec, ctxErrWhileExec, cancelEvents   int
	reqs, maxHeavy, porcupineOK, porcupineChecked     int
	probePollsMax, resultDelivered, nilDelivered      int
	queuedResultDelivered                             int
}

func limiterClass(res string) bool {
	switch res {
	case "busy", "queue-full", "queue-timeout", "ctx-canceled", "ctx-deadline":
		return true
	}
	return false
}

func evalRound(run *ev.Run, rl *roundLog, a *agg) {
	cfg := rl.Cfg
	witness := func(ids ...int) map[string]any {
		w := map[string]any{"seed": run.Seed, "round": cfg.Round, "cfg": cfg, "probe": rl.Probe}
		var specs []reqSpec
		sel := map[int]bool{}
		for _, id := range ids {
			if id >= 0 && id < len(rl.Reqs) {
				specs = append(specs, rl.Reqs[id])
				sel[id] = true
			}
		}
		w["requests"] = specs
		var evs []event
		for _, e := range rl.Events {
			if sel[e.R] {
				evs = append(evs, e)
			}
		}
		w["events_of_requests"] = evs
		if len(rl.Events) <= 1600 {
			w["round_events"] = rl.Events
		}
		w["replay"] = fmt.Sprintf("VERIF_SEED=%d ./check C41 (round %d is a pure function of the seed; timing shapes which requests overlap)", run.Seed, cfg.Round)
		return w
	}
	if rl.Hang != "" {
		run.Inconclusive(fmt.Sprintf("round %d: watchdog: %s", cfg.Round, rl.Hang))
		return
	}
	views := make([]*reqView, len(rl.Reqs))
	for i := range views {
		views[i] = &reqView{spec: rl.Reqs[i], call: -1, start: -1, end: -1, ret: -1, cancelAt: -1}
	}
	for _, e := range rl.Events {
		if e.R < 0 || e.R >= len(views) {
			continue
		}
		v := views[e.R]
		switch e.K {
		case "call":
			v.call = e.N
		case "start":
			v.nStart++
			if v.start < 0 {
				v.start, v.queued, v.dStart = e.N, e.Q, e.D
			}
		case "end":
			if v.end < 0 {
				v.end, v.dEnd = e.N, e.D
			}
		case "ret":
			v.ret, v.res, v.errs = e.N, e.Res, e.Err
		case "cancel":
			v.cancelAt = e.N
			a.cancelEvents++
		case "panic":
			v.panicked, v.panicMsg = true, e.Err
		}
	}
	a.reqs += len(views)

	// (1) concurrent executions per bucket never exceed the limit. `start` is logged after the permit was
	// taken and `end` before it is given back, so the logged overlap never exceeds the real one.
	cur := map[string]int{}
	maxc := map[string]int{}
	limit := map[string]int{"heavy": int(cfg.HeavyLimit), "normal": int(cfg.NormalLimit)}
	reported := map[string]bool{}
	for _, e := range rl.Events {
		if e.R < 0 || e.R >= len(views) {
			continue
		}
		b := views[e.R].spec.Bucket
		switch e.K {
		case "start":
			cur[b]++
			if cur[b] > maxc[b] {
				maxc[b] = cur[b]
			}
			if cur[b] > limit[b] && !reported[b] {
				reported[b] = true
				var running []int
				c2 := map[int]int{}
				for _, e2 := range rl.Events[:e.N+1] {
					if e2.K == "start" {
						c2[e2.R]++
					} else if e2.K == "end" {
						c2[e2.R]--
					}
				}
				for id, n := range c2 {
					if n > 0 && views[id].spec.Bucket == b {
						running = append(running, id)
					}
				}
				sort.Ints(running)
				run.Violation("concurrency-exceeds-limit", b+"-bucket",
					fmt.Sprintf("round %d: %d %s executions in flight at event %d, limit %d (requests %v)", cfg.Round, cur[b], b, e.N, limit[b], running),
					witness(running...))
			}
		case "end":
			cur[b]--
		}
	}
	if maxc["heavy"] > a.maxHeavy {
		a.maxHeavy = maxc["heavy"]
	}

	hist := map[string]int{}
	for _, v := range views {
		id := v.spec.ID
		if v.panicked {
			run.Violation("panic-in-limiter", firstLine(v.panicMsg), fmt.Sprintf("round %d request %d: Acquire panicked: %s", cfg.Round, id, v.panicMsg), witness(id))
			continue
		}
		if v.call < 0 || v.ret < 0 {
			run.Inconclusive(fmt.Sprintf("round %d request %d has no call/ret event", cfg.Round, id))
			continue
		}
		executed := v.nStart > 0
		// (2) executed at most once
		if v.nStart > 1 {
			run.Violation("executed-twice", v.spec.Bucket+"-bucket", fmt.Sprintf("round %d request %d: execute closure ran %d times", cfg.Round, id, v.nStart), witness(id))
		}
		wantRes := "nil"
		if v.spec.RetErr {
			wantRes = "own"
		}
		path := "direct"
		if v.queued {
			path = "queued"
		}
		if executed {
			// (3) executed => caller received exactly that execution's result
			switch {
			case v.res == wantRes:
				a.resultDelivered++
				if wantRes == "nil" {
					a.nilDelivered++
				}
				if v.queued {
					a.queuedResultDelivered++
				}
				if v.end < 0 || v.end > v.ret {
					run.Violation("caller-got-wrong-result", "result-before-execution-ended", fmt.Sprintf("round %d request %d: caller got %q before the execution ended", cfg.Round, id, v.res), witness(id))
				}
			case limiterClass(v.res):
				sig := "rejected-but-executed:" + v.res
				if v.res == "queue-timeout" || v.res == "ctx-canceled" || v.res == "ctx-deadline" {
					if v.queued {
						sig = "enqueueRequest:ctx-done-after-dequeue"
						// the single queue worker runs queued requests one after the other (it blocks in each execution).
						// If another queued request started before this one and ended only after this one's caller had
						// been answered, this request was taken off the queue after its queue wait had already ended,
						// and must have been skipped, not run
						for _, o := range views {
							if o != v && o.queued && o.spec.Bucket == v.spec.Bucket && o.start >= 0 && o.start < v.start && o.end > v.ret {
								sig = "processQueue:ran-a-request-dequeued-after-its-caller-was-answered"
								break
							}
						}
					} else {
						sig = "direct-path:" + v.res
					}
				}
				a.defectSeen++
				if v.res == "queue-timeout" {
					a.timeoutWhileExec++
				} else {
					a.ctxErrWhileExec++
				}
				order := "caller returned while the execution was in flight"
				if v.ret < v.start {
					order = "caller returned before the execution's first instruction"
				} else if v.end >= 0 && v.end < v.ret {
					order = "execution had already ended when the caller returned"
				}
				run.Violation("executed-but-caller-got-limiter-error", sig,
					fmt.Sprintf("round %d request %d (%s, %s path, ctx=%s/%dus, exec=%dus, queue timeout %dus): execute closure ran (start@%d end@%d) but the caller received limiter error %q (ret@%d) instead of the execution's result; %s",
						cfg.Round, id, v.spec.Bucket, path, v.spec.Ctx, v.spec.CtxUs, v.spec.ExecUs, cfg.QueueTimeoutUs, v.start, v.end, v.errs, v.ret, order),
					witness(id))
			default:
				run.Violation("caller-got-wrong-result", v.spec.Bucket+":"+path+":want-"+wantRes+":got-"+v.res,
					fmt.Sprintf("round %d request %d: executed, execution returned %s, caller received %s %q", cfg.Round, id, wantRes, v.res, v.errs), witness(id))
			}
		} else {
			// (4) not executed => caller got an error
			switch {
			case v.res == "nil":
				run.Violation("not-executed-but-caller-got-success", v.spec.Bucket+"-bucket", fmt.Sprintf("round %d request %d never ran but Acquire returned nil", cfg.Round, id), witness(id))
			case v.res == "own" || v.res == "other":
				run.Violation("caller-got-wrong-result", "not-executed:got-"+v.res, fmt.Sprintf("round %d request %d never ran but the caller received an execution result %q", cfg.Round, id, v.errs), witness(id))
			case v.res == "unknown":
				run.Count("not-executed-unknown-error-text", 1) // still an error, as the statement demands
			}
		}
		// behaviour classes
		switch {
		case executed && v.spec.Bucket == "heavy" && v.queued:
			a.heavyQueued++
		case executed && v.spec.Bucket == "heavy":
			a.heavyDirect++
		case executed:
			a.normalExec++
		}
		if executed && v.spec.Bucket == "normal" && v.queued {
			run.Count("normal-request-ran-on-queue-worker", 1)
		}
		if !executed {
			switch v.res {
			case "busy":
				a.busy++
			case "queue-full":
				a.queueFull++
			case "queue-timeout":
				a.timeoutNotExec++
			case "ctx-canceled", "ctx-deadline":
				a.ctxBeforeDequeue++
				if v.spec.Ctx == "precancelled" {
					a.precancelled++
				}
			}
		}
		if executed && v.queued && !v.dStart && (v.dEnd || (limiterClass(v.res) && v.res != "queue-timeout")) {
			a.ctxDoneDuringQueuedExec++
		}
		k := v.spec.Bucket + "/" + path + "/" + v.res
		if !executed {
			k = v.spec.Bucket + "/not-run/" + v.res
		}
		hist[k]++
	}

	// (5) after quiescence all permits and queue slots are free (H7 probe on the real semaphores / channel)
	if rl.ProbePolls > a.probePollsMax {
		a.probePollsMax = rl.ProbePolls
	}
	if !rl.Settled {
		what := []string{}
		if !rl.Probe.HeavyAllFree {
			what = append(what, "heavy-permits")
		}
		if !rl.Probe.NormalAllFree {
			what = append(what, "normal-permits")
		}
		if rl.Probe.QueueLen != 0 {
			what = append(what, "queue-slots")
		}
		if len(what) == 0 {
			what = append(what, "unstable")
		}
		run.Violation("held-after-quiescence", strings.Join(what, "+"),
			fmt.Sprintf("round %d: every caller returned and every execution ended, but after %d probes the limiter still holds: %+v", cfg.Round, rl.ProbePolls, rl.Probe), witness())
	}

	// (6) cross-check: (acquire, release) history against a counting-semaphore model with porcupine
	for _, b := range []string{"heavy", "normal"} {
		lim := limit[b]
		var ops []porcupine.Operation
		maxN := int64(len(rl.Events) + 1)
		for _, v := range views {
			if v.spec.Bucket != b || v.nStart == 0 || v.call < 0 {
				continue
			}
			ops = append(ops, porcupine.Operation{ClientId: v.spec.ID, Input: 0, Call: int64(v.call), Output: 0, Return: int64(v.start)})
			if v.end >= 0 {
				rel := maxN
				if v.ret > v.end && !limiterClass(v.res) {
					rel = int64(v.ret) // the permit is given back before the result reaches the caller
				}
				ops = append(ops, porcupine.Operation{ClientId: v.spec.ID, Input: 1, Call: int64(v.end), Output: 0, Return: rel})
			}
		}
		if len(ops) == 0 {
			continue
		}
		model := porcupine.Model{
			Init: func() interface{} { return 0 },
			Step: func(state, input, output interface{}) (bool, interface{}) {
				n := state.(int)
				if input.(int) == 0 {
					if n < lim {
						return true, n + 1
					}
					return false, n
				}
				if n > 0 {
					return true, n - 1
				}
				return false, n
			},
		}
		a.porcupineChecked++
		switch porcupine.CheckOperationsTimeout(model, ops, 2*time.Minute) {
		case porcupine.Ok:
			a.porcupineOK++
		case porcupine.Illegal:
			run.Violation("semaphore-history-not-linearizable", b+"-bucket",
				fmt.Sprintf("round %d: the (acquire, release) history of the %s bucket is not a history of a counting semaphore with %d permits", cfg.Round, b, lim), witness())
		default:
			run.Inconclusive(fmt.Sprintf("round %d: porcupine timeout on %s bucket (%d ops)", cfg.Round, b, len(ops)))
		}
	}

	// non-triviality: the round made requests wait in the queue AND turned some away
	rejected := 0
	for k, n := range hist {
		if strings.Contains(k, "/not-run/") {
			rejected += n
		}
	}
	queuedRan := 0
	for _, v := range views {
		if v.nStart > 0 && v.queued {
			queuedRan++
		}
	}
	if queuedRan > 0 && rejected > 0 {
		keys := make([]string, 0, len(hist))
		for k, n := range hist {
			keys = append(keys, fmt.Sprintf("%s=%d", k, n))
		}
		sort.Strings(keys)
		run.Nontrivial(fmt.Sprintf("h%d q%d n%d g%d t%d %v", cfg.HeavyLimit, cfg.Queue, cfg.NormalLimit, cfg.Goroutines, cfg.QueueTimeoutUs, keys))
	}
	if cfg.Round < 2 {
		run.Sample(map[string]any{"round": cfg.Round, "cfg": cfg, "requests": len(rl.Reqs), "events": len(rl.Events), "outcomes": hist, "max_concurrent": maxc, "probe": rl.Probe})
	}
}

func firstLine(s string) string {
	if i := strings.IndexByte(s, '\n'); i >= 0 {
		s = s[:i]
	}
	if len(s) > 120 {
		s = s[:120]
	}
	return s
}

var (
	reLineNo = regexp.MustCompile(`:\d+( \+0x[0-9a-f]+)?$`)
	reAddr   = regexp.MustCompile(`0x[0-9a-f]+`)
)

// crashSignature extracts the first fatal / panic line of a dead child's log.
func crashSignature(log string) string {
	for _, ln := range strings.Split(log, "\n") {
		t := strings.TrimSpace(ln)
		if strings.HasPrefix(t, "fatal error:") || strings.HasPrefix(t, "panic:") {
			return firstLine(reAddr.ReplaceAllString(t, "0x?"))
		}
	}
	return "no-fatal-line"
}

// raceBlocks returns the deduplicated data-race reports (stack pairs with line numbers stripped).
func raceBlocks(text string) map[string]string {
	out := map[string]string{}
	parts := strings.Split(text, "WARNING: DATA RACE")
	for _, p := range parts[1:] {
		if i := strings.Index(p, "=================="); i >= 0 {
			p = p[:i]
		}
		var fn []string
		for _, ln := range strings.Split(p, "\n") {
			t := strings.TrimSpace(ln)
			if t == "" || strings.HasPrefix(t, "/") {
				continue
			}
			if strings.HasPrefix(t, "Goroutine ") { // creation stacks are not part of the pair
				break
			}
			t = reLineNo.ReplaceAllString(t, "")
			if i := strings.IndexByte(t, '('); i > 0 && !strings.HasSuffix(t, ":") {
				t = t[:i]
			}
			fn = append(fn, reAddr.ReplaceAllString(t, "0x?"))
		}
		key := strings.Join(fn, " < ")
		if _, ok := out[key]; !ok {
			out[key] = p
		}
	}
	return out
}

func TestC41(t *testing.T) {
	run := ev.Start("C41")
	rounds := run.Pick(200, 4000)
	nchild := run.Pick(4, 8)
	outDir := filepath.Join(ev.Dir(), ".out", "c41")
	_ = os.RemoveAll(outDir)
	if err := os.MkdirAll(outDir, 0o755); err != nil {
		t.Fatal(err)
	}
	type childRes struct {
		from, to int
		out, log string
		err      error
	}
	res := make([]childRes, nchild)
	var wg sync.WaitGroup
	per := (rounds + nchild - 1) / nchild
	for c := 0; c < nchild; c++ {
		from, to := c*per, (c+1)*per
		if to > rounds {
			to = rounds
		}
		res[c] = childRes{from: from, to: to, out: filepath.Join(outDir, fmt.Sprintf("child%d.jsonl", c)), log: filepath.Join(outDir, fmt.Sprintf("child%d.log", c))}
		wg.Add(1)
		go func(c int) {
			defer wg.Done()
			r := &res[c]
			cmd := exec.Command(os.Args[0], "-test.run", "^TestC41Child$", "-test.count=1", "-test.timeout=0")
			cmd.Env = append(os.Environ(),
				"VERIF_C41_CHILD=1",
				fmt.Sprintf("VERIF_SEED=%d", run.Seed),
				fmt.Sprintf("VERIF_C41_FROM=%d", r.from),
				fmt.Sprintf("VERIF_C41_TO=%d", r.to),
				"VERIF_C41_OUT="+r.out,
				"GORACE=halt_on_error=0 log_path="+filepath.Join(outDir, fmt.Sprintf("race%d", c)),
			)
			lf, err := os.Create(r.log)
			if err != nil {
				r.err = err
				return
			}
			defer lf.Close()
			cmd.Stdout, cmd.Stderr = lf, lf
			r.err = cmd.Run()
		}(c)
	}
	wg.Wait()

	a := &agg{}
	for c := range res {
		r := &res[c]
		logb, _ := os.ReadFile(r.log)
		logs := string(logb)
		seen := 0
		complete := false
		if f, err := os.Open(r.out); err == nil {
			sc := bufio.NewScanner(f)
			sc.Buffer(make([]byte, 1<<20), 1<<28)
			for sc.Scan() {
				var rl roundLog
				if err := json.Unmarshal(sc.Bytes(), &rl); err != nil {
					break // truncated last line of a dead child
				}
				if rl.Done {
					complete = true
					break
				}
				seen++
				run.Eval(1)
				evalRound(run, &rl, a)
			}
			f.Close()
		}
		if r.err != nil || !complete || !strings.Contains(logs, "C41-CHILD done") {
			// the child died: a Go fatal error / an unrecovered panic on the limiter's worker goroutine
			last := ""
			for _, ln := range strings.Split(logs, "\n") {
				if strings.HasPrefix(ln, "C41-CHILD round ") {
					last = ln
				}
			}
			tail := logs
			if i := strings.Index(tail, "fatal error:"); i >= 0 {
				tail = tail[i:]
			} else if i := strings.Index(tail, "panic:"); i >= 0 {
				tail = tail[i:]
			}
			if len(tail) > 6000 {
				tail = tail[:6000]
			}
			run.Violation("child-crashed", crashSignature(logs),
				fmt.Sprintf("child %d (rounds %d..%d) died (%v) after %d complete rounds; last marker %q", c, r.from, r.to-1, r.err, seen, last),
				map[string]any{"seed": run.Seed, "rounds": []int{r.from, r.to}, "last_marker": last, "exit": fmt.Sprint(r.err), "log_excerpt": tail})
		}
	}
	// race detector reports of the children (amplifier, never the sole verdict for anything but limiter fields)
	races := map[string]string{}
	files, _ := filepath.Glob(filepath.Join(outDir, "race*"))
	for _, fn := range files {
		b, _ := os.ReadFile(fn)
		for k, v := range raceBlocks(string(b)) {
			races[k] = v
		}
	}
	for c := range res { // reports also land in the child's stderr when log_path cannot be opened
		b, _ := os.ReadFile(res[c].log)
		for k, v := range raceBlocks(string(b)) {
			races[k] = v
		}
	}
	for k, v := range races {
		if strings.Contains(v, "rpcprovider/resource_limiter.go") {
			if len(v) > 5000 {
				v = v[:5000]
			}
			run.Violation("data-race-in-limiter", firstLine(k), "race detector report with a frame in resource_limiter.go: "+k, map[string]any{"seed": run.Seed, "report": v})
		} else {
			run.Count("race-reports-outside-limiter", 1)
		}
	}
	run.Count("race-reports-distinct", len(races))

	for name, n := range map[string]int{
		"requests": a.reqs, "heavy-executed-direct": a.heavyDirect, "heavy-executed-from-queue": a.heavyQueued, "normal-executed": a.normalExec,
		"normal-rejected-busy": a.busy, "heavy-rejected-queue-full": a.queueFull, "timeout-in-queue-not-executed": a.timeoutNotExec,
		"ctx-done-before-dequeue-not-executed": a.ctxBeforeDequeue, "ctx-done-during-queued-execution": a.ctxDoneDuringQueuedExec,
		"precancelled-ctx-rejected-in-queue": a.precancelled, "executed-but-limiter-error-seen": a.defectSeen,
		"executed-but-queue-timeout-error": a.timeoutWhileExec, "executed-but-ctx-error": a.ctxErrWhileExec,
		"cancel-events": a.cancelEvents, "max-heavy-concurrency-seen": a.maxHeavy, "porcupine-partitions-checked": a.porcupineChecked,
		"porcupine-partitions-ok": a.porcupineOK, "probe-polls-max": a.probePollsMax, "results-delivered-to-caller": a.resultDelivered,
		"results-delivered-from-queue": a.queuedResultDelivered,
	} {
		run.Count(name, n)
	}
	run.Require("race detector enabled (checks.tsv flag -race)", raceEnabled)
	run.Require("class exercised: heavy bucket executed directly", a.heavyDirect > 0)
	run.Require("class exercised: heavy bucket executed from the queue", a.heavyQueued > 0)
	run.Require("class exercised: normal bucket executed", a.normalExec > 0)
	run.Require("class exercised: normal bucket rejected (busy)", a.busy > 0)
	run.Require("class exercised: queue full", a.queueFull > 0)
	run.Require("class exercised: timeout in queue (request never ran)", a.timeoutNotExec > 0)
	run.Require("class exercised: ctx cancelled / expired before dequeue (request never ran)", a.ctxBeforeDequeue > 0)
	run.Require("class exercised: ctx cancelled / expired after dequeue (while the queued request was running)", a.ctxDoneDuringQueuedExec > 0)
	run.Require("class exercised: results delivered through the queue", a.queuedResultDelivered > 0)
	run.Require("porcupine cross-check ran", a.porcupineChecked > 0)

	run.Finish("rounds of 32-128 goroutines issuing heavy / normal requests (heavy limit 1-3, queue 1-5, normal limit 2-8, execution 0-5 ms, queue timeout 5-50 ms, caller deadlines / cancels placed by the PRNG around the expected dequeue instant) against the real ResourceLimiter under -race in child processes; every request has a unique id and a unique result; verdicts from the totally ordered event log (call/start/end/ret): per-bucket overlap <= limit, executed at most once, executed => caller got exactly that result, not executed => caller got an error, H7 probe of the real semaphores / queue after quiescence, porcupine counting-semaphore cross-check. A round is non-trivial when at least one request was executed from the queue and at least one was turned away; distinct = distinct (config, outcome histogram)",
		rounds/2,
		"bucket membership of a request is taken from the limiter's documented rule (CU >= threshold, debug_/trace_ prefix, '&' batch marker => heavy)",
		"'still held after quiescence' is decided after every caller returned and every execution ended, by polling the real semaphore/queue state for up to 5 s (expected settle time: microseconds)",
		"wall clock only shapes the workload; schedules are explored, not exhausted")
}
