//go:build verif && !race

package c41

const raceEnabled = false
