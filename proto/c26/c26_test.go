//go:build verif

// C26 — content hashes identify relay requests unambiguously.
//
// Real code observed: RelayPrivateData.GetContentHashData + sigs.HashMsg (what the consumer signs into
// RelaySession.ContentHash in lavaprotocol.ConstructRelayRequest) and the provider's own
// verifyRelayRequestMetaData / ExtractConsumerAddress (through the verif hook in protocol/rpcprovider).
package c26

import (
	"bytes"
	"context"
	"encoding/hex"
	"fmt"
	"math/rand"
	"reflect"
	"sort"
	"strings"
	"testing"

	"github.com/lavanet/lava/v5/protocol/lavaprotocol"
	"github.com/lavanet/lava/v5/protocol/lavasession"
	"github.com/lavanet/lava/v5/protocol/qos"
	"github.com/lavanet/lava/v5/protocol/rpcprovider"
	"github.com/lavanet/lava/v5/utils"
	"github.com/lavanet/lava/v5/utils/sigs"
	pairingtypes "github.com/lavanet/lava/v5/x/pairing/types"
	"github.com/rs/zerolog"

	"verif/internal/ev"
	"verif/internal/vrand"
)

// hashed = fields the statement lists as covered by the content hash; the other fields of the struct are
// correlation ids the statement does not list. A field that is in neither list makes the run a broken run.
var hashedFields = map[string]bool{
	"Data": true, "ApiUrl": true, "ConnectionType": true, "ApiInterface": true, "Addon": true,
	"Extensions": true, "Metadata": true, "RequestBlock": true, "SeenBlock": true, "Salt": true,
}
var unhashedFields = map[string]bool{"RequestId": true, "XTaskId": true, "XTxId": true}

func hashOf(d *pairingtypes.RelayPrivateData) []byte { return sigs.HashMsg(d.GetContentHashData()) }

func clone(d *pairingtypes.RelayPrivateData) *pairingtypes.RelayPrivateData {
	b, err := d.Marshal()
	if err != nil {
		panic(err)
	}
	out := &pairingtypes.RelayPrivateData{}
	if err := out.Unmarshal(b); err != nil {
		panic(err)
	}
	return out
}

func marshal(d *pairingtypes.RelayPrivateData) []byte {
	b, err := d.Marshal()
	if err != nil {
		panic(err)
	}
	return b
}

var (
	connTypes  = []string{"GET", "POST", "", "PUT", "DELETE"}
	apiIfaces  = []string{"jsonrpc", "rest", "grpc", "tendermintrpc"}
	addons     = []string{"", "debug", "trace", "rest", "archive-addon"}
	extensions = []string{"archive", "debug", "ws", "tx"}
	urls       = []string{"", "/cosmos/tx/v1beta1/txs", "/cosmos/bank/v1beta1/balances/lava@1abc", "/blocks/latest", "lavanet.lava.spec.Query/ShowAllChains", "/v1/accounts/0x1/resources?limit=5"}
	datas      = []string{"", `{"jsonrpc":"2.0","id":1,"method":"eth_blockNumber","params":[]}`, `{"jsonrpc":"2.0","id":7,"method":"eth_getBalance","params":["0xabc","latest"]}`, `[{"jsonrpc":"2.0","id":1,"method":"eth_chainId"}]`, "\x0a\x04test\x10\x01"}
	mdNames    = []string{"x-cosmos-block-height", "lava-force-cache-refresh", "x-api-key", "accept", "a"}
)

func rstr(rng *rand.Rand, minLen, maxLen int) string {
	n := minLen + rng.Intn(maxLen-minLen+1)
	b := make([]byte, n)
	for i := range b {
		switch rng.Intn(6) {
		case 0:
			b[i] = byte(rng.Intn(256))
		default:
			b[i] = byte('a' + rng.Intn(26))
		}
	}
	return string(b)
}

func pickOr(rng *rand.Rand, xs []string, minLen int) string {
	if rng.Intn(4) == 0 {
		return rstr(rng, minLen, 12)
	}
	for tries := 0; tries < 8; tries++ {
		if s := vrand.Pick(rng, xs); len(s) >= minLen {
			return s
		}
	}
	return rstr(rng, minLen, 12)
}

// genBase builds a request through the consumer's own constructor (lavaprotocol.NewRelayData). rich = every
// variable-length field non-empty, two or more metadata entries and extensions (so that every boundary exists).
func genBase(rng *rand.Rand, rich bool) *pairingtypes.RelayPrivateData {
	minLen := 0
	if rich {
		minLen = 1
	}
	nmd, next := rng.Intn(3), rng.Intn(3)
	if rich {
		nmd, next = 2+rng.Intn(2), 2+rng.Intn(2)
	}
	var md []pairingtypes.Metadata
	for i := 0; i < nmd; i++ {
		md = append(md, pairingtypes.Metadata{Name: pickOr(rng, mdNames, 1), Value: rstr(rng, minLen, 10)})
	}
	var ext []string
	for i := 0; i < next; i++ {
		ext = append(ext, pickOr(rng, extensions, 1))
	}
	blocks := []int64{-1, -2, -3, -4, -5, 0, 1, 17_000_000, 1 << 40, int64(rng.Uint64() >> 1), -int64(rng.Uint64() >> 1)}
	ctx := utils.WithUniqueIdentifier(context.Background(), rng.Uint64()|1)
	if rng.Intn(2) == 0 {
		ctx = utils.WithRequestId(ctx, rstr(rng, 1, 8))
	}
	d := lavaprotocol.NewRelayData(ctx, pickOr(rng, connTypes, minLen), pickOr(rng, urls, minLen), []byte(pickOr(rng, datas, minLen)),
		vrand.Pick(rng, blocks), vrand.Pick(rng, blocks), pickOr(rng, apiIfaces, minLen), md, pickOr(rng, addons, minLen), ext)
	if rng.Intn(3) == 0 {
		lavaprotocol.SetTaskId(d, rstr(rng, 1, 6))
	}
	if rng.Intn(3) == 0 {
		lavaprotocol.SetTxId(d, rstr(rng, 1, 6))
	}
	if !rich && rng.Intn(6) == 0 { // salts of other lengths are accepted on the wire as well
		d.Salt = []byte(rstr(rng, 0, 16))
	}
	return d
}

type variant struct {
	Class string // "single-field" or "boundary-shift"
	Sig   string // field (class a) or boundary (class b)
	How   string
	D     *pairingtypes.RelayPrivateData
}

func mutStr(rng *rand.Rand, s string) (string, string) {
	switch k := rng.Intn(3); {
	case k == 0 || len(s) == 0:
		return s + string(rune('a'+rng.Intn(26))), "append-byte"
	case k == 1:
		return s[:len(s)-1], "drop-last-byte"
	default:
		b := []byte(s)
		i := rng.Intn(len(b))
		b[i] ^= byte(1 + rng.Intn(255))
		return string(b), "flip-byte"
	}
}

// classA: one hashed field changed so that the field's own bytes change (never a pure re-framing).
func classA(rng *rand.Rand, base *pairingtypes.RelayPrivateData) []variant {
	var out []variant
	add := func(field, how string, f func(d *pairingtypes.RelayPrivateData)) {
		d := clone(base)
		f(d)
		out = append(out, variant{"single-field", field, how, d})
	}
	for _, f := range []struct {
		name string
		get  func(d *pairingtypes.RelayPrivateData) *string
	}{
		{"ConnectionType", func(d *pairingtypes.RelayPrivateData) *string { return &d.ConnectionType }},
		{"ApiUrl", func(d *pairingtypes.RelayPrivateData) *string { return &d.ApiUrl }},
		{"ApiInterface", func(d *pairingtypes.RelayPrivateData) *string { return &d.ApiInterface }},
		{"Addon", func(d *pairingtypes.RelayPrivateData) *string { return &d.Addon }},
	} {
		f := f
		v, how := mutStr(rng, *f.get(base))
		add(f.name, how, func(d *pairingtypes.RelayPrivateData) { *f.get(d) = v })
	}
	{
		v, how := mutStr(rng, string(base.Data))
		add("Data", how, func(d *pairingtypes.RelayPrivateData) { d.Data = []byte(v) })
		v2, how2 := mutStr(rng, string(base.Salt))
		add("Salt", how2, func(d *pairingtypes.RelayPrivateData) { d.Salt = []byte(v2) })
	}
	delta := int64(1 + rng.Intn(1000))
	add("RequestBlock", "add-delta", func(d *pairingtypes.RelayPrivateData) { d.RequestBlock += delta })
	add("SeenBlock", "add-delta", func(d *pairingtypes.RelayPrivateData) { d.SeenBlock -= delta })
	if base.RequestBlock != base.SeenBlock {
		// not a single-field change, but a dropped/merged block field would show here: swap the two blocks
		add("RequestBlock", "swap-with-seen-block", func(d *pairingtypes.RelayPrivateData) { d.RequestBlock, d.SeenBlock = d.SeenBlock, d.RequestBlock })
	}
	// extensions
	add("Extensions", "append-element", func(d *pairingtypes.RelayPrivateData) { d.Extensions = append(d.Extensions, rstr(rng, 1, 6)) })
	if n := len(base.Extensions); n > 0 {
		i := rng.Intn(n)
		v, how := mutStr(rng, base.Extensions[i])
		add("Extensions", "element-"+how, func(d *pairingtypes.RelayPrivateData) { d.Extensions[i] = v })
		add("Extensions", "remove-element", func(d *pairingtypes.RelayPrivateData) {
			d.Extensions = append(append([]string{}, d.Extensions[:i]...), d.Extensions[i+1:]...)
		})
	}
	// metadata
	add("Metadata", "append-entry", func(d *pairingtypes.RelayPrivateData) {
		d.Metadata = append(d.Metadata, pairingtypes.Metadata{Name: rstr(rng, 1, 6), Value: rstr(rng, 0, 6)})
	})
	if n := len(base.Metadata); n > 0 {
		i := rng.Intn(n)
		v, how := mutStr(rng, base.Metadata[i].Name)
		add("Metadata", "name-"+how, func(d *pairingtypes.RelayPrivateData) { d.Metadata[i].Name = v })
		v2, how2 := mutStr(rng, base.Metadata[i].Value)
		add("Metadata", "value-"+how2, func(d *pairingtypes.RelayPrivateData) { d.Metadata[i].Value = v2 })
		add("Metadata", "remove-entry", func(d *pairingtypes.RelayPrivateData) {
			d.Metadata = append(append([]pairingtypes.Metadata{}, d.Metadata[:i]...), d.Metadata[i+1:]...)
		})
	}
	return out
}

// shift moves k bytes across the boundary between two adjacent variable-length byte strings.
func shift(rng *rand.Rand, l, r string) (string, string, string, bool) {
	toRight := rng.Intn(2) == 0
	if toRight && len(l) == 0 || !toRight && len(r) == 0 {
		toRight = !toRight
	}
	if toRight {
		if len(l) == 0 {
			return l, r, "", false
		}
		k := 1 + rng.Intn(min(len(l), 3))
		return l[:len(l)-k], l[len(l)-k:] + r, fmt.Sprintf("move last %d byte(s) right", k), true
	}
	if len(r) == 0 {
		return l, r, "", false
	}
	k := 1 + rng.Intn(min(len(r), 3))
	return l + r[:k], r[k:], fmt.Sprintf("move first %d byte(s) left", k), true
}

// classB: pairs with byte-identical plain concatenation of the hashed fields but different field values.
func classB(rng *rand.Rand, base *pairingtypes.RelayPrivateData) []variant {
	var out []variant
	add := func(boundary, how string, f func(d *pairingtypes.RelayPrivateData)) {
		d := clone(base)
		f(d)
		out = append(out, variant{"boundary-shift", boundary, how, d})
	}
	type sp = *pairingtypes.RelayPrivateData
	strPair := func(boundary string, l, r func(d sp) *string) {
		nl, nr, how, ok := shift(rng, *l(base), *r(base))
		if ok {
			add(boundary, how, func(d sp) { *l(d), *r(d) = nl, nr })
		}
	}
	if n := len(base.Metadata); n > 0 {
		i := rng.Intn(n)
		strPair("Metadata.Name|Metadata.Value", func(d sp) *string { return &d.Metadata[i].Name }, func(d sp) *string { return &d.Metadata[i].Value })
		if n > 1 {
			j := rng.Intn(n - 1)
			strPair("Metadata.Value|Metadata.Name(next entry)", func(d sp) *string { return &d.Metadata[j].Value }, func(d sp) *string { return &d.Metadata[j+1].Name })
		}
		if len(base.Extensions) > 0 {
			strPair("Metadata|Extensions", func(d sp) *string { return &d.Metadata[n-1].Value }, func(d sp) *string { return &d.Extensions[0] })
		}
	}
	if n := len(base.Extensions); n > 0 {
		if n > 1 {
			j := rng.Intn(n - 1)
			strPair("Extensions[i]|Extensions[i+1]", func(d sp) *string { return &d.Extensions[j] }, func(d sp) *string { return &d.Extensions[j+1] })
		}
		strPair("Extensions|Addon", func(d sp) *string { return &d.Extensions[n-1] }, func(d sp) *string { return &d.Addon })
	}
	strPair("Addon|ApiInterface", func(d sp) *string { return &d.Addon }, func(d sp) *string { return &d.ApiInterface })
	strPair("ApiInterface|ConnectionType", func(d sp) *string { return &d.ApiInterface }, func(d sp) *string { return &d.ConnectionType })
	strPair("ConnectionType|ApiUrl", func(d sp) *string { return &d.ConnectionType }, func(d sp) *string { return &d.ApiUrl })
	{
		nl, nr, how, ok := shift(rng, base.ApiUrl, string(base.Data))
		if ok {
			add("ApiUrl|Data", how, func(d sp) { d.ApiUrl, d.Data = nl, []byte(nr) })
		}
	}
	// Data | RequestBlock(8) | SeenBlock(8) | Salt : the two fixed-width integers sit between two variable-length
	// fields, so the whole window can slide by k bytes.
	if k := 1 + rng.Intn(7); len(base.Data) >= k {
		window := append(append(append(append([]byte{}, base.Data...), sigs.EncodeUint64(uint64(base.RequestBlock))...), sigs.EncodeUint64(uint64(base.SeenBlock))...), base.Salt...)
		nd := len(base.Data) - k
		add("Data|RequestBlock|SeenBlock|Salt", fmt.Sprintf("slide window by %d byte(s)", k), func(d sp) {
			d.Data = append([]byte{}, window[:nd]...)
			d.RequestBlock = int64(leU64(window[nd : nd+8]))
			d.SeenBlock = int64(leU64(window[nd+8 : nd+16]))
			d.Salt = append([]byte{}, window[nd+16:]...)
		})
	}
	return out
}

func leU64(b []byte) uint64 {
	var x uint64
	for i := 7; i >= 0; i-- {
		x = x<<8 | uint64(b[i])
	}
	return x
}

type witness struct {
	Seed      int64  `json:"seed"`
	Case      int    `json:"case"`
	How       string `json:"how"`
	Base      string `json:"base_proto_hex"`
	Variant   string `json:"variant_proto_hex"`
	BaseStr   string `json:"base"`
	VarStr    string `json:"variant"`
	BaseHash  string `json:"base_content_hash"`
	VarHash   string `json:"variant_content_hash"`
	Provider  string `json:"provider_check,omitempty"`
	SessionOf string `json:"session_signed_for,omitempty"`
}

func TestC26(t *testing.T) {
	zerolog.SetGlobalLevel(zerolog.Disabled)
	run := ev.Start("C26")
	nbase := run.Pick(2000, 40000)

	// field census by reflection: a field the check does not know is a broken run, a hashed field nobody mutated too
	rt := reflect.TypeOf(pairingtypes.RelayPrivateData{})
	var unknown []string
	for i := 0; i < rt.NumField(); i++ {
		n := rt.Field(i).Name
		if !hashedFields[n] && !unhashedFields[n] {
			unknown = append(unknown, n)
		}
	}
	run.Require("every RelayPrivateData field classified as hashed / not hashed by the statement (unclassified: "+strings.Join(unknown, ",")+")", len(unknown) == 0)

	const specID, lavaChainID = "ETH1", "lava-verif"
	keyRng := vrand.New(run.Seed, "c26-keys")
	consumer := sigs.GenerateDeterministicFloatingKey(keyRng)
	provider := sigs.GenerateDeterministicFloatingKey(keyRng)
	checker := rpcprovider.NewVerifRelayRequestChecker(provider.Addr, specID, lavaChainID)

	mutated := map[string]int{}
	boundaries := map[string]int{}
	collisions := map[string]int{}
	e2eAccepted, e2eRejected, e2eSane := 0, 0, 0
	for i := 0; i < nbase; i++ {
		rng := vrand.Sub(run.Seed, "c26", i)
		base := genBase(rng, i%2 == 0)
		baseHash := hashOf(base)
		baseBytes := marshal(base)
		baseConcat := base.GetContentHashData()

		// the consumer's own request for base: content hash + signature (real ConstructRelayRequest)
		session := &lavasession.SingleConsumerSession{CuSum: uint64(rng.Intn(1000)), LatestRelayCu: uint64(1 + rng.Intn(100)), SessionId: int64(rng.Uint64() >> 1), RelayNum: uint64(1 + rng.Intn(50)), QoSManager: qos.NewQoSManager()}
		signedReq, err := lavaprotocol.ConstructRelayRequest(context.Background(), consumer.SK, lavaChainID, specID, clone(base), provider.Addr.String(), session, int64(20*(1+rng.Intn(100))), nil)
		if err != nil {
			t.Fatalf("ConstructRelayRequest: %v", err)
		}
		// sanity of the end-to-end harness on the untouched request: the provider accepts it and recovers the consumer
		if err := checker.VerifyMetaData(context.Background(), signedReq); err != nil {
			run.Violation("provider-rejects-untouched-request", "verifyRelayRequestMetaData", err.Error(), witness{Seed: run.Seed, Case: i, Base: hex.EncodeToString(baseBytes), BaseStr: base.String()})
			continue
		}
		if addr, err := checker.ExtractConsumerAddress(context.Background(), signedReq); err != nil || !addr.Equals(consumer.Addr) {
			run.Violation("provider-rejects-untouched-request", "ExtractConsumerAddress", fmt.Sprintf("addr=%v err=%v want %v", addr, err, consumer.Addr), witness{Seed: run.Seed, Case: i, Base: hex.EncodeToString(baseBytes), BaseStr: base.String()})
			continue
		}
		e2eSane++

		vs := append(classA(rng, base), classB(rng, base)...)
		for _, v := range vs {
			vb := marshal(v.D)
			if bytes.Equal(vb, baseBytes) {
				continue // not a different request
			}
			// both classes: only hashed fields may differ
			if !sameUnhashed(base, v.D) {
				t.Fatalf("harness bug: variant changed an unhashed field")
			}
			sameConcat := bytes.Equal(v.D.GetContentHashData(), baseConcat)
			if v.Class == "boundary-shift" && !sameConcat {
				// the tree no longer concatenates plainly at this boundary: then the hashes trivially differ; still a valid pair
				run.Count("boundary pairs whose hash input differs", 1)
			}
			run.Eval(1)
			vh := hashOf(v.D)
			run.Nontrivial(v.Class + "|" + v.Sig + "|" + hex.EncodeToString(sigs.HashMsg(append(append([]byte{}, baseBytes...), vb...))))
			w := witness{Seed: run.Seed, Case: i, How: v.How, Base: hex.EncodeToString(baseBytes), Variant: hex.EncodeToString(vb), BaseStr: base.String(), VarStr: v.D.String(), BaseHash: hex.EncodeToString(baseHash), VarHash: hex.EncodeToString(vh)}
			if v.Class == "single-field" {
				mutated[v.Sig]++
			} else {
				boundaries[v.Sig]++
			}
			// end-to-end: the session signed for base, attached to the variant, through the provider's own check
			forged := &pairingtypes.RelayRequest{RelaySession: signedReq.RelaySession, RelayData: v.D}
			perr := checker.VerifyMetaData(context.Background(), forged)
			addr, aerr := checker.ExtractConsumerAddress(context.Background(), forged)
			accepted := perr == nil && aerr == nil && addr.Equals(consumer.Addr)
			if accepted {
				e2eAccepted++
			} else {
				e2eRejected++
			}
			if !bytes.Equal(vh, baseHash) {
				if accepted {
					run.Violation("provider-accepts-other-hash", v.Sig, "provider check accepted a request whose content hash differs from the signed one", w)
				}
				continue
			}
			collisions[v.Sig]++
			w.Provider = fmt.Sprintf("verifyRelayRequestMetaData err=%v; ExtractConsumerAddress=%v err=%v; accepted=%v", perr, addr, aerr, accepted)
			w.SessionOf = "base"
			desc := fmt.Sprintf("two requests differing in hashed field(s) at %s have the same content hash (%s); the provider's verifyRelayRequestMetaData+signature check accepted the variant with the session signed for the base: %v. e.g. %s", v.Sig, v.How, accepted, fieldDiff(base, v.D))
			if v.Class == "single-field" {
				run.Violation("single-field-change-same-hash", v.Sig, desc, w)
			} else {
				run.Violation("boundary-shift", v.Sig, desc, w)
			}
			if len(collisions) <= 3 && collisions[v.Sig] == 1 {
				run.Sample(w)
			}
		}
		if i < 2 {
			run.Sample(map[string]any{"case": i, "base": base.String(), "variants": len(vs)})
		}
	}
	// reach: every hashed field mutated, every boundary tried, e2e path exercised
	for f := range hashedFields {
		run.Count("single-field pairs: "+f, mutated[f])
		run.Require("hashed field mutated on its own: "+f, mutated[f] > 0)
	}
	bnames := []string{"Metadata.Name|Metadata.Value", "Metadata.Value|Metadata.Name(next entry)", "Metadata|Extensions", "Extensions[i]|Extensions[i+1]", "Extensions|Addon", "Addon|ApiInterface", "ApiInterface|ConnectionType", "ConnectionType|ApiUrl", "ApiUrl|Data", "Data|RequestBlock|SeenBlock|Salt"}
	for _, b := range bnames {
		run.Count("boundary pairs: "+b, boundaries[b])
		run.Require("boundary exercised: "+b, boundaries[b] > 0)
	}
	ck := make([]string, 0, len(collisions))
	for k := range collisions {
		ck = append(ck, k)
	}
	sort.Strings(ck)
	for _, k := range ck {
		run.Count("colliding pairs: "+k, collisions[k])
	}
	run.Count("provider check: untouched request accepted", e2eSane)
	run.Count("provider check: variant accepted with the base's session", e2eAccepted)
	run.Count("provider check: variant rejected", e2eRejected)
	run.Require("provider-side check exercised on untouched requests", e2eSane > 0)
	run.Require("provider-side check rejected at least one variant (it does compare the hash)", e2eRejected > 0)
	run.Finish("PRNG relay requests built with the consumer's NewRelayData/ConstructRelayRequest; for each, (a) single-field variants of each of the ten hashed fields and (b) boundary-shift variants (k bytes moved across each pair of adjacent variable-length fields / list elements, and the Data|RequestBlock|SeenBlock|Salt window slid) — hashes of base and variant compared, and the base's signed session replayed with the variant through the provider's verifyRelayRequestMetaData + ExtractConsumerAddress; a pair is non-trivial when its two requests marshal differently and differ only in hashed fields; distinct = distinct (base, variant) byte pairs",
		nbase, "SHA-256 collisions are not expected among the generated inputs", "RequestId/TaskId/TxId are not covered by the statement")
}

func sameUnhashed(a, b *pairingtypes.RelayPrivateData) bool {
	return a.RequestId == b.RequestId && reflect.DeepEqual(a.XTaskId, b.XTaskId) && reflect.DeepEqual(a.XTxId, b.XTxId)
}

func clip(s string) string {
	if len(s) > 60 {
		return s[:60] + "…"
	}
	return s
}

// fieldDiff lists the fields in which two requests differ (for the violation text).
func fieldDiff(a, b *pairingtypes.RelayPrivateData) string {
	va, vb := reflect.ValueOf(*a), reflect.ValueOf(*b)
	var parts []string
	for i := 0; i < va.NumField(); i++ {
		if !reflect.DeepEqual(va.Field(i).Interface(), vb.Field(i).Interface()) {
			parts = append(parts, fmt.Sprintf("%s %s -> %s", va.Type().Field(i).Name, clip(fmt.Sprintf("%q", fmt.Sprint(va.Field(i).Interface()))), clip(fmt.Sprintf("%q", fmt.Sprint(vb.Field(i).Interface())))))
		}
	}
	return strings.Join(parts, "; ")
}
