//go:build verif

// C40 — on-chain pairing picks a provider for a slot with probability proportional to stake x geolocation score
// among the providers not yet picked; no positive-stake eligible provider is starved.
//
// The real scores package (CalcSlots, GroupSlots, CalcPairingScore, PickProviders, PrepareHashData) is run over M
// seeded epoch hashes per configuration exactly the way keeper.getPairingForClient drives it (score on the diff
// slot of consecutive slot groups, one hash per group). The reference is an independent enumeration of the
// sequential weighted draw without replacement with s_i(slot) = stake_i / latency(slot geo, provider geos).
// In the thorough tier the same oracle is applied to the keeper path (GetPairing over many epochs of a Tester chain).
package c40

import (
	"fmt"
	"math"
	"math/rand"
	"runtime"
	"sort"
	"strings"
	"sync"
	"testing"

	cosmosmath "cosmossdk.io/math"
	sdk "github.com/cosmos/cosmos-sdk/types"
	"github.com/lavanet/lava/v5/testutil/common"
	testkeeper "github.com/lavanet/lava/v5/testutil/keeper"
	"github.com/lavanet/lava/v5/utils"
	"github.com/lavanet/lava/v5/utils/sigs"
	epochstoragetypes "github.com/lavanet/lava/v5/x/epochstorage/types"
	"github.com/lavanet/lava/v5/x/pairing/keeper/scores"
	pairingtypes "github.com/lavanet/lava/v5/x/pairing/types"
	planstypes "github.com/lavanet/lava/v5/x/plans/types"
	"gonum.org/v1/gonum/stat/distuv"

	"verif/internal/ev"
	"verif/internal/vrand"
	"verif/proto/c35/gof"
)

const (
	mustAppearExp = 30.0
	denom         = "ulava"
)

var singleGeos = []int32{1, 2, 4, 8, 16, 32, 64} // USC EU USE USW AF AS AU

var geoName = map[int32]string{1: "USC", 2: "EU", 4: "USE", 8: "USW", 16: "AF", 32: "AS", 64: "AU", 65535: "GL"}

func geoStr(g int32) string {
	if n, ok := geoName[g]; ok {
		return n
	}
	parts := []string{}
	for _, b := range singleGeos {
		if g&b != 0 {
			parts = append(parts, geoName[b])
		}
	}
	return strings.Join(parts, "+")
}

// ---------------------------------------------------------------- configuration (JSON-able = witness)

type provider struct {
	Addr   string `json:"addr"`
	Stake  int64  `json:"stake"`
	Geo    int32  `json:"geolocation"`
	GeoStr string `json:"geolocation_names"`
}

type config struct {
	Index     int        `json:"config"`
	Path      string     `json:"path"` // scores | keeper
	Providers []provider `json:"providers"`
	PolicyGeo int32      `json:"policy_geolocation"`
	PolicyStr string     `json:"policy_geolocation_names"`
	K         int        `json:"providers_to_pair"`
	Hashes    int        `json:"hashes"`
	HashSeed  int64      `json:"hash_seed"`
	Ratio     float64    `json:"stake_ratio_max_over_min"`
	Project   string     `json:"project_index"`
	ChainID   string     `json:"chain_id"`
}

func logU(r *rand.Rand, lo, hi float64) float64 {
	return math.Exp(math.Log(lo) + r.Float64()*(math.Log(hi)-math.Log(lo)))
}

func genConfig(seed int64, stream string, idx, hashes int, maxStake float64) *config {
	r := vrand.Sub(seed, stream, idx)
	c := &config{Index: idx, Path: "scores", Hashes: hashes, Project: fmt.Sprintf("project-%d", r.Intn(1000)), ChainID: "LAV1"}
	n := 3 + r.Intn(5)
	c.K = 1 + r.Intn(n-1) // fewer slots than providers, otherwise the keeper returns everybody without drawing
	// policy geolocation: one geo, several geos (=> several slot groups), or global
	switch vrand.Weighted(r, []int{40, 30, 12, 18}) {
	case 0:
		c.PolicyGeo = vrand.Pick(r, singleGeos)
	case 1:
		p := r.Perm(len(singleGeos))
		c.PolicyGeo = singleGeos[p[0]] | singleGeos[p[1]]
	case 2:
		p := r.Perm(len(singleGeos))
		c.PolicyGeo = singleGeos[p[0]] | singleGeos[p[1]] | singleGeos[p[2]]
	case 3:
		c.PolicyGeo = int32(planstypes.Geolocation_GL)
	}
	c.PolicyStr = geoStr(c.PolicyGeo)
	// stakes: ratio max/min from 1:1 to 1:1000
	// stake ratio and geolocation mode are stratified over the config index (8 and 5 are coprime: every combination
	// occurs once per 40 configs), the rotation depends on the seed; everything else is drawn from the PRNG
	rot := vrand.New(seed, stream+"-rotation")
	ratios := []float64{1, 1, 2, 5, 10, 100, 1000, 1000}
	modes := []string{"all-match", "mixed", "mixed", "mixed", "none-match"}
	c.Ratio = ratios[(idx+rot.Intn(len(ratios)))%len(ratios)]
	geoMode := modes[(idx+rot.Intn(len(modes)))%len(modes)]
	base := logU(r, 1e6, maxStake/c.Ratio)
	first := planstypes.GetGeolocationsFromUint(c.PolicyGeo)[0]
	for i := 0; i < n; i++ {
		f := logU(r, 1, math.Max(c.Ratio, 1.0000001))
		if i == 0 || c.Ratio == 1 {
			f = 1
		}
		if i == 1 {
			f = c.Ratio
		}
		p := provider{Addr: fmt.Sprintf("lava@provider%02d", i), Stake: int64(base * f)}
		switch geoMode {
		case "all-match":
			p.Geo = c.PolicyGeo
			if r.Intn(3) == 0 {
				p.Geo = int32(planstypes.Geolocation_GL)
			}
		case "none-match":
			others := []int32{}
			for _, g := range singleGeos {
				if g&c.PolicyGeo == 0 {
					others = append(others, g)
				}
			}
			if len(others) == 0 {
				others = singleGeos
			}
			p.Geo = vrand.Pick(r, others)
		default:
			switch r.Intn(6) {
			case 0:
				p.Geo = int32(first)
			case 1:
				p.Geo = int32(planstypes.Geolocation_GL)
			case 2:
				q := r.Perm(len(singleGeos))
				p.Geo = singleGeos[q[0]] | singleGeos[q[1]]
			default:
				p.Geo = vrand.Pick(r, singleGeos)
			}
		}
		p.GeoStr = geoStr(p.Geo)
		c.Providers = append(c.Providers, p)
	}
	// list order is not part of the property: shuffle
	r.Shuffle(n, func(i, j int) { c.Providers[i], c.Providers[j] = c.Providers[j], c.Providers[i] })
	c.HashSeed = r.Int63()
	return c
}

// ---------------------------------------------------------------- reference: the property restated

// refGeoFactor is the geolocation score up to the common factor 10000: 1 when the provider serves the required
// geolocation, 1/latency to its nearest served geolocation in the latency table, 1/10000 when there is none.
func refGeoFactor(req int32, providerGeo int32) float64 {
	if req&^providerGeo == 0 {
		return 1
	}
	best := int64(10000)
	if row, ok := scores.GEO_LATENCY_MAP[planstypes.Geolocation(req)]; ok {
		for _, g := range planstypes.GetGeolocationsFromUint(providerGeo) {
			if l, ok := row[g]; ok && l < best {
				best = l
			}
		}
	}
	return 1 / float64(best)
}

type reference struct {
	n         int
	slotGeos  []int32     // required geolocation of each pick, in pick order
	w         [][]float64 // w[t][i] = stake_i * geo factor for pick t
	first     []float64   // P(pick 0 = i)
	marginal  [][]float64 // marginal[t][i] = P(pick t = i)
	inclusion []float64   // P(i picked at all)
	seq       map[string]float64
}

func seqKey(s []int) string {
	b := make([]byte, len(s))
	for i, v := range s {
		b[i] = byte('a' + v)
	}
	return string(b)
}

func buildReference(c *config, slotGeos []int32) *reference {
	n := len(c.Providers)
	ref := &reference{n: n, slotGeos: slotGeos, seq: map[string]float64{}, inclusion: make([]float64, n)}
	for _, g := range slotGeos {
		row := make([]float64, n)
		for i, p := range c.Providers {
			row[i] = float64(p.Stake) * refGeoFactor(g, p.Geo)
		}
		ref.w = append(ref.w, row)
		ref.marginal = append(ref.marginal, make([]float64, n))
	}
	cur := make([]int, 0, len(slotGeos))
	var rec func(t int, mask uint, pr float64)
	rec = func(t int, mask uint, pr float64) {
		if t == len(slotGeos) {
			ref.seq[seqKey(cur)] += pr
			return
		}
		tot := 0.0
		for i := 0; i < n; i++ {
			if mask&(1<<uint(i)) == 0 {
				tot += ref.w[t][i]
			}
		}
		for i := 0; i < n; i++ {
			if mask&(1<<uint(i)) != 0 {
				continue
			}
			q := pr * ref.w[t][i] / tot
			ref.marginal[t][i] += q
			ref.inclusion[i] += q
			cur = append(cur, i)
			rec(t+1, mask|1<<uint(i), q)
			cur = cur[:len(cur)-1]
		}
	}
	rec(0, 0, 1)
	ref.first = ref.marginal[0]
	return ref
}

// ---------------------------------------------------------------- observation + oracle

type violation struct {
	rule, sig, desc string
	witness         any
}

type result struct {
	cfg          *config
	viol         []violation
	nontrivial   bool
	sig          string
	fits         map[string]gof.Result
	counters     map[string]int
	classes      map[string]bool
	sample       any
	bias         []float64
	minP         float64
	inclBiasList []float64
}

type observed struct {
	first     []int64
	marginal  [][]int64
	inclusion []int64
	seq       map[string]int64
	m         int64
	short     int64 // hashes for which fewer providers than slots were returned
	dup       int64
	unknown   int64
}

func newObserved(n, k int) *observed {
	o := &observed{first: make([]int64, n), inclusion: make([]int64, n), seq: map[string]int64{}}
	for t := 0; t < k; t++ {
		o.marginal = append(o.marginal, make([]int64, n))
	}
	return o
}

func (o *observed) add(picks []int, k int) {
	o.m++
	if len(picks) != k {
		o.short++
	}
	seen := uint(0)
	for t, i := range picks {
		if i < 0 {
			o.unknown++
			continue
		}
		if seen&(1<<uint(i)) != 0 {
			o.dup++
		}
		seen |= 1 << uint(i)
		if t < len(o.marginal) {
			o.marginal[t][i]++
		}
		o.inclusion[i]++
	}
	if len(picks) > 0 && picks[0] >= 0 {
		o.first[picks[0]]++
	}
	if len(picks) == k && o.unknown == 0 {
		o.seq[seqKey(picks)]++
	}
}

func judge(c *config, ref *reference, o *observed) *result {
	res := &result{cfg: c, fits: map[string]gof.Result{}, counters: map[string]int{}, classes: map[string]bool{}, minP: 1}
	n, k := ref.n, len(ref.slotGeos)
	table := func() map[string]any {
		rows := []map[string]any{}
		for i, p := range c.Providers {
			rows = append(rows, map[string]any{"provider": p.Addr, "stake": p.Stake, "geo": p.GeoStr, "score_slot1": ref.w[0][i],
				"p_slot1": ref.first[i], "observed_slot1": o.first[i], "p_inclusion": ref.inclusion[i], "observed_inclusion": o.inclusion[i]})
		}
		sg := []string{}
		for _, g := range ref.slotGeos {
			sg = append(sg, geoStr(g))
		}
		return map[string]any{"config": c, "hashes": o.m, "slot_geos_in_pick_order": sg, "table": rows}
	}
	if o.short > 0 || o.dup > 0 || o.unknown > 0 {
		// a slot that stays empty (or is filled twice by the same provider) cannot have the stated fill probabilities;
		// the frequency and starvation oracles below still run on what was returned
		res.viol = append(res.viol, violation{"slots-not-filled-by-distinct-eligible-providers", c.Path,
			fmt.Sprintf("%d of %d hashes returned a provider count different from the %d slots, %d duplicates, %d unknown providers", o.short, o.m, k, o.dup, o.unknown), table()})
	}
	test := func(name, sigTail string, obs []int64, probs []float64) {
		f := gof.ChiSquare(obs, probs)
		res.fits[name] = f
		if f.DF < 1 {
			return
		}
		res.counters["gof_tests"]++
		res.bias = append(res.bias, f.RelBias50)
		if f.P < res.minP {
			res.minP = f.P
		}
		if f.Reject() {
			w := table()
			w["test"], w["fit"] = name, f
			res.viol = append(res.viol, violation{"pick-frequencies-inconsistent-with-stake-x-geo-score", sigTail,
				fmt.Sprintf("%s: X2=%.1f G=%.1f df=%d p=%.3g over %d hashes", name, f.Stat, f.G, f.DF, f.P, o.m), w})
		}
	}
	geoVaries := false
	for t := range ref.w {
		f0 := ref.w[t][0] / float64(c.Providers[0].Stake)
		for i := range ref.w[t] {
			if math.Abs(ref.w[t][i]/float64(c.Providers[i].Stake)-f0) > 1e-15 {
				geoVaries = true
			}
		}
	}
	cls := "equal-geo-scores"
	if geoVaries {
		cls = "unequal-geo-scores"
	}
	// (1) first slot vs s_i / sum s
	test("slot-1", c.Path+" | slot-1 | "+cls, o.first, ref.first)
	// (2) every later slot's marginal distribution (exact, from the enumeration)
	for t := 1; t < k; t++ {
		test(fmt.Sprintf("slot-%d-marginal", t+1), c.Path+" | later-slot | "+cls, o.marginal[t], ref.marginal[t])
	}
	// (3) the full ordered k-tuple distribution (small cells pooled) — this is the "among the providers not yet picked" part
	if k >= 2 && o.short == 0 && o.unknown == 0 {
		keys := make([]string, 0, len(ref.seq))
		for s := range ref.seq {
			keys = append(keys, s)
		}
		sort.Strings(keys)
		obs := make([]int64, len(keys))
		probs := make([]float64, len(keys))
		for i, s := range keys {
			obs[i], probs[i] = o.seq[s], ref.seq[s]
		}
		test("ordered-tuples", c.Path+" | ordered-tuples | "+cls, obs, probs)
	}
	// (4) inclusion frequency of every provider over the k slots: exact two-sided binomial test, Bonferroni over providers
	for i := range c.Providers {
		p := ref.inclusion[i]
		if p <= 0 || p >= 1 {
			continue
		}
		b := distuv.Binomial{N: float64(o.m), P: p}
		x := float64(o.inclusion[i])
		lower := b.CDF(x)
		upper := 1 - b.CDF(x-1)
		pv := math.Min(1, 2*math.Min(lower, upper))
		res.counters["inclusion_tests"]++
		if pv < res.minP {
			res.minP = pv
		}
		// smallest relative deviation of this provider's inclusion rate rejected with ~50% power at alpha/n
		zc := distuv.UnitNormal.Quantile(1 - gof.Alpha/(2*float64(n))) // two-sided critical z at alpha/n
		if p*float64(o.m) >= mustAppearExp {
			res.inclBiasList = append(res.inclBiasList, zc*math.Sqrt((1-p)/(float64(o.m)*p)))
		}
		if pv < gof.Alpha/float64(n) {
			w := table()
			w["test"] = "inclusion"
			res.viol = append(res.viol, violation{"pick-frequencies-inconsistent-with-stake-x-geo-score", c.Path + " | inclusion | " + cls,
				fmt.Sprintf("%s was paired in %d of %d hashes, exact without-replacement probability %.6g (expected %.1f), two-sided binomial p=%.3g",
					c.Providers[i].Addr, o.inclusion[i], o.m, p, p*float64(o.m), pv), w})
		}
		// (5) starvation: a positive-stake provider with expected count >= 30 must be paired at least once
		if c.Providers[i].Stake > 0 && p*float64(o.m) >= mustAppearExp && o.inclusion[i] == 0 {
			res.viol = append(res.viol, violation{"eligible-provider-never-paired", c.Path + " | " + cls,
				fmt.Sprintf("%s (stake %d) was never paired in %d hashes although its expected count is %.1f", c.Providers[i].Addr, c.Providers[i].Stake, o.m, p*float64(o.m)), table()})
		}
		if p*float64(o.m) >= mustAppearExp {
			res.counters["must_appear_checked"]++
		}
	}
	// classes of the workload actually exercised
	res.classes[cls] = true
	stakes := map[int64]bool{}
	for _, p := range c.Providers {
		stakes[p.Stake] = true
	}
	if len(stakes) > 1 {
		res.classes["unequal-stakes"] = true
	} else {
		res.classes["equal-stakes"] = true
	}
	if c.Ratio >= 1000 {
		res.classes["stake-ratio-1:1000"] = true
	}
	if k >= 2 {
		res.classes["several-slots"] = true
	} else {
		res.classes["single-slot"] = true
	}
	gs := map[int32]bool{}
	for _, g := range ref.slotGeos {
		gs[g] = true
	}
	if len(gs) > 1 {
		res.classes["several-slot-groups(multi-geo policy)"] = true
	}
	for _, p := range c.Providers {
		for _, g := range ref.slotGeos {
			switch f := refGeoFactor(g, p.Geo); {
			case f == 1:
				res.classes["geo-score:match"] = true
			case f == 1.0/10000:
				res.classes["geo-score:no-neighbour(1/10000)"] = true
			default:
				res.classes["geo-score:neighbour(1/latency)"] = true
			}
		}
	}
	res.classes["path:"+c.Path] = true
	// non-trivial: at least two providers had different slot-1 probabilities and the slot-1 test ran
	d := map[string]bool{}
	for _, p := range ref.first {
		d[fmt.Sprintf("%.12g", p)] = true
	}
	if len(d) >= 2 && res.fits["slot-1"].DF >= 1 {
		res.nontrivial = true
	}
	var b strings.Builder
	fmt.Fprintf(&b, "%s/%d/%d/", c.Path, c.PolicyGeo, k)
	for _, p := range c.Providers {
		fmt.Fprintf(&b, "%d@%d,", p.Stake, p.Geo)
	}
	res.sig = b.String()
	if c.Index < 3 {
		res.sample = map[string]any{"config": c.Index, "path": c.Path, "providers": c.Providers, "policy_geo": c.PolicyStr, "slots": k, "hashes": o.m,
			"p_slot1": ref.first, "observed_slot1": o.first, "p_inclusion": ref.inclusion, "observed_inclusion": o.inclusion, "fit_slot1": res.fits["slot-1"]}
	}
	return res
}

// ---------------------------------------------------------------- path 1: the scores package, driven like getPairingForClient

func stakeEntries(c *config) []epochstoragetypes.StakeEntry {
	out := make([]epochstoragetypes.StakeEntry, len(c.Providers))
	for i, p := range c.Providers {
		out[i] = epochstoragetypes.StakeEntry{
			Address: p.Addr, Vault: p.Addr, Chain: c.ChainID, Geolocation: p.Geo,
			Stake: sdk.NewCoin(denom, cosmosmath.NewInt(p.Stake)), DelegateTotal: sdk.NewCoin(denom, cosmosmath.ZeroInt()),
		}
	}
	return out
}

// slotLayout returns the geolocation required at each pick, in pick order. It is read from the real slot groups
// (group after group, the group's GeoReq); if the groups carry no geo requirement the layout documented in
// geo_req.go is used instead: slot i requires the (i mod G)-th geolocation of the policy, slots with the same
// requirement form one group, groups are filled in order of first appearance.
func slotLayout(groups []*scores.PairingSlotGroup, policyGeo int32, k int) (geos []int32, fromCode bool) {
	fromCode = true
	for _, g := range groups {
		gr, ok := g.Reqs["geo-req"].(scores.GeoReq)
		if !ok {
			fromCode = false
			break
		}
		for range g.Indexes() {
			geos = append(geos, gr.Geo)
		}
	}
	if fromCode && len(geos) == k {
		return geos, true
	}
	list := planstypes.GetGeolocationsFromUint(policyGeo)
	geos = geos[:0]
	for gi := 0; gi < len(list) && gi < k; gi++ {
		for i := gi; i < k; i += len(list) {
			geos = append(geos, int32(list[gi]))
		}
	}
	return geos, false
}

func runScores(c *config) (res *result) {
	defer func() {
		if r := recover(); r != nil {
			buf := make([]byte, 4096)
			buf = buf[:runtime.Stack(buf, false)]
			res = &result{cfg: c, counters: map[string]int{}, classes: map[string]bool{}, minP: 1}
			res.viol = append(res.viol, violation{"panic-in-pairing", c.Path, fmt.Sprint(r), map[string]any{"config": c, "stack": string(buf)}})
		}
	}()
	policy := planstypes.Policy{GeolocationProfile: c.PolicyGeo, MaxProvidersToPair: uint64(c.K)}
	slots := scores.CalcSlots(&policy)
	groups := scores.GroupSlots(slots)
	geos, fromCode := slotLayout(groups, c.PolicyGeo, c.K)
	ref := buildReference(c, geos)
	entries := stakeEntries(c)
	index := map[string]int{}
	for i, p := range c.Providers {
		index[p.Addr] = i
	}
	obs := newObserved(len(entries), len(geos))
	hr := rand.New(rand.NewSource(c.HashSeed))
	epochHash := make([]byte, 32)
	picks := make([]int, 0, len(geos))
	var ctx sdk.Context
	for h := 0; h < c.Hashes; h++ {
		hr.Read(epochHash)
		pscores := make([]*scores.PairingScore, len(entries))
		for j := range entries {
			// neutral reputation for everybody: only stake and geolocation may differ between providers
			pscores[j] = scores.NewPairingScore(&entries[j], pairingtypes.DefaultReputationPairingScore)
		}
		prev := scores.NewPairingSlotGroup(scores.NewPairingSlot(-1))
		picks = picks[:0]
		for idx, group := range groups {
			hashData := scores.PrepareHashData(c.Project, c.ChainID, epochHash, idx)
			diff := group.Subtract(prev)
			if err := scores.CalcPairingScore(pscores, scores.GetStrategy(), diff); err != nil {
				panic(fmt.Sprintf("CalcPairingScore: %v", err))
			}
			for _, e := range scores.PickProviders(ctx, pscores, group.Indexes(), hashData) {
				i, ok := index[e.Address]
				if !ok {
					i = -1
				}
				picks = append(picks, i)
			}
			prev = group
		}
		obs.add(picks, len(geos))
	}
	res = judge(c, ref, obs)
	res.counters["hashes"] += c.Hashes
	if !fromCode {
		res.counters["slot_layout_not_exposed_by_code(documented layout used)"]++
	}
	return res
}

// ---------------------------------------------------------------- path 2 (thorough): the keeper, GetPairing over many epochs

func runKeeper(t *testing.T, c *config) (res *result) {
	c.Path = "keeper"
	defer func() {
		if r := recover(); r != nil {
			buf := make([]byte, 4096)
			buf = buf[:runtime.Stack(buf, false)]
			res = &result{cfg: c, counters: map[string]int{}, classes: map[string]bool{}, minP: 1}
			res.viol = append(res.viol, violation{"panic-in-pairing", c.Path, fmt.Sprint(r), map[string]any{"config": c, "stack": string(buf)}})
		}
	}()
	ts := common.NewTester(t)
	// block header hashes (= epoch hashes) come from this reader: seed it from the run seed
	testkeeper.Randomizer = sigs.NewZeroReader(c.HashSeed)
	ts.DisableParticipationFees()
	vacc, _ := ts.AddAccount(common.VALIDATOR, 0, 1_000_000_000)
	ts.TxCreateValidator(vacc, cosmosmath.NewInt(1_000_000_000))
	plan := common.CreateMockPlan()
	plan.PlanPolicy.MaxProvidersToPair = uint64(c.K)
	plan.PlanPolicy.GeolocationProfile = c.PolicyGeo
	plan = ts.AddPlan("free", plan).Plan("free")
	spec := ts.AddSpec("mock", common.CreateMockSpec()).Spec("mock")
	c.ChainID = spec.Index
	ts.AdvanceEpoch()
	_, client := ts.AddAccount(common.CONSUMER, 0, 1_000_000_000_000)
	if _, err := ts.TxSubscriptionBuy(client, client, plan.Index, 1, true, false); err != nil {
		panic(err)
	}
	index := map[string]int{}
	for i := range c.Providers {
		acc, addr := ts.AddAccount(common.PROVIDER, i, c.Providers[i].Stake+1_000_000)
		d := common.MockDescription()
		if err := ts.StakeProviderExtra(acc.GetVaultAddr(), addr, spec, c.Providers[i].Stake, nil, c.Providers[i].Geo, d.Moniker, d.Identity, d.Website, d.SecurityContact, d.Details); err != nil {
			panic(err)
		}
		c.Providers[i].Addr = addr
		index[addr] = i
	}
	ts.AdvanceEpoch()
	// the stake the chain actually uses (effective stake of the entry), read back once
	all, err := ts.QueryPairingProviders(spec.Index, false)
	if err != nil {
		panic(err)
	}
	for _, e := range all.StakeEntry {
		if i, ok := index[e.Address]; ok {
			c.Providers[i].Stake = e.TotalStake().Int64()
		}
	}
	policy := planstypes.Policy{GeolocationProfile: c.PolicyGeo, MaxProvidersToPair: uint64(c.K)}
	geos, fromCode := slotLayout(scores.GroupSlots(scores.CalcSlots(&policy)), c.PolicyGeo, c.K)
	ref := buildReference(c, geos)
	obs := newObserved(len(c.Providers), len(geos))
	picks := make([]int, 0, len(geos))
	for h := 0; h < c.Hashes; h++ {
		pr, err := ts.QueryPairingGetPairing(spec.Index, client)
		if err != nil {
			panic(fmt.Sprintf("GetPairing at epoch #%d: %v", h, err))
		}
		picks = picks[:0]
		for _, e := range pr.Providers {
			i, ok := index[e.Address]
			if !ok {
				i = -1
			}
			picks = append(picks, i)
		}
		obs.add(picks, len(geos))
		ts.AdvanceEpoch()
	}
	res = judge(c, ref, obs)
	res.counters["keeper_epochs"] += c.Hashes
	if !fromCode {
		res.counters["slot_layout_not_exposed_by_code(documented layout used)"]++
	}
	return res
}

// ---------------------------------------------------------------- the check

func TestC40(t *testing.T) {
	run := ev.Start("C40")
	utils.SetGlobalLoggingLevel("fatal")
	testkeeper.SetFixedTime()
	nCfg := run.Pick(40, 400)
	hashes := run.Pick(50000, 200000)
	nKeeper := run.Pick(0, 6)
	keeperEpochs := 20000

	results := make([]*result, nCfg)
	var wg sync.WaitGroup
	next := make(chan int)
	for w := 0; w < min(8, runtime.GOMAXPROCS(0)); w++ {
		wg.Add(1)
		go func() {
			defer wg.Done()
			for k := range next {
				results[k] = runScores(genConfig(run.Seed, "c40-config", k, hashes, 1e11))
			}
		}()
	}
	for k := 0; k < nCfg; k++ {
		next <- k
	}
	close(next)
	wg.Wait()
	// keeper path: sequential (the Tester world uses package-level state)
	for k := 0; k < nKeeper; k++ {
		c := genConfig(run.Seed, "c40-keeper", k, keeperEpochs, 1e9)
		results = append(results, runKeeper(t, c))
	}

	classes := map[string]int{}
	var bias []float64
	minP := 1.0
	var inclBias []float64
	for _, res := range results {
		run.Eval(1)
		for k, v := range res.counters {
			run.Count(k, v)
		}
		for _, v := range res.viol {
			run.Violation(v.rule, v.sig, v.desc, v.witness)
		}
		if res.nontrivial {
			run.Nontrivial(res.sig)
		}
		if res.sample != nil {
			run.Sample(res.sample)
		}
		for k := range res.classes {
			classes[k]++
		}
		bias = append(bias, res.bias...)
		if res.minP < minP {
			minP = res.minP
		}
		inclBias = append(inclBias, res.inclBiasList...)
	}
	for k, v := range classes {
		run.Count("class_"+k, v)
	}
	need := []string{"unequal-stakes", "equal-stakes", "stake-ratio-1:1000", "unequal-geo-scores", "equal-geo-scores", "several-slots", "single-slot",
		"several-slot-groups(multi-geo policy)", "geo-score:match", "geo-score:neighbour(1/latency)", "geo-score:no-neighbour(1/10000)", "path:scores"}
	if run.Thorough() {
		need = append(need, "path:keeper")
	}
	for _, k := range need {
		run.Require("class exercised: "+k, classes[k] > 0)
	}
	run.Require("starvation oracle applied (providers with expected count >= 30)", run.Counter("must_appear_checked") > 0)
	mn, med, mx := gof.Quantiles(bias)
	imn, imed, imx := gof.Quantiles(inclBias)
	run.Set("statistics", map[string]any{
		"alpha": gof.Alpha, "hashes_per_config": hashes, "keeper_epochs_per_config": keeperEpochs,
		"tests":                              "per config: slot-1 frequencies vs s_i/sum s; each later slot's marginal; the full ordered k-tuple distribution (cells with expected < 10 pooled) — Pearson X2 and likelihood-ratio G, fires only if both p < alpha; per-provider inclusion count vs the exact without-replacement probability (exact two-sided binomial, p < alpha/n); every provider with expected inclusion count >= 30 paired at least once",
		"smallest_p_value_seen":              minP,
		"rel_bias_of_top_cell_detectable_50": map[string]float64{"best_test": mn, "median_test": med, "worst_test": mx},
		"rel_bias_of_inclusion_rate_detectable_50(providers with expected count >= 30)": map[string]float64{"best_provider": imn, "median_provider": imed, "worst_provider": imx},
		"power_note": "relative bias e of the most probable cell (p -> p(1+e)) rejected with ~50% probability: e = sqrt((crit(df,1e-9)-df)(1-p)/(M p)); e.g. 5 equal providers, M=50000: 6%; a provider holding 1/1000 of the score mass is only constrained to ~±90%",
	})
	run.Finish("generated pairing configurations (3-7 providers, stake ratios 1:1..1:1000 on bases 1e6..1e11 ulava, provider geolocations single/multi/global, policy geolocation single/2/3 geos/global => geo scores 1, 1/latency (42..263) and 1/10000, 1..n-1 slots in 1-7 slot groups, no mix filters, neutral reputation) run over M seeded epoch hashes through the real CalcSlots/GroupSlots/CalcPairingScore/PickProviders exactly as getPairingForClient drives them (thorough: also GetPairing over 20000 epochs of a Tester chain); reference = exact enumeration of the sequential draw without replacement with s_i = stake_i/latency_i(slot). evaluations = configurations. A configuration is non-trivial when at least two providers have different slot-1 probabilities and the slot-1 test had df >= 1; distinct = distinct (path, policy geo, slots, (stake, geolocation) list)",
		nCfg/2,
		"'stake' is the entry's effective stake (TotalStake; delegations are zero in the scores-path workload, read back from the chain in the keeper path)",
		"'geolocation score' = 10000/latency with latency 1 for a served geolocation, the GEO_LATENCY_MAP value of the nearest served neighbour, 10000 otherwise (geo_req.go)",
		"pick order and the geolocation required at each pick are read from the real slot groups; scores are compared up to a common factor",
		"reputation is neutral/equal for all providers (ReputationReq is not part of GetAllReqs on this tree)",
		"integer rounding of cumulative scores (RoundInt64) is below 1e-6 relative for stakes >= 1e6 ulava and is not resolved by the test")
}
