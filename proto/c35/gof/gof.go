//go:build verif

// Package gof holds the small goodness-of-fit helpers shared by the statistical checks C35 and C40.
// Everything is a pure function of its inputs, so a verdict is deterministic for a given sample.
package gof

import (
	"math"
	"sort"
	"sync"

	"gonum.org/v1/gonum/stat/distuv"
)

// Alpha is the rejection threshold of every test in C35 / C40: a test fires only when the p-value is below it.
const Alpha = 1e-9

// MinExpected is the smallest expected count a chi-square cell may have; smaller cells are pooled.
const MinExpected = 10.0

// Result of one goodness-of-fit test. Two statistics are computed on the same cells: Pearson's X2 and the
// likelihood-ratio G; both are asymptotically chi-square(df). Far in the tail (1e-9) Pearson over-penalises an
// excess in a small cell and G over-penalises a deficit, so the reported P is the LARGER of the two p-values:
// the test fires only when both statistics reject. That keeps the false-alarm rate at or below the nominal
// level for skewed multinomials while a real bias of the detectable size drives both far past the threshold.
type Result struct {
	Stat   float64 `json:"chi2"`
	G      float64 `json:"g"`
	DF     int     `json:"df"`
	P      float64 `json:"p"`
	N      int64   `json:"n"`
	Cells  int     `json:"cells"`
	Pooled int     `json:"pooled_cells"`
	// RelBias50 is the relative bias (p_i -> p_i(1+e), remaining cells rescaled) of the most probable cell
	// that this test would reject with about 50% probability (noncentrality = critical value - df).
	RelBias50 float64 `json:"rel_bias_detectable_top_cell"`
	// ImpossibleHit: a cell with probability 0 has a positive count (reported separately by the caller).
	ImpossibleHit int `json:"-"`
}

// Reject reports whether the fit is rejected at Alpha.
func (r Result) Reject() bool { return r.DF >= 1 && r.P < Alpha }

// ChiSquare tests counts against the probabilities probs (sum 1, entries may be 0). Cells whose expected
// count is below MinExpected are pooled into one cell (smallest first, until the pool itself is large
// enough). With fewer than two resulting cells there is nothing to test (DF = 0, P = 1).
func ChiSquare(counts []int64, probs []float64) Result {
	var n int64
	for _, c := range counts {
		n += c
	}
	res := Result{N: n, P: 1, ImpossibleHit: -1}
	type cell struct {
		e float64
		o int64
	}
	cells := make([]cell, 0, len(counts))
	for i := range counts {
		e := probs[i] * float64(n)
		if probs[i] <= 0 {
			if counts[i] > 0 && res.ImpossibleHit < 0 {
				res.ImpossibleHit = i
			}
			continue
		}
		cells = append(cells, cell{e, counts[i]})
	}
	sort.SliceStable(cells, func(i, j int) bool { return cells[i].e < cells[j].e })
	var pool cell
	k := 0
	for k < len(cells) && (cells[k].e < MinExpected || (pool.e > 0 && pool.e < MinExpected)) {
		pool.e += cells[k].e
		pool.o += cells[k].o
		k++
	}
	final := cells[k:]
	res.Pooled = k
	if k > 0 {
		if pool.e >= MinExpected || len(final) == 0 {
			final = append([]cell{pool}, final...)
		} else {
			// pool still too small and nothing small left: merge it into the smallest remaining cell
			final[0].e += pool.e
			final[0].o += pool.o
		}
	}
	res.Cells = len(final)
	if len(final) < 2 || n == 0 {
		return res
	}
	pmax := 0.0
	for _, c := range final {
		d := float64(c.o) - c.e
		res.Stat += d * d / c.e
		if c.o > 0 {
			res.G += 2 * float64(c.o) * math.Log(float64(c.o)/c.e)
		}
		if c.e/float64(n) > pmax {
			pmax = c.e / float64(n)
		}
	}
	res.DF = len(final) - 1
	dist := distuv.ChiSquared{K: float64(res.DF)}
	res.P = math.Max(dist.Survival(res.Stat), dist.Survival(math.Max(res.G, 0)))
	if pmax < 1 {
		res.RelBias50 = math.Sqrt((Critical(res.DF) - float64(res.DF)) * (1 - pmax) / (float64(n) * pmax))
	}
	return res
}

var (
	critMu    sync.Mutex
	critCache = map[int]float64{}
)

// Critical returns the chi-square value whose survival probability is Alpha for df degrees of freedom
// (bisection on the survival function).
func Critical(df int) float64 {
	critMu.Lock()
	defer critMu.Unlock()
	if v, ok := critCache[df]; ok {
		return v
	}
	d := distuv.ChiSquared{K: float64(df)}
	lo, hi := float64(df), float64(df)+100
	for d.Survival(hi) > Alpha {
		hi *= 2
	}
	for i := 0; i < 200; i++ {
		mid := (lo + hi) / 2
		if d.Survival(mid) > Alpha {
			lo = mid
		} else {
			hi = mid
		}
	}
	critCache[df] = hi
	return hi
}

// BinomTwoSidedZ tests one binomial count (k successes of n, success probability p) with the normal
// approximation and returns the z value and the two-sided p-value. Only meaningful when n*p*(1-p) is large;
// callers gate on that.
func BinomTwoSidedZ(k, n int64, p float64) (z, pv float64) {
	v := float64(n) * p * (1 - p)
	if v <= 0 {
		return 0, 1
	}
	z = (float64(k) - float64(n)*p) / math.Sqrt(v)
	pv = math.Erfc(math.Abs(z) / math.Sqrt2)
	return z, pv
}

// Quantiles returns min / median / max of xs (zeros when empty).
func Quantiles(xs []float64) (mn, med, mx float64) {
	if len(xs) == 0 {
		return 0, 0, 0
	}
	s := append([]float64(nil), xs...)
	sort.Float64s(s)
	return s[0], s[len(s)/2], s[len(s)-1]
}
