//go:build verif

// C35 — consumer-side weighted provider selection is fair and well-formed.
//
// The real WeightedSelector (CalculateProviderScores / CalculateScore / SelectProviderWithStats) and the real
// ProviderOptimizer (Append*RelayData, UpdateWeights, ChooseProviderWithStats) are driven with generated
// candidate sets; the oracles are
//   - selected address is a member of candidates minus ignored, and a selection is made whenever a non-ignored candidate has QoS data
//   - every weight handed to the draw lies in [minSelectionChance, 1]
//   - metamorphic pairs: availability up / latency down / sync down / stake up with everything else fixed
//     (other QoS fields, the other providers' stakes, the selector configuration and its adaptive P10-P90
//     bounds) never lowers the weight
//   - goodness of fit of N seeded draws against weight / sum(weights) (reject at p < 1e-9) and "every candidate
//     with expected count >= 30 appears".
//
// All randomness (workload and the selector's own PRNG, through the code's SetDeterministicSeed seam) derives
// from VERIF_SEED; the optimizer's clock is a virtual clock (NowFunc).
package c35

import (
	"context"
	"fmt"
	"math"
	"math/rand"
	"runtime"
	"sort"
	"strconv"
	"strings"
	"sync"
	"testing"
	"time"

	sdk "github.com/cosmos/cosmos-sdk/types"
	po "github.com/lavanet/lava/v5/protocol/provideroptimizer"
	"github.com/lavanet/lava/v5/utils"
	pairingtypes "github.com/lavanet/lava/v5/x/pairing/types"

	"verif/internal/ev"
	"verif/internal/vrand"
	"verif/proto/c35/gof"
)

const (
	monoTol       = 1e-12 // a "decrease" smaller than this is floating-point noise of math.Pow, not a decrease
	mustAppearExp = 30.0
	maxStake      = int64(1_000_000_000_000_000) // 1e15
)

var strategies = []po.Strategy{
	po.StrategyBalanced, po.StrategyLatency, po.StrategySyncFreshness, po.StrategyCost,
	po.StrategyPrivacy, po.StrategyAccuracy, po.StrategyDistributed,
}

// ---------------------------------------------------------------- workload description (JSON-able = witness)

type provSpec struct {
	Addr  string `json:"addr"`
	Avail string `json:"avail"` // decimal string, or "unparsable" (zero-value Dec)
	Lat   string `json:"lat"`
	Sync  string `json:"sync"`
	Data  string `json:"data"` // ok | missing (getter says not found) | nil (found, nil report)
	Class string `json:"class"`
	Stake int64  `json:"stake"`
}

type selCfg struct {
	Strategy    string     `json:"strategy"`
	StrategyID  int        `json:"strategy_id"`
	W           [4]float64 `json:"weights_avail_lat_sync_stake"`
	MinChance   float64    `json:"min_selection_chance"`
	AdLatMode   string     `json:"adaptive_latency"` // off | valid | invalid | nil-getter
	AdLat       [2]string  `json:"adaptive_latency_p10_p90"`
	AdSyncMode  string     `json:"adaptive_sync"`
	AdSync      [2]string  `json:"adaptive_sync_p10_p90"`
	adLat       [2]float64
	adSync      [2]float64
	StakeRegime string `json:"stake_regime"`
}

type config struct {
	Index    int        `json:"config"`
	Path     string     `json:"path"` // selector | optimizer
	Sel      selCfg     `json:"selector"`
	Provs    []provSpec `json:"providers"`
	Ignored  []string   `json:"ignored"`
	DrawSeed int64      `json:"draw_seed"`
	Draws    int        `json:"draws"`
	Feed     []feedOp   `json:"feed,omitempty"` // optimizer path: the relay / probe samples fed, in order
	Config   bool       `json:"configure_weighted_selector,omitempty"`
}

type feedOp struct {
	Prov    int     `json:"p"`
	Kind    string  `json:"k"` // probe-ok | probe-fail | relay-ok | relay-fail
	LatSec  float64 `json:"lat,omitempty"`
	CU      uint64  `json:"cu,omitempty"`
	Block   uint64  `json:"blk,omitempty"`
	AtMilli int64   `json:"t_ms"`
}

type violation struct {
	rule, sig, desc string
	witness         any
}

type monoPair struct {
	Dim    string  `json:"dim"`
	Regime string  `json:"regime"`
	From   string  `json:"from"`
	To     string  `json:"to"`
	W1     float64 `json:"weight_before"`
	W2     float64 `json:"weight_after"`
}

type result struct {
	cfg        *config
	viol       []violation
	inconcl    []string
	nontrivial bool
	sig        string
	fit        gof.Result
	tested     bool
	eligible   int
	counters   map[string]int
	sample     any
}

func (r *result) count(k string, n int) { r.counters[k] += n }

func fstr(f float64) string { return strconv.FormatFloat(f, 'g', -1, 64) }

func decStr(f float64) string { return strconv.FormatFloat(f, 'f', 18, 64) }

func parseDec(s string) sdk.Dec {
	if s == "unparsable" {
		return sdk.Dec{}
	}
	return sdk.MustNewDecFromStr(s)
}

func (p provSpec) report() *pairingtypes.QualityOfServiceReport {
	return &pairingtypes.QualityOfServiceReport{Availability: parseDec(p.Avail), Latency: parseDec(p.Lat), Sync: parseDec(p.Sync)}
}

func logU(r *rand.Rand, lo, hi float64) float64 {
	return math.Exp(math.Log(lo) + r.Float64()*(math.Log(hi)-math.Log(lo)))
}

var extremeVals = []string{
	"1000000000000000000000000000000.0", "-3.5", "0", "0.000000000000000001", "17.25", "999999999999.0", "-1000000000000.0", "1.000000000000000001",
}

func genQoS(r *rand.Rand, p *provSpec) {
	p.Data = "ok"
	switch vrand.Weighted(r, []int{55, 8, 8, 9, 9, 8, 3}) {
	case 0:
		p.Class = "normal"
		p.Avail, p.Lat, p.Sync = decStr(0.75+0.25*r.Float64()), decStr(logU(r, 0.001, 40)), decStr(logU(r, 0.05, 2000))
	case 1:
		p.Class = "perfect"
		p.Avail, p.Lat, p.Sync = "1", vrand.Pick(r, []string{"0", "0.001"}), "0"
	case 2:
		p.Class = "awful"
		p.Avail, p.Lat, p.Sync = decStr(0.8*r.Float64()), decStr(logU(r, 30, 1e4)), decStr(logU(r, 1200, 1e6))
	case 3:
		p.Class = "extreme"
		p.Avail, p.Lat, p.Sync = vrand.Pick(r, extremeVals), vrand.Pick(r, extremeVals), vrand.Pick(r, extremeVals)
	case 4:
		p.Class = "unparsable"
		p.Avail, p.Lat, p.Sync = decStr(0.75+0.25*r.Float64()), decStr(logU(r, 0.001, 40)), decStr(logU(r, 0.05, 2000))
		m := 1 + r.Intn(7)
		if m&1 != 0 {
			p.Avail = "unparsable"
		}
		if m&2 != 0 {
			p.Lat = "unparsable"
		}
		if m&4 != 0 {
			p.Sync = "unparsable"
		}
	case 5:
		p.Class, p.Data = "missing", "missing"
		p.Avail, p.Lat, p.Sync = "1", "1", "1"
	case 6:
		p.Class, p.Data = "nil-report", "nil"
		p.Avail, p.Lat, p.Sync = "1", "1", "1"
	}
}

func genStakes(r *rand.Rand, n int) (string, []int64) {
	out := make([]int64, n)
	regime := vrand.Pick(r, []string{"equal", "spread", "spread", "spread", "zeros-mixed", "whale", "all-zero", "tiny"})
	switch regime {
	case "equal":
		s := int64(logU(r, 1, 1e15))
		for i := range out {
			out[i] = s
		}
	case "spread":
		for i := range out {
			out[i] = int64(logU(r, 1, 1e15))
		}
	case "zeros-mixed":
		for i := range out {
			if r.Intn(3) != 0 {
				out[i] = int64(logU(r, 1, 1e15))
			}
		}
	case "whale":
		for i := range out {
			out[i] = int64(logU(r, 1, 1e6))
		}
		out[r.Intn(n)] = maxStake
	case "all-zero":
	case "tiny":
		for i := range out {
			out[i] = int64(r.Intn(4))
		}
	}
	for i := range out {
		if out[i] > maxStake {
			out[i] = maxStake
		}
	}
	return regime, out
}

func genSelCfg(r *rand.Rand) selCfg {
	var c selCfg
	sid := r.Intn(len(strategies))
	c.StrategyID, c.Strategy = sid, strategies[sid].String()
	def := po.DefaultWeightedSelectorConfig()
	c.W = [4]float64{def.AvailabilityWeight, def.LatencyWeight, def.SyncWeight, def.StakeWeight}
	if r.Intn(2) == 0 {
		scale := vrand.Pick(r, []float64{1, 1, 3, 0.2})
		for i := range c.W {
			c.W[i] = 0
			if r.Intn(4) != 0 {
				c.W[i] = r.Float64() * scale
			}
		}
	}
	if r.Intn(6) == 0 {
		// an invalid weight in one position (the selector must not let it act: negative weights would invert a metric)
		c.W[r.Intn(4)] = vrand.Pick(r, []float64{-0.2, -1, -0.05, math.NaN(), math.Inf(1)})
	}
	c.MinChance = vrand.Pick(r, []float64{0.01, 0.01, 0.01, 0.001, 0.05, 0.1, 0.3, 0.000001})
	adapt := func(lo, hi, spanLo, spanHi float64) (string, [2]float64) {
		switch vrand.Weighted(r, []int{40, 40, 16, 4}) {
		case 0:
			return "off", [2]float64{}
		case 1:
			p10 := logU(r, lo, hi)
			return "valid", [2]float64{p10, p10 + logU(r, spanLo, spanHi)}
		case 2:
			return "invalid", vrand.Pick(r, [][2]float64{
				{math.NaN(), 1}, {1, math.NaN()}, {math.Inf(1), 1}, {1, math.Inf(1)}, {0, 3}, {-1, 3}, {5, 5}, {7, 2}, {2, -4},
			})
		}
		return "nil-getter", [2]float64{}
	}
	c.AdLatMode, c.adLat = adapt(0.001, 5, 0.01, 30)
	c.AdSyncMode, c.adSync = adapt(0.1, 60, 1, 1200)
	c.AdLat = [2]string{fstr(c.adLat[0]), fstr(c.adLat[1])}
	c.AdSync = [2]string{fstr(c.adSync[0]), fstr(c.adSync[1])}
	return c
}

func (c selCfg) build() *po.WeightedSelector {
	wc := po.WeightedSelectorConfig{
		AvailabilityWeight: c.W[0], LatencyWeight: c.W[1], SyncWeight: c.W[2], StakeWeight: c.W[3],
		MinSelectionChance: c.MinChance, Strategy: strategies[c.StrategyID],
	}
	if c.AdLatMode != "off" {
		wc.UseAdaptiveLatencyMax = true
		if c.AdLatMode != "nil-getter" {
			b := c.adLat
			wc.AdaptiveLatencyGetter = func() (float64, float64) { return b[0], b[1] }
		}
	}
	if c.AdSyncMode != "off" {
		wc.UseAdaptiveSyncMax = true
		if c.AdSyncMode != "nil-getter" {
			b := c.adSync
			wc.AdaptiveSyncGetter = func() (float64, float64) { return b[0], b[1] }
		}
	}
	return po.NewWeightedSelector(wc)
}

func genIgnored(r *rand.Rand, addrs []string) []string {
	n := len(addrs)
	var k int
	switch vrand.Weighted(r, []int{30, 40, 18, 6}) {
	case 0:
		k = 0
	case 1:
		k = 1 + r.Intn(max(1, n/3))
	case 2:
		k = n - 1 - r.Intn(2)
	case 3:
		k = n
	}
	perm := r.Perm(n)
	out := []string{}
	for i := 0; i < k && i < n; i++ {
		out = append(out, addrs[perm[i]])
	}
	if r.Intn(8) == 0 {
		out = append(out, "lava@not_a_candidate")
	}
	sort.Strings(out)
	return out
}

func genConfig(seed int64, idx, draws int) *config {
	r := vrand.Sub(seed, "c35-config", idx)
	c := &config{Index: idx, Path: "selector", Draws: draws}
	n := 2 + r.Intn(29)
	if r.Intn(5) == 0 {
		n = 2 + r.Intn(3)
	}
	c.Sel = genSelCfg(r)
	regime, stakes := genStakes(r, n)
	c.Sel.StakeRegime = regime
	addrs := make([]string, n)
	for i := 0; i < n; i++ {
		p := provSpec{Addr: fmt.Sprintf("lava@prov_%02d", i), Stake: stakes[i]}
		genQoS(r, &p)
		addrs[i] = p.Addr
		c.Provs = append(c.Provs, p)
	}
	c.Ignored = genIgnored(r, addrs)
	c.DrawSeed = r.Int63()
	return c
}

// ---------------------------------------------------------------- shared oracle over one batch of draws

type drawOracle struct {
	res      *result
	cfg      *config
	allowed  map[string]bool // candidates minus ignored
	eligible int             // non-ignored candidates that have QoS data
	minCh    float64
}

func (c *config) sets() (all []string, ignored map[string]struct{}, allowed map[string]bool) {
	ignored = map[string]struct{}{}
	for _, a := range c.Ignored {
		ignored[a] = struct{}{}
	}
	allowed = map[string]bool{}
	for _, p := range c.Provs {
		all = append(all, p.Addr)
		if _, ig := ignored[p.Addr]; !ig {
			allowed[p.Addr] = true
		}
	}
	return
}

// checkWeights: every weight handed to the draw must be in [minSelectionChance, 1].
func (o *drawOracle) checkWeights(scores []po.ProviderScore, classOf map[string]string) {
	for _, s := range scores {
		w := s.SelectionWeight
		kind := ""
		switch {
		case math.IsNaN(w):
			kind = "NaN"
		case w < o.minCh:
			kind = "below-min"
		case w > 1:
			kind = "above-1"
		}
		o.res.count("weights_checked", 1)
		if w == o.minCh {
			o.res.count("weights_at_min_clamp", 1)
		}
		if kind != "" {
			o.res.viol = append(o.res.viol, violation{"weight-out-of-bounds", kind + " | " + o.cfg.Path + " | qos=" + classOf[s.Address],
				fmt.Sprintf("weight %v of %s is outside [%v, 1]", w, s.Address, o.minCh), map[string]any{"config": o.cfg, "address": s.Address, "weight": fstr(w)}})
		}
	}
}

// judge runs the membership / always-selects / goodness-of-fit / must-appear oracles on the counts of a batch.
func (o *drawOracle) judge(scores []po.ProviderScore, counts map[string]int64, empties int64) {
	res, cfg := o.res, o.cfg
	res.eligible = o.eligible
	for a, k := range counts {
		if !o.allowed[a] {
			why := "ignored"
			if _, isCand := o.allowedOrIgnored()[a]; !isCand {
				why = "not-a-candidate"
			}
			res.viol = append(res.viol, violation{"selected-outside-candidates-minus-ignored", why + " | " + cfg.Path,
				fmt.Sprintf("%q was selected %d times although it is %s", a, k, why), map[string]any{"config": cfg, "selected": a, "times": k}})
		}
	}
	if o.eligible > 0 && empties > 0 {
		res.viol = append(res.viol, violation{"no-selection-although-candidate-has-qos", cfg.Path,
			fmt.Sprintf("%d of %d draws returned no provider although %d non-ignored candidates have QoS data", empties, cfg.Draws, o.eligible),
			map[string]any{"config": cfg, "empty_draws": empties}})
	}
	if len(scores) < 2 {
		return
	}
	total := 0.0
	for _, s := range scores {
		total += s.SelectionWeight
	}
	if !(total > 0) || math.IsNaN(total) || math.IsInf(total, 0) {
		return // weights themselves are reported by checkWeights; no distribution to compare with
	}
	probs := make([]float64, len(scores))
	obs := make([]int64, len(scores))
	distinctW := map[float64]bool{}
	var n int64
	for i, s := range scores {
		probs[i] = s.SelectionWeight / total
		obs[i] = counts[s.Address]
		n += obs[i]
		distinctW[s.SelectionWeight] = true
	}
	res.fit = gof.ChiSquare(obs, probs)
	res.tested = res.fit.DF >= 1
	wit := func() map[string]any {
		rows := []map[string]any{}
		for i, s := range scores {
			rows = append(rows, map[string]any{"addr": s.Address, "weight": fstr(s.SelectionWeight), "expected": probs[i] * float64(n), "observed": obs[i]})
		}
		return map[string]any{"config": cfg, "table": rows, "fit": res.fit}
	}
	if res.fit.Reject() {
		// signature: which end of the candidate list is over-selected tells cumulative-loop defects apart
		worst, wi := 0.0, 0
		for i := range obs {
			e := probs[i] * float64(n)
			if d := (float64(obs[i]) - e) / math.Sqrt(e); math.Abs(d) > math.Abs(worst) {
				worst, wi = d, i
			}
		}
		pos := "middle"
		if wi == 0 {
			pos = "first"
		} else if wi == len(obs)-1 {
			pos = "last"
		}
		dir := "over"
		if worst < 0 {
			dir = "under"
		}
		res.viol = append(res.viol, violation{"frequencies-inconsistent-with-weights", cfg.Path + " | " + pos + "-candidate-" + dir + "-selected",
			fmt.Sprintf("X2=%.1f G=%.1f df=%d p=%.3g over %d draws; candidate #%d (%s) deviates by %.1f sigma", res.fit.Stat, res.fit.G, res.fit.DF, res.fit.P, n, wi, scores[wi].Address, worst), wit()})
	}
	for i, s := range scores {
		if probs[i]*float64(n) >= mustAppearExp && obs[i] == 0 {
			res.viol = append(res.viol, violation{"candidate-never-selected", cfg.Path,
				fmt.Sprintf("%s has weight share %.4g (expected %.1f selections in %d draws) but was never selected", s.Address, probs[i], probs[i]*float64(n), n), wit()})
		}
	}
	if len(distinctW) >= 2 && res.tested {
		res.nontrivial = true
	}
}

func (o *drawOracle) allowedOrIgnored() map[string]bool {
	m := map[string]bool{}
	for _, p := range o.cfg.Provs {
		m[p.Addr] = true
	}
	return m
}

// ---------------------------------------------------------------- path 1: WeightedSelector

func runSelector(seed int64, cfg *config, pairsPerDim int) *result {
	res := &result{cfg: cfg, counters: map[string]int{}}
	defer recoverInto(res, cfg)
	ws := cfg.Sel.build()
	ws.SetDeterministicSeed(cfg.DrawSeed)
	all, ignored, allowed := cfg.sets()
	byAddr := map[string]provSpec{}
	classOf := map[string]string{}
	eligible := 0
	for _, p := range cfg.Provs {
		byAddr[p.Addr] = p
		classOf[p.Addr] = p.Class
		if allowed[p.Addr] && p.Data == "ok" {
			eligible++
		}
	}
	getter := func(a string) (*pairingtypes.QualityOfServiceReport, time.Time, bool) {
		p := byAddr[a]
		switch p.Data {
		case "missing":
			return nil, time.Time{}, false
		case "nil":
			return nil, time.Time{}, true
		}
		return p.report(), time.Time{}, true
	}
	stakeGetter := func(a string) int64 { return byAddr[a].Stake }

	scores, _, details := ws.CalculateProviderScores(all, ignored, getter, stakeGetter)
	o := &drawOracle{res: res, cfg: cfg, allowed: allowed, eligible: eligible, minCh: cfg.Sel.MinChance}
	o.checkWeights(scores, classOf)
	if eligible > 0 && len(scores) == 0 {
		res.viol = append(res.viol, violation{"no-selection-although-candidate-has-qos", "selector | no-candidate-scored",
			"CalculateProviderScores returned no candidate although a non-ignored candidate has QoS data", map[string]any{"config": cfg}})
	}
	counts := map[string]int64{}
	var empties int64
	ctx := context.Background()
	draws := cfg.Draws
	if eligible == 0 {
		draws = 3
		res.count("configs_without_eligible_candidate", 1)
	}
	for d := 0; d < draws; d++ {
		sel, _ := ws.SelectProviderWithStats(ctx, scores, details)
		if sel == "" {
			empties++
		} else {
			counts[sel]++
		}
	}
	res.count("draws", draws)
	o.judge(scores, counts, empties)
	res.sig = cfgSignature(cfg, scores)
	if cfg.Index < 2 {
		res.sample = map[string]any{"config": cfg.Index, "path": "selector", "candidates": len(all), "ignored": len(cfg.Ignored), "scored": len(scores),
			"strategy": cfg.Sel.Strategy, "fit": res.fit}
	}
	monotonicity(seed, cfg, ws, res, pairsPerDim, byAddr, all, ignored, getter)
	return res
}

func cfgSignature(cfg *config, scores []po.ProviderScore) string {
	var b strings.Builder
	fmt.Fprintf(&b, "%s/%s/%v/%v/", cfg.Path, cfg.Sel.Strategy, cfg.Sel.W, cfg.Sel.MinChance)
	for _, s := range scores {
		fmt.Fprintf(&b, "%s=%s,", s.Address, fstr(s.SelectionWeight))
	}
	return b.String()
}

func recoverInto(res *result, cfg *config) {
	if r := recover(); r != nil {
		buf := make([]byte, 4096)
		buf = buf[:runtime.Stack(buf, false)]
		msg := fmt.Sprint(r)
		short := msg
		if len(short) > 60 {
			short = short[:60]
		}
		res.viol = append(res.viol, violation{"panic-instead-of-selection", cfg.Path + " | " + short, msg, map[string]any{"config": cfg, "stack": string(buf)}})
	}
}

// ---------------------------------------------------------------- metamorphic monotonicity

func regimeOf(mode string) string {
	if mode == "valid" {
		return "adaptive-p10-p90"
	}
	return "fixed-max(" + mode + ")"
}

func monotonicity(seed int64, cfg *config, ws *po.WeightedSelector, res *result, pairs int, byAddr map[string]provSpec, all []string,
	ignored map[string]struct{}, getter func(string) (*pairingtypes.QualityOfServiceReport, time.Time, bool),
) {
	r := vrand.Sub(seed, "c35-mono", cfg.Index)
	check := func(dim, regime, from, to string, w1, w2 float64, extra any) {
		res.count("mono_pairs_"+dim, 1)
		if w2 > w1 {
			res.count("mono_strict_increase_"+dim, 1)
		}
		if w2 < w1-monoTol || math.IsNaN(w1) || math.IsNaN(w2) {
			res.viol = append(res.viol, violation{"weight-decreases-when-metric-improves", dim + " | " + regime + " | strategy=" + cfg.Sel.Strategy,
				fmt.Sprintf("%s improved %s -> %s with everything else fixed, weight went %v -> %v", dim, from, to, w1, w2),
				map[string]any{"selector": cfg.Sel, "pair": monoPair{dim, regime, from, to, w1, w2}, "fixed": extra}})
		}
	}
	// a parsable, non-negative value for the varied field; the other fields may be anything (they stay fixed)
	anyField := func(kind int) string {
		var p provSpec
		genQoS(r, &p)
		return [3]string{p.Avail, p.Lat, p.Sync}[kind]
	}
	delta := func(span float64) float64 { return logU(r, 1e-9, 1) * span }
	for j := 0; j < pairs; j++ {
		stake := int64(logU(r, 1, 1e15))
		if r.Intn(6) == 0 {
			stake = 0
		}
		total := stake + int64(logU(r, 1, 2.9e16))
		sc, tc := sdk.NewCoin("ulava", sdk.NewInt(stake)), sdk.NewCoin("ulava", sdk.NewInt(total))
		fixed := map[string]any{"stake": stake, "total_stake": total}

		// availability up
		{
			a1 := r.Float64() * 1.02
			if r.Intn(3) == 0 {
				a1 = 0.78 + 0.24*r.Float64()
			}
			a2 := a1 + delta(1.05-a1+0.01)
			q1 := &pairingtypes.QualityOfServiceReport{Availability: parseDec(decStr(a1)), Latency: parseDec(anyField(1)), Sync: parseDec(anyField(2))}
			q2 := &pairingtypes.QualityOfServiceReport{Availability: parseDec(decStr(a2)), Latency: q1.Latency, Sync: q1.Sync}
			fixed["latency"], fixed["sync"] = q1.Latency.String(), q1.Sync.String()
			check("availability-up", "threshold-rescale", decStr(a1), decStr(a2), ws.CalculateScore(q1, sc, tc, "p"), ws.CalculateScore(q2, sc, tc, "p"), fixed)
		}
		// latency down
		{
			l2 := logU(r, 1e-4, 45)
			if r.Intn(8) == 0 {
				l2 = 0
			}
			l1 := l2 + delta(45)
			q1 := &pairingtypes.QualityOfServiceReport{Availability: parseDec(anyField(0)), Latency: parseDec(decStr(l1)), Sync: parseDec(anyField(2))}
			q2 := &pairingtypes.QualityOfServiceReport{Availability: q1.Availability, Latency: parseDec(decStr(l2)), Sync: q1.Sync}
			f := map[string]any{"stake": stake, "total_stake": total, "availability": q1.Availability.String(), "sync": q1.Sync.String()}
			check("latency-down", regimeOf(cfg.Sel.AdLatMode), decStr(l1), decStr(l2), ws.CalculateScore(q1, sc, tc, "p"), ws.CalculateScore(q2, sc, tc, "p"), f)
		}
		// sync lag down
		{
			s2 := logU(r, 1e-3, 2000)
			if r.Intn(8) == 0 {
				s2 = 0
			}
			s1 := s2 + delta(2000)
			q1 := &pairingtypes.QualityOfServiceReport{Availability: parseDec(anyField(0)), Latency: parseDec(anyField(1)), Sync: parseDec(decStr(s1))}
			q2 := &pairingtypes.QualityOfServiceReport{Availability: q1.Availability, Latency: q1.Latency, Sync: parseDec(decStr(s2))}
			f := map[string]any{"stake": stake, "total_stake": total, "availability": q1.Availability.String(), "latency": q1.Latency.String()}
			check("sync-down", regimeOf(cfg.Sel.AdSyncMode), decStr(s1), decStr(s2), ws.CalculateScore(q1, sc, tc, "p"), ws.CalculateScore(q2, sc, tc, "p"), f)
		}
		// stake up, total stake fixed (CalculateScore level)
		{
			q := &pairingtypes.QualityOfServiceReport{Availability: parseDec(anyField(0)), Latency: parseDec(anyField(1)), Sync: parseDec(anyField(2))}
			s2 := stake + 1 + int64(delta(float64(maxStake-stake)))
			if s2 > maxStake {
				s2 = maxStake
			}
			if s2 > stake {
				tot := total
				if tot < s2 {
					tot = s2
				}
				tcc := sdk.NewCoin("ulava", sdk.NewInt(tot))
				f := map[string]any{"total_stake": tot, "availability": q.Availability.String(), "latency": q.Latency.String(), "sync": q.Sync.String()}
				check("stake-up", "total-stake-fixed", strconv.FormatInt(stake, 10), strconv.FormatInt(s2, 10),
					ws.CalculateScore(q, sdk.NewCoin("ulava", sdk.NewInt(stake)), tcc, "p"), ws.CalculateScore(q, sdk.NewCoin("ulava", sdk.NewInt(s2)), tcc, "p"), f)
			}
		}
	}
	// dense sweeps: each metric walks a fine grid from bad to good with everything else fixed, so that a step of the
	// weight function at ANY point of the range (thresholds of the normalisation and of the strategy adjustments) lies
	// between two neighbouring grid points
	{
		stake := int64(logU(r, 1, 1e15))
		total := stake + int64(logU(r, 1, 2.9e16))
		sc, tc := sdk.NewCoin("ulava", sdk.NewInt(stake)), sdk.NewCoin("ulava", sdk.NewInt(total))
		av, lat, syn := parseDec(decStr(0.9+0.1*r.Float64())), parseDec(decStr(logU(r, 1e-3, 5))), parseDec(decStr(logU(r, 1e-2, 300)))
		if r.Intn(3) == 0 {
			av, lat, syn = parseDec(anyField(0)), parseDec(anyField(1)), parseDec(anyField(2))
		}
		sweep := func(dim, regime string, n int, at func(i int) (*pairingtypes.QualityOfServiceReport, string), fixed map[string]any) {
			prevW, prevL := math.NaN(), ""
			for i := 0; i < n; i++ {
				q, label := at(i)
				w := ws.CalculateScore(q, sc, tc, "p")
				if i > 0 {
					check(dim, regime, prevL, label, prevW, w, fixed)
				}
				prevW, prevL = w, label
			}
		}
		const nSync, nLat, nAv = 500, 460, 210
		off := r.Float64() // the grid is shifted per configuration
		sweep("sync-down", regimeOf(cfg.Sel.AdSyncMode), nSync, func(i int) (*pairingtypes.QualityOfServiceReport, string) {
			v := float64(nSync-1-i)*4 + 4*off // 2000 s .. 0 s in 4 s steps
			if i == nSync-1 {
				v = 0
			}
			return &pairingtypes.QualityOfServiceReport{Availability: av, Latency: lat, Sync: parseDec(decStr(v))}, decStr(v)
		}, map[string]any{"stake": stake, "total_stake": total, "availability": av.String(), "latency": lat.String(), "sweep": true})
		sweep("latency-down", regimeOf(cfg.Sel.AdLatMode), nLat, func(i int) (*pairingtypes.QualityOfServiceReport, string) {
			v := float64(nLat-1-i)*0.1 + 0.1*off // 46 s .. 0 s in 0.1 s steps
			if i == nLat-1 {
				v = 0
			}
			return &pairingtypes.QualityOfServiceReport{Availability: av, Latency: parseDec(decStr(v)), Sync: syn}, decStr(v)
		}, map[string]any{"stake": stake, "total_stake": total, "availability": av.String(), "sync": syn.String(), "sweep": true})
		sweep("availability-up", "threshold-rescale", nAv, func(i int) (*pairingtypes.QualityOfServiceReport, string) {
			v := (float64(i) + off) * 0.005 // 0 .. 1.05 in 0.005 steps
			return &pairingtypes.QualityOfServiceReport{Availability: parseDec(decStr(v)), Latency: lat, Sync: syn}, decStr(v)
		}, map[string]any{"stake": stake, "total_stake": total, "latency": lat.String(), "sync": syn.String(), "sweep": true})
	}
	// stake up with the OTHER providers' stakes fixed (so the total grows with it), through CalculateProviderScores
	cands := []string{}
	for _, a := range all {
		if _, ig := ignored[a]; !ig && byAddr[a].Data == "ok" && byAddr[a].Stake < maxStake {
			cands = append(cands, a)
		}
	}
	for j := 0; j < pairs && len(cands) > 0; j++ {
		a := vrand.Pick(r, cands)
		s1 := byAddr[a].Stake
		s2 := s1 + 1 + int64(delta(float64(maxStake-s1)))
		if s2 > maxStake {
			s2 = maxStake
		}
		weightOf := func(st int64) float64 {
			sc, _, _ := ws.CalculateProviderScores(all, ignored, getter, func(x string) int64 {
				if x == a {
					return st
				}
				return byAddr[x].Stake
			})
			for _, s := range sc {
				if s.Address == a {
					return s.SelectionWeight
				}
			}
			return math.NaN()
		}
		check("stake-up", "other-stakes-fixed", strconv.FormatInt(s1, 10), strconv.FormatInt(s2, 10), weightOf(s1), weightOf(s2),
			map[string]any{"provider": a, "providers": cfg.Provs})
	}
}

// ---------------------------------------------------------------- path 2: ProviderOptimizer.ChooseProvider

var virtualEpoch = time.Date(2200, 1, 1, 0, 0, 0, 0, time.UTC)

func genOptimizerConfig(seed int64, idx, draws int) *config {
	r := vrand.Sub(seed, "c35-optimizer", idx)
	c := &config{Index: idx, Path: "optimizer", Draws: draws}
	n := 2 + r.Intn(11)
	c.Sel = genSelCfg(r)
	c.Sel.AdLatMode, c.Sel.AdSyncMode = "optimizer-default-off", "optimizer-default-off"
	c.Config = r.Intn(2) == 0
	if c.Config {
		c.Sel.AdLatMode, c.Sel.AdSyncMode = "optimizer-tdigest", "optimizer-tdigest"
	} else {
		def := po.DefaultWeightedSelectorConfig()
		c.Sel.W = [4]float64{def.AvailabilityWeight, def.LatencyWeight, def.SyncWeight, def.StakeWeight}
		c.Sel.MinChance = def.MinSelectionChance
	}
	regime, stakes := genStakes(r, n)
	c.Sel.StakeRegime = regime
	addrs := make([]string, n)
	for i := 0; i < n; i++ {
		c.Provs = append(c.Provs, provSpec{Addr: fmt.Sprintf("lava@opt_%02d", i), Stake: stakes[i], Data: "ok", Class: "fed"})
		addrs[i] = c.Provs[i].Addr
	}
	// samples: all within 30 virtual minutes (half-life stays at its 1h default), sync blocks never go back per provider
	t := int64(0)
	block := uint64(1000 + r.Intn(1000))
	for i := 0; i < n; i++ {
		if r.Intn(7) == 0 {
			c.Provs[i].Class = "never-seen(default-qos)"
			continue
		}
		quality := vrand.Pick(r, []string{"good", "good", "slow", "flaky", "lagging", "mixed"})
		c.Provs[i].Class = quality
		lat := func() float64 {
			switch quality {
			case "slow":
				return logU(r, 0.5, 20)
			case "mixed":
				return logU(r, 0.001, 20)
			}
			return logU(r, 0.005, 0.4)
		}
		t += 1 + int64(r.Intn(2000))
		c.Feed = append(c.Feed, feedOp{Prov: i, Kind: "probe-ok", LatSec: lat(), AtMilli: t})
		provBlock := block
		for m := r.Intn(11); m > 0; m-- {
			t += 1 + int64(r.Intn(9000))
			op := feedOp{Prov: i, AtMilli: t, LatSec: lat(), CU: uint64(10 * (1 + r.Intn(20)))}
			failP := 10
			if quality == "flaky" {
				failP = 2
			}
			switch {
			case r.Intn(failP) == 0:
				op.Kind = vrand.Pick(r, []string{"relay-fail", "probe-fail"})
			case r.Intn(4) == 0:
				op.Kind = "probe-ok"
			default:
				op.Kind = "relay-ok"
				block += uint64(r.Intn(3))
				if quality == "lagging" {
					if block > provBlock+uint64(r.Intn(30)) {
						provBlock += uint64(r.Intn(2))
					}
				} else {
					provBlock = block
				}
				op.Block = provBlock
			}
			c.Feed = append(c.Feed, op)
		}
	}
	c.Ignored = genIgnored(r, addrs)
	c.DrawSeed = r.Int63()
	return c
}

func runOptimizer(seed int64, cfg *config) *result {
	res := &result{cfg: cfg, counters: map[string]int{}}
	defer recoverInto(res, cfg)
	strategy := strategies[cfg.Sel.StrategyID]
	opt := po.NewProviderOptimizer(strategy, 10*time.Second, 1, nil, "LAV1")
	clock := virtualEpoch
	opt.NowFunc = func() time.Time { return clock }
	if cfg.Config {
		opt.ConfigureWeightedSelector(po.WeightedSelectorConfig{
			AvailabilityWeight: cfg.Sel.W[0], LatencyWeight: cfg.Sel.W[1], SyncWeight: cfg.Sel.W[2], StakeWeight: cfg.Sel.W[3], MinSelectionChance: cfg.Sel.MinChance,
		})
	}
	opt.SetDeterministicSeed(cfg.DrawSeed)
	all, ignored, allowed := cfg.sets()
	stakes := map[string]int64{}
	classOf := map[string]string{}
	for _, p := range cfg.Provs {
		stakes[p.Addr] = p.Stake
		classOf[p.Addr] = p.Class
	}
	opt.UpdateWeights(stakes, 1)
	seen := map[int]bool{}
	for _, op := range cfg.Feed {
		clock = virtualEpoch.Add(time.Duration(op.AtMilli) * time.Millisecond)
		addr := cfg.Provs[op.Prov].Addr
		lat := time.Duration(op.LatSec * float64(time.Second))
		switch op.Kind {
		case "probe-ok":
			opt.AppendProbeRelayData(addr, lat, true)
		case "probe-fail":
			opt.AppendProbeRelayData(addr, lat, false)
		case "relay-ok":
			opt.AppendRelayData(addr, lat, op.CU, op.Block)
		case "relay-fail":
			opt.AppendRelayFailure(addr)
		}
		if !seen[op.Prov] {
			// the first write of a provider goes through ristretto's asynchronous set buffer: wait (logical condition,
			// not a verdict) until the optimizer reports the sample before feeding the next one
			seen[op.Prov] = true
			ok := false
			for spin := 0; spin < 400000; spin++ {
				if _, tm := opt.GetReputationReportForProvider(addr); tm.Equal(clock) {
					ok = true
					break
				}
				time.Sleep(20 * time.Microsecond)
			}
			if !ok {
				res.inconcl = append(res.inconcl, fmt.Sprintf("optimizer config %d: first sample of %s never became visible", cfg.Index, addr))
				return res
			}
		}
	}
	res.count("optimizer_samples_fed", len(cfg.Feed))

	// expected weights: an independent selector instance built from the optimizer's own configuration
	// (same strategy, weights, min chance and the optimizer's live adaptive-bounds getters) over the
	// QoS reports the optimizer exposes
	refWeights := func() []po.ProviderScore {
		ref := po.NewWeightedSelector(opt.GetWeightedSelectorConfig())
		sc, _, _ := ref.CalculateProviderScores(all, ignored, func(a string) (*pairingtypes.QualityOfServiceReport, time.Time, bool) {
			q, tm := opt.GetReputationReportForProvider(a)
			return q, tm, q != nil
		}, func(a string) int64 { return stakes[a] })
		return sc
	}
	scores := refWeights()
	gcfg := opt.GetWeightedSelectorConfig()
	o := &drawOracle{res: res, cfg: cfg, allowed: allowed, eligible: len(allowed), minCh: gcfg.MinSelectionChance}
	o.checkWeights(scores, classOf)
	if gcfg.AdaptiveLatencyGetter != nil {
		a, b := gcfg.AdaptiveLatencyGetter()
		cfg.Sel.AdLat = [2]string{fstr(a), fstr(b)}
		a, b = gcfg.AdaptiveSyncGetter()
		cfg.Sel.AdSync = [2]string{fstr(a), fstr(b)}
		res.count("optimizer_configs_with_tdigest_bounds", 1)
	}
	counts := map[string]int64{}
	var empties int64
	ctx := context.Background()
	draws := cfg.Draws
	if len(allowed) == 0 {
		draws = 3
		res.count("configs_without_eligible_candidate", 1)
	}
	r := vrand.Sub(seed, "c35-optimizer-args", cfg.Index)
	mismatch := 0
	for d := 0; d < draws; d++ {
		var got []string
		cu, reqBlock := uint64(r.Intn(100)), int64(r.Intn(5000))-1
		switch d % 4 {
		case 0:
			var st *po.SelectionStats
			got, st = opt.ChooseProviderWithStats(ctx, all, ignored, cu, reqBlock)
			if d == 0 && st != nil {
				for i, ps := range st.ProviderScores {
					if i >= len(scores) || ps.Address != scores[i].Address || ps.Composite != scores[i].SelectionWeight {
						mismatch++
					}
				}
			}
		case 1:
			got = opt.ChooseProvider(ctx, all, ignored, cu, reqBlock)
		case 2:
			got = opt.ChooseBestProvider(ctx, all, ignored, cu, reqBlock)
		case 3:
			got, _ = opt.ChooseBestProviderWithStats(ctx, all, ignored, cu, reqBlock)
		}
		switch {
		case len(got) == 0 || got[0] == "":
			empties++
		default:
			for _, a := range got {
				counts[a]++
			}
			if len(got) != 1 {
				res.count("optimizer_multi_address_returns", 1)
			}
		}
	}
	res.count("draws", draws)
	res.count("optimizer_stats_weight_mismatch", mismatch)
	// the optimizer state must not have moved during the draws (nothing was fed): same expected weights after
	after := refWeights()
	same := len(after) == len(scores)
	for i := 0; same && i < len(after); i++ {
		same = after[i] == scores[i]
	}
	if !same {
		res.inconcl = append(res.inconcl, fmt.Sprintf("optimizer config %d: reference weights changed during the draws", cfg.Index))
		return res
	}
	o.judge(scores, counts, empties)
	res.sig = cfgSignature(cfg, scores)
	if cfg.Index < 2 {
		res.sample = map[string]any{"config": cfg.Index, "path": "optimizer", "candidates": len(all), "ignored": len(cfg.Ignored), "samples_fed": len(cfg.Feed),
			"strategy": cfg.Sel.Strategy, "adaptive_latency_bounds": cfg.Sel.AdLat, "fit": res.fit}
	}

	// stake up (other stakes, QoS state and adaptive bounds untouched) must not lower the provider's weight
	cands := []string{}
	for a := range allowed {
		if stakes[a] < maxStake {
			cands = append(cands, a)
		}
	}
	sort.Strings(cands)
	for j := 0; j < 3 && len(cands) > 0; j++ {
		a := vrand.Pick(r, cands)
		w1 := weightIn(refWeights(), a)
		s1 := stakes[a]
		s2 := s1 + 1 + int64(logU(r, 1e-9, 1)*float64(maxStake-s1))
		if s2 > maxStake {
			s2 = maxStake
		}
		opt.UpdateWeights(map[string]int64{a: s2}, 2)
		stakes[a] = s2
		_, st := opt.ChooseProviderWithStats(ctx, all, ignored, 10, 0)
		w2 := math.NaN()
		if st != nil {
			for _, ps := range st.ProviderScores {
				if ps.Address == a {
					w2 = ps.Composite
				}
			}
		}
		res.count("mono_pairs_stake-up", 1)
		if w2 > w1 {
			res.count("mono_strict_increase_stake-up", 1)
		}
		if !(w2 >= w1-monoTol) {
			res.viol = append(res.viol, violation{"weight-decreases-when-metric-improves", "stake-up | optimizer-update-weights | strategy=" + cfg.Sel.Strategy,
				fmt.Sprintf("stake of %s raised %d -> %d through UpdateWeights, weight went %v -> %v", a, s1, s2, w1, w2),
				map[string]any{"config": cfg, "pair": monoPair{"stake-up", "optimizer-update-weights", strconv.FormatInt(s1, 10), strconv.FormatInt(s2, 10), w1, w2}}})
		}
	}
	return res
}

func weightIn(sc []po.ProviderScore, a string) float64 {
	for _, s := range sc {
		if s.Address == a {
			return s.SelectionWeight
		}
	}
	return math.NaN()
}

// ---------------------------------------------------------------- the check

func TestC35(t *testing.T) {
	run := ev.Start("C35")
	utils.SetGlobalLoggingLevel("fatal")
	nSel := run.Pick(200, 3000)
	draws := run.Pick(20000, 100000)
	nOpt := run.Pick(50, 600)
	optDraws := run.Pick(20000, 60000)
	pairsPerDim := 10

	type job struct {
		opt bool
		idx int
	}
	jobs := []job{}
	for i := 0; i < nSel; i++ {
		jobs = append(jobs, job{false, i})
	}
	for i := 0; i < nOpt; i++ {
		jobs = append(jobs, job{true, i})
	}
	results := make([]*result, len(jobs))
	var wg sync.WaitGroup
	next := make(chan int)
	workers := min(8, runtime.GOMAXPROCS(0))
	for w := 0; w < workers; w++ {
		wg.Add(1)
		go func() {
			defer wg.Done()
			for k := range next {
				if jobs[k].opt {
					results[k] = runOptimizer(run.Seed, genOptimizerConfig(run.Seed, jobs[k].idx, optDraws))
				} else {
					results[k] = runSelector(run.Seed, genConfig(run.Seed, jobs[k].idx, draws), pairsPerDim)
				}
			}
		}()
	}
	for k := range jobs {
		next <- k
	}
	close(next)
	wg.Wait()

	// everything below is sequential and in job order, so evidence and verdict are deterministic per seed
	classes := map[string]int{}
	var bias []float64
	var minP float64 = 1
	for _, res := range results {
		cfg := res.cfg
		run.Eval(1)
		for k, v := range res.counters {
			run.Count(k, v)
			if strings.HasPrefix(k, "mono_pairs_") {
				run.Eval(v)
			}
		}
		for _, s := range res.inconcl {
			run.Inconclusive(s)
		}
		for _, v := range res.viol {
			run.Violation(v.rule, v.sig, v.desc, v.witness)
		}
		if res.nontrivial {
			run.Nontrivial(res.sig)
		}
		if res.sample != nil {
			run.Sample(res.sample)
		}
		if res.tested {
			run.Count("gof_tests_"+cfg.Path, 1)
			bias = append(bias, res.fit.RelBias50)
			if res.fit.P < minP {
				minP = res.fit.P
			}
			classes["strategy:"+cfg.Sel.Strategy]++
			classes["path:"+cfg.Path]++
			if len(cfg.Ignored) > 0 {
				classes["ignored-set-nonempty"]++
			}
			stakesSeen := map[int64]bool{}
			for _, p := range cfg.Provs {
				stakesSeen[p.Stake] = true
				if cfg.Path == "selector" {
					classes["qos:"+p.Class]++
				}
			}
			if len(stakesSeen) > 1 {
				classes["unequal-stakes"]++
			}
			if cfg.Path == "selector" {
				classes["adaptive-latency:"+cfg.Sel.AdLatMode]++
				classes["adaptive-sync:"+cfg.Sel.AdSyncMode]++
			}
			if len(cfg.Provs) >= 20 {
				classes["candidates>=20"]++
			}
			if len(cfg.Provs) <= 3 {
				classes["candidates<=3"]++
			}
		}
	}
	for k, v := range classes {
		run.Count("class_"+k, v)
	}
	need := []string{"path:selector", "path:optimizer", "ignored-set-nonempty", "unequal-stakes", "qos:normal", "qos:extreme", "qos:unparsable", "qos:missing",
		"qos:awful", "qos:perfect", "adaptive-latency:valid", "adaptive-latency:invalid", "adaptive-latency:off", "adaptive-sync:valid", "adaptive-sync:invalid",
		"candidates>=20", "candidates<=3"}
	for _, s := range strategies {
		need = append(need, "strategy:"+s.String())
	}
	for _, k := range need {
		run.Require("class exercised in a goodness-of-fit config: "+k, classes[k] > 0)
	}
	for _, d := range []string{"availability-up", "latency-down", "sync-down", "stake-up"} {
		run.Require("metamorphic pairs with a strict weight increase: "+d, run.Counter("mono_strict_increase_"+d) > 0)
	}
	run.Require("min-selection-chance clamp active for some weight", run.Counter("weights_at_min_clamp") > 0)
	run.Require("a config without any eligible candidate (empty selection expected)", run.Counter("configs_without_eligible_candidate") > 0)
	run.Require("optimizer configs with T-digest adaptive bounds", run.Counter("optimizer_configs_with_tdigest_bounds") > 0)

	mn, med, mx := gof.Quantiles(bias)
	run.Set("statistics", map[string]any{
		"alpha": gof.Alpha, "draws_per_selector_config": draws, "draws_per_optimizer_config": optDraws,
		"test":                               "Pearson X2 and likelihood-ratio G on cells with expected count >= 10 (smaller cells pooled); fires only if BOTH p-values < alpha",
		"smallest_p_value_seen":              minP,
		"rel_bias_of_top_cell_detectable_50": map[string]float64{"best_config": mn, "median_config": med, "worst_config": mx},
		"power_note":                         "relative over/under-selection e of the most probable candidate (p -> p(1+e)) rejected with ~50% probability: e = sqrt((crit(df,1e-9)-df)(1-p)/(N p)); e.g. 2 equal candidates at N=20000: 4.2%, 30 equal candidates: 33%",
		"must_appear_threshold":              mustAppearExp,
		"monotonicity_tolerance":             monoTol,
	})
	run.Finish("generated selector configurations (2-30 candidates, 7 strategies, default/random metric weights, min chance 1e-6..0.3, adaptive P10-P90 bounds off/valid/invalid, QoS reports normal/perfect/awful/extreme/unparsable/missing/nil, stakes 0..1e15 in 6 regimes, ignored sets none/few/most/all/foreign) drawn N times through the real SelectProviderWithStats with its PRNG seeded from VERIF_SEED, and optimizer configurations (2-12 providers fed with probe/relay samples on a virtual clock, optional T-digest adaptive bounds) drawn through ChooseProvider / ChooseProviderWithStats / ChooseBestProvider / ChooseBestProviderWithStats (one PRNG stream); plus metamorphic CalculateScore / CalculateProviderScores / UpdateWeights pairs. evaluations = configurations + metamorphic pairs. A configuration is non-trivial when at least two candidates with different weights were eligible and the goodness-of-fit test had df >= 1; distinct = distinct (path, strategy, weights, min chance, candidate weight vector)",
		(nSel+nOpt)/2,
		"weights are the SelectionWeight values CalculateProviderScores hands to the draw (optimizer path: recomputed by an independent selector instance from the optimizer's exported config and QoS reports)",
		"a weight decrease below 1e-12 is treated as floating-point noise",
		"'a candidate has QoS data' is read as: a non-ignored candidate for which the data getter returns a report",
		"'everything else fixed' = the provider's other QoS fields, the other providers' stakes, selector weights/strategy/min chance and the adaptive P10-P90 bounds; the normalised stake of OTHER providers may legitimately drop when one stake grows",
		"selection-weight domain: min selection chance in (0, 0.3], stakes <= 1e15 (float64-exact), latency/sync >= 0 in monotonicity pairs")
}
