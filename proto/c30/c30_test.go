//go:build verif

// C30 — chain tracker mirrors the node's canonical chain.
//
// Runtime monitor: the real ChainTracker (built by the real constructor, polled through hook H4
// VerifPollOnce = fetchAllPreviousBlocksIfNecessary) follows a simulated node that is a real hash
// chain (hash = H(parent, salt)). After every poll that returned nil the tracker is compared with
// the node's CURRENT chain; the fork callback log is compared with "a previously stored
// (height -> hash) changed"; GetLatestBlockData is queried over a grid of (from, to, specific).
package c30

import (
	"context"
	"crypto/sha256"
	"encoding/hex"
	"errors"
	"fmt"
	"net"
	"sort"
	"testing"
	"time"

	"github.com/lavanet/lava/v5/protocol/chaintracker"
	"github.com/lavanet/lava/v5/protocol/lavasession"
	"github.com/lavanet/lava/v5/utils"
	lavarand "github.com/lavanet/lava/v5/utils/rand"
	spectypes "github.com/lavanet/lava/v5/x/spec/types"

	"verif/internal/ev"
	"verif/internal/vrand"
)

// ---------------------------------------------------------------- simulated node

type simNode struct {
	first  int64    // height of hashes[0]
	hashes []string // hashes[i] is the hash of height first+i
	salt   uint64

	// error plan of the current poll
	failLatest bool
	failHashAt int // fail the n-th FetchBlockHashByNum call of this poll (-1: none)
	netErr     bool
	hashCalls  int

	nLatest, nHash, errLatest, errHash, unknownHeight int
}

func mkHash(parent string, salt uint64) string {
	h := sha256.Sum256([]byte(fmt.Sprintf("%s|%d", parent, salt)))
	return hex.EncodeToString(h[:8])
}

func (n *simNode) latest() int64 { return n.first + int64(len(n.hashes)) - 1 }

func (n *simNode) hashAt(h int64) (string, bool) {
	if h < n.first || h > n.latest() {
		return "", false
	}
	return n.hashes[h-n.first], true
}

func (n *simNode) appendBlocks(k int) {
	for i := 0; i < k; i++ {
		parent := "genesis"
		if len(n.hashes) > 0 {
			parent = n.hashes[len(n.hashes)-1]
		}
		n.salt++
		n.hashes = append(n.hashes, mkHash(parent, n.salt))
	}
}

// reorg replaces the last d blocks by a new branch of newLen blocks (fresh salts => every replaced
// height gets a different hash, and so do all its descendants).
func (n *simNode) reorg(d, newLen int) {
	n.hashes = n.hashes[:len(n.hashes)-d]
	n.appendBlocks(newLen)
}

func (n *simNode) transient(what string) error {
	if n.netErr {
		return fmt.Errorf("simulated node %s: %w", what, &net.OpError{Op: "dial", Net: "tcp", Err: errors.New("connection refused")})
	}
	return fmt.Errorf("simulated node %s: temporarily unavailable", what)
}

func (n *simNode) FetchLatestBlockNum(ctx context.Context) (int64, error) {
	n.nLatest++
	if n.failLatest {
		n.failLatest = false
		n.errLatest++
		return 0, n.transient("latest")
	}
	return n.latest(), nil
}

func (n *simNode) FetchBlockHashByNum(ctx context.Context, blockNum int64) (string, error) {
	n.nHash++
	idx := n.hashCalls
	n.hashCalls++
	if idx == n.failHashAt {
		n.errHash++
		return "", n.transient("hash")
	}
	h, ok := n.hashAt(blockNum)
	if !ok {
		n.unknownHeight++
		return "", fmt.Errorf("simulated node: no block %d (have %d..%d)", blockNum, n.first, n.latest())
	}
	return h, nil
}

func (n *simNode) FetchEndpoint() lavasession.RPCProviderEndpoint {
	return lavasession.RPCProviderEndpoint{ChainID: "SIM", ApiInterface: "jsonrpc"}
}

func (n *simNode) CustomMessage(ctx context.Context, path string, data []byte, connectionType string, apiName string) ([]byte, error) {
	return nil, errors.New("not supported")
}

// ---------------------------------------------------------------- ops / witness

type op struct {
	Op string `json:"op"` // adv | reorg | poll | init
	K  int    `json:"k,omitempty"`
	D  int    `json:"d,omitempty"`
	N  int    `json:"n,omitempty"`
	FL bool   `json:"fail_latest,omitempty"`
	FH int    `json:"fail_hash_at,omitempty"` // 1-based, 0 = none
	NE bool   `json:"net_err,omitempty"`
	R  string `json:"result,omitempty"`
}

type seqCfg struct {
	Seq        int    `json:"sequence"`
	Mem        int    `json:"blocks_to_save"`
	ServerMem  uint64 `json:"server_block_memory"`
	First      int64  `json:"first_height"`
	InitialLen int    `json:"initial_len"`
	OldBlockCb bool   `json:"old_block_callback"`
	// DeeperForks: this sequence may contain a reorg of depth memory+1 (outside the statement: after it only "no panic" is checked)
	DeeperForks bool `json:"deeper_forks"`
}

type classes struct {
	fork1, forkMemM1, forkMem, forkDeeper         int
	gapAndFork, gapBeyondMem, shorterReorg        int
	pollBehind, errLatest, errHash, noChange      int
	okPolls, failedPolls, forkCb, newLatestCb     int
	qOK, qErr, qNeg, qSpecOutside, qUnderflowSkip int
	qOutOfMemErr, outOfStatementPolls, initOK     int
	consistencyCb, oldBlockCb, fetchErrCb         int
}

func argClass(a int64) string {
	switch {
	case a == spectypes.NOT_APPLICABLE:
		return "NA"
	case a <= spectypes.LATEST_BLOCK:
		return "rel"
	default:
		return "abs"
	}
}

// resolve re-states how a block argument is read: >=0 absolute; NOT_APPLICABLE ignored;
// LATEST_BLOCK - X means latest - X. ok=false when latest - X is negative (the statement does not
// say what such a request means; those queries are not judged).
func resolve(a, latest int64) (v int64, ignore, ok bool) {
	if a == spectypes.NOT_APPLICABLE {
		return 0, true, true
	}
	if a >= 0 {
		return a, false, true
	}
	x := spectypes.LATEST_BLOCK - a
	r := latest - x
	if r < 0 {
		return 0, false, false
	}
	return r, false, true
}

func TestC30(t *testing.T) {
	run := ev.Start("C30")
	utils.SetGlobalLoggingLevel("fatal")
	lavarand.SetSpecificSeed(run.Seed)
	nseq := run.Pick(2000, 40000)
	nsteps := run.Pick(30, 60)
	var cl classes
	ctx := context.Background()

	for s := 0; s < nseq && run.Violations() < 5; s++ {
		rng := vrand.Sub(run.Seed, "c30", s)
		mem := 1 + rng.Intn(20)
		if rng.Intn(4) == 0 {
			mem = 1 + rng.Intn(4)
		}
		cfg := seqCfg{Seq: s, Mem: mem, OldBlockCb: rng.Intn(2) == 0, DeeperForks: rng.Intn(4) == 0}
		switch rng.Intn(3) {
		case 0:
			cfg.ServerMem = 0 // validate() turns it into DefaultAssumedBlockMemory (20)
		case 1:
			cfg.ServerMem = uint64(mem)
		default:
			cfg.ServerMem = uint64(mem + 1 + rng.Intn(100))
		}
		cfg.First = []int64{0, 1, 7, 1000 + int64(rng.Intn(5_000_000))}[rng.Intn(4)]
		cfg.InitialLen = mem + rng.Intn(mem+3)
		node := &simNode{first: cfg.First, failHashAt: -1}
		node.appendBlocks(cfg.InitialLen)

		var ops []op
		forkFired, newLatestFired := 0, 0
		var forkArg int64
		tcfg := chaintracker.ChainTrackerConfig{
			BlocksToSave:          uint64(mem),
			AverageBlockTime:      time.Second,
			ServerBlockMemory:     cfg.ServerMem,
			ParseDirectiveEnabled: true,
			ForkCallback:          func(b int64) { forkFired++; forkArg = b; cl.forkCb++ },
			NewLatestCallback:     func(from, to int64, hash string) { newLatestFired++; cl.newLatestCb++ },
			ConsistencyCallback:   func(o, n int64) { cl.consistencyCb++ },
			FetchErrorCallback:    func() { cl.fetchErrCb++ },
		}
		if cfg.OldBlockCb {
			tcfg.OldBlockCallback = func(time.Time) { cl.oldBlockCb++ }
		}
		fail := func(rule, sig, desc string) {
			run.Violation(rule, sig, desc, map[string]any{"config": cfg, "ops": ops})
		}
		ct, err := chaintracker.VerifNewChainTracker(ctx, node, tcfg)
		if err != nil {
			fail("constructor-failed", "NewChainTracker", err.Error())
			continue
		}

		inStatement := true
		ok := true
		seqFork, seqAdvance := false, false

		// compare runs the full comparison after a poll/init that returned nil.
		compare := func(where string, prev []chaintracker.BlockStore, firedNow int, isInit bool) bool {
			nl := node.latest()
			if got := ct.GetAtomicLatestBlockNum(); got != nl {
				fail("latest-differs", where, fmt.Sprintf("tracker latest %d, node latest %d", got, nl))
				return false
			}
			if gl, _ := ct.GetLatestBlockNum(); gl != nl {
				fail("latest-differs", where+"/GetLatestBlockNum", fmt.Sprintf("tracker latest %d, node latest %d", gl, nl))
				return false
			}
			st := ct.VerifStoredBlocks()
			if len(st) != mem {
				fail("stored-count-differs", where, fmt.Sprintf("stored %d blocks, blocksToSave %d: %v", len(st), mem, st))
				return false
			}
			for i, b := range st {
				wantH := nl - int64(mem-1) + int64(i)
				if b.Block != wantH {
					fail("stored-heights-not-consecutive", where, fmt.Sprintf("index %d holds height %d, want %d (latest %d): %v", i, b.Block, wantH, nl, st))
					return false
				}
				nh, have := node.hashAt(b.Block)
				if !have || nh != b.Hash {
					fail("stored-hash-differs", where, fmt.Sprintf("height %d stored %q node %q (latest %d, depth %d)", b.Block, b.Hash, nh, nl, nl-b.Block))
					return false
				}
			}
			if isInit {
				return true
			}
			changedCount := 0
			for _, p := range prev {
				if nh, have := node.hashAt(p.Block); !have || nh != p.Hash {
					changedCount++
				}
			}
			changed := changedCount > 0
			if changed && firedNow == 0 {
				fail("fork-callback-missing", where, fmt.Sprintf("a stored hash changed but the fork callback did not fire; before %v after %v", prev, st))
				return false
			}
			if !changed && firedNow > 0 {
				fail("fork-callback-spurious", where, fmt.Sprintf("fork callback fired %d time(s) (arg %d) although no stored (height->hash) changed; before %v after %v", firedNow, forkArg, prev, st))
				return false
			}
			adv := int64(0)
			if len(prev) > 0 {
				adv = nl - prev[len(prev)-1].Block
			}
			if changed {
				seqFork = true
				if changedCount == 1 {
					cl.fork1++
				}
				if changedCount == mem-1 && mem >= 3 {
					cl.forkMemM1++
				}
				if changedCount == mem && mem >= 2 {
					cl.forkMem++
				}
				if adv >= 2 {
					cl.gapAndFork++
				}
			}
			if adv > 0 {
				seqAdvance = true
			}
			if adv > int64(mem) {
				cl.gapBeyondMem++
			}
			if adv == 0 && !changed {
				cl.noChange++
			}
			return true
		}

		// query asks GetLatestBlockData and judges the answer.
		query := func(from, to, spec int64) bool {
			nl := node.latest()
			earliest := nl - int64(mem-1)
			f, ignF, okF := resolve(from, nl)
			tt, ignT, okT := resolve(to, nl)
			sp, ignS, okS := resolve(spec, nl)
			if !okF || !okT || !okS {
				cl.qUnderflowSkip++
				func() {
					defer func() {
						if r := recover(); r != nil {
							fail("panic-in-query", fmt.Sprintf("%s/%s/%s", argClass(from), argClass(to), argClass(spec)), fmt.Sprintf("GetLatestBlockData(%d,%d,%d): %v", from, to, spec, r))
							ok = false
						}
					}()
					ct.GetLatestBlockData(from, to, spec)
				}()
				return ok
			}
			ignRange := ignF || ignT
			want := map[int64]bool{}
			if !ignRange {
				for h := f; h <= tt; h++ {
					want[h] = true
					if len(want) > 4*mem+16 {
						break
					}
				}
			}
			if !ignS {
				want[sp] = true
			}
			var wantL []int64
			for h := range want {
				wantL = append(wantL, h)
			}
			sort.Slice(wantL, func(i, j int) bool { return wantL[i] < wantL[j] })
			sig := fmt.Sprintf("%s/%s/%s", argClass(from), argClass(to), argClass(spec))
			var gotLatest int64
			var got []*chaintracker.BlockStore
			var qerr error
			panicked := false
			func() {
				defer func() {
					if r := recover(); r != nil {
						panicked = true
						fail("panic-in-query", sig, fmt.Sprintf("GetLatestBlockData(%d,%d,%d) latest %d: %v", from, to, spec, nl, r))
					}
				}()
				gotLatest, got, _, qerr = ct.GetLatestBlockData(from, to, spec)
			}()
			if panicked {
				return false
			}
			if qerr != nil {
				cl.qErr++
				for _, h := range wantL {
					if h < earliest || h > nl {
						cl.qOutOfMemErr++
						break
					}
				}
				return true
			}
			desc := func() string {
				var gl []string
				for _, b := range got {
					gl = append(gl, fmt.Sprintf("%d:%s", b.Block, b.Hash))
				}
				return fmt.Sprintf("GetLatestBlockData(from=%d,to=%d,specific=%d) with latest %d earliest %d returned latest=%d blocks=%v, requested heights %v", from, to, spec, nl, earliest, gotLatest, gl, wantL)
			}
			if ignRange && ignS {
				fail("query-nothing-requested-succeeded", sig, desc())
				return false
			}
			if gotLatest != nl {
				fail("query-latest-differs", sig, desc())
				return false
			}
			if len(got) != len(wantL) {
				fail("query-wrong-blocks", sig, desc())
				return false
			}
			for i, b := range got {
				nh, have := node.hashAt(b.Block)
				if b.Block != wantL[i] || !have || nh != b.Hash {
					fail("query-wrong-blocks", sig, desc())
					return false
				}
			}
			cl.qOK++
			if from <= spectypes.LATEST_BLOCK || to <= spectypes.LATEST_BLOCK || spec <= spectypes.LATEST_BLOCK {
				cl.qNeg++
			}
			if !ignRange && !ignS && (sp < f || sp > tt) {
				cl.qSpecOutside++
			}
			return true
		}

		gridArgs := func() []int64 {
			nl := node.latest()
			earliest := nl - int64(mem-1)
			mid := earliest + int64(mem/2)
			L := spectypes.LATEST_BLOCK
			a := []int64{
				spectypes.NOT_APPLICABLE, L, L - 1, L - int64(mem/2), L - int64(mem-1), L - int64(mem), L - int64(mem+1),
				earliest - 1, earliest, earliest + 1, mid, nl - 1, nl, nl + 1,
			}
			var out []int64
			seen := map[int64]bool{}
			for _, x := range a {
				if x >= 0 || x <= spectypes.NOT_APPLICABLE {
					if !seen[x] {
						seen[x] = true
						out = append(out, x)
					}
				}
			}
			return out
		}
		fullGridAt := rng.Intn(nsteps)
		queries := func(step int) bool {
			args := gridArgs()
			if step == fullGridAt {
				for _, f := range args {
					for _, tt := range args {
						for _, sp := range args {
							if !query(f, tt, sp) {
								return false
							}
						}
					}
				}
				return true
			}
			for i := 0; i < 24; i++ {
				if !query(vrand.Pick(rng, args), vrand.Pick(rng, args), vrand.Pick(rng, args)) {
					return false
				}
			}
			return true
		}

		// one poll (or init) with an error plan, under recover
		doPoll := func(isInit bool, step int) bool {
			o := op{Op: "poll"}
			if isInit {
				o.Op = "init"
			}
			node.failLatest, node.failHashAt, node.netErr, node.hashCalls = false, -1, false, 0
			if rng.Intn(100) < 22 {
				if rng.Intn(3) == 0 {
					node.failLatest, o.FL = true, true
				} else {
					node.failHashAt = rng.Intn(mem + 1)
					if rng.Intn(3) == 0 {
						node.failHashAt = 0
					}
					o.FH = node.failHashAt + 1
				}
				if cfg.OldBlockCb && rng.Intn(2) == 0 {
					node.netErr, o.NE = true, true
				}
			}
			prev := ct.VerifStoredBlocks()
			prevLatest := ct.GetAtomicLatestBlockNum()
			fired0 := forkFired
			e0l, e0h := node.errLatest, node.errHash
			var perr error
			panicked := false
			func() {
				defer func() {
					if r := recover(); r != nil {
						panicked = true
						o.R = fmt.Sprintf("panic: %v", r)
						ops = append(ops, o)
						fail("panic-in-poll", o.Op, fmt.Sprintf("%v (in statement: %v)", r, inStatement))
					}
				}()
				if isInit {
					perr = ct.VerifInit(ctx)
				} else {
					perr = ct.VerifPollOnce(ctx)
				}
			}()
			if panicked {
				return false
			}
			cl.errLatest += node.errLatest - e0l
			cl.errHash += node.errHash - e0h
			if perr != nil {
				o.R = "err"
				ops = append(ops, o)
				cl.failedPolls++
				if !isInit && node.latest() < prevLatest {
					cl.pollBehind++
				}
				return true
			}
			o.R = "ok"
			ops = append(ops, o)
			if !inStatement {
				cl.outOfStatementPolls++
				// outside the statement: only "no panic", also for queries
				for _, a := range gridArgs() {
					func() {
						defer func() {
							if r := recover(); r != nil {
								fail("panic-in-query", "out-of-statement", fmt.Sprint(r))
								ok = false
							}
						}()
						ct.GetLatestBlockData(a, spectypes.LATEST_BLOCK, a)
					}()
				}
				return ok
			}
			cl.okPolls++
			if isInit {
				cl.initOK++
			}
			where := "poll"
			if isInit {
				where = "init"
			}
			if !compare(where, prev, forkFired-fired0, isInit) {
				return false
			}
			return queries(step)
		}

		// init (production aborts when init fails; here it is simply retried)
		inited := false
		for try := 0; try < 6 && ok; try++ {
			n0 := cl.okPolls
			ok = doPoll(true, -1)
			if ok && cl.okPolls > n0 {
				inited = true
				break
			}
		}
		if ok && !inited {
			// six inits in a row hit injected errors: not a property event, skip the sequence
			run.Count("sequences_init_never_succeeded", 1)
			continue
		}

		for step := 0; step < nsteps && ok; step++ {
			nops := vrand.Weighted(rng, []int{15, 60, 25})
			for j := 0; j < nops; j++ {
				L := len(node.hashes)
				switch vrand.Weighted(rng, []int{55, 12, 33}) {
				case 0: // advance by 1..3
					k := 1 + rng.Intn(3)
					node.appendBlocks(k)
					ops = append(ops, op{Op: "adv", K: k})
				case 1: // gap: up to beyond memory
					k := 2 + rng.Intn(mem+4)
					node.appendBlocks(k)
					ops = append(ops, op{Op: "adv", K: k})
				default: // reorg
					var d int
					switch vrand.Weighted(rng, []int{30, 15, 20, 6, 29}) {
					case 0:
						d = 1
					case 1:
						d = mem - 1
					case 2:
						d = mem
					case 3:
						d = mem + 1
						if !cfg.DeeperForks {
							d = mem
						}
					default:
						d = 1 + rng.Intn(mem)
					}
					if d < 1 {
						d = 1
					}
					if d > L {
						d = L
					}
					// new branch: same length, longer, or shorter (never below blocksToSave blocks on the node)
					var n int
					switch vrand.Weighted(rng, []int{35, 45, 20}) {
					case 0:
						n = d
					case 1:
						n = d + 1 + rng.Intn(3)
					default:
						n = rng.Intn(d) // shorter: 0..d-1
					}
					for L-d+n < mem {
						n++
					}
					if n < d {
						cl.shorterReorg++
					}
					node.reorg(d, n)
					ops = append(ops, op{Op: "reorg", D: d, N: n})
					if d > mem {
						inStatement = false
						cl.forkDeeper++
					}
				}
			}
			ok = doPoll(false, step)
		}

		run.Eval(1)
		if ok && seqFork && seqAdvance {
			run.Nontrivial(fmt.Sprintf("%+v|%v", cfg, ops))
		}
		if s < 3 {
			run.Sample(map[string]any{"config": cfg, "ops": ops[:min(len(ops), 14)]})
		}
	}

	cnt := map[string]int{
		"polls_ok_compared": cl.okPolls, "polls_failed": cl.failedPolls, "inits_ok": cl.initOK,
		"fork_callbacks": cl.forkCb, "new_latest_callbacks": cl.newLatestCb, "consistency_callbacks": cl.consistencyCb,
		"old_block_callbacks": cl.oldBlockCb, "fetch_error_callbacks": cl.fetchErrCb,
		"fork_depth_1_seen": cl.fork1, "fork_depth_mem_minus_1_seen": cl.forkMemM1, "fork_depth_mem_seen": cl.forkMem,
		"reorg_deeper_than_memory_ops": cl.forkDeeper, "polls_after_deeper_fork_no_panic": cl.outOfStatementPolls,
		"gap_and_fork_in_one_poll": cl.gapAndFork, "gap_beyond_memory": cl.gapBeyondMem, "reorg_to_shorter_chain": cl.shorterReorg,
		"polls_failed_node_behind_tracker": cl.pollBehind, "transient_errors_latest_rpc": cl.errLatest, "transient_errors_hash_rpc": cl.errHash,
		"polls_nothing_changed": cl.noChange, "queries_ok_exact": cl.qOK, "queries_error": cl.qErr, "queries_ok_with_latest_relative_args": cl.qNeg,
		"queries_ok_specific_outside_range": cl.qSpecOutside, "queries_error_out_of_memory_request": cl.qOutOfMemErr,
		"queries_not_judged_latest_minus_x_negative": cl.qUnderflowSkip,
	}
	for k, v := range cnt {
		run.Count(k, v)
	}
	{
		for _, k := range []string{
			"polls_ok_compared", "inits_ok", "fork_callbacks", "fork_depth_1_seen", "fork_depth_mem_minus_1_seen", "fork_depth_mem_seen",
			"reorg_deeper_than_memory_ops", "polls_after_deeper_fork_no_panic", "gap_and_fork_in_one_poll", "gap_beyond_memory",
			"reorg_to_shorter_chain", "polls_failed_node_behind_tracker", "transient_errors_latest_rpc", "transient_errors_hash_rpc",
			"polls_nothing_changed", "queries_ok_exact", "queries_error", "queries_ok_with_latest_relative_args",
			"queries_ok_specific_outside_range", "queries_error_out_of_memory_request",
		} {
			run.Require("class exercised: "+k, cnt[k] > 0)
		}
	}
	run.Finish("PRNG sequences of node operations (advance 1..3, gaps up to memory+5, reorgs of depth 1 / memory-1 / memory / random<=memory with a same-length, longer or shorter new branch, transient errors on either RPC at a chosen call index, plain or net.Error) against the real ChainTracker, blocksToSave 1..20, one VerifPollOnce per step; after every poll that returned nil: latest, the exact stored (height,hash) list, fork callback iff a previously stored hash changed, and a (from,to,specific) query grid incl. LATEST-X arguments are compared with the node's current chain. After a reorg deeper than memory only 'no panic' is demanded. A sequence is non-trivial when at least one compared poll saw a stored hash change (fork) and at least one advanced latest; distinct = distinct (config, op list)", nseq/4,
		"the node does not change while a poll is running (one poll per step)",
		"the node answers every height between its first block and its latest and has at least blocksToSave blocks",
		"requests LATEST-X with X > latest (negative height) are not judged: the statement does not define them (the code reads them as 'latest')",
		"ServerBlockMemory >= blocksToSave-1 (production uses 100+blocksToSave)")
}
