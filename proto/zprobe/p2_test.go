//go:build verif

package zprobe

import (
	"fmt"
	"testing"
	"time"

	"github.com/lavanet/lava/v5/protocol/chainlib/extensionslib"
	"verif/proto/parsekit"
)

func TestProbe2(t *testing.T) {
	parsekit.Quiet()
	for _, c := range [][2]string{{"ETH1", "jsonrpc"}, {"STRK", "jsonrpc"}, {"LAVA", "rest"}, {"XRP", "jsonrpc"}} {
		t0 := time.Now()
		cp, _, err := parsekit.NewParser(c[0], c[1])
		if err != nil {
			t.Fatal(err)
		}
		t1 := time.Now()
		url, data, conn := "/", `{"jsonrpc":"2.0","id":1,"method":"eth_getBalance","params":["0x00","0x10"]}`, "POST"
		if c[1] == "rest" {
			url, data, conn = "/cosmos/bank/v1beta1/balances/cosmos1abc", "", "GET"
		}
		n := 300
		for i := 0; i < n; i++ {
			cp.ParseMsg(url, []byte(data), conn, nil, extensionslib.ExtensionInfo{LatestBlock: 100})
		}
		fmt.Printf("%v load=%v parse=%v/op\n", c, t1.Sub(t0), time.Since(t1)/time.Duration(n))
	}
}
